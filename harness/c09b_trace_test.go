package harness

// C09 (custody backing) trace emission for coq/Models/PerpBacking.v: after every transaction and block the step is
// classified from the amm reserves, the perpetual pool aggregates, the MTP store, the bank events and the perpetual events
// into the units of the model (amm operation + hook check, open / consolidation, user close, ClosePositions items), and the
// observed reserve / custody / collateral / liabilities numbers are attached.  Also: directed operations that bring the
// pool to the edge (proportional exit down to reserve = custody + margin; advancing the clock to the first second at which
// settling a long position leaves the long open interest at exactly zero).

import (
	"fmt"
	"sort"
	"strconv"
	"strings"
	"time"

	sdkmath "cosmossdk.io/math"
	"cosmossdk.io/store/prefix"
	storetypes "cosmossdk.io/store/types"
	abci "github.com/cometbft/cometbft/abci/types"
	sdk "github.com/cosmos/cosmos-sdk/types"
	authtypes "github.com/cosmos/cosmos-sdk/x/auth/types"

	ammtypes "github.com/elys-network/elys/x/amm/types"
	perptypes "github.com/elys-network/elys/x/perpetual/types"
)

const c09bAbortSig = "close-positions-item-aborts-after-interest-transfer"

type c09bState struct {
	rsv, lcu, scu, lco, sli [2]sdkmath.Int
}

// one tracer (one PerpBacking machine) per perpetual pool: assets 0 = uusdc, 1 = the pool's trading asset
type c09bTracer struct {
	x      *lRun
	pool   uint64 // amm pool id
	trade  string // the pool's trading asset
	prev   map[string]perptypes.MTP
	last   c09bState
	init   string
	steps  []string
	aborts int
	fdvs   []string
	dists  []string
	items  int
	opens  int
	closes int
	// positions settled by the liquidation list and closed by the stop-loss / take-profit list of the SAME message
	resettled int
	// liquidations without a return whose custody net of interest exceeded the repay amount (the funding fee took the difference)
	fundedOut int
}

func (c *c09bTracer) denoms() [2]string { return [2]string{USDC, c.trade} }

// the MTPs of this tracer's pool
func (c *c09bTracer) mtps(ctx sdk.Context) map[string]perptypes.MTP {
	out := map[string]perptypes.MTP{}
	for _, m := range c.x.w.App.PerpetualKeeper.GetAllMTPs(ctx) {
		if m.AmmPoolId == c.pool {
			out[fmt.Sprintf("%s/%d", m.Address, m.Id)] = m
		}
	}
	return out
}

// the funding store entries of one pool (the stored value does not name its pool: the key does, types.GetFundingRateKey)
func c09bFundingOf(w *World, ctx sdk.Context, pool uint64) []perptypes.FundingRateBlock {
	st := prefix.NewStore(ctx.KVStore(w.App.GetKey(perptypes.StoreKey)), perptypes.FundingRatePrefix)
	it := storetypes.KVStorePrefixIterator(st, nil)
	defer it.Close()
	var out []perptypes.FundingRateBlock
	for ; it.Valid(); it.Next() {
		k := it.Key()
		if len(k) != 16 || sdk.BigEndianToUint64(k[8:]) != pool {
			continue
		}
		var f perptypes.FundingRateBlock
		w.App.AppCodec().MustUnmarshal(it.Value(), &f)
		out = append(out, f)
	}
	return out
}

func (c *c09bTracer) read() c09bState {
	w := c.x.w
	ctx := w.QCtx()
	var st c09bState
	for i := range st.rsv {
		st.rsv[i], st.lcu[i], st.scu[i], st.lco[i], st.sli[i] = sdkmath.ZeroInt(), sdkmath.ZeroInt(), sdkmath.ZeroInt(), sdkmath.ZeroInt(), sdkmath.ZeroInt()
	}
	ap, _ := w.App.AmmKeeper.GetPool(ctx, c.pool)
	for _, a := range ap.PoolAssets {
		st.rsv[c09Asset(a.Token.Denom)] = a.Token.Amount
	}
	pp, found := w.App.PerpetualKeeper.GetPool(ctx, c.pool)
	if found {
		for _, a := range pp.PoolAssetsLong {
			st.lcu[c09Asset(a.AssetDenom)] = a.Custody
			st.lco[c09Asset(a.AssetDenom)] = a.Collateral
		}
		for _, a := range pp.PoolAssetsShort {
			st.scu[c09Asset(a.AssetDenom)] = a.Custody
			st.sli[c09Asset(a.AssetDenom)] = a.Liabilities
		}
	}
	return st
}

func (st c09bState) obs() string {
	f := func(v [2]sdkmath.Int) string { return "[" + zstr(v[0].BigInt()) + ";" + zstr(v[1].BigInt()) + "]" }
	return fmt.Sprintf("mkBO %s %s %s %s %s", f(st.rsv), f(st.lcu), f(st.scu), f(st.lco), f(st.sli))
}

func (st c09bState) longOI() sdkmath.Int {
	oi := sdkmath.ZeroInt()
	for i := range st.lcu {
		if !st.lcu[i].IsZero() {
			oi = oi.Add(st.lcu[i]).Sub(st.lco[i])
		}
	}
	return oi
}

func newC09bTracer(x *lRun, pool uint64) *c09bTracer {
	c := &c09bTracer{x: x, pool: pool, trade: x.tradeOfPool(pool)}
	c.prev = c.mtps(x.w.QCtx())
	c.last = c.read()
	c.init = c.last.obs()
	return c
}

func c09bSide(p perptypes.Position) string {
	if p == perptypes.Position_SHORT {
		return "Short"
	}
	return "Long"
}

func c09bZ(v sdkmath.Int) string { return zstr(v.BigInt()) }

// funding store entries the distribution may look at: the first stored block and the current one
func (c *c09bTracer) fstore() (string, int64) {
	ctx := c.x.w.QCtx()
	cur := ctx.BlockHeight()
	all := c09bFundingOf(c.x.w, ctx, c.pool)
	var es []string
	add := func(f perptypes.FundingRateBlock) {
		es = append(es, fmt.Sprintf("(%d, (%s, %s))", f.BlockHeight, zstr(f.FundingAmountLong.BigInt()), zstr(f.FundingAmountShort.BigInt())))
	}
	if len(all) > 0 {
		first := all[0]
		for _, f := range all {
			if f.BlockHeight < first.BlockHeight {
				first = f
			}
		}
		add(first)
		for _, f := range all {
			if f.BlockHeight == cur && f.BlockHeight != first.BlockHeight {
				add(f)
			}
		}
	}
	return "(fs_of [" + strings.Join(es, ";") + "])", cur
}

func (c *c09bTracer) sharePrice(m perptypes.MTP) (string, string) {
	ctx := c.x.w.QCtx()
	price, err := c.x.w.App.PerpetualKeeper.GetAssetPrice(ctx, m.TradingAsset)
	if err != nil {
		price = sdkmath.LegacyZeroDec()
	}
	share := sdkmath.LegacyZeroDec()
	pp, found := c.x.w.App.PerpetualKeeper.GetPool(ctx, m.AmmPoolId)
	if found {
		if m.Position == perptypes.Position_LONG {
			if oi := pp.GetTotalLongOpenInterest(); oi.IsPositive() && !m.Custody.IsNegative() {
				share = m.Custody.ToLegacyDec().Quo(oi.ToLegacyDec())
			}
		} else if oi := pp.GetTotalShortOpenInterest(); oi.IsPositive() {
			share = m.Liabilities.ToLegacyDec().Quo(oi.ToLegacyDec())
		}
	}
	return zstr(share.BigInt()), zstr(price.BigInt())
}

func c09bAttrInt(ev abci.Event, key string) sdkmath.Int {
	v, ok := sdkmath.NewIntFromString(attr(ev, key))
	if !ok {
		return sdkmath.ZeroInt()
	}
	return v
}

func (c *c09bTracer) item(settle bool, m perptypes.MTP, take, rev, ftake sdkmath.Int, close string, coll, liab sdkmath.Int) string {
	fs, cur := c.fstore()
	share, price := c.sharePrice(m)
	return fmt.Sprintf("mkSI %v %s %d %s %s %s %s %d %s %s %s %d %s %d %s", settle, c09bSide(m.Position), c09Asset(m.CustodyAsset),
		c09bZ(take), c09bZ(rev), c09bZ(ftake), fs, cur, share, price, close, c09Asset(m.CollateralAsset), c09bZ(coll), c09Asset(m.LiabilitiesAsset), c09bZ(liab))
}

func (c *c09bTracer) step(ops []BankOp, kind string, res TxResult) {
	w := c.x.w
	ctx := w.QCtx()
	cur := c.mtps(ctx)
	st := c.read()
	var units []string
	ap, _ := w.App.AmmKeeper.GetPool(ctx, c.pool)
	poolAddr := ap.Address
	params := w.App.PerpetualKeeper.GetParams(ctx)
	fundAddr := params.BorrowInterestPaymentFundAddress
	perpAddr := authtypes.NewModuleAddress(perptypes.ModuleName).String()
	// interest transfers out of the pool per asset: to the fund, to the perpetual module
	var toFund, toPerp [2]sdkmath.Int
	for i := range toFund {
		toFund[i], toPerp[i] = sdkmath.ZeroInt(), sdkmath.ZeroInt()
	}
	sentTo := map[string]sdkmath.Int{} // owner/denom -> amount sent by the pool
	for _, o := range ops {
		if o.Kind != "send" || o.From != poolAddr || (o.Denom != USDC && o.Denom != c.trade) {
			continue
		}
		switch o.To {
		case fundAddr:
			toFund[c09Asset(o.Denom)] = toFund[c09Asset(o.Denom)].Add(o.Amt)
		case perpAddr:
			toPerp[c09Asset(o.Denom)] = toPerp[c09Asset(o.Denom)].Add(o.Amt)
		default:
			k := o.To + "/" + o.Denom
			if v, ok := sentTo[k]; ok {
				sentTo[k] = v.Add(o.Amt)
			} else {
				sentTo[k] = o.Amt
			}
		}
	}
	changed := func() []string {
		var ks []string
		for k, a := range cur {
			b, had := c.prev[k]
			if !had || !b.Custody.Equal(a.Custody) || !b.Collateral.Equal(a.Collateral) || !b.Liabilities.Equal(a.Liabilities) ||
				!b.BorrowInterestPaidCustody.Equal(a.BorrowInterestPaidCustody) || !b.FundingFeePaidCustody.Equal(a.FundingFeePaidCustody) ||
				!b.FundingFeeReceivedCustody.Equal(a.FundingFeeReceivedCustody) {
				ks = append(ks, k)
			}
		}
		for k := range c.prev {
			if _, ok := cur[k]; !ok {
				ks = append(ks, k)
			}
		}
		sort.Strings(ks)
		return ks
	}
	ammUnit := func() {
		var ds []string
		for i := range st.rsv {
			if d := st.rsv[i].Sub(c.last.rsv[i]); !d.IsZero() {
				ds = append(ds, fmt.Sprintf("(%d%%nat, %s)", i, c09bZ(d)))
			}
		}
		if len(ds) > 0 {
			units = append(units, "UTx [HAmm ["+strings.Join(ds, ";")+"] None false]")
		}
	}
	ok := kind == "block" || res.OK()
	switch {
	case !ok:
		// rolled back: nothing to replay
	case kind == "perp_open":
		c.opens++
		for _, k := range changed() {
			a, b := cur[k], c.prev[k]
			_, had := c.prev[k]
			zero := sdkmath.ZeroInt()
			if !had {
				b = perptypes.MTP{Custody: zero, Collateral: zero, Liabilities: zero, FundingFeePaidCustody: zero, FundingFeeReceivedCustody: zero}
			}
			ftake := a.FundingFeePaidCustody.Sub(b.FundingFeePaidCustody)
			dist := a.FundingFeeReceivedCustody.Sub(b.FundingFeeReceivedCustody)
			cust := a.Custody.Sub(b.Custody).Add(ftake).Sub(dist)
			cns := "None"
			if had {
				fs, h := c.fstore()
				share, price := c.sharePrice(a)
				cns = fmt.Sprintf("(Some (%s, %s, %d, %s, %s))", c09bZ(ftake), fs, h, share, price)
			}
			units = append(units, fmt.Sprintf("UTx [HOpen %s %d %s %d %s %d %s %s false false]", c09bSide(a.Position), c09Asset(a.CollateralAsset),
				c09bZ(a.Collateral.Sub(b.Collateral)), c09Asset(a.CustodyAsset), c09bZ(cust), c09Asset(a.LiabilitiesAsset), c09bZ(a.Liabilities.Sub(b.Liabilities)), cns))
		}
	case kind == "perp_close":
		c.closes++
		for _, k := range changed() {
			b := c.prev[k]
			var ev *abci.Event
			for i := range res.Events {
				if res.Events[i].Type == perptypes.EventClose && attr(res.Events[i], "address") == b.Address && attr(res.Events[i], "id") == strconv.FormatUint(b.Id, 10) {
					ev = &res.Events[i]
				}
			}
			if ev == nil {
				continue // the numbers will not match and the step is reported
			}
			d := c09Asset(b.CustodyAsset)
			ftake := c09bAttrInt(*ev, "funding_fee_paid_custody").Sub(b.FundingFeePaidCustody)
			dist := c09bAttrInt(*ev, "funding_fee_received_custody").Sub(b.FundingFeeReceivedCustody)
			pay := c09bAttrInt(*ev, "borrow_interest_paid_custody").Sub(b.BorrowInterestPaidCustody)
			cc := b.Custody.Sub(pay).Sub(ftake).Add(dist).Sub(c09bAttrInt(*ev, "custody"))
			rp := c09bAttrInt(*ev, "repay_amount")
			take := toFund[d]
			rev := pay.Sub(take)
			units = append(units, "UTx [HClose ("+c.item(true, b, take, rev, ftake, fmt.Sprintf("(Some (%s, %s))", c09bZ(cc), c09bZ(rp)),
				b.Collateral.Sub(c09bAttrInt(*ev, "collateral")), b.Liabilities.Sub(c09bAttrInt(*ev, "liabilities")))+")]")
		}
	case kind == "perp_close_positions":
		var items []string
		var paid [2]sdkmath.Int
		for i := range paid {
			paid[i] = sdkmath.ZeroInt()
		}
		pct := params.BorrowInterestPaymentFundPercentage
		for _, k := range changed() {
			b := c.prev[k]
			a, alive := cur[k]
			d := c09Asset(b.CustodyAsset)
			if alive { // settled only
				pay := a.BorrowInterestPaidCustody.Sub(b.BorrowInterestPaidCustody)
				take := pay.ToLegacyDec().Mul(pct).TruncateInt()
				paid[d] = paid[d].Add(pay)
				items = append(items, c.item(true, b, take, pay.Sub(take), a.FundingFeePaidCustody.Sub(b.FundingFeePaidCustody), "None", sdkmath.ZeroInt(), sdkmath.ZeroInt()))
				continue
			}
			var ev *abci.Event
			for i := range res.Events {
				t := res.Events[i].Type
				if (t == perptypes.EventForceCloseUnhealthy || t == perptypes.EventForceCloseStopLoss || t == perptypes.EventForceCloseTakeprofit) &&
					attr(res.Events[i], "address") == b.Address && attr(res.Events[i], "id") == strconv.FormatUint(b.Id, 10) {
					ev = &res.Events[i]
				}
			}
			if ev == nil {
				continue
			}
			settle := ev.Type == perptypes.EventForceCloseUnhealthy
			rp := c09bAttrInt(*ev, "repay_amount")
			ret := sdkmath.ZeroInt()
			if v, ok := sentTo[b.Address+"/"+b.CustodyAsset]; ok {
				ret = v
			}
			pay, take, ftake := sdkmath.ZeroInt(), sdkmath.ZeroInt(), sdkmath.ZeroInt()
			cc := b.Custody
			if !settle && (c09bAttrInt(*ev, "borrow_interest_paid_custody").GT(b.BorrowInterestPaidCustody) || (ret.IsPositive() && !ret.Add(rp).Equal(b.Custody))) {
				// the same message ALSO named the position in its liquidation list: interest and funding were settled there (it was healthy and
				// stayed open), the stop-loss / take-profit item closed what was left. One item: settlement, then Repay.
				settle = true
				c.resettled++
			}
			if settle {
				pay = c09bAttrInt(*ev, "borrow_interest_paid_custody").Sub(b.BorrowInterestPaidCustody)
				take = pay.ToLegacyDec().Mul(pct).TruncateInt()
				paid[d] = paid[d].Add(pay)
				cc = b.Custody.Sub(pay)
				if ret.IsPositive() { // closing custody = return + repay amount; the rest of the custody went to funding
					ftake = cc.Sub(ret.Add(rp))
					cc = ret.Add(rp)
				} else if cc.GT(rp) {
					// nothing was returned although the custody net of interest exceeds the (estimated) repay amount: CalcReturnAmount saw a
					// closing custody BELOW the repay amount, i.e. the funding fee taken by SettleFunding just before (months of funding on a
					// position nobody touched) brought it under it. The event does not carry the custody at that moment; every split with
					// closing custody <= repay amount moves the same totals (no return, custody aggregate down by take + closing custody).
					ftake = cc.Sub(rp)
					cc = rp
					c.fundedOut++
				}
			}
			items = append(items, c.item(settle, b, take, pay.Sub(take), ftake, fmt.Sprintf("(Some (%s, %s))", c09bZ(cc), c09bZ(rp)), b.Collateral, b.Liabilities))
		}
		// interest transfers that no stored change accounts for: an item that failed between the transfers and SettleFunding
		for d := range paid {
			left := toFund[d].Add(toPerp[d]).Sub(paid[d])
			if !left.IsPositive() {
				continue
			}
			c.aborts++
			zero := sdkmath.ZeroInt()
			ftake := c.last.longOI().Sub(left) // the funding take that brings the long open interest to zero
			if ftake.IsNegative() {
				ftake = zero
			}
			ghost := perptypes.MTP{Position: perptypes.Position_LONG, CustodyAsset: c.denoms()[d], CollateralAsset: c.denoms()[d], LiabilitiesAsset: USDC,
				TradingAsset: c.trade, AmmPoolId: c.pool, Custody: zero, Liabilities: zero}
			fund := toFund[d]
			if fund.GT(left) {
				fund = left
			}
			items = append(items, c.item(true, ghost, fund, left.Sub(fund), ftake, "None", zero, zero))
		}
		c.items += len(items)
		if len(items) > 0 {
			units = append(units, "UClosePositions ["+strings.Join(items, ";\n      ")+"]")
		}
	case kind == "donate":
		// a plain bank transfer to the pool address does not touch the pool's books
	default:
		ammUnit()
	}
	c.steps = append(c.steps, fmt.Sprintf("([%s], %s)", strings.Join(units, ";\n    "), st.obs()))
	if kind == "block" {
		c.probes()
	}
	c.prev = cur
	c.last = st
}

func (c *c09bTracer) caseText(id int) string {
	return fmt.Sprintf("mkBC %d (%s) [\n  %s]\n  [%s]\n  [%s]", id, c.init, strings.Join(c.steps, ";\n  "), strings.Join(c.fdvs, ";\n   "), strings.Join(c.dists, ";\n   "))
}

// probes: the harness delivers a block's transactions before that block's begin blocker, so inside a transaction the funding
// store has no entry for the current height; production runs the begin blocker first.  After every block the real
// GetFundingDistributionValue and FundingFeeDistribution are therefore also run on throw-away contexts positioned AT the
// committed height (entry present), and the model has to give the same values.
func (c *c09bTracer) probes() {
	w := c.x.w
	k := w.App.PerpetualKeeper
	h := w.Height
	if h < 2 || len(c.fdvs) > 40 {
		return
	}
	qc := w.QCtx().WithBlockHeight(h)
	all := c09bFundingOf(w, qc, c.pool)
	if len(all) == 0 {
		return
	}
	byH := map[int64]perptypes.FundingRateBlock{}
	first := all[0]
	for _, f := range all {
		byH[f.BlockHeight] = f
		if f.BlockHeight < first.BlockHeight {
			first = f
		}
	}
	entries := func(hs ...int64) string {
		es := []string{fmt.Sprintf("(%d, (%s, %s))", first.BlockHeight, zstr(first.FundingAmountLong.BigInt()), zstr(first.FundingAmountShort.BigInt()))}
		seen := map[int64]bool{first.BlockHeight: true}
		for _, x := range hs {
			if f, ok := byH[x]; ok && !seen[x] {
				seen[x] = true
				es = append(es, fmt.Sprintf("(%d, (%s, %s))", x, zstr(f.FundingAmountLong.BigInt()), zstr(f.FundingAmountShort.BigInt())))
			}
		}
		return "[" + strings.Join(es, ";") + "]"
	}
	for _, start := range []int64{h, h - 1, first.BlockHeight, first.BlockHeight - 1, (first.BlockHeight + h) / 2} {
		if start < 0 {
			continue
		}
		l, s := k.GetFundingDistributionValue(qc, uint64(start), c.pool)
		c.fdvs = append(c.fdvs, fmt.Sprintf("mkBP %s %d %d %s %s", entries(start, h), start, h, zstr(l.BigInt()), zstr(s.BigInt())))
	}
	var ms []perptypes.MTP
	for _, mtp := range k.GetAllMTPs(qc) {
		if mtp.AmmPoolId == c.pool {
			ms = append(ms, mtp)
		}
	}
	for i, mtp := range ms {
		if i >= 2 {
			break
		}
		pool, found := k.GetPool(qc, mtp.AmmPoolId)
		ammPool, err := k.GetAmmPool(qc, mtp.AmmPoolId)
		if !found || err != nil {
			continue
		}
		price, err := k.GetAssetPrice(qc, mtp.TradingAsset)
		if err != nil {
			continue
		}
		var share sdkmath.LegacyDec
		if mtp.Position == perptypes.Position_LONG {
			oi := pool.GetTotalLongOpenInterest()
			if oi.IsZero() {
				continue
			}
			share = mtp.Custody.ToLegacyDec().Quo(oi.ToLegacyDec())
		} else {
			oi := pool.GetTotalShortOpenInterest()
			if oi.IsZero() {
				continue
			}
			share = mtp.Liabilities.ToLegacyDec().Quo(oi.ToLegacyDec())
		}
		before := mtp.Custody
		func() {
			defer func() { _ = recover() }()
			if err := k.FundingFeeDistribution(qc, &mtp, &pool, ammPool); err != nil {
				return
			}
			c.dists = append(c.dists, fmt.Sprintf("mkDP %s %s %d %s %s %s", c09bSide(mtp.Position), entries(int64(mtp.LastFundingCalcBlock), h), h,
				zstr(share.BigInt()), zstr(price.BigInt()), c09bZ(mtp.Custody.Sub(before))))
		}()
	}
}

// ---------------- directed operations ----------------

// c09bExitTo: the user's proportional exit that leaves the ATOM reserve at (total ATOM custody + margin)
func c09bExitTo(x *lRun, op lOp) (TxResult, sdkmath.Int) {
	w, m := x.w, x.m
	ctx := w.QCtx()
	pid, trade := x.oraclePool(x.qOf(op)), x.trade(x.qOf(op))
	pool, _ := w.App.AmmKeeper.GetPool(ctx, pid)
	pp, _ := w.App.PerpetualKeeper.GetPool(ctx, pid)
	_, cust, _, _ := pp.GetPerpetualPoolBalances(trade)
	ra := sdkmath.ZeroInt()
	for _, a := range pool.PoolAssets {
		if a.Token.Denom == trade {
			ra = a.Token.Amount
		}
	}
	cm := w.App.CommitmentKeeper.GetCommitments(ctx, m.Users[op.U%len(m.Users)])
	have := cm.GetCommittedAmountForDenom(pool.TotalShares.Denom)
	sh := sdkmath.ZeroInt()
	margin := x.amtOf(op, trade)
	if ra.IsPositive() && ra.GT(cust.Add(margin)) {
		sh = pool.TotalShares.Amount.Mul(ra.Sub(cust).Sub(margin)).Quo(ra)
	}
	if sh.GT(have) {
		sh = have
	}
	return w.Deliver(&ammtypes.MsgExitPool{Sender: m.User(op.U), PoolId: pool.PoolId, MinAmountsOut: sdk.Coins{}, ShareAmountIn: sh}), sh
}

// c09bTune: moves the clock of the block being built to the first second at which settling MTP number Idx (interest, then
// funding collection, as CheckAndLiquidateUnhealthyPosition does) leaves the pool's long open interest at exactly zero.
func c09bTune(x *lRun, op lOp) bool {
	w, m := x.w, x.m
	ms := w.App.PerpetualKeeper.GetAllMTPs(w.QCtx())
	if len(ms) == 0 {
		return false
	}
	mtp0 := ms[op.Idx%len(ms)]
	base := w.Time
	oiAt := func(dt int64) (sdkmath.Int, bool) {
		w.Time = base.Add(time.Duration(dt) * time.Second)
		m.RefreshPrices()
		qc := w.QCtx()
		k := w.App.PerpetualKeeper
		mtp := mtp0
		pool, _ := k.GetPool(qc, mtp.AmmPoolId)
		ammPool, _ := k.GetAmmPool(qc, mtp.AmmPoolId)
		var err error
		if mtp.TakeProfitLiabilities, err = k.CalcMTPTakeProfitLiability(qc, mtp); err != nil {
			return sdkmath.Int{}, false
		}
		if err = mtp.UpdateMTPTakeProfitBorrowFactor(); err != nil {
			return sdkmath.Int{}, false
		}
		k.UpdateMTPBorrowInterestUnpaidLiability(qc, &mtp)
		if _, err = k.SettleMTPBorrowInterestUnpaidLiability(qc, &mtp, &pool, ammPool); err != nil {
			return sdkmath.Int{}, false
		}
		if err = k.FundingFeeCollection(qc, &mtp, &pool, ammPool); err != nil {
			return sdkmath.Int{}, false
		}
		return pool.GetTotalLongOpenInterest(), true
	}
	lo, hi := int64(0), int64(1)
	for ; hi < 1<<36; hi *= 2 {
		oi, ok := oiAt(hi)
		if !ok || !oi.IsPositive() {
			break
		}
		lo = hi
	}
	for hi-lo > 1 {
		mid := (lo + hi) / 2
		if oi, ok := oiAt(mid); ok && oi.IsPositive() {
			lo = mid
		} else {
			hi = mid
		}
	}
	for dt := lo - 20; dt < lo+20; dt++ {
		if dt < 0 {
			continue
		}
		if oi, ok := oiAt(dt); ok && oi.IsZero() {
			return true // the clock stays there
		}
	}
	w.Time = base
	m.RefreshPrices()
	return false
}

// directed history: a long with trading-asset collateral at low leverage and a small short (so that longs pay funding); the
// liquidity leaves down to reserve = custody + 1000; at the second at which interest + funding bring the long custody down
// to the collateral a third party sends MsgClosePositions for it.
func c09bCorpus() []lHist {
	return []lHist{
		{Ops: []lOp{
			{Op: "perp_open", U: 1, Dir: 2, Amt: "5000000", Lev: "1.2"},
			{Op: "perp_open", U: 2, Dir: 1, Amt: "300000", Lev: "2"},
			{Op: "blocks", N: 3, DT: 5},
			{Op: "c09_tune", Idx: 0},
			{Op: "c09_exit_to", U: 0, Amt: "1000"},
			{Op: "perp_close_positions", U: 3, Idx: 0, Dir: 0, N: 1},
			{Op: "perp_close_positions", U: 3, Idx: 0, Dir: 0, N: 1},
		}},
		// the pool at the edge (reserve = custody + 1000) for the CHECKED paths: a swap that takes 5000 of the custody asset
		// out and a further exit must be refused by the amm hooks, interest / funding settlement, a partial and a full close by
		// the owner and a third-party liquidation attempt must go through and keep the pool backed
		{Ops: []lOp{
			{Op: "join", U: 4, Pool: 0, Dir: 1, Amt: "400000000000"}, // base-currency liquidity keeps the pool health above the threshold
			{Op: "perp_open", U: 1, Dir: 2, Amt: "2000000000", Lev: "3"},
			{Op: "perp_open", U: 2, Dir: 1, Amt: "30000000", Lev: "2"},
			{Op: "blocks", N: 2, DT: 3700},
			{Op: "c09_exit_to", U: 0, Amt: "1000"},
			{Op: "c09_exit_to", U: 4, Amt: "1000"},
			{Op: "swap_out", U: 3, V: 3, Pool: 0, Dir: 0, Amt: "5000"},
			{Op: "blocks", N: 1, DT: 5},
			{Op: "exit", U: 4, Pool: 0, Dir: 0, Rel: 3},
			{Op: "exit", U: 4, Pool: 0, Dir: 2, Rel: 2},
			{Op: "perp_close_positions", U: 3, Idx: 0, Dir: 0, N: 2},
			{Op: "blocks", N: 1, DT: 86400},
			{Op: "perp_close", U: 1, Idx: 0, Rel: 2},
			{Op: "swap_out", U: 3, V: 3, Pool: 0, Dir: 0, Amt: "700000000"},
			{Op: "blocks", N: 1, DT: 5},
			{Op: "perp_close", U: 1, Idx: 0, Rel: 5},
			{Op: "perp_close", U: 2, Idx: 0, Rel: 5},
		}},
		// the same edge on the SECOND pool (18-decimals trading asset) while the first pool holds positions of the same owners:
		// the hooks must test the pool that moved against ITS custody
		{Two: true, Ops: []lOp{
			{Op: "join", U: 4, Pool: 0, Dir: 1, Amt: "400000000000", Q: 1},
			{Op: "perp_open", U: 1, Dir: 2, Amt: "2000000000", Lev: "3"},
			{Op: "perp_open", U: 1, Dir: 2, Amt: "2000000000", Lev: "3", Q: 1},
			{Op: "perp_open", U: 2, Dir: 1, Amt: "30000000", Lev: "2", Q: 1},
			{Op: "perp_open", U: 2, Dir: 1, Amt: "30000000", Lev: "2"},
			{Op: "blocks", N: 2, DT: 3700},
			{Op: "c09_exit_to", U: 0, Amt: "1000", Q: 1},
			{Op: "c09_exit_to", U: 4, Amt: "1000", Q: 1},
			{Op: "swap_out", U: 3, V: 3, Pool: 0, Dir: 0, Amt: "5000", Q: 1},
			{Op: "swap_hop", U: 3, Dir: 5, Amt: "100000000"}, // uatom -> uusdc -> aweth: takes the custody asset out of the second pool through the first
			{Op: "blocks", N: 1, DT: 5},
			{Op: "exit", U: 4, Pool: 0, Dir: 0, Rel: 3, Q: 1},
			{Op: "exit", U: 4, Pool: 0, Dir: 2, Rel: 2, Q: 1},
			{Op: "perp_close_positions", U: 3, Idx: 0, Dir: 0, N: 8},
			{Op: "blocks", N: 1, DT: 86400},
			{Op: "perp_close", U: 1, Idx: 1, Rel: 2},
			{Op: "swap_out", U: 3, V: 3, Pool: 0, Dir: 0, Amt: "700000000", Q: 1},
			{Op: "blocks", N: 1, DT: 5},
			{Op: "perp_close", U: 1, Idx: 0, Rel: 5},
			{Op: "perp_close", U: 1, Idx: 0, Rel: 5},
			{Op: "perp_close", U: 2, Idx: 0, Rel: 5},
			{Op: "perp_close", U: 2, Idx: 0, Rel: 5},
		}},
	}
}

const c09bCoqHeader = "From Coq Require Import ZArith List Bool.\nFrom Elys Require Import Base.Res Base.Fn Models.SumLedger Models.PerpLedger Run.PerpLedgerRun Models.PerpBacking Run.PerpBackingRun.\nImport ListNotations.\nOpen Scope Z_scope.\n"
// one backing case per perpetual pool of the history (the second pool's case id is the history id + 1000000)
const c09bCoqFooter = "Definition M := Eval vm_compute in (mismatches (map fst cases) ++ bmismatches (flat_map snd cases)).\nPrint M.\n"

func (c *c09bTracer) finish(col *Collector) {
	col.mu.Lock()
	defer col.mu.Unlock()
	for k, v := range map[string]int{"backing_close_positions_items": c.items, "backing_items_aborted_after_transfer": c.aborts, "backing_opens": c.opens, "backing_user_closes": c.closes,
		"backing_items_settled_then_closed_by_another_list": c.resettled, "backing_liquidations_emptied_by_funding": c.fundedOut} {
		n, _ := col.rep.Extra[k].(int)
		col.rep.Extra[k] = n + v
	}
}
