package harness

import (
	"testing"

	sdk "github.com/cosmos/cosmos-sdk/types"
	ammtypes "github.com/elys-network/elys/x/amm/types"
	levtypes "github.com/elys-network/elys/x/leveragelp/types"
	perptypes "github.com/elys-network/elys/x/perpetual/types"
	sstypes "github.com/elys-network/elys/x/stablestake/types"
)

// TestSmoke exercises the fixture and the main message flows once; it is a harness self-test.
func TestSmoke(t *testing.T) {
	w := NewWorld(t)
	m := NewMarket(w, DefaultMarketOpts())
	step := func(what string, r TxResult) {
		t.Logf("%-28s %s err=%v panic=%v bankops=%d", what, r.Kind(), r.Err, r.Panic, len(BankOps(r.Events)))
	}
	blk := func() {
		m.RefreshPrices()
		if err := w.EndBlock(5); err != nil {
			t.Fatalf("block: %v", err)
		}
		t.Logf("block %d ok, block bankops=%d", w.Height, len(BankOps(w.LastBlockEvents)))
	}
	blk()
	u := m.User
	step("swap in cp", w.Deliver(&ammtypes.MsgSwapExactAmountIn{Sender: u(1), Routes: []ammtypes.SwapAmountInRoute{{PoolId: m.CPPool, TokenOutDenom: ELYS}}, TokenIn: sdk.NewCoin(USDC, I(1_000_000)), TokenOutMinAmount: I(1), Recipient: u(1)}))
	step("swap in oracle", w.Deliver(&ammtypes.MsgSwapExactAmountIn{Sender: u(1), Routes: []ammtypes.SwapAmountInRoute{{PoolId: m.OraclePool, TokenOutDenom: ATOM}}, TokenIn: sdk.NewCoin(USDC, I(5_000_000)), TokenOutMinAmount: I(1), Recipient: u(1)}))
	step("swap out oracle", w.Deliver(&ammtypes.MsgSwapExactAmountOut{Sender: u(2), Routes: []ammtypes.SwapAmountOutRoute{{PoolId: m.OraclePool, TokenInDenom: ATOM}}, TokenOut: sdk.NewCoin(USDC, I(5_000_000)), TokenInMaxAmount: I(5_000_000), Recipient: u(2)}))
	blk()
	step("join cp", w.Deliver(&ammtypes.MsgJoinPool{Sender: u(2), PoolId: m.CPPool, MaxAmountsIn: sdk.NewCoins(sdk.NewCoin(USDC, I(3_000_000)), sdk.NewCoin(ELYS, I(1_000_000))), ShareAmountOut: I(1_000_000_000_000)}))
	step("join oracle single", w.Deliver(&ammtypes.MsgJoinPool{Sender: u(2), PoolId: m.OraclePool, MaxAmountsIn: sdk.NewCoins(sdk.NewCoin(USDC, I(3_000_000))), ShareAmountOut: I(1)}))
	blk()
	step("lev open", w.Deliver(&levtypes.MsgOpen{Creator: u(3), CollateralAsset: USDC, CollateralAmount: I(10_000_000), AmmPoolId: m.OraclePool, Leverage: dec("3"), StopLossPrice: dec("0")}))
	step("perp open long", w.Deliver(&perptypes.MsgOpen{Creator: u(4), Position: perptypes.Position_LONG, Leverage: dec("3"), TradingAsset: ATOM, Collateral: sdk.NewCoin(USDC, I(10_000_000)), TakeProfitPrice: dec("20"), StopLossPrice: dec("0"), PoolId: m.OraclePool}))
	step("perp open short", w.Deliver(&perptypes.MsgOpen{Creator: u(1), Position: perptypes.Position_SHORT, Leverage: dec("2"), TradingAsset: ATOM, Collateral: sdk.NewCoin(USDC, I(10_000_000)), TakeProfitPrice: dec("1"), StopLossPrice: dec("0"), PoolId: m.OraclePool}))
	blk()
	blk()
	step("bond", w.Deliver(&sstypes.MsgBond{Creator: u(1), Amount: I(1_000_000)}))
	step("unbond", w.Deliver(&sstypes.MsgUnbond{Creator: u(1), Amount: I(500_000)}))
	for _, p := range w.App.LeveragelpKeeper.GetAllPositions(w.QCtx()) {
		step("lev close", w.Deliver(&levtypes.MsgClose{Creator: p.Address, Id: p.Id, LpAmount: p.LeveragedLpAmount.QuoRaw(2)}))
	}
	for _, p := range w.App.PerpetualKeeper.GetAllMTPs(w.QCtx()) {
		step("perp close", w.Deliver(&perptypes.MsgClose{Creator: p.Address, Id: p.Id, Amount: p.Custody.QuoRaw(2)}))
	}
	step("exit cp", w.Deliver(&ammtypes.MsgExitPool{Sender: u(2), PoolId: m.CPPool, MinAmountsOut: sdk.Coins{}, ShareAmountIn: I(500_000_000_000)}))
	blk()
	for _, p := range w.App.AmmKeeper.GetAllPool(w.QCtx()) {
		t.Logf("pool %d assets %v shares %v", p.PoolId, p.PoolAssets, p.TotalShares)
	}
}
