package harness

// C11 trace emission: per step and per (perpetual-enabled pool, denom), the three source records
// (amm reserve, perpetual liabilities, perpetual custody) and the accounted pool's TotalTokens /
// NonAmmPoolTokens as the keepers report them.

import (
	"fmt"
	"strings"

	sdk "github.com/cosmos/cosmos-sdk/types"
)

type c11Tracer struct {
	x    *lRun
	rows map[string][]string // "pool id/denom" -> one row per step (Models/AccPool.v is one machine per (pool, denom))
	keys []string            // in order of first appearance (pools by id, denoms in pool-asset order)
}

func newC11Tracer(x *lRun) *c11Tracer {
	c := &c11Tracer{x: x, rows: map[string][]string{}}
	c.step()
	return c
}

func (c *c11Tracer) step() {
	ctx := c.x.w.QCtx()
	app := c.x.w.App
	for _, pp := range app.PerpetualKeeper.GetAllPools(ctx) {
		ammPool, _ := app.AmmKeeper.GetPool(ctx, pp.AmmPoolId)
		acc, found := app.AccountedPoolKeeper.GetAccountedPool(ctx, pp.AmmPoolId)
		if !found {
			continue
		}
		for _, a := range ammPool.PoolAssets {
			d := a.Token.Denom
			liab, cust, _, _ := pp.GetPerpetualPoolBalances(d)
			t := sdk.Coins(acc.TotalTokens).AmountOf(d)
			n := sdk.Coins(acc.NonAmmPoolTokens).AmountOf(d)
			k := fmt.Sprintf("%d/%s", pp.AmmPoolId, d)
			if _, ok := c.rows[k]; !ok {
				c.keys = append(c.keys, k)
			}
			c.rows[k] = append(c.rows[k], fmt.Sprintf("(%s,%s,%s,%s,%s)", zstr(a.Token.Amount.BigInt()), zstr(liab.BigInt()), zstr(cust.BigInt()), zstr(t.BigInt()), zstr(n.BigInt())))
		}
	}
}

func (c *c11Tracer) caseText(id int) string {
	var ds []string
	for _, k := range c.keys {
		ds = append(ds, "["+strings.Join(c.rows[k], ";\n   ")+"]")
	}
	return fmt.Sprintf("mkAC %d [\n  %s]", id, strings.Join(ds, ";\n  "))
}
