package harness

// World: the real ElysApp driven offline.
//
//   - messages are delivered through the production MsgServiceRouter on a CacheContext of an
//     uncached context over the root multistore; the branch is written only when the handler
//     returns nil (transaction atomicity, as baseapp.runTx does); panics are recovered like
//     baseapp's runTx does and count as a failed tx.
//   - a block is closed by the real FinalizeBlock (all Begin/EndBlockers in production order)
//     followed by the real Commit (transient stores reset, IAVL version saved).
//   - committed bank operations are read back from the SDK's own bank events.

import (
	"fmt"
	"os"
	"sync"
	"runtime/debug"
	"sort"
	"strings"
	"testing"
	"time"

	sdkmath "cosmossdk.io/math"
	abci "github.com/cometbft/cometbft/abci/types"
	cmtproto "github.com/cometbft/cometbft/proto/tendermint/types"
	sdk "github.com/cosmos/cosmos-sdk/types"
	authtypes "github.com/cosmos/cosmos-sdk/x/auth/types"
	govtypes "github.com/cosmos/cosmos-sdk/x/gov/types"
	minttypes "github.com/cosmos/cosmos-sdk/x/mint/types"

	elysapp "github.com/elys-network/elys/app"
)

type World struct {
	T      *testing.T
	App    *elysapp.ElysApp
	Height int64
	Time   time.Time
	Gov    string
	// results of the last closed block
	LastBlockErr    error
	LastBlockEvents []abci.Event
}

type TxResult struct {
	Err    error
	Panic  interface{}
	Stack  string
	Events []abci.Event
}

func (r TxResult) OK() bool { return r.Err == nil && r.Panic == nil }

func (r TxResult) Kind() string {
	if r.Panic != nil {
		return "panic"
	}
	if r.Err != nil {
		return "err"
	}
	return "ok"
}

// NewElysApp normalises the package variable version.Version ("v" prefix) on first use: worlds are built from
// parallel goroutines, so the first application is built alone (afterwards the variable is only read).
var worldWarmUp sync.Once

func NewWorld(t *testing.T) *World {
	worldWarmUp.Do(func() { _ = elysapp.InitElysTestApp(true, t) })
	app := elysapp.InitElysTestApp(true, t)
	if _, err := app.Commit(); err != nil {
		t.Fatalf("commit genesis block: %v", err)
	}
	w := &World{T: t, App: app}
	w.Height = app.LastBlockHeight()
	w.Time = time.Unix(1_700_000_000, 0).UTC()
	w.Gov = authtypes.NewModuleAddress(govtypes.ModuleName).String()
	return w
}

func (w *World) header() cmtproto.Header {
	return cmtproto.Header{Height: w.Height + 1, Time: w.Time, ChainID: w.App.ChainID()}
}

// Ctx returns an uncached context positioned in the block that is currently being built.
func (w *World) Ctx() sdk.Context {
	return w.App.BaseApp.NewUncachedContext(false, w.header()).WithEventManager(sdk.NewEventManager())
}

// Query context: a throw-away branch, nothing written through it is ever kept.
func (w *World) QCtx() sdk.Context {
	c, _ := w.Ctx().CacheContext()
	return c
}

type validateBasic interface{ ValidateBasic() error }

// Deliver runs one message as one transaction.
func (w *World) Deliver(msg sdk.Msg) (res TxResult) {
	if vb, ok := msg.(validateBasic); ok {
		if err := vb.ValidateBasic(); err != nil {
			return TxResult{Err: err}
		}
	}
	h := w.App.MsgServiceRouter().Handler(msg)
	if h == nil {
		return TxResult{Err: fmt.Errorf("no handler for %T", msg)}
	}
	base := w.Ctx()
	cctx, write := base.CacheContext()
	cctx = cctx.WithEventManager(sdk.NewEventManager())
	defer func() {
		if r := recover(); r != nil {
			res = TxResult{Panic: r, Stack: string(debug.Stack())}
		}
	}()
	r, err := h(cctx, msg)
	if err != nil {
		return TxResult{Err: err}
	}
	write()
	evs := cctx.EventManager().ABCIEvents()
	if r != nil {
		// the router runs the handler under its own event manager and returns its events in the result
		evs = append(evs, r.Events...)
	}
	return TxResult{Events: evs}
}

// DeliverAll runs several messages as ONE transaction (all or nothing).
func (w *World) DeliverAll(msgs ...sdk.Msg) (res TxResult) {
	base := w.Ctx()
	cctx, write := base.CacheContext()
	cctx = cctx.WithEventManager(sdk.NewEventManager())
	defer func() {
		if r := recover(); r != nil {
			res = TxResult{Panic: r, Stack: string(debug.Stack())}
		}
	}()
	var evs []abci.Event
	for _, msg := range msgs {
		if vb, ok := msg.(validateBasic); ok {
			if err := vb.ValidateBasic(); err != nil {
				return TxResult{Err: err}
			}
		}
		h := w.App.MsgServiceRouter().Handler(msg)
		if h == nil {
			return TxResult{Err: fmt.Errorf("no handler for %T", msg)}
		}
		r, err := h(cctx, msg)
		if err != nil {
			return TxResult{Err: err}
		}
		if r != nil {
			evs = append(evs, r.Events...)
		}
	}
	write()
	return TxResult{Events: append(cctx.EventManager().ABCIEvents(), evs...)}
}

// EndBlock closes the block being built with the real FinalizeBlock + Commit and opens the next
// one dt seconds later. A failing FinalizeBlock / Commit is recorded (C18) and reported.
func (w *World) EndBlock(dt int64) (err error) {
	defer func() {
		if r := recover(); r != nil {
			err = fmt.Errorf("PANIC in FinalizeBlock/Commit: %v\n%s", r, debug.Stack())
			w.LastBlockErr = err
		}
	}()
	resp, e := w.App.FinalizeBlock(&abci.RequestFinalizeBlock{Height: w.Height + 1, Time: w.Time, Hash: w.App.LastCommitID().Hash})
	if e != nil {
		w.LastBlockErr = e
		return e
	}
	w.LastBlockEvents = resp.Events
	if _, e = w.App.Commit(); e != nil {
		w.LastBlockErr = e
		return e
	}
	w.LastBlockErr = nil
	w.Height++
	w.Time = w.Time.Add(time.Duration(dt) * time.Second)
	return nil
}

func (w *World) AppHash() []byte { return w.App.LastCommitID().Hash }

// ---- fixtures ----

func (w *World) Mint(addr sdk.AccAddress, coins sdk.Coins) {
	ctx := w.Ctx()
	if err := w.App.BankKeeper.MintCoins(ctx, minttypes.ModuleName, coins); err != nil {
		w.T.Fatalf("fixture mint: %v", err)
	}
	if err := w.App.BankKeeper.SendCoinsFromModuleToAccount(ctx, minttypes.ModuleName, addr, coins); err != nil {
		w.T.Fatalf("fixture send: %v", err)
	}
}

func Addr(i int) sdk.AccAddress {
	b := make([]byte, 20)
	copy(b, []byte(fmt.Sprintf("verif-user-%03d------", i)))
	return sdk.AccAddress(b)
}

func (w *World) Bal(addr sdk.AccAddress, denom string) sdkmath.Int {
	return w.App.BankKeeper.GetBalance(w.QCtx(), addr, denom).Amount
}

// ---- bank ops from events ----

type BankOp struct {
	Kind  string // send | mint | burn
	From  string
	To    string
	Denom string
	Amt   sdkmath.Int
}

func attr(ev abci.Event, key string) string {
	for _, a := range ev.Attributes {
		if a.Key == key {
			return a.Value
		}
	}
	return ""
}

// BankOps extracts the ordered committed bank operations from an event list.
func BankOps(evs []abci.Event) []BankOp {
	var ops []BankOp
	for _, ev := range evs {
		switch ev.Type {
		case "transfer":
			coins, err := sdk.ParseCoinsNormalized(attr(ev, "amount"))
			if err != nil {
				continue
			}
			for _, c := range coins {
				ops = append(ops, BankOp{"send", attr(ev, "sender"), attr(ev, "recipient"), c.Denom, c.Amount})
			}
		case "coinbase":
			coins, err := sdk.ParseCoinsNormalized(attr(ev, "amount"))
			if err != nil {
				continue
			}
			for _, c := range coins {
				ops = append(ops, BankOp{"mint", "", attr(ev, "minter"), c.Denom, c.Amount})
			}
		case "burn":
			coins, err := sdk.ParseCoinsNormalized(attr(ev, "amount"))
			if err != nil {
				continue
			}
			for _, c := range coins {
				ops = append(ops, BankOp{"burn", attr(ev, "burner"), "", c.Denom, c.Amount})
			}
		}
	}
	return ops
}

// ---- misc ----

func envInt(name string, def int64) int64 {
	v := os.Getenv(name)
	if v == "" {
		return def
	}
	var x int64
	if _, err := fmt.Sscan(v, &x); err != nil {
		return def
	}
	return x
}

func outDir() string {
	d := os.Getenv("VERIF_OUT")
	if d == "" {
		d = "/var/tmp/verif-out"
	}
	_ = os.MkdirAll(d, 0o755)
	return d
}

func tier() string {
	if os.Getenv("VERIF_TIER") == "thorough" {
		return "thorough"
	}
	return "quick"
}

func sortedKeys(m map[string]int) []string {
	ks := make([]string, 0, len(m))
	for k := range m {
		ks = append(ks, k)
	}
	sort.Strings(ks)
	return ks
}

func errClass(err error) string {
	if err == nil {
		return ""
	}
	s := err.Error()
	if i := strings.LastIndex(s, ": "); i >= 0 {
		s = s[i+2:]
	}
	return s
}
