package harness

// Directed histories for the shared ledger driver, third batch (seeded changes C06-5 C08-5 C09-5 C10-5 were first missed):
//   - several leveraged-LP positions left to the BEGIN-BLOCK SWEEP in one block after a price collapse, the first in key order made
//     to fail half way (its owner parked the debt amount at the position's own account: op pos_donate);
//   - close-positions messages of both modules that name a position MORE THAN ONCE, in one list and across lists (lOp.Dup),
//     on healthy positions with interest due, on positions whose trigger is reached, on unhealthy positions;
//   - stablestake MsgUpdateParams drafted from params read EARLIER (op ss_params), executed after bonds, loans, interest, closes;
//   - a consolidating leverage-1 re-open of a leveraged-LP position that has become unhealthy.
// They are appended AFTER the generated histories of a run (runLedger), so every stored seed keeps its histories and their indices.

func ledgerCorpus3() []lHist {
	sweep := func(q int, two bool) lHist {
		return lHist{Two: two, Ops: []lOp{ // three owners, 5x each, the asset loses 3/4: all under water; the owner of the FIRST position in key order
			// sends what it owes to the position's account; nobody sends a liquidation message: the begin blocker meets all three in one block
			{Op: "lev_open", U: 1, Amt: "1000000000", Lev: "5", P: "0", Q: q}, {Op: "lev_open", U: 2, Amt: "1000000000", Lev: "5", P: "0", Q: q},
			{Op: "lev_open", U: 3, Amt: "500000000", Lev: "5", P: "0", Q: q}, {Op: "blocks", N: 1, DT: 3700},
			{Op: "price", P: "0.5", Q: q}, {Op: "price", P: "0.5", Q: q}, {Op: "pos_donate", Idx: 0, Rel: 0},
			{Op: "blocks", N: 2, DT: 5},
			{Op: "lev_close", U: 1, Idx: 0, Rel: 5}, {Op: "lev_close_positions", U: 4, Idx: 0, Dir: 0, N: 8}, {Op: "blocks", N: 1, DT: 5}}}
	}
	return []lHist{
		sweep(0, false),
		sweep(1, true),
		{Ops: []lOp{ // debt-free positions (the loan of a 1.0001x open of a few thousand units truncates to zero) and an ordinary one; inside the
			// lock hour a third party, then the owner, asks for their liquidation; the owner tries to close; after the hour the owner closes
			{Op: "lev_open", U: 1, Amt: "5000", Lev: "1.0001", P: "0"}, {Op: "lev_open", U: 2, Amt: "900", Lev: "1.000001", P: "0"}, {Op: "lev_open", U: 3, Amt: "50000000", Lev: "2", P: "0"},
			{Op: "blocks", N: 1, DT: 60}, {Op: "lev_close_positions", U: 4, Idx: 0, Dir: 0, N: 1}, {Op: "lev_close_positions", U: 4, Idx: 1, Dir: 0, N: 1},
			{Op: "lev_close_positions", U: 4, Idx: 2, Dir: 0, N: 1}, {Op: "blocks", N: 1, DT: 5},
			{Op: "lev_close_positions", U: 1, Idx: 0, Dir: 0, N: 8}, {Op: "lev_close_positions", U: 2, Idx: 1, Dir: 1, N: 1}, {Op: "lev_close", U: 1, Idx: 0, Rel: 5},
			{Op: "blocks", N: 1, DT: 3700}, {Op: "lev_close", U: 1, Idx: 0, Rel: 5}, {Op: "lev_close", U: 2, Idx: 0, Rel: 3}, {Op: "blocks", N: 1, DT: 5}}},
		{Ops: []lOp{ // the same with stop-loss prices far above the LP token price (the sweep closes at stop loss, not as a liquidation), the middle position blocked
			{Op: "lev_open", U: 1, Amt: "800000000", Lev: "3", P: "1000000"}, {Op: "lev_open", U: 2, Amt: "900000000", Lev: "5", P: "0"},
			{Op: "lev_open", U: 3, Amt: "700000000", Lev: "9.5", P: "0"}, {Op: "lev_open", U: 4, Amt: "70000000", Lev: "10", P: "0"},
			{Op: "price", P: "0.5"}, {Op: "price", P: "0.5"}, {Op: "pos_donate", Idx: 1, Rel: 0}, {Op: "pos_donate", Idx: 2, Rel: 2, N: 1, U: 0},
			{Op: "blocks", N: 1, DT: 3700}, {Op: "blocks", N: 2, DT: 5}}},
		{Ops: []lOp{ // perpetual: a message names the same position twice while it is healthy and interest is due; every position twice; the same
			// position in the liquidation list and (stop loss reached) in the stop-loss list; an unhealthy position twice
			{Op: "perp_open", U: 1, Dir: 0, Amt: "1000000000", Lev: "3"}, {Op: "perp_open", U: 2, Dir: 1, Amt: "500000000", Lev: "2"},
			{Op: "perp_open", U: 3, Dir: 0, Amt: "200000000", Lev: "2", Rel: 1}, {Op: "blocks", N: 2, DT: 3700},
			{Op: "perp_close_positions", U: 4, Idx: 0, Dir: 0, N: 1, Dup: 1}, {Op: "blocks", N: 1, DT: 86400},
			{Op: "perp_close_positions", U: 4, Idx: 1, Dir: 0, N: 8, Dup: 5}, {Op: "blocks", N: 1, DT: 3700},
			{Op: "price", P: "0.8"}, {Op: "perp_close_positions", U: 4, Idx: 0, Dir: 0, N: 8, Dup: 4}, // all in liquidate AND all in stop loss
			{Op: "blocks", N: 1, DT: 3700},
			{Op: "steer", Dir: 0, Idx: 0, Rel: 0}, {Op: "perp_close_positions", U: 4, Idx: 0, Dir: 0, N: 1, Dup: 1}, {Op: "blocks", N: 1, DT: 5},
			{Op: "steer", Dir: 0, Idx: 0, Rel: 0}, {Op: "perp_close_positions", U: 4, Idx: 0, Dir: 0, N: 8, Dup: 2}, {Op: "blocks", N: 1, DT: 5}}},
		{Two: true, Ops: []lOp{ // the same on the second pool with the first pool's positions listed in between; take profit reached + liquidation list
			{Op: "perp_open", U: 1, Dir: 0, Amt: "1000000000", Lev: "3", Rel: 2, Q: 1}, {Op: "perp_open", U: 2, Dir: 1, Amt: "500000000", Lev: "2", Q: 1},
			{Op: "perp_open", U: 1, Dir: 0, Amt: "300000000", Lev: "2", Rel: 2}, {Op: "perp_open", U: 2, Dir: 1, Amt: "100000000", Lev: "3"},
			{Op: "blocks", N: 2, DT: 86400},
			{Op: "perp_close_positions", U: 4, Idx: 0, Dir: 0, N: 8, Dup: 1}, {Op: "blocks", N: 1, DT: 86400},
			{Op: "price", P: "1.25"}, {Op: "price", P: "1.25", Q: 1}, {Op: "perp_close_positions", U: 4, Idx: 0, Dir: 0, N: 8, Dup: 7}, // all in liquidate AND in take profit
			{Op: "blocks", N: 1, DT: 3700},
			{Op: "steer", Dir: 0, Idx: 0, Rel: 0}, {Op: "perp_close_positions", U: 4, Idx: 0, Dir: 0, N: 8, Dup: 5}, {Op: "blocks", N: 1, DT: 5}}},
		{Ops: []lOp{ // leveraged LP: the same ids twice / in both lists, healthy, stop loss reached, unhealthy
			{Op: "lev_open", U: 1, Amt: "900000000", Lev: "5", P: "0"}, {Op: "lev_open", U: 2, Amt: "400000000", Lev: "3", P: "1000000"},
			{Op: "lev_open", U: 3, Amt: "200000000", Lev: "9.5", P: "0"}, {Op: "blocks", N: 2, DT: 86400},
			{Op: "lev_close_positions", U: 4, Idx: 0, Dir: 0, N: 8, Dup: 5}, {Op: "lev_close_positions", U: 4, Idx: 0, Dir: 0, N: 8, Dup: 4},
			{Op: "lev_open", U: 2, Amt: "400000000", Lev: "3", P: "1000000"}, {Op: "blocks", N: 1, DT: 3700},
			{Op: "steer", Dir: 1, Idx: 0, Rel: 0}, {Op: "lev_close_positions", U: 4, Idx: 0, Dir: 0, N: 8, Dup: 1},
			{Op: "lev_close_positions", U: 4, Idx: 0, Dir: 1, N: 8, Dup: 7, Rel: 1}, {Op: "blocks", N: 1, DT: 5}}},
		{Ops: []lOp{ // a params proposal drafted before a loan, a bond and two days of interest is executed after them; then one with TotalValue
			// left zero, one from the current params, one from a user; then the stale one again after a partial close and an unbond
			{Op: "ss_params", Dir: 0}, {Op: "lev_open", U: 1, Amt: "2000000000", Lev: "5", P: "0"},
			{Op: "bond", U: 2, Amt: "5000000000"}, {Op: "blocks", N: 2, DT: 86400},
			{Op: "ss_params", Dir: 1}, {Op: "blocks", N: 1, DT: 5},
			{Op: "lev_close", U: 1, Idx: 0, Rel: 2}, {Op: "ss_params", Dir: 2}, {Op: "ss_params", Dir: 3}, {Op: "ss_params", U: 3, Dir: 4},
			{Op: "unbond", U: 2, Rel: 3}, {Op: "blocks", N: 1, DT: 86400}, {Op: "ss_params", Dir: 1}, {Op: "blocks", N: 1, DT: 5},
			{Op: "lev_close", U: 1, Idx: 0, Rel: 5}, {Op: "unbond", U: 2, Rel: 5}, {Op: "blocks", N: 1, DT: 5}}},
		{Ops: []lOp{ // a 5x leveraged-LP position becomes unhealthy (price steered just below its threshold), nobody liquidates, the owner re-opens
			// into it with leverage 1 and a collateral too small to matter; a third party asks for its liquidation in the same block
			{Op: "lev_open", U: 1, Amt: "1000000000", Lev: "5", P: "0"}, {Op: "blocks", N: 1, DT: 3700},
			{Op: "steer", Dir: 1, Idx: 0, Rel: 0}, {Op: "lev_open", U: 1, Amt: "1000", Lev: "1", P: "0"},
			{Op: "lev_close_positions", U: 4, Idx: 0, Dir: 0, N: 1}, {Op: "blocks", N: 1, DT: 5}}},
	}
}

// lScenario3: the same situations with drawn sizes, leverages, gaps, list shapes and pools (own PRNG stream)
func lScenario3(r *Rng, id int, kind int) lHist {
	two := lTwo(id)
	h := lHist{ID: id, Two: two}
	add := func(o lOp) { h.Ops = append(h.Ops, o) }
	pick := func() int {
		if !two {
			return 0
		}
		return r.Intn(2)
	}
	crash := func(q int) { // the pool's asset loses 3/4 .. 7/8 of its price
		for j := 0; j < 2+r.Intn(2); j++ {
			add(lOp{Op: "price", P: "0.5", Q: q})
		}
	}
	switch kind % 4 {
	case 0: // begin-block sweep over several positions that are under water, one of the first made to fail half way
		q := pick()
		k := 2 + r.Intn(3)
		for i := 0; i < k; i++ {
			add(lOp{Op: "lev_open", U: 1 + i, Amt: r.Decade(7, 9).String(), Lev: []string{"5", "5", "9.5", "10", "3"}[r.Intn(5)], P: []string{"0", "0", "0.5", "1000000"}[r.Intn(4)], Q: q})
			if two && r.Chance(30) { // the same owner also on the other pool (its asset keeps its price)
				add(lOp{Op: "lev_open", U: 1 + i, Amt: r.Decade(7, 9).String(), Lev: "3", P: "0", Q: 1 - q})
			}
		}
		add(lOp{Op: "blocks", N: 1, DT: r.Pick(3700, 86400)})
		crash(q)
		add(lOp{Op: "pos_donate", Idx: r.Intn(2), Rel: 0})
		if r.Chance(30) {
			add(lOp{Op: "pos_donate", Idx: 1 + r.Intn(3), Rel: r.Intn(4), Pool: r.Intn(3), N: int64(r.Intn(2)), U: r.Intn(5), Amt: r.Decade(3, 10).String()})
		}
		add(lOp{Op: "blocks", N: 2, DT: 5})
		add(lOp{Op: "lev_close", U: 1, Idx: 0, Rel: 3 + r.Intn(3)})
		add(lOp{Op: "lev_close_positions", U: r.Intn(5), Idx: 0, Dir: r.Intn(2), N: 8, Dup: r.Intn(8)})
		add(lOp{Op: "blocks", N: 1, DT: 5})
	case 1: // perpetual close-positions messages that repeat ids
		q := pick()
		k := 2 + r.Intn(3)
		for i := 0; i < k; i++ {
			add(lOp{Op: "perp_open", U: i % 5, Dir: []int{0, 0, 1, 2}[r.Intn(4)], Amt: r.Decade(7, 9).String(), Lev: []string{"2", "3", "5", "8"}[r.Intn(4)], Rel: r.Intn(3), Q: q})
			if two && r.Chance(40) {
				add(lOp{Op: "perp_open", U: i % 5, Dir: r.Intn(2), Amt: r.Decade(7, 9).String(), Lev: "2", Rel: r.Intn(3), Q: 1 - q})
			}
		}
		add(lOp{Op: "blocks", N: r.Pick(1, 2), DT: r.Pick(3700, 86400, 604800)})
		add(lOp{Op: "perp_close_positions", U: r.Intn(5), Idx: r.Intn(4), Dir: 0, N: r.Pick(1, 2, 8), Rel: r.Intn(2), Dup: 1 + r.Intn(7)})
		add(lOp{Op: "blocks", N: 1, DT: r.Pick(5, 3700, 86400)})
		add(lOp{Op: "price", P: []string{"0.8", "1.25"}[r.Intn(2)], Q: q}) // stop-loss (0.8x) / take-profit (1.2x, 0.8x) prices of Rel 1 / Rel 2 opens are reached
		add(lOp{Op: "perp_close_positions", U: r.Intn(5), Idx: r.Intn(4), Dir: r.Intn(3), N: 8, Rel: r.Intn(2), Dup: []int{3, 4, 6, 7}[r.Intn(4)]})
		add(lOp{Op: "blocks", N: 1, DT: r.Pick(5, 3700)})
		idx := r.Intn(4)
		add(lOp{Op: "steer", Dir: 0, Idx: idx, Rel: 0})
		add(lOp{Op: "perp_close_positions", U: r.Intn(5), Idx: idx, Dir: 0, N: r.Pick(1, 8), Rel: r.Intn(2), Dup: []int{1, 2, 5, 3}[r.Intn(4)]})
		add(lOp{Op: "blocks", N: 1, DT: 5})
	case 2: // params proposals drafted earlier, executed after the vault moved
		q := pick()
		add(lOp{Op: "ss_params", Dir: 0})
		add(lOp{Op: "lev_open", U: 1, Amt: r.Decade(8, 10).String(), Lev: []string{"3", "5", "10"}[r.Intn(3)], P: "0", Q: q})
		if r.Chance(50) {
			add(lOp{Op: "bond", U: 2, Amt: r.Decade(6, 11).String()})
		}
		add(lOp{Op: "blocks", N: r.Pick(1, 2), DT: r.Pick(3700, 86400, 2592000)})
		add(lOp{Op: "ss_params", Dir: r.Intn(5)})
		add(lOp{Op: "lev_close", U: 1, Idx: 0, Rel: 1 + r.Intn(4)})
		add(lOp{Op: "blocks", N: 1, DT: r.Pick(5, 86400)})
		add(lOp{Op: "ss_params", Dir: 1})
		add(lOp{Op: "unbond", U: []int{2, 5}[r.Intn(2)], Rel: 1 + r.Intn(5)})
		add(lOp{Op: "ss_params", Dir: 1 + r.Intn(3)})
		add(lOp{Op: "blocks", N: 1, DT: 5})
	default: // consolidating re-opens (leverage 1 / tiny / ordinary) of a leveraged-LP position steered to its liquidation threshold; batches repeating ids
		q := pick()
		add(lOp{Op: "lev_open", U: 1, Amt: r.Decade(7, 10).String(), Lev: []string{"3", "5", "9.5"}[r.Intn(3)], P: "0", Q: q})
		add(lOp{Op: "lev_open", U: 2, Amt: r.Decade(7, 9).String(), Lev: []string{"2", "5"}[r.Intn(2)], P: []string{"0", "1000000"}[r.Intn(2)], Q: q})
		add(lOp{Op: "blocks", N: 1, DT: r.Pick(3700, 86400, 604800)})
		idx := r.Intn(2)
		add(lOp{Op: "steer", Dir: 1, Idx: idx, Rel: r.Intn(2)})
		add(lOp{Op: "lev_open", U: 1 + idx, Amt: r.Decade(0, 6).String(), Lev: []string{"1", "1", "1.000001", "2"}[r.Intn(4)], P: "0", Q: q})
		add(lOp{Op: "lev_open", U: 2 - idx, Amt: r.Decade(0, 6).String(), Lev: "1", P: "0", Q: q})
		add(lOp{Op: "lev_close_positions", U: r.Intn(5), Idx: idx, Dir: 0, N: r.Pick(1, 8), Rel: r.Intn(2), Dup: r.Intn(8)})
		add(lOp{Op: "blocks", N: 1, DT: 5})
		add(lOp{Op: "lev_close_positions", U: r.Intn(5), Idx: 0, Dir: 1, N: 8, Rel: r.Intn(2), Dup: []int{0, 3, 4, 5}[r.Intn(4)]})
		add(lOp{Op: "blocks", N: 1, DT: 5})
	}
	tail := lGenN(r, id, 6+r.Intn(6))
	h.Ops = append(h.Ops, tail.Ops...)
	return h
}

// lExtras3: what runLedger appends to a run (fixed corpus + drawn scenarios), ids from `from` upwards
func lExtras3(seed int64, from int, n int) []lHist {
	out := ledgerCorpus3()
	for j := 0; j < n; j++ {
		id := from + len(out)
		out = append(out, lScenario3(NewRng(uint64(seed)+3000017, uint64(id)), id, j))
	}
	return append(out, ledgerCorpus4()...) // after the drawn scenarios, so that those keep their ids
}

// ledgerCorpus4: the pool RECORD is rewritten by a message that moves nothing (the price feeder's external-liquidity report) in the
// SAME block as, and AFTER, operations that changed the pool (join, exit, leveraged open, swap): the generator only places such reports
// at the start of a block. The first feed_ext of a history is the governance registration of the feeder, the later ones are reports;
// feed_ext never closes a block, "blocks" does.
func ledgerCorpus4() []lHist {
	same := func(two bool, q int) lHist {
		return lHist{Two: two, Ops: []lOp{
			// state-changing ops at EVEN indices (a block is closed after every other op with an odd index)
			{Op: "feed_ext", U: 1, Dir: 0, Rel: 1, Q: q}, {Op: "blocks", N: 1, DT: 5},
			{Op: "join", U: 1, Pool: 0, Dir: 1, Amt: "250000000", Q: q}, {Op: "feed_ext", U: 1, Dir: 0, Rel: 2, Q: q},
			{Op: "exit", U: 1, Pool: 0, Rel: 2, Q: q}, {Op: "feed_ext", U: 2, Dir: 1, Rel: 3, Q: q},
			{Op: "lev_open", U: 2, Amt: "300000000", Lev: "3", P: "0", Q: q}, {Op: "feed_ext", U: 2, Dir: 2, Rel: 4, Q: q},
			{Op: "blocks", N: 1, DT: 5}, {Op: "feed_ext", U: 3, Dir: 0, Rel: 5, Q: q},
			{Op: "swap_in", U: 3, V: 0, Dir: 0, Amt: "40000000", Q: q}, {Op: "feed_ext", U: 3, Dir: 0, Rel: 5, Q: q},
			{Op: "join", U: 3, Pool: 0, Dir: 0, Amt: "90000000", Q: q}, {Op: "feed_ext", U: 3, Dir: 2, Rel: 0, Q: q},
			{Op: "blocks", N: 1, DT: 3700}, {Op: "feed_ext", U: 2, Dir: 1, Rel: 1, Q: q},
			{Op: "lev_close", U: 2, Idx: 0, Rel: 5}, {Op: "feed_ext", U: 2, Dir: 1, Rel: 1, Q: q},
			{Op: "exit", U: 3, Pool: 0, Rel: 5, Q: q}, {Op: "feed_ext", U: 1, Dir: 0, Rel: 6, Q: q},
			{Op: "blocks", N: 1, DT: 5}}}
	}
	return []lHist{same(false, 0), same(true, 1)}
}
