package harness

// C13 driver: the masterchef reward ledger of the real application under histories that mix fee-generating
// swaps on both pools, gas fees (what the ante handler does: SendCoinsFromAccountToModule to the fee collector),
// perpetual positions whose interest becomes perpetual revenue, donations to pool revenue addresses (multi-denom
// revenue), joins / exits / bonds / unbonds by several accounts at different blocks, external incentives through
// the real messages, claims, and a final drain phase in random claimant order.
// It emits (a) Coq cases for the correspondence with Models/Chef.v (result kind, module balances, acc-per-share,
// TotalCommitted, committed shares, pending/debt of every slot that changed + checksums over all slots, after
// every op and every block) and (b) evaluates the property's own predicates on the implementation's numbers only.

import (
	"fmt"
	"math/big"
	"sort"
	"strings"
	"testing"
	"time"

	sdkmath "cosmossdk.io/math"
	sdk "github.com/cosmos/cosmos-sdk/types"
	authtypes "github.com/cosmos/cosmos-sdk/x/auth/types"
	ccvconsumertypes "github.com/cosmos/interchain-security/v6/x/ccv/consumer/types"

	ammtypes "github.com/elys-network/elys/x/amm/types"
	atypes "github.com/elys-network/elys/x/assetprofile/types"
	mctypes "github.com/elys-network/elys/x/masterchef/types"
	perptypes "github.com/elys-network/elys/x/perpetual/types"
	sstypes "github.com/elys-network/elys/x/stablestake/types"
)

// The Coq term for the model switches the cases are replayed with. "as_coded" = the code as it is. After the
// three masterchef sites are repaired by fix: commits this becomes "(mkFx false true true true)".
const c13Fx = "(mkFx false true true true)"

const c13Inc = "uinc" // a token only used for external incentives

var c13Dens = []string{USDC, ATOM, ELYS, c13Inc}

const c13Users = 6

type c13Op struct {
	Op    string `json:"op"` // swap join exit bond unbond gas donate perp_open perp_close incent claim block drain
	U     int    `json:"u,omitempty"`
	Pool  int    `json:"pool,omitempty"` // 0 oracle pool, 1 constant-product pool, 2 stable-stake vault, 7 no such pool
	Denom string `json:"denom,omitempty"`
	Amt   string `json:"amt,omitempty"`
	Sel   int    `json:"sel,omitempty"`
	Dt    int64  `json:"dt,omitempty"`
	From  int64  `json:"from,omitempty"` // incentive: FromBlock - current height
	Len   int64  `json:"len,omitempty"`  // incentive: ToBlock - FromBlock
	Pools []int  `json:"pools,omitempty"`
	Lev   string `json:"lev,omitempty"`
	Rnd   uint64 `json:"rnd,omitempty"`
}

type c13Hist struct {
	ID    int     `json:"id"`
	LP    string  `json:"lp,omitempty"` // RewardPortionForLps ("" = default 0.6)
	ST    string  `json:"st,omitempty"` // RewardPortionForStakers ("" = default 0.25)
	Ops   []c13Op `json:"ops"`
	Note  string  `json:"note,omitempty"`
}

func c13Big(s string) *big.Int {
	x, ok := new(big.Int).SetString(s, 10)
	if !ok {
		panic("bad integer " + s)
	}
	return x
}

var c13E18 = new(big.Int).Exp(big.NewInt(10), big.NewInt(18), nil)
var c13E36 = new(big.Int).Mul(c13E18, c13E18)

// ---------------------------------------------------------------- generator

func c13Gen(r *Rng, id int) c13Hist {
	h := c13Hist{ID: id}
	switch r.Intn(4) {
	case 1:
		h.LP, h.ST = "0.333333333333333333", "0.5"
	case 2:
		h.LP, h.ST = "0.7", "0.3"
	}
	amt := func() string {
		switch r.Intn(8) {
		case 0:
			return fmt.Sprint(1 + r.Intn(9)) // dust
		case 1:
			return r.Decade(1, 5).String()
		default:
			return r.Decade(5, 11).String()
		}
	}
	n := 30 + r.Intn(22)
	for k := 0; k < n; k++ {
		x := r.Intn(100)
		u := r.Intn(c13Users)
		switch {
		case x < 16:
			d := []string{USDC, ATOM}[r.Intn(2)]
			p := 0
			if r.Chance(50) {
				p = 1
				d = []string{USDC, ELYS}[r.Intn(2)]
			}
			h.Ops = append(h.Ops, c13Op{Op: "swap", U: u, Pool: p, Denom: d, Amt: amt()})
		case x < 26:
			h.Ops = append(h.Ops, c13Op{Op: "join", U: u, Pool: r.Intn(2), Amt: amt()})
		case x < 33:
			h.Ops = append(h.Ops, c13Op{Op: "exit", U: u, Pool: r.Intn(2), Sel: r.Intn(6), Rnd: r.Next()})
		case x < 38:
			h.Ops = append(h.Ops, c13Op{Op: "bond", U: u, Amt: amt()})
		case x < 42:
			h.Ops = append(h.Ops, c13Op{Op: "unbond", U: u, Sel: r.Intn(6), Rnd: r.Next()})
		case x < 50:
			h.Ops = append(h.Ops, c13Op{Op: "gas", U: u, Denom: []string{USDC, USDC, USDC, ATOM, ELYS}[r.Intn(5)], Amt: amt()})
		case x < 54:
			h.Ops = append(h.Ops, c13Op{Op: "donate", U: u, Pool: r.Intn(2), Denom: []string{USDC, ATOM, ELYS, c13Inc}[r.Intn(4)], Amt: amt()})
		case x < 56:
			// the stable-stake redemption rate leaves 1 only once a borrower's interest is booked: a keeper-level loan from the vault
			// (what a leveragelp open does), and later the accrual of its interest after long block gaps
			if r.Chance(50) {
				h.Ops = append(h.Ops, c13Op{Op: "vault_borrow", Sel: r.Intn(3)})
			} else {
				h.Ops = append(h.Ops, c13Op{Op: "block", Dt: r.Pick(86400, 30*86400, 365*86400)}, c13Op{Op: "vault_accrue"})
			}
		case x < 59:
			h.Ops = append(h.Ops, c13Op{Op: "perp_open", U: u, Amt: r.Decade(6, 10).String(), Lev: []string{"2", "3", "5"}[r.Intn(3)], Sel: r.Intn(2)})
		case x < 62:
			h.Ops = append(h.Ops, c13Op{Op: "perp_close", U: u, Sel: r.Intn(3)})
		case x < 69:
			p := r.Intn(3)
			if r.Chance(8) {
				p = 7
			}
			h.Ops = append(h.Ops, c13Op{Op: "incent", U: u, Pool: p, Denom: []string{c13Inc, c13Inc, USDC, ATOM, ELYS, "unope"}[r.Intn(6)],
				Amt: amt(), From: int64(r.Intn(4)) - int64(r.Intn(8)/7), Len: int64(r.Intn(5)) + int64(1-r.Intn(12)/11)})
		case x < 78:
			ps := []int{r.Intn(3)}
			for r.Chance(40) {
				ps = append(ps, []int{0, 1, 2, 7}[r.Intn(4)])
			}
			h.Ops = append(h.Ops, c13Op{Op: "claim", U: u, Pools: ps})
		default:
			h.Ops = append(h.Ops, c13Op{Op: "block", Dt: r.Pick(5, 5, 5, 60, 3600, 86400)})
		}
	}
	h.Ops = append(h.Ops, c13Op{Op: "block", Dt: 5}, c13Op{Op: "drain", Rnd: r.Next()})
	return h
}

// ---------------------------------------------------------------- state of a run

type c13Snap struct {
	Chef   []*big.Int     // denom
	Acc    [][]*big.Int   // pool, denom
	Tot    []*big.Int     // pool
	Bal    [][]*big.Int   // account, pool
	Pend   [][][]*big.Int // account, pool, denom
	Debt   [][][]*big.Int
	Xden   [][]int
	Res    []*big.Int // incentive funding not yet credited, per denom
	Height int64
}

type c13Run struct {
	t      *testing.T
	w      *World
	m      *Market
	col    *Collector
	h      c13Hist
	chef   sdk.AccAddress
	feeC   sdk.AccAddress
	fund   sdk.AccAddress
	redis  sdk.AccAddress
	prov   sdk.AccAddress
	proto  sdk.AccAddress
	pools  []uint64
	rev    []sdk.AccAddress
	pLP    *big.Int
	pST    *big.Int
	prev   c13Snap
	steps  []string
	k      int
	cause  string // first per-block cause seen in this history
	nontr  bool
	fp     strings.Builder
	supp   map[string]*big.Int // supported incentive denoms -> min amount
	poolAddr map[string]bool
}

func (x *c13Run) violate(sig, detail string) {
	x.col.Violate(Violation{Signature: sig, Detail: detail, History: x.h.ID, Step: x.k, Replay: x.h})
}

func c13DenIdx(d string) int {
	for i, s := range c13Dens {
		if s == d {
			return i
		}
	}
	return -1
}

func (x *c13Run) poolID(p int) uint64 {
	if p >= 0 && p < len(x.pools) {
		return x.pools[p]
	}
	return 99
}

func (x *c13Run) snap() c13Snap {
	ctx := x.w.QCtx()
	K := x.w.App.MasterchefKeeper
	s := c13Snap{Height: ctx.BlockHeight()}
	for _, d := range c13Dens {
		s.Chef = append(s.Chef, x.w.App.BankKeeper.GetBalance(ctx, x.chef, d).Amount.BigInt())
		s.Res = append(s.Res, new(big.Int))
	}
	for _, pid := range x.pools {
		var accs []*big.Int
		for _, d := range c13Dens {
			v := new(big.Int)
			if pri, ok := K.GetPoolRewardInfo(ctx, pid, d); ok {
				v = pri.PoolAccRewardPerShare.BigInt()
			}
			accs = append(accs, v)
		}
		s.Acc = append(s.Acc, accs)
		s.Tot = append(s.Tot, K.GetPoolTotalCommit(ctx, pid).BigInt())
		var xs []int
		if pi, ok := K.GetPoolInfo(ctx, pid); ok {
			for _, d := range pi.ExternalRewardDenoms {
				xs = append(xs, c13DenIdx(d))
			}
		}
		s.Xden = append(s.Xden, xs)
	}
	for u := 0; u < c13Users; u++ {
		var bs []*big.Int
		var ps, ds [][]*big.Int
		for _, pid := range x.pools {
			bs = append(bs, K.GetPoolBalance(ctx, pid, x.m.Users[u]).BigInt())
			var pp, dd []*big.Int
			for _, d := range c13Dens {
				pe, de := new(big.Int), new(big.Int)
				if uri, ok := K.GetUserRewardInfo(ctx, x.m.Users[u], pid, d); ok {
					pe, de = uri.RewardPending.BigInt(), uri.RewardDebt.BigInt()
				}
				pp, dd = append(pp, pe), append(dd, de)
			}
			ps, ds = append(ps, pp), append(ds, dd)
		}
		s.Bal, s.Pend, s.Debt = append(s.Bal, bs), append(s.Pend, ps), append(s.Debt, ds)
	}
	for _, inc := range K.GetAllExternalIncentives(ctx) {
		di := c13DenIdx(inc.RewardDenom)
		if di < 0 {
			continue
		}
		// blocks h in (from, to] not yet processed; the next end blocker runs at s.Height
		lo := inc.FromBlock
		if s.Height-1 > lo {
			lo = s.Height - 1
		}
		if rem := inc.ToBlock - lo; rem > 0 {
			s.Res[di].Add(s.Res[di], new(big.Int).Mul(inc.AmountPerBlock.BigInt(), big.NewInt(rem)))
		}
	}
	return s
}

// pending_total (a LegacyDec raw value) of one slot on the implementation's numbers
func (s c13Snap) ptotal(u, p, d int) *big.Int {
	x := new(big.Int).Mul(s.Acc[p][d], s.Bal[u][p])
	x.Sub(x, s.Debt[u][p][d])
	x.Quo(x, c13E18)
	return x.Add(x, s.Pend[u][p][d])
}

// exact liabilities at scale 10^36 and the sum of what ClaimRewards would pay, per denom
func (s c13Snap) owed(d int) (exact, claimable *big.Int) {
	exact, claimable = new(big.Int), new(big.Int)
	for u := range s.Bal {
		for p := range s.Tot {
			t := new(big.Int).Mul(s.Acc[p][d], s.Bal[u][p])
			t.Sub(t, s.Debt[u][p][d])
			t.Add(t, new(big.Int).Mul(s.Pend[u][p][d], c13E18))
			exact.Add(exact, t)
			claimable.Add(claimable, new(big.Int).Quo(s.ptotal(u, p, d), c13E18))
		}
	}
	return
}

func c13Nat(i int) string { return fmt.Sprintf("%d%%nat", i) }

func (x *c13Run) obs(cur c13Snap) string {
	var chef, acc, tot, bal, slot, xd []string
	sp, sd, sb := new(big.Int), new(big.Int), new(big.Int)
	for d := range c13Dens {
		chef = append(chef, fmt.Sprintf("cz %d %s", d, zstr(cur.Chef[d])))
	}
	first := len(x.prev.Tot) == 0
	for p := range x.pools {
		tot = append(tot, fmt.Sprintf("cz %d %s", p, zstr(cur.Tot[p])))
		for d := range c13Dens {
			if first || cur.Acc[p][d].Cmp(x.prev.Acc[p][d]) != 0 {
				acc = append(acc, fmt.Sprintf("az %d %d %s", p, d, zstr(cur.Acc[p][d])))
			}
		}
		var l []string
		for _, i := range cur.Xden[p] {
			l = append(l, c13Nat(i))
		}
		xd = append(xd, fmt.Sprintf("xd %d [%s]", p, strings.Join(l, ";")))
	}
	for u := 0; u < c13Users; u++ {
		for p := range x.pools {
			sb.Add(sb, cur.Bal[u][p])
			if first || cur.Bal[u][p].Cmp(x.prev.Bal[u][p]) != 0 {
				bal = append(bal, fmt.Sprintf("az %d %d %s", u, p, zstr(cur.Bal[u][p])))
			}
			for d := range c13Dens {
				sp.Add(sp, cur.Pend[u][p][d])
				sd.Add(sd, cur.Debt[u][p][d])
				if first || cur.Pend[u][p][d].Cmp(x.prev.Pend[u][p][d]) != 0 || cur.Debt[u][p][d].Cmp(x.prev.Debt[u][p][d]) != 0 {
					slot = append(slot, fmt.Sprintf("sl %d %d %d %s %s", u, p, d, zstr(cur.Pend[u][p][d]), zstr(cur.Debt[u][p][d])))
				}
			}
		}
	}
	j := func(l []string) string { return "[" + strings.Join(l, ";") + "]" }
	return fmt.Sprintf("(mkO %s %s %s %s %s (%s,%s,%s) %d %s)", j(chef), j(acc), j(tot), j(bal), j(slot), zstr(sp), zstr(sd), zstr(sb), cur.Height, j(xd))
}

func (x *c13Run) emit(op string, kind string, cur c13Snap) { x.emitOps([]string{op}, kind, cur) }

func (x *c13Run) emitOps(ops []string, kind string, cur c13Snap) {
	kd := map[string]int{"ok": 0, "err": 1, "panic": 2}[kind]
	x.steps = append(x.steps, fmt.Sprintf("mkStep [%s] %d %s", strings.Join(ops, "; "), kd, x.obs(cur)))
	x.prev = cur
}

// which accounts have a tier portfolio entry for the day of ctx: RetrieveAllPortfolio (tier hooks) computes it once per
// account and day and, through the masterchef UserPendingReward query, checkpoints the account on every pool
func (x *c13Run) portf(ctx sdk.Context) []bool {
	var l []bool
	date := x.w.App.TierKeeper.GetDateFromContext(ctx)
	for u := 0; u < c13Users; u++ {
		_, ok := x.w.App.TierKeeper.GetPortfolio(ctx, x.m.Users[u], date)
		l = append(l, ok)
	}
	return l
}

func c13Touched(before, after []bool) []string {
	var l []string
	for u := range before {
		if !before[u] && after[u] {
			l = append(l, fmt.Sprintf("OTouch %d", u))
		}
	}
	return l
}

// ---------------------------------------------------------------- implementation-side predicates

// the property's own predicate: for every denom the module balance covers the sum of what the claims would pay
// (and, stronger, also the incentive funding it still has to credit)
func (x *c13Run) checkSolvent(cur c13Snap, where string) {
	x.col.ImplCheck(len(c13Dens))
	for d := range c13Dens {
		_, cl := cur.owed(d)
		need := new(big.Int).Add(cl, cur.Res[d])
		if cl.Cmp(cur.Chef[d]) > 0 || need.Cmp(cur.Chef[d]) > 0 {
			sig := "C13:unpayable"
			if x.cause != "" {
				sig = x.cause
			}
			x.violate(sig, fmt.Sprintf("%s: masterchef holds %s %s, credited and unclaimed rewards %s (+ %s incentive funding not yet credited)",
				where, cur.Chef[d], c13Dens[d], cl, cur.Res[d]))
		}
	}
}

// committing / uncommitting shares must not change anybody's claimable reward
func (x *c13Run) checkNoRetro(before, after c13Snap, what string) {
	x.col.ImplCheck(1)
	for u := range before.Bal {
		for p := range before.Tot {
			for d := range c13Dens {
				if before.ptotal(u, p, d).Cmp(after.ptotal(u, p, d)) != 0 {
					x.violate("C13:retroactive-accrual", fmt.Sprintf("%s changed the claimable reward of account %d pool %d %s: %s -> %s",
						what, u, p, c13Dens[d], before.ptotal(u, p, d), after.ptotal(u, p, d)))
					return
				}
			}
		}
	}
}

func c13MulQuo(a, b *big.Int) *big.Int { // floor(a*b/1e18) for non-negative values
	return new(big.Int).Quo(new(big.Int).Mul(a, b), c13E18)
}

// per block: what the block added to the exact liabilities must be covered by what it added to the module
// balance plus the incentive funding it released; the cause is read off the ordered bank operations of the block
func (x *c13Run) checkBlock(before, after c13Snap, ops []BankOp) {
	x.col.ImplCheck(len(c13Dens))
	// blocks credit nothing to accounts without shares
	for u := range before.Bal {
		for p := range before.Tot {
			if before.Bal[u][p].Sign() == 0 {
				for d := range c13Dens {
					if before.ptotal(u, p, d).Cmp(after.ptotal(u, p, d)) != 0 {
						x.violate("C13:accrual-without-shares", fmt.Sprintf("block credited account %d pool %d %s without committed shares", u, p, c13Dens[d]))
					}
				}
			}
		}
	}
	short := map[int]*big.Int{}
	for d := range c13Dens {
		o0, _ := before.owed(d)
		o1, _ := after.owed(d)
		dOwed := new(big.Int).Sub(o1, o0)
		coll := new(big.Int).Sub(after.Chef[d], before.Chef[d])
		coll.Add(coll, new(big.Int).Sub(before.Res[d], after.Res[d]))
		coll.Mul(coll, c13E36)
		if dOwed.Cmp(coll) > 0 {
			short[d] = new(big.Int).Sub(dOwed, coll)
		}
	}
	if len(short) == 0 {
		return
	}
	// segment the block's bank operations: CollectPerpRevenue runs before CollectDEXRevenue, so whatever the masterchef
	// account pays to the stakers / provider / protocol addresses before the first pool revenue arrives is its doing
	seg := "perp"
	perpOut := new(big.Int)
	type pd struct{ p int; d string }
	revIn, dexOut := map[pd]*big.Int{}, map[pd]*big.Int{}
	add := func(m map[pd]*big.Int, k pd, v sdkmath.Int) {
		if m[k] == nil {
			m[k] = new(big.Int)
		}
		m[k].Add(m[k], v.BigInt())
	}
	segPool := -1
	for _, o := range ops {
		if o.Kind != "send" {
			continue
		}
		if o.To == x.chef.String() {
			if o.From == x.fund.String() {
				seg = "perp"
			}
			for p, ra := range x.rev {
				if o.From == ra.String() {
					seg, segPool = "dex", p
					add(revIn, pd{p, o.Denom}, o.Amt)
				}
			}
		}
		if o.From == x.chef.String() && (o.To == x.redis.String() || o.To == x.prov.String() || o.To == x.proto.String()) {
			switch seg {
			case "perp":
				if o.Denom == USDC {
					perpOut.Add(perpOut, o.Amt.BigInt())
				}
			case "dex":
				add(dexOut, pd{segPool, o.Denom}, o.Amt)
			}
		}
	}
	var causes []string
	if perpOut.Sign() > 0 {
		causes = append(causes, "C13:perp-portions-paid-from-masterchef")
	}
	for k, in := range revIn {
		st := c13MulQuo(in, x.pST)
		lpD := new(big.Int).Mul(in, x.pLP)
		stD := new(big.Int).Mul(in, x.pST)
		prD := new(big.Int).Sub(new(big.Int).Sub(new(big.Int).Mul(in, c13E18), lpD), stD)
		pr := new(big.Int).Quo(prD, c13E18)
		out := dexOut[k]
		if out != nil && out.Cmp(new(big.Int).Add(st, pr)) > 0 {
			causes = append(causes, "C13:dex-consumer-portion-from-staker-coins")
			break
		}
	}
	detail := ""
	for d, s := range short {
		detail += fmt.Sprintf("%s: credited exceeds collected by %s e-36; ", c13Dens[d], s)
	}
	if len(causes) == 0 {
		small := true
		for _, s := range short {
			if s.Cmp(new(big.Int).Mul(big.NewInt(2), c13E36)) >= 0 {
				small = false
			}
		}
		if small {
			causes = []string{"C13:dust-credited-not-collected"}
		} else {
			causes = []string{"C13:credit-exceeds-collected"}
		}
	}
	for _, c := range causes {
		if x.cause == "" {
			x.cause = c
		}
		x.violate(c, "block "+fmt.Sprint(before.Height)+": "+detail)
	}
}

// ---------------------------------------------------------------- one block

func (x *c13Run) block(dt int64) bool {
	w := x.w
	before := x.snap()
	feeBal := w.Bal(x.feeC, USDC).BigInt()
	fundBal := w.Bal(x.fund, USDC).BigInt()
	blockTime, blockHeight := w.Time, w.Height+1
	pf0 := x.portf(w.QCtx())
	x.m.RefreshPrices()
	if err := w.EndBlock(dt); err != nil {
		x.violate("C13:endblock-failed", err.Error())
		return false
	}
	ops := BankOps(w.LastBlockEvents)
	if int64(x.h.ID) == envInt("C13_DUMP", -1) {
		names := map[string]string{x.chef.String(): "CHEF", x.feeC.String(): "FEEC", x.fund.String(): "FUND", x.redis.String(): "REDIS", x.prov.String(): "PROV", x.proto.String(): "PROTO", x.rev[0].String(): "REV0", x.rev[1].String(): "REV1"}
		nm := func(a string) string {
			if n, ok := names[a]; ok {
				return n
			}
			return a[len(a)-6:]
		}
		fmt.Printf("BLOCK %d feeBal=%s fundBal=%s\n", blockHeight, feeBal, fundBal)
		for _, o := range ops {
			fmt.Printf("  %s %s -> %s %s %s\n", o.Kind, nm(o.From), nm(o.To), o.Amt, o.Denom)
		}
	}
	var G, Q *big.Int
	revs := make([][]string, len(x.pools))
	for _, o := range ops {
		if o.Kind != "send" {
			continue
		}
		if o.Denom == USDC {
			// the collectors' own transfers mark the moment at which the collected amount is read
			mc := o.To == x.chef.String() || o.To == x.redis.String() || o.To == x.prov.String() || o.To == x.proto.String()
			if o.From == x.feeC.String() && mc && G == nil {
				G = new(big.Int).Set(feeBal)
			}
			if o.From == x.fund.String() && mc && Q == nil {
				Q = new(big.Int).Set(fundBal)
			}
			if o.From == x.feeC.String() {
				feeBal.Sub(feeBal, o.Amt.BigInt())
			}
			// ConvertGasFeesToUsdc adds up the swaps' tokenOut amounts: a weight-balance bonus paid by a pool's
			// treasury to the same address is not part of the collected amount
			if o.To == x.feeC.String() && x.poolAddr[o.From] {
				feeBal.Add(feeBal, o.Amt.BigInt())
			}
			if o.From == x.fund.String() {
				fundBal.Sub(fundBal, o.Amt.BigInt())
			}
			if o.To == x.fund.String() && x.poolAddr[o.From] {
				fundBal.Add(fundBal, o.Amt.BigInt())
			}
		}
		if o.To == x.chef.String() {
			for p, ra := range x.rev {
				if o.From == ra.String() {
					di := c13DenIdx(o.Denom)
					if di < 0 {
						x.violate("C13:harness-unknown-revenue-denom", o.Denom)
						return false
					}
					revs[p] = append(revs[p], fmt.Sprintf("cz %d %s", di, o.Amt.String()))
				}
			}
		}
	}
	if G == nil {
		G = feeBal
	}
	if Q == nil {
		Q = fundBal
	}
	// proxy TVL of every pool as the end blocker saw it (nothing after the masterchef end blocker changes it)
	ctx := w.QCtx().WithBlockTime(blockTime).WithBlockHeight(blockHeight)
	var pis []string
	for p, pid := range x.pools {
		tvl := w.App.MasterchefKeeper.GetPoolTVL(ctx, pid)
		mult := sdkmath.LegacyOneDec()
		if pi, ok := w.App.MasterchefKeeper.GetPoolInfo(ctx, pid); ok {
			mult = pi.Multiplier
		}
		pis = append(pis, fmt.Sprintf("mkPI %d %s [%s]", p, zstr(tvl.Mul(mult).BigInt()), strings.Join(revs[p], ";")))
	}
	after := x.snap()
	x.checkBlock(before, after, ops)
	x.checkSolvent(after, "after block "+fmt.Sprint(before.Height))
	// swaps settle in the amm end blocker, before the masterchef end blocker: their tier hooks come first
	x.emitOps(append(c13Touched(pf0, x.portf(ctx)), fmt.Sprintf("OBlock (mkB %s %s [%s])", zstr(G), zstr(Q), strings.Join(pis, "; "))), "ok", after)
	x.col.Op("block", "ok", G)
	if G.Sign() > 0 || Q.Sign() > 0 || len(strings.Join(revs[0], "")+strings.Join(revs[1], "")) > 0 {
		x.nontr = true
	}
	fmt.Fprintf(&x.fp, "blk(%v,%v,%d);", G.Sign() > 0, Q.Sign() > 0, len(revs[0])+len(revs[1]))
	return true
}

// ---------------------------------------------------------------- one history

func c13Exec(t *testing.T, col *Collector, h c13Hist) string {
	w := NewWorld(t)
	o := DefaultMarketOpts()
	o.Users = c13Users
	m := NewMarket(w, o)
	x := &c13Run{t: t, w: w, m: m, col: col, h: h, supp: map[string]*big.Int{}}
	x.chef = authtypes.NewModuleAddress(mctypes.ModuleName)
	x.feeC = authtypes.NewModuleAddress(authtypes.FeeCollectorName)
	x.fund = authtypes.NewModuleAddress(perptypes.ModuleName)
	x.redis = authtypes.NewModuleAddress(ccvconsumertypes.ConsumerRedistributeName)
	x.prov = authtypes.NewModuleAddress(ccvconsumertypes.ConsumerToSendToProviderName)
	x.pools = []uint64{m.OraclePool, m.CPPool, uint64(sstypes.PoolId)}
	sort.Slice(x.pools, func(i, j int) bool { return x.pools[i] < x.pools[j] })
	if x.pools[0] != m.OraclePool || x.pools[1] != m.CPPool {
		t.Fatalf("unexpected pool ids %v", x.pools)
	}
	x.rev = []sdk.AccAddress{ammtypes.NewPoolRevenueAddress(m.OraclePool), ammtypes.NewPoolRevenueAddress(m.CPPool)}
	x.poolAddr = map[string]bool{}
	for _, pl := range w.App.AmmKeeper.GetAllPool(w.QCtx()) {
		x.poolAddr[pl.GetAddress()] = true
	}
	K := w.App.MasterchefKeeper
	// parameters through the real governance message
	mp := K.GetParams(w.QCtx())
	if h.LP != "" {
		mp.RewardPortionForLps, mp.RewardPortionForStakers = dec(h.LP), dec(h.ST)
		m.must("masterchef params", w.Deliver(&mctypes.MsgUpdateParams{Authority: w.Gov, Params: mp}))
	}
	x.pLP, x.pST = mp.RewardPortionForLps.BigInt(), mp.RewardPortionForStakers.BigInt()
	x.proto = sdk.MustAccAddressFromBech32(mp.ProtocolRevenueAddress)
	pProv := w.App.EstakingKeeper.GetParams(w.QCtx()).ProviderStakingRewardsPortion.BigInt()
	w.App.AssetprofileKeeper.SetEntry(w.Ctx(), atypes.Entry{BaseDenom: c13Inc, Denom: c13Inc, Decimals: 6, DisplayName: "INC", CommitEnabled: true, WithdrawEnabled: true})
	for i, d := range []string{c13Inc, USDC, ATOM, ELYS} {
		min := sdkmath.NewInt([]int64{1, 10, 1000, 1}[i])
		m.must("reward denom", w.Deliver(&mctypes.MsgAddExternalRewardDenom{Authority: w.Gov, RewardDenom: d, MinAmount: min, Supported: true}))
		x.supp[d] = min.BigInt()
	}
	for u := 0; u < c13Users; u++ {
		w.Mint(m.Users[u], sdk.NewCoins(sdk.NewCoin(c13Inc, I(1_000_000_000_000))))
	}
	// the case starts from the empty ledger at this height; the fixture's commitments are its first deposits
	h0 := w.Height + 1
	first := x.snap()
	for d := range c13Dens {
		if first.Chef[d].Sign() != 0 {
			t.Fatalf("masterchef account not empty after the fixture")
		}
	}
	x.prev = c13Snap{}
	{
		// replay the fixture as deposits: build the observation incrementally
		cur := x.snap()
		zero := x.snap()
		for u := range zero.Bal {
			for p := range zero.Tot {
				zero.Bal[u][p] = new(big.Int)
			}
		}
		for p := range zero.Tot {
			zero.Tot[p] = new(big.Int)
		}
		acc := zero
		for u := range cur.Bal {
			for p := range cur.Tot {
				if cur.Bal[u][p].Sign() > 0 {
					acc.Bal[u][p] = cur.Bal[u][p]
					acc.Tot[p] = new(big.Int).Add(acc.Tot[p], cur.Bal[u][p])
					x.emit(fmt.Sprintf("ODeposit %d %d %s", u, p, zstr(cur.Bal[u][p])), "ok", acc)
					// emit keeps a reference: copy for the next round
					nb := make([][]*big.Int, len(acc.Bal))
					for i := range acc.Bal {
						nb[i] = append([]*big.Int{}, acc.Bal[i]...)
					}
					acc.Bal = nb
					acc.Tot = append([]*big.Int{}, acc.Tot...)
				}
			}
		}
		for p := range cur.Tot {
			if acc.Tot[p].Cmp(cur.Tot[p]) != 0 {
				t.Fatalf("fixture: TotalCommitted of pool %d is %s, tracked accounts hold %s", p, cur.Tot[p], acc.Tot[p])
			}
		}
		x.prev = cur
	}

	for k, op := range h.Ops {
		x.k = k
		cur := x.snap()
		if int64(h.ID) == envInt("C13_DUMP", -1) {
			fmt.Printf("DUMP %d %+v steps=%d\n", k, op, len(x.steps))
		}
		usr := m.Users[op.U%c13Users]
		us := usr.String()
		u := op.U % c13Users
		pf0 := x.portf(w.QCtx())
		touched := func() []string { return c13Touched(pf0, x.portf(w.QCtx())) }
		quiet := func() { // an op that does not touch the ledger itself: only the tier hook may
			if tl := touched(); len(tl) > 0 {
				x.emitOps(tl, "ok", x.snap())
			}
		}
		switch op.Op {
		case "block":
			if !x.block(op.Dt) {
				return ""
			}
		case "swap":
			pid := x.poolID(op.Pool)
			out := map[string]string{USDC: ATOM, ATOM: USDC}[op.Denom]
			if op.Pool == 1 {
				out = map[string]string{USDC: ELYS, ELYS: USDC}[op.Denom]
			}
			r := w.Deliver(&ammtypes.MsgSwapExactAmountIn{Sender: us, Routes: []ammtypes.SwapAmountInRoute{{PoolId: pid, TokenOutDenom: out}},
				TokenIn: sdk.NewCoin(op.Denom, sdkmath.NewIntFromBigInt(c13Big(op.Amt))), TokenOutMinAmount: I(1), Recipient: us})
			col.Op("swap", r.Kind(), c13Big(op.Amt))
			fmt.Fprintf(&x.fp, "swap%d:%s;", op.Pool, r.Kind())
			quiet()
		case "gas":
			// what the ante handler's DeductFees does with a transaction fee
			r := x.keeperTx(func(ctx sdk.Context) error {
				return w.App.BankKeeper.SendCoinsFromAccountToModule(ctx, usr, authtypes.FeeCollectorName, sdk.NewCoins(sdk.NewCoin(op.Denom, sdkmath.NewIntFromBigInt(c13Big(op.Amt)))))
			})
			col.Op("gas", r.Kind(), c13Big(op.Amt))
			fmt.Fprintf(&x.fp, "gas:%s;", r.Kind())
			quiet()
		case "donate":
			r := x.keeperTx(func(ctx sdk.Context) error {
				return w.App.BankKeeper.SendCoins(ctx, usr, x.rev[op.Pool%2], sdk.NewCoins(sdk.NewCoin(op.Denom, sdkmath.NewIntFromBigInt(c13Big(op.Amt)))))
			})
			col.Op("donate", r.Kind(), c13Big(op.Amt))
			fmt.Fprintf(&x.fp, "don:%s;", r.Kind())
			quiet()
		case "vault_borrow", "vault_accrue":
			K := w.App.StablestakeKeeper
			borrower := Addr(700)
			var r TxResult
			if op.Op == "vault_borrow" {
				cash := w.Bal(authtypes.NewModuleAddress(sstypes.ModuleName), USDC)
				amt := cash.QuoRaw([]int64{10, 4, 2}[op.Sel%3])
				if !amt.IsPositive() {
					col.Op(op.Op, "skip", nil)
					continue
				}
				r = x.keeperTx(func(ctx sdk.Context) error { return K.Borrow(ctx, borrower, sdk.NewCoin(USDC, amt)) })
			} else {
				r = x.keeperTx(func(ctx sdk.Context) error { K.UpdateInterestAndGetDebt(ctx, borrower); return nil })
			}
			col.Op(op.Op, r.Kind(), nil)
			fmt.Fprintf(&x.fp, "vb:%s;", r.Kind())
			quiet()
		case "perp_open":
			pos, tp := perptypes.Position_LONG, "25"
			if op.Sel == 1 {
				pos, tp = perptypes.Position_SHORT, "1"
			}
			r := w.Deliver(&perptypes.MsgOpen{Creator: us, Position: pos, Leverage: dec(op.Lev), TradingAsset: ATOM, Collateral: sdk.NewCoin(USDC, sdkmath.NewIntFromBigInt(c13Big(op.Amt))),
				TakeProfitPrice: dec(tp), StopLossPrice: dec("0"), PoolId: m.OraclePool})
			col.Op("perp_open", r.Kind(), c13Big(op.Amt))
			fmt.Fprintf(&x.fp, "po:%s;", r.Kind())
			quiet()
		case "perp_close":
			ms := w.App.PerpetualKeeper.GetAllMTPs(w.QCtx())
			if len(ms) == 0 {
				col.Op("perp_close", "skip", nil)
				continue
			}
			pf0 = x.portf(w.QCtx())
			p := ms[op.U%len(ms)]
			amt := p.Custody
			if op.Sel == 1 {
				amt = p.Custody.QuoRaw(2)
			}
			r := w.Deliver(&perptypes.MsgClose{Creator: p.Address, Id: p.Id, Amount: amt})
			col.Op("perp_close", r.Kind(), amt.BigInt())
			fmt.Fprintf(&x.fp, "pc:%s;", r.Kind())
			quiet()
		case "join", "bond", "exit", "unbond":
			p := op.Pool % 2
			var r TxResult
			var amt *big.Int
			switch op.Op {
			case "join":
				amt = c13Big(op.Amt)
				pool, _ := w.App.AmmKeeper.GetPool(w.QCtx(), x.poolID(p))
				if p == 0 && op.U%2 == 0 {
					// single-sided join of the oracle pool
					r = w.Deliver(&ammtypes.MsgJoinPool{Sender: us, PoolId: pool.PoolId, MaxAmountsIn: sdk.NewCoins(sdk.NewCoin(USDC, sdkmath.NewIntFromBigInt(amt))), ShareAmountOut: I(1)})
				} else {
					// all-asset join: shares in proportion to the uusdc amount
					var usdcRes sdkmath.Int
					maxs := sdk.Coins{}
					for _, a := range pool.PoolAssets {
						if a.Token.Denom == USDC {
							usdcRes = a.Token.Amount
						}
					}
					if usdcRes.IsNil() || !usdcRes.IsPositive() {
						col.Op("join", "skip", nil)
						continue
					}
					shares := pool.TotalShares.Amount.Mul(sdkmath.NewIntFromBigInt(amt)).Quo(usdcRes)
					for _, a := range pool.PoolAssets {
						maxs = maxs.Add(sdk.NewCoin(a.Token.Denom, a.Token.Amount.Mul(sdkmath.NewIntFromBigInt(amt)).Quo(usdcRes).MulRaw(101).QuoRaw(100).AddRaw(2)))
					}
					if !shares.IsPositive() {
						shares = sdkmath.OneInt()
					}
					r = w.Deliver(&ammtypes.MsgJoinPool{Sender: us, PoolId: pool.PoolId, MaxAmountsIn: maxs, ShareAmountOut: shares})
				}
			case "bond":
				p = 2
				amt = c13Big(op.Amt)
				r = w.Deliver(&sstypes.MsgBond{Creator: us, Amount: sdkmath.NewIntFromBigInt(amt)})
			case "exit", "unbond":
				if op.Op == "unbond" {
					p = 2
				}
				have := cur.Bal[u][p]
				amt = c13Rel(op.Sel, have, op.Rnd)
				if op.Op == "unbond" {
					r = w.Deliver(&sstypes.MsgUnbond{Creator: us, Amount: sdkmath.NewIntFromBigInt(amt)})
				} else {
					r = w.Deliver(&ammtypes.MsgExitPool{Sender: us, PoolId: x.poolID(p), MinAmountsOut: sdk.Coins{}, ShareAmountIn: sdkmath.NewIntFromBigInt(amt)})
				}
			}
			after := x.snap()
			col.Op(op.Op, r.Kind(), amt)
			fmt.Fprintf(&x.fp, "%s%d:%s;", op.Op, p, r.Kind())
			if r.OK() {
				x.nontr = true
				delta := new(big.Int).Sub(after.Bal[u][p], cur.Bal[u][p])
				x.checkNoRetro(cur, after, op.Op)
				if delta.Sign() >= 0 && (op.Op == "join" || op.Op == "bond") {
					x.emitOps(append([]string{fmt.Sprintf("ODeposit %d %d %s", u, p, zstr(delta))}, touched()...), "ok", after)
				} else if delta.Sign() <= 0 && (op.Op == "exit" || op.Op == "unbond") {
					x.emitOps(append([]string{fmt.Sprintf("OWithdraw %d %d %s", u, p, zstr(new(big.Int).Neg(delta)))}, touched()...), "ok", after)
				} else {
					x.violate("C13:shares-moved-the-wrong-way", fmt.Sprintf("%s changed the committed shares by %s", op.Op, delta))
				}
			}
		case "incent":
			cctx := w.QCtx()
			from := cctx.BlockHeight() + op.From
			to := from + op.Len
			amt := c13Big(op.Amt)
			total := new(big.Int).Mul(amt, big.NewInt(op.Len))
			min, sup := x.supp[op.Denom]
			funded := sup && total.Cmp(min) >= 0 && w.Bal(usr, op.Denom).BigInt().Cmp(total) >= 0
			r := w.Deliver(&mctypes.MsgAddExternalIncentive{Sender: us, RewardDenom: op.Denom, PoolId: x.poolID(op.Pool), FromBlock: from, ToBlock: to, AmountPerBlock: sdkmath.NewIntFromBigInt(amt)})
			col.Op("incent", r.Kind(), amt)
			fmt.Fprintf(&x.fp, "inc%d:%s;", op.Pool, r.Kind())
			di := c13DenIdx(op.Denom)
			if di < 0 {
				if r.OK() {
					x.violate("C13:unsupported-incentive-denom-accepted", op.Denom)
				}
				continue
			}
			after := x.snap()
			x.emitOps(append([]string{fmt.Sprintf("OAddInc %d %d %d %d %s %v", di, op.Pool, from, to, zstr(amt), funded)}, touched()...), r.Kind(), after)
			if r.OK() {
				x.nontr = true
				x.checkSolvent(after, "after add-incentive")
			}
		case "claim":
			var ids []uint64
			var ps []string
			for _, p := range op.Pools {
				ids = append(ids, x.poolID(p))
				ps = append(ps, c13Nat(p))
			}
			r := w.Deliver(&mctypes.MsgClaimRewards{Sender: us, PoolIds: ids})
			after := x.snap()
			col.Op("claim", r.Kind(), nil)
			fmt.Fprintf(&x.fp, "claim:%s;", r.Kind())
			x.emitOps(append([]string{fmt.Sprintf("OClaim %d [%s]", u, strings.Join(ps, ";"))}, touched()...), r.Kind(), after)
			if !r.OK() {
				sig := "C13:unpayable"
				if x.cause != "" {
					sig = x.cause
				}
				x.violate(sig, fmt.Sprintf("ClaimRewards of account %d for pools %v failed: %v %v", u, op.Pools, r.Err, r.Panic))
			} else {
				x.nontr = true
			}
		case "drain":
			// every account claims everything, in random order: every claim must succeed
			rr := NewRng(op.Rnd, 77)
			order := []int{0, 1, 2, 3, 4, 5}
			for i := len(order) - 1; i > 0; i-- {
				j := rr.Intn(i + 1)
				order[i], order[j] = order[j], order[i]
			}
			for _, du := range order {
				r := w.Deliver(&mctypes.MsgClaimRewards{Sender: m.Users[du].String(), PoolIds: x.pools})
				after := x.snap()
				col.Op("drain_claim", r.Kind(), nil)
				x.emit(fmt.Sprintf("OClaim %d [%s;%s;%s]", du, c13Nat(0), c13Nat(1), c13Nat(2)), r.Kind(), after)
				if !r.OK() {
					sig := "C13:unpayable"
					if x.cause != "" {
						sig = x.cause
					}
					x.violate(sig, fmt.Sprintf("drain: ClaimRewards of account %d failed: %v %v", du, r.Err, r.Panic))
				}
			}
			x.checkSolvent(x.snap(), "after the drain")
		}
	}
	col.Distinct(x.fp.String(), x.nontr)
	col.Sample(h)
	var dl []string
	for d := range c13Dens {
		dl = append(dl, c13Nat(d))
	}
	return fmt.Sprintf("mkC %d %s (mkP %s %s %s) %d %d %d [%s] [\n  %s]", h.ID, c13Fx, zstr(x.pLP), zstr(x.pST), zstr(pProv),
		c13Users, len(x.pools), h0, strings.Join(dl, ";"), strings.Join(x.steps, ";\n  "))
}

func c13Rel(sel int, have *big.Int, rnd uint64) *big.Int {
	switch sel {
	case 0:
		return big.NewInt(1)
	case 1:
		return new(big.Int).Quo(have, big.NewInt(3))
	case 2:
		return new(big.Int).Sub(have, big.NewInt(1))
	case 3:
		return new(big.Int).Set(have)
	case 4:
		return new(big.Int).Add(have, big.NewInt(1))
	default:
		if have.Sign() <= 0 {
			return big.NewInt(1)
		}
		return new(big.Int).Add(NewRng(rnd, 5).Big(have), big.NewInt(1))
	}
}

func (x *c13Run) keeperTx(f func(ctx sdk.Context) error) (res TxResult) {
	base := x.w.Ctx()
	cctx, write := base.CacheContext()
	defer func() {
		if r := recover(); r != nil {
			res = TxResult{Panic: r}
		}
	}()
	if err := f(cctx); err != nil {
		return TxResult{Err: err}
	}
	write()
	return TxResult{}
}

func TestC13(t *testing.T) {
	seed := envInt("VERIF_SEED", 1)
	col := NewCollector("C13", seed)
	n := 80
	if tier() == "thorough" {
		n = 900
	}
	n = int(envInt("VERIF_N", int64(n)))
	var hists []c13Hist
	var one c13Hist
	if loadReplay(&one) {
		hists = []c13Hist{one}
	} else {
		hists = append(hists, c13Corpus()...)
		for i := len(hists); i < n; i++ {
			hists = append(hists, c13Gen(NewRng(uint64(seed), uint64(i)), i))
		}
	}
	t0 := time.Now()
	RunParallel(len(hists), func(i int) {
		h := hists[i]
		h.ID = i
		if txt := c13Exec(t, col, h); txt != "" {
			col.Case(i, txt)
		}
	})
	col.Extra("exec_s", time.Since(t0).Seconds())
	header := "From Coq Require Import ZArith List Bool.\nFrom Elys Require Import Base.Res Models.Chef Run.ChefRun.\nImport ListNotations.\nOpen Scope Z_scope.\n"
	footer := "Definition M := Eval vm_compute in mismatches cases.\nPrint M.\n"
	col.Finish(t, len(hists), header, footer, 4)
}

// corpus: fixed histories that matter (run first on every check)
func c13Corpus() []c13Hist {
	return []c13Hist{
		{Note: "DEX revenue: one swap on the constant-product pool, one block, the pool creator claims",
			Ops: []c13Op{{Op: "swap", U: 1, Pool: 1, Denom: USDC, Amt: "1000000000"}, {Op: "block", Dt: 5}, {Op: "claim", U: 0, Pools: []int{1}}}},
		{Note: "perpetual revenue: a leveraged long, a day of interest, closed; the liquidity providers claim",
			Ops: []c13Op{{Op: "perp_open", U: 1, Amt: "1000000000", Lev: "3"}, {Op: "block", Dt: 5}, {Op: "block", Dt: 86400}, {Op: "block", Dt: 86400},
				{Op: "perp_close", U: 0}, {Op: "block", Dt: 5}, {Op: "block", Dt: 5}, {Op: "drain", Rnd: 1}}},
		{Note: "gas fees in uusdc and in a denom that has to be converted, dust amounts, several providers joining at different blocks",
			Ops: []c13Op{{Op: "gas", U: 1, Denom: USDC, Amt: "1"}, {Op: "block", Dt: 5}, {Op: "gas", U: 1, Denom: USDC, Amt: "7"}, {Op: "gas", U: 2, Denom: ATOM, Amt: "1000000"},
				{Op: "join", U: 2, Pool: 1, Amt: "3000000"}, {Op: "block", Dt: 5}, {Op: "join", U: 3, Pool: 0, Amt: "5000000"}, {Op: "bond", U: 3, Amt: "7"},
				{Op: "gas", U: 1, Denom: USDC, Amt: "1000003"}, {Op: "block", Dt: 5}, {Op: "exit", U: 2, Pool: 1, Sel: 1}, {Op: "unbond", U: 3, Sel: 3},
				{Op: "gas", U: 1, Denom: ELYS, Amt: "999"}, {Op: "block", Dt: 5}, {Op: "drain", Rnd: 2}}},
		{Note: "external incentives: funded, credited block by block, removed at ToBlock; a provider joining in between earns only from then on",
			Ops: []c13Op{{Op: "incent", U: 1, Pool: 1, Denom: c13Inc, Amt: "1000", From: 1, Len: 3}, {Op: "incent", U: 2, Pool: 0, Denom: USDC, Amt: "7", From: 0, Len: 2},
				{Op: "block", Dt: 5}, {Op: "join", U: 3, Pool: 1, Amt: "1000000000"}, {Op: "block", Dt: 5}, {Op: "block", Dt: 5}, {Op: "claim", U: 3, Pools: []int{1, 1, 7}},
				{Op: "incent", U: 1, Pool: 7, Denom: c13Inc, Amt: "5", From: 0, Len: 1}, {Op: "incent", U: 1, Pool: 2, Denom: ATOM, Amt: "1", From: 0, Len: 1},
				{Op: "block", Dt: 5}, {Op: "block", Dt: 5}, {Op: "block", Dt: 5}, {Op: "drain", Rnd: 3}}},
	}
}
