package harness

// C18 - no reachable state makes block processing fail.
//
// Real application, real FinalizeBlock + Commit (World.EndBlock). Histories = the ledger driver's user
// activity (lGen / lRun.exec: amm, stablestake, leveragelp, perpetual) interleaved with ENVIRONMENT FAULTS:
// oracle outages (some or all prices not refreshed for k blocks; the oracle end blocker expires them),
// prices deleted outright, block-time gaps of hours .. a year (several epochs at once), odd balances on the
// accounts the blockers sweep (fee collector, perpetual module, pool revenue addresses, burner zero address;
// incl. denoms without asset info / price / pool), governance parameter values permitted by Validate,
// Eden rewards / pool multipliers / time based inflation, external incentives that end, staking changes,
// dust positions and pools dumped lopsided.
//
// After EVERY block the result of FinalizeBlock/Commit must be success (C18:block-failed:<where>); a failing
// user transaction must leave every store unchanged (C18:failed-tx-not-rolled-back).
//
// Correspondence with coq/Models/Blocks.v over coq/Generated/BlockerSurface.v: before the real block the
// same block is run blocker by blocker on a throw-away branch, in the production order taken from the
// module manager, the Elys blockers at KEEPER level (raw result: ok / error value / panic), everything else
// at module level. The Coq side maps the raw results through the generated table (propagates / dropped)
// and must predict the result of the real FinalizeBlock for every block.

import (
	"context"
	"crypto/sha256"
	"encoding/hex"
	"encoding/json"
	"fmt"
	"math/big"
	"os"
	"path/filepath"
	"reflect"
	"regexp"
	"runtime/debug"
	"sort"
	"strings"
	"testing"
	"time"

	"cosmossdk.io/core/appmodule"
	errorsmod "cosmossdk.io/errors"
	sdkmath "cosmossdk.io/math"
	storetypes "cosmossdk.io/store/types"
	sdk "github.com/cosmos/cosmos-sdk/types"
	"github.com/cosmos/cosmos-sdk/types/module"
	authtypes "github.com/cosmos/cosmos-sdk/x/auth/types"
	banktypes "github.com/cosmos/cosmos-sdk/x/bank/types"
	minttypes "github.com/cosmos/cosmos-sdk/x/mint/types"

	ammtypes "github.com/elys-network/elys/x/amm/types"
	aptypes "github.com/elys-network/elys/x/assetprofile/types"
	burnertypes "github.com/elys-network/elys/x/burner/types"
	ctypes "github.com/elys-network/elys/x/commitment/types"
	estypes "github.com/elys-network/elys/x/estaking/types"
	levtypes "github.com/elys-network/elys/x/leveragelp/types"
	mctypes "github.com/elys-network/elys/x/masterchef/types"
	oracletypes "github.com/elys-network/elys/x/oracle/types"
	paramtypes "github.com/elys-network/elys/x/parameter/types"
	perptypes "github.com/elys-network/elys/x/perpetual/types"
	sstypes "github.com/elys-network/elys/x/stablestake/types"
	tokentypes "github.com/elys-network/elys/x/tokenomics/types"
)

// ---------------------------------------------------------------- generated table

type c18Pt struct {
	Fn        string `json:"fn"`
	Kind      string `json:"kind"`
	Detail    string `json:"detail"`
	Guarded   bool   `json:"guarded"`
	Recovered bool   `json:"recovered"`
	Live      bool   `json:"live"`
}

type c18Blk struct {
	ID         int     `json:"id"`
	Module     string  `json:"module"`
	Phase      string  `json:"phase"`
	Pos        int     `json:"pos"`
	Elys       bool    `json:"elys"`
	Pkg        string  `json:"pkg"`
	Trivial    bool    `json:"trivial"`
	Propagates bool    `json:"propagates"`
	Points     []c18Pt `json:"points"`
}

func c18LoadTable(t *testing.T) []c18Blk {
	dir := os.Getenv("VERIF_GENDIR")
	if dir == "" {
		dir = filepath.Join("..", "coq", "Generated")
	}
	b, err := os.ReadFile(filepath.Join(dir, "blockers.json"))
	if err != nil {
		t.Fatalf("C18: generated table missing (run ./check C18, or tools/gotrans blockers): %v", err)
	}
	var tb struct {
		Blockers []c18Blk `json:"blockers"`
	}
	if err := json.Unmarshal(b, &tb); err != nil {
		t.Fatalf("C18: blockers.json: %v", err)
	}
	return tb.Blockers
}

// ---------------------------------------------------------------- generator

// bank-level ueden / uedenb are left out on purpose: Eden and EdenB exist only as commitment-module ledger entries, no
// message can create a bank balance in those denoms (a fixture-minted one makes the distribution wrapper panic)
var c18Denoms = []string{USDC, ATOM, ELYS, "uodd", "amm/pool/1", "amm/pool/2", "stablestake/share", "ibc/27394FB092D2ECCD56123C74F36E4C1F926001CEADA9CA97EA622B25F41E5EB2"}

const c18NParam = 25

func c18Gen(r *Rng, id int) lHist {
	base := lGen(r, id)
	h := lHist{ID: id}
	fault := func() lOp {
		x := r.Intn(100)
		u := r.Intn(5)
		switch {
		case x < 14:
			return lOp{Op: "f_outage", Dir: 1 + r.Intn(7), N: r.Pick(1, 2, 3, 5, 10)}
		case x < 18:
			return lOp{Op: "f_restore"}
		case x < 22:
			return lOp{Op: "f_delprice", Dir: r.Intn(3)}
		case x < 32:
			return lOp{Op: "f_gap", N: r.Pick(1, 1, 2, 3), DT: r.Pick(301, 3600, 86400, 7*86400, 11*86400, 30*86400, 366*86400)}
		case x < 46:
			a := r.Decade(0, 13)
			if r.Chance(30) {
				a = big.NewInt(r.Pick(1, 1, 2, 3, 7, 10))
			}
			return lOp{Op: "f_mint", Dir: r.Intn(5), Idx: r.Intn(len(c18Denoms)), Pool: r.Intn(2), Amt: a.String()}
		case x < 62:
			return lOp{Op: "f_param", Idx: r.Intn(c18NParam)}
		case x < 67:
			return lOp{Op: "f_eden", Pool: r.Intn(3), Dir: r.Intn(4)}
		case x < 71:
			return lOp{Op: "f_inflation", N: r.Pick(1, 2, 5, 1000), Idx: r.Intn(5)}
		case x < 76:
			return lOp{Op: "f_incentive", U: u, Pool: r.Intn(4), Idx: r.Intn(3), N: r.Pick(1, 2, 3, 10), Amt: r.Decade(0, 10).String()}
		case x < 80:
			return lOp{Op: "f_claim", U: u}
		case x < 85:
			return lOp{Op: "f_stake", U: u, Dir: r.Intn(3), Amt: r.Decade(0, 12).String()}
		case x < 88:
			return lOp{Op: "f_vest", U: u, Dir: r.Intn(3), Rel: r.Intn(6)}
		case x < 93:
			if r.Chance(50) {
				return lOp{Op: "lev_open", U: u, Amt: fmt.Sprint(r.Pick(1, 2, 10, 100, 999)), Lev: []string{"1.5", "2", "10"}[r.Intn(3)], P: "0"}
			}
			return lOp{Op: "perp_open", U: u, Dir: r.Intn(4), Amt: fmt.Sprint(r.Pick(1, 2, 10, 100, 999)), Lev: []string{"1.2", "2", "10"}[r.Intn(3)], Rel: r.Intn(4)}
		case x < 99:
			return lOp{Op: "f_dump", U: u, Pool: r.Intn(2), Dir: r.Intn(2), Rel: r.Intn(6)}
		default:
			if r.Chance(50) {
				return lOp{Op: "f_lopsided", Dir: r.Intn(3)}
			}
			return lOp{Op: "f_rmentry", Dir: r.Intn(3)}
		}
	}
	for _, op := range base.Ops {
		for r.Chance(38) {
			h.Ops = append(h.Ops, fault())
		}
		h.Ops = append(h.Ops, op)
	}
	return h
}

// ---------------------------------------------------------------- run

type c18Run struct {
	t     *testing.T
	col   *Collector
	w     *World
	m     *Market
	x     *lRun
	h     lHist
	step  int
	table []c18Blk
	byPos map[string]c18Blk // phase/pos
	keys  []storetypes.StoreKey
	val   string
	// faults
	outage map[string]int64 // denom -> blocks left without a refreshed price
	// observations for the Coq replay
	blocks  []string
	nBlocks int
	nRawErr int
	dead    bool
	fp      strings.Builder
	nontriv bool
	rew     *[]string // rows for TestC18Rewards (c18_stake_test.go); nil: not recorded
}

func (c *c18Run) fail(sig, detail string) {
	c.col.Violate(Violation{Signature: sig, Detail: detail, History: c.h.ID, Step: c.step, Replay: c.h})
}

var c18FrameRe = regexp.MustCompile(`github\.com/elys-network/elys/x/([a-z]+)(?:/[a-z]+)*\.(?:\(\*?\w+\)\.|[A-Z]\w*\.)?(\w+)`)

// c18Sig derives a stable, specific suffix for a failing block: module and function of the first x/<module>
// frame of a panic, or codespace/code of a returned error.
func c18Sig(err error) (string, int) {
	s := err.Error()
	if strings.HasPrefix(s, "PANIC in FinalizeBlock/Commit") {
		for _, ln := range strings.Split(s, "\n") {
			if m := c18FrameRe.FindStringSubmatch(ln); m != nil {
				return "C18:block-failed:" + m[1] + "." + m[2], 2
			}
		}
		return "C18:block-failed:panic-outside-x", 2
	}
	cs, code, _ := errorsmod.ABCIInfo(err, false)
	return fmt.Sprintf("C18:block-failed:error:%s/%d", cs, code), 1
}

func (c *c18Run) initKeys() {
	var named []struct {
		n string
		k storetypes.StoreKey
	}
	for n, k := range c.w.App.GetKVStoreKeys() {
		named = append(named, struct {
			n string
			k storetypes.StoreKey
		}{"kv/" + n, k})
	}
	for n, k := range c.w.App.GetTransientStoreKeys() {
		named = append(named, struct {
			n string
			k storetypes.StoreKey
		}{"t/" + n, k})
	}
	for n, k := range c.w.App.GetMemoryStoreKey() {
		named = append(named, struct {
			n string
			k storetypes.StoreKey
		}{"m/" + n, k})
	}
	sort.Slice(named, func(i, j int) bool { return named[i].n < named[j].n })
	for _, x := range named {
		c.keys = append(c.keys, x.k)
	}
}

func (c *c18Run) storeHash() string {
	ms := c.w.Ctx().MultiStore()
	h := sha256.New()
	var lb [8]byte
	put := func(b []byte) {
		l := uint64(len(b))
		for i := 0; i < 8; i++ {
			lb[i] = byte(l >> (8 * i))
		}
		h.Write(lb[:])
		h.Write(b)
	}
	for _, k := range c.keys {
		put([]byte(k.Name()))
		it := ms.GetKVStore(k).Iterator(nil, nil)
		for ; it.Valid(); it.Next() {
			put(it.Key())
			put(it.Value())
		}
		it.Close()
	}
	return hex.EncodeToString(h.Sum(nil))
}

// ---- keeper-level entry points of the Elys blockers (what the module methods call)

func (c *c18Run) keeperBlockers() map[string]func(sdk.Context) error {
	app := c.w.App
	return map[string]func(sdk.Context) error{
		"epochs/begin":      func(x sdk.Context) error { app.EpochsKeeper.BeginBlocker(x); return nil },
		"stablestake/begin": func(x sdk.Context) error { app.StablestakeKeeper.BeginBlocker(x); return nil },
		"perpetual/begin":   func(x sdk.Context) error { app.PerpetualKeeper.BeginBlocker(x); return nil },
		"leveragelp/begin":  func(x sdk.Context) error { app.LeveragelpKeeper.BeginBlocker(x); return nil },
		"tier/begin":        func(x sdk.Context) error { app.TierKeeper.BeginBlocker(x); return nil },
		"oracle/end":        func(x sdk.Context) error { app.OracleKeeper.EndBlock(x); return nil },
		"amm/end":           func(x sdk.Context) error { app.AmmKeeper.EndBlocker(x); return nil },
		"masterchef/end":    func(x sdk.Context) error { return app.MasterchefKeeper.EndBlocker(x) },
		"estaking/end":      func(x sdk.Context) error { return app.EstakingKeeper.EndBlocker(x) },
	}
}

func c18Guard(f func() error) (kind int, err error) {
	defer func() {
		if r := recover(); r != nil {
			kind, err = 2, fmt.Errorf("panic: %v\n%s", r, debug.Stack())
		}
	}()
	if e := f(); e != nil {
		return 1, e
	}
	return 0, nil
}

// checkTable: the generated table and the module manager must describe the same pipeline
func (c *c18Run) checkTable() {
	mm := c.w.App.ModuleManager()
	kb := c.keeperBlockers()
	c.byPos = map[string]c18Blk{}
	nb, ne := 0, 0
	want := map[string]bool{}
	for _, b := range c.table {
		switch b.Phase {
		case "begin":
			nb++
		case "end":
			ne++
		default:
			continue
		}
		c.byPos[fmt.Sprintf("%s/%d", b.Phase, b.Pos)] = b
		if b.Elys && !b.Trivial && b.Pkg == "x/"+b.Module {
			want[b.Module+"/"+b.Phase] = true
		}
	}
	if nb != len(mm.OrderBeginBlockers) || ne != len(mm.OrderEndBlockers) {
		c.fail("C18:table-mismatch", fmt.Sprintf("table has %d begin / %d end entries, the module manager %d / %d", nb, ne, len(mm.OrderBeginBlockers), len(mm.OrderEndBlockers)))
		return
	}
	for ph, order := range map[string][]string{"begin": mm.OrderBeginBlockers, "end": mm.OrderEndBlockers} {
		for i, name := range order {
			b := c.byPos[fmt.Sprintf("%s/%d", ph, i)]
			mod := mm.Modules[name]
			pp := reflect.TypeOf(mod).PkgPath()
			isElys := strings.HasPrefix(pp, "github.com/elys-network/elys/x/") && !strings.Contains(pp, "/modules/")
			if b.Elys && !strings.HasSuffix(pp, "/"+b.Pkg) {
				c.fail("C18:table-mismatch", fmt.Sprintf("%s position %d: table says %s (%s), the module manager has %s (%s)", ph, i, b.Module, b.Pkg, name, pp))
			}
			runs := false
			if ph == "begin" {
				_, runs = mod.(appmodule.HasBeginBlocker)
			} else {
				_, a := mod.(appmodule.HasEndBlocker)
				_, b2 := mod.(module.HasABCIEndBlock)
				runs = a || b2
			}
			if isElys && runs && !b.Elys {
				c.fail("C18:table-mismatch", fmt.Sprintf("%s position %d: %s is an Elys module with a %s blocker but the table has no record for it", ph, i, name, ph))
			}
		}
	}
	for k := range want {
		if kb[k] == nil {
			c.fail("C18:table-mismatch", "the table lists the non-trivial blocker "+k+" that the harness does not drive at keeper level")
		}
	}
	for k := range kb {
		if !want[k] {
			c.fail("C18:table-mismatch", "the harness drives "+k+" at keeper level but the table says it is trivial or absent")
		}
	}
}

// probe runs the block about to be finalized blocker by blocker on a throw-away branch
func (c *c18Run) probe() (raws []string, firstErr string) {
	mm := c.w.App.ModuleManager()
	kb := c.keeperBlockers()
	ctx, _ := c.w.Ctx().CacheContext()
	ctx = ctx.WithEventManager(sdk.NewEventManager())
	for _, ph := range []string{"begin", "end"} {
		order := mm.OrderBeginBlockers
		if ph == "end" {
			order = mm.OrderEndBlockers
		}
		for i, name := range order {
			b, ok := c.byPos[fmt.Sprintf("%s/%d", ph, i)]
			if !ok {
				continue
			}
			var kind int
			var err error
			if f := kb[b.Module+"/"+ph]; f != nil && b.Elys {
				kind, err = c18Guard(func() error { return f(ctx) })
			} else {
				mod := mm.Modules[name]
				kind, err = c18Guard(func() error {
					if ph == "begin" {
						if m, ok := mod.(appmodule.HasBeginBlocker); ok {
							return m.BeginBlock(context.Context(ctx))
						}
						return nil
					}
					if m, ok := mod.(appmodule.HasEndBlocker); ok {
						return m.EndBlock(context.Context(ctx))
					}
					if m, ok := mod.(module.HasABCIEndBlock); ok {
						_, e := m.EndBlock(context.Context(ctx))
						return e
					}
					return nil
				})
			}
			if kind != 0 {
				raws = append(raws, fmt.Sprintf("(%d,%d)", b.ID, kind))
				if firstErr == "" {
					firstErr = fmt.Sprintf("%s/%s: %v", name, ph, firstLines(err.Error(), 14))
				}
				c.nRawErr++
			}
		}
	}
	return
}

func (c *c18Run) refresh() {
	ds := make([]string, 0, len(c.m.Prices))
	for d := range c.m.Prices {
		ds = append(ds, d)
	}
	sort.Strings(ds)
	for _, d := range ds {
		if c.outage[d] != 0 {
			if c.outage[d] > 0 {
				c.outage[d]--
			}
			continue
		}
		c.m.SetPrice(d, c.m.Prices[d])
	}
}

func (c *c18Run) block(dt int64) bool {
	if c.dead {
		return false
	}
	c.refresh()
	raws, rawDetail := c.probe()
	err := c.w.EndBlock(dt)
	obs := 0
	if err != nil {
		sig, k := c18Sig(err)
		if k == 1 && rawDetail != "" {
			// a returned error carries no stack: name the first blocker that fails at keeper level
			sig = strings.Replace(sig, "C18:block-failed:error:", "C18:block-failed:"+strings.SplitN(rawDetail, ":", 2)[0]+":error:", 1)
		}
		obs = k
		sig += c18StakeCause(c.w) // a more specific suffix where the cause is a known parameter edge (c18_stake_test.go)
		c.fail(sig, firstLines(err.Error(), 40)+"\n-- keeper-level probe: "+rawDetail)
		c.dead = true
	}
	if c.rew != nil && err == nil {
		c.rewardRow()
	}
	c.blocks = append(c.blocks, fmt.Sprintf("(%d,[%s])", obs, strings.Join(raws, ";")))
	c.nBlocks++
	c.col.ImplCheck(1)
	return err == nil
}

// tx delivers one message and checks the rollback of a failure
func (c *c18Run) tx(kind string, f func() (TxResult, *big.Int)) TxResult {
	before := c.storeHash()
	res, amt := f()
	if !res.OK() {
		if after := c.storeHash(); after != before {
			c.fail("C18:failed-tx-not-rolled-back", fmt.Sprintf("%s failed (%s: %v %v) but the stores changed", kind, res.Kind(), res.Err, res.Panic))
		}
		c.col.ImplCheck(1)
	} else {
		c.nontriv = true
	}
	c.col.Op(kind, res.Kind(), amt)
	fmt.Fprintf(&c.fp, "%s:%s;", kind, res.Kind())
	return res
}

// mintTo: fixture-level credit that also reaches module accounts (fees, revenue and plain transfers do)
func (c *c18Run) mintTo(addr sdk.AccAddress, coins sdk.Coins) {
	ctx := c.w.Ctx()
	if err := c.w.App.BankKeeper.MintCoins(ctx, minttypes.ModuleName, coins); err != nil {
		c.t.Fatalf("c18 mint: %v", err)
	}
	if err := c.w.App.BankKeeper.SendCoins(ctx, authtypes.NewModuleAddress(minttypes.ModuleName), addr, coins); err != nil {
		c.t.Fatalf("c18 send: %v", err)
	}
}

func (c *c18Run) fault(op lOp) {
	w, m := c.w, c.m
	app := w.App
	u := m.User(op.U)
	gov := w.Gov
	h := w.Height + 1
	one := func(msg sdk.Msg) func() (TxResult, *big.Int) {
		return func() (TxResult, *big.Int) { return w.Deliver(msg), nil }
	}
	switch op.Op {
	case "f_outage":
		for i, d := range []string{USDC, ATOM, ELYS} {
			if op.Dir&(1<<i) != 0 {
				c.outage[d] = op.N
			}
		}
		c.col.Op(op.Op, "ok", nil)
	case "f_restore":
		c.outage = map[string]int64{}
		c.col.Op(op.Op, "ok", nil)
	case "f_delprice":
		d := []string{USDC, ATOM, ELYS}[op.Dir%3]
		ctx := w.Ctx()
		for _, p := range app.OracleKeeper.GetAllPrice(ctx) {
			if p.Asset == m.Display[d] {
				app.OracleKeeper.RemovePrice(ctx, p.Asset, p.Source, p.Timestamp)
			}
		}
		if c.outage[d] == 0 {
			c.outage[d] = 1
		}
		c.col.Op(op.Op, "ok", nil)
	case "f_gap":
		for j := int64(0); j < op.N; j++ {
			// the gap is between the previous block and this one
			w.Time = w.Time.Add(time.Duration(op.DT) * time.Second)
			if !c.block(5) {
				return
			}
		}
		c.col.Op(op.Op, "ok", nil)
	case "f_mint":
		var to sdk.AccAddress
		// a chain past its first blocks: the module accounts exist (a plain transfer to the ADDRESS of a module account
		// that was never created would put a BaseAccount there and the next GetModuleAccount panics; fixture artefact)
		for _, n := range []string{authtypes.FeeCollectorName, perptypes.ModuleName, mctypes.ModuleName, burnertypes.ModuleName} {
			app.AccountKeeper.GetModuleAccount(w.Ctx(), n)
		}
		switch op.Dir {
		case 0:
			to = authtypes.NewModuleAddress(authtypes.FeeCollectorName)
		case 1:
			to = authtypes.NewModuleAddress(perptypes.ModuleName)
		case 2:
			to = ammtypes.NewPoolRevenueAddress(c.x.poolID(op.Pool))
		case 3:
			to = burnertypes.GetZeroAddress()
		default:
			to = authtypes.NewModuleAddress(mctypes.ModuleName)
		}
		d := c18Denoms[op.Idx%len(c18Denoms)]
		v := bigOf(op.Amt)
		if v.IsPositive() {
			c.mintTo(to, sdk.NewCoins(sdk.NewCoin(d, v)))
		}
		c.col.Op(op.Op, "ok", v.BigInt())
	case "f_param":
		c.param(op.Idx)
	case "f_eden":
		pid := []uint64{m.OraclePool, m.CPPool, uint64(sstypes.PoolId)}[op.Pool%3]
		switch op.Dir {
		case 0, 1:
			c.tx(op.Op, one(&mctypes.MsgTogglePoolEdenRewards{Authority: gov, PoolId: pid, Enable: op.Dir == 0}))
		default:
			mul := []string{"0", "1000000"}[op.Dir-2]
			c.tx(op.Op, one(&mctypes.MsgUpdatePoolMultipliers{Authority: gov, PoolMultipliers: []mctypes.PoolMultiplier{{PoolId: pid, Multiplier: dec(mul)}}}))
		}
	case "f_inflation":
		v := []uint64{1, 1_000_000_000_000, 9_000_000_000_000_000_000, 18_000_000_000_000_000_000, 3 * 6307200}[op.Idx%5]
		c.tx(op.Op, one(&tokentypes.MsgCreateTimeBasedInflation{Authority: gov, StartBlockHeight: uint64(h), EndBlockHeight: uint64(h + op.N), Description: "c18",
			Inflation: &tokentypes.InflationEntry{LmRewards: v, IcsStakingRewards: v, CommunityFund: v, StrategicReserve: v, TeamTokensVested: v}}))
	case "f_incentive":
		d := []string{ATOM, "uodd", USDC}[op.Idx%3]
		pid := []uint64{m.OraclePool, m.CPPool, uint64(sstypes.PoolId), 77}[op.Pool%4]
		c.tx("f_reward_denom", one(&mctypes.MsgAddExternalRewardDenom{Authority: gov, RewardDenom: d, MinAmount: I(1), Supported: true}))
		v := bigOf(op.Amt)
		if d == "uodd" {
			c.mintTo(sdk.MustAccAddressFromBech32(u), sdk.NewCoins(sdk.NewCoin(d, v.MulRaw(op.N+1))))
		}
		c.tx(op.Op, func() (TxResult, *big.Int) {
			return w.Deliver(&mctypes.MsgAddExternalIncentive{Sender: u, RewardDenom: d, PoolId: pid, FromBlock: h, ToBlock: h + op.N, AmountPerBlock: v}), v.BigInt()
		})
	case "f_claim":
		c.tx(op.Op, one(&mctypes.MsgClaimRewards{Sender: u, PoolIds: []uint64{m.OraclePool, m.CPPool, uint64(sstypes.PoolId)}}))
	case "f_stake":
		v := bigOf(op.Amt)
		switch op.Dir {
		case 0:
			c.tx(op.Op, func() (TxResult, *big.Int) {
				return w.Deliver(&ctypes.MsgStake{Creator: u, Amount: v, Asset: ELYS, ValidatorAddress: c.val}), v.BigInt()
			})
		case 1:
			c.tx("f_unstake", func() (TxResult, *big.Int) {
				return w.Deliver(&ctypes.MsgUnstake{Creator: u, Amount: v, Asset: ELYS, ValidatorAddress: c.val}), v.BigInt()
			})
		default:
			cm := app.CommitmentKeeper.GetCommitments(w.QCtx(), sdk.MustAccAddressFromBech32(u))
			a := cm.GetClaimedForDenom("ueden")
			c.tx("f_commit_eden", func() (TxResult, *big.Int) {
				return w.Deliver(&ctypes.MsgCommitClaimedRewards{Creator: u, Denom: "ueden", Amount: a}), a.BigInt()
			})
		}
	case "f_vest":
		cm := app.CommitmentKeeper.GetCommitments(w.QCtx(), sdk.MustAccAddressFromBech32(u))
		switch op.Dir {
		case 0:
			a := relOf(op.Rel, cm.GetClaimedForDenom("ueden"))
			c.tx(op.Op, func() (TxResult, *big.Int) {
				return w.Deliver(&ctypes.MsgVest{Creator: u, Amount: a, Denom: "ueden"}), a.BigInt()
			})
		case 1:
			c.tx("f_claim_vesting", one(&ctypes.MsgClaimVesting{Sender: u}))
		default:
			c.tx("f_cancel_vest", one(&ctypes.MsgCancelVest{Creator: u, Amount: relOf(op.Rel, I(1000000)), Denom: "ueden"}))
		}
	case "f_dump":
		a, b := c.x.poolDenoms(op.Pool)
		if op.Dir == 1 {
			a, b = b, a
		}
		v := relOf(op.Rel, w.Bal(sdk.MustAccAddressFromBech32(u), a))
		if !v.IsPositive() {
			v = I(1)
		}
		c.tx(op.Op, func() (TxResult, *big.Int) {
			return w.Deliver(&ammtypes.MsgSwapExactAmountIn{Sender: u, Routes: []ammtypes.SwapAmountInRoute{{PoolId: c.x.poolID(op.Pool), TokenOutDenom: b}},
				TokenIn: sdk.NewCoin(a, v), TokenOutMinAmount: I(1), Recipient: u}), v.BigInt()
		})
	case "f_lopsided":
		// an allow-listed pool creator creates a second uelys/uusdc pool that is worth more than the regular one at oracle
		// prices (so price estimation picks it) but prices ELYS at almost nothing: the Eden price rounds to zero at 10^-18
		assets := []ammtypes.PoolAsset{
			{Token: sdk.NewCoin(ELYS, I(900_000_000_000)), Weight: I(1), ExternalLiquidityRatio: dec("1")},
			{Token: sdk.NewCoin(USDC, I([]int64{1000, 1, 1000000}[op.Dir%3])), Weight: I([]int64{1000000, 1000000, 1}[op.Dir%3]), ExternalLiquidityRatio: dec("1")},
		}
		c.tx(op.Op, one(&ammtypes.MsgCreatePool{Sender: c.m.Users[0].String(), PoolParams: ammtypes.PoolParams{SwapFee: dec("0.003"), UseOracle: false, FeeDenom: USDC}, PoolAssets: assets}))
	case "f_rmentry":
		d := []string{USDC, ATOM, ELYS}[op.Dir%3]
		c.tx(op.Op, one(&aptypes.MsgDeleteEntry{Authority: gov, BaseDenom: d}))
	default:
		c.t.Fatalf("unknown fault %q", op.Op)
	}
}

// governance parameter values that the modules' own validation accepts (a rejected message is a no-op)
func (c *c18Run) param(i int) {
	w := c.w
	app := w.App
	gov := w.Gov
	ctx := w.QCtx()
	name := fmt.Sprintf("f_param_%02d", i%c18NParam)
	del := func(msg sdk.Msg) {
		c.tx(name, func() (TxResult, *big.Int) { return w.Deliver(msg), nil })
	}
	mc := app.MasterchefKeeper.GetParams(ctx)
	es := app.EstakingKeeper.GetParams(ctx)
	switch i % c18NParam {
	case 0:
		mc.RewardPortionForLps, mc.RewardPortionForStakers = dec("1"), dec("0")
		del(&mctypes.MsgUpdateParams{Authority: gov, Params: mc})
	case 1:
		mc.RewardPortionForLps, mc.RewardPortionForStakers = dec("0"), dec("0")
		del(&mctypes.MsgUpdateParams{Authority: gov, Params: mc})
	case 2:
		mc.RewardPortionForLps, mc.RewardPortionForStakers = dec("0"), dec("1")
		del(&mctypes.MsgUpdateParams{Authority: gov, Params: mc})
	case 3:
		mc.RewardPortionForLps, mc.RewardPortionForStakers = dec("0.1"), dec("0.9")
		del(&mctypes.MsgUpdateParams{Authority: gov, Params: mc})
	case 4:
		mc.RewardPortionForLps, mc.RewardPortionForStakers = dec("0.6"), dec("0.25")
		del(&mctypes.MsgUpdateParams{Authority: gov, Params: mc})
	case 5:
		mc.MaxEdenRewardAprLps = dec("0")
		del(&mctypes.MsgUpdateParams{Authority: gov, Params: mc})
	case 6:
		es.ProviderStakingRewardsPortion = dec("0")
		del(&estypes.MsgUpdateParams{Authority: gov, Params: es})
	case 7:
		es.ProviderStakingRewardsPortion = dec("1")
		del(&estypes.MsgUpdateParams{Authority: gov, Params: es})
	case 8:
		es.ProviderStakingRewardsPortion = dec("2")
		del(&estypes.MsgUpdateParams{Authority: gov, Params: es})
	case 9:
		es.ProviderStakingRewardsPortion = dec("0.25")
		del(&estypes.MsgUpdateParams{Authority: gov, Params: es})
	case 10:
		es.EdenBoostApr, es.MaxEdenRewardAprStakers = dec("0"), dec("0")
		del(&estypes.MsgUpdateParams{Authority: gov, Params: es})
	case 11:
		es.EdenBoostApr, es.MaxEdenRewardAprStakers = dec("1000000"), dec("1000000")
		del(&estypes.MsgUpdateParams{Authority: gov, Params: es})
	case 12:
		del(&paramtypes.MsgUpdateTotalBlocksPerYear{Creator: gov, TotalBlocksPerYear: 1})
	case 13:
		del(&paramtypes.MsgUpdateTotalBlocksPerYear{Creator: gov, TotalBlocksPerYear: 1 << 63})
	case 14:
		del(&paramtypes.MsgUpdateTotalBlocksPerYear{Creator: gov, TotalBlocksPerYear: 0})
	case 15:
		del(&paramtypes.MsgUpdateRewardsDataLifetime{Creator: gov, RewardsDataLifetime: 1})
	case 16:
		p := app.StablestakeKeeper.GetParams(ctx)
		p.EpochLength = 0
		del(&sstypes.MsgUpdateParams{Authority: gov, Params: &p})
	case 17:
		p := app.LeveragelpKeeper.GetParams(ctx)
		p.EpochLength, p.NumberPerBlock, p.FallbackEnabled = 0, 0, true
		del(&levtypes.MsgUpdateParams{Authority: gov, Params: &p})
	case 18:
		p := app.OracleKeeper.GetParams(ctx)
		p.PriceExpiryTime, p.LifeTimeInBlocks = 0, 0
		del(&oracletypes.MsgUpdateParams{Authority: gov, Params: p})
	case 19:
		p := app.OracleKeeper.GetParams(ctx)
		p.PriceExpiryTime, p.LifeTimeInBlocks = 86400, 1
		del(&oracletypes.MsgUpdateParams{Authority: gov, Params: p})
	case 20:
		p := app.BurnerKeeper.GetParams(ctx)
		p.EpochIdentifier = "five_minutes"
		del(&burnertypes.MsgUpdateParams{Authority: gov, Params: p})
	case 21:
		p := app.PerpetualKeeper.GetParams(ctx)
		p.FixedFundingRate = dec("0")
		p.BorrowInterestRateMin = dec("0")
		del(&perptypes.MsgUpdateParams{Authority: gov, Params: &p})
	case 22: // few vesting slots per account (validation only asks for >= 0): the ICS provider address fills them up
		del(&ctypes.MsgUpdateVestingInfo{Authority: gov, BaseDenom: "ueden", VestingDenom: ELYS, NumBlocks: 1000000, VestNowFactor: 90, NumMaxVestings: 2})
	case 24: // a vesting schedule of zero blocks (validation only asks for >= 0)
		del(&ctypes.MsgUpdateVestingInfo{Authority: gov, BaseDenom: "ueden", VestingDenom: ELYS, NumBlocks: 0, VestNowFactor: 90, NumMaxVestings: 10000})
	case 23: // the provider's rewards are vested at every five-minute epoch
		es.ProviderVestingEpochIdentifier = "five_minutes"
		del(&estypes.MsgUpdateParams{Authority: gov, Params: es})
	}
}

func c18RunHistory(t *testing.T, col *Collector, table []c18Blk, h lHist) {
	c18RunHistoryX(t, col, table, h, nil)
}

func c18RunHistoryX(t *testing.T, col *Collector, table []c18Blk, h lHist, rew *[]string) {
	w := NewWorld(t)
	m := NewMarket(w, lMarketOpts(h)) // two-pool market (aweth, second oracle pool) when the history asks for it
	x := &lRun{t: t, col: col, prop: "C18", w: w, m: m, h: h, donated: map[string]*big.Int{}, supply0: map[string]sdkmath.Int{}}
	x.vaultDonated = sdkmath.ZeroInt()
	c := &c18Run{t: t, col: col, w: w, m: m, x: x, h: h, table: table, outage: map[string]int64{}, rew: rew}
	c.initKeys()
	vals, err := w.App.StakingKeeper.GetAllValidators(w.QCtx())
	if err == nil && len(vals) > 0 {
		c.val = vals[0].OperatorAddress
	}
	// denom metadata so that the burner hook sees the denoms
	for _, d := range []string{ELYS, USDC, "uodd"} {
		w.App.BankKeeper.SetDenomMetaData(w.Ctx(), banktypes.Metadata{Base: d, Display: d, DenomUnits: []*banktypes.DenomUnit{{Denom: d, Exponent: 0}}})
	}
	c.step = -1
	c.checkTable()
	if !c.block(5) {
		return
	}
	for k, op := range h.Ops {
		c.step = k
		x.step = k
		if c.dead {
			break
		}
		switch {
		case strings.HasPrefix(op.Op, "f_"):
			c.fault(op)
		case strings.HasPrefix(op.Op, "s_"): // staking / estaking op family (c18_stake_test.go)
			c.stake(op)
		case op.Op == "blocks":
			for j := int64(0); j < op.N; j++ {
				if !c.block(op.DT) {
					break
				}
			}
			col.Op("blocks", "ok", nil)
			continue
		case op.Op == "price" && x.qOf(op) == 1: // the second pool's asset (no outages are simulated for it)
			x.movePrice(op)
			col.Op("price", "ok", nil)
			continue
		case op.Op == "price":
			f := dec(op.P)
			np := m.Prices[ATOM].Mul(f)
			if np.LT(dec("0.05")) || np.GT(dec("500")) {
				np = dec("5")
			}
			m.Prices[ATOM] = np
			if c.outage[ATOM] == 0 {
				m.SetPrice(ATOM, np)
			}
			col.Op("price", "ok", nil)
			continue
		case op.Op == "lev_close_positions" || op.Op == "perp_close_positions":
			c.tx(op.Op, func() (TxResult, *big.Int) { return x.closePositions(op), nil })
		default:
			c.tx(op.Op, func() (TxResult, *big.Int) { return x.exec(op) })
		}
		if k%2 == 1 {
			c.block(5)
		}
	}
	c.step = len(h.Ops)
	c.block(5)
	c.block(5)
	col.Case(h.ID, fmt.Sprintf("(%d%%nat, ([%s] : list (Z * list (Z * Z))))", h.ID, strings.Join(c.blocks, ";")))
	col.Distinct(c.fp.String(), c.nontriv)
	col.Sample(h)
	col.mu.Lock()
	n, _ := col.rep.Extra["blocks"].(int)
	col.rep.Extra["blocks"] = n + c.nBlocks
	n2, _ := col.rep.Extra["keeper_level_failures_observed"].(int)
	col.rep.Extra["keeper_level_failures_observed"] = n2 + c.nRawErr
	col.mu.Unlock()
}

func c18Corpus() []lHist {
	return []lHist{
		{Ops: []lOp{ // zero-block vesting schedule + provider vesting at every epoch: ClaimVesting inside the epoch hook
			{Op: "f_param", Idx: 24}, {Op: "f_param", Idx: 23}, {Op: "f_inflation", N: 1000, Idx: 1}, {Op: "blocks", N: 2, DT: 5},
			{Op: "f_gap", N: 3, DT: 301}, {Op: "f_gap", N: 3, DT: 301}, {Op: "blocks", N: 2, DT: 301}}},
		{Ops: []lOp{ // (fixed) the ICS provider account runs out of vesting slots: the wrapped ErrExceedMaxVestings was compared with == and the epochs begin blocker panicked
			{Op: "f_param", Idx: 22}, {Op: "f_param", Idx: 23}, {Op: "f_inflation", N: 1000, Idx: 1}, {Op: "blocks", N: 2, DT: 5},
			{Op: "f_gap", N: 3, DT: 301}, {Op: "f_gap", N: 3, DT: 301}, {Op: "blocks", N: 2, DT: 301}}},
		{Ops: []lOp{ // (fixed) an Eden price that rounds to zero made masterchef return "invalid eden price" to baseapp
			{Op: "f_lopsided", Dir: 0}, {Op: "blocks", N: 2, DT: 5}}},
		{Ops: []lOp{ // stakers' portion 0: CollectDEXRevenue subtracts the provider portion from an empty coin set
			{Op: "f_param", Idx: 1}, {Op: "swap_in", U: 1, V: 1, Pool: 1, Dir: 0, Amt: "1000000000"}, {Op: "blocks", N: 2, DT: 5}}},
		{Ops: []lOp{ // provider portion 2 (> 1 passes Validate): gas fees in the fee collector
			{Op: "f_param", Idx: 8}, {Op: "f_mint", Dir: 0, Idx: 0, Amt: "1000000"}, {Op: "blocks", N: 2, DT: 5}}},
		{Ops: []lOp{ // perpetual revenue with LPs' portion 0: the stakers' portion is paid from the masterchef account
			{Op: "f_param", Idx: 2}, {Op: "f_mint", Dir: 1, Idx: 0, Amt: "1000000"}, {Op: "blocks", N: 2, DT: 5}}},
		{Ops: []lOp{ // total outage, a year passes, odd denoms everywhere
			{Op: "f_outage", Dir: 7, N: -1}, {Op: "f_mint", Dir: 0, Idx: 3, Amt: "7"}, {Op: "f_mint", Dir: 1, Idx: 1, Amt: "100"}, {Op: "f_mint", Dir: 2, Idx: 3, Amt: "1"},
			{Op: "f_mint", Dir: 3, Idx: 2, Amt: "5"}, {Op: "f_param", Idx: 20}, {Op: "lev_open", U: 1, Amt: "10000000", Lev: "5", P: "0"},
			{Op: "perp_open", U: 2, Dir: 0, Amt: "10000000", Lev: "3"}, {Op: "blocks", N: 3, DT: 5}, {Op: "f_gap", N: 2, DT: 366 * 86400},
			{Op: "swap_in", U: 1, V: 1, Pool: 0, Dir: 0, Amt: "1000000"}, {Op: "swap_out", U: 2, V: 2, Pool: 0, Dir: 1, Amt: "1000000"}, {Op: "blocks", N: 2, DT: 5}}},
		{Ops: []lOp{ // Eden rewards on two pools, 3 ueden per block to share: the smaller pool's allocation is a positive fraction < 1
			{Op: "f_eden", Pool: 0, Dir: 0}, {Op: "f_eden", Pool: 1, Dir: 0}, {Op: "f_inflation", N: 1000, Idx: 4}, {Op: "blocks", N: 2, DT: 5}}},
		{Ops: []lOp{ // provider portion 2 with staking inflation: estaking UpdateStakersRewards builds a negative coin
			{Op: "f_param", Idx: 8}, {Op: "f_inflation", N: 1000, Idx: 1}, {Op: "blocks", N: 2, DT: 5}}},
		{Ops: []lOp{ // provider portion 2, revenue on the perpetual module account
			{Op: "f_param", Idx: 8}, {Op: "f_mint", Dir: 1, Idx: 0, Amt: "1000000"}, {Op: "blocks", N: 2, DT: 5}}},
		{Ops: []lOp{ // base currency profile removed by governance
			{Op: "f_rmentry", Dir: 0}, {Op: "blocks", N: 2, DT: 5}}},
		{Ops: []lOp{ // eden rewards on, inflation, stake, vest, ten-day epoch (provider vesting hook)
			{Op: "f_eden", Pool: 0, Dir: 0}, {Op: "f_eden", Pool: 1, Dir: 0}, {Op: "f_inflation", N: 1000, Idx: 1}, {Op: "f_stake", U: 1, Dir: 0, Amt: "1000000"},
			{Op: "blocks", N: 3, DT: 5}, {Op: "f_claim", U: 0}, {Op: "f_vest", U: 0, Dir: 0, Rel: 3}, {Op: "f_gap", N: 2, DT: 11 * 86400}, {Op: "f_vest", U: 0, Dir: 1},
			{Op: "f_stake", U: 1, Dir: 1, Amt: "500000"}, {Op: "f_gap", N: 2, DT: 11 * 86400}}},
	}
}

func TestC18(t *testing.T) {
	seed := envInt("VERIF_SEED", 1)
	col := NewCollector("C18", seed)
	table := c18LoadTable(t)
	n := 96
	if tier() == "thorough" {
		n = 1000
	}
	n = int(envInt("VERIF_N", int64(n)))
	var hists []lHist
	var one lHist
	if loadReplay(&one) {
		hists = []lHist{one}
	} else {
		hists = append(hists, c18Corpus()...)
		for _, h := range ledgerCorpus() {
			hists = append(hists, h)
		}
		for i := len(hists); i < n; i++ {
			hists = append(hists, c18Gen(NewRng(uint64(seed), uint64(i)), i))
		}
		// staking / estaking histories (c18_stake_test.go), after the others so that those keep their indices
		ns := 30
		if tier() == "thorough" {
			ns = 400
		}
		ns = int(envInt("VERIF_NSTAKE", int64(ns)))
		hists = append(hists, c18StakeCorpus()...)
		for i, k := len(hists), 0; k < ns; i, k = i+1, k+1 {
			hists = append(hists, c18StakeGen(NewRng(uint64(seed), uint64(1_000_000+i)), i))
		}
	}
	RunParallel(len(hists), func(i int) {
		h := hists[i]
		h.ID = i
		c18RunHistory(t, col, table, h)
	})
	nElys, nPts := 0, 0
	for _, b := range table {
		if b.Elys && !b.Trivial {
			nElys++
			nPts += len(b.Points)
		}
	}
	col.Extra("table_entries", len(table))
	col.Extra("table_nontrivial_elys_blockers", nElys)
	col.Extra("table_failure_points", nPts)
	header := "From Coq Require Import ZArith List Bool String.\nFrom Elys Require Import Base.Res Models.Blocks Generated.BlockerSurface Run.BlocksRun.\nImport ListNotations.\nOpen Scope Z_scope.\n"
	footer := "Definition M := Eval vm_compute in mismatches blockers cases.\nPrint M.\n"
	col.Finish(t, len(hists), header, footer, 40)
}
