package harness

// C17, owner-scoped part: correspondence run for coq/Models/OwnerFlow.v + coq/Generated/OwnerFlow.v (the table that
// `gotrans ownerflow` regenerates from the Go sources).
//
// An ATTACKER account that owns no object sends, through the production router, every message type that the translator
// classifies A (signer-keyed), B (id lookup + owner comparison) or C (inner handler per item), and the four reviewed
// permissionless triggers, naming LIVE objects of other accounts (orders, positions, MTPs, commitments, pending rewards,
// price-feeder entries, airdrops). After each delivery, on the handler's own branch:
//   - a snapshot of EVERY object that belongs to somebody else must be unchanged (the property's own predicate),
//   - where the message names only foreign ids of an id-addressed object the handler must fail, and, for B/C, touch no store,
//   - the delivery becomes a case that Coq's VM checks against the GENERATED flow skeleton (Run/OwnerFlowRun.v), so a wrong
//     classification (e.g. a handler labelled "not object-scoped" that the harness targets by hand) is a correspondence mismatch.

import (
	"crypto/sha256"
	"encoding/hex"
	"encoding/json"
	"fmt"
	"os"
	"path/filepath"
	"reflect"
	"runtime/debug"
	"sort"
	"strings"

	sdk "github.com/cosmos/cosmos-sdk/types"
	"github.com/cosmos/gogoproto/proto"

	ammtypes "github.com/elys-network/elys/x/amm/types"
	committypes "github.com/elys-network/elys/x/commitment/types"
	estypes "github.com/elys-network/elys/x/estaking/types"
	levtypes "github.com/elys-network/elys/x/leveragelp/types"
	mctypes "github.com/elys-network/elys/x/masterchef/types"
	oracletypes "github.com/elys-network/elys/x/oracle/types"
	perptypes "github.com/elys-network/elys/x/perpetual/types"
	tiertypes "github.com/elys-network/elys/x/tier/types"
	tokentypes "github.com/elys-network/elys/x/tokenomics/types"
	tstypes "github.com/elys-network/elys/x/tradeshield/types"
)

type c17Flow struct {
	Module  string   `json:"module"`
	Method  string   `json:"method"`
	Req     string   `json:"req"`
	Signer  string   `json:"signer"`
	Class   string   `json:"class"`
	Reasons []string `json:"reasons"`
}

func c17LoadFlows() (map[string]c17Flow, error) {
	dir := os.Getenv("VERIF_GENDIR")
	if dir == "" {
		dir = filepath.Join("..", "coq", "Generated")
	}
	b, err := os.ReadFile(filepath.Join(dir, "ownerflow.json"))
	if err != nil {
		return nil, err
	}
	var doc struct {
		Flows []c17Flow `json:"flows"`
	}
	if err := json.Unmarshal(b, &doc); err != nil {
		return nil, err
	}
	out := map[string]c17Flow{}
	for _, f := range doc.Flows {
		out["/elys."+f.Module+"."+f.Req] = f
	}
	return out, nil
}

// names of the handlers accepted as class U in Models/OwnerFlow.v [reviewed] (only used to pick what is sent; the verdict is Coq's)
var c17Reviewed = map[string]bool{"perpetual.ClosePositions": true, "leveragelp.ClosePositions": true, "tradeshield.ExecuteOrders": true, "tier.SetPortfolio": true}

// snapshot of every owned object that does NOT belong to att, as seen through ctx: one line per object
// ("kind|owner|sha256 of the record") plus the balances of the owners and of the objects' own sub-accounts
func (d *c17Driver) c17ForeignSnap(ctx sdk.Context, att string) ([]string, map[string]int) {
	var lines []string
	cnt := map[string]int{}
	put := func(kind, owner string, m proto.Message) {
		if owner == att {
			return
		}
		b, _ := proto.Marshal(m)
		sum := sha256.Sum256(b)
		lines = append(lines, fmt.Sprintf("%s|%s|%s", kind, owner, hex.EncodeToString(sum[:8])))
		cnt[kind]++
	}
	var accs []string
	seen := map[string]bool{att: true}
	add := func(owner, a string) {
		if owner != att && !seen[a] && a != "" {
			seen[a] = true
			accs = append(accs, a)
		}
	}
	app := d.w.App
	for _, u := range d.m.Users {
		add("", u.String())
	}
	for _, p := range app.LeveragelpKeeper.GetAllPositions(ctx) {
		p := p
		put("leveragelp.Position", p.Address, &p)
		add(p.Address, p.GetPositionAddress().String())
	}
	for _, p := range app.PerpetualKeeper.GetAllMTPs(ctx) {
		p := p
		put("perpetual.MTP", p.Address, &p)
	}
	for _, o := range app.TradeshieldKeeper.GetAllPendingSpotOrder(ctx) {
		o := o
		put("tradeshield.SpotOrder", o.OwnerAddress, &o)
		add(o.OwnerAddress, o.GetOrderAddress().String())
	}
	for _, o := range app.TradeshieldKeeper.GetAllPendingPerpetualOrder(ctx) {
		o := o
		put("tradeshield.PerpetualOrder", o.OwnerAddress, &o)
		add(o.OwnerAddress, o.GetOrderAddress().String())
	}
	for _, c := range app.CommitmentKeeper.GetAllCommitments(ctx) {
		put("commitment.Commitments", c.Creator, c)
	}
	for _, u := range app.MasterchefKeeper.GetAllUserRewardInfos(ctx) {
		u := u
		put("masterchef.UserRewardInfo", u.User, &u)
	}
	for _, a := range app.TokenomicsKeeper.GetAllAirdrop(ctx) {
		a := a
		put("tokenomics.Airdrop", a.Intent, &a)
	}
	for _, f := range app.OracleKeeper.GetAllPriceFeeder(ctx) {
		f := f
		put("oracle.PriceFeeder", f.Feeder, &f)
	}
	if dels, err := app.StakingKeeper.GetAllDelegations(ctx); err == nil {
		for _, dl := range dels {
			dl := dl
			put("staking.Delegation", dl.DelegatorAddress, &dl)
		}
	}
	for _, pf := range app.TierKeeper.GetAllPortfolio(ctx) {
		pf := pf
		put("tier.Portfolio", pf.Creator, &pf)
	}
	sort.Strings(accs)
	for _, a := range accs {
		lines = append(lines, fmt.Sprintf("bank.Balance|%s|%s", a, app.BankKeeper.GetAllBalances(ctx, sdk.MustAccAddressFromBech32(a)).String()))
		cnt["bank.Balance"]++
	}
	sort.Strings(lines)
	return lines, cnt
}

// lines of a that are not in b and vice versa (first few), for the violation text
func c17SnapDiff(a, b []string) (string, bool) {
	in := func(l []string) map[string]bool {
		m := map[string]bool{}
		for _, x := range l {
			m[x] = true
		}
		return m
	}
	ma, mb := in(a), in(b)
	var out []string
	gone := false
	for _, x := range a {
		if !mb[x] {
			out = append(out, "-"+x)
			// an object of that kind and owner no longer exists at all?
			pre := x[:strings.LastIndex(x, "|")+1]
			still := false
			for _, y := range b {
				if strings.HasPrefix(y, pre) {
					still = true
				}
			}
			if !still {
				gone = true
			}
		}
	}
	if len(out) == 0 {
		return "", false // records that did not exist before (a new object, an empty record of a module account) change no existing foreign object
	}
	for _, x := range b {
		if !ma[x] {
			out = append(out, "+"+x)
		}
	}
	if len(out) > 6 {
		out = out[:6]
	}
	return strings.Join(out, " "), gone
}

// like deliver(msg, false), with the foreign-object snapshot taken on the handler's own branch
func (d *c17Driver) c17DeliverProbe(msg sdk.Msg, att string, before []string) (res c17Res, snap []string) {
	if vb, ok := msg.(validateBasic); ok {
		var err error
		func() {
			defer func() {
				if r := recover(); r != nil {
					err = fmt.Errorf("panic in ValidateBasic: %v", r)
				}
			}()
			err = vb.ValidateBasic()
		}()
		if err != nil {
			return c17Res{Kind: "err", Err: err, VB: true}, before
		}
	}
	h := d.w.App.MsgServiceRouter().Handler(msg)
	if h == nil {
		return c17Res{Kind: "err", Err: fmt.Errorf("no handler for %T", msg), VB: true}, before
	}
	cctx, _ := d.w.Ctx().CacheContext()
	cctx = cctx.WithEventManager(sdk.NewEventManager())
	var err error
	var pan interface{}
	func() {
		defer func() {
			if r := recover(); r != nil {
				pan = fmt.Sprintf("%v\n%s", r, debug.Stack())
			}
		}()
		_, err = h(cctx, msg)
	}()
	res.Changed = d.hash(cctx.MultiStore()) != d.cur
	func() {
		defer func() {
			if r := recover(); r != nil {
				snap = []string{fmt.Sprintf("snapshot panicked: %v", r)}
			}
		}()
		snap, _ = d.c17ForeignSnap(cctx, att)
	}()
	switch {
	case pan != nil:
		res.Kind, res.Panic = "panic", pan
	case err != nil:
		res.Kind, res.Err = "err", err
	default:
		res.Kind = "ok"
	}
	return res, snap
}

type c17Target struct {
	what        string
	onlyForeign bool // every id in the message names an existing object of somebody else
	mustFail    bool // ... of a kind that is addressed by id: the handler has to return an error
	msg         sdk.Msg
}

// hand-made messages of the attacker against the live objects of the fixture
func (d *c17Driver) c17Targets(att string) map[string][]c17Target {
	w, m := d.w, d.m
	q := w.QCtx()
	out := map[string][]c17Target{}
	add := func(t c17Target) {
		u := "/" + proto.MessageName(t.msg)
		out[u] = append(out[u], t)
	}
	var spotIds, perpIds []uint64
	for _, o := range w.App.TradeshieldKeeper.GetAllPendingSpotOrder(q) {
		spotIds = append(spotIds, o.OrderId)
		add(c17Target{"update a foreign spot order", true, true, &tstypes.MsgUpdateSpotOrder{OwnerAddress: att, OrderId: o.OrderId, OrderPrice: tstypes.OrderPrice{BaseDenom: USDC, QuoteDenom: ATOM, Rate: dec("2")}}})
		add(c17Target{"cancel a foreign spot order", true, true, &tstypes.MsgCancelSpotOrder{OwnerAddress: att, OrderId: o.OrderId}})
		add(c17Target{"batch-cancel one foreign spot order", true, true, &tstypes.MsgCancelSpotOrders{Creator: att, SpotOrderIds: []uint64{o.OrderId}}})
	}
	for _, o := range w.App.TradeshieldKeeper.GetAllPendingPerpetualOrder(q) {
		perpIds = append(perpIds, o.OrderId)
		add(c17Target{"update a foreign perpetual order", true, true, &tstypes.MsgUpdatePerpetualOrder{OwnerAddress: att, OrderId: o.OrderId, TriggerPrice: tstypes.TriggerPrice{TradingAssetDenom: ATOM, Rate: dec("4.5")}}})
		add(c17Target{"cancel a foreign perpetual order", true, true, &tstypes.MsgCancelPerpetualOrder{OwnerAddress: att, OrderId: o.OrderId}})
		add(c17Target{"batch-cancel one foreign perpetual order", true, true, &tstypes.MsgCancelPerpetualOrders{OwnerAddress: att, OrderIds: []uint64{o.OrderId}}})
	}
	if len(spotIds) > 1 {
		add(c17Target{"batch-cancel all foreign spot orders", true, true, &tstypes.MsgCancelSpotOrders{Creator: att, SpotOrderIds: spotIds}})
	}
	if len(perpIds) > 1 {
		add(c17Target{"batch-cancel all foreign perpetual orders", true, true, &tstypes.MsgCancelPerpetualOrders{OwnerAddress: att, OrderIds: perpIds}})
	}
	add(c17Target{"execute foreign orders", true, false, &tstypes.MsgExecuteOrders{Creator: att, SpotOrderIds: spotIds, PerpetualOrderIds: perpIds}})
	var levIds []uint64
	var levReq []*levtypes.PositionRequest
	for _, p := range w.App.LeveragelpKeeper.GetAllPositions(q) {
		levIds = append(levIds, p.Id)
		levReq = append(levReq, &levtypes.PositionRequest{Address: p.Address, Id: p.Id})
		add(c17Target{"close a foreign leveragelp position", true, true, &levtypes.MsgClose{Creator: att, Id: p.Id, LpAmount: p.LeveragedLpAmount.QuoRaw(2)}})
		add(c17Target{"stop-loss of a foreign leveragelp position", true, true, &levtypes.MsgUpdateStopLoss{Creator: att, Position: p.Id, Price: dec("0.5")}})
		add(c17Target{"claim the rewards of a foreign leveragelp position", true, true, &levtypes.MsgClaimRewards{Sender: att, Ids: []uint64{p.Id}}})
	}
	if len(levIds) > 0 {
		add(c17Target{"claim the rewards of foreign positions, a never issued id last", false, true, &levtypes.MsgClaimRewards{Sender: att, Ids: append(append([]uint64{}, levIds...), 1<<40)}})
		add(c17Target{"liquidate / stop-loss healthy foreign leveragelp positions", true, false, &levtypes.MsgClosePositions{Creator: att, Liquidate: levReq}})
		add(c17Target{"stop-loss healthy foreign leveragelp positions", true, false, &levtypes.MsgClosePositions{Creator: att, StopLoss: levReq}})
	}
	var mtpReq []perptypes.PositionRequest
	for _, p := range w.App.PerpetualKeeper.GetAllMTPs(q) {
		mtpReq = append(mtpReq, perptypes.PositionRequest{Address: p.Address, Id: p.Id})
		add(c17Target{"close a foreign MTP", true, true, &perptypes.MsgClose{Creator: att, Id: p.Id, Amount: p.Custody.QuoRaw(2)}})
		add(c17Target{"stop-loss of a foreign MTP", true, true, &perptypes.MsgUpdateStopLoss{Creator: att, Id: p.Id, Price: dec("4")}})
		add(c17Target{"take-profit of a foreign MTP", true, true, &perptypes.MsgUpdateTakeProfitPrice{Creator: att, Id: p.Id, Price: dec("15")}})
	}
	if len(mtpReq) > 0 {
		add(c17Target{"liquidate / stop-loss / take-profit healthy foreign MTPs", true, false, &perptypes.MsgClosePositions{Creator: att, Liquidate: mtpReq}})
		add(c17Target{"stop-loss healthy foreign MTPs", true, false, &perptypes.MsgClosePositions{Creator: att, StopLoss: mtpReq}})
		add(c17Target{"take-profit healthy foreign MTPs", true, false, &perptypes.MsgClosePositions{Creator: att, TakeProfit: mtpReq}})
	}
	var pools []uint64
	for _, p := range w.App.MasterchefKeeper.GetAllPoolInfos(q) {
		pools = append(pools, p.PoolId)
	}
	add(c17Target{"claim masterchef rewards of every pool (others have pending rewards)", false, false, &mctypes.MsgClaimRewards{Sender: att, PoolIds: pools}})
	add(c17Target{"claim masterchef rewards, empty pool list", false, false, &mctypes.MsgClaimRewards{Sender: att}})
	one := I(1)
	add(c17Target{"cancel vest", false, true, &committypes.MsgCancelVest{Creator: att, Amount: one, Denom: "ueden"}})
	add(c17Target{"claim vesting", false, false, &committypes.MsgClaimVesting{Sender: att}})
	add(c17Target{"commit claimed rewards", false, true, &committypes.MsgCommitClaimedRewards{Creator: att, Amount: one, Denom: "ueden"}})
	add(c17Target{"uncommit", false, true, &committypes.MsgUncommitTokens{Creator: att, Amount: one, Denom: "ueden"}})
	add(c17Target{"vest", false, true, &committypes.MsgVest{Creator: att, Amount: one, Denom: "ueden"}})
	add(c17Target{"vest now", false, true, &committypes.MsgVestNow{Creator: att, Amount: one, Denom: "ueden"}})
	add(c17Target{"vest liquid", false, false, &committypes.MsgVestLiquid{Creator: att, Amount: one, Denom: "ueden"}})
	add(c17Target{"stake eden", false, true, &committypes.MsgStake{Creator: att, Amount: one, Asset: "ueden"}})
	add(c17Target{"unstake eden", false, true, &committypes.MsgUnstake{Creator: att, Amount: one, Asset: "ueden"}})
	if vals, err := w.App.StakingKeeper.GetAllValidators(q); err == nil && len(vals) > 0 {
		add(c17Target{"withdraw reward at a validator others delegate to", false, false, &estypes.MsgWithdrawReward{DelegatorAddress: att, ValidatorAddress: vals[0].OperatorAddress}})
		add(c17Target{"stake elys", false, false, &committypes.MsgStake{Creator: att, Amount: I(1000), Asset: ELYS, ValidatorAddress: vals[0].OperatorAddress}})
	}
	add(c17Target{"withdraw all rewards", false, false, &estypes.MsgWithdrawAllRewards{DelegatorAddress: att}})
	add(c17Target{"withdraw elys staking rewards", false, false, &estypes.MsgWithdrawElysStakingRewards{DelegatorAddress: att}})
	add(c17Target{"set price feeder (the attacker is none)", false, true, &oracletypes.MsgSetPriceFeeder{Feeder: att, IsActive: true}})
	add(c17Target{"delete price feeder", false, true, &oracletypes.MsgDeletePriceFeeder{Feeder: att}})
	add(c17Target{"feed price", false, true, &oracletypes.MsgFeedPrice{Provider: att, FeedPrice: oracletypes.FeedPrice{Asset: "ATOM", Price: dec("1"), Source: "elys"}}})
	add(c17Target{"feed prices", false, true, &oracletypes.MsgFeedMultiplePrices{Creator: att, FeedPrices: []oracletypes.FeedPrice{{Asset: "ATOM", Price: dec("1"), Source: "elys"}}}})
	add(c17Target{"feed external liquidity", false, true, &ammtypes.MsgFeedMultipleExternalLiquidity{Sender: att}})
	add(c17Target{"claim an airdrop (others have one)", false, true, &tokentypes.MsgClaimAirdrop{Sender: att}})
	for _, u := range m.Users[:5] {
		add(c17Target{"recompute the portfolio of another user", true, false, &tiertypes.MsgSetPortfolio{Creator: att, User: u.String()}})
	}
	return out
}

// the sweep; returns the Coq text of the cases
func (d *c17Driver) c17OwnerFlowSweep(types map[string]reflect.Type, viol func(sig, detail string, replay interface{})) string {
	flows, err := c17LoadFlows()
	if err != nil {
		d.t.Fatalf("translator table: %v (run ./check C17 quick, or tools/gotrans ownerflow <repo> coq/Generated/OwnerFlow.v)", err)
	}
	w, col := d.w, d.col
	attAcc := Addr(901)
	att := attAcc.String()
	w.Mint(attAcc, sdk.NewCoins(sdk.NewCoin(USDC, I(1_000_000_000)), sdk.NewCoin(ATOM, I(1_000_000_000)), sdk.NewCoin(ELYS, I(1_000_000_000))))
	d.cur = d.hash(w.Ctx().MultiStore())
	base := d.cur
	before, kinds := d.c17ForeignSnap(w.Ctx(), att)
	targets := d.c17Targets(att)
	var urls []string
	for u := range flows {
		urls = append(urls, u)
	}
	sort.Strings(urls)
	var cases []string
	var generic, untargeted []string
	classes := map[string]int{}
	n := 0
	for _, u := range urls {
		f := flows[u]
		name := f.Module + "." + f.Method
		classes[f.Class]++
		ts := targets[u]
		scoped := f.Class == "A" || f.Class == "B" || f.Class == "C"
		if !scoped && len(ts) == 0 {
			continue
		}
		hand := len(ts) > 0
		if !hand {
			// no hand-made case: a reflection-filled message of the attacker (every other address field names a victim)
			rt, ok := types[u]
			if !ok {
				untargeted = append(untargeted, name+" (type not registered)")
				continue
			}
			msg, v := c17New(rt)
			c17Fill(v, rt.Name(), 0, d.m.User(3))
			if sf := v.FieldByName(f.Signer); sf.IsValid() && sf.Kind() == reflect.String {
				sf.SetString(att)
			}
			ts = []c17Target{{what: "generic fill", msg: msg}}
			generic = append(generic, name)
		}
		for _, t := range ts {
			r, after := d.c17DeliverProbe(t.msg, att, before)
			diff, gone := c17SnapDiff(before, after)
			foreignChanged := diff != ""
			res := r.Kind
			if r.VB {
				res = "err-validate-basic"
			}
			col.ImplCheck(1)
			col.Op("attacker:"+f.Module+"."+f.Req, res, nil)
			col.Distinct(fmt.Sprintf("ownerflow|%s|%s|%s|%v", name, t.what, res, foreignChanged), hand && !r.VB)
			js, _ := json.Marshal(t.msg)
			replay := map[string]interface{}{"type_url": u, "what": t.what, "class": f.Class, "msg": json.RawMessage(js)}
			detail := fmt.Sprintf("%s (class %s) %s, signed by an account that owns nothing: result=%s err=%v, a foreign object changed on the handler's branch=%v (%s), any store changed=%v",
				name, f.Class, t.what, r.Kind, r.Err, foreignChanged, diff, r.Changed)
			switch {
			case c17Reviewed[name]:
				// permissionless triggers: the fixture's positions are healthy, none of them may be closed (interest may be settled)
				if gone && strings.HasSuffix(name, ".ClosePositions") {
					viol("C17_permissionless-trigger-closed-a-healthy-foreign-position:"+name, detail, replay)
				}
			case foreignChanged:
				viol("C17_owner-flow-foreign-object-changed:"+name, detail, replay)
			case t.mustFail && r.Kind == "ok":
				viol("C17_owner-flow-accepted-from-non-owner:"+name, detail, replay)
			case t.mustFail && t.onlyForeign && r.Changed && (f.Class == "B" || f.Class == "C"):
				viol("C17_owner-flow-writes-before-rejecting-non-owner:"+name, detail, replay)
			}
			kind := map[string]int{"ok": 0, "err": 1, "panic": 2}[r.Kind]
			cases = append(cases, fmt.Sprintf("  mkOC %d \"%s\" \"%s\" %s %s %d %s %s", n, f.Module, f.Req, b2c(hand && !c17Reviewed[name]), b2c(t.onlyForeign && t.mustFail), kind, b2c(foreignChanged), b2c(r.Changed)))
			n++
		}
	}
	if d.hash(w.Ctx().MultiStore()) != base {
		viol("C17_root-store-changed-during-sweep", "the root multistore changed during the owner-flow sweep although nothing was committed", nil)
	}
	for _, k := range []string{"leveragelp.Position", "perpetual.MTP", "tradeshield.SpotOrder", "tradeshield.PerpetualOrder", "commitment.Commitments", "masterchef.UserRewardInfo", "tokenomics.Airdrop", "oracle.PriceFeeder", "staking.Delegation"} {
		if kinds[k] == 0 {
			viol("C17_fixture-incomplete", "no live foreign object of kind "+k+" in the fixture", nil)
		}
	}
	pending := []string{}
	for _, p := range w.App.LeveragelpKeeper.GetAllPositions(w.QCtx()) {
		if resp, err := w.App.MasterchefKeeper.UserPendingReward(w.QCtx(), &mctypes.QueryUserPendingRewardRequest{User: p.GetPositionAddress().String()}); err == nil {
			pending = append(pending, fmt.Sprintf("position %d of %s: %s", p.Id, p.Address, resp.TotalRewards.String()))
			if resp.TotalRewards.IsZero() {
				viol("C17_fixture-incomplete", fmt.Sprintf("no masterchef rewards pending for the account of leveragelp position %d", p.Id), nil)
			}
		}
	}
	col.Extra("ownerflow_classes", classes)
	col.Extra("ownerflow_cases", n)
	col.Extra("ownerflow_foreign_objects_in_snapshot", kinds)
	col.Extra("ownerflow_handlers_with_generic_fill_only", generic)
	col.Extra("ownerflow_handlers_not_sent", untargeted)
	col.Extra("ownerflow_pending_rewards_of_position_accounts", pending)
	col.Extra("ownerflow_reviewed_unknown_handlers", "perpetual.ClosePositions, leveragelp.ClosePositions, tradeshield.ExecuteOrders, tier.SetPortfolio (justifications in coq/Models/OwnerFlow.v [reviewed])")
	d.t.Logf("owner-flow sweep: %d cases, classes %v, foreign objects %v, generic-only %v", n, classes, kinds, generic)
	return strings.Join(cases, ";\n")
}
