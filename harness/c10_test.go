package harness

// C10 driver: third parties may alter a leveraged-LP / perpetual position only under its guard; opens
// start healthy; user closes are keyed by the sender.
//
// On the real application, before every close-positions transaction and before every block (leveragelp
// begin-block sweep) the driver walks the items in the order the code will, on a throw-away context:
// for each item it recomputes, on a branch of the state AT THAT MOMENT, the health the way the handler
// computes it (leveragelp GetPositionHealth + debt; perpetual GetMTPHealth after settling interest and
// funding), the lp / oracle price and the stored triggers, evaluates the property's own guard from these,
// and then advances the throw-away state by that one item. After the real step every position and every
// owner balance is diffed: an altered position whose guard was false is a violation; each observed step is
// also emitted as Coq text for Run/CloseGuardRun.v, where the model replays the decisions.

import (
	"os"
	"errors"
	"fmt"
	"math/big"
	"sort"
	"strings"
	"testing"

	sdkmath "cosmossdk.io/math"
	sdk "github.com/cosmos/cosmos-sdk/types"

	ammtypes "github.com/elys-network/elys/x/amm/types"
	levtypes "github.com/elys-network/elys/x/leveragelp/types"
	perptypes "github.com/elys-network/elys/x/perpetual/types"
)

type c10Item struct {
	Kind int `json:"k"` // 0 liquidate, 1 stop loss, 2 take profit
	Idx  int `json:"i"` // index into the current position list; -1 unknown (owner,id); -2 real id under another owner
}

type c10Op struct {
	Op    string    `json:"op"`
	U     int       `json:"u"`
	V     int       `json:"v,omitempty"`
	Idx   int       `json:"idx,omitempty"`
	Dir   int       `json:"dir,omitempty"`
	Rel   int       `json:"rel,omitempty"`
	Amt   string    `json:"amt,omitempty"`
	Lev   string    `json:"lev,omitempty"`
	P     string    `json:"p,omitempty"`
	N     int64     `json:"n,omitempty"`
	DT    int64     `json:"dt,omitempty"`
	Items []c10Item `json:"items,omitempty"`
}

type c10Hist struct {
	ID  int     `json:"id"`
	Ops []c10Op `json:"ops"`
}

var c10Denoms = []string{USDC, ATOM, ELYS, "ueden", "uedenb"}

// ---------------------------------------------------------------- generator

func c10Items(r *Rng, perp bool) []c10Item {
	n := 1 + r.Intn(4)
	var its []c10Item
	for j := 0; j < n; j++ {
		k := r.Intn(2)
		if perp {
			k = r.Intn(3)
		}
		idx := r.Intn(5)
		switch r.Intn(12) {
		case 0:
			idx = -1
		case 1:
			idx = -2
		}
		its = append(its, c10Item{Kind: k, Idx: idx})
	}
	sort.SliceStable(its, func(a, b int) bool { return its[a].Kind < its[b].Kind }) // the handler walks list by list
	return its
}

func c10Gen(r *Rng, id int) c10Hist {
	h := c10Hist{ID: id}
	n := 26 + r.Intn(16)
	levs := []string{"1.5", "2", "3", "5", "8", "9.5", "10"}
	plevs := []string{"1.2", "2", "3", "5", "8", "10"}
	for k := 0; k < n; k++ {
		x := r.Intn(100)
		u := r.Intn(5)
		switch {
		case x < 7:
			h.Ops = append(h.Ops, c10Op{Op: "swap_in", U: u, Dir: r.Intn(2), Amt: r.Decade(5, 11).String()})
		case x < 10:
			h.Ops = append(h.Ops, c10Op{Op: "join", U: u, Dir: r.Intn(3), Amt: r.Decade(5, 11).String()})
		case x < 22:
			h.Ops = append(h.Ops, c10Op{Op: "lev_open", U: u, Amt: r.Decade(3, 11).String(), Lev: levs[r.Intn(len(levs))], Rel: r.Intn(5)})
		case x < 26:
			h.Ops = append(h.Ops, c10Op{Op: "lev_close", U: u, Idx: r.Intn(4), Rel: r.Intn(6)})
		case x < 35:
			h.Ops = append(h.Ops, c10Op{Op: "lev_cp", U: u, Items: c10Items(r, false)})
		case x < 37:
			h.Ops = append(h.Ops, c10Op{Op: "lev_sl_boundary", U: u, Idx: r.Intn(4), Dir: r.Intn(3)})
		case x < 39:
			// a sizeable position (several % of the pool), a smaller one, then the two-request stop-loss batch
			h.Ops = append(h.Ops, c10Op{Op: "lev_open", U: (u + 1) % 5, Amt: fmt.Sprint(r.Pick(2000000000, 4000000000, 6000000000)), Lev: "3", Rel: 0},
				c10Op{Op: "lev_open", U: (u + 2) % 5, Amt: r.Decade(6, 9).String(), Lev: levs[r.Intn(4)], Rel: 0},
				c10Op{Op: "blocks", N: 1, DT: 3700}, // past the one-hour lock of the freshly committed LP shares, or A's close fails
				c10Op{Op: "lev_sl_batch", U: u, Idx: r.Intn(4), Dir: r.Intn(3), Rel: r.Intn(4) / 3})
		case x < 44:
			h.Ops = append(h.Ops, c10Op{Op: "lev_liq_boundary", U: u, Idx: r.Intn(4), Dir: r.Intn(3)})
		case x < 46:
			h.Ops = append(h.Ops, c10Op{Op: "lev_open_boundary", U: u, Amt: r.Decade(4, 10).String(), Lev: levs[r.Intn(len(levs))], Rel: r.Intn(2)})
		case x < 58:
			h.Ops = append(h.Ops, c10Op{Op: "perp_open", U: u, Dir: r.Intn(4), Amt: r.Decade(3, 10).String(), Lev: plevs[r.Intn(len(plevs))], Rel: r.Intn(4)})
		case x < 62:
			h.Ops = append(h.Ops, c10Op{Op: "perp_close", U: u, Idx: r.Intn(4), Rel: r.Intn(6)})
		case x < 71:
			h.Ops = append(h.Ops, c10Op{Op: "perp_cp", U: u, Items: c10Items(r, true)})
		case x < 76:
			h.Ops = append(h.Ops, c10Op{Op: "perp_trigger_boundary", U: u, Idx: r.Intn(4), Dir: r.Intn(3), Rel: r.Intn(2), N: int64(r.Intn(2))})
		case x < 81:
			h.Ops = append(h.Ops, c10Op{Op: "perp_liq_boundary", U: u, Idx: r.Intn(4), Dir: r.Intn(3)})
		case x < 82:
			h.Ops = append(h.Ops, c10Op{Op: "perp_open_boundary", U: u, Dir: r.Intn(4), Amt: r.Decade(4, 9).String(), Lev: plevs[r.Intn(len(plevs))], Rel: r.Intn(4)})
		case x < 83:
			h.Ops = append(h.Ops, c10Op{Op: "perp_open", U: u, Dir: r.Intn(2), Amt: r.Decade(7, 9).String(), Lev: []string{"2", "3", "5"}[r.Intn(3)], Rel: 0},
				c10Op{Op: "blocks", N: 2, DT: 604800},
				c10Op{Op: "perp_topup_boundary", U: u, Idx: r.Intn(4), Dir: r.Intn(3), Rel: r.Intn(4) / 3})
		case x < 86:
			h.Ops = append(h.Ops, c10Op{Op: "upd", U: u, Idx: r.Intn(4), Dir: r.Intn(3), Rel: r.Intn(4)})
		case x < 92:
			h.Ops = append(h.Ops, c10Op{Op: "price", P: []string{"0.5", "0.8", "0.95", "1.05", "1.25", "2"}[r.Intn(6)]})
		default:
			b := c10Op{Op: "blocks", N: r.Pick(1, 1, 2, 3), DT: r.Pick(5, 5, 60, 3700, 86400, 604800)}
			h.Ops = append(h.Ops, b)
			if x >= 98 {
				// an open, a consolidating leverage-1 re-open of a position made unhealthy, a third party's liquidation request for it. Appended to
				// the op the draw stood for, built from the numbers already drawn, and as a TRIPLE (the driver closes a block after every
				// third op), so that every other op of a stored seed, and the block it lands in, stays what it was
				h.Ops = append(h.Ops, c10Op{Op: "lev_open", U: u, Amt: fmt.Sprint(1000000 * (1 + b.DT%977)), Lev: levs[int(b.N)%len(levs)+1], Rel: 0},
					c10Op{Op: "lev_reopen_unhealthy", U: u, Idx: int(b.N), Dir: int(b.DT % 4), Rel: int(b.N+b.DT) % 3},
					c10Op{Op: "lev_cp", U: (u + 1) % 5, Items: []c10Item{{Kind: 0, Idx: int(b.N)}}})
			}
		}
	}
	return h
}

func c10Corpus() []c10Hist {
	return append(c10Corpus0(), c10Hist{Ops: []c10Op{ // interest accrues for four months, the owner closes a part (the accrued interest is PAID), then third
		// parties ask for the liquidation of the healthy remainder, before and after more time
		{Op: "lev_open", U: 1, Amt: "100000000", Lev: "5"}, {Op: "lev_open", U: 2, Amt: "2000000000", Lev: "3"}, {Op: "blocks", N: 17, DT: 604800},
		{Op: "lev_cp", U: 3, Items: []c10Item{{0, 0}, {0, 1}}}, {Op: "lev_close", U: 1, Idx: 0, Rel: 3}, {Op: "lev_close", U: 2, Idx: 1, Rel: 2}, {Op: "blocks", N: 1, DT: 3700},
		{Op: "lev_cp", U: 3, Items: []c10Item{{0, 0}, {0, 1}}}, {Op: "blocks", N: 4, DT: 604800}, {Op: "lev_cp", U: 4, Items: []c10Item{{0, 1}, {0, 0}}},
		{Op: "lev_liq_boundary", U: 3, Idx: 0, Dir: 2}, {Op: "lev_close", U: 1, Idx: 0, Rel: 5}}})
}

// c10Corpus3: consolidating re-opens that borrow nothing, into positions that are at / below / above the liquidation threshold
func c10Corpus3() []c10Hist {
	return []c10Hist{
		{Ops: []c10Op{ // 5x, the asset halves, nobody liquidates; the owner tops up 1000 uusdc with leverage 1; then a third party's request
			{Op: "lev_open", U: 1, Amt: "1000000000", Lev: "5"}, {Op: "lev_reopen_unhealthy", U: 1, Idx: 0, Dir: 0, Rel: 2},
			{Op: "lev_cp", U: 3, Items: []c10Item{{0, 0}}}, {Op: "blocks", N: 1, DT: 5}}},
		{Ops: []c10Op{ // two owners; health steered to just below the factor (refused) and, for the other position, just above (accepted, stays above)
			{Op: "lev_open", U: 1, Amt: "300000000", Lev: "8"}, {Op: "lev_open", U: 2, Amt: "2000000000", Lev: "3"}, {Op: "blocks", N: 1, DT: 3700},
			{Op: "lev_reopen_unhealthy", U: 1, Idx: 0, Dir: 1, Rel: 0}, {Op: "lev_reopen_unhealthy", U: 1, Idx: 0, Dir: 3, Rel: 0},
			{Op: "lev_reopen_unhealthy", U: 1, Idx: 1, Dir: 2, Rel: 1}, {Op: "lev_cp", U: 3, Items: []c10Item{{0, 0}, {0, 1}}}, {Op: "blocks", N: 1, DT: 5}}},
		{Ops: []c10Op{ // a 9.5x position that has accrued two weeks of interest; dust re-opens at the threshold
			{Op: "lev_open", U: 2, Amt: "50000000", Lev: "9.5"}, {Op: "blocks", N: 2, DT: 604800}, {Op: "lev_reopen_unhealthy", U: 2, Idx: 0, Dir: 1, Rel: 0},
			{Op: "lev_reopen_unhealthy", U: 2, Idx: 0, Dir: 0, Rel: 1}, {Op: "lev_cp", U: 4, Items: []c10Item{{0, 0}}}}},
	}
}

func c10Corpus0() []c10Hist {
	return []c10Hist{
		{Ops: []c10Op{ // leveraged LP: third party on a healthy position, boundary health == safety factor and one ulp either side
			{Op: "lev_open", U: 1, Amt: "10000000", Lev: "5"}, {Op: "lev_open", U: 2, Amt: "2000000000", Lev: "9.5", Rel: 1},
			{Op: "lev_cp", U: 3, Items: []c10Item{{0, 0}, {0, 1}, {1, 0}, {1, 1}}},
			{Op: "lev_liq_boundary", U: 3, Idx: 0, Dir: 2}, {Op: "lev_liq_boundary", U: 3, Idx: 0, Dir: 0},
			{Op: "lev_sl_boundary", U: 4, Idx: 0, Dir: 2}, {Op: "lev_sl_boundary", U: 4, Idx: 0, Dir: 1},
			{Op: "blocks", N: 2, DT: 3700}, {Op: "lev_close", U: 3, Idx: 0, Rel: 0}, {Op: "lev_close", U: 2, Idx: 0, Rel: 3}}},
		{Ops: []c10Op{ // perpetual long + short: triggers hit exactly / one ulp off, liquidation boundary, foreign close
			{Op: "perp_open", U: 1, Dir: 0, Amt: "1000000000", Lev: "3", Rel: 1}, {Op: "perp_open", U: 2, Dir: 1, Amt: "500000000", Lev: "2", Rel: 1},
			{Op: "blocks", N: 1, DT: 3700},
			{Op: "perp_cp", U: 3, Items: []c10Item{{0, 0}, {0, 1}, {1, 0}, {1, 1}, {2, 0}, {2, 1}}},
			{Op: "perp_liq_boundary", U: 4, Idx: 0, Dir: 2}, {Op: "perp_liq_boundary", U: 4, Idx: 0, Dir: 0},
			{Op: "perp_trigger_boundary", U: 4, Idx: 0, Dir: 2, Rel: 0, N: 1}, {Op: "perp_trigger_boundary", U: 4, Idx: 0, Dir: 1, Rel: 1, N: 1},
			{Op: "perp_close", U: 3, Idx: 0, Rel: 0}, {Op: "perp_close", U: 2, Idx: 0, Rel: 5}}},
		{Ops: []c10Op{ // a short without a take-profit price (0) and a long: a third party's take-profit batch must leave both alone
			{Op: "perp_open", U: 1, Dir: 1, Amt: "500000000", Lev: "2", Rel: 3}, {Op: "perp_open", U: 2, Dir: 0, Amt: "800000000", Lev: "3", Rel: 0},
			{Op: "blocks", N: 1, DT: 3700},
			{Op: "perp_cp", U: 3, Items: []c10Item{{2, 0}, {2, 1}, {1, 0}}}, {Op: "blocks", N: 1, DT: 60},
			{Op: "perp_cp", U: 4, Items: []c10Item{{2, 1}, {2, 0}}},
			{Op: "perp_close", U: 1, Idx: 0, Rel: 0}, {Op: "perp_close", U: 2, Idx: 0, Rel: 0}}},
		{Ops: []c10Op{ // opens at the boundary health == safety factor
			{Op: "lev_open_boundary", U: 1, Amt: "50000000", Lev: "5"}, {Op: "perp_open_boundary", U: 2, Dir: 0, Amt: "30000000", Lev: "5"},
			{Op: "perp_open_boundary", U: 3, Dir: 1, Amt: "30000000", Lev: "3", Rel: 1}, {Op: "blocks", N: 1, DT: 60},
			{Op: "lev_open_boundary", U: 1, Amt: "70000000", Lev: "3"}, {Op: "perp_open_boundary", U: 2, Dir: 0, Amt: "40000000", Lev: "2"}}},
		{Ops: []c10Op{ // price crash: unhealthy positions, sweep and bots
			{Op: "lev_open", U: 1, Amt: "3000000000", Lev: "10"}, {Op: "lev_open", U: 2, Amt: "40000000", Lev: "9.5", Rel: 2},
			{Op: "perp_open", U: 3, Dir: 0, Amt: "2000000000", Lev: "10"}, {Op: "perp_open", U: 4, Dir: 1, Amt: "900000000", Lev: "5"},
			{Op: "price", P: "0.5"}, {Op: "perp_cp", U: 0, Items: []c10Item{{0, 0}, {0, 1}}}, {Op: "blocks", N: 2, DT: 604800},
			{Op: "lev_cp", U: 0, Items: []c10Item{{0, 0}, {0, 1}}}, {Op: "price", P: "2"}, {Op: "price", P: "2"},
			{Op: "perp_cp", U: 0, Items: []c10Item{{0, 0}, {0, 1}, {1, 0}, {2, 1}}}, {Op: "blocks", N: 1, DT: 5}}},
	}
}

// ---------------------------------------------------------------- observation

type c10P struct {
	owner   int
	addr    string
	id      uint64
	size    sdkmath.Int
	coll    sdkmath.Int
	princ   sdkmath.Int
	sl, tp  sdkmath.LegacyDec // nil = not set
	long    bool
	posAddr string
}

func (p c10P) eq(q c10P) bool {
	de := func(a, b sdkmath.LegacyDec) bool {
		if a.IsNil() || b.IsNil() {
			return a.IsNil() && b.IsNil()
		}
		return a.Equal(b)
	}
	return p.size.Equal(q.size) && p.coll.Equal(q.coll) && p.princ.Equal(q.princ) && de(p.sl, q.sl) && de(p.tp, q.tp) && p.long == q.long
}

type c10Snap struct {
	lev, perp map[string]c10P
	funds     map[int]map[string]sdkmath.Int
	sfl, sfp  sdkmath.LegacyDec
}

type c10Run struct {
	t       *testing.T
	col     *Collector
	w       *World
	m       *Market
	x       *lRun
	h       c10Hist
	step    int
	sub     int
	steps   []string
	hcases  []string // health evaluations of this history (c10_health_test.go)
	nontriv bool
	fp      strings.Builder
	owners  map[string]int
	cnt     map[string]int
}

func (r *c10Run) ownerIdx(a string) int {
	if v, ok := r.owners[a]; ok {
		return v
	}
	r.owners[a] = 100 + len(r.owners)
	return r.owners[a]
}

func c10Key(owner int, id uint64) string { return fmt.Sprintf("%04d/%08d", owner, id) }

func (r *c10Run) snap(ctx sdk.Context) c10Snap {
	app := r.w.App
	s := c10Snap{lev: map[string]c10P{}, perp: map[string]c10P{}, funds: map[int]map[string]sdkmath.Int{}}
	for _, p := range app.LeveragelpKeeper.GetAllPositions(ctx) {
		// principal: what the position borrowed from the vault (interest is kept apart in the debt record)
		debt := app.StablestakeKeeper.GetDebt(ctx, p.GetPositionAddress())
		o := r.ownerIdx(p.Address)
		s.lev[c10Key(o, p.Id)] = c10P{owner: o, addr: p.Address, id: p.Id, size: p.LeveragedLpAmount, coll: p.Collateral.Amount, princ: debt.Borrowed,
			sl: p.StopLossPrice, long: true, posAddr: p.GetPositionAddress().String()}
	}
	for _, m := range app.PerpetualKeeper.GetAllMTPs(ctx) {
		o := r.ownerIdx(m.Address)
		s.perp[c10Key(o, m.Id)] = c10P{owner: o, addr: m.Address, id: m.Id, size: m.Custody, coll: m.Collateral, princ: m.Liabilities,
			sl: m.StopLossPrice, tp: m.TakeProfitPrice, long: m.Position == perptypes.Position_LONG}
	}
	for i, a := range r.m.Users {
		s.funds[i] = map[string]sdkmath.Int{}
		for _, d := range c10Denoms {
			s.funds[i][d] = app.BankKeeper.GetBalance(ctx, a, d).Amount
		}
	}
	s.sfl = app.LeveragelpKeeper.GetParams(ctx).SafetyFactor
	s.sfp = app.PerpetualKeeper.GetParams(ctx).SafetyFactor
	return s
}

func c10Z(x sdkmath.Int) string { return zstr(x.BigInt()) }

func c10OD(d sdkmath.LegacyDec) string {
	if d.IsNil() {
		return "None"
	}
	return "(Some " + zstr(d.BigInt()) + ")"
}

func c10OI(x *big.Int) string {
	if x == nil {
		return "None"
	}
	return "(Some " + zstr(x) + ")"
}

func c10B(b bool) string {
	if b {
		return "true"
	}
	return "false"
}

func (p c10P) coq() string {
	return fmt.Sprintf("P %s %s %s %s %s %s", c10Z(p.size), c10Z(p.coll), c10Z(p.princ), c10OD(p.sl), c10OD(p.tp), c10B(p.long))
}

func c10Sorted(m map[string]c10P) []string {
	ks := make([]string, 0, len(m))
	for k := range m {
		ks = append(ks, k)
	}
	sort.Strings(ks)
	return ks
}

func c10PosList(m map[string]c10P) string {
	var out []string
	for _, k := range c10Sorted(m) {
		p := m[k]
		out = append(out, fmt.Sprintf("(%d, %d, %s)", p.owner, p.id, p.coq()))
	}
	return "[" + strings.Join(out, "; ") + "]"
}

func c10PosChanges(pre, post map[string]c10P) string {
	var out []string
	for _, k := range c10Sorted(pre) {
		p := pre[k]
		q, ok := post[k]
		if !ok {
			out = append(out, fmt.Sprintf("(%d, %d, None)", p.owner, p.id))
		} else if !p.eq(q) {
			out = append(out, fmt.Sprintf("(%d, %d, Some (%s))", q.owner, q.id, q.coq()))
		}
	}
	for _, k := range c10Sorted(post) {
		if _, ok := pre[k]; !ok {
			q := post[k]
			out = append(out, fmt.Sprintf("(%d, %d, Some (%s))", q.owner, q.id, q.coq()))
		}
	}
	return "[" + strings.Join(out, "; ") + "]"
}

func c10Funds(s c10Snap, owners []int) string {
	var out []string
	for _, o := range owners {
		for di, d := range c10Denoms {
			if f, ok := s.funds[o]; ok {
				out = append(out, fmt.Sprintf("(%d, %d, %s)", o, di, c10Z(f[d])))
			}
		}
	}
	return "[" + strings.Join(out, "; ") + "]"
}

func c10FundChanges(pre, post c10Snap, owners []int) string {
	var out []string
	for _, o := range owners {
		for di, d := range c10Denoms {
			if f, ok := pre.funds[o]; ok && !f[d].Equal(post.funds[o][d]) {
				out = append(out, fmt.Sprintf("(%d, %d, %s)", o, di, c10Z(post.funds[o][d])))
			}
		}
	}
	return "[" + strings.Join(out, "; ") + "]"
}

func c10PayList(pre, post map[string]sdkmath.Int) string {
	var out []string
	for di, d := range c10Denoms {
		if !pre[d].Equal(post[d]) {
			out = append(out, fmt.Sprintf("(%d, %s)", di, c10Z(post[d].Sub(pre[d]))))
		}
	}
	return "[" + strings.Join(out, "; ") + "]"
}

func (r *c10Run) emit(pre, post c10Snap, cop string, owners []int) {
	sort.Ints(owners)
	var uo []int
	for i, o := range owners {
		if (i == 0 || o != owners[i-1]) && o < 100 {
			uo = append(uo, o)
		}
	}
	r.steps = append(r.steps, fmt.Sprintf("mkStep %d (mkSD %s %s %s %s %s)\n    (%s)\n    %s %s %s",
		r.step*100+r.sub, c10PosList(pre.lev), c10PosList(pre.perp), c10Funds(pre, uo), zstr(pre.sfl.BigInt()), zstr(pre.sfp.BigInt()),
		cop, c10PosChanges(pre.lev, post.lev), c10PosChanges(pre.perp, post.perp), c10FundChanges(pre, post, uo)))
	r.sub++
}

func (r *c10Run) fail(sig, detail string) {
	r.col.Violate(Violation{Signature: sig, Detail: detail, History: r.h.ID, Step: r.step, Replay: r.h})
}

func (r *c10Run) count(k string) { r.cnt[k]++ }

// ---------------------------------------------------------------- decision-time probes

type c10Req struct {
	kind  int // 0 liquidate, 1 stop loss, 2 take profit, 3 sweep item
	owner sdk.AccAddress
	id    uint64
}

type c10Probe struct {
	found   bool
	settle  *big.Int
	health  *big.Int
	liab    sdkmath.Int
	health2 *big.Int
	price   *big.Int
	guard   bool // the PROPERTY's guard: health <= safety factor, or price at/beyond the trigger
	closed  bool
	payPre  map[string]sdkmath.Int
	payPost map[string]sdkmath.Int
	detail  string
	// the force close itself, tried on a branch at the moment of the item (only when the guard holds):
	// tells "close attempted and failed" apart from "not attempted"
	tryOK   bool
	tryPre  map[string]sdkmath.Int
	tryPost map[string]sdkmath.Int
}

func c10Safely(f func()) (panicked bool) {
	defer func() {
		if rec := recover(); rec != nil {
			panicked = true
		}
	}()
	f()
	return false
}

func (r *c10Run) bal(ctx sdk.Context, a sdk.AccAddress) map[string]sdkmath.Int {
	out := map[string]sdkmath.Int{}
	for _, d := range c10Denoms {
		out[d] = r.w.App.BankKeeper.GetBalance(ctx, a, d).Amount
	}
	return out
}

// probeLev evaluates, on a branch of ctx, what the leveragelp checks will read for this request.
func (r *c10Run) probeLev(ctx sdk.Context, q c10Req) (pr c10Probe) {
	k := r.w.App.LeveragelpKeeper
	pc, _ := ctx.CacheContext()
	pr.liab = sdkmath.ZeroInt()
	pos, err := k.GetPosition(pc, q.owner, q.id)
	if err != nil {
		return pr
	}
	pr.found = true
	sf := k.GetParams(pc).SafetyFactor
	var h sdkmath.LegacyDec
	var herr error
	if c10Safely(func() { h, herr = k.GetPositionHealth(pc, pos) }) {
		herr = fmt.Errorf("panic")
	}
	liqGuard, stopGuard := false, false
	if herr == nil {
		r.healthLev(pc, pos, h)
		// the guard value is NOT taken from the function under test alone: the same quantity from first principles (exit value of the
		// committed shares over principal + interest charged - interest paid) must agree, and it is the one the verdict is judged by
		if hi, ok := lIndependentLevHealth(r.w, pc, pos); ok {
			if !hi.Equal(h) {
				r.fail("C10:lev-health-differs-from-exit-value-over-debt", fmt.Sprintf("position %s/%d: keeper health %s, exit value over debt %s", pos.Address, pos.Id, h, hi))
			}
			h = hi
		}
		pr.health = h.BigInt()
		pr.health2 = h.BigInt()
		pr.liab = r.w.App.StablestakeKeeper.UpdateInterestAndGetDebt(pc, pos.GetPositionAddress()).GetTotalLiablities()
		liqGuard = h.LTE(sf)
	}
	ammPool, perr := k.GetAmmPool(pc, pos.AmmPoolId)
	if perr == nil {
		var lp sdkmath.LegacyDec
		var lerr error
		if c10Safely(func() { lp, lerr = ammPool.LpTokenPrice(pc, r.w.App.OracleKeeper, r.w.App.AccountedPoolKeeper) }) {
			lerr = fmt.Errorf("panic")
		}
		if lerr == nil {
			pr.price = lp.BigInt()
			stopGuard = !pos.StopLossPrice.IsNil() && lp.LTE(pos.StopLossPrice)
		}
	}
	switch q.kind {
	case 0:
		pr.guard = liqGuard
	case 1:
		pr.guard = stopGuard
	default:
		pr.guard = liqGuard || stopGuard
	}
	pr.detail = fmt.Sprintf("health %v sf %s lp price %v stop loss %s", pr.health, sf, pr.price, pos.StopLossPrice)
	if pr.guard {
		isLiq := q.kind == 0 || (q.kind == 3 && liqGuard && !pr.liab.IsZero())
		bc, _ := pc.CacheContext()
		pr.tryPre = r.bal(bc, q.owner)
		pool, found := k.GetPool(bc, pos.AmmPoolId)
		var cerr error
		pos.PositionHealth = h
		if !found || c10Safely(func() { _, cerr = k.ForceCloseLong(bc, pos, pool, pos.LeveragedLpAmount, isLiq) }) || cerr != nil {
			pr.tryPost = pr.tryPre // cache context dropped
		} else {
			pr.tryOK = true
			pr.tryPost = r.bal(bc, q.owner)
		}
	}
	return pr
}

func (r *c10Run) probePerp(ctx sdk.Context, q c10Req) (pr c10Probe) {
	k := r.w.App.PerpetualKeeper
	pc, _ := ctx.CacheContext()
	pr.liab = sdkmath.ZeroInt()
	mtp, err := k.GetMTP(pc, q.owner, q.id)
	if err != nil {
		return pr
	}
	pr.found = true
	sf := k.GetParams(pc).SafetyFactor
	price, perr := k.GetAssetPrice(pc, mtp.TradingAsset)
	if perr == nil {
		pr.price = price.BigInt()
	}
	long := mtp.Position == perptypes.Position_LONG
	var liqPool perptypes.Pool
	switch q.kind {
	case 0:
		pool, found := k.GetPool(pc, mtp.AmmPoolId)
		ammPool, aerr := k.GetAmmPool(pc, mtp.AmmPoolId)
		if !found || aerr != nil {
			return pr
		}
		c0 := mtp.Custody
		var serr error
		// the preparatory steps CheckAndLiquidateUnhealthyPosition takes before it reads the health
		if c10Safely(func() {
			if mtp.TakeProfitLiabilities, serr = k.CalcMTPTakeProfitLiability(pc, mtp); serr != nil {
				return
			}
			if serr = mtp.UpdateMTPTakeProfitBorrowFactor(); serr != nil {
				return
			}
			k.UpdateMTPBorrowInterestUnpaidLiability(pc, &mtp)
			if _, serr = k.SettleMTPBorrowInterestUnpaidLiability(pc, &mtp, &pool, ammPool); serr != nil {
				return
			}
			serr = k.SettleFunding(pc, &mtp, &pool, ammPool)
		}) {
			serr = fmt.Errorf("panic")
		}
		if serr != nil {
			return pr
		}
		pr.settle = mtp.Custody.Sub(c0).BigInt()
		liqPool = pool
		var h sdkmath.LegacyDec
		var herr error
		hpanic := c10Safely(func() { h, herr = k.GetMTPHealth(pc, mtp, ammPool, USDC) })
		r.healthPerp(pc, mtp, ammPool, h, herr, hpanic)
		if hpanic {
			herr = fmt.Errorf("panic")
		}
		if herr == nil {
			pr.health = h.BigInt()
			pr.guard = h.LTE(sf)
		}
		pr.detail = fmt.Sprintf("health %v sf %s settle %v", pr.health, sf, pr.settle)
	case 1:
		if perr == nil && !mtp.StopLossPrice.IsNil() {
			if long {
				pr.guard = price.LTE(mtp.StopLossPrice)
			} else {
				pr.guard = price.GTE(mtp.StopLossPrice)
			}
		}
		pr.detail = fmt.Sprintf("long %v price %v stop loss %s", long, pr.price, mtp.StopLossPrice)
	default:
		if perr == nil && !mtp.TakeProfitPrice.IsNil() {
			if long {
				pr.guard = price.GTE(mtp.TakeProfitPrice)
			} else {
				pr.guard = price.LTE(mtp.TakeProfitPrice)
			}
		}
		pr.detail = fmt.Sprintf("long %v price %v take profit %s", long, pr.price, mtp.TakeProfitPrice)
	}
	if pr.guard {
		bc, _ := pc.CacheContext()
		pr.tryPre = r.bal(bc, q.owner)
		pool, found := k.GetPool(bc, mtp.AmmPoolId)
		if q.kind == 0 {
			pool = liqPool
		}
		var cerr error
		if found {
			c10Safely(func() {
				if long {
					_, cerr = k.ForceCloseLong(bc, &mtp, &pool, true, USDC)
				} else {
					_, cerr = k.ForceCloseShort(bc, &mtp, &pool, true, USDC)
				}
			})
		}
		_ = cerr
		_, e := k.GetMTP(bc, q.owner, q.id)
		pr.tryOK = e != nil
		pr.tryPost = r.bal(bc, q.owner) // no cache context in the handler: partial pay-outs stay
	}
	return pr
}

func (pr c10Probe) coq(owner int, id uint64) string {
	cl := "CloseFail"
	if pr.closed || pr.tryOK {
		cl = "CloseOk"
	}
	pay := "[]"
	if pr.payPre != nil {
		pay = c10PayList(pr.payPre, pr.payPost)
		if !pr.closed && pr.tryOK && pr.tryPre != nil {
			pay = c10PayList(pr.tryPre, pr.tryPost)
		}
	}
	return fmt.Sprintf("It %d %d %s %s %s true %s %s (%s %s)", owner, id, c10OI(pr.settle), c10OI(pr.health), c10Z(pr.liab), c10OI(pr.health2), c10OI(pr.price), cl, pay)
}

// ---------------------------------------------------------------- close-positions transactions

func (r *c10Run) resolveReqs(perp bool, items []c10Item) []c10Req {
	qc := r.w.QCtx()
	var reqs []c10Req
	type oid struct {
		a  string
		id uint64
	}
	var list []oid
	if perp {
		for _, m := range r.w.App.PerpetualKeeper.GetAllMTPs(qc) {
			list = append(list, oid{m.Address, m.Id})
		}
	} else {
		for _, p := range r.w.App.LeveragelpKeeper.GetAllPositions(qc) {
			list = append(list, oid{p.Address, p.Id})
		}
	}
	for j, it := range items {
		var q c10Req
		q.kind = it.Kind
		switch {
		case it.Idx >= 0 && len(list) > 0:
			e := list[it.Idx%len(list)]
			q.owner, q.id = sdk.MustAccAddressFromBech32(e.a), e.id
		case it.Idx == -2 && len(list) > 0:
			e := list[j%len(list)]
			other := r.m.Users[(r.ownerIdx(e.a)+1)%len(r.m.Users)]
			q.owner, q.id = other, e.id
		default:
			q.owner, q.id = r.m.Users[j%len(r.m.Users)], 9999
		}
		reqs = append(reqs, q)
	}
	return reqs
}

func c10LevMsg(creator string, reqs []c10Req) *levtypes.MsgClosePositions {
	msg := &levtypes.MsgClosePositions{Creator: creator}
	for _, q := range reqs {
		pr := &levtypes.PositionRequest{Address: q.owner.String(), Id: q.id}
		if q.kind == 0 {
			msg.Liquidate = append(msg.Liquidate, pr)
		} else {
			msg.StopLoss = append(msg.StopLoss, pr)
		}
	}
	return msg
}

func c10PerpMsg(creator string, reqs []c10Req) *perptypes.MsgClosePositions {
	msg := &perptypes.MsgClosePositions{Creator: creator}
	for _, q := range reqs {
		pr := perptypes.PositionRequest{Address: q.owner.String(), Id: q.id}
		switch q.kind {
		case 0:
			msg.Liquidate = append(msg.Liquidate, pr)
		case 1:
			msg.StopLoss = append(msg.StopLoss, pr)
		default:
			msg.TakeProfit = append(msg.TakeProfit, pr)
		}
	}
	return msg
}

// shadow walks the requests one by one on a throw-away context: probe, then advance by that one request.
func (r *c10Run) shadow(perp bool, creator string, reqs []c10Req) []c10Probe {
	sc := r.w.QCtx()
	out := make([]c10Probe, len(reqs))
	dead := false
	for j, q := range reqs {
		if dead {
			out[j] = c10Probe{liab: sdkmath.ZeroInt()}
			continue
		}
		var pr c10Probe
		if perp {
			pr = r.probePerp(sc, q)
		} else {
			pr = r.probeLev(sc, q)
		}
		pr.payPre = r.bal(sc, q.owner)
		var msg sdk.Msg
		if perp {
			msg = c10PerpMsg(creator, []c10Req{q})
		} else {
			msg = c10LevMsg(creator, []c10Req{q})
		}
		bc, write := sc.CacheContext()
		var herr error
		if c10Safely(func() { _, herr = r.w.App.MsgServiceRouter().Handler(msg)(bc, msg) }) || herr != nil {
			dead = true // the whole transaction will fail at this item
		} else {
			write()
		}
		pr.payPost = r.bal(sc, q.owner)
		if pr.found {
			if perp {
				_, e := r.w.App.PerpetualKeeper.GetMTP(sc, q.owner, q.id)
				pr.closed = e != nil
			} else {
				_, e := r.w.App.LeveragelpKeeper.GetPosition(sc, q.owner, q.id)
				pr.closed = e != nil
			}
		}
		out[j] = pr
	}
	return out
}

// oracle: every position of the pre-state that differs afterwards must be named by a request whose guard
// held at its moment; same for the owners' balances. settleOK: custody may move by the settled amount.
func (r *c10Run) judge(mod string, pre, post c10Snap, reqs []c10Req, probes []c10Probe, checkFunds bool) {
	preM, postM := pre.lev, post.lev
	if mod == "perpetual" {
		preM, postM = pre.perp, post.perp
	}
	n := 0
	for _, k := range c10Sorted(preM) {
		p := preM[k]
		q, still := postM[k]
		allowed := false
		expected := p
		for j, rq := range reqs {
			if rq.owner.String() != p.addr || rq.id != p.id || !probes[j].found {
				continue
			}
			if probes[j].guard {
				allowed = true
			}
			if probes[j].settle != nil { // interest / funding that had accrued
				expected.size = expected.size.Add(sdkmath.NewIntFromBigInt(probes[j].settle))
			}
		}
		n++
		if allowed {
			continue
		}
		if !still || !q.eq(expected) {
			det := ""
			for j, rq := range reqs {
				if rq.owner.String() == p.addr && rq.id == p.id {
					det += fmt.Sprintf(" [request kind %d: %s]", rq.kind, probes[j].detail)
				}
			}
			r.fail("C10:forced-change-without-guard:"+mod, fmt.Sprintf("position %s/%d (size %s coll %s principal %s) -> present=%v (size %s coll %s principal %s) with no guard true;%s",
				p.addr, p.id, p.size, p.coll, p.princ, still, q.size, q.coll, q.princ, det))
		}
	}
	// the other module's positions are never touched by this module's requests
	otherPre, otherPost := pre.perp, post.perp
	if mod == "perpetual" {
		otherPre, otherPost = pre.lev, post.lev
	}
	for _, k := range c10Sorted(otherPre) {
		if q, ok := otherPost[k]; !ok || !q.eq(otherPre[k]) {
			r.fail("C10:forced-change-without-guard:"+mod, fmt.Sprintf("position %s of the other module changed by a %s close-positions step", k, mod))
		}
	}
	if checkFunds {
		for o, f := range pre.funds {
			changed := false
			for _, d := range c10Denoms {
				if !f[d].Equal(post.funds[o][d]) {
					changed = true
				}
			}
			if !changed {
				continue
			}
			ok := false
			for j, rq := range reqs {
				if r.ownerIdx(rq.owner.String()) == o && probes[j].found && probes[j].guard {
					ok = true
				}
			}
			n++
			if !ok {
				r.fail("C10:owner-funds-changed-without-guard:"+mod, fmt.Sprintf("balances of user %d changed (%v -> %v) by a %s close-positions step naming no position of theirs with a true guard", o, f, post.funds[o], mod))
			}
		}
	}
	r.col.ImplCheck(n)
}

func (r *c10Run) closePositions(perp bool, creator string, reqs []c10Req) TxResult {
	if len(reqs) == 0 {
		return TxResult{Err: fmt.Errorf("skip")}
	}
	sort.SliceStable(reqs, func(a, b int) bool { return reqs[a].kind < reqs[b].kind })
	pre := r.snap(r.w.QCtx())
	probes := r.shadow(perp, creator, reqs)
	var msg sdk.Msg
	mod := "leveragelp"
	if perp {
		msg = c10PerpMsg(creator, reqs)
		mod = "perpetual"
	} else {
		msg = c10LevMsg(creator, reqs)
	}
	res := r.w.Deliver(msg)
	post := r.snap(r.w.QCtx())
	r.judge(mod, pre, post, reqs, probes, true)
	owners := []int{r.ownerIdx(creator)}
	lists := [3][]string{}
	for j, q := range reqs {
		o := r.ownerIdx(q.owner.String())
		owners = append(owners, o)
		lists[q.kind] = append(lists[q.kind], probes[j].coq(o, q.id))
		if probes[j].found {
			g := "false"
			if probes[j].guard {
				g = "true"
			}
			r.count(fmt.Sprintf("%s_item_kind%d_guard_%s", mod, q.kind, g))
			if probes[j].closed {
				r.count(mod + "_forced_closes")
				r.nontriv = true
			}
		} else {
			r.count(mod + "_item_unknown_position")
		}
	}
	for _, p := range pre.lev {
		owners = append(owners, p.owner)
	}
	for _, p := range pre.perp {
		owners = append(owners, p.owner)
	}
	L := func(x []string) string { return "[" + strings.Join(x, ";\n      ") + "]" }
	if perp {
		r.emit(pre, post, fmt.Sprintf("CPerpMsg %s %s %s %s", c10B(res.OK()), L(lists[0]), L(lists[1]), L(lists[2])), owners)
	} else {
		r.emit(pre, post, fmt.Sprintf("CLevMsg %s %s %s", c10B(res.OK()), L(lists[0]), L(lists[1])), owners)
	}
	return res
}

// ---------------------------------------------------------------- blocks (leveragelp begin-block sweep)

func (r *c10Run) block(dt int64) bool {
	w := r.w
	r.m.RefreshPrices()
	pre := r.snap(w.QCtx())
	var reqs []c10Req
	var probes []c10Probe
	if len(pre.lev) > 0 {
		// the state the sweep will see: the begin blockers that run before leveragelp's and touch what
		// the health depends on (vault interest rate, perpetual pool rates)
		sc := w.QCtx()
		k := w.App.LeveragelpKeeper
		c10Safely(func() { w.App.StablestakeKeeper.BeginBlocker(sc) })
		c10Safely(func() { w.App.PerpetualKeeper.BeginBlocker(sc) })
		params := k.GetParams(sc)
		epochLength := params.EpochLength
		if epochLength <= 0 {
			epochLength = 1
		}
		if sc.BlockHeight()%epochLength == 0 && params.FallbackEnabled {
			all := k.GetAllPositions(sc) // store order = page order (page limit 1000 > positions here)
			offset, _ := k.GetOffset(sc)
			for idx := range all {
				if uint64(idx) < offset || uint64(idx) >= offset+uint64(params.NumberPerBlock) {
					continue
				}
				p := all[idx]
				q := c10Req{kind: 3, owner: sdk.MustAccAddressFromBech32(p.Address), id: p.Id}
				pr := r.probeLev(sc, q)
				pr.payPre = r.bal(sc, q.owner)
				// advance the throw-away state the way BeginBlocker does for this position
				c10Safely(func() {
					pos, err := k.GetPosition(sc, q.owner, q.id)
					if err != nil {
						return
					}
					pool, found := k.GetPool(sc, pos.AmmPoolId)
					ammPool, perr := k.GetAmmPool(sc, pos.AmmPoolId)
					if !found || perr != nil {
						return
					}
					isHealthy, closeAttempted, _, err := k.CheckAndLiquidateUnhealthyPosition(sc, &pos, pool, ammPool)
					if err == nil {
						return
					}
					if isHealthy && !closeAttempted {
						_, _, _ = k.CheckAndCloseAtStopLoss(sc, &pos, pool, ammPool)
					}
				})
				pr.payPost = r.bal(sc, q.owner)
				_, e := k.GetPosition(sc, q.owner, q.id)
				pr.closed = pr.found && e != nil
				reqs = append(reqs, q)
				probes = append(probes, pr)
			}
		}
	}
	if err := w.EndBlock(dt); err != nil {
		r.count("block_failed") // a failing block is C18's finding; this history ends here
		return false
	}
	if len(pre.lev) == 0 && len(pre.perp) == 0 {
		return true
	}
	post := r.snap(w.QCtx())
	r.judge("leveragelp", pre, post, reqs, probes, false)
	// perpetual has no sweep: no MTP may change in a block (judge above compares the other module)
	// transfers out of a position's own address during the block need that position's guard
	n := 0
	for _, o := range BankOps(w.LastBlockEvents) {
		if o.Kind != "send" {
			continue
		}
		for _, p := range pre.lev {
			if o.From != p.posAddr {
				continue
			}
			n++
			ok := false
			for j, rq := range reqs {
				if rq.owner.String() == p.addr && rq.id == p.id && probes[j].guard {
					ok = true
				}
			}
			if !ok {
				r.fail("C10:owner-funds-changed-without-guard:leveragelp", fmt.Sprintf("block moved %s%s out of position %s/%d's address although its guard was false", o.Amt, o.Denom, p.addr, p.id))
			}
		}
	}
	r.col.ImplCheck(n)
	if len(pre.lev) > 0 {
		var items []string
		for j, q := range reqs {
			probes[j].payPre = nil // balances over a block move for other reasons (queued swaps): not compared
			items = append(items, probes[j].coq(r.ownerIdx(q.owner.String()), q.id))
			if probes[j].closed {
				r.count("leveragelp_sweep_closes")
				r.nontriv = true
			}
			r.count(fmt.Sprintf("leveragelp_sweep_item_guard_%v", probes[j].guard))
		}
		r.emit(pre, post, "CSweep ["+strings.Join(items, ";\n      ")+"]", nil)
	}
	return true
}

// ---------------------------------------------------------------- opens

func (r *c10Run) setSF(perp bool, v sdkmath.LegacyDec) TxResult {
	if perp {
		p := r.w.App.PerpetualKeeper.GetParams(r.w.QCtx())
		p.SafetyFactor = v
		return r.w.Deliver(&perptypes.MsgUpdateParams{Authority: r.w.Gov, Params: &p})
	}
	p := r.w.App.LeveragelpKeeper.GetParams(r.w.QCtx())
	p.SafetyFactor = v
	return r.w.Deliver(&levtypes.MsgUpdateParams{Authority: r.w.Gov, Params: &p})
}

// healthOf recomputes the health of the stored position of `owner` that the open message targets.
func (r *c10Run) healthOfOpened(ctx sdk.Context, perp bool, owner sdk.AccAddress, pre c10Snap) (key string, p c10P, h sdkmath.LegacyDec, ok bool) {
	key, p, h, _, ok = r.healthOfOpened2(ctx, perp, owner, pre)
	return
}

// healthOfOpened2 also returns the health value the handler computed, compared and stored in the record.
func (r *c10Run) healthOfOpened2(ctx sdk.Context, perp bool, owner sdk.AccAddress, pre c10Snap) (key string, p c10P, h, stored sdkmath.LegacyDec, ok bool) {
	s := r.snap(ctx)
	o := r.ownerIdx(owner.String())
	cur, old := s.lev, pre.lev
	if perp {
		cur, old = s.perp, pre.perp
	}
	for _, k := range c10Sorted(cur) {
		q := cur[k]
		if q.owner != o {
			continue
		}
		if b, had := old[k]; had && b.eq(q) {
			continue
		}
		key, p = k, q
	}
	if key == "" {
		return "", p, h, stored, false
	}
	pc, _ := ctx.CacheContext()
	var err error
	if perp {
		mtp, e := r.w.App.PerpetualKeeper.GetMTP(pc, owner, p.id)
		if e != nil {
			return "", p, h, stored, false
		}
		ammPool, e2 := r.w.App.PerpetualKeeper.GetAmmPool(pc, mtp.AmmPoolId)
		if e2 != nil {
			return "", p, h, stored, false
		}
		stored = mtp.MtpHealth
		// what a liquidation request evaluates next: the interest accrued up to now is booked first (a no-op right after an
		// open that booked it itself)
		c10Safely(func() { r.w.App.PerpetualKeeper.UpdateMTPBorrowInterestUnpaidLiability(pc, &mtp) })
		hpanic := c10Safely(func() { h, err = r.w.App.PerpetualKeeper.GetMTPHealth(pc, mtp, ammPool, USDC) })
		r.healthPerp(pc, mtp, ammPool, h, err, hpanic)
		if hpanic || err != nil {
			return "", p, h, stored, false
		}
	} else {
		pos, e := r.w.App.LeveragelpKeeper.GetPosition(pc, owner, p.id)
		if e != nil {
			return "", p, h, stored, false
		}
		stored = pos.PositionHealth
		if c10Safely(func() { h, err = r.w.App.LeveragelpKeeper.GetPositionHealth(pc, pos) }) || err != nil {
			return "", p, h, stored, false
		}
		r.healthLev(pc, pos, h)
		// the health an open is judged by is NOT the keeper's alone: exit value of the shares committed at the position address over the
		// debt record must agree with it, and is the value used
		if hi, ok := lIndependentLevHealth(r.w, pc, pos); ok {
			if !hi.Equal(h) {
				r.fail("C10:lev-health-differs-from-exit-value-over-debt", fmt.Sprintf("position %s/%d after an open: keeper health %s, exit value over debt %s", pos.Address, pos.Id, h, hi))
			}
			h = hi
		}
	}
	if stored.IsNil() {
		return "", p, h, stored, false
	}
	return key, p, h, stored, true
}

// dryOpen runs the open on a throw-away context with the safety factor lowered to almost nothing and
// returns the health the position would have.
func (r *c10Run) dryOpen(perp bool, msg sdk.Msg, owner sdk.AccAddress, pre c10Snap, lower bool) (p c10P, h, stored sdkmath.LegacyDec, consolidated bool, ok bool) {
	sc := r.w.QCtx()
	if lower {
		tiny := sdkmath.LegacyNewDecWithPrec(1, 18)
		if perp {
			pp := r.w.App.PerpetualKeeper.GetParams(sc)
			pp.SafetyFactor = tiny
			if err := r.w.App.PerpetualKeeper.SetParams(sc, &pp); err != nil {
				return p, h, stored, false, false
			}
		} else {
			lp := r.w.App.LeveragelpKeeper.GetParams(sc)
			lp.SafetyFactor = tiny
			if err := r.w.App.LeveragelpKeeper.SetParams(sc, &lp); err != nil {
				return p, h, stored, false, false
			}
		}
	}
	var herr error
	if c10Safely(func() { _, herr = r.w.App.MsgServiceRouter().Handler(msg)(sc, msg) }) || herr != nil {
		return p, h, stored, false, false
	}
	key, p, h, stored, ok := r.healthOfOpened2(sc, perp, owner, pre)
	if !ok {
		return p, h, stored, false, false
	}
	old := pre.lev
	if perp {
		old = pre.perp
	}
	_, consolidated = old[key]
	return p, h, stored, consolidated, true
}

func (r *c10Run) open(perp bool, msg sdk.Msg, owner sdk.AccAddress) TxResult {
	mod, mcoq := "leveragelp", "MLev"
	if perp {
		mod, mcoq = "perpetual", "MPerp"
	}
	pre := r.snap(r.w.QCtx())
	sfv := pre.sfl
	if perp {
		sfv = pre.sfp
	}
	res := r.w.Deliver(msg)
	post := r.snap(r.w.QCtx())
	o := r.ownerIdx(owner.String())
	if res.OK() {
		_, p, h, stored, ok := r.healthOfOpened2(r.w.QCtx(), perp, owner, pre)
		r.col.ImplCheck(1)
		if !ok {
			r.count(mod + "_open_ok_unobserved")
			return res
		}
		if !h.GT(sfv) {
			r.fail("C10:open-unhealthy:"+mod, fmt.Sprintf("open by %s succeeded and left position %d with health %s <= safety factor %s (the handler compared and stored %s)", owner, p.id, h, sfv, stored))
		}
		r.nontriv = true
		r.count(mod + "_open_ok")
		r.emit(pre, post, fmt.Sprintf("COpen (mkOpen %s %d %d true None %s %s (%s) %s) true", mcoq, o, p.id, zstr(stored.BigInt()), zstr(h.BigInt()), p.coq(), c10PayList(pre.funds[o], post.funds[o])), []int{o})
		return res
	}
	unhealthy := res.Err != nil && (errors.Is(res.Err, levtypes.ErrPositionUnhealthy) || errors.Is(res.Err, perptypes.ErrMTPUnhealthy))
	if !unhealthy {
		r.count(mod + "_open_other_error")
		return res
	}
	p, h, stored, consolidated, ok := r.dryOpen(perp, msg, owner, pre, true)
	if !ok {
		r.count(mod + "_open_unhealthy_unobserved")
		return res
	}
	if stored.GT(sfv) && perp && consolidated {
		// the new part alone failed its own check; its health is not observable from outside
		r.count(mod + "_open_unhealthy_new_part")
		return res
	}
	r.count(mod + "_open_rejected_unhealthy")
	r.emit(pre, post, fmt.Sprintf("COpen (mkOpen %s %d %d true None %s %s (%s) []) false", mcoq, o, p.id, zstr(stored.BigInt()), zstr(h.BigInt()), p.coq()), []int{o})
	return res
}

func (r *c10Run) lpPrice() (sdkmath.LegacyDec, bool) {
	qc := r.w.QCtx()
	ammPool, err := r.w.App.LeveragelpKeeper.GetAmmPool(qc, r.m.OraclePool)
	if err != nil {
		return sdkmath.LegacyDec{}, false
	}
	var lp sdkmath.LegacyDec
	var lerr error
	if c10Safely(func() { lp, lerr = ammPool.LpTokenPrice(qc, r.w.App.OracleKeeper, r.w.App.AccountedPoolKeeper) }) || lerr != nil {
		return sdkmath.LegacyDec{}, false
	}
	return lp, true
}

func (r *c10Run) levOpenMsg(op c10Op) *levtypes.MsgOpen {
	sl := sdkmath.LegacyZeroDec()
	if lp, ok := r.lpPrice(); ok {
		switch op.Rel {
		case 1:
			sl = lp.Mul(dec("0.5"))
		case 2:
			sl = lp.Mul(dec("0.999"))
		case 3:
			sl = lp.Mul(dec("1.5")) // already reached
		case 4:
			sl = lp
		}
	}
	return &levtypes.MsgOpen{Creator: r.m.User(op.U), CollateralAsset: USDC, CollateralAmount: bigOf(op.Amt), AmmPoolId: r.m.OraclePool, Leverage: dec(op.Lev), StopLossPrice: sl}
}

func (r *c10Run) perpOpenMsg(op c10Op) *perptypes.MsgOpen {
	price := r.m.Prices[ATOM]
	pos, coll := perptypes.Position_LONG, USDC
	tp := price.Mul(dec("3"))
	sl := sdkmath.LegacyZeroDec()
	if op.Dir%2 == 1 {
		pos = perptypes.Position_SHORT
		tp = price.Mul(dec("0.4"))
		switch op.Rel {
		case 1:
			sl = price.Mul(dec("1.3"))
		case 2:
			sl = price.Add(sdkmath.LegacySmallestDec())
		case 3:
			tp = sdkmath.LegacyZeroDec() // a short may be opened without a take-profit price (only the maximum ratio is checked): it must never fire
		}
	} else {
		if op.Dir >= 2 {
			coll = ATOM
		}
		switch op.Rel {
		case 1:
			sl = price.Mul(dec("0.8"))
		case 2:
			sl = price.Sub(sdkmath.LegacySmallestDec())
		case 3:
			tp = price.Mul(dec("1.02"))
		}
	}
	return &perptypes.MsgOpen{Creator: r.m.User(op.U), Position: pos, Leverage: dec(op.Lev), TradingAsset: ATOM, Collateral: sdk.NewCoin(coll, bigOf(op.Amt)),
		TakeProfitPrice: tp, StopLossPrice: sl, PoolId: r.m.OraclePool}
}

// openBoundary: read the health H the position would get; safety factor := H -> refused; := H - 1ulp -> accepted.
func (r *c10Run) openBoundary(perp bool, msg sdk.Msg, owner sdk.AccAddress) TxResult {
	pre := r.snap(r.w.QCtx())
	def := pre.sfl
	if perp {
		def = pre.sfp
	}
	_, hfinal, h, _, ok := r.dryOpen(perp, msg, owner, pre, false)
	if !ok || h.GTE(dec("1000000")) || !h.IsPositive() {
		return r.open(perp, msg, owner)
	}
	if r.h.Ops[r.step].Rel%2 == 1 && hfinal.IsPositive() {
		h = hfinal // boundary at the health of the position as it will be stored
	}
	if !r.setSF(perp, h).OK() {
		return r.open(perp, msg, owner)
	}
	r.count("open_boundary_runs")
	res1 := r.open(perp, msg, owner) // health == safety factor: must be refused
	if res1.OK() {
		r.count("open_boundary_eq_accepted")
	}
	r.setSF(perp, h.Sub(sdkmath.LegacySmallestDec()))
	res2 := r.open(perp, msg, owner) // one ulp above the safety factor
	if res2.OK() {
		r.count("open_boundary_above_accepted")
	}
	r.setSF(perp, def)
	return res2
}

// ---------------------------------------------------------------- user closes / updates

func (r *c10Run) ownerClose(perp bool, creator string, id uint64, amount sdkmath.Int) TxResult {
	mod, mcoq := "leveragelp", "MLev"
	if perp {
		mod, mcoq = "perpetual", "MPerp"
	}
	pre := r.snap(r.w.QCtx())
	var res TxResult
	if perp {
		res = r.w.Deliver(&perptypes.MsgClose{Creator: creator, Id: id, Amount: amount})
	} else {
		res = r.w.Deliver(&levtypes.MsgClose{Creator: creator, Id: id, LpAmount: amount})
	}
	post := r.snap(r.w.QCtx())
	s := r.ownerIdx(creator)
	key := c10Key(s, id)
	n := 0
	for which, pm := range []map[string]c10P{pre.lev, pre.perp} {
		pq := post.lev
		if which == 1 {
			pq = post.perp
		}
		for _, k := range c10Sorted(pm) {
			if k == key && ((which == 1) == perp) {
				continue
			}
			n++
			if q, ok := pq[k]; !ok || !q.eq(pm[k]) {
				r.fail("C10:user-close-touched-foreign-position:"+mod, fmt.Sprintf("MsgClose{creator %s, id %d} changed position %s (module %d)", creator, id, k, which))
			}
		}
	}
	for o, f := range pre.funds {
		if o == s {
			continue
		}
		for _, d := range c10Denoms {
			n++
			if !f[d].Equal(post.funds[o][d]) {
				r.fail("C10:user-close-touched-foreign-position:"+mod, fmt.Sprintf("MsgClose{creator %s, id %d} changed %s of user %d", creator, id, d, o))
			}
		}
	}
	r.col.ImplCheck(n)
	pm, pq := pre.lev, post.lev
	if perp {
		pm, pq = pre.perp, post.perp
	}
	newp := "None"
	if q, ok := pq[key]; ok {
		newp = "(Some (" + q.coq() + "))"
	}
	if _, had := pm[key]; !had && res.OK() {
		r.fail("C10:user-close-touched-foreign-position:"+mod, fmt.Sprintf("MsgClose{creator %s, id %d} succeeded although no position is stored under the sender", creator, id))
	}
	owners := []int{s}
	for _, p := range pm {
		owners = append(owners, p.owner)
	}
	pay := "[]"
	if s < 100 {
		pay = c10PayList(pre.funds[s], post.funds[s])
	}
	r.emit(pre, post, fmt.Sprintf("COwnerClose (mkOC %s %d %d %s %s %s) %s", mcoq, s, id, c10B(res.OK()), newp, pay, c10B(res.OK())), owners)
	if res.OK() {
		r.nontriv = true
		r.count(mod + "_user_close_ok")
	} else {
		r.count(mod + "_user_close_err")
	}
	return res
}

// a trigger update: by the owner it changes only the trigger; by anybody else it changes nothing
func (r *c10Run) update(op c10Op) TxResult {
	qc := r.w.QCtx()
	pre := r.snap(qc)
	var res TxResult
	sender := r.m.User(op.U)
	var target string
	perp := op.Dir > 0
	if !perp {
		ps := r.w.App.LeveragelpKeeper.GetAllPositions(qc)
		if len(ps) == 0 {
			return TxResult{Err: fmt.Errorf("skip")}
		}
		p := ps[op.Idx%len(ps)]
		if op.Rel > 0 {
			sender = p.Address
		}
		lp, _ := r.lpPrice()
		v := []sdkmath.LegacyDec{sdkmath.LegacyZeroDec(), sdkmath.LegacyZeroDec(), lp.Mul(dec("0.9")), lp.Mul(dec("1.1"))}[op.Rel]
		target = c10Key(r.ownerIdx(p.Address), p.Id)
		res = r.w.Deliver(&levtypes.MsgUpdateStopLoss{Creator: sender, Position: p.Id, Price: v})
	} else {
		ms := r.w.App.PerpetualKeeper.GetAllMTPs(qc)
		if len(ms) == 0 {
			return TxResult{Err: fmt.Errorf("skip")}
		}
		p := ms[op.Idx%len(ms)]
		if op.Rel > 0 {
			sender = p.Address
		}
		price := r.m.Prices[ATOM]
		long := p.Position == perptypes.Position_LONG
		target = c10Key(r.ownerIdx(p.Address), p.Id)
		if op.Dir == 1 {
			v := sdkmath.LegacyZeroDec() // zero is accepted by the handler and stored as is
			if op.Rel >= 2 {
				if long {
					v = price.Mul(dec("0.9"))
				} else {
					v = price.Mul(dec("1.1"))
				}
			}
			res = r.w.Deliver(&perptypes.MsgUpdateStopLoss{Creator: sender, Id: p.Id, Price: v})
		} else {
			v := price.Mul(dec("2"))
			if !long {
				v = price.Mul(dec("0.5"))
			}
			res = r.w.Deliver(&perptypes.MsgUpdateTakeProfitPrice{Creator: sender, Id: p.Id, Price: v})
		}
	}
	post := r.snap(r.w.QCtx())
	n := 0
	for which, pm := range []map[string]c10P{pre.lev, pre.perp} {
		pq := post.lev
		if which == 1 {
			pq = post.perp
		}
		for _, k := range c10Sorted(pm) {
			p := pm[k]
			q, ok := pq[k]
			n++
			if k == target && (which == 1) == perp && p.addr == sender {
				if !ok || !q.size.Equal(p.size) || !q.coll.Equal(p.coll) || !q.princ.Equal(p.princ) {
					r.fail("C10:trigger-update-altered-position", fmt.Sprintf("trigger update by the owner changed size/collateral/principal of %s", k))
				}
				continue
			}
			if !ok || !q.eq(p) {
				r.fail("C10:foreign-update-altered-position", fmt.Sprintf("trigger update sent by %s changed position %s of %s", sender, k, p.addr))
			}
		}
	}
	r.col.ImplCheck(n)
	return res
}

// ---------------------------------------------------------------- executor

func (r *c10Run) exec(op c10Op) TxResult {
	w, m := r.w, r.m
	u := m.User(op.U)
	switch op.Op {
	case "swap_in":
		res, _ := r.x.exec(lOp{Op: "swap_in", U: op.U, V: op.U, Pool: 0, Dir: op.Dir, Amt: op.Amt})
		return res
	case "join":
		res, _ := r.x.exec(lOp{Op: "join", U: op.U, Pool: 0, Dir: op.Dir, Amt: op.Amt})
		return res
	case "lev_open":
		return r.open(false, r.levOpenMsg(op), m.Users[op.U%len(m.Users)])
	case "lev_open_boundary":
		return r.openBoundary(false, r.levOpenMsg(op), m.Users[op.U%len(m.Users)])
	case "perp_open":
		return r.open(true, r.perpOpenMsg(op), m.Users[op.U%len(m.Users)])
	case "perp_open_boundary":
		return r.openBoundary(true, r.perpOpenMsg(op), m.Users[op.U%len(m.Users)])
	case "perp_topup_boundary":
		// a position left alone for a long time (interest accrued but not booked), the market steered so that its health -
		// as a liquidation would compute it - is just below (Rel 0) / just above (Rel 1) the safety factor, then the owner
		// tops it up with leverage 0 and an amount too small to matter: accepted only if the resulting health is above the factor
		ms := w.App.PerpetualKeeper.GetAllMTPs(w.QCtx())
		if len(ms) == 0 {
			return TxResult{Err: fmt.Errorf("skip")}
		}
		p := ms[op.Idx%len(ms)]
		r.x.steer(lOp{Op: "steer", Dir: 0, Idx: op.Idx, Rel: op.Rel % 2})
		r.count(fmt.Sprintf("perp_topup_boundary_rel%d", op.Rel%2))
		owner := sdk.MustAccAddressFromBech32(p.Address)
		msg := &perptypes.MsgOpen{Creator: p.Address, Position: p.Position, Leverage: dec("0"), TradingAsset: p.TradingAsset,
			Collateral: sdk.NewCoin(p.CollateralAsset, sdkmath.NewInt([]int64{1, 1000, 100000}[op.Dir%3])), TakeProfitPrice: p.TakeProfitPrice, StopLossPrice: dec("0"), PoolId: p.AmmPoolId}
		return r.open(true, msg, owner)
	case "lev_reopen_unhealthy":
		// an existing leveraged-LP position has become unhealthy and nobody has liquidated it yet: the market is steered so that its health
		// is just below (Rel 0) / just above (Rel 1) the safety factor, or the asset simply loses half its price (Rel 2); then the OWNER sends
		// a consolidating MsgOpen that borrows nothing (leverage 1; Dir 3: leverage 1.000001 on a dust collateral, whose leveraged amount
		// truncates to the collateral) with a collateral too small to matter: accepted only if the position it leaves is above the factor
		ps := w.App.LeveragelpKeeper.GetAllPositions(w.QCtx())
		if len(ps) == 0 {
			return TxResult{Err: fmt.Errorf("skip")}
		}
		p := ps[op.Idx%len(ps)]
		if op.Rel%3 == 2 {
			m.SetPrice(ATOM, m.Prices[ATOM].Mul(dec("0.5")))
		} else {
			r.x.steer(lOp{Op: "steer", Dir: 1, Idx: op.Idx, Rel: op.Rel % 3})
		}
		r.count(fmt.Sprintf("lev_reopen_unhealthy_rel%d", op.Rel%3))
		lev, coll := dec("1"), sdkmath.NewInt([]int64{1000, 1, 100000, 7}[op.Dir%4])
		if op.Dir%4 == 3 {
			lev = dec("1.000001")
		}
		sl := p.StopLossPrice
		if sl.IsNil() {
			sl = dec("0")
		}
		msg := &levtypes.MsgOpen{Creator: p.Address, CollateralAsset: USDC, CollateralAmount: coll, AmmPoolId: p.AmmPoolId, Leverage: lev, StopLossPrice: sl}
		return r.open(false, msg, sdk.MustAccAddressFromBech32(p.Address))
	case "lev_close":
		ps := w.App.LeveragelpKeeper.GetAllPositions(w.QCtx())
		if len(ps) == 0 {
			return TxResult{Err: fmt.Errorf("skip")}
		}
		p := ps[op.Idx%len(ps)]
		creator := p.Address
		if op.Rel == 0 { // somebody else names the owner's position id
			creator = u
		}
		return r.ownerClose(false, creator, p.Id, relOf(op.Rel, p.LeveragedLpAmount))
	case "perp_close":
		ms := w.App.PerpetualKeeper.GetAllMTPs(w.QCtx())
		if len(ms) == 0 {
			return TxResult{Err: fmt.Errorf("skip")}
		}
		p := ms[op.Idx%len(ms)]
		creator := p.Address
		if op.Rel == 0 {
			creator = u
		}
		return r.ownerClose(true, creator, p.Id, relOf(op.Rel, p.Custody))
	case "lev_cp":
		return r.closePositions(false, u, r.resolveReqs(false, op.Items))
	case "perp_cp":
		return r.closePositions(true, u, r.resolveReqs(true, op.Items))
	case "lev_liq_boundary", "perp_liq_boundary":
		perp := op.Op == "perp_liq_boundary"
		reqs := r.resolveReqs(perp, []c10Item{{Kind: 0, Idx: op.Idx}})
		if len(reqs) == 0 {
			return TxResult{Err: fmt.Errorf("skip")}
		}
		var pr c10Probe
		pre := r.snap(w.QCtx())
		def := pre.sfl
		if perp {
			pr, def = r.probePerp(w.QCtx(), reqs[0]), pre.sfp
		} else {
			pr = r.probeLev(w.QCtx(), reqs[0])
		}
		if !pr.found || pr.health == nil || pr.health.Sign() <= 0 || pr.health.BitLen() > 100 {
			return r.closePositions(perp, u, reqs)
		}
		// safety factor := health (liquidation allowed), health - 1ulp (refused), health + 1ulp (allowed)
		h := sdkmath.LegacyNewDecFromBigIntWithPrec(pr.health, 18)
		sfv := []sdkmath.LegacyDec{h, h.Sub(sdkmath.LegacySmallestDec()), h.Add(sdkmath.LegacySmallestDec())}[op.Dir%3]
		if !r.setSF(perp, sfv).OK() {
			return r.closePositions(perp, u, reqs)
		}
		r.count(fmt.Sprintf("liq_boundary_%s_delta%d", op.Op[:4], op.Dir%3))
		res := r.closePositions(perp, u, reqs)
		r.setSF(perp, def)
		return res
	case "lev_sl_boundary":
		ps := w.App.LeveragelpKeeper.GetAllPositions(w.QCtx())
		lp, ok := r.lpPrice()
		if len(ps) == 0 || !ok {
			return TxResult{Err: fmt.Errorf("skip")}
		}
		p := ps[op.Idx%len(ps)]
		// the owner puts the stop loss exactly at the lp price, one ulp below (not reached), one ulp above
		v := []sdkmath.LegacyDec{lp, lp.Sub(sdkmath.LegacySmallestDec()), lp.Add(sdkmath.LegacySmallestDec())}[op.Dir%3]
		w.Deliver(&levtypes.MsgUpdateStopLoss{Creator: p.Address, Position: p.Id, Price: v})
		r.count(fmt.Sprintf("lev_sl_boundary_delta%d", op.Dir%3))
		return r.closePositions(false, u, []c10Req{{kind: 1, owner: sdk.MustAccAddressFromBech32(p.Address), id: p.Id}})
	case "lev_sl_batch":
		// ONE message, two stop-loss requests on the same pool: A (the largest position) has its stop loss reached and is
		// legitimately closed first, which moves the pool (shares burned, reserves paid out); B's stop loss sits just BELOW
		// the lp price (not reached, by 0.1% / 1% / 3%): B's guard must be evaluated on the state A's close leaves behind
		ps := w.App.LeveragelpKeeper.GetAllPositions(w.QCtx())
		lp, ok := r.lpPrice()
		if len(ps) < 2 || !ok {
			return TxResult{Err: fmt.Errorf("skip")}
		}
		ai := 0
		for i := range ps {
			if ps[i].LeveragedLpAmount.GT(ps[ai].LeveragedLpAmount) {
				ai = i
			}
		}
		bi := (ai + 1 + op.Idx%(len(ps)-1)) % len(ps)
		a, b := ps[ai], ps[bi]
		below := []string{"0.999", "0.99", "0.97"}[op.Dir%3]
		ra := w.Deliver(&levtypes.MsgUpdateStopLoss{Creator: a.Address, Position: a.Id, Price: lp.Mul(dec("1.01"))})
		rb := w.Deliver(&levtypes.MsgUpdateStopLoss{Creator: b.Address, Position: b.Id, Price: lp.Mul(dec(below))})
		if os.Getenv("VERIF_REPLAY") != "" {
			fmt.Printf("replay lev_sl_batch: lp %s A %s/%d size %s update %s %v; B %s/%d size %s update %s %v\n", lp, a.Address, a.Id, a.LeveragedLpAmount, ra.Kind(), ra.Err, b.Address, b.Id, b.LeveragedLpAmount, rb.Kind(), rb.Err)
		}
		r.count("lev_sl_batch_" + below)
		reqs := []c10Req{{kind: 1, owner: sdk.MustAccAddressFromBech32(a.Address), id: a.Id}, {kind: 1, owner: sdk.MustAccAddressFromBech32(b.Address), id: b.Id}}
		if op.Rel == 1 { // liquidation request for A first instead (refused unless unhealthy), then B's stop loss
			reqs[0].kind = 0
		}
		return r.closePositions(false, u, reqs)
	case "perp_trigger_boundary":
		ms := w.App.PerpetualKeeper.GetAllMTPs(w.QCtx())
		if len(ms) == 0 {
			return TxResult{Err: fmt.Errorf("skip")}
		}
		p := ms[op.Idx%len(ms)]
		trig, kind := p.StopLossPrice, 1
		if op.Rel == 1 {
			trig, kind = p.TakeProfitPrice, 2
		}
		if trig.IsNil() || trig.LT(dec("0.05")) || trig.GT(dec("500")) {
			return r.closePositions(true, u, []c10Req{{kind: kind, owner: sdk.MustAccAddressFromBech32(p.Address), id: p.Id}})
		}
		old := m.Prices[ATOM]
		// the market arrives exactly at the trigger, one ulp short of it, one ulp beyond it
		np := []sdkmath.LegacyDec{trig, trig.Sub(sdkmath.LegacySmallestDec()), trig.Add(sdkmath.LegacySmallestDec())}[op.Dir%3]
		m.SetPrice(ATOM, np)
		r.count(fmt.Sprintf("perp_trigger_boundary_kind%d_delta%d", kind, op.Dir%3))
		res := r.closePositions(true, u, []c10Req{{kind: kind, owner: sdk.MustAccAddressFromBech32(p.Address), id: p.Id}})
		if op.N == 1 {
			m.SetPrice(ATOM, old)
		}
		return res
	case "upd":
		return r.update(op)
	}
	r.t.Fatalf("unknown op %q", op.Op)
	return TxResult{}
}

func c10RunHistory(t *testing.T, col *Collector, h c10Hist) {
	w := NewWorld(t)
	m := NewMarket(w, DefaultMarketOpts())
	r := &c10Run{t: t, col: col, w: w, m: m, h: h, owners: map[string]int{}, cnt: map[string]int{}}
	r.x = &lRun{t: t, col: col, prop: "C10", w: w, m: m, donated: map[string]*big.Int{}, supply0: map[string]sdkmath.Int{}, vaultDonated: sdkmath.ZeroInt()}
	for i, a := range m.Users {
		r.owners[a.String()] = i
	}
	r.step = -1
	if !r.block(5) {
		return
	}
	for k, op := range h.Ops {
		r.step, r.sub = k, 0
		switch op.Op {
		case "blocks":
			for j := int64(0); j < op.N; j++ {
				if !r.block(op.DT) {
					return
				}
			}
			col.Op("blocks", "ok", nil)
			continue
		case "price":
			np := m.Prices[ATOM].Mul(dec(op.P))
			if np.LT(dec("0.05")) || np.GT(dec("500")) {
				np = dec("5")
			}
			m.SetPrice(ATOM, np)
			col.Op("price", "ok", nil)
			continue
		}
		res := r.exec(op)
		var amt *big.Int
		if op.Amt != "" {
			amt = bigOf(op.Amt).BigInt()
		}
		col.Op(op.Op, res.Kind(), amt)
		fmt.Fprintf(&r.fp, "%s:%s;", op.Op, res.Kind())
		if k%3 == 2 {
			if !r.block(5) {
				return
			}
		}
	}
	r.step, r.sub = len(h.Ops), 0
	r.block(5)
	if len(r.steps) > 0 {
		col.Case(h.ID, fmt.Sprintf("mkC10h %d [\n  %s]\n  [%s]", h.ID, strings.Join(r.steps, ";\n  "), strings.Join(r.hcases, ";\n   ")))
	}
	col.mu.Lock()
	for k, v := range r.cnt {
		n, _ := col.rep.Extra[k].(int)
		col.rep.Extra[k] = n + v
	}
	n, _ := col.rep.Extra["coq_steps"].(int)
	col.rep.Extra["coq_steps"] = n + len(r.steps)
	col.mu.Unlock()
	col.Distinct(r.fp.String(), r.nontriv)
	col.Sample(h)
}

func TestC10(t *testing.T) {
	seed := envInt("VERIF_SEED", 1)
	col := NewCollector("C10", seed)
	n := 96
	if tier() == "thorough" {
		n = 900
	}
	n = int(envInt("VERIF_N", int64(n)))
	var hists []c10Hist
	var one c10Hist
	if loadReplay(&one) {
		hists = []c10Hist{one}
	} else {
		hists = append(hists, c10Corpus()...)
		for i := len(hists); i < n; i++ {
			hists = append(hists, c10Gen(NewRng(uint64(seed), uint64(i)), i))
		}
		hists = append(hists, c10Corpus3()...) // after the others so that those keep their indices
	}
	RunParallel(len(hists), func(i int) {
		h := hists[i]
		h.ID = i
		c10RunHistory(t, col, h)
	})
	header := "From Coq Require Import ZArith List Bool.\nFrom Elys Require Import Base.Res Models.CloseGuard Run.CloseGuardRun Models.Health Run.HealthRun.\nImport ListNotations.\nOpen Scope Z_scope.\n"
	footer := "Definition M := Eval vm_compute in mismatches_h cases.\nPrint M.\n"
	col.Finish(t, len(hists), header, footer, 6)
}

var _ = ammtypes.ModuleName
