package harness

// C17 - governance-only messages are refused from everybody but the governance authority; owner-scoped
// messages are refused from everybody but the owner.
//
// Correspondence run for coq/Models/Authority.v + coq/Generated/Handlers.v (the table that
// tools/gotrans regenerates from the Go sources):
//
//   1. the production router's own list of elys Msg types is compared with the translator's table in
//      both directions (a message type the translator does not know, or knows but the router does not
//      serve, is a correspondence failure), likewise the set of types with an Authority field
//      (reflection on the registered Go struct) and the signer field of every type
//      (codec.GetMsgV1Signers on the real message);
//   2. every governance-only type is delivered through the production router from non-authority
//      signers with several payloads; the property's own predicate is evaluated on the
//      implementation: result is an error AND no store of the application (KV, transient, memory)
//      differs on the handler's own branch after it returned;
//   3. owner-scoped messages against objects created in the fixture, from non-owners;
//   4. every delivery (fixture included) becomes a case that Coq's VM replays against the skeleton
//      semantics (Run/AuthorityRun.v).

import (
	"crypto/sha256"
	"encoding/hex"
	"encoding/json"
	"fmt"
	"os"
	"path/filepath"
	"reflect"
	"runtime/debug"
	"sort"
	"strings"
	"testing"

	sdkmath "cosmossdk.io/math"
	storetypes "cosmossdk.io/store/types"
	sdk "github.com/cosmos/cosmos-sdk/types"
	authtypes "github.com/cosmos/cosmos-sdk/x/auth/types"
	"github.com/cosmos/gogoproto/proto"

	ammtypes "github.com/elys-network/elys/x/amm/types"
	aptypes "github.com/elys-network/elys/x/assetprofile/types"
	committypes "github.com/elys-network/elys/x/commitment/types"
	levtypes "github.com/elys-network/elys/x/leveragelp/types"
	mctypes "github.com/elys-network/elys/x/masterchef/types"
	oracletypes "github.com/elys-network/elys/x/oracle/types"
	perptypes "github.com/elys-network/elys/x/perpetual/types"
	sstypes "github.com/elys-network/elys/x/stablestake/types"
	tokentypes "github.com/elys-network/elys/x/tokenomics/types"
	tstypes "github.com/elys-network/elys/x/tradeshield/types"
)

type c17Stmt struct {
	Kind string `json:"kind"`
	A    string `json:"a"`
	B    string `json:"b"`
}

type c17Handler struct {
	Module       string    `json:"module"`
	Method       string    `json:"method"`
	Req          string    `json:"req"`
	HasAuthority bool      `json:"has_authority"`
	Signer       string    `json:"signer"`
	Resolved     bool      `json:"resolved"`
	Skel         []c17Stmt `json:"skel"`
}

func (h c17Handler) hasGuardAuthority() bool {
	for _, s := range h.Skel {
		if s.Kind == "GuardAuthority" {
			return true
		}
	}
	return false
}
func (h c17Handler) govOnly() bool { return h.HasAuthority || h.hasGuardAuthority() }

func c17LoadTable(t *testing.T) map[string]c17Handler {
	dir := os.Getenv("VERIF_GENDIR")
	if dir == "" {
		dir = filepath.Join("..", "coq", "Generated")
	}
	b, err := os.ReadFile(filepath.Join(dir, "handlers.json"))
	if err != nil {
		t.Fatalf("translator table: %v (run ./check C17 quick, or tools/gotrans handlers <repo> coq/Generated/Handlers.v)", err)
	}
	var doc struct {
		Handlers []c17Handler `json:"handlers"`
	}
	if err := json.Unmarshal(b, &doc); err != nil {
		t.Fatalf("translator table: %v", err)
	}
	out := map[string]c17Handler{}
	for _, h := range doc.Handlers {
		out["/elys."+h.Module+"."+h.Req] = h
	}
	return out
}

// ---------------------------------------------------------------- store hash

type c17Driver struct {
	t                  *testing.T
	w                  *World
	m                  *Market
	col                *Collector
	table              map[string]c17Handler
	keys               []storetypes.StoreKey
	cur                string // hash of the root multistore (maintained)
	cases              []string
	nCase              int
	nKeys              int
	poolNew, poolEmpty uint64
}

func (d *c17Driver) initKeys() {
	var named []struct {
		n string
		k storetypes.StoreKey
	}
	for n, k := range d.w.App.GetKVStoreKeys() {
		named = append(named, struct {
			n string
			k storetypes.StoreKey
		}{"kv/" + n, k})
	}
	for n, k := range d.w.App.GetTransientStoreKeys() {
		named = append(named, struct {
			n string
			k storetypes.StoreKey
		}{"t/" + n, k})
	}
	for n, k := range d.w.App.GetMemoryStoreKey() {
		named = append(named, struct {
			n string
			k storetypes.StoreKey
		}{"m/" + n, k})
	}
	sort.Slice(named, func(i, j int) bool { return named[i].n < named[j].n })
	for _, x := range named {
		d.keys = append(d.keys, x.k)
	}
}

// hash over every key/value of every store as seen through ms
func (d *c17Driver) hash(ms storetypes.MultiStore) string {
	h := sha256.New()
	n := 0
	var lb [8]byte
	put := func(b []byte) {
		l := uint64(len(b))
		for i := 0; i < 8; i++ {
			lb[i] = byte(l >> (8 * i))
		}
		h.Write(lb[:])
		h.Write(b)
	}
	for _, k := range d.keys {
		put([]byte(k.Name()))
		st := ms.GetKVStore(k)
		it := st.Iterator(nil, nil)
		for ; it.Valid(); it.Next() {
			put(it.Key())
			put(it.Value())
			n++
		}
		it.Close()
	}
	d.nKeys = n
	return hex.EncodeToString(h.Sum(nil))
}

type c17Res struct {
	Kind    string
	Err     error
	Panic   interface{}
	VB      bool // rejected by ValidateBasic (the handler did not run)
	Changed bool // some store differs on the handler's branch after it returned
}

// deliver runs msg through the production router on a branch of the root store; the branch is written
// only if commit is set and the handler succeeded. Changed is observed on the branch itself.
func (d *c17Driver) deliver(msg sdk.Msg, commit bool) (res c17Res) {
	if vb, ok := msg.(validateBasic); ok {
		var err error
		func() {
			defer func() {
				if r := recover(); r != nil {
					err = fmt.Errorf("panic in ValidateBasic: %v", r)
				}
			}()
			err = vb.ValidateBasic()
		}()
		if err != nil {
			return c17Res{Kind: "err", Err: err, VB: true}
		}
	}
	h := d.w.App.MsgServiceRouter().Handler(msg)
	if h == nil {
		return c17Res{Kind: "err", Err: fmt.Errorf("no handler for %T", msg), VB: true}
	}
	base := d.w.Ctx()
	cctx, write := base.CacheContext()
	cctx = cctx.WithEventManager(sdk.NewEventManager())
	var err error
	var pan interface{}
	func() {
		defer func() {
			if r := recover(); r != nil {
				pan = fmt.Sprintf("%v\n%s", r, debug.Stack())
			}
		}()
		_, err = h(cctx, msg)
	}()
	after := d.hash(cctx.MultiStore())
	res.Changed = after != d.cur
	switch {
	case pan != nil:
		res.Kind, res.Panic = "panic", pan
	case err != nil:
		res.Kind, res.Err = "err", err
	default:
		res.Kind = "ok"
		if commit {
			write()
			d.cur = after
		}
	}
	return res
}

func b2c(b bool) string {
	if b {
		return "true"
	}
	return "false"
}

func (d *c17Driver) addCase(url string, isAuth, isOwner bool, r c17Res) {
	parts := strings.SplitN(strings.TrimPrefix(url, "/elys."), ".", 2)
	if len(parts) != 2 {
		return
	}
	kind := map[string]int{"ok": 0, "err": 1, "panic": 2}[r.Kind]
	d.cases = append(d.cases, fmt.Sprintf("  mkC %d \"%s\" \"%s\" %s %s %d %s", d.nCase, parts[0], parts[1], b2c(isAuth), b2c(isOwner), kind, b2c(r.Changed)))
	d.nCase++
}

func (d *c17Driver) fixture(what string, msg sdk.Msg, isAuth bool) c17Res {
	r := d.deliver(msg, true)
	url := "/" + proto.MessageName(msg)
	d.addCase(url, isAuth, true, r)
	d.col.Op("fixture:"+strings.TrimPrefix(url, "/elys."), r.Kind, nil)
	if r.Kind != "ok" {
		d.t.Logf("fixture %s: %s err=%v panic=%v", what, r.Kind, r.Err, r.Panic)
	}
	return r
}

// ---------------------------------------------------------------- payloads

var c17AddrFields = map[string]bool{"creator": true, "sender": true, "feeder": true, "provider": true, "owner": true,
	"authority": true, "delegator": true, "recipient": true, "receiver": true, "signer": true}

func c17Fill(v reflect.Value, name string, depth int, addr string) {
	if !v.CanSet() {
		return
	}
	ln := strings.ToLower(name)
	switch v.Kind() {
	case reflect.String:
		switch {
		case strings.Contains(ln, "address") || c17AddrFields[ln]:
			v.SetString(addr)
		case strings.Contains(ln, "denom") || strings.Contains(ln, "asset"):
			v.SetString(USDC)
		case strings.Contains(ln, "identifier"):
			v.SetString("day")
		default:
			v.SetString("x")
		}
	case reflect.Uint64, reflect.Uint32, reflect.Uint:
		v.SetUint(1)
	case reflect.Int64, reflect.Int32, reflect.Int:
		if v.Type().PkgPath() == "" { // not an enum
			v.SetInt(1)
		}
	case reflect.Ptr:
		if depth < 3 && v.Type().Elem().Kind() == reflect.Struct {
			v.Set(reflect.New(v.Type().Elem()))
			c17Fill(v.Elem(), name, depth+1, addr)
		}
	case reflect.Struct:
		switch v.Type() {
		case reflect.TypeOf(sdkmath.Int{}):
			v.Set(reflect.ValueOf(sdkmath.NewInt(1)))
		case reflect.TypeOf(sdkmath.LegacyDec{}):
			v.Set(reflect.ValueOf(sdkmath.LegacyMustNewDecFromStr("0.5")))
		case reflect.TypeOf(sdk.Coin{}):
			v.Set(reflect.ValueOf(sdk.NewCoin(USDC, sdkmath.NewInt(1))))
		default:
			if depth < 3 {
				for i := 0; i < v.NumField(); i++ {
					if v.Type().Field(i).IsExported() {
						c17Fill(v.Field(i), v.Type().Field(i).Name, depth+1, addr)
					}
				}
			}
		}
	}
}

// current module params through reflection: app.<Module>Keeper.GetParams(ctx)
func (d *c17Driver) moduleParams(module string) (reflect.Value, bool) {
	app := reflect.ValueOf(d.w.App).Elem()
	var kf reflect.Value
	for _, holder := range []reflect.Value{app, app.FieldByName("AppKeepers")} {
		if !holder.IsValid() {
			continue
		}
		if holder.Kind() == reflect.Ptr {
			holder = holder.Elem()
		}
		for i := 0; i < holder.NumField(); i++ {
			if strings.EqualFold(holder.Type().Field(i).Name, module+"Keeper") {
				kf = holder.Field(i)
			}
		}
	}
	if !kf.IsValid() {
		return reflect.Value{}, false
	}
	m := kf.MethodByName("GetParams")
	if !m.IsValid() && kf.CanAddr() {
		m = kf.Addr().MethodByName("GetParams")
	}
	if !m.IsValid() || m.Type().NumIn() != 1 || m.Type().NumOut() < 1 {
		return reflect.Value{}, false
	}
	var out []reflect.Value
	func() {
		defer func() { _ = recover() }()
		out = m.Call([]reflect.Value{reflect.ValueOf(d.w.QCtx())})
	}()
	if len(out) == 0 {
		return reflect.Value{}, false
	}
	return out[0], true
}

func c17New(rt reflect.Type) (sdk.Msg, reflect.Value) {
	pv := reflect.New(rt)
	return pv.Interface().(sdk.Msg), pv.Elem()
}

// payload candidates for a governance-only type, best first is decided by the caller
func (d *c17Driver) payloads(url string, rt reflect.Type, signerField string) map[string]func(signer string) sdk.Msg {
	out := map[string]func(string) sdk.Msg{}
	out["zero"] = func(s string) sdk.Msg {
		m, v := c17New(rt)
		v.FieldByName(signerField).SetString(s)
		return m
	}
	out["generic"] = func(s string) sdk.Msg {
		m, v := c17New(rt)
		c17Fill(v, rt.Name(), 0, d.m.User(2))
		v.FieldByName(signerField).SetString(s)
		return m
	}
	module := strings.SplitN(strings.TrimPrefix(url, "/elys."), ".", 2)[0]
	if pf, ok := rt.FieldByName("Params"); ok {
		if pv, ok := d.moduleParams(module); ok {
			out["current-params"] = func(s string) sdk.Msg {
				m, v := c17New(rt)
				f := v.FieldByName("Params")
				switch {
				case pf.Type == pv.Type():
					f.Set(pv)
				case pf.Type.Kind() == reflect.Ptr && pf.Type.Elem() == pv.Type():
					np := reflect.New(pv.Type())
					np.Elem().Set(pv)
					f.Set(np)
				}
				v.FieldByName(signerField).SetString(s)
				return m
			}
		}
	}
	if f, ok := d.handmade()[url]; ok {
		out["handmade"] = f
	}
	return out
}

const c17TestDenom = "utestc17"
const c17Intent = "c17-intent"

// payloads built from the fixture state so that the AUTHORITY itself gets them accepted
func (d *c17Driver) handmade() map[string]func(string) sdk.Msg {
	m := d.m
	u := m.User(2)
	return map[string]func(string) sdk.Msg{
		"/elys.amm.MsgUpdatePoolParams": func(s string) sdk.Msg {
			p, _ := d.w.App.AmmKeeper.GetPool(d.w.QCtx(), m.CPPool)
			return &ammtypes.MsgUpdatePoolParams{Authority: s, PoolId: m.CPPool, PoolParams: p.PoolParams}
		},
		"/elys.assetprofile.MsgUpdateEntry": func(s string) sdk.Msg {
			return &aptypes.MsgUpdateEntry{Authority: s, BaseDenom: c17TestDenom, Denom: c17TestDenom, Decimals: 8, DisplayName: "T", CommitEnabled: true}
		},
		"/elys.assetprofile.MsgDeleteEntry": func(s string) sdk.Msg {
			return &aptypes.MsgDeleteEntry{Authority: s, BaseDenom: c17TestDenom}
		},
		"/elys.commitment.MsgUpdateVestingInfo": func(s string) sdk.Msg {
			return &committypes.MsgUpdateVestingInfo{Authority: s, BaseDenom: "ueden", VestingDenom: ELYS, NumBlocks: 100, VestNowFactor: 90, NumMaxVestings: 10}
		},
		"/elys.commitment.MsgUpdateEnableVestNow": func(s string) sdk.Msg {
			return &committypes.MsgUpdateEnableVestNow{Authority: s, EnableVestNow: true}
		},
		"/elys.leveragelp.MsgWhitelist": func(s string) sdk.Msg {
			return &levtypes.MsgWhitelist{Authority: s, WhitelistedAddress: u}
		},
		"/elys.leveragelp.MsgDewhitelist": func(s string) sdk.Msg {
			return &levtypes.MsgDewhitelist{Authority: s, WhitelistedAddress: u}
		},
		"/elys.leveragelp.MsgAddPool": func(s string) sdk.Msg {
			return &levtypes.MsgAddPool{Authority: s, Pool: levtypes.AddPool{AmmPoolId: d.poolNew, LeverageMax: dec("5")}}
		},
		"/elys.leveragelp.MsgRemovePool": func(s string) sdk.Msg {
			return &levtypes.MsgRemovePool{Authority: s, Id: d.poolEmpty}
		},
		"/elys.masterchef.MsgAddExternalRewardDenom": func(s string) sdk.Msg {
			return &mctypes.MsgAddExternalRewardDenom{Authority: s, RewardDenom: ATOM, MinAmount: I(1), Supported: true}
		},
		"/elys.masterchef.MsgUpdatePoolMultipliers": func(s string) sdk.Msg {
			return &mctypes.MsgUpdatePoolMultipliers{Authority: s, PoolMultipliers: []mctypes.PoolMultiplier{{PoolId: m.CPPool, Multiplier: dec("2")}}}
		},
		"/elys.masterchef.MsgTogglePoolEdenRewards": func(s string) sdk.Msg {
			return &mctypes.MsgTogglePoolEdenRewards{Authority: s, PoolId: m.CPPool, Enable: true}
		},
		"/elys.oracle.MsgRemoveAssetInfo": func(s string) sdk.Msg {
			return &oracletypes.MsgRemoveAssetInfo{Authority: s, Denom: ELYS}
		},
		"/elys.oracle.MsgAddPriceFeeders": func(s string) sdk.Msg {
			return &oracletypes.MsgAddPriceFeeders{Authority: s, Feeders: []string{u}}
		},
		"/elys.oracle.MsgRemovePriceFeeders": func(s string) sdk.Msg {
			return &oracletypes.MsgRemovePriceFeeders{Authority: s, Feeders: []string{m.Provider.String()}}
		},
		"/elys.perpetual.MsgWhitelist": func(s string) sdk.Msg {
			return &perptypes.MsgWhitelist{Authority: s, WhitelistedAddress: u}
		},
		"/elys.perpetual.MsgDewhitelist": func(s string) sdk.Msg {
			return &perptypes.MsgDewhitelist{Authority: s, WhitelistedAddress: u}
		},
		"/elys.tokenomics.MsgCreateAirdrop": func(s string) sdk.Msg {
			return &tokentypes.MsgCreateAirdrop{Authority: s, Intent: "c17-new", Amount: 5, Expiry: 1 << 40}
		},
		"/elys.tokenomics.MsgUpdateAirdrop": func(s string) sdk.Msg {
			return &tokentypes.MsgUpdateAirdrop{Authority: s, Intent: c17Intent, Amount: 7, Expiry: 1 << 40}
		},
		"/elys.tokenomics.MsgDeleteAirdrop": func(s string) sdk.Msg {
			return &tokentypes.MsgDeleteAirdrop{Authority: s, Intent: c17Intent}
		},
		"/elys.tokenomics.MsgUpdateGenesisInflation": func(s string) sdk.Msg {
			return &tokentypes.MsgUpdateGenesisInflation{Authority: s, Inflation: &tokentypes.InflationEntry{LmRewards: 1, IcsStakingRewards: 1, CommunityFund: 1, StrategicReserve: 1, TeamTokensVested: 1}, SeedVesting: 1, StrategicSalesVesting: 1}
		},
		"/elys.tokenomics.MsgCreateTimeBasedInflation": func(s string) sdk.Msg {
			return &tokentypes.MsgCreateTimeBasedInflation{Authority: s, StartBlockHeight: 500, EndBlockHeight: 600, Description: "d", Inflation: &tokentypes.InflationEntry{LmRewards: 1, IcsStakingRewards: 1, CommunityFund: 1, StrategicReserve: 1, TeamTokensVested: 1}}
		},
		"/elys.tokenomics.MsgUpdateTimeBasedInflation": func(s string) sdk.Msg {
			return &tokentypes.MsgUpdateTimeBasedInflation{Authority: s, StartBlockHeight: 100, EndBlockHeight: 200, Description: "e", Inflation: &tokentypes.InflationEntry{LmRewards: 2, IcsStakingRewards: 1, CommunityFund: 1, StrategicReserve: 1, TeamTokensVested: 1}}
		},
		"/elys.tokenomics.MsgDeleteTimeBasedInflation": func(s string) sdk.Msg {
			return &tokentypes.MsgDeleteTimeBasedInflation{Authority: s, StartBlockHeight: 100, EndBlockHeight: 200}
		},
	}
}

// ---------------------------------------------------------------- the test

func TestC17(t *testing.T) {
	seed := envInt("VERIF_SEED", 1)
	col := NewCollector("C17", seed)
	w := NewWorld(t)
	m := NewMarket(w, DefaultMarketOpts())
	d := &c17Driver{t: t, w: w, m: m, col: col, table: c17LoadTable(t)}
	d.initKeys()
	m.RefreshPrices()
	if err := w.EndBlock(5); err != nil {
		t.Fatalf("block: %v", err)
	}
	m.RefreshPrices()
	d.cur = d.hash(w.Ctx().MultiStore())
	viol := func(sig, detail string, replay interface{}) {
		col.Violate(Violation{Signature: sig, Detail: detail, History: 0, Step: d.nCase, Replay: replay})
	}

	// ---- 1. router vs translator table
	reg := w.App.InterfaceRegistry()
	var urls []string
	for _, u := range reg.ListImplementations(sdk.MsgInterfaceProtoName) {
		if strings.HasPrefix(u, "/elys.") {
			urls = append(urls, u)
		}
	}
	sort.Strings(urls)
	types := map[string]reflect.Type{}
	var missingInTable, missingInRouter, authDiff, signerDiff, noHandler []string
	for _, u := range urls {
		pm, err := reg.Resolve(u)
		if err != nil {
			t.Fatalf("resolve %s: %v", u, err)
		}
		rt := reflect.TypeOf(pm).Elem()
		types[u] = rt
		h, ok := d.table[u]
		if !ok {
			missingInTable = append(missingInTable, u)
			continue
		}
		_, hasAuth := rt.FieldByName("Authority")
		if hasAuth != h.HasAuthority {
			authDiff = append(authDiff, u)
		}
		// signer column against the real codec
		probe := Addr(777).String()
		msg, v := c17New(rt)
		sf := v.FieldByName(h.Signer)
		if h.Signer == "" || !sf.IsValid() || sf.Kind() != reflect.String {
			signerDiff = append(signerDiff, u+" (no signer field in table)")
		} else {
			sf.SetString(probe)
			signers, _, err := w.App.AppCodec().GetMsgV1Signers(msg)
			if err != nil || len(signers) != 1 || sdk.AccAddress(signers[0]).String() != probe {
				signerDiff = append(signerDiff, fmt.Sprintf("%s (table %s, codec err=%v n=%d)", u, h.Signer, err, len(signers)))
			}
		}
		if w.App.MsgServiceRouter().Handler(msg) == nil {
			noHandler = append(noHandler, u)
		}
		col.ImplCheck(3)
	}
	for u := range d.table {
		if _, ok := types[u]; !ok {
			missingInRouter = append(missingInRouter, u)
		}
	}
	sort.Strings(missingInRouter)
	if len(missingInTable)+len(missingInRouter) > 0 {
		viol("C17_router-vs-translator-set-difference", fmt.Sprintf("registered but not in the translator's table: %v; in the table but not registered: %v", missingInTable, missingInRouter), nil)
	}
	if len(authDiff) > 0 {
		viol("C17_authority-field-set-difference", fmt.Sprintf("Authority field differs between the registered Go struct and the translator's table: %v", authDiff), nil)
	}
	if len(signerDiff) > 0 {
		viol("C17_signer-field-difference", fmt.Sprintf("signer per codec.GetMsgV1Signers differs from the translator's table: %v", signerDiff), nil)
	}
	if len(noHandler) > 0 {
		viol("C17_registered-msg-without-handler", fmt.Sprintf("%v", noHandler), nil)
	}

	// ---- 2. fixture objects (every delivery is also a model case)
	u1, u2, u3, u4 := m.User(1), m.User(2), m.User(3), m.User(4)
	ctx := w.Ctx()
	w.App.AssetprofileKeeper.SetEntry(ctx, aptypes.Entry{BaseDenom: c17TestDenom, Denom: c17TestDenom, Decimals: 6, Authority: w.Gov})
	w.App.TokenomicsKeeper.SetTimeBasedInflation(ctx, tokentypes.TimeBasedInflation{StartBlockHeight: 100, EndBlockHeight: 200, Description: "x", Authority: w.Gov,
		Inflation: &tokentypes.InflationEntry{LmRewards: 1, IcsStakingRewards: 1, CommunityFund: 1, StrategicReserve: 1, TeamTokensVested: 1}})
	d.cur = d.hash(w.Ctx().MultiStore())
	d.fixture("airdrop", &tokentypes.MsgCreateAirdrop{Authority: w.Gov, Intent: c17Intent, Amount: 5, Expiry: 1 << 40}, true)
	d.fixture("airdrop for u2", &tokentypes.MsgCreateAirdrop{Authority: w.Gov, Intent: u2, Amount: 5, Expiry: 1 << 40}, true)
	d.fixture("swap", &ammtypes.MsgSwapExactAmountIn{Sender: u1, Routes: []ammtypes.SwapAmountInRoute{{PoolId: m.CPPool, TokenOutDenom: ELYS}}, TokenIn: sdk.NewCoin(USDC, I(1_000_000)), TokenOutMinAmount: I(1), Recipient: u1}, false)
	d.fixture("join", &ammtypes.MsgJoinPool{Sender: u2, PoolId: m.CPPool, MaxAmountsIn: sdk.NewCoins(sdk.NewCoin(USDC, I(3_000_000)), sdk.NewCoin(ELYS, I(1_000_000))), ShareAmountOut: I(1_000_000_000_000)}, false)
	d.fixture("lev open", &levtypes.MsgOpen{Creator: u3, CollateralAsset: USDC, CollateralAmount: I(10_000_000), AmmPoolId: m.OraclePool, Leverage: dec("3"), StopLossPrice: dec("0")}, false)
	d.fixture("perp open", &perptypes.MsgOpen{Creator: u4, Position: perptypes.Position_LONG, Leverage: dec("3"), TradingAsset: ATOM, Collateral: sdk.NewCoin(USDC, I(10_000_000)), TakeProfitPrice: dec("20"), StopLossPrice: dec("0"), PoolId: m.OraclePool}, false)
	d.fixture("spot order", &tstypes.MsgCreateSpotOrder{OwnerAddress: u1, OrderType: tstypes.SpotOrderType_LIMITBUY,
		OrderPrice: tstypes.OrderPrice{BaseDenom: USDC, QuoteDenom: ATOM, Rate: dec("1")}, OrderAmount: sdk.NewCoin(USDC, I(1_000_000)), OrderTargetDenom: ATOM}, false)
	d.fixture("perp order", &tstypes.MsgCreatePerpetualOpenOrder{OwnerAddress: u1, TriggerPrice: tstypes.TriggerPrice{TradingAssetDenom: ATOM, Rate: dec("4")},
		Collateral: sdk.NewCoin(USDC, I(5_000_000)), TradingAsset: ATOM, Position: tstypes.PerpetualPosition_LONG, Leverage: dec("2"),
		TakeProfitPrice: dec("12"), StopLossPrice: dec("0"), PoolId: m.OraclePool}, false)
	// a second owner's pending orders: batch cancels from that owner can then MIX own and foreign ids
	d.fixture("spot order (second owner)", &tstypes.MsgCreateSpotOrder{OwnerAddress: u2, OrderType: tstypes.SpotOrderType_LIMITBUY,
		OrderPrice: tstypes.OrderPrice{BaseDenom: USDC, QuoteDenom: ATOM, Rate: dec("1")}, OrderAmount: sdk.NewCoin(USDC, I(1_000_000)), OrderTargetDenom: ATOM}, false)
	d.fixture("perp order (second owner)", &tstypes.MsgCreatePerpetualOpenOrder{OwnerAddress: u2, TriggerPrice: tstypes.TriggerPrice{TradingAssetDenom: ATOM, Rate: dec("4")},
		Collateral: sdk.NewCoin(USDC, I(5_000_000)), TradingAsset: ATOM, Position: tstypes.PerpetualPosition_LONG, Leverage: dec("2"),
		TakeProfitPrice: dec("12"), StopLossPrice: dec("0"), PoolId: m.OraclePool}, false)
	d.fixture("swap out", &ammtypes.MsgSwapExactAmountOut{Sender: u2, Routes: []ammtypes.SwapAmountOutRoute{{PoolId: m.OraclePool, TokenInDenom: ATOM}}, TokenOut: sdk.NewCoin(USDC, I(5_000_000)), TokenInMaxAmount: I(5_000_000), Recipient: u2}, false)
	d.fixture("bond", &sstypes.MsgBond{Creator: u1, Amount: I(1_000_000)}, false)
	d.fixture("unbond", &sstypes.MsgUnbond{Creator: u1, Amount: I(500_000)}, false)
	d.fixture("add entry (ordinary user)", &aptypes.MsgAddEntry{Creator: u2, BaseDenom: "uc17fixture", Denom: "uc17fixture", Decimals: 6}, false)
	d.fixture("create asset info (ordinary user)", &oracletypes.MsgCreateAssetInfo{Creator: u2, Denom: "uc17fixture", Display: "C17", BandTicker: "C17", ElysTicker: "C17", Decimal: 6}, false)
	// two more oracle pools: one that leveragelp does not know yet (AddPool payload), one enabled and empty (RemovePool payload)
	mkPool := func() uint64 {
		assets := []ammtypes.PoolAsset{
			{Token: sdk.NewCoin(ATOM, I(1_000_000_000)), Weight: I(10), ExternalLiquidityRatio: dec("1")},
			{Token: sdk.NewCoin(USDC, I(5_000_000_000)), Weight: I(10), ExternalLiquidityRatio: dec("1")},
		}
		d.fixture("create pool", &ammtypes.MsgCreatePool{Sender: m.User(0), PoolParams: ammtypes.PoolParams{SwapFee: dec("0.003"), UseOracle: true, FeeDenom: USDC}, PoolAssets: assets}, false)
		ps := w.App.AmmKeeper.GetAllPool(w.QCtx())
		return ps[len(ps)-1].PoolId
	}
	d.poolNew = mkPool()
	d.poolEmpty = mkPool()
	d.fixture("leveragelp add pool", &levtypes.MsgAddPool{Authority: w.Gov, Pool: levtypes.AddPool{AmmPoolId: d.poolEmpty, LeverageMax: dec("5")}}, true)
	// an external incentive on the leverage-enabled pool: the position account of the leveragelp position earns rewards
	d.fixture("external reward denom", &mctypes.MsgAddExternalRewardDenom{Authority: w.Gov, RewardDenom: ATOM, MinAmount: I(1), Supported: true}, true)
	d.fixture("external incentive", &mctypes.MsgAddExternalIncentive{Sender: m.User(0), RewardDenom: ATOM, PoolId: m.OraclePool, FromBlock: w.Ctx().BlockHeight(), ToBlock: w.Ctx().BlockHeight() + 100000, AmountPerBlock: I(1_000_000)}, false)
	// past the one-hour lock of freshly committed LP shares, so that the owner's own close is accepted
	if err := w.EndBlock(3700); err != nil {
		t.Fatalf("block: %v", err)
	}
	m.RefreshPrices()
	for i := 0; i < 3; i++ { // a few more blocks of reward distribution
		if err := w.EndBlock(5); err != nil {
			t.Fatalf("block: %v", err)
		}
		m.RefreshPrices()
	}
	d.cur = d.hash(w.Ctx().MultiStore())
	base := d.cur

	// ---- 3. governance-only sweep
	modAcc := authtypes.NewModuleAddress("masterchef").String()
	type stranger struct {
		class, addr string
		sameAccount bool // another spelling of the authority's own account: recorded, never a violation
	}
	strangers := []stranger{
		{"user", u2, false}, {"module-account", modAcc, false}, {"zero-address", sdk.AccAddress(make([]byte, 20)).String(), false},
		{"empty", "", false}, {"garbage", "not-a-bech32-address", false},
	}
	// more signers from the PRNG: fresh random accounts (20 and 32 byte), other module accounts, the
	// validator operator, the authority's address re-encoded (upper case / other prefix) - all are
	// different STRINGS from the authority and none is the governance account
	rng := NewRng(uint64(seed), 17)
	nRandom, nModules := 2, 3
	if tier() == "thorough" {
		nRandom, nModules = 12, 1000
	}
	for i := 0; i < nRandom; i++ {
		n := 20
		if rng.Chance(30) {
			n = 32
		}
		b := make([]byte, n)
		for j := range b {
			b[j] = byte(rng.Next())
		}
		strangers = append(strangers, stranger{"random-account", sdk.AccAddress(b).String(), false})
	}
	var mods []string
	for a := range w.App.ModuleAccountAddrs() {
		if a != w.Gov {
			mods = append(mods, a)
		}
	}
	sort.Strings(mods)
	for i := 0; i < nModules && len(mods) > 0; i++ {
		k := rng.Intn(len(mods))
		strangers = append(strangers, stranger{"module-account", mods[k], false})
		mods = append(mods[:k], mods[k+1:]...)
	}
	govBytes := sdk.MustAccAddressFromBech32(w.Gov)
	strangers = append(strangers, stranger{"authority-uppercase", strings.ToUpper(w.Gov), true})
	if other, err := sdk.Bech32ifyAddressBytes("other", govBytes); err == nil {
		strangers = append(strangers, stranger{"authority-other-prefix", other, true})
	}
	flipped := append([]byte{}, govBytes...)
	flipped[len(flipped)-1] ^= 1
	strangers = append(strangers, stranger{"authority-last-bit-flipped", sdk.AccAddress(flipped).String(), false})
	var govTypes, discriminated, govRejectedAll, unguardedAccepted []string
	payloadOrder := []string{"handmade", "current-params", "generic", "zero"}
	for _, u := range urls {
		h, ok := d.table[u]
		if !ok || !h.govOnly() {
			continue
		}
		rt := types[u]
		if sf, ok := rt.FieldByName(h.Signer); !ok || sf.Type.Kind() != reflect.String {
			continue // reported above
		}
		govTypes = append(govTypes, u)
		short := strings.TrimPrefix(u, "/elys.")
		ps := d.payloads(u, rt, h.Signer)
		govAccepted := false
		for _, pn := range payloadOrder {
			mk, ok := ps[pn]
			if !ok {
				continue
			}
			// from the authority (never committed): tells how far the payload gets
			gr := d.deliver(mk(w.Gov), false)
			d.addCase(u, true, true, gr)
			col.Op("gov:"+short, gr.Kind, nil)
			if gr.Kind == "ok" {
				govAccepted = true
			} else if pn == "handmade" {
				t.Logf("authority not accepted: %s payload %s: %v %v", short, pn, gr.Err, gr.Panic)
			}
			for _, s := range strangers {
				msg := mk(s.addr)
				r := d.deliver(msg, false)
				if s.sameAccount {
					col.Op("authority-respelled:"+short, r.Kind, nil)
					continue
				}
				d.addCase(u, false, true, r)
				col.ImplCheck(1)
				res := r.Kind
				if r.VB {
					res = "err-validate-basic"
				}
				col.Op("stranger:"+short, res, nil)
				col.Distinct(fmt.Sprintf("%s|%s|%s|%s|gov=%s", short, s.class, pn, res, gr.Kind), gr.Kind == "ok" && !r.VB)
				if r.Kind == "ok" || r.Changed {
					unguardedAccepted = append(unguardedAccepted, short)
					js, _ := json.Marshal(msg)
					sig := "C17_gov-only-accepted-from-non-authority:"
					if r.Kind != "ok" {
						sig = "C17_gov-only-writes-before-rejecting-non-authority:"
					}
					viol(sig+short,
						fmt.Sprintf("%s signed by %s (%q), payload %s: result=%s err=%v, stores changed on the handler's branch=%v", short, s.class, s.addr, pn, r.Kind, r.Err, r.Changed),
						map[string]interface{}{"type_url": u, "signer_class": s.class, "payload": pn, "msg": json.RawMessage(js)})
				}
			}
		}
		if govAccepted {
			discriminated = append(discriminated, short)
		} else {
			govRejectedAll = append(govRejectedAll, short)
		}
	}
	if d.cur != base || d.hash(w.Ctx().MultiStore()) != base {
		viol("C17_root-store-changed-during-sweep", "the root multistore changed although nothing was committed", nil)
	}

	// ---- 4. owner-scoped messages against the fixture objects
	qctx := w.QCtx()
	type ownerCase struct {
		name  string
		owner string
		mk    func(signer string) sdk.Msg
	}
	// batches that also name objects of the signer: those may be written before the foreign id is refused; the tx fails as a whole
	mixedCase := map[int]bool{}
	var ocs []ownerCase
	for _, o := range w.App.TradeshieldKeeper.GetAllPendingSpotOrder(qctx) {
		o := o
		ocs = append(ocs,
			ownerCase{"tradeshield.MsgUpdateSpotOrder", o.OwnerAddress, func(s string) sdk.Msg {
				return &tstypes.MsgUpdateSpotOrder{OwnerAddress: s, OrderId: o.OrderId, OrderPrice: tstypes.OrderPrice{BaseDenom: USDC, QuoteDenom: ATOM, Rate: dec("2")}}
			}},
			ownerCase{"tradeshield.MsgCancelSpotOrder", o.OwnerAddress, func(s string) sdk.Msg {
				return &tstypes.MsgCancelSpotOrder{OwnerAddress: s, OrderId: o.OrderId}
			}},
			ownerCase{"tradeshield.MsgCancelSpotOrders", o.OwnerAddress, func(s string) sdk.Msg {
				return &tstypes.MsgCancelSpotOrders{Creator: s, SpotOrderIds: []uint64{o.OrderId}}
			}})
	}
	// batch cancels that MIX the signer's own ids with a foreign one, the foreign id last and first: an owner check made
	// on part of the list only (first element, or hoisted out of the loop) is invisible to single-id batches
	spotOf := map[string][]uint64{}
	for _, o := range w.App.TradeshieldKeeper.GetAllPendingSpotOrder(qctx) {
		spotOf[o.OwnerAddress] = append(spotOf[o.OwnerAddress], o.OrderId)
	}
	perpOf := map[string][]uint64{}
	for _, o := range w.App.TradeshieldKeeper.GetAllPendingPerpetualOrder(qctx) {
		perpOf[o.OwnerAddress] = append(perpOf[o.OwnerAddress], o.OrderId)
	}
	mix := func(own []uint64, foreign uint64, foreignFirst bool) []uint64 {
		if foreignFirst {
			return append([]uint64{foreign}, own...)
		}
		return append(append([]uint64{}, own...), foreign)
	}
	for _, o := range w.App.TradeshieldKeeper.GetAllPendingSpotOrder(qctx) {
		o := o
		for _, ff := range []bool{false, true} {
			ff := ff
			mixedCase[len(ocs)] = true
			ocs = append(ocs, ownerCase{"tradeshield.MsgCancelSpotOrders", o.OwnerAddress, func(s string) sdk.Msg {
				if s == o.OwnerAddress {
					return &tstypes.MsgCancelSpotOrders{Creator: s, SpotOrderIds: []uint64{o.OrderId}}
				}
				return &tstypes.MsgCancelSpotOrders{Creator: s, SpotOrderIds: mix(spotOf[s], o.OrderId, ff)}
			}})
		}
	}
	for _, o := range w.App.TradeshieldKeeper.GetAllPendingPerpetualOrder(qctx) {
		o := o
		for _, ff := range []bool{false, true} {
			ff := ff
			mixedCase[len(ocs)] = true
			ocs = append(ocs, ownerCase{"tradeshield.MsgCancelPerpetualOrders", o.OwnerAddress, func(s string) sdk.Msg {
				if s == o.OwnerAddress {
					return &tstypes.MsgCancelPerpetualOrders{OwnerAddress: s, OrderIds: []uint64{o.OrderId}}
				}
				return &tstypes.MsgCancelPerpetualOrders{OwnerAddress: s, OrderIds: mix(perpOf[s], o.OrderId, ff)}
			}})
		}
	}
	for _, o := range w.App.TradeshieldKeeper.GetAllPendingPerpetualOrder(qctx) {
		o := o
		ocs = append(ocs,
			ownerCase{"tradeshield.MsgUpdatePerpetualOrder", o.OwnerAddress, func(s string) sdk.Msg {
				return &tstypes.MsgUpdatePerpetualOrder{OwnerAddress: s, OrderId: o.OrderId, TriggerPrice: tstypes.TriggerPrice{TradingAssetDenom: ATOM, Rate: dec("4.5")}}
			}},
			ownerCase{"tradeshield.MsgCancelPerpetualOrder", o.OwnerAddress, func(s string) sdk.Msg {
				return &tstypes.MsgCancelPerpetualOrder{OwnerAddress: s, OrderId: o.OrderId}
			}},
			ownerCase{"tradeshield.MsgCancelPerpetualOrders", o.OwnerAddress, func(s string) sdk.Msg {
				return &tstypes.MsgCancelPerpetualOrders{OwnerAddress: s, OrderIds: []uint64{o.OrderId}}
			}})
	}
	for _, p := range w.App.LeveragelpKeeper.GetAllPositions(qctx) {
		p := p
		ocs = append(ocs,
			ownerCase{"leveragelp.MsgClose", p.Address, func(s string) sdk.Msg {
				return &levtypes.MsgClose{Creator: s, Id: p.Id, LpAmount: p.LeveragedLpAmount.QuoRaw(2)}
			}},
			ownerCase{"leveragelp.MsgUpdateStopLoss", p.Address, func(s string) sdk.Msg {
				return &levtypes.MsgUpdateStopLoss{Creator: s, Position: p.Id, Price: dec("0.5")}
			}})
	}
	for _, p := range w.App.PerpetualKeeper.GetAllMTPs(qctx) {
		p := p
		ocs = append(ocs,
			ownerCase{"perpetual.MsgClose", p.Address, func(s string) sdk.Msg {
				return &perptypes.MsgClose{Creator: s, Id: p.Id, Amount: p.Custody.QuoRaw(2)}
			}},
			ownerCase{"perpetual.MsgUpdateStopLoss", p.Address, func(s string) sdk.Msg {
				return &perptypes.MsgUpdateStopLoss{Creator: s, Id: p.Id, Price: dec("4")}
			}},
			ownerCase{"perpetual.MsgUpdateTakeProfitPrice", p.Address, func(s string) sdk.Msg {
				return &perptypes.MsgUpdateTakeProfitPrice{Creator: s, Id: p.Id, Price: dec("15")}
			}})
	}
	// the airdrop stored under intent = u2's address belongs to the governance authority
	ocs = append(ocs, ownerCase{"tokenomics.MsgClaimAirdrop", w.Gov, func(s string) sdk.Msg { return &tokentypes.MsgClaimAirdrop{Sender: s} }})
	ownerAccepted := 0
	var ownerKinds []string
	for oi, oc := range ocs {
		url := "/elys." + oc.name
		or := d.deliver(oc.mk(oc.owner), false)
		if oc.name != "tokenomics.MsgClaimAirdrop" { // there the owner (gov) has no airdrop under its own key
			d.addCase(url, false, true, or)
			col.Op("owner:"+oc.name, or.Kind, nil)
		}
		if or.Kind == "ok" {
			ownerAccepted++
		} else {
			t.Logf("owner not accepted: %s: %v %v", oc.name, or.Err, or.Panic)
		}
		ownerKinds = append(ownerKinds, oc.name+"="+or.Kind)
		for _, s := range []struct{ class, addr string }{{"other-user", u2}, {"other-user", u1}, {"module-account", modAcc}, {"gov", w.Gov}} {
			if s.addr == oc.owner {
				continue
			}
			msg := oc.mk(s.addr)
			r := d.deliver(msg, false)
			d.addCase(url, s.addr == w.Gov, false, r)
			col.ImplCheck(1)
			col.Op("non-owner:"+oc.name, r.Kind, nil)
			col.Distinct(fmt.Sprintf("%s|%s|%s|owner=%s", oc.name, s.class, r.Kind, or.Kind), or.Kind == "ok")
			if r.Kind == "ok" || (r.Changed && !mixedCase[oi]) {
				js, _ := json.Marshal(msg)
				sig := "C17_owner-scoped-accepted-from-non-owner:"
				if r.Kind != "ok" {
					sig = "C17_owner-scoped-writes-before-rejecting-non-owner:"
				}
				viol(sig+oc.name,
					fmt.Sprintf("%s on an object of %s signed by %s (%s): result=%s err=%v, stores changed on the handler's branch=%v", oc.name, oc.owner, s.class, s.addr, r.Kind, r.Err, r.Changed),
					map[string]interface{}{"type_url": url, "owner": oc.owner, "signer_class": s.class, "msg": json.RawMessage(js)})
			}
		}
	}
	if len(ocs) < 12 {
		viol("C17_fixture-incomplete", fmt.Sprintf("only %d owner-scoped cases could be built from the fixture (%v)", len(ocs), ownerKinds), nil)
	}
	if d.hash(w.Ctx().MultiStore()) != base {
		viol("C17_root-store-changed-during-sweep", "the root multistore changed although nothing was committed", nil)
	}

	// ---- 4b. owner-flow sweep (harness/c17_owner_test.go): an attacker against every live foreign object, cases for Run/OwnerFlowRun.v
	ocases := d.c17OwnerFlowSweep(types, viol)

	// ---- 5. informational: messages that write module-wide configuration without any authority check
	var open []string
	for _, u := range urls {
		h := d.table[u]
		if h.govOnly() {
			continue
		}
		guard := false
		for _, s := range h.Skel {
			if s.Kind == "GuardOwner" || s.Kind == "KeyedLookup" {
				guard = true
			}
		}
		if !guard && (strings.HasPrefix(h.Method, "Add") || strings.HasPrefix(h.Method, "Create") || strings.HasPrefix(h.Method, "Update") || strings.HasPrefix(h.Method, "Set") || strings.HasPrefix(h.Method, "Delete") || strings.HasPrefix(h.Method, "Remove")) {
			open = append(open, h.Module+"."+h.Method)
		}
	}
	ar := d.deliver(&aptypes.MsgAddEntry{Creator: u2, BaseDenom: "uc17listing", Denom: "uc17listing", Decimals: 6, CommitEnabled: true, WithdrawEnabled: true}, false)
	col.Op("info:assetprofile.MsgAddEntry-from-user", ar.Kind, nil)

	col.Extra("router_elys_msg_types", len(urls))
	col.Extra("table_handlers", len(d.table))
	col.Extra("gov_only_types", len(govTypes))
	col.Extra("gov_only_types_with_payload_accepted_from_authority", discriminated)
	col.Extra("gov_only_types_rejected_for_other_reasons_even_from_authority", govRejectedAll)
	col.Extra("owner_scoped_cases", ownerKinds)
	col.Extra("owner_accepted", ownerAccepted)
	col.Extra("store_entries_hashed_per_delivery", d.nKeys)
	col.Extra("stores", len(d.keys))
	col.Extra("info_unguarded_config_like_methods_without_authority_field", open)
	col.Extra("info_assetprofile_AddEntry_from_ordinary_user", fmt.Sprintf("%s changed=%v", ar.Kind, ar.Changed))
	col.Sample(map[string]interface{}{"gov_only_types": govTypes, "strangers": strangers})
	t.Logf("router %d elys msg types, table %d, gov-only %d (authority accepted for %d), owner cases %d (owner accepted %d), %d store entries, %d deliveries",
		len(urls), len(d.table), len(govTypes), len(discriminated), len(ocs), ownerAccepted, d.nKeys, d.nCase)
	t.Logf("authority rejected for other reasons: %v", govRejectedAll)
	t.Logf("owner cases: %v", ownerKinds)
	t.Logf("AddEntry from ordinary user: %s changed=%v; unguarded config-like: %v", ar.Kind, ar.Changed, open)

	col.Case(0, strings.Join(d.cases, ";\n"))
	header := "From Coq Require Import ZArith String List Bool.\nFrom Elys Require Import Base.Res Models.Authority Generated.Handlers Run.AuthorityRun.\nFrom Elys Require Import Models.OwnerFlow Generated.OwnerFlow Run.OwnerFlowRun.\nImport ListNotations.\nOpen Scope string_scope.\nOpen Scope Z_scope.\n"
	footer := "Definition ocases := [\n" + ocases + "\n].\nDefinition M := Eval vm_compute in (mismatches cases ++ omismatches ocases)%list.\nPrint M.\n"
	col.Finish(t, 1, header, footer, 1)
}
