package harness

// C20 driver: x/tradeshield on the REAL application, driven through the production messages
// (create / update / cancel / batch cancel of spot and perpetual limit orders, MsgExecuteOrders from
// owners and third parties, bank sends to escrow accounts) interleaved with oracle price moves that
// cross the trigger prices, missing prices, and real blocks (queued swaps settle in the AMM end blocker).
// After every transaction it
//   (a) evaluates the property's own predicates on the implementation, independently of the Coq model:
//       owner wallet + escrows of the owner's pending orders conserved unless one of the owner's orders
//       was executed; cancel returns the whole escrow; non-owner update/cancel rejected without any
//       change; an order whose trigger is not met is untouched by an execute request; blocks never
//       touch escrows or pending orders;
//   (b) emits the step (with the market price the keeper reads and the result + committed bank transfers
//       of the inner amm / perpetual call, resolved by running each order attempt on a scratch branch)
//       for the exact comparison with coq/Models/Shield.v (Run/ShieldRun.v, vm_compute).
// c20Fixed selects the model the real code is compared with: true since fix: 8bfd5d3; false = the code before it (ExecuteOrders
// swallows the inner error without a cache context), true = repaired (each attempt on a cache context).

import (
	"fmt"
	"math/big"
	"runtime/debug"
	"sort"
	"strings"
	"testing"

	sdkmath "cosmossdk.io/math"
	abci "github.com/cometbft/cometbft/abci/types"
	sdk "github.com/cosmos/cosmos-sdk/types"
	banktypes "github.com/cosmos/cosmos-sdk/x/bank/types"

	perptypes "github.com/elys-network/elys/x/perpetual/types"
	tstypes "github.com/elys-network/elys/x/tradeshield/types"
)

const c20Fixed = true

// c20PriceFixed selects the market-price model the keeper's value is compared with (Models/ShieldPrice.v price_gen): false = the code before
// fix: 12bba76 (USD value of one base unit of each side, then the quotient); true = the code as it is in /repo since that commit (one
// division of the whole-token prices). Finding: C20:executed-without-trigger:market-price-rounded-per-base-unit (known_findings.json, fixed).
const c20PriceFixed = true

var c20Denoms = []string{USDC, ATOM, ELYS, WETH} // WETH (18 decimals) exists on markets built with Extra18 only

const c20Users = 4 // model users 0..3 = market users 1..4

type c20Op struct {
	Op   string `json:"op"`
	U    int    `json:"u"`              // sender / owner (model user index)
	Typ  int    `json:"typ,omitempty"`  // spot order type / perp position
	Pair int    `json:"pair,omitempty"` // spot: index into c20Pairs
	Den  int    `json:"den,omitempty"`  // spot: 0 = base denom, 1 = quote denom, 2 = third ; perp: collateral 0 usdc 1 atom
	Tgt  int    `json:"tgt,omitempty"`  // spot: 0 target = quote, 1 = something else
	Rate int    `json:"rate,omitempty"` // trigger relative to the market price (c20Rate)
	Amt  string `json:"amt,omitempty"`  // "rel:k" or absolute
	Lev  string `json:"lev,omitempty"`
	Pool int    `json:"pool,omitempty"` // 0 valid, 1 unknown pool
	Idx  []int  `json:"idx,omitempty"`  // selectors of pending orders (negative: bogus ids)
	Own  bool   `json:"own,omitempty"`  // send as the owner of the first selected order
	Kind int    `json:"kind,omitempty"` // price/send: 0 spot order, 1 perp order
	Off  int    `json:"off,omitempty"`  // price_to: -1 just below, 0 at, +1 just above
	D    int    `json:"d,omitempty"`    // denom index
	P    string `json:"p,omitempty"`    // price factor
	N    int64  `json:"n,omitempty"`
	DT   int64  `json:"dt,omitempty"`
	Idx2 []int  `json:"idx2,omitempty"` // execute: perpetual order selectors
	Ast  int    `json:"ast,omitempty"`  // perp: trading asset 0 = uatom (pool 1), 1 = aweth (pool 2, 18 decimals)
	Sc   int    `json:"sc,omitempty"`   // 1: an absolute amount of an 18-decimals denom is multiplied by 10^12 (same whole-token size as for 6 decimals)
	RAbs string `json:"rabs,omitempty"` // spot_create: absolute order rate (overrides Rate); price_abs: the oracle price to feed
}

type c20Hist struct {
	ID    int     `json:"id"`
	Plain bool    `json:"plain,omitempty"` // market without the 18-decimals asset aweth and its pool
	Ops   []c20Op `json:"ops"`
}

var c20Pairs = [][2]string{{ATOM, USDC}, {USDC, ATOM}, {ELYS, USDC}, {USDC, ELYS}, {ATOM, ELYS},
	{WETH, USDC}, {USDC, WETH}, {WETH, ATOM}, {ATOM, WETH}} // mixed decimals: the price of one base unit is off 1 by 10^-+12

// c20Plain: every fourth generated history runs on the market without aweth (pairs naming it have no price there)
func c20Plain(id int) bool { return id%4 == 3 }

func c20Gen(r *Rng, id int) c20Hist {
	h := c20Hist{ID: id, Plain: c20Plain(id)}
	n := 34 + r.Intn(26)
	rel := func() string {
		if r.Chance(25) {
			return r.Decade(0, 12).String()
		}
		return fmt.Sprintf("rel:%d", r.Intn(9))
	}
	sel := func(k int) []int {
		var v []int
		for i := 0; i < k; i++ {
			if r.Chance(8) {
				v = append(v, -1-r.Intn(3))
			} else {
				v = append(v, r.Intn(6))
			}
		}
		return v
	}
	for k := 0; k < n; k++ {
		u := r.Intn(c20Users)
		x := r.Intn(100)
		switch {
		case x < 15:
			typ := r.Intn(3)
			if r.Chance(8) {
				typ = 3
			}
			o := c20Op{Op: "spot_create", U: u, Typ: typ, Pair: r.Intn(len(c20Pairs)), Rate: r.Intn(7), Amt: rel()}
			if r.Chance(70) {
				o.Sc = 1
			}
			if r.Chance(10) {
				o.Den = 1 + r.Intn(2)
			}
			if r.Chance(10) {
				o.Tgt = 1
			}
			h.Ops = append(h.Ops, o)
			if r.Chance(40) { // try the new order at once, from the owner or a third party
				h.Ops = append(h.Ops, c20Op{Op: "execute", U: r.Intn(c20Users), Idx: []int{99}})
			}
		case x < 27:
			o := c20Op{Op: "perp_create", U: u, Typ: 1 + r.Intn(2), Rate: r.Intn(7), Lev: []string{"1.5", "2", "3", "6", "10", "25", "1"}[r.Intn(7)]}
			if r.Chance(40) {
				o.Ast = 1
			}
			if r.Chance(70) {
				o.Sc = 1
			}
			if o.Typ == 1 && r.Chance(30) {
				o.Den = 1
			}
			if r.Chance(25) { // the trigger price names ANOTHER denom than the order's trading asset (validation allows it): the order's own asset decides
				o.Tgt = 1
			}
			if r.Chance(35) { // sized against the pool: the open can fail after the collateral moved
				o.Amt = []string{"14000000000", "9000000000", "20000000000", "3000000000"}[r.Intn(4)]
				o.Lev = []string{"6", "10", "3", "5"}[r.Intn(4)]
				o.Rate = []int{0, 3, 4}[r.Intn(3)]
			} else {
				o.Amt = rel()
			}
			if r.Chance(5) {
				o.Pool = 1
			}
			h.Ops = append(h.Ops, o)
			if r.Chance(40) {
				h.Ops = append(h.Ops, c20Op{Op: "execute", U: r.Intn(c20Users), Idx2: []int{99}})
			}
		case x < 33:
			h.Ops = append(h.Ops, c20Op{Op: "spot_update", U: u, Idx: sel(1), Own: r.Chance(70), Pair: r.Intn(len(c20Pairs)), Rate: r.Intn(7), Typ: r.Intn(4)})
		case x < 39:
			h.Ops = append(h.Ops, c20Op{Op: "perp_update", U: u, Idx: sel(1), Own: r.Chance(70), Rate: r.Intn(9)})
		case x < 45:
			h.Ops = append(h.Ops, c20Op{Op: "spot_cancel", U: u, Idx: sel(1), Own: r.Chance(65)})
		case x < 51:
			h.Ops = append(h.Ops, c20Op{Op: "perp_cancel", U: u, Idx: sel(1), Own: r.Chance(65)})
		case x < 54:
			h.Ops = append(h.Ops, c20Op{Op: "spot_cancels", U: u, Idx: sel(1 + r.Intn(3)), Own: r.Chance(65)})
		case x < 57:
			h.Ops = append(h.Ops, c20Op{Op: "perp_cancels", U: u, Idx: sel(1 + r.Intn(3)), Own: r.Chance(65)})
		case x < 75:
			o := c20Op{Op: "execute", U: u, Own: r.Chance(30)}
			switch r.Intn(4) {
			case 0:
				o.Idx = sel(1)
			case 1:
				o.Idx2 = sel(1)
			case 2:
				o.Idx2 = sel(1 + r.Intn(3))
			default:
				o.Idx, o.Idx2 = sel(r.Intn(3)), sel(r.Intn(3))
			}
			h.Ops = append(h.Ops, o)
		case x < 83:
			o := c20Op{Op: "price_to", Kind: r.Intn(2), Idx: sel(1), Off: r.Intn(3) - 1}
			if r.Chance(30) {
				o.P = "fine"
			}
			h.Ops = append(h.Ops, o)
		case x < 88:
			h.Ops = append(h.Ops, c20Op{Op: "price", D: 1 + r.Intn(3), P: []string{"0.8", "0.9", "0.99", "1.01", "1.1", "1.25", "1.0003", "0.99985", "1.000000007"}[r.Intn(9)]})
		case x < 90:
			h.Ops = append(h.Ops, c20Op{Op: "price_missing", D: 1 + r.Intn(3)})
		case x < 94:
			h.Ops = append(h.Ops, c20Op{Op: "send", U: u, Kind: r.Intn(3), Idx: sel(1), D: r.Intn(4), Sc: r.Intn(2), Amt: r.Decade(0, 9).String()})
		default:
			h.Ops = append(h.Ops, c20Op{Op: "blocks", N: r.Pick(1, 1, 2), DT: r.Pick(5, 5, 60, 3700)})
		}
	}
	return h
}

// ---------------- executor ----------------

type c20Run struct {
	t      *testing.T
	col    *Collector
	w      *World
	m      *Market
	h      c20Hist
	users  []sdk.AccAddress
	uidx   map[string]int
	escIdx map[string][2]int // address -> (perp?1:0, id)
	ext    map[string]int
	saved  map[string]sdkmath.LegacyDec // prices removed by price_missing
	steps  []string
	fp     strings.Builder
	nontrivial bool
	dead   bool
	drained, cancelRejected int
	// ghost: tokens third parties sent straight to escrow accounts of a user's orders (not the owner's funds:
	// a perpetual cancel returns exactly the collateral and leaves such tokens behind)
	don map[[2]int]*big.Int
	// independent market price (c20_price_test.go)
	pchecks                                                    []string // inputs of the keeper's price computations, for Run/ShieldPriceRun.v
	noOracle, priceCmp, unitZero, ambig, metButSkipped, wethAttempts int
}

type c20Snap struct {
	spot  []tstypes.SpotOrder
	perp  []tstypes.PerpetualOrder
	user  [][]sdkmath.Int                // [user][denom]
	esc   map[[2]int][]sdkmath.Int       // escrow balances of every order id ever issued
}

func (x *c20Run) dIdx(d string) int {
	for i, s := range c20Denoms {
		if s == d {
			return i
		}
	}
	return 7 // outside the modelled universe
}

func (x *c20Run) maxIds(ctx sdk.Context) (uint64, uint64) {
	k := x.w.App.TradeshieldKeeper
	s, p := k.GetPendingSpotOrderCount(ctx), k.GetPendingPerpetualOrderCount(ctx)
	if s == 0 {
		s = 1
	}
	if p == 0 {
		p = 1
	}
	return s, p
}

func (x *c20Run) snap() c20Snap {
	ctx := x.w.QCtx()
	k := x.w.App.TradeshieldKeeper
	sn := c20Snap{spot: k.GetAllPendingSpotOrder(ctx), perp: k.GetAllPendingPerpetualOrder(ctx), esc: map[[2]int][]sdkmath.Int{}}
	bal := func(a sdk.AccAddress) []sdkmath.Int {
		var v []sdkmath.Int
		for _, d := range c20Denoms {
			v = append(v, x.w.App.BankKeeper.GetBalance(ctx, a, d).Amount)
		}
		return v
	}
	for _, u := range x.users {
		sn.user = append(sn.user, bal(u))
	}
	ns, np := x.maxIds(ctx)
	// every pending order's id must be below the next-id counter (or the next create would reuse a live id and its escrow account)
	for _, o := range sn.spot {
		if o.OrderId >= ns {
			x.fail("C20:pending-order-id-not-below-counter", fmt.Sprintf("pending spot order %d although the next id to be issued is %d", o.OrderId, ns))
			ns = o.OrderId + 1
		}
	}
	for _, o := range sn.perp {
		if o.OrderId >= np {
			x.fail("C20:pending-order-id-not-below-counter", fmt.Sprintf("pending perpetual order %d although the next id to be issued is %d", o.OrderId, np))
			np = o.OrderId + 1
		}
	}
	for id := uint64(1); id < ns; id++ {
		sn.esc[[2]int{0, int(id)}] = bal(tstypes.GetSpotOrderAddress(id))
	}
	for id := uint64(1); id < np; id++ {
		sn.esc[[2]int{1, int(id)}] = bal(tstypes.GetPerpOrderAddress(id))
	}
	return sn
}

func (sn c20Snap) total(x *c20Run, u, d int) *big.Int {
	t := new(big.Int).Set(sn.user[u][d].BigInt())
	for _, o := range sn.spot {
		if x.uidx[o.OwnerAddress] == u+1 {
			t.Add(t, sn.esc[[2]int{0, int(o.OrderId)}][d].BigInt())
		}
	}
	for _, o := range sn.perp {
		if x.uidx[o.OwnerAddress] == u+1 {
			t.Add(t, sn.esc[[2]int{1, int(o.OrderId)}][d].BigInt())
		}
	}
	return t
}

func (sn c20Snap) findSpot(id uint64) *tstypes.SpotOrder {
	for i := range sn.spot {
		if sn.spot[i].OrderId == id {
			return &sn.spot[i]
		}
	}
	return nil
}
func (sn c20Snap) findPerp(id uint64) *tstypes.PerpetualOrder {
	for i := range sn.perp {
		if sn.perp[i].OrderId == id {
			return &sn.perp[i]
		}
	}
	return nil
}

func c20SameBal(a, b []sdkmath.Int) bool {
	if len(a) != len(b) {
		return false
	}
	for i := range a {
		if !a[i].Equal(b[i]) {
			return false
		}
	}
	return true
}

// escrow balance of order k in denom d; an account that is not in the snapshot (id at or above the counter, not pending) counts as empty
func c20EscAt(sn c20Snap, k [2]int, d int) sdkmath.Int {
	if v, ok := sn.esc[k]; ok && d < len(v) {
		return v[d]
	}
	return sdkmath.ZeroInt()
}

func (x *c20Run) same(a, b c20Snap) bool {
	if len(a.spot) != len(b.spot) || len(a.perp) != len(b.perp) || len(a.esc) != len(b.esc) {
		return false
	}
	for i := range a.spot {
		if x.spotCoq(a.spot[i]) != x.spotCoq(b.spot[i]) {
			return false
		}
	}
	for i := range a.perp {
		if x.perpCoq(a.perp[i]) != x.perpCoq(b.perp[i]) {
			return false
		}
	}
	for i := range a.user {
		if !c20SameBal(a.user[i], b.user[i]) {
			return false
		}
	}
	for k, v := range a.esc {
		if !c20SameBal(v, b.esc[k]) {
			return false
		}
	}
	return true
}

func c20Dec(d sdkmath.LegacyDec) string { return zstr(d.BigInt()) }

func (x *c20Run) spotCoq(o tstypes.SpotOrder) string {
	return fmt.Sprintf("mkO false %d %d %d %d %d %s %d %s 0 0 0", o.OrderId, x.uidx[o.OwnerAddress]-1, int(o.OrderType),
		x.dIdx(o.OrderPrice.BaseDenom), x.dIdx(o.OrderPrice.QuoteDenom), c20Dec(o.OrderPrice.Rate), x.dIdx(o.OrderAmount.Denom), zstr(o.OrderAmount.Amount.BigInt()))
}
func (x *c20Run) perpCoq(o tstypes.PerpetualOrder) string {
	return fmt.Sprintf("mkO true %d %d %d 0 0 %s %d %s %s %d %d", o.OrderId, x.uidx[o.OwnerAddress]-1, int(o.Position),
		c20Dec(o.TriggerPrice.Rate), x.dIdx(o.Collateral.Denom), zstr(o.Collateral.Amount.BigInt()), c20Dec(o.TakeProfitPrice), o.PoolId, x.dIdx(o.TradingAsset))
}

func (x *c20Run) addrCoq(a string) string {
	if i, ok := x.uidx[a]; ok {
		return fmt.Sprintf("AUser %d", i-1)
	}
	if e, ok := x.escIdx[a]; ok {
		if e[0] == 1 {
			return fmt.Sprintf("APerp %d", e[1])
		}
		return fmt.Sprintf("ASpot %d", e[1])
	}
	if _, ok := x.ext[a]; !ok {
		x.ext[a] = len(x.ext)
	}
	return fmt.Sprintf("AExt %d", x.ext[a])
}

func (x *c20Run) obs(kind string, sn c20Snap) string {
	k := map[string]int{"ok": 0, "err": 1, "panic": 2}[kind]
	bl := func(v []sdkmath.Int) string {
		var s []string
		for _, a := range v {
			s = append(s, zstr(a.BigInt()))
		}
		return "[" + strings.Join(s, ";") + "]"
	}
	var us, es, os []string
	for i, v := range sn.user {
		us = append(us, fmt.Sprintf("(%d,%s)", i, bl(v)))
	}
	keys := make([][2]int, 0, len(sn.esc))
	for k := range sn.esc {
		keys = append(keys, k)
	}
	sort.Slice(keys, func(i, j int) bool { return keys[i][0] < keys[j][0] || (keys[i][0] == keys[j][0] && keys[i][1] < keys[j][1]) })
	for _, k := range keys {
		es = append(es, fmt.Sprintf("(%v,%d,%s)", k[0] == 1, k[1], bl(sn.esc[k])))
	}
	for _, o := range sn.spot {
		os = append(os, x.spotCoq(o))
	}
	for _, o := range sn.perp {
		os = append(os, x.perpCoq(o))
	}
	return fmt.Sprintf("mkOb %d [%s] [%s] [%s]", k, strings.Join(us, ";"), strings.Join(es, ";"), strings.Join(os, ";"))
}

func (x *c20Run) fail(sig, detail string) {
	x.col.Violate(Violation{Signature: sig, Detail: detail, History: x.h.ID, Step: len(x.steps), Replay: x.h})
}

// runOn executes one message on a branch of ctx; the branch is written only on success.
func (x *c20Run) runOn(ctx sdk.Context, msg sdk.Msg) (res TxResult) {
	if vb, ok := msg.(validateBasic); ok {
		if err := vb.ValidateBasic(); err != nil {
			return TxResult{Err: err}
		}
	}
	h := x.w.App.MsgServiceRouter().Handler(msg)
	cctx, write := ctx.CacheContext()
	cctx = cctx.WithEventManager(sdk.NewEventManager())
	defer func() {
		if r := recover(); r != nil {
			res = TxResult{Panic: r, Stack: string(debug.Stack())}
		}
	}()
	r, err := h(cctx, msg)
	if err != nil {
		return TxResult{Err: err}
	}
	write()
	evs := cctx.EventManager().ABCIEvents()
	if r != nil {
		evs = append(evs, r.Events...)
	}
	return TxResult{Events: evs}
}

func (x *c20Run) spotPrice(ctx sdk.Context, o tstypes.SpotOrder) (p sdkmath.LegacyDec, ok bool) {
	defer func() {
		if r := recover(); r != nil {
			ok = false
		}
	}()
	p, err := x.w.App.TradeshieldKeeper.GetAssetPriceFromDenomInToDenomOut(ctx, o.OrderPrice.BaseDenom, o.OrderPrice.QuoteDenom)
	return p, err == nil
}

func c20SpotTrig(o tstypes.SpotOrder, mp sdkmath.LegacyDec) bool {
	if o.OrderType == tstypes.SpotOrderType_LIMITSELL {
		return !mp.LT(o.OrderPrice.Rate)
	}
	return !mp.GT(o.OrderPrice.Rate)
}
func c20PerpTrig(o tstypes.PerpetualOrder, mp sdkmath.LegacyDec) bool {
	switch o.Position {
	case tstypes.PerpetualPosition_LONG:
		return !mp.GT(o.TriggerPrice.Rate)
	case tstypes.PerpetualPosition_SHORT:
		return !mp.LT(o.TriggerPrice.Rate)
	}
	return true
}

func (x *c20Run) xfers(ops []BankOp) string {
	var s []string
	for _, o := range ops {
		if o.Kind != "send" {
			s = append(s, "(AExt 0, ASpot 0, 9, 1)") // mint/burn inside an order attempt: rejected by the model
			continue
		}
		s = append(s, fmt.Sprintf("(%s, %s, %d, %s)", x.addrCoq(o.From), x.addrCoq(o.To), x.dIdx(o.Denom), zstr(o.Amt.BigInt())))
	}
	return "[" + strings.Join(s, ";") + "]"
}

type c20Reso struct {
	id    uint64
	text  string
	found bool
	price bool   // the keeper reports a market price
	trig  bool   // what the CODE decided (by the keeper's price): only used to read the inner call's result off the attempt
	inner string // ok err panic none
	// the property's verdict, from the independent price (the keeper's only where the oracle has no record: exact == false)
	vprice, vtrig, vambig, exact bool
	vdetail                      string
	px                           c20Px
	kp                           sdkmath.LegacyDec // the keeper's spot market price (valid if price)
}

// resolve runs every order attempt of an execute request, one at a time, on a scratch branch that is
// never written back, and reads the market price the keeper uses and what the inner call committed.
func (x *c20Run) resolve(sender string, sids, pids []uint64) (rs, rp []c20Reso) {
	ctx0, _ := x.w.Ctx().CacheContext()
	k := x.w.App.TradeshieldKeeper
	stop := false
	one := func(perp bool, id uint64) c20Reso {
		r := c20Reso{id: id, text: "mkR None (IErr [])", inner: "none"}
		if stop || id == 0 {
			return r
		}
		var escAddr string
		var msg *tstypes.MsgExecuteOrders
		if perp {
			o, found := k.GetPendingPerpetualOrder(ctx0, id)
			if !found {
				stop = true
				return r
			}
			r.found = true
			escAddr = o.GetOrderAddress().String()
			mp, err := x.w.App.PerpetualKeeper.GetAssetPrice(ctx0, o.TradingAsset)
			if err == nil {
				r.price, r.trig = true, c20PerpTrig(o, mp)
				r.text = fmt.Sprintf("mkR (Some %s) ", c20Dec(mp))
			}
			// verdict: the oracle's record of the trading asset's display asset, read from x/oracle directly (per whole token, as the trigger)
			if ip, _, ok := x.c20Oracle(ctx0, o.TradingAsset); ok {
				r.vprice, r.vtrig, r.exact = true, c20PerpTrig(o, ip), true
				r.vdetail = fmt.Sprintf("oracle price of %s %s, trigger %s, position %s", o.TradingAsset, ip, o.TriggerPrice.Rate, o.Position)
				x.col.ImplCheck(1)
				if err != nil || !mp.Equal(ip) {
					x.fail("C20:perpetual-market-price-differs-from-oracle-record", fmt.Sprintf("order %d: perpetual keeper price %s (err %v), %s", id, mp, err, r.vdetail))
				}
			} else {
				r.vprice, r.vtrig = r.price, r.trig
			}
			if o.TradingAsset == WETH {
				x.wethAttempts++
			}
			msg = &tstypes.MsgExecuteOrders{Creator: sender, PerpetualOrderIds: []uint64{id}}
		} else {
			o, found := k.GetPendingSpotOrder(ctx0, id)
			if !found {
				stop = true
				return r
			}
			r.found = true
			escAddr = o.GetOrderAddress().String()
			mp, ok := x.spotPrice(ctx0, o)
			if ok {
				r.price, r.trig = true, c20SpotTrig(o, mp) && !mp.IsZero()
				r.text = fmt.Sprintf("mkR (Some %s) ", c20Dec(mp))
			}
			px := x.c20Exact(ctx0, o.OrderPrice.BaseDenom, o.OrderPrice.QuoteDenom)
			x.c20PriceCheck(o.OrderPrice.BaseDenom, o.OrderPrice.QuoteDenom, mp, ok, px)
			r.px, r.kp = px, mp
			if px.ok {
				r.vprice, r.exact = true, true
				r.vtrig, r.vambig = c20SpotTrigExact(o, px.e)
				r.vdetail = fmt.Sprintf("%s, order rate %s, type %s, keeper price %s (known: %v)", px, o.OrderPrice.Rate, o.OrderType, mp, ok)
				x.pchecks = append(x.pchecks, c20PcheckCoq(len(x.steps), id, px))
			} else {
				r.vprice, r.vtrig = r.price, r.trig
			}
			if o.OrderPrice.BaseDenom == WETH || o.OrderPrice.QuoteDenom == WETH {
				x.wethAttempts++
			}
			msg = &tstypes.MsgExecuteOrders{Creator: sender, SpotOrderIds: []uint64{id}}
		}
		res := x.runOn(ctx0, msg)
		if !r.price {
			if !res.OK() {
				stop = true
			}
			return r
		}
		inner := "IErr []"
		switch {
		case res.Panic != nil:
			stop = true
			// the handler's own nil dereference for a skipped spot order is not a panic of the inner call
			if r.trig && !strings.Contains(res.Stack, "NewExecuteSpotOrderEvt") {
				inner, r.inner = "IPanic", "panic"
			}
		case res.Err != nil:
			stop = true
		default:
			ops := BankOps(res.Events)
			if r.trig && len(ops) > 0 && ops[0].From == escAddr {
				var still bool
				if perp {
					_, still = k.GetPendingPerpetualOrder(ctx0, id)
				} else {
					_, still = k.GetPendingSpotOrder(ctx0, id)
				}
				if still {
					inner, r.inner = "IErr "+x.xfers(ops[1:]), "err"
				} else {
					inner, r.inner = "IOk "+x.xfers(ops[1:]), "ok"
				}
			} else if r.trig {
				// zero amount orders send nothing: the result is visible in the pending list only
				var still bool
				if perp {
					_, still = k.GetPendingPerpetualOrder(ctx0, id)
				} else {
					_, still = k.GetPendingSpotOrder(ctx0, id)
				}
				if still {
					inner, r.inner = "IErr "+x.xfers(ops), "err"
				} else {
					inner, r.inner = "IOk "+x.xfers(ops), "ok"
				}
			}
		}
		r.text += "(" + inner + ")"
		return r
	}
	for _, id := range sids {
		rs = append(rs, one(false, id))
	}
	for _, id := range pids {
		rp = append(rp, one(true, id))
	}
	return
}

func c20Rel(s string, base sdkmath.Int) sdkmath.Int {
	var rel int
	if _, err := fmt.Sscanf(s, "rel:%d", &rel); err != nil {
		v, _ := sdkmath.NewIntFromString(s)
		return v
	}
	switch rel {
	case 0:
		return sdkmath.NewInt(1)
	case 1:
		return sdkmath.NewInt(1000)
	case 2:
		return base.QuoRaw(1000)
	case 3:
		return base.QuoRaw(3)
	case 4:
		return base.SubRaw(1)
	case 5:
		return base
	case 6:
		return base.AddRaw(1)
	case 7:
		return sdkmath.ZeroInt()
	default:
		return base.QuoRaw(100)
	}
}

// absolute amounts are drawn for 6 decimals: with Sc they are taken in the same whole-token terms for an 18-decimals denom
func c20Scale(op c20Op, den, amt string, a sdkmath.Int) sdkmath.Int {
	if op.Sc == 1 && c20Decimals[den] == 18 && !strings.HasPrefix(amt, "rel:") {
		return a.Mul(sdkmath.NewInt(1_000_000_000_000))
	}
	return a
}

// rate relative to a market price: at, one step above / below, +-10 %, zero, far
// "one step" beside a spot market price: 10^-12 in absolute terms near 1, in proportion (5*10^-13 of the price, at least one unit of the
// 18th digit) for the prices near 10^-9 and 10^+9 of a pair with mixed decimals
func c20RateStep(mp sdkmath.LegacyDec) int64 {
	if mp.GT(dec("0.001")) && mp.LT(dec("1000")) {
		return 1_000_000
	}
	s := mp.QuoInt64(2_000_000_000_000).BigInt()
	if !s.IsInt64() || s.Int64() > 1<<60 {
		return 1 << 60
	}
	if s.Int64() < 1 {
		return 1
	}
	return s.Int64()
}

func c20Rate(k int, mp sdkmath.LegacyDec, ulp int64) sdkmath.LegacyDec {
	u := sdkmath.LegacyNewDecFromBigIntWithPrec(big.NewInt(ulp), 18)
	switch k {
	case 0:
		return mp
	case 1:
		return mp.Add(u)
	case 2:
		if mp.GT(u) {
			return mp.Sub(u)
		}
		return mp
	case 3:
		return mp.Mul(dec("1.1"))
	case 4:
		return mp.Mul(dec("0.9"))
	case 5:
		return sdkmath.LegacyZeroDec()
	case 7:
		return dec("1.5")
	case 8:
		return dec("1")
	default:
		return mp.Mul(dec("3"))
	}
}

func (x *c20Run) pickSpot(sn c20Snap, sel int) uint64 {
	if sel == 99 && len(sn.spot) > 0 {
		return sn.spot[len(sn.spot)-1].OrderId
	}
	if sel < 0 || len(sn.spot) == 0 {
		ns, _ := x.maxIds(x.w.QCtx())
		return ns + uint64(-sel) - 1 + uint64(len(sn.spot)&1)*0
	}
	return sn.spot[sel%len(sn.spot)].OrderId
}
func (x *c20Run) pickPerp(sn c20Snap, sel int) uint64 {
	if sel == 99 && len(sn.perp) > 0 {
		return sn.perp[len(sn.perp)-1].OrderId
	}
	if sel < 0 || len(sn.perp) == 0 {
		_, np := x.maxIds(x.w.QCtx())
		return np + uint64(-sel) - 1
	}
	return sn.perp[sel%len(sn.perp)].OrderId
}

func c20Ids(v []uint64) string {
	var s []string
	for _, i := range v {
		s = append(s, fmt.Sprint(i))
	}
	return "[" + strings.Join(s, ";") + "]"
}

func (x *c20Run) removePrice(denom string) {
	ctx := x.w.Ctx()
	for _, p := range x.w.App.OracleKeeper.GetAllPrice(ctx) {
		if p.Asset == x.m.Display[denom] {
			x.w.App.OracleKeeper.RemovePrice(ctx, p.Asset, p.Source, p.Timestamp)
		}
	}
}

func (x *c20Run) exec(op c20Op) {
	w, m := x.w, x.m
	before := x.snap()
	u := op.U % c20Users
	sender := x.users[u].String()
	var res TxResult
	var coq string
	var amt *big.Int
	kindOf := op.Op
	type tgt struct {
		perp bool
		id   uint64
	}
	var targets []tgt // orders an owner-only message refers to
	var execS, execP []c20Reso
	switch op.Op {
	case "blocks":
		for j := int64(0); j < op.N; j++ {
			m.RefreshPrices()
			b0 := x.snap()
			if err := w.EndBlock(op.DT); err != nil {
				x.col.Extra("block_failed", err.Error())
				x.dead = true
				return
			}
			b1 := x.snap()
			ok := len(b0.spot) == len(b1.spot) && len(b0.perp) == len(b1.perp)
			for k, v := range b0.esc {
				ok = ok && c20SameBal(v, b1.esc[k])
			}
			if !ok {
				x.fail("C20:block-touched-escrow-or-order", "a block changed an escrow balance or the pending order lists")
			}
			x.col.ImplCheck(1)
			var l []string
			for i, v := range b1.user {
				for d := range c20Denoms {
					if !v[d].Equal(b0.user[i][d]) {
						l = append(l, fmt.Sprintf("(%d,%d,%s)", i, d, zstr(v[d].BigInt())))
					}
				}
			}
			x.steps = append(x.steps, fmt.Sprintf("(OEnv [%s], %s)", strings.Join(l, ";"), x.obs("ok", b1)))
			x.col.Op("blocks", "ok", nil)
		}
		return
	case "price", "price_to", "price_missing", "price_abs":
		switch op.Op {
		case "price":
			d := c20Denoms[op.D%len(c20Denoms)]
			if _, known := m.Display[d]; !known {
				break
			}
			if p, ok := m.Prices[d]; ok {
				m.SetPrice(d, p.Mul(dec(op.P)))
			} else if p, ok := x.saved[d]; ok {
				m.SetPrice(d, p.Mul(dec(op.P)))
				delete(x.saved, d)
			}
		case "price_abs":
			d := c20Denoms[op.D%len(c20Denoms)]
			if _, known := m.Display[d]; known {
				delete(x.saved, d)
				m.SetPrice(d, dec(op.RAbs))
			}
		case "price_missing":
			d := c20Denoms[op.D%len(c20Denoms)]
			if p, ok := m.Prices[d]; ok && d != USDC {
				x.saved[d] = p
				delete(m.Prices, d)
				x.removePrice(d)
			}
		case "price_to":
			// move the market so that it sits exactly at / one step beside a pending order's trigger
			if op.Idx[0] < 0 {
				break
			}
			if op.Kind == 1 && len(before.perp) > 0 {
				o := before.perp[op.Idx[0]%len(before.perp)]
				if o.TriggerPrice.Rate.IsPositive() {
					p := o.TriggerPrice.Rate.Add(sdkmath.LegacyNewDecFromBigIntWithPrec(big.NewInt(int64(op.Off)), 18))
					if _, known := m.Display[o.TradingAsset]; p.IsPositive() && known {
						delete(x.saved, o.TradingAsset)
						m.SetPrice(o.TradingAsset, p)
					}
				}
			} else if len(before.spot) > 0 && op.Idx[0] >= 0 {
				o := before.spot[op.Idx[0]%len(before.spot)]
				b, q := o.OrderPrice.BaseDenom, o.OrderPrice.QuoteDenom
				// one step: 10^-12 of the rate's unit for a pair of equal decimals, 5*10^-4 of the rate for mixed decimals (rates near
				// 10^-9 / 10^+9); P = "fine" selects a step below the resolution of the per-base-unit USD value the code works with
				step := int64(1_000_000)
				if op.P == "fine" {
					step = 300
				}
				r := o.OrderPrice.Rate.Add(sdkmath.LegacyNewDecFromBigIntWithPrec(big.NewInt(int64(op.Off)*step), 18))
				if c20Decimals[b] != c20Decimals[q] {
					pm := int64(50)
					if op.P == "fine" {
						pm = 15
					}
					r = o.OrderPrice.Rate.Add(o.OrderPrice.Rate.MulInt64(int64(op.Off) * pm).QuoInt64(100_000))
				}
				_, kb := m.Display[b]
				_, kq := m.Display[q]
				if r.IsPositive() && kb && kq && b != q {
					// move the side that is not uusdc (the base if neither is) so that the EXACT price of the pair becomes r
					moveBase := b != USDC
					d := q
					if moveBase {
						d = b
					}
					if p, ok := x.c20PriceFor(w.Ctx(), b, q, r, moveBase); ok {
						delete(x.saved, d)
						m.SetPrice(d, p)
					}
				}
			}
		}
		x.col.Op(op.Op, "ok", nil)
		return
	case "spot_create":
		pair := c20Pairs[op.Pair%len(c20Pairs)]
		den := pair[0]
		if op.Den == 1 {
			den = pair[1]
		} else if op.Den == 2 {
			for _, d := range c20Denoms {
				if d != pair[0] && d != pair[1] {
					den = d
				}
			}
		}
		tgtDen := pair[1]
		if op.Tgt == 1 {
			tgtDen = pair[0]
		}
		probe := tstypes.SpotOrder{OrderPrice: tstypes.OrderPrice{BaseDenom: pair[0], QuoteDenom: pair[1]}}
		mp, ok := x.spotPrice(w.QCtx(), probe)
		x.c20PriceCheck(pair[0], pair[1], mp, ok, x.c20Exact(w.QCtx(), pair[0], pair[1]))
		if !ok {
			mp = dec("1")
		}
		rate := c20Rate(op.Rate, mp, c20RateStep(mp))
		if op.RAbs != "" {
			rate = dec(op.RAbs)
		}
		a := c20Scale(op, den, op.Amt, c20Rel(op.Amt, before.user[u][x.dIdx(den)]))
		amt = a.BigInt()
		msg := &tstypes.MsgCreateSpotOrder{OrderType: tstypes.SpotOrderType(op.Typ), OrderPrice: tstypes.OrderPrice{BaseDenom: pair[0], QuoteDenom: pair[1], Rate: rate},
			OrderAmount: sdk.Coin{Denom: den, Amount: a}, OwnerAddress: sender, OrderTargetDenom: tgtDen}
		inn := "IErr []"
		if op.Typ == 3 { // market buy: executed at once; resolve the inner swap on a scratch branch
			c0, _ := w.Ctx().CacheContext()
			r0 := x.runOn(c0, msg)
			switch {
			case r0.Panic != nil:
				inn = "IPanic"
			case r0.Err == nil:
				inn = "IOk " + x.xfers(BankOps(r0.Events))
			}
		}
		res = w.Deliver(msg)
		coq = fmt.Sprintf("OCreateSpot %d %d %d %d %s %d %s (%s)", u, op.Typ, x.dIdx(pair[0]), x.dIdx(pair[1]), c20Dec(rate), x.dIdx(den), zstr(amt), inn)
	case "perp_create":
		// trading asset: uatom in pool 1, or the 18-decimals aweth in pool 2 (on a market without it: an unknown asset / pool 0 is refused)
		ast, pool, fallback, tpL, tpS := ATOM, m.OraclePool, "5", "20", "1"
		if op.Ast == 1 {
			ast, pool, fallback, tpL, tpS = WETH, m.OraclePool2, "2000", "8000", "400"
		}
		den := USDC
		if op.Den == 1 {
			den = ast
		}
		mp, err := w.App.PerpetualKeeper.GetAssetPrice(w.QCtx(), ast)
		if err != nil {
			mp = dec(fallback)
		}
		trig := c20Rate(op.Rate, mp, 1)
		a := c20Scale(op, den, op.Amt, c20Rel(op.Amt, before.user[u][x.dIdx(den)]))
		amt = a.BigInt()
		tp := dec(tpL)
		if op.Typ == 2 {
			tp = dec(tpS)
		}
		if op.Pool == 1 {
			pool = 999
		}
		trigDenom := ast
		if op.Tgt == 1 {
			trigDenom = USDC
		}
		msg := &tstypes.MsgCreatePerpetualOpenOrder{OwnerAddress: sender, TriggerPrice: tstypes.TriggerPrice{TradingAssetDenom: trigDenom, Rate: trig},
			Collateral: sdk.Coin{Denom: den, Amount: a}, TradingAsset: ast, Position: tstypes.PerpetualPosition(op.Typ), Leverage: dec(op.Lev),
			TakeProfitPrice: tp, StopLossPrice: dec("0"), PoolId: pool}
		// environment of the handler: pool known, no open position of the same kind, estimation accepts
		env := func() (e int) {
			defer func() {
				if r := recover(); r != nil {
					e = 2
				}
			}()
			q := w.QCtx()
			if _, found := w.App.PerpetualKeeper.GetPool(q, pool); !found {
				return 1
			}
			mtps, _, err := w.App.PerpetualKeeper.GetMTPsForAddressWithPagination(q, x.users[u], nil)
			if err != nil {
				return 1
			}
			for _, p := range mtps {
				if p.Mtp.AmmPoolId == pool && p.Mtp.Position == perptypes.Position(op.Typ) && p.Mtp.CollateralAsset == den && p.Mtp.TradingAsset == ast {
					return 1
				}
			}
			if _, err := w.App.PerpetualKeeper.HandleOpenEstimation(q, &perptypes.QueryOpenEstimationRequest{Position: perptypes.Position(op.Typ), Leverage: dec(op.Lev),
				TradingAsset: ast, Collateral: sdk.Coin{Denom: den, Amount: a}, TakeProfitPrice: tp, PoolId: pool, LimitPrice: trig}); err != nil {
				return 1
			}
			return 0
		}()
		res = w.Deliver(msg)
		coq = fmt.Sprintf("OCreatePerp %d %d %s %d %s %s %d %d %d", u, op.Typ, c20Dec(trig), x.dIdx(den), zstr(amt), c20Dec(tp), pool, x.dIdx(ast), env)
	case "spot_update":
		id := x.pickSpot(before, op.Idx[0])
		if o := before.findSpot(id); o != nil {
			targets = append(targets, tgt{false, id})
			if op.Own {
				sender, u = o.OwnerAddress, x.uidx[o.OwnerAddress]-1
			}
		}
		pair := c20Pairs[op.Pair%len(c20Pairs)]
		if o := before.findSpot(id); o != nil && op.Typ != 0 { // mostly keep the denoms
			pair = [2]string{o.OrderPrice.BaseDenom, o.OrderPrice.QuoteDenom}
		}
		mp, ok := x.spotPrice(w.QCtx(), tstypes.SpotOrder{OrderPrice: tstypes.OrderPrice{BaseDenom: pair[0], QuoteDenom: pair[1]}})
		if !ok {
			mp = dec("1")
		}
		rate := c20Rate(op.Rate, mp, c20RateStep(mp))
		res = w.Deliver(&tstypes.MsgUpdateSpotOrder{OwnerAddress: sender, OrderId: id, OrderPrice: tstypes.OrderPrice{BaseDenom: pair[0], QuoteDenom: pair[1], Rate: rate}})
		coq = fmt.Sprintf("OUpdateSpot %d %d %d %d %s", u, id, x.dIdx(pair[0]), x.dIdx(pair[1]), c20Dec(rate))
	case "perp_update":
		id := x.pickPerp(before, op.Idx[0])
		if o := before.findPerp(id); o != nil {
			targets = append(targets, tgt{true, id})
			if op.Own {
				sender, u = o.OwnerAddress, x.uidx[o.OwnerAddress]-1
			}
		}
		ast, fallback := ATOM, "5"
		if o := before.findPerp(id); o != nil && o.TradingAsset == WETH {
			ast, fallback = WETH, "2000"
		}
		mp, err := w.App.PerpetualKeeper.GetAssetPrice(w.QCtx(), ast)
		if err != nil {
			mp = dec(fallback)
		}
		trig := c20Rate(op.Rate, mp, 1)
		if ast == WETH && op.Rate >= 7 { // the absolute choices 1.5 / 1 are meant for a price of 5
			trig = trig.MulInt64(400)
		}
		pp := w.App.PerpetualKeeper.GetParams(w.QCtx())
		res = w.Deliver(&tstypes.MsgUpdatePerpetualOrder{OwnerAddress: sender, OrderId: id, TriggerPrice: tstypes.TriggerPrice{TradingAssetDenom: ast, Rate: trig}})
		coq = fmt.Sprintf("OUpdatePerp %d %d %s %s %s %s", u, id, c20Dec(trig), c20Dec(pp.MinimumLongTakeProfitPriceRatio), c20Dec(pp.MaximumLongTakeProfitPriceRatio), c20Dec(pp.MaximumShortTakeProfitPriceRatio))
	case "spot_cancel", "perp_cancel", "spot_cancels", "perp_cancels":
		perp := strings.HasPrefix(op.Op, "perp")
		var ids []uint64
		for _, s := range op.Idx {
			if perp {
				ids = append(ids, x.pickPerp(before, s))
			} else {
				ids = append(ids, x.pickSpot(before, s))
			}
		}
		for k, id := range ids {
			var owner string
			if perp {
				if o := before.findPerp(id); o != nil {
					owner = o.OwnerAddress
				}
			} else if o := before.findSpot(id); o != nil {
				owner = o.OwnerAddress
			}
			if owner != "" {
				targets = append(targets, tgt{perp, id})
				if k == 0 && op.Own {
					sender, u = owner, x.uidx[owner]-1
				}
			}
		}
		switch op.Op {
		case "spot_cancel":
			res = w.Deliver(&tstypes.MsgCancelSpotOrder{OwnerAddress: sender, OrderId: ids[0]})
			coq = fmt.Sprintf("OCancelSpot %d %d", u, ids[0])
		case "perp_cancel":
			res = w.Deliver(&tstypes.MsgCancelPerpetualOrder{OwnerAddress: sender, OrderId: ids[0]})
			coq = fmt.Sprintf("OCancelPerp %d %d", u, ids[0])
		case "spot_cancels":
			res = w.Deliver(&tstypes.MsgCancelSpotOrders{Creator: sender, SpotOrderIds: ids})
			coq = fmt.Sprintf("OCancelSpots %d %s", u, c20Ids(ids))
		default:
			res = w.Deliver(&tstypes.MsgCancelPerpetualOrders{OwnerAddress: sender, OrderIds: ids})
			coq = fmt.Sprintf("OCancelPerps %d %s", u, c20Ids(ids))
		}
	case "execute":
		var sids, pids []uint64
		for _, s := range op.Idx {
			sids = append(sids, x.pickSpot(before, s))
		}
		for _, s := range op.Idx2 {
			pids = append(pids, x.pickPerp(before, s))
		}
		if op.Own {
			if len(sids) > 0 {
				if o := before.findSpot(sids[0]); o != nil {
					sender, u = o.OwnerAddress, x.uidx[o.OwnerAddress]-1
				}
			} else if len(pids) > 0 {
				if o := before.findPerp(pids[0]); o != nil {
					sender, u = o.OwnerAddress, x.uidx[o.OwnerAddress]-1
				}
			}
		}
		execS, execP = x.resolve(sender, sids, pids)
		res = w.Deliver(&tstypes.MsgExecuteOrders{Creator: sender, SpotOrderIds: sids, PerpetualOrderIds: pids})
		tx := func(rs []c20Reso) string {
			var s []string
			for _, r := range rs {
				s = append(s, fmt.Sprintf("(%d, %s)", r.id, r.text))
			}
			return "[" + strings.Join(s, ";") + "]"
		}
		coq = fmt.Sprintf("OExecute %d %s %s", u, tx(execS), tx(execP))
	case "send":
		var to sdk.AccAddress
		toCoq := ""
		switch {
		case op.Kind == 0 && len(before.spot) > 0 && op.Idx[0] >= 0:
			o := before.spot[op.Idx[0]%len(before.spot)]
			to, toCoq = o.GetOrderAddress(), fmt.Sprintf("ASpot %d", o.OrderId)
		case op.Kind == 1 && len(before.perp) > 0 && op.Idx[0] >= 0:
			o := before.perp[op.Idx[0]%len(before.perp)]
			to, toCoq = o.GetOrderAddress(), fmt.Sprintf("APerp %d", o.OrderId)
		default:
			v := (u + 1 + op.D) % c20Users
			to, toCoq = x.users[v], fmt.Sprintf("AUser %d", v)
		}
		d := op.D % len(c20Denoms)
		a, _ := sdkmath.NewIntFromString(op.Amt)
		a = c20Scale(op, c20Denoms[d], op.Amt, a)
		amt = a.BigInt()
		res = w.Deliver(&banktypes.MsgSend{FromAddress: sender, ToAddress: to.String(), Amount: sdk.NewCoins(sdk.NewCoin(c20Denoms[d], a))})
		if e, isEsc := x.escIdx[to.String()]; isEsc && res.OK() {
			var owner string
			if e[0] == 1 {
				if o := before.findPerp(uint64(e[1])); o != nil {
					owner = o.OwnerAddress
				}
			} else {
				if o := before.findSpot(uint64(e[1])); o != nil {
					owner = o.OwnerAddress
				}
			}
			if owner == "" { // the escrow account of no pending order (two orders sharing one address would end up here)
				return
			}
			k := [2]int{x.uidx[owner] - 1, d}
			if x.don[k] == nil {
				x.don[k] = new(big.Int)
			}
			x.don[k].Add(x.don[k], amt)
		}
		coq = fmt.Sprintf("OSend %d (%s) %d %s", u, toCoq, d, zstr(amt))
	default:
		x.t.Fatalf("unknown op %q", op.Op)
	}
	after := x.snap()
	x.col.Op(kindOf, res.Kind(), amt)
	fmt.Fprintf(&x.fp, "%s:%s:%d;", kindOf, res.Kind(), u)
	x.steps = append(x.steps, fmt.Sprintf("(%s, %s)", coq, x.obs(res.Kind(), after)))

	// ---------------- the property's own predicates, on the implementation ----------------
	changed := !x.same(before, after)
	if !res.OK() && changed {
		x.fail("C20:failed-tx-changed-state", op.Op+": a rejected transaction changed balances or orders")
	}
	if res.OK() && changed {
		x.nontrivial = true
	}
	// owner-only
	if op.Op != "execute" && op.Op != "send" {
		for _, tg := range targets {
			var owner string
			if tg.perp {
				owner = before.findPerp(tg.id).OwnerAddress
			} else {
				owner = before.findSpot(tg.id).OwnerAddress
			}
			if owner != sender && res.OK() {
				x.fail("C20:non-owner-"+strings.SplitN(op.Op, "_", 2)[1]+"-accepted", fmt.Sprintf("%s of order %d by %s accepted, owner is %s", op.Op, tg.id, sender, owner))
			}
		}
	}
	// which owners had an order executed (removed by an execute request) or a market order filled
	executedOwner := map[int]bool{}
	if op.Op == "execute" && res.OK() {
		for _, o := range before.spot {
			if after.findSpot(o.OrderId) == nil {
				executedOwner[x.uidx[o.OwnerAddress]-1] = true
			}
		}
		for _, o := range before.perp {
			if after.findPerp(o.OrderId) == nil {
				executedOwner[x.uidx[o.OwnerAddress]-1] = true
			}
		}
	}
	if op.Op == "spot_create" && op.Typ == 3 && res.OK() {
		executedOwner[u] = true
	}
	if op.Op != "send" {
		for v := 0; v < c20Users; v++ {
			if executedOwner[v] {
				continue
			}
			for d := range c20Denoms {
				t0, t1 := before.total(x, v, d), after.total(x, v, d)
				diff := new(big.Int).Sub(t1, t0)
				if g := x.don[[2]int{v, d}]; g != nil && diff.CmpAbs(g) <= 0 {
					continue // explained by third-party tokens sitting in the user's escrow accounts
				}
				if t0.Cmp(t1) != 0 {
					sig := "C20:owner-funds-not-conserved:" + op.Op
					if op.Op == "execute" {
						sig = "C20:failed-execute-moved-owner-funds"
					}
					x.fail(sig, fmt.Sprintf("user %d %s: wallet + escrows of pending orders %s -> %s although none of the user's orders was executed", v, c20Denoms[d], t0, t1))
				}
			}
		}
		x.col.ImplCheck(c20Users * len(c20Denoms))
	}
	// cancel returns the whole escrow
	if strings.Contains(op.Op, "cancel") && res.OK() {
		for _, tg := range targets {
			k := [2]int{0, int(tg.id)}
			var owner string
			var oden string
			var oamt sdkmath.Int
			gone := false
			if tg.perp {
				k[0] = 1
				o := before.findPerp(tg.id)
				owner, oden, oamt, gone = o.OwnerAddress, o.Collateral.Denom, o.Collateral.Amount, after.findPerp(tg.id) == nil
			} else {
				o := before.findSpot(tg.id)
				owner, oden, oamt, gone = o.OwnerAddress, o.OrderAmount.Denom, o.OrderAmount.Amount, after.findSpot(tg.id) == nil
			}
			if !gone {
				x.fail("C20:cancel-left-order-pending", fmt.Sprintf("order %d still pending after a successful cancel", tg.id))
			}
			if len(targets) == 1 {
				ui := x.uidx[owner] - 1
				for d := range c20Denoms {
					got := after.user[ui][d].Sub(before.user[ui][d])
					left := c20EscAt(before, k, d).Sub(c20EscAt(after, k, d))
					if !got.Equal(left) || got.IsNegative() {
						x.fail("C20:cancel-not-full", fmt.Sprintf("cancel of order %d: owner received %s %s, escrow released %s", tg.id, got, c20Denoms[d], left))
					}
					if c20Denoms[d] == oden && (got.LT(oamt) && c20EscAt(before, k, d).GTE(oamt) || (!tg.perp && !c20EscAt(after, k, d).IsZero())) {
						x.fail("C20:cancel-not-full", fmt.Sprintf("cancel of order %d: owner received %s of the %s %s escrowed, %s left behind", tg.id, got, oamt, oden, c20EscAt(after, k, d)))
					}
				}
			}
			x.col.ImplCheck(1)
		}
	}
	// an order whose trigger is not met is untouched
	if op.Op == "execute" {
		chk := func(rs []c20Reso, perp bool) {
			for _, r := range rs {
				if !r.found {
					continue
				}
				x.col.ImplCheck(1)
				k := [2]int{0, int(r.id)}
				same := false
				if perp {
					k[0] = 1
					a, b := before.findPerp(r.id), after.findPerp(r.id)
					same = a != nil && b != nil && x.perpCoq(*a) == x.perpCoq(*b)
				} else {
					a, b := before.findSpot(r.id), after.findSpot(r.id)
					same = a != nil && b != nil && x.spotCoq(*a) == x.spotCoq(*b)
				}
				same = same && c20SameBal(before.esc[k], after.esc[k])
				// the verdict comes from the independent price (r.v*); within c20AmbigUlp units of the rate's last digit it is withheld
				if r.exact && r.vambig {
					x.ambig++
				} else if (!r.vprice || !r.vtrig) && !same && before.esc[k] != nil {
					// only meaningful if the id is listed once (a later duplicate sees the earlier attempt's state)
					sig := "C20:executed-without-trigger"
					if !perp && r.exact && r.price && r.trig {
						// the code acted on its own market price; name the cause if that value is the per-base-unit rounding of the code as it is
						if o := before.findSpot(r.id); o != nil {
							px := r.px
							if v, ok := c20AsIs(px); px.ok && (!ok || (v.Equal(r.kp) && c20SpotTrig(*o, v))) {
								sig = "C20:executed-without-trigger:market-price-rounded-per-base-unit"
							}
						}
					}
					x.fail(sig, fmt.Sprintf("order %d (perp=%v) changed although its trigger condition is not met (price known: %v); %s", r.id, perp, r.vprice, r.vdetail))
				} else if r.exact && r.vtrig && r.price && !r.trig && same {
					x.metButSkipped++ // trigger met by the exact price, skipped by the code: no funds moved, not a violation of this property
				}
				if r.inner == "err" && res.OK() {
					if !same {
						x.drained++
					}
				}
			}
		}
		chk(execS, false)
		chk(execP, true)
	}
	if strings.Contains(op.Op, "cancel") && !res.OK() && len(targets) == 1 && op.Own && len(op.Idx) == 1 {
		x.cancelRejected++
	}
}

func c20Exec(t *testing.T, col *Collector, h c20Hist) string {
	w := NewWorld(t)
	mo := DefaultMarketOpts()
	mo.Extra18 = !h.Plain
	m := NewMarket(w, mo)
	x := &c20Run{t: t, col: col, w: w, m: m, h: h, uidx: map[string]int{}, escIdx: map[string][2]int{}, ext: map[string]int{}, saved: map[string]sdkmath.LegacyDec{}, don: map[[2]int]*big.Int{}}
	for i := 0; i < c20Users; i++ {
		a := m.Users[i+1]
		x.users = append(x.users, a)
		x.uidx[a.String()] = i + 1
	}
	for id := uint64(1); id < 400; id++ {
		for kind, a := range []string{tstypes.GetSpotOrderAddress(id).String(), tstypes.GetPerpOrderAddress(id).String()} {
			if prev, dup := x.escIdx[a]; dup {
				// every order must have an escrow account of its own: two pending orders sharing one would pay each other's funds out
				x.fail("C20:two-orders-share-an-escrow-address", fmt.Sprintf("order (kind %d, id %d) and order (kind %d, id %d) have the same escrow address %s", prev[0], prev[1], kind, id, a))
			}
			x.escIdx[a] = [2]int{kind, int(id)}
		}
	}
	m.RefreshPrices()
	if err := w.EndBlock(5); err != nil {
		t.Fatalf("first block: %v", err)
	}
	s0 := x.snap()
	var init []string
	for i, v := range s0.user {
		for d := range c20Denoms {
			init = append(init, fmt.Sprintf("(%d,%d,%s)", i, d, zstr(v[d].BigInt())))
		}
	}
	for _, op := range h.Ops {
		if x.dead {
			break
		}
		x.exec(op)
	}
	col.Distinct(x.fp.String(), x.nontrivial)
	col.Sample(h)
	col.mu.Lock()
	add := func(k string, n int) {
		v, _ := col.rep.Extra[k].(int)
		col.rep.Extra[k] = v + n
	}
	add("failed_attempts_that_changed_the_order_or_its_escrow", x.drained)
	add("owner_cancels_rejected", x.cancelRejected)
	add("price_keeper_vs_exact_ratio_comparisons", x.priceCmp)
	add("price_from_keeper_no_oracle_record", x.noOracle)
	add("price_unit_value_rounds_to_zero", x.unitZero)
	add("verdict_withheld_exact_price_within_2ulp_of_rate", x.ambig)
	add("trigger_met_by_exact_price_but_skipped", x.metButSkipped)
	add("order_attempts_on_18_decimals_asset", x.wethAttempts)
	col.mu.Unlock()
	return fmt.Sprintf("mkPC (mkC %d [%s] [\n  %s])\n  [%s]", h.ID, strings.Join(init, ";"), strings.Join(x.steps, ";\n  "), strings.Join(x.pchecks, "; "))
}

func TestC20(t *testing.T) {
	seed := envInt("VERIF_SEED", 1)
	col := NewCollector("C20", seed)
	n := 120
	if tier() == "thorough" {
		n = 1200
	}
	n = int(envInt("VERIF_N", int64(n)))
	var hists []c20Hist
	var one c20Hist
	if loadReplay(&one) {
		hists = []c20Hist{one}
	} else {
		hists = append(hists, c20Corpus()...)
		for i := len(hists); i < n; i++ {
			hists = append(hists, c20Gen(NewRng(uint64(seed), uint64(i)), i))
		}
	}
	RunParallel(len(hists), func(i int) {
		h := hists[i]
		h.ID = i
		if txt := c20Exec(t, col, h); txt != "" {
			col.Case(i, txt)
		}
	})
	header := "From Coq Require Import ZArith List Bool.\nFrom Elys Require Import Base.Res Models.Shield Run.ShieldRun Models.ShieldPrice Run.ShieldPriceRun.\nImport ListNotations.\nOpen Scope Z_scope.\n"
	footer := fmt.Sprintf("Definition M := Eval vm_compute in mismatches %v (map pc_case cases) ++ price_mismatches %v cases.\nPrint M.\n", c20Fixed, c20PriceFixed)
	col.Finish(t, len(hists), header, footer, 6)
}

var _ = abci.Event{}

// corpus: minimised histories that matter (run first on every check)
func c20Corpus() []c20Hist {
	return []c20Hist{
		{Ops: []c20Op{ // perpetual limit open whose Open fails AFTER the collateral moved (pool health), executed by a third party
			{Op: "perp_create", U: 0, Typ: 1, Rate: 0, Amt: "14000000000", Lev: "6"},
			{Op: "execute", U: 2, Idx2: []int{0}},
			{Op: "perp_cancel", U: 0, Idx: []int{0}, Own: true}}},
		{Ops: []c20Op{ // clean failure: borrow above the pool depth; the escrow is back in the wallet, the order stays, cancel is refused
			{Op: "perp_create", U: 1, Typ: 1, Den: 1, Rate: 0, Amt: "3000000000", Lev: "6"},
			{Op: "execute", U: 2, Idx2: []int{0}},
			{Op: "perp_cancel", U: 1, Idx: []int{0}, Own: true},
			{Op: "execute", U: 1, Idx2: []int{0}}}},
		{Ops: []c20Op{ // spot life cycle: limit sell at the market, third-party execute, block settles the swap; stop loss untriggered -> panic
			{Op: "spot_create", U: 0, Typ: 1, Pair: 0, Rate: 0, Amt: "1000000"},
			{Op: "spot_create", U: 0, Typ: 0, Pair: 0, Rate: 4, Amt: "2000000"},
			{Op: "spot_create", U: 1, Typ: 2, Pair: 1, Rate: 4, Amt: "3000000"},
			{Op: "execute", U: 2, Idx: []int{1}},
			{Op: "spot_update", U: 2, Idx: []int{0}, Typ: 1, Rate: 4},
			{Op: "spot_cancel", U: 2, Idx: []int{0}},
			{Op: "spot_cancels", U: 2, Idx: []int{0, 1}},
			{Op: "execute", U: 2, Idx: []int{0}},
			{Op: "blocks", N: 1, DT: 5},
			{Op: "send", U: 3, Kind: 0, Idx: []int{0}, D: 2, Amt: "777"},
			{Op: "spot_cancel", U: 0, Idx: []int{0}, Own: true},
			{Op: "spot_cancels", U: 1, Idx: []int{0}, Own: true}}},
		{Ops: []c20Op{ // perpetual orders at / beside the trigger, non-owner update and cancel, owner cancel
			{Op: "perp_create", U: 0, Typ: 1, Rate: 2, Amt: "10000000", Lev: "3"},
			{Op: "perp_create", U: 1, Typ: 2, Rate: 1, Amt: "10000000", Lev: "2"},
			{Op: "execute", U: 3, Idx2: []int{0, 1}},
			{Op: "perp_update", U: 3, Idx: []int{0}, Rate: 0},
			{Op: "perp_cancel", U: 3, Idx: []int{0}},
			{Op: "perp_cancels", U: 3, Idx: []int{0, 1}},
			{Op: "price_to", Kind: 1, Idx: []int{0}, Off: 0},
			{Op: "execute", U: 3, Idx2: []int{0, 1}},
			{Op: "perp_cancel", U: 1, Idx: []int{0}, Own: true},
			{Op: "blocks", N: 1, DT: 5}}},
		{Ops: []c20Op{ // 18 decimals: aweth at 2000.6 USD, limit sell of 1 WETH at 2000.8 USD (rate 2.0008e-9 uusdc per aweth), third-party execute:
			// the exact market price 2.0006e-9 is below the limit; the code values one aweth at 2001e-18 USD and sells
			{Op: "price_abs", D: 3, RAbs: "2000.6"},
			{Op: "spot_create", U: 0, Typ: 1, Pair: 5, RAbs: "0.0000000020008", Amt: "1000000", Sc: 1},
			{Op: "execute", U: 2, Idx: []int{0}},
			{Op: "blocks", N: 1, DT: 5}}},
		{Ops: []c20Op{ // 6 decimals, 13th digit: uatom at 5.0000000000004, stop loss at 5.0000000000002 executed although the market is above it
			{Op: "price_abs", D: 1, RAbs: "5.0000000000004"},
			{Op: "spot_create", U: 1, Typ: 0, Pair: 0, RAbs: "5.0000000000002", Amt: "1000000"},
			{Op: "execute", U: 3, Idx: []int{0}}}},
		{Ops: []c20Op{ // 18 decimals below 0.5 USD: the per-base-unit value 0.4e-18 rounds to ZERO, the oracle record is dropped; the amm spot price
			// substituted for it is zero for the same reason: ErrPriceNotFound, no order on the pair can execute (funds safe; counted in extra)
			{Op: "price_abs", D: 3, RAbs: "0.4"},
			{Op: "spot_create", U: 0, Typ: 1, Pair: 5, RAbs: "0.0000000000005", Amt: "1000000", Sc: 1}, // limit sell at 0.5 USD per WETH, market 0.4
			{Op: "execute", U: 2, Idx: []int{0}}}},
		{Ops: []c20Op{ // mixed decimals, both directions, triggers that ARE / are NOT met by a wide margin; perpetual orders on aweth in pool 2
			{Op: "spot_create", U: 0, Typ: 1, Pair: 5, Rate: 3, Amt: "2000000", Sc: 1},  // limit sell aweth above the market: stays
			{Op: "spot_create", U: 1, Typ: 2, Pair: 6, Rate: 3, Amt: "50000000"},        // limit buy uusdc->aweth, rate above the market: executes
			{Op: "spot_create", U: 2, Typ: 0, Pair: 7, Rate: 4, Amt: "1000000", Sc: 1},  // stop loss aweth/uatom below the market: stays
			{Op: "execute", U: 3, Idx: []int{1}},
			{Op: "execute", U: 3, Idx: []int{0}},
			{Op: "price", D: 3, P: "1.25"},
			{Op: "execute", U: 3, Idx: []int{0}},
			{Op: "perp_create", U: 0, Typ: 1, Ast: 1, Rate: 2, Amt: "100000000", Lev: "2"},
			{Op: "perp_create", U: 1, Typ: 2, Ast: 1, Rate: 1, Amt: "100000000", Lev: "2"},
			{Op: "execute", U: 3, Idx2: []int{0, 1}},
			{Op: "price_to", Kind: 1, Idx: []int{0}, Off: 0},
			{Op: "execute", U: 3, Idx2: []int{0}},
			{Op: "spot_cancel", U: 2, Idx: []int{0}, Own: true},
			{Op: "blocks", N: 1, DT: 5}}},
	}
}
