package harness

// Market fixture shared by the drivers: asset profiles, oracle asset infos and prices, AMM
// parameters, an oracle pool (uusdc/uatom, leverage + perpetual enabled), a constant-product pool
// with unequal weights (uusdc/uelys) and a funded stable-stake vault. Everything that has a
// message is done by sending the real message through the router.

import (
	"fmt"
	"sort"
	"strings"

	sdkmath "cosmossdk.io/math"
	sdk "github.com/cosmos/cosmos-sdk/types"

	elysapp "github.com/elys-network/elys/app"
	ammtypes "github.com/elys-network/elys/x/amm/types"
	atypes "github.com/elys-network/elys/x/assetprofile/types"
	levtypes "github.com/elys-network/elys/x/leveragelp/types"
	oracletypes "github.com/elys-network/elys/x/oracle/types"
	sstypes "github.com/elys-network/elys/x/stablestake/types"
)

const (
	USDC = "uusdc"
	ATOM = "uatom"
	ELYS = "uelys"
	WETH = "aweth" // optional 18-decimals asset (MarketOpts.Extra18)
)

type Market struct {
	W        *World
	Users    []sdk.AccAddress
	Provider sdk.AccAddress // oracle price provider (fixture)
	Prices   map[string]sdkmath.LegacyDec
	Display  map[string]string
	OraclePool uint64 // uusdc/uatom, UseOracle, leverage + perpetual enabled
	CPPool     uint64 // uusdc/uelys constant product, weights 1:3
	OraclePool2 uint64 // optional (Extra18): uusdc/aweth, UseOracle, leverage + perpetual enabled; aweth has 18 decimals and a price far from 1
}

func dec(s string) sdkmath.LegacyDec { return sdkmath.LegacyMustNewDecFromStr(s) }
func I(x int64) sdkmath.Int          { return sdkmath.NewInt(x) }

func (m *Market) must(what string, r TxResult) {
	if !r.OK() {
		m.W.T.Fatalf("fixture %s: err=%v panic=%v\n%s", what, r.Err, r.Panic, r.Stack)
	}
}

// SetPrice writes an oracle price at the current block time (fixture-level feeder).
func (m *Market) SetPrice(denom string, p sdkmath.LegacyDec) {
	ctx := m.W.Ctx()
	m.Prices[denom] = p
	m.W.App.OracleKeeper.SetPrice(ctx, oracletypes.Price{
		Asset: m.Display[denom], Price: p, Source: "elys", Provider: m.Provider.String(),
		Timestamp: uint64(ctx.BlockTime().Unix()), BlockHeight: uint64(ctx.BlockHeight()),
	})
}

// RefreshPrices re-feeds every price (the oracle end-blocker expires old ones).
func (m *Market) RefreshPrices() {
	ds := make([]string, 0, len(m.Prices))
	for d := range m.Prices {
		ds = append(ds, d)
	}
	sort.Strings(ds)
	for _, d := range ds {
		m.SetPrice(d, m.Prices[d])
	}
}

type MarketOpts struct {
	Users       int
	UserFunds   int64 // of each of uusdc, uatom, uelys
	OracleUSDC  int64
	OracleATOM  int64
	CPUSDC      int64
	CPELYS      int64
	SwapFee     string
	VaultFunds  int64 // bonded by the last user
	NoLeverage  bool
	NoCPPool    bool
	AtomPrice   string
	OracleWeights [2]int64
	Extra18     bool   // adds aweth (18 decimals, price WethPrice) to every user and a second oracle pool uusdc/aweth
	WethPrice   string // default 2000.0
}

func DefaultMarketOpts() MarketOpts {
	return MarketOpts{Users: 6, UserFunds: 1_000_000_000_000, OracleUSDC: 5_000_000_000_000 / 50, OracleATOM: 1_000_000_000_000 / 50,
		CPUSDC: 30_000_000_000, CPELYS: 10_000_000_000, SwapFee: "0.003", VaultFunds: 200_000_000_000, AtomPrice: "5.0", OracleWeights: [2]int64{10, 10}}
}

func NewMarket(w *World, o MarketOpts) *Market {
	m := &Market{W: w, Prices: map[string]sdkmath.LegacyDec{}, Display: map[string]string{USDC: "USDC", ATOM: "ATOM", ELYS: "ELYS"}}
	app := w.App
	ctx := w.Ctx()
	m.Provider = Addr(900)
	elysapp.SetupAssetProfile(app, ctx) // uusdc
	for _, d := range []string{ATOM, ELYS, "ueden", "uedenb"} {
		app.AssetprofileKeeper.SetEntry(ctx, atypes.Entry{BaseDenom: d, Denom: d, Decimals: 6, DisplayName: strings.ToUpper(d[1:]), CommitEnabled: true, WithdrawEnabled: true})
	}
	for _, d := range []string{USDC, ATOM, ELYS} {
		app.OracleKeeper.SetAssetInfo(ctx, oracletypes.AssetInfo{Denom: d, Display: m.Display[d], Decimal: 6})
	}
	m.SetPrice(USDC, dec("1.0"))
	m.SetPrice(ATOM, dec(o.AtomPrice))
	m.SetPrice(ELYS, dec("3.0"))
	e12 := sdkmath.NewInt(1_000_000_000_000)
	if o.Extra18 {
		if o.WethPrice == "" {
			o.WethPrice = "2000.0"
		}
		m.Display[WETH] = "WETH"
		app.AssetprofileKeeper.SetEntry(ctx, atypes.Entry{BaseDenom: WETH, Denom: WETH, Decimals: 18, DisplayName: "WETH", CommitEnabled: true, WithdrawEnabled: true})
		app.OracleKeeper.SetAssetInfo(ctx, oracletypes.AssetInfo{Denom: WETH, Display: "WETH", Decimal: 18})
		m.SetPrice(WETH, dec(o.WethPrice))
	}
	for i := 0; i < o.Users; i++ {
		a := Addr(i)
		m.Users = append(m.Users, a)
		w.Mint(a, sdk.NewCoins(sdk.NewCoin(USDC, I(o.UserFunds)), sdk.NewCoin(ATOM, I(o.UserFunds)), sdk.NewCoin(ELYS, I(o.UserFunds))))
		if o.Extra18 {
			w.Mint(a, sdk.NewCoins(sdk.NewCoin(WETH, I(o.UserFunds).Mul(e12).QuoRaw(100)))) // 1/100 of the whole-token count of the others
		}
	}
	creator := m.Users[0]
	// amm params: allow the creator, base asset uusdc
	ap := app.AmmKeeper.GetParams(ctx)
	ap.AllowedPoolCreators = []string{creator.String()}
	ap.BaseAssets = []string{USDC}
	m.must("amm params", w.Deliver(&ammtypes.MsgUpdateParams{Authority: w.Gov, Params: &ap}))
	mk := func(useOracle bool, a, b sdk.Coin, wa, wb int64) uint64 {
		assets := []ammtypes.PoolAsset{
			{Token: a, Weight: I(wa), ExternalLiquidityRatio: dec("1")},
			{Token: b, Weight: I(wb), ExternalLiquidityRatio: dec("1")},
		}
		sort.Slice(assets, func(i, j int) bool { return assets[i].Token.Denom < assets[j].Token.Denom })
		before := app.AmmKeeper.GetAllPool(w.QCtx())
		m.must("create pool", w.Deliver(&ammtypes.MsgCreatePool{Sender: creator.String(),
			PoolParams: ammtypes.PoolParams{SwapFee: dec(o.SwapFee), UseOracle: useOracle, FeeDenom: USDC},
			PoolAssets: assets}))
		after := app.AmmKeeper.GetAllPool(w.QCtx())
		if len(after) != len(before)+1 {
			w.T.Fatalf("pool not created")
		}
		return after[len(after)-1].PoolId
	}
	m.OraclePool = mk(true, sdk.NewCoin(USDC, I(o.OracleUSDC)), sdk.NewCoin(ATOM, I(o.OracleATOM)), o.OracleWeights[0], o.OracleWeights[1])
	if !o.NoCPPool {
		m.CPPool = mk(false, sdk.NewCoin(USDC, I(o.CPUSDC)), sdk.NewCoin(ELYS, I(o.CPELYS)), 1, 3)
	}
	if o.Extra18 {
		// same USD value on both sides at the fixture price: OracleUSDC/price whole WETH
		weth := dec(fmt.Sprint(o.OracleUSDC)).Quo(dec(o.WethPrice)).MulInt(e12).TruncateInt()
		m.OraclePool2 = mk(true, sdk.NewCoin(USDC, I(o.OracleUSDC)), sdk.NewCoin(WETH, weth), o.OracleWeights[0], o.OracleWeights[1])
	}
	if o.VaultFunds > 0 {
		m.must("bond", w.Deliver(&sstypes.MsgBond{Creator: m.Users[o.Users-1].String(), Amount: I(o.VaultFunds)}))
	}
	if !o.NoLeverage {
		m.must("leveragelp add pool", w.Deliver(&levtypes.MsgAddPool{Authority: w.Gov, Pool: levtypes.AddPool{AmmPoolId: m.OraclePool, LeverageMax: dec("10")}}))
		if o.Extra18 {
			m.must("leveragelp add pool 2", w.Deliver(&levtypes.MsgAddPool{Authority: w.Gov, Pool: levtypes.AddPool{AmmPoolId: m.OraclePool2, LeverageMax: dec("10")}}))
		}
	}
	return m
}

func (m *Market) User(i int) string { return m.Users[i%len(m.Users)].String() }

func (m *Market) String() string {
	return fmt.Sprintf("market{oracle pool %d, cp pool %d, %d users}", m.OraclePool, m.CPPool, len(m.Users))
}
