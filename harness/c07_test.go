package harness

// C07 driver: the stable-stake vault of the real application under histories that mix bond / unbond
// by several lenders (dust, rate-adversarial and huge amounts) with borrowing, interest accrual and
// repayment (the keeper's own Borrow / Repay / UpdateInterestAndGetDebt called on cache contexts, and
// the real leveragelp MsgOpen / MsgClose flows), so that the redemption rate is non-integral.
// It emits (a) Coq cases for the correspondence with Models/Stable.v (result kind, TotalValue, share
// supply, module balance, wallets, committed shares, debts after every step) and (b) evaluates the
// property's own predicates on the implementation's numbers only (independent of the model).

import (
	"errors"
	"fmt"
	"math/big"
	"runtime/debug"
	"sort"
	"strings"
	"testing"

	sdkmath "cosmossdk.io/math"
	abci "github.com/cometbft/cometbft/abci/types"
	sdk "github.com/cosmos/cosmos-sdk/types"
	authtypes "github.com/cosmos/cosmos-sdk/x/auth/types"

	levtypes "github.com/elys-network/elys/x/leveragelp/types"
	sstypes "github.com/elys-network/elys/x/stablestake/types"
)

type c07Op struct {
	Op  string `json:"op"` // bond unbond roundtrip probe kborrow krepay kaccrue lev_open lev_close blocks
	U   int    `json:"u,omitempty"`
	Sel int    `json:"sel,omitempty"` // amount selector, resolved against the current state
	Amt string `json:"amt,omitempty"` // absolute amount; overrides Sel
	Lev string `json:"lev,omitempty"`
	Dt  int64  `json:"dt,omitempty"`
	Rnd uint64 `json:"rnd,omitempty"` // randomness for state-relative amounts
}

type c07Hist struct {
	ID   int     `json:"id"`
	Huge string  `json:"huge,omitempty"` // extra uusdc minted to every user and borrower (decimal), "" = none
	Ops  []c07Op `json:"ops"`
	Note string  `json:"note,omitempty"`
}

const (
	c07Users     = 6
	c07Borrowers = 2
)

var (
	c07P    = new(big.Int).Exp(big.NewInt(10), big.NewInt(18), nil)
	c07Half = new(big.Int).Div(c07P, big.NewInt(2))
)

func bmul(a, b *big.Int) *big.Int { return new(big.Int).Mul(a, b) }
func badd(a, b *big.Int) *big.Int { return new(big.Int).Add(a, b) }
func bsub(a, b *big.Int) *big.Int { return new(big.Int).Sub(a, b) }
func bdiv(a, b *big.Int) *big.Int { return new(big.Int).Quo(a, b) }
func bmax(a, b *big.Int) *big.Int {
	if a.Cmp(b) >= 0 {
		return a
	}
	return b
}
func c07Big(s string) *big.Int {
	x, ok := new(big.Int).SetString(s, 10)
	if !ok {
		panic("bad integer " + s)
	}
	return x
}

// ---------------------------------------------------------------- generator

func c07Gen(r *Rng, id int) c07Hist {
	h := c07Hist{ID: id}
	if r.Chance(30) {
		h.Huge = new(big.Int).Exp(big.NewInt(10), big.NewInt(int64(13+r.Intn(21))), nil).String()
	}
	// make the rate non-integral first: borrow, let time pass, stack the interest
	h.Ops = append(h.Ops,
		c07Op{Op: "kborrow", U: 0, Sel: 3 + r.Intn(3), Rnd: r.Next()},
		c07Op{Op: "blocks", Dt: r.Pick(3600, 86400, 7*86400, 30*86400)},
		c07Op{Op: "kaccrue", U: 0})
	if h.Huge != "" {
		h.Ops = append(h.Ops, c07Op{Op: "bond", U: r.Intn(3), Sel: 9, Rnd: r.Next()}, c07Op{Op: "bond", U: 3, Sel: 8, Rnd: r.Next()},
			c07Op{Op: "kborrow", U: 1, Sel: 3, Rnd: r.Next()}, c07Op{Op: "blocks", Dt: r.Pick(86400, 7*86400)}, c07Op{Op: "kaccrue", U: 1})
	}
	if r.Chance(30) {
		u := r.Intn(c07Users)
		h.Ops = append(h.Ops, c07Op{Op: "bond", U: u, Sel: 12, Rnd: r.Next()}, c07Op{Op: "blocks", Dt: 5}, c07Op{Op: "unbond", U: u, Sel: 9, Rnd: r.Next() &^ 3})
	}
	n := 28 + r.Intn(22)
	for k := 0; k < n; k++ {
		x := r.Intn(100)
		u := r.Intn(c07Users)
		switch {
		case x < 22:
			h.Ops = append(h.Ops, c07Op{Op: "bond", U: u, Sel: r.Intn(15), Rnd: r.Next()})
		case x < 42:
			h.Ops = append(h.Ops, c07Op{Op: "unbond", U: u, Sel: r.Intn(13), Rnd: r.Next()})
		case x < 52:
			h.Ops = append(h.Ops, c07Op{Op: "roundtrip", U: u, Sel: r.Intn(13), Rnd: r.Next()})
		case x < 58:
			h.Ops = append(h.Ops, c07Op{Op: "probe", U: u, Rnd: r.Next()})
		case x < 66:
			h.Ops = append(h.Ops, c07Op{Op: "kborrow", U: r.Intn(c07Borrowers), Sel: r.Intn(8), Rnd: r.Next()})
		case x < 74:
			h.Ops = append(h.Ops, c07Op{Op: "krepay", U: r.Intn(c07Borrowers), Sel: r.Intn(9), Rnd: r.Next()})
		case x < 78:
			h.Ops = append(h.Ops, c07Op{Op: "kaccrue", U: r.Intn(c07Borrowers)})
		case x < 84:
			h.Ops = append(h.Ops, c07Op{Op: "lev_open", U: u, Amt: r.Decade(6, 10).String(), Lev: []string{"1.5", "2", "3", "4.7", "5"}[r.Intn(5)]})
		case x < 89:
			h.Ops = append(h.Ops, c07Op{Op: "lev_close", U: u, Sel: r.Intn(3), Rnd: r.Next()})
		default:
			h.Ops = append(h.Ops, c07Op{Op: "blocks", Dt: r.Pick(5, 5, 60, 3600, 86400, 3*86400)})
		}
	}
	return h
}

// ---------------------------------------------------------------- run state

type c07Acct struct{ W, Sh, B, St, Pd *big.Int }
type c07Snap struct {
	TV, S, Cash, Rate *big.Int
	A                 []c07Acct
	HasDebt           []bool
}

type c07Run struct {
	t      *testing.T
	w      *World
	m      *Market
	col    *Collector
	h      c07Hist
	mod    sdk.AccAddress
	addrs  []sdk.AccAddress
	idxOf  map[string]int
	mw     []*big.Int // the model's wallet of every account (mirror)
	prev   c07Snap
	steps  []string
	k      int // current op index
	nontr  bool
	fp     strings.Builder
	maxOth *big.Int // largest loss of the pre-existing shares seen, in 10^-18 base units
}

func (x *c07Run) fail(sig, detail string) {
	x.col.Violate(Violation{Signature: sig, Detail: detail, History: x.h.ID, Step: x.k, Replay: x.h})
}

func (x *c07Run) idx(a sdk.AccAddress) int {
	if i, ok := x.idxOf[a.String()]; ok {
		return i
	}
	i := len(x.addrs)
	x.addrs = append(x.addrs, a)
	x.idxOf[a.String()] = i
	x.mw = append(x.mw, new(big.Int))
	z := func() *big.Int { return new(big.Int) }
	x.prev.A = append(x.prev.A, c07Acct{z(), z(), z(), z(), z()})
	x.prev.HasDebt = append(x.prev.HasDebt, false)
	return i
}

func (x *c07Run) snapCtx(ctx sdk.Context) c07Snap {
	app := x.w.App
	s := c07Snap{}
	s.TV = app.StablestakeKeeper.GetParams(ctx).TotalValue.BigInt()
	s.S = app.BankKeeper.GetSupply(ctx, sstypes.GetShareDenom()).Amount.BigInt()
	s.Cash = app.BankKeeper.GetBalance(ctx, x.mod, USDC).Amount.BigInt()
	s.Rate = app.StablestakeKeeper.GetRedemptionRate(ctx).BigInt()
	debts := map[string]sstypes.Debt{}
	for _, d := range app.StablestakeKeeper.GetAllDebts(ctx) {
		debts[d.Address] = d
		x.idx(sdk.MustAccAddressFromBech32(d.Address))
	}
	for _, a := range x.addrs {
		c := app.CommitmentKeeper.GetCommitments(ctx, a)
		ac := c07Acct{W: app.BankKeeper.GetBalance(ctx, a, USDC).Amount.BigInt(), Sh: c.GetCommittedAmountForDenom(sstypes.GetShareDenom()).BigInt(),
			B: new(big.Int), St: new(big.Int), Pd: new(big.Int)}
		d, ok := debts[a.String()]
		if ok {
			ac.B, ac.St, ac.Pd = d.Borrowed.BigInt(), d.InterestStacked.BigInt(), d.InterestPaid.BigInt()
		}
		s.A = append(s.A, ac)
		s.HasDebt = append(s.HasDebt, ok)
	}
	return s
}
func (x *c07Run) snap() c07Snap { return x.snapCtx(x.w.QCtx()) }

func (a c07Acct) eq(b c07Acct) bool {
	return a.W.Cmp(b.W) == 0 && a.Sh.Cmp(b.Sh) == 0 && a.B.Cmp(b.B) == 0 && a.St.Cmp(b.St) == 0 && a.Pd.Cmp(b.Pd) == 0
}

// emit records one model step; [after] is the implementation's state after it.
func (x *c07Run) emit(pre, main []string, kind string, actors []int, after c07Snap) {
	kd := map[string]int{"ok": 0, "err": 1, "panic": 2}[kind]
	var obs []string
	listed := map[int]bool{}
	for _, a := range actors {
		listed[a] = true
	}
	for i := range after.A {
		if i >= len(x.prev.A) || !after.A[i].eq(x.prev.A[i]) {
			listed[i] = true
		}
	}
	is := make([]int, 0, len(listed))
	for i := range listed {
		is = append(is, i)
	}
	sort.Ints(is)
	for _, i := range is {
		a := after.A[i]
		obs = append(obs, fmt.Sprintf("ao %d %s %s %s %s %s", i, zstr(a.W), zstr(a.Sh), zstr(a.B), zstr(a.St), zstr(a.Pd)))
	}
	x.steps = append(x.steps, fmt.Sprintf("mkStep [%s] [%s] %d (mkO %s %s %s [%s])", strings.Join(pre, "; "), strings.Join(main, "; "), kd,
		zstr(after.TV), zstr(after.S), zstr(after.Cash), strings.Join(obs, "; ")))
	x.prev = after
	for i := range after.A {
		x.mw[i] = new(big.Int).Set(after.A[i].W)
	}
}

// keeperTx runs a keeper call as one atomic transaction (cache context written on success only).
func (x *c07Run) keeperTx(f func(ctx sdk.Context) error) (res TxResult) {
	base := x.w.Ctx()
	cctx, write := base.CacheContext()
	cctx = cctx.WithEventManager(sdk.NewEventManager())
	defer func() {
		if r := recover(); r != nil {
			res = TxResult{Panic: r, Stack: string(debug.Stack())}
		}
	}()
	if err := f(cctx); err != nil {
		return TxResult{Err: err}
	}
	write()
	return TxResult{Events: cctx.EventManager().ABCIEvents()}
}

// presync: wallets that moved outside any recorded step (fixtures) become OExt ops.
func (x *c07Run) presync(cur c07Snap) []string {
	var pre []string
	for i := range cur.A {
		if d := bsub(cur.A[i].W, x.mw[i]); d.Sign() != 0 {
			pre = append(pre, fmt.Sprintf("OExt %d %s", i, zstr(d)))
			x.mw[i] = new(big.Int).Set(cur.A[i].W)
		}
	}
	return pre
}

// ---------------------------------------------------------------- implementation-side predicates

// after a successful bond/unbond: what the shares that existed before are worth (exact rational)
func (x *c07Run) checkShareOp(what string, before, after c07Snap, sh *big.Int) {
	x.col.ImplCheck(1)
	if before.S.Sign() <= 0 || before.TV.Sign() < 0 || before.Rate.Sign() <= 0 || after.S.Sign() <= 0 {
		return
	}
	// the OTHER lenders hold So = min(S, S') shares (S before a bond, S' after an unbond); what these are
	// worth falls by So*(TV/S - TV'/S') = (TV*S' - TV'*S)/den, den = S' for a bond and S for an unbond
	num := bsub(bmul(before.TV, after.S), bmul(after.TV, before.S))
	den := after.S
	if what != "bond" {
		den = before.S
	}
	// proved bound (Coq: step_share_value): 2 P^2 num <= S * slack
	var slack *big.Int
	if what == "bond" {
		slack = badd(bmul(badd(c07P, big.NewInt(1)), before.Rate), bmul(badd(c07P, big.NewInt(2)), sh))
	} else {
		slack = bmul(c07P, badd(sh, c07P))
	}
	if bmul(bmul(big.NewInt(2), bmul(c07P, c07P)), num).Cmp(bmul(before.S, slack)) > 0 {
		x.fail("C07:others-value-exceeds-proved-bound", fmt.Sprintf("%s of %s shares at TV=%s S=%s: TV'=%s S'=%s", what, sh, before.TV, before.S, after.TV, after.S))
	}
	// proved bound on the code's own rate (Coq: step_code_rate): 2 P S' (r - r' - 1) < slack + 2 S'
	lhs := bmul(bmul(big.NewInt(2), bmul(c07P, after.S)), bsub(bsub(before.Rate, after.Rate), big.NewInt(1)))
	if lhs.Cmp(badd(slack, bmul(big.NewInt(2), after.S))) >= 0 {
		x.fail("C07:code-rate-drop-exceeds-proved-bound", fmt.Sprintf("%s of %s shares: rate %s -> %s at S'=%s", what, sh, before.Rate, after.Rate, after.S))
	}
	// the property as stated: the loss is at most one share's worth (the code's rate before the step)
	if num.Sign() > 0 {
		l18 := bdiv(bmul(num, c07P), den)
		if l18.Cmp(x.maxOth) > 0 {
			x.maxOth = l18
		}
		if bmul(num, c07P).Cmp(bmul(before.Rate, den)) > 0 && before.TV.Cmp(before.S) >= 0 {
			// proved impossible (Coq: bond/unbond_others_one_share) while the operation moves at most 5*10^17 shares;
			// above that the 10^-18 resolution of the stored rate is worth more than one share (C07_others_one_share_refuted)
			sig := "C07:others-value-reduced-beyond-one-share"
			if sh.Cmp(c07Half) > 0 {
				sig = "C07:others-value-reduced-beyond-one-share:operation-above-5e17-shares"
			}
			x.fail(sig, fmt.Sprintf(
				"%s of %s shares by one lender at TV=%s S=%s rate=%s: the other shares lose %s/1e18 base units of redeemable value (> one share = %s/1e18)",
				what, sh, before.TV, before.S, before.Rate, l18, before.Rate))
		}
	}
}

// after any step that is not a bond/unbond the value of a share must not fall at all
func (x *c07Run) checkOtherOp(what string, before, after c07Snap) {
	x.col.ImplCheck(1)
	if after.S.Cmp(before.S) != 0 || after.TV.Cmp(before.TV) < 0 || after.Rate.Cmp(before.Rate) < 0 {
		x.fail("C07:share-value-fell-without-share-op", fmt.Sprintf("%s: TV %s -> %s, supply %s -> %s, rate %s -> %s", what, before.TV, after.TV, before.S, after.S, before.Rate, after.Rate))
	}
}

// the cap as the property states it, on the numbers the implementation held when it decided
func capOK(tv, cash, amt *big.Int) bool {
	return bmul(big.NewInt(10), badd(bsub(tv, cash), amt)).Cmp(bmul(big.NewInt(9), tv)) <= 0
}

// round trip: deposit a, withdraw the minted shares at once, on the given context
func (x *c07Run) roundTripOn(ctx sdk.Context, u int, a *big.Int) (ok bool, sh, gain *big.Int) {
	app := x.w.App
	addr := x.addrs[u]
	w0 := app.BankKeeper.GetBalance(ctx, addr, USDC).Amount.BigInt()
	c0 := app.CommitmentKeeper.GetCommitments(ctx, addr)
	s0 := c0.GetCommittedAmountForDenom(sstypes.GetShareDenom()).BigInt()
	defer func() {
		if r := recover(); r != nil {
			ok = false
		}
	}()
	bm := &sstypes.MsgBond{Creator: addr.String(), Amount: sdkmath.NewIntFromBigInt(a)}
	if bm.ValidateBasic() != nil {
		return false, nil, nil
	}
	if _, err := app.MsgServiceRouter().Handler(bm)(ctx, bm); err != nil {
		return false, nil, nil
	}
	c1 := app.CommitmentKeeper.GetCommitments(ctx, addr)
	sh = bsub(c1.GetCommittedAmountForDenom(sstypes.GetShareDenom()).BigInt(), s0)
	if sh.Sign() > 0 {
		um := &sstypes.MsgUnbond{Creator: addr.String(), Amount: sdkmath.NewIntFromBigInt(sh)}
		if _, err := app.MsgServiceRouter().Handler(um)(ctx, um); err != nil {
			return false, sh, nil
		}
	}
	w1 := app.BankKeeper.GetBalance(ctx, addr, USDC).Amount.BigInt()
	return true, sh, bsub(w1, w0)
}

func (x *c07Run) checkRoundTrip(before c07Snap, a, sh, gain *big.Int, where string) {
	x.col.ImplCheck(1)
	if before.S.Sign() <= 0 || before.TV.Cmp(before.S) < 0 {
		return // the property is stated for redemption rates >= 1
	}
	if bmul(gain, c07P).Cmp(before.Rate) > 0 {
		x.fail("C07:roundtrip-gain-exceeds-one-share", fmt.Sprintf("%s: deposit %s at TV=%s S=%s rate=%s minted %s shares, immediate redemption returned %s more than deposited",
			where, a, before.TV, before.S, before.Rate, sh, gain))
	}
}

// ---------------------------------------------------------------- amounts

func (x *c07Run) bondAmount(op c07Op, cur c07Snap) *big.Int {
	if op.Amt != "" {
		return c07Big(op.Amt)
	}
	r := NewRng(op.Rnd, 7)
	wal := cur.A[op.U].W
	rate := cur.Rate
	if rate.Sign() <= 0 {
		rate = c07P
	}
	switch op.Sel {
	case 0:
		return big.NewInt(1)
	case 1:
		return big.NewInt(int64(2 + r.Intn(19)))
	case 2, 3, 4: // rate-adversarial: just above / at / below (k + 1/2) shares' worth
		k := big.NewInt(int64(r.Intn(4)))
		if op.Sel == 4 {
			k = r.Decade(0, 9)
		}
		num := bmul(badd(bmul(k, big.NewInt(2)), big.NewInt(1)), rate) // (2k+1) r
		a := bdiv(num, bmul(big.NewInt(2), c07P))
		return bmax(big.NewInt(1), badd(a, big.NewInt(int64(r.Intn(3)-1))))
	case 5:
		return r.Decade(0, 12)
	case 6:
		return bmax(big.NewInt(1), bdiv(wal, big.NewInt(3)))
	case 7:
		return bmax(big.NewInt(1), bsub(wal, big.NewInt(1)))
	case 8:
		return bmax(big.NewInt(1), new(big.Int).Set(wal))
	case 9:
		return bmax(big.NewInt(1), bdiv(wal, big.NewInt(int64(2+r.Intn(9)))))
	case 10:
		return badd(wal, big.NewInt(1))
	case 11: // whole shares' worth exactly
		k := r.Decade(0, 6)
		return bmax(big.NewInt(1), bdiv(bmul(k, rate), c07P))
	case 12: // as much as the whole vault: afterwards this lender holds about half of all shares
		return bmax(big.NewInt(1), new(big.Int).Set(cur.TV))
	case 13: // invalid: zero / negative (ValidateBasic)
		return big.NewInt(0)
	case 14:
		return big.NewInt(-int64(1 + r.Intn(5)))
	default:
		if x.h.Huge != "" {
			return bmax(big.NewInt(1), r.Big(wal))
		}
		return r.Decade(3, 11)
	}
}

func (x *c07Run) unbondAmount(op c07Op, cur c07Snap) *big.Int {
	if op.Amt != "" {
		return c07Big(op.Amt)
	}
	r := NewRng(op.Rnd, 8)
	own := cur.A[op.U].Sh
	rate := cur.Rate
	if rate.Sign() <= 0 {
		rate = c07P
	}
	switch op.Sel {
	case 0:
		return big.NewInt(1)
	case 1:
		return big.NewInt(int64(2 + r.Intn(9)))
	case 2:
		return bmax(big.NewInt(1), bdiv(own, big.NewInt(3)))
	case 3:
		return bmax(big.NewInt(1), bsub(own, big.NewInt(1)))
	case 4:
		return bmax(big.NewInt(1), new(big.Int).Set(own))
	case 5:
		return badd(own, big.NewInt(1))
	case 6, 7: // as many shares as the vault's cash can pay, and one more / one less
		s := bdiv(bmul(cur.Cash, c07P), rate)
		return bmax(big.NewInt(1), badd(s, big.NewInt(int64(r.Intn(3)-1))))
	case 8:
		return bmax(big.NewInt(1), r.Big(badd(own, big.NewInt(1))))
	case 9, 10: // relative to the TOTAL share supply: exactly half of it, all of it, one unit either side (special cases of "last lender")
		t := bdiv(cur.S, big.NewInt(2))
		if op.Sel == 10 {
			t = new(big.Int).Set(cur.S)
		}
		return bmax(big.NewInt(1), badd(t, big.NewInt(int64(r.Intn(3)-1))))
	case 11: // invalid: zero / negative (ValidateBasic)
		return big.NewInt(0)
	case 12:
		return big.NewInt(-int64(1 + r.Intn(5)))
	default:
		return r.Decade(0, 11)
	}
}

func (x *c07Run) borrowAmount(op c07Op, cur c07Snap) *big.Int {
	if op.Amt != "" {
		return c07Big(op.Amt)
	}
	r := NewRng(op.Rnd, 9)
	// headroom: largest amount with 10 (TV - cash + amt) <= 9 TV
	head := bdiv(bsub(bmul(big.NewInt(9), cur.TV), bmul(big.NewInt(10), bsub(cur.TV, cur.Cash))), big.NewInt(10))
	if head.Sign() < 0 {
		head = big.NewInt(0)
	}
	switch op.Sel {
	case 0:
		return new(big.Int).Set(head)
	case 1:
		return badd(head, big.NewInt(1))
	case 2:
		return bmax(big.NewInt(0), bsub(head, big.NewInt(1)))
	case 3:
		return bmax(big.NewInt(1), bdiv(head, big.NewInt(3)))
	case 4:
		return bmax(big.NewInt(1), bdiv(head, big.NewInt(int64(7+r.Intn(50)))))
	case 5:
		return bmax(big.NewInt(1), bdiv(head, big.NewInt(2)))
	case 6:
		return big.NewInt(int64(r.Intn(3)))
	default:
		return r.Decade(0, 11)
	}
}

func (x *c07Run) repayAmount(op c07Op, cur c07Snap, pending *big.Int) *big.Int {
	if op.Amt != "" {
		return c07Big(op.Amt)
	}
	r := NewRng(op.Rnd, 10)
	a := cur.A[c07Users+op.U]
	intr := badd(bsub(a.St, a.Pd), pending)
	all := badd(a.B, intr)
	switch op.Sel {
	case 0:
		return new(big.Int).Set(intr)
	case 1:
		return bmax(big.NewInt(0), bsub(intr, big.NewInt(1)))
	case 2:
		return badd(intr, big.NewInt(1))
	case 3:
		return new(big.Int).Set(all)
	case 4:
		return bmax(big.NewInt(0), bsub(all, big.NewInt(1)))
	case 5:
		return badd(all, big.NewInt(1))
	case 6:
		return bdiv(all, big.NewInt(2))
	case 7:
		return big.NewInt(int64(r.Intn(3)))
	default:
		return r.Decade(0, 11)
	}
}

// ---------------------------------------------------------------- generic transactions (leveragelp, blocks)

// explain turns what a leveragelp transaction / a block did to the vault into model ops: interest stacked per
// debt, every transfer out of the module account = Borrow, every transfer into it = Repay, everything else
// that moved a tracked wallet = OExt. Returns the ops and evaluates the cap predicate for the borrows.
func (x *c07Run) explain(what string, evs []abci.Event, before, after c07Snap) []string {
	mod := x.mod.String()
	ops := BankOps(evs)
	for _, o := range ops {
		if o.Kind == "send" && o.Denom == USDC {
			if o.From == mod {
				x.idx(sdk.MustAccAddressFromBech32(o.To))
			} else if o.To == mod {
				x.idx(sdk.MustAccAddressFromBech32(o.From))
			}
		}
	}
	if len(after.A) < len(x.addrs) { // new accounts appeared: re-read
		after = x.snap()
	}
	n := len(after.A)
	get := func(s c07Snap, i int) c07Acct {
		if i < len(s.A) {
			return s.A[i]
		}
		z := new(big.Int)
		return c07Acct{z, z, z, z, z}
	}
	// a new account's wallet before this transaction = after - net inflow; it enters the model with an OExt
	var main []string
	net := make([]*big.Int, n)
	for i := range net {
		net[i] = new(big.Int)
	}
	for _, o := range ops {
		if o.Denom != USDC {
			continue
		}
		if i, ok := x.idxOf[o.From]; ok && (o.Kind == "send" || o.Kind == "burn") {
			net[i].Sub(net[i], o.Amt.BigInt())
		}
		if i, ok := x.idxOf[o.To]; ok && (o.Kind == "send" || o.Kind == "mint") {
			net[i].Add(net[i], o.Amt.BigInt())
		}
	}
	mwl := make([]*big.Int, n)
	for i := 0; i < n; i++ {
		if i < len(before.A) {
			mwl[i] = new(big.Int).Set(x.mw[i])
		} else {
			mwl[i] = bsub(after.A[i].W, net[i])
			if mwl[i].Sign() != 0 {
				main = append(main, fmt.Sprintf("OExt %d %s", i, zstr(mwl[i])))
			}
		}
	}
	// interest attribution
	dTV := bsub(after.TV, before.TV)
	di := make([]*big.Int, n)
	explained := new(big.Int)
	deleted := -1
	for i := 0; i < n; i++ {
		di[i] = new(big.Int)
		hadDebt := i < len(before.HasDebt) && before.HasDebt[i]
		if after.HasDebt[i] {
			di[i] = bsub(after.A[i].St, get(before, i).St)
			explained.Add(explained, di[i])
		} else if hadDebt && deleted < 0 {
			deleted = i
		}
	}
	if deleted >= 0 {
		di[deleted] = bsub(dTV, explained)
	}
	accrued := make([]bool, n)
	tvc, cashc := new(big.Int).Set(before.TV), new(big.Int).Set(before.Cash)
	accrue := func(i int) {
		if !accrued[i] && di[i].Sign() != 0 {
			main = append(main, fmt.Sprintf("OAccrue %d %s", i, zstr(di[i])))
			tvc.Add(tvc, di[i])
		}
		accrued[i] = true
	}
	for _, o := range ops {
		if o.Kind != "send" || o.Denom != USDC {
			continue
		}
		amt := o.Amt.BigInt()
		if o.From == mod {
			i := x.idxOf[o.To]
			accrue(i)
			x.col.ImplCheck(1)
			if !capOK(tvc, cashc, amt) {
				x.fail("C07:borrow-above-cap-accepted", fmt.Sprintf("%s: borrow %s accepted at TV=%s cash=%s", what, amt, tvc, cashc))
			}
			main = append(main, fmt.Sprintf("OBorrow %d %s 0", i, zstr(amt)))
			mwl[i].Add(mwl[i], amt)
			cashc.Sub(cashc, amt)
			x.col.Op("borrow_via_"+what, "ok", amt)
		} else if o.To == mod {
			i := x.idxOf[o.From]
			accrue(i)
			if mwl[i].Cmp(amt) < 0 { // the position received the funds it repays with from elsewhere in the same tx
				d := bsub(amt, mwl[i])
				main = append(main, fmt.Sprintf("OExt %d %s", i, zstr(d)))
				mwl[i].Add(mwl[i], d)
			}
			main = append(main, fmt.Sprintf("ORepay %d %s 0", i, zstr(amt)))
			mwl[i].Sub(mwl[i], amt)
			cashc.Add(cashc, amt)
			x.col.Op("repay_via_"+what, "ok", amt)
		}
	}
	for i := 0; i < n; i++ {
		accrue(i)
	}
	for i := 0; i < n; i++ {
		if d := bsub(after.A[i].W, mwl[i]); d.Sign() != 0 {
			main = append(main, fmt.Sprintf("OExt %d %s", i, zstr(d)))
		}
	}
	x.emit(nil, main, "ok", nil, after)
	return main
}

func (x *c07Run) block(dt int64) bool {
	before := x.snap()
	pre := x.presync(before)
	if len(pre) > 0 {
		x.emit(pre, nil, "ok", nil, before)
	}
	x.m.RefreshPrices()
	if err := x.w.EndBlock(dt); err != nil {
		x.fail("C07:block-failed", err.Error())
		return false
	}
	x.m.RefreshPrices()
	after := x.snap()
	x.explain("block", x.w.LastBlockEvents, before, after)
	x.checkOtherOp("block", before, x.prev)
	return true
}

// ---------------------------------------------------------------- one history

func c07Exec(t *testing.T, col *Collector, h c07Hist) string {
	w := NewWorld(t)
	o := DefaultMarketOpts()
	o.Users = c07Users
	m := NewMarket(w, o)
	x := &c07Run{t: t, w: w, m: m, col: col, h: h, idxOf: map[string]int{}, maxOth: new(big.Int)}
	x.mod = authtypes.NewModuleAddress(sstypes.ModuleName)
	for i := 0; i < c07Users; i++ {
		x.idx(m.Users[i])
	}
	for j := 0; j < c07Borrowers; j++ {
		b := Addr(50 + j)
		w.Mint(b, sdk.NewCoins(sdk.NewCoin(USDC, I(1_000_000_000_000))))
		x.idx(b)
	}
	if h.Huge != "" {
		hu := sdkmath.NewIntFromBigInt(c07Big(h.Huge))
		for _, a := range x.addrs {
			w.Mint(a, sdk.NewCoins(sdk.NewCoin(USDC, hu)))
		}
	}
	if !x.block(5) {
		return ""
	}
	x.steps = nil // the case starts here
	init := x.snap()
	x.prev = init
	for i := range init.A {
		x.mw[i] = new(big.Int).Set(init.A[i].W)
	}
	nInit := len(init.A)
	K := w.App.StablestakeKeeper

	for k, op := range h.Ops {
		x.k = k
		cur := x.snap()
		pre := x.presync(cur)
		switch op.Op {
		case "blocks":
			if len(pre) > 0 {
				x.emit(pre, nil, "ok", nil, cur)
			}
			if !x.block(op.Dt) {
				return ""
			}
			col.Op("blocks", "ok", nil)
			fmt.Fprintf(&x.fp, "blk;")
			continue
		case "bond", "unbond":
			var amt *big.Int
			var res TxResult
			var coq string
			if op.Op == "bond" {
				amt = x.bondAmount(op, cur)
				res = w.Deliver(&sstypes.MsgBond{Creator: x.addrs[op.U].String(), Amount: sdkmath.NewIntFromBigInt(amt)})
				coq = fmt.Sprintf("OBond %d %s", op.U, zstr(amt))
			} else {
				if cur.A[op.U].Sh.Sign() == 0 && op.Amt == "" && op.Rnd%10 < 7 { // mostly pick a lender that holds shares
					for d := 1; d < c07Users; d++ {
						if v := (op.U + d) % c07Users; cur.A[v].Sh.Sign() > 0 {
							op.U = v
							break
						}
					}
				}
				amt = x.unbondAmount(op, cur)
				res = w.Deliver(&sstypes.MsgUnbond{Creator: x.addrs[op.U].String(), Amount: sdkmath.NewIntFromBigInt(amt)})
				coq = fmt.Sprintf("OUnbond %d %s", op.U, zstr(amt))
			}
			after := x.snap()
			x.emit(pre, []string{coq}, res.Kind(), []int{op.U}, after)
			col.Op(op.Op, res.Kind(), amt)
			fmt.Fprintf(&x.fp, "%s:%s:%d;", op.Op, res.Kind(), op.U)
			if res.OK() {
				x.nontr = true
				sh := amt
				if op.Op == "bond" {
					sh = bsub(after.A[op.U].Sh, cur.A[op.U].Sh)
					if bsub(cur.A[op.U].W, after.A[op.U].W).Cmp(amt) != 0 || bsub(after.TV, cur.TV).Cmp(amt) != 0 || bsub(after.S, cur.S).Cmp(sh) != 0 {
						x.fail("C07:bond-books-inconsistent", fmt.Sprintf("bond %s: wallet/TotalValue/supply deltas do not match the deposit and the minted shares", amt))
					}
				} else {
					pay := bsub(after.A[op.U].W, cur.A[op.U].W)
					if bsub(cur.TV, after.TV).Cmp(pay) != 0 || bsub(cur.S, after.S).Cmp(amt) != 0 || bsub(cur.A[op.U].Sh, after.A[op.U].Sh).Cmp(amt) != 0 {
						x.fail("C07:unbond-books-inconsistent", fmt.Sprintf("unbond %s: payout/TotalValue/supply deltas do not match", amt))
					}
				}
				x.checkShareOp(op.Op, cur, after, sh)
			}
		case "roundtrip":
			amt := x.bondAmount(op, cur)
			res := w.Deliver(&sstypes.MsgBond{Creator: x.addrs[op.U].String(), Amount: sdkmath.NewIntFromBigInt(amt)})
			mid := x.snap()
			x.emit(pre, []string{fmt.Sprintf("OBond %d %s", op.U, zstr(amt))}, res.Kind(), []int{op.U}, mid)
			col.Op("roundtrip_bond", res.Kind(), amt)
			fmt.Fprintf(&x.fp, "rt:%s:%d;", res.Kind(), op.U)
			if !res.OK() {
				break
			}
			sh := bsub(mid.A[op.U].Sh, cur.A[op.U].Sh)
			x.checkShareOp("bond", cur, mid, sh)
			if sh.Sign() <= 0 {
				x.checkRoundTrip(cur, amt, sh, bsub(mid.A[op.U].W, cur.A[op.U].W), "committed (no shares minted)")
				break
			}
			res2 := w.Deliver(&sstypes.MsgUnbond{Creator: x.addrs[op.U].String(), Amount: sdkmath.NewIntFromBigInt(sh)})
			end := x.snap()
			x.emit(nil, []string{fmt.Sprintf("OUnbond %d %s", op.U, zstr(sh))}, res2.Kind(), []int{op.U}, end)
			col.Op("roundtrip_unbond", res2.Kind(), sh)
			if res2.OK() {
				x.nontr = true
				x.checkShareOp("unbond", mid, end, sh)
				x.checkRoundTrip(cur, amt, sh, bsub(end.A[op.U].W, cur.A[op.U].W), "committed")
			}
		case "probe":
			// round trips on throw-away branches of the current state: nothing is committed
			r := NewRng(op.Rnd, 11)
			for j := 0; j < 10; j++ {
				a := x.bondAmount(c07Op{U: op.U, Sel: []int{0, 1, 2, 2, 3, 4, 5, 11, 12, 9}[j], Rnd: r.Next()}, cur)
				ctx, _ := w.Ctx().CacheContext()
				ok, sh, gain := x.roundTripOn(ctx, op.U, a)
				kind := "ok"
				if !ok {
					kind = "err"
				}
				col.Op("probe_roundtrip", kind, a)
				if ok {
					x.checkRoundTrip(cur, a, sh, gain, "probe")
				}
			}
			continue
		case "kborrow":
			bi := c07Users + op.U
			amt := x.borrowAmount(op, cur)
			coin := sdk.Coin{Denom: USDC, Amount: sdkmath.NewIntFromBigInt(amt)}
			pend := bsub(K.GetDebt(w.QCtx(), x.addrs[bi]).InterestStacked.BigInt(), cur.A[bi].St)
			res := x.keeperTx(func(ctx sdk.Context) error { return K.Borrow(ctx, x.addrs[bi], coin) })
			after := x.snap()
			i := pend
			if res.OK() {
				i = bsub(after.TV, cur.TV)
			}
			x.emit(pre, []string{fmt.Sprintf("OBorrow %d %s %s", bi, zstr(amt), zstr(i))}, res.Kind(), []int{bi}, after)
			col.Op("kborrow", res.Kind(), amt)
			fmt.Fprintf(&x.fp, "kb:%s:%d;", res.Kind(), op.U)
			col.ImplCheck(1)
			within := capOK(cur.TV, cur.Cash, amt)
			if res.OK() {
				x.nontr = true
				if !within {
					x.fail("C07:borrow-above-cap-accepted", fmt.Sprintf("Borrow %s accepted at TV=%s cash=%s (outstanding would be %s > 90%%)", amt, cur.TV, cur.Cash, badd(bsub(cur.TV, cur.Cash), amt)))
				}
				if bmul(big.NewInt(10), bsub(after.TV, after.Cash)).Cmp(bmul(big.NewInt(9), after.TV)) > 0 {
					col.Extra("cap_exceeded_after_own_interest", fmt.Sprintf("history %d step %d: TV'=%s cash'=%s (by at most a tenth of the interest %s stacked by the call itself)", h.ID, k, after.TV, after.Cash, i))
				}
				x.checkOtherOp("borrow", cur, after)
			} else if errors.Is(res.Err, sstypes.ErrMaxBorrowAmount) {
				if within {
					x.fail("C07:borrow-within-cap-refused", fmt.Sprintf("Borrow %s refused at TV=%s cash=%s", amt, cur.TV, cur.Cash))
				}
			} else if !within {
				x.fail("C07:borrow-above-cap-not-refused-by-cap", fmt.Sprintf("Borrow %s above the cap failed for another reason: %v %v", amt, res.Err, res.Panic))
			}
		case "krepay":
			bi := c07Users + op.U
			pend := bsub(K.GetDebt(w.QCtx(), x.addrs[bi]).InterestStacked.BigInt(), cur.A[bi].St)
			amt := x.repayAmount(op, cur, pend)
			coin := sdk.Coin{Denom: USDC, Amount: sdkmath.NewIntFromBigInt(amt)}
			res := x.keeperTx(func(ctx sdk.Context) error { return K.Repay(ctx, x.addrs[bi], coin) })
			after := x.snap()
			i := pend
			if res.OK() {
				i = bsub(after.TV, cur.TV)
			}
			x.emit(pre, []string{fmt.Sprintf("ORepay %d %s %s", bi, zstr(amt), zstr(i))}, res.Kind(), []int{bi}, after)
			col.Op("krepay", res.Kind(), amt)
			fmt.Fprintf(&x.fp, "kr:%s:%d;", res.Kind(), op.U)
			if res.OK() {
				x.nontr = true
				x.checkOtherOp("repay", cur, after)
			}
		case "kaccrue":
			bi := c07Users + op.U
			res := x.keeperTx(func(ctx sdk.Context) error { K.UpdateInterestAndGetDebt(ctx, x.addrs[bi]); return nil })
			after := x.snap()
			x.emit(pre, []string{fmt.Sprintf("OAccrue %d %s", bi, zstr(bsub(after.TV, cur.TV)))}, res.Kind(), []int{bi}, after)
			col.Op("kaccrue", res.Kind(), bsub(after.TV, cur.TV))
			fmt.Fprintf(&x.fp, "ka:%s;", res.Kind())
			if res.OK() {
				x.checkOtherOp("accrue", cur, after)
			}
		case "lev_open", "lev_close":
			var res TxResult
			var amt *big.Int
			if op.Op == "lev_open" {
				amt = c07Big(op.Amt)
				res = w.Deliver(&levtypes.MsgOpen{Creator: x.addrs[op.U].String(), CollateralAsset: USDC, CollateralAmount: sdkmath.NewIntFromBigInt(amt),
					AmmPoolId: m.OraclePool, Leverage: dec(op.Lev), StopLossPrice: dec("0")})
			} else {
				ps := w.App.LeveragelpKeeper.GetAllPositions(w.QCtx())
				if len(ps) == 0 {
					col.Op("lev_close", "skipped", nil)
					continue
				}
				r := NewRng(op.Rnd, 12)
				p := ps[r.Intn(len(ps))]
				lp := p.LeveragedLpAmount
				if op.Sel == 1 {
					lp = lp.QuoRaw(2)
				} else if op.Sel == 2 {
					lp = lp.QuoRaw(int64(3 + r.Intn(20)))
				}
				amt = lp.BigInt()
				res = w.Deliver(&levtypes.MsgClose{Creator: p.Address, Id: p.Id, LpAmount: lp})
			}
			col.Op(op.Op, res.Kind(), amt)
			fmt.Fprintf(&x.fp, "%s:%s;", op.Op, res.Kind())
			if len(pre) > 0 {
				x.emit(pre, nil, "ok", nil, cur)
			}
			if res.OK() {
				x.nontr = true
				after := x.snap()
				x.explain(op.Op, res.Events, cur, after)
				x.checkOtherOp(op.Op, cur, x.prev)
			} else {
				after := x.snap() // a failed transaction changes nothing
				x.emit(nil, nil, "ok", nil, after)
			}
		default:
			t.Fatalf("unknown op %q", op.Op)
		}
		if k%4 == 3 {
			if !x.block(5) {
				return ""
			}
		}
	}
	// final full comparison of every account
	fin := x.snap()
	all := make([]int, len(fin.A))
	for i := range all {
		all[i] = i
	}
	x.emit(x.presync(fin), nil, "ok", all, fin)
	col.Distinct(x.fp.String(), x.nontr)
	col.Sample(h)
	col.mu.Lock()
	if cur, ok := col.rep.Extra["max_loss_of_other_shares_e18"].(string); !ok || c07Big(cur).Cmp(x.maxOth) < 0 {
		col.rep.Extra["max_loss_of_other_shares_e18"] = x.maxOth.String()
	}
	col.mu.Unlock()
	var inits []string
	for i := 0; i < len(fin.A); i++ {
		if i < nInit {
			a := init.A[i]
			inits = append(inits, fmt.Sprintf("(%s,%s,%s,%s,%s)", zstr(a.W), zstr(a.Sh), zstr(a.B), zstr(a.St), zstr(a.Pd)))
		} else {
			inits = append(inits, "(0,0,0,0,0)")
		}
	}
	return fmt.Sprintf("mkC %d %s %s %s [%s] [\n  %s]", h.ID, zstr(init.TV), zstr(init.S), zstr(init.Cash),
		strings.Join(inits, ";"), strings.Join(x.steps, ";\n  "))
}

func TestC07(t *testing.T) {
	seed := envInt("VERIF_SEED", 1)
	col := NewCollector("C07", seed)
	n := 100
	if tier() == "thorough" {
		n = 1500
	}
	n = int(envInt("VERIF_N", int64(n)))
	var hists []c07Hist
	var one c07Hist
	if loadReplay(&one) {
		hists = []c07Hist{one}
	} else {
		hists = append(hists, c07Corpus()...)
		for i := len(hists); i < n; i++ {
			hists = append(hists, c07Gen(NewRng(uint64(seed), uint64(i)), i))
		}
	}
	RunParallel(len(hists), func(i int) {
		h := hists[i]
		h.ID = i
		if txt := c07Exec(t, col, h); txt != "" {
			col.Case(i, txt)
		}
	})
	header := "From Coq Require Import ZArith List Bool.\nFrom Elys Require Import Base.Res Models.Stable Run.StableRun.\nImport ListNotations.\nOpen Scope Z_scope.\n"
	footer := "Definition M := Eval vm_compute in mismatches cases.\nPrint M.\n"
	col.Finish(t, len(hists), header, footer, 25)
}

// corpus: fixed histories that matter (run first on every check)
func c07Corpus() []c07Hist {
	return []c07Hist{
		{Note: "dust deposits and withdrawals at a non-integral rate; cap boundary",
			Ops: []c07Op{{Op: "kborrow", U: 0, Amt: "100000000000"}, {Op: "blocks", Dt: 30 * 86400}, {Op: "kaccrue", U: 0},
				{Op: "bond", U: 1, Amt: "1"}, {Op: "roundtrip", U: 1, Amt: "1"}, {Op: "roundtrip", U: 2, Amt: "2"}, {Op: "roundtrip", U: 2, Amt: "3"},
				{Op: "unbond", U: 5, Amt: "1"}, {Op: "unbond", U: 5, Amt: "2"}, {Op: "probe", U: 3, Rnd: 5},
				{Op: "kborrow", U: 1, Sel: 1, Rnd: 1}, {Op: "kborrow", U: 1, Sel: 0, Rnd: 1}, {Op: "kborrow", U: 1, Amt: "1"},
				{Op: "unbond", U: 5, Sel: 6, Rnd: 3}, {Op: "krepay", U: 0, Sel: 1, Rnd: 1}, {Op: "krepay", U: 0, Sel: 5, Rnd: 1}, {Op: "krepay", U: 0, Sel: 3, Rnd: 1},
				{Op: "krepay", U: 1, Sel: 3, Rnd: 1}, {Op: "unbond", U: 5, Sel: 4}, {Op: "unbond", U: 1, Sel: 4}}},
		{Note: "leveragelp borrowing, interest over blocks, partial and full close",
			Ops: []c07Op{{Op: "lev_open", U: 1, Amt: "10000000", Lev: "3"}, {Op: "blocks", Dt: 86400}, {Op: "lev_open", U: 2, Amt: "777777777", Lev: "4.7"},
				{Op: "blocks", Dt: 7 * 86400}, {Op: "roundtrip", U: 3, Amt: "1"}, {Op: "bond", U: 3, Sel: 2, Rnd: 9}, {Op: "lev_close", U: 0, Sel: 1, Rnd: 1},
				{Op: "blocks", Dt: 3600}, {Op: "lev_close", U: 0, Sel: 0, Rnd: 2}, {Op: "lev_close", U: 0, Sel: 0, Rnd: 3}, {Op: "unbond", U: 3, Sel: 4}, {Op: "probe", U: 4, Rnd: 77}}},
		{Note: "witness of C07_others_one_share_refuted: a vault of 2*10^21 shares whose stored 18-digit rate is off the exact TV/S by a fraction of 10^-18; " +
			"a lender who redeems (or deposits for) 10^21 shares is paid (or credited) hundreds of base units more than pro rata, at the expense of the other lenders",
			Huge: "10000000000000000000000",
			Ops: []c07Op{{Op: "bond", U: 0, Amt: "1000000000000000000000"}, {Op: "bond", U: 1, Amt: "1000000000000000000000"},
				{Op: "kborrow", U: 0, Amt: "500000000000000000000"}, {Op: "blocks", Dt: 30 * 86400}, {Op: "kaccrue", U: 0},
				{Op: "roundtrip", U: 3, Amt: "1000000000000000000000"}, {Op: "unbond", U: 1, Amt: "1000000000000000000000"},
				{Op: "bond", U: 4, Amt: "1000000000000000000000"}, {Op: "probe", U: 2, Rnd: 3}}},
	}
}
