package harness

// Shared multi-module history driver for the cross-module ledger invariants
// (C01 C02 C06 C08 C09 C10 C11 and the supply part of C15). One generator, one executor on the
// real application; after every transaction and every committed block the invariants are
// evaluated on the implementation's own state (the property's predicate, independent of any
// model), and per-property traces are emitted for the Coq ledger machines.

import (
	"encoding/json"
	"fmt"
	oracletypes "github.com/elys-network/elys/x/oracle/types"
	"math/big"
	"os"
	"sort"
	"strings"
	"testing"
	"time"

	sdkmath "cosmossdk.io/math"
	abci "github.com/cometbft/cometbft/abci/types"
	sdk "github.com/cosmos/cosmos-sdk/types"
	authtypes "github.com/cosmos/cosmos-sdk/x/auth/types"
	banktypes "github.com/cosmos/cosmos-sdk/x/bank/types"

	ammtypes "github.com/elys-network/elys/x/amm/types"
	ctypes "github.com/elys-network/elys/x/commitment/types"
	levtypes "github.com/elys-network/elys/x/leveragelp/types"
	perptypes "github.com/elys-network/elys/x/perpetual/types"
	sstypes "github.com/elys-network/elys/x/stablestake/types"
	tstypes "github.com/elys-network/elys/x/tradeshield/types"
)

type lOp struct {
	Op   string `json:"op"`
	U    int    `json:"u"`              // acting user
	V    int    `json:"v,omitempty"`    // other user (recipient, third party target ...)
	Pool int    `json:"pool,omitempty"` // 0 oracle pool, 1 cp pool
	Dir  int    `json:"dir,omitempty"`  // direction / variant
	Amt  string `json:"amt,omitempty"`  // absolute amount
	Rel  int    `json:"rel,omitempty"`  // relative selector
	Lev  string `json:"lev,omitempty"`
	P    string `json:"p,omitempty"` // price / trigger
	N    int64  `json:"n,omitempty"`
	DT   int64  `json:"dt,omitempty"`
	Idx  int    `json:"idx,omitempty"`
	// two-pool markets (lHist.Two): which oracle pool the op names. 0 = uusdc/uatom (the default, so stored histories replay
	// unchanged), 1 = the second oracle pool uusdc/aweth (18 decimals, price 2000). Ignored (= 0) in a one-pool market.
	Q int `json:"q,omitempty"`
	// amounts are written in 6-decimals units of uatom-like value; an amount of aweth is scaled by lWethScale unless Raw (dust)
	Raw bool `json:"raw,omitempty"`
	// close-positions messages that name a position MORE THAN ONCE (0: every id once, as before). 1: the observed position twice in a
	// row, 2: again at the other end of the list, 5: the whole list twice in the same list; in ANOTHER list of the same message
	// (liquidate -> stop loss -> take profit -> liquidate; leveragelp has two lists): 3 the observed position / 4 the whole list also in
	// the next list, 6 the observed position / 7 the whole list also in the list after the next
	Dup int `json:"dup,omitempty"`
}

type lHist struct {
	ID  int   `json:"id"`
	Ops []lOp `json:"ops"`
	Two bool  `json:"two,omitempty"` // market with the second leverage/perpetual-enabled oracle pool (MarketOpts.Extra18)
}

// lTwo: which generated histories run on the two-pool market
func lTwo(id int) bool { return id%3 != 0 }

// lMarketOpts: the market a history runs on (also for the drivers that embed lRun: C15 C18 C19)
func lMarketOpts(h lHist) MarketOpts {
	o := DefaultMarketOpts()
	o.Extra18 = h.Two
	return o
}

// 1 uatom ($5e-6) is worth 2.5e9 aweth ($2000e-18 each)
var lWethScale = sdkmath.NewInt(2_500_000_000)

// lScenario: directed histories that a uniform generator reaches too rarely: several leveraged positions of different
// owners on one pool, time for interest to accrue, a price move that makes SOME of them unhealthy, then a batch
// close-positions message listing all of them (force-closes and mere settlements interleaved in one tx), by a third party.
func lScenario(r *Rng, id int) lHist {
	two := lTwo(id)
	h := lHist{ID: id, Two: two}
	add := func(o lOp) { h.Ops = append(h.Ops, o) }
	// two-pool market: extra draws happen ONLY there, so that the one-pool histories of a seed stay what they were
	pick := func() int {
		if !two {
			return 0
		}
		return r.Intn(2)
	}
	also := func(pct int) bool { return two && r.Chance(pct) }
	switch (id / 4) % 5 {
	case 4:
		// ONLY short positions are open (their custody is base currency), then the pool creator, who holds almost all shares,
		// leaves with most of the pool in proportion: the exit must be refused once the reserve would fall below the custody
		q := pick()
		for j := 0; j < 1+r.Intn(2); j++ {
			add(lOp{Op: "perp_open", U: 1 + r.Intn(4), Dir: 1, Amt: r.Decade(9, 10).String(), Lev: []string{"2", "3"}[r.Intn(2)], Q: q})
		}
		if also(50) { // a short of the same size class on the OTHER pool: its custody must not count against this pool's reserve
			add(lOp{Op: "perp_open", U: 1 + r.Intn(4), Dir: 1, Amt: r.Decade(9, 10).String(), Lev: "2", Q: 1 - q})
		}
		add(lOp{Op: "blocks", N: 1, DT: 3700})
		add(lOp{Op: "exit", U: 0, Pool: 0, Dir: 0, Rel: []int{4, 3, 2}[r.Intn(3)], Q: q})
		add(lOp{Op: "blocks", N: 1, DT: 5})
		add(lOp{Op: "exit", U: 0, Pool: 0, Dir: 0, Rel: 4, Q: q})
		tail := lGenN(r, id, 8+r.Intn(8))
		h.Ops = append(h.Ops, tail.Ops...)
		return h
	case 2:
		// one account adds to the SAME locked commitment many times in a row (single-sided oracle-pool joins carry a one-hour
		// lock; leveraged-LP top-ups consolidate into one position address) with nothing uncommitted in between: per-denom
		// lock-up lists grow, anything done "per lock-up" or bounded by their number shows only after many adds
		u := r.Intn(5)
		lev := r.Chance(50)
		n := 9 + r.Intn(5)
		q := pick()
		for j := 0; j < n; j++ {
			qq := q
			if also(25) { // the same account does the same on the other pool in between (own position / own lock-up list there)
				qq = 1 - q
			}
			if lev {
				add(lOp{Op: "lev_open", U: u, Amt: r.Decade(6, 8).String(), Lev: []string{"2", "3", "1", "1.5"}[r.Intn(4)], P: "0", Q: qq}) // leverage 1: a top-up that borrows nothing
			} else {
				add(lOp{Op: "join", U: u, Pool: 0, Dir: 1 + r.Intn(2), Amt: r.Decade(6, 9).String(), Q: qq})
			}
			if r.Chance(25) {
				add(lOp{Op: "blocks", N: 1, DT: r.Pick(5, 60, 3700)})
			}
			if r.Chance(15) { // an ordinary provider joins and leaves in between
				add(lOp{Op: "join", U: (u + 1) % 5, Pool: 0, Dir: 0, Amt: r.Decade(5, 8).String(), Q: qq})
			}
		}
		add(lOp{Op: "blocks", N: 1, DT: 3700})
		add(lOp{Op: "exit", U: u, Pool: 0, Dir: 0, Rel: r.Intn(6), Q: q})
		tail := lGenN(r, id, 6+r.Intn(8))
		h.Ops = append(h.Ops, tail.Ops...)
		return h
	case 3:
		// perpetual positions on BOTH sides (a funding rate exists), blocks pass (funding and interest accrue), then the
		// popular side re-opens into its existing position (consolidation) and adds collateral with leverage 0
		u1, u2 := r.Intn(5), r.Intn(5)
		if u2 == u1 {
			u2 = (u1 + 1) % 5
		}
		big, small := 0, 1
		if r.Chance(30) {
			big, small = 1, 0
		}
		q := pick()
		add(lOp{Op: "perp_open", U: u1, Dir: big, Amt: r.Decade(8, 9).String(), Lev: []string{"2", "3", "5"}[r.Intn(3)], Q: q})
		add(lOp{Op: "perp_open", U: u2, Dir: small, Amt: r.Decade(7, 8).String(), Lev: []string{"2", "3"}[r.Intn(2)], Q: q})
		if two { // the same two owners hold the MIRRORED positions on the other pool: funding runs the other way there
			add(lOp{Op: "perp_open", U: u1, Dir: small, Amt: r.Decade(7, 8).String(), Lev: "2", Q: 1 - q})
			add(lOp{Op: "perp_open", U: u2, Dir: big, Amt: r.Decade(8, 9).String(), Lev: "3", Q: 1 - q})
		}
		add(lOp{Op: "blocks", N: r.Pick(2, 3, 5), DT: r.Pick(60, 3700, 86400)})
		longGap := also(40)
		if longGap { // the positions are left alone for 150-250 days: the funding due outgrows the paying side's custody
			add(lOp{Op: "blocks", N: 1, DT: r.Pick(12960000, 17280000, 21600000)})
		}
		// a third party asks for the liquidation of every position while they are healthy: interest and funding are settled, nothing closes
		cpq := lOp{Op: "perp_close_positions", U: (u1 + 2) % 5, Idx: r.Intn(4), Dir: 0, N: 8, Rel: r.Intn(2)}
		if !longGap {
			add(cpq)
		}
		add(lOp{Op: "blocks", N: 1, DT: 5})
		if longGap { // top-up with plenty of collateral first, so that the merged position is healthy
			add(lOp{Op: "perp_open", U: u1, Dir: big, Amt: r.Decade(9, 10).String(), Lev: "0", Q: q})
			add(lOp{Op: "perp_open", U: u2, Dir: small, Amt: r.Decade(9, 10).String(), Lev: "0", Q: q})
		}
		add(lOp{Op: "perp_open", U: u1, Dir: big, Amt: r.Decade(7, 9).String(), Lev: []string{"1.5", "2", "3"}[r.Intn(3)], Q: q})
		add(lOp{Op: "blocks", N: 1, DT: r.Pick(5, 3700)})
		add(lOp{Op: "perp_open", U: u1, Dir: big, Amt: r.Decade(6, 8).String(), Lev: "0", Q: q})
		if r.Chance(50) {
			add(lOp{Op: "perp_open", U: u2, Dir: small, Amt: r.Decade(6, 8).String(), Lev: "0", Q: q})
		}
		if also(60) { // consolidation + top-up on the other pool in the same block
			add(lOp{Op: "perp_open", U: u2, Dir: big, Amt: r.Decade(6, 8).String(), Lev: "2", Q: 1 - q})
			add(lOp{Op: "perp_open", U: u2, Dir: big, Amt: r.Decade(6, 8).String(), Lev: "0", Q: 1 - q})
		}
		add(lOp{Op: "blocks", N: 1, DT: 5})
		tail := lGenN(r, id, 8+r.Intn(8))
		h.Ops = append(h.Ops, tail.Ops...)
		return h
	}
	perp := r.Chance(60)
	k := 2 + r.Intn(3)
	short := r.Chance(30)
	for i := 0; i < k; i++ {
		q := pick()
		for rep := 0; rep < 2; rep++ {
			if perp {
				d := 0
				if short {
					d = 1
				} else if r.Chance(30) {
					d = 2
				}
				add(lOp{Op: "perp_open", U: i % 5, Dir: d, Amt: r.Decade(6, 10).String(), Lev: []string{"1.5", "2", "3", "5", "8", "10"}[r.Intn(6)], Rel: r.Intn(4), Q: q})
			} else {
				add(lOp{Op: "lev_open", U: i % 5, Amt: r.Decade(5, 10).String(), Lev: []string{"2", "3", "5", "9.5", "10"}[r.Intn(5)], P: []string{"0", "0", "0.5"}[r.Intn(3)], Q: q})
			}
			// two-pool market: half of the owners hold a position on EACH pool, so that a batch lists both pools' positions
			// of one owner next to each other
			if !also(50) {
				break
			}
			q = 1 - q
		}
		if r.Chance(30) {
			add(lOp{Op: "swap_in", U: r.Intn(5), V: r.Intn(5), Pool: 0, Dir: r.Intn(2), Amt: r.Decade(5, 10).String(), Rel: r.Intn(4), Q: pick()})
		}
	}
	add(lOp{Op: "blocks", N: r.Pick(1, 2), DT: r.Pick(3700, 86400, 86400, 604800)})
	for round := 0; round < 2; round++ {
		f := []string{"0.8", "0.8", "0.95", "0.5"}[r.Intn(4)]
		if perp && short {
			f = []string{"1.25", "1.25", "1.05", "2"}[r.Intn(4)]
		}
		cp := "lev_close_positions"
		if perp {
			cp = "perp_close_positions"
		}
		idx := r.Intn(4)
		if r.Chance(70) {
			// the position that will head the batch is steered to just below (mostly) / just above its liquidation threshold
			// (the price that is moved is the one of that position's pool)
			sd := 1
			if perp {
				sd = 0
			}
			rel := 0
			if r.Chance(25) {
				rel = 1
			}
			add(lOp{Op: "steer", Dir: sd, Idx: idx, Rel: rel})
			if also(50) { // and the other pool's asset moves by a fixed factor: some of ITS positions in the batch are due too
				add(lOp{Op: "price", P: f, Q: 1})
			}
		} else {
			add(lOp{Op: "price", P: f})
			if two {
				add(lOp{Op: "price", P: f, Q: 1})
			}
		}
		add(lOp{Op: cp, U: r.Intn(5), Idx: idx, Dir: 0, N: 8, Rel: r.Intn(2)})
		add(lOp{Op: "blocks", N: 1, DT: r.Pick(5, 3700)})
		if r.Chance(50) {
			add(lOp{Op: cp, U: r.Intn(5), Idx: r.Intn(4), Dir: 1 + r.Intn(2), N: 8, Rel: r.Intn(2)})
		}
	}
	// then ordinary traffic on the same state
	tail := lGenN(r, id, 8+r.Intn(8))
	h.Ops = append(h.Ops, tail.Ops...)
	return h
}

func lGen(r *Rng, id int) lHist {
	if id%4 == 3 {
		return lScenario(r, id)
	}
	return lGenN(r, id, 30+r.Intn(25))
}

func lGenN(r *Rng, id int, n int) lHist {
	two := lTwo(id)
	h := lHist{ID: id, Two: two}
	if two && n > 36 {
		n = 36 + (n-36)/3 // two-pool worlds cost more per step (fixture, observers): shorter histories, same count
	}
	amt := func() string {
		// per-decade amounts from dust to more than the reserves
		return r.Decade(0, 12).String()
	}
	// two-pool market: which oracle pool the op names, and whether an 18-decimals amount is dust (taken as written)
	// instead of scaled; drawn ONLY in two-pool histories so that the one-pool histories of a seed stay what they were
	q := func() int {
		if !two {
			return 0
		}
		return r.Intn(2)
	}
	raw := func() bool { return two && r.Chance(12) }
	hops := 5
	if two {
		hops = 10
	}
	for k := 0; k < n; k++ {
		x := r.Intn(100)
		u := r.Intn(5)
		switch {
		case x < 14:
			h.Ops = append(h.Ops, lOp{Op: "swap_in", U: u, V: r.Intn(5), Pool: r.Intn(2), Dir: r.Intn(2), Amt: amt(), Rel: r.Intn(4), Q: q(), Raw: raw()})
		case x < 22:
			h.Ops = append(h.Ops, lOp{Op: "swap_out", U: u, V: r.Intn(5), Pool: r.Intn(2), Dir: r.Intn(2), Amt: amt(), Rel: r.Intn(4), Q: q(), Raw: raw()})
		case x < 25:
			h.Ops = append(h.Ops, lOp{Op: "swap_hop", U: u, Dir: r.Intn(hops), Amt: amt(), Raw: raw()})
		case x < 33:
			h.Ops = append(h.Ops, lOp{Op: "join", U: u, Pool: r.Intn(2), Dir: r.Intn(3), Amt: amt(), Q: q(), Raw: raw()})
		case x < 40:
			h.Ops = append(h.Ops, lOp{Op: "exit", U: u, Pool: r.Intn(2), Dir: r.Intn(3), Rel: r.Intn(6), Q: q()})
		case x < 45:
			h.Ops = append(h.Ops, lOp{Op: "bond", U: u, Amt: amt()})
		case x < 49:
			h.Ops = append(h.Ops, lOp{Op: "unbond", U: u, Rel: r.Intn(6)})
		case x < 57:
			h.Ops = append(h.Ops, lOp{Op: "lev_open", U: u, Amt: r.Decade(3, 11).String(), Lev: []string{"1.5", "2", "3", "5", "9.5", "10", "1", "1.000001"}[r.Intn(8)], P: []string{"0", "0", "0.5", "2"}[r.Intn(4)], Q: q()})
		case x < 62:
			h.Ops = append(h.Ops, lOp{Op: "lev_close", U: u, Idx: r.Intn(4), Rel: r.Intn(6)})
		case x < 66:
			h.Ops = append(h.Ops, lOp{Op: "lev_close_positions", U: u, Idx: r.Intn(4), Dir: r.Intn(2), N: r.Pick(1, 1, 2, 3, 8), Rel: r.Intn(2)})
		case x < 74:
			h.Ops = append(h.Ops, lOp{Op: "perp_open", U: u, Dir: r.Intn(4), Amt: r.Decade(3, 10).String(), Lev: []string{"1.2", "2", "3", "5", "10", "0"}[r.Intn(6)], Rel: r.Intn(4), Q: q(), Raw: raw()})
		case x < 79:
			h.Ops = append(h.Ops, lOp{Op: "perp_close", U: u, Idx: r.Intn(4), Rel: r.Intn(6)})
		case x < 83:
			h.Ops = append(h.Ops, lOp{Op: "perp_close_positions", U: u, Idx: r.Intn(4), Dir: r.Intn(3), N: r.Pick(1, 1, 2, 3, 8), Rel: r.Intn(2)})
		case x < 88:
			h.Ops = append(h.Ops, lOp{Op: "price", P: []string{"0.5", "0.8", "0.95", "1.05", "1.25", "2"}[r.Intn(6)], Q: q()})
		case x < 89:
			h.Ops = append(h.Ops, lOp{Op: "donate", U: u, Pool: r.Intn(2), Dir: r.Intn(3), Amt: amt(), Q: q(), Raw: raw()})
		case x < 90:
			h.Ops = append(h.Ops, lOp{Op: "unstake_lp", U: r.Intn(2) * u, Pool: r.Intn(2), Rel: r.Intn(6), Q: q()}) // user 0 is the pool creator and holds shares
		default:
			b := lOp{Op: "blocks", N: r.Pick(1, 1, 2, 3), DT: r.Pick(5, 5, 60, 3700, 86400)}
			h.Ops = append(h.Ops, b)
			if x >= 97 {
				// the price feeder reports the external exchange depth of the oracle pool(s): MsgFeedMultipleExternalLiquidity rewrites
				// the pool record (ExternalLiquidityRatio) without any transfer. Appended AFTER the op the draw stood for and built from
				// the numbers already drawn, and as a PAIR (the driver closes a block after every op with an odd index; feed_ext is
				// exempt), so that every other op of every stored seed, and the block it lands in, stays what it was.
				h.Ops = append(h.Ops, lOp{Op: "feed_ext", U: u, Dir: int(b.N), Rel: int(b.DT % 7), Q: int(b.N) % 2},
					lOp{Op: "feed_ext", U: u, Dir: int(b.N) + 1, Rel: int(b.DT%7) + 1, Q: (int(b.N) + 1) % 2})
			}
			// in the same way (pairs, built from the numbers already drawn, no block of their own):
			switch x {
			case 96:
				// governance executes a stablestake params proposal drafted from the params as they were when the history started (Dir 1) / with
				// TotalValue left zero (2) / from the current params (3); somebody transfers coins to the account of a leveraged-LP position
				h.Ops = append(h.Ops, lOp{Op: "ss_params", U: u, Dir: 1 + int(b.DT%3)},
					lOp{Op: "pos_donate", U: u, Idx: int(b.N), Rel: int(b.DT % 4), Pool: int(b.N) % 3, N: b.DT % 2, Amt: fmt.Sprint(b.DT*1000 + 7)})
			case 95:
				// close-positions messages of both modules that name a position more than once (one list / several lists)
				dup := 1 + (int(b.N)+int(b.DT%7))%7
				h.Ops = append(h.Ops, lOp{Op: "lev_close_positions", U: u, Idx: int(b.N), Dir: int(b.DT % 2), N: b.N + 1, Rel: int(b.N) % 2, Dup: dup},
					lOp{Op: "perp_close_positions", U: u, Idx: int(b.N) + 1, Dir: int(b.DT % 3), N: b.N + 1, Rel: int(b.N+1) % 2, Dup: 1 + dup%7})
			}
		}
	}
	return h
}

// ---------------- executor ----------------

type lRun struct {
	levLocks map[string][][2]sdkmath.Int // C12: own book of locked leveraged shares per position: (amount, unlock time)
	t    *testing.T
	col  *Collector
	prop string
	w    *World
	m    *Market
	h    lHist
	step int
	dead bool
	// ghost: tokens sent straight to a pool address outside the protocol (C01 allows these)
	donated map[string]*big.Int
	// ghost: deposit tokens that reached the vault's module account by a plain transfer that is not
	// a bond / repay (e.g. a swap whose recipient is the vault): cash the vault never accounted for
	vaultDonated sdkmath.Int
	vaultAddr    string
	poolAddrs    map[string]bool
	// supply at start, per denom
	supply0 map[string]sdkmath.Int
	nontriv bool
	fp      strings.Builder
	// Coq trace lines per property
	trace []string
	c01   *c01Tracer
	c08   *c08Tracer
	c02   *c02Tracer
	c11   *c11Tracer
	c09   *c09Tracer
	c06   *c06Tracer
	c09b  *c09bTracer // C09 custody backing (harness/c09b_trace_test.go)
	c09b2 *c09bTracer // the same for the second perpetual pool (two-pool markets)
	// op ss_params: the stablestake params as a proposer read them earlier (Params query: TotalValue comes with the governance-set fields)
	ssSnap *sstypes.Params
}

// count adds to a counter of the run's report (evidence "extra")
func (x *lRun) count(k string, n int) {
	x.col.mu.Lock()
	defer x.col.mu.Unlock()
	old, _ := x.col.rep.Extra[k].(int)
	x.col.rep.Extra[k] = old + n
}

func (x *lRun) fail(sig, detail string) {
	if x.prop != "C" && !strings.HasPrefix(sig, x.prop+":") {
		return // another property's predicate: reported by that property's check
	}
	x.col.Violate(Violation{Signature: sig, Detail: detail, History: x.h.ID, Step: x.step, Replay: x.h})
}

// levShares: leveraged LP shares per position ("owner/id") of one owner in one pool
func (x *lRun) levShares(owner string, pool uint64) map[string]sdkmath.Int {
	out := map[string]sdkmath.Int{}
	for _, p := range x.w.App.LeveragelpKeeper.GetAllPositions(x.w.QCtx()) {
		if p.Address == owner && p.AmmPoolId == pool {
			out[fmt.Sprintf("%s/%d", p.Address, p.Id)] = p.LeveragedLpAmount
		}
	}
	return out
}

// c12LevLocked (property C12, lock-up rule, judged by the harness's own book of what was committed when): after a step that was NOT a
// liquidation, the position must still hold every share committed under a lock that has not run out
func (x *lRun) c12LevLocked(owner string, id uint64, what string) {
	key := fmt.Sprintf("%s/%d", owner, id)
	now := x.w.Time.Unix()
	locked := sdkmath.ZeroInt()
	for _, l := range x.levLocks[key] {
		if l[1].Int64() > now {
			locked = locked.Add(l[0])
		}
	}
	have := sdkmath.ZeroInt()
	if p, err := x.w.App.LeveragelpKeeper.GetPosition(x.w.QCtx(), sdk.MustAccAddressFromBech32(owner), id); err == nil {
		have = p.LeveragedLpAmount
	}
	x.col.ImplCheck(1)
	if have.LT(locked) {
		x.fail("C12:locked-shares-released-without-liquidation", fmt.Sprintf("position %s: after %s at t=%d it holds %s shares although %s were committed under locks that are still running", key, what, now, have, locked))
	}
}

func (x *lRun) poolID(p int) uint64 {
	if p == 0 {
		return x.m.OraclePool
	}
	return x.m.CPPool
}

func (x *lRun) poolDenoms(p int) (string, string) {
	if p == 0 {
		return USDC, ATOM
	}
	return USDC, ELYS
}

// ---- two-pool market: the op's Q selects the oracle pool (0 when the market has no second one)

func (x *lRun) qOf(op lOp) int {
	if op.Q == 1 && x.m.OraclePool2 != 0 {
		return 1
	}
	return 0
}

func (x *lRun) oraclePool(q int) uint64 {
	if q == 1 {
		return x.m.OraclePool2
	}
	return x.m.OraclePool
}

// trading asset of an oracle pool
func (x *lRun) trade(q int) string {
	if q == 1 {
		return WETH
	}
	return ATOM
}

func (x *lRun) tradeOfPool(id uint64) string {
	if x.m.OraclePool2 != 0 && id == x.m.OraclePool2 {
		return WETH
	}
	return ATOM
}

// pool id / denoms named by an op (Pool 0: the oracle pool selected by Q, Pool 1: the constant-product pool)
func (x *lRun) poolOf(op lOp) uint64 {
	if op.Pool == 0 {
		return x.oraclePool(x.qOf(op))
	}
	return x.m.CPPool
}

func (x *lRun) denomsOf(op lOp) (string, string) {
	if op.Pool == 0 {
		return USDC, x.trade(x.qOf(op))
	}
	return USDC, ELYS
}

// amtOf: the op's absolute amount as an amount of denom (aweth amounts are scaled to its 18 decimals and price unless Raw)
func (x *lRun) amtOf(op lOp, denom string) sdkmath.Int {
	v := bigOf(op.Amt)
	if denom == WETH && !op.Raw {
		v = v.Mul(lWethScale)
	}
	return v
}

// tracked external denoms (supply must never change)
func (x *lRun) externalDenoms() []string {
	if x.m.OraclePool2 != 0 {
		return []string{USDC, ATOM, WETH}
	}
	return []string{USDC, ATOM}
}

// movePrice: the "price" op multiplies the market price of the selected pool's trading asset (clamped to 1/100 .. 100 times
// the fixture price, back to the fixture price outside)
func (x *lRun) movePrice(op lOp) {
	d, lo, hi, reset := ATOM, "0.05", "500", "5"
	if x.qOf(op) == 1 {
		d, lo, hi, reset = WETH, "20", "200000", "2000"
	}
	np := x.m.Prices[d].Mul(dec(op.P))
	if np.LT(dec(lo)) || np.GT(dec(hi)) {
		np = dec(reset)
	}
	x.m.SetPrice(d, np)
}

func bigOf(s string) sdkmath.Int {
	v, ok := sdkmath.NewIntFromString(s)
	if !ok {
		return sdkmath.ZeroInt()
	}
	return v
}

func relOf(rel int, base sdkmath.Int) sdkmath.Int {
	return sdkmath.NewIntFromBigInt(relAmount(rel, base.BigInt()))
}

func (x *lRun) exec(op lOp) (res TxResult, amt *big.Int) {
	w, m := x.w, x.m
	u := m.User(op.U)
	switch op.Op {
	case "swap_in", "swap_out":
		a, b := x.denomsOf(op)
		if op.Dir == 1 {
			a, b = b, a
		}
		rcpt := u
		switch op.Rel {
		case 1:
			rcpt = m.User(op.V)
		case 2: // recipient = the lending vault's module account (keeper-level sends are not blocked)
			rcpt = authtypes.NewModuleAddress(sstypes.ModuleName).String()
		}
		if op.Op == "swap_in" {
			v := x.amtOf(op, a)
			amt = v.BigInt()
			return w.Deliver(&ammtypes.MsgSwapExactAmountIn{Sender: u, Routes: []ammtypes.SwapAmountInRoute{{PoolId: x.poolOf(op), TokenOutDenom: b}},
				TokenIn: sdk.NewCoin(a, v), TokenOutMinAmount: I(1), Recipient: rcpt}), amt
		}
		v := x.amtOf(op, b)
		amt = v.BigInt()
		maxIn := v.MulRaw(1000).AddRaw(1000)
		if a == WETH { // 6-decimals amount out, 18-decimals amount in
			maxIn = v.Mul(sdkmath.NewInt(10_000_000_000_000)).AddRaw(1000)
		}
		return w.Deliver(&ammtypes.MsgSwapExactAmountOut{Sender: u, Routes: []ammtypes.SwapAmountOutRoute{{PoolId: x.poolOf(op), TokenInDenom: a}},
			TokenOut: sdk.NewCoin(b, v), TokenInMaxAmount: maxIn, Recipient: rcpt}), amt
	case "swap_hop":
		v := bigOf(op.Amt)
		amt = v.BigInt()
		if op.Dir >= 5 && m.OraclePool2 != 0 { // routes over BOTH oracle pools (they meet in uusdc)
			vw := x.amtOf(op, WETH)
			big13 := sdkmath.NewInt(10_000_000_000_000)
			switch op.Dir {
			case 5: // ATOM -> USDC (pool 1) -> WETH (pool 2)
				return w.Deliver(&ammtypes.MsgSwapExactAmountIn{Sender: u, Routes: []ammtypes.SwapAmountInRoute{{PoolId: m.OraclePool, TokenOutDenom: USDC}, {PoolId: m.OraclePool2, TokenOutDenom: WETH}},
					TokenIn: sdk.NewCoin(ATOM, v), TokenOutMinAmount: I(1), Recipient: u}), amt
			case 6: // WETH -> USDC (pool 2) -> ATOM (pool 1)
				return w.Deliver(&ammtypes.MsgSwapExactAmountIn{Sender: u, Routes: []ammtypes.SwapAmountInRoute{{PoolId: m.OraclePool2, TokenOutDenom: USDC}, {PoolId: m.OraclePool, TokenOutDenom: ATOM}},
					TokenIn: sdk.NewCoin(WETH, vw), TokenOutMinAmount: I(1), Recipient: u}), vw.BigInt()
			case 7: // exact-out: WETH (pool 2) <- USDC <- ATOM (pool 1)
				return w.Deliver(&ammtypes.MsgSwapExactAmountOut{Sender: u, Routes: []ammtypes.SwapAmountOutRoute{{PoolId: m.OraclePool, TokenInDenom: ATOM}, {PoolId: m.OraclePool2, TokenInDenom: USDC}},
					TokenOut: sdk.NewCoin(WETH, vw), TokenInMaxAmount: vw.MulRaw(1000).AddRaw(1000), Recipient: u}), vw.BigInt()
			case 8: // exact-out: ATOM (pool 1) <- USDC <- WETH (pool 2)
				return w.Deliver(&ammtypes.MsgSwapExactAmountOut{Sender: u, Routes: []ammtypes.SwapAmountOutRoute{{PoolId: m.OraclePool2, TokenInDenom: WETH}, {PoolId: m.OraclePool, TokenInDenom: USDC}},
					TokenOut: sdk.NewCoin(ATOM, v), TokenInMaxAmount: v.Mul(big13).AddRaw(1000), Recipient: u}), amt
			default: // the second pool twice, then the first, then the cp pool: WETH -> USDC -> WETH -> USDC (pool 2) -> ATOM (pool 1) -> USDC (pool 1) -> ELYS (cp)
				return w.Deliver(&ammtypes.MsgSwapExactAmountIn{Sender: u, Routes: []ammtypes.SwapAmountInRoute{{PoolId: m.OraclePool2, TokenOutDenom: USDC}, {PoolId: m.OraclePool2, TokenOutDenom: WETH},
					{PoolId: m.OraclePool2, TokenOutDenom: USDC}, {PoolId: m.OraclePool, TokenOutDenom: ATOM}, {PoolId: m.OraclePool, TokenOutDenom: USDC}, {PoolId: m.CPPool, TokenOutDenom: ELYS}},
					TokenIn: sdk.NewCoin(WETH, vw), TokenOutMinAmount: I(1), Recipient: u}), vw.BigInt()
			}
		}
		switch op.Dir % 5 {
		case 2: // a route that visits the SAME pool twice: USDC -> ELYS -> USDC through the cp pool
			return w.Deliver(&ammtypes.MsgSwapExactAmountIn{Sender: u, Routes: []ammtypes.SwapAmountInRoute{{PoolId: m.CPPool, TokenOutDenom: ELYS}, {PoolId: m.CPPool, TokenOutDenom: USDC}},
				TokenIn: sdk.NewCoin(USDC, v), TokenOutMinAmount: I(1), Recipient: u}), amt
		case 3: // same pool twice on the oracle pool, then on to the cp pool: ATOM -> USDC -> ATOM -> USDC(oracle) -> ELYS
			return w.Deliver(&ammtypes.MsgSwapExactAmountIn{Sender: u, Routes: []ammtypes.SwapAmountInRoute{{PoolId: m.OraclePool, TokenOutDenom: USDC}, {PoolId: m.OraclePool, TokenOutDenom: ATOM},
				{PoolId: m.OraclePool, TokenOutDenom: USDC}, {PoolId: m.CPPool, TokenOutDenom: ELYS}},
				TokenIn: sdk.NewCoin(ATOM, v), TokenOutMinAmount: I(1), Recipient: u}), amt
		case 4: // exact-out through the same pool twice: ELYS <- USDC <- ELYS on the cp pool
			return w.Deliver(&ammtypes.MsgSwapExactAmountOut{Sender: u, Routes: []ammtypes.SwapAmountOutRoute{{PoolId: m.CPPool, TokenInDenom: ELYS}, {PoolId: m.CPPool, TokenInDenom: USDC}},
				TokenOut: sdk.NewCoin(ELYS, v), TokenInMaxAmount: v.MulRaw(1000).AddRaw(1000), Recipient: u}), amt
		}
		if op.Dir%5 == 0 { // ELYS -> USDC (cp) -> ATOM (oracle)
			return w.Deliver(&ammtypes.MsgSwapExactAmountIn{Sender: u, Routes: []ammtypes.SwapAmountInRoute{{PoolId: m.CPPool, TokenOutDenom: USDC}, {PoolId: m.OraclePool, TokenOutDenom: ATOM}},
				TokenIn: sdk.NewCoin(ELYS, v), TokenOutMinAmount: I(1), Recipient: u}), amt
		}
		return w.Deliver(&ammtypes.MsgSwapExactAmountOut{Sender: u, Routes: []ammtypes.SwapAmountOutRoute{{PoolId: m.OraclePool, TokenInDenom: ATOM}, {PoolId: m.CPPool, TokenInDenom: USDC}},
			TokenOut: sdk.NewCoin(ELYS, v), TokenInMaxAmount: v.MulRaw(1000).AddRaw(1000), Recipient: u}), amt
	case "join":
		a, b := x.denomsOf(op)
		v := bigOf(op.Amt)
		amt = v.BigInt()
		pool, _ := w.App.AmmKeeper.GetPool(w.QCtx(), x.poolOf(op))
		switch op.Dir {
		case 0: // all assets, shares computed from the deposit of asset a
			ra := pool.PoolAssets[0].Token.Amount
			if pool.PoolAssets[0].Token.Denom != a {
				ra = pool.PoolAssets[1].Token.Amount
			}
			shares := pool.TotalShares.Amount.Mul(v).Quo(ra.AddRaw(1))
			maxB := v.MulRaw(20).AddRaw(10)
			if b == WETH { // 18 decimals against 6: the same hundredfold head-room in value as for uatom
				maxB = v.Mul(lWethScale).MulRaw(20).AddRaw(10)
			}
			return w.Deliver(&ammtypes.MsgJoinPool{Sender: u, PoolId: pool.PoolId, MaxAmountsIn: sdk.NewCoins(sdk.NewCoin(a, v.MulRaw(2).AddRaw(10)), sdk.NewCoin(b, maxB)), ShareAmountOut: shares}), amt
		case 1: // single asset a
			return w.Deliver(&ammtypes.MsgJoinPool{Sender: u, PoolId: pool.PoolId, MaxAmountsIn: sdk.NewCoins(sdk.NewCoin(a, v)), ShareAmountOut: I(1)}), amt
		default: // single asset b
			v = x.amtOf(op, b)
			amt = v.BigInt()
			return w.Deliver(&ammtypes.MsgJoinPool{Sender: u, PoolId: pool.PoolId, MaxAmountsIn: sdk.NewCoins(sdk.NewCoin(b, v)), ShareAmountOut: I(1)}), amt
		}
	case "exit":
		pool, _ := w.App.AmmKeeper.GetPool(w.QCtx(), x.poolOf(op))
		c := w.App.CommitmentKeeper.GetCommitments(w.QCtx(), m.Users[op.U%len(m.Users)])
		have := c.GetCommittedAmountForDenom(pool.TotalShares.Denom)
		v := relOf(op.Rel, have)
		amt = v.BigInt()
		out := ""
		if op.Pool == 0 && op.Dir > 0 {
			out = []string{USDC, x.trade(x.qOf(op))}[op.Dir-1]
		}
		return w.Deliver(&ammtypes.MsgExitPool{Sender: u, PoolId: pool.PoolId, MinAmountsOut: sdk.Coins{}, ShareAmountIn: v, TokenOutDenom: out}), amt
	case "unstake_lp": // MsgUnstake naming a pool share denom (only uelys / ueden / uedenb may be unstaked this way)
		pool, _ := w.App.AmmKeeper.GetPool(w.QCtx(), x.poolOf(op))
		c := w.App.CommitmentKeeper.GetCommitments(w.QCtx(), m.Users[op.U%len(m.Users)])
		v := relOf(op.Rel, c.GetCommittedAmountForDenom(pool.TotalShares.Denom))
		amt = v.BigInt()
		return w.Deliver(&ctypes.MsgUnstake{Creator: u, Amount: v, Asset: pool.TotalShares.Denom, ValidatorAddress: ""}), amt
	case "bond":
		v := bigOf(op.Amt)
		amt = v.BigInt()
		return w.Deliver(&sstypes.MsgBond{Creator: u, Amount: v}), amt
	case "unbond":
		c := w.App.CommitmentKeeper.GetCommitments(w.QCtx(), m.Users[op.U%len(m.Users)])
		have := c.GetCommittedAmountForDenom(sstypes.GetShareDenom())
		v := relOf(op.Rel, have)
		amt = v.BigInt()
		return w.Deliver(&sstypes.MsgUnbond{Creator: u, Amount: v}), amt
	case "lev_open":
		v := bigOf(op.Amt)
		amt = v.BigInt()
		pid := x.oraclePool(x.qOf(op))
		lpBefore := x.levShares(u, pid)
		r := w.Deliver(&levtypes.MsgOpen{Creator: u, CollateralAsset: USDC, CollateralAmount: v, AmmPoolId: pid, Leverage: dec(op.Lev), StopLossPrice: dec(op.P)})
		if r.OK() {
			// C12, the harness's own lock book: the shares this open added were committed under the one-hour lock of oracle pools
			for key, now := range x.levShares(u, pid) {
				prev, had := lpBefore[key]
				if !had {
					prev = sdkmath.ZeroInt()
				}
				if d := now.Sub(prev); d.IsPositive() {
					if x.levLocks == nil {
						x.levLocks = map[string][][2]sdkmath.Int{}
					}
					x.levLocks[key] = append(x.levLocks[key], [2]sdkmath.Int{d, sdkmath.NewInt(w.Time.Unix() + 3600)})
				}
			}
		}
		return r, amt
	case "lev_close":
		ps := w.App.LeveragelpKeeper.GetAllPositions(w.QCtx())
		if len(ps) == 0 {
			return TxResult{Err: fmt.Errorf("skip")}, nil
		}
		p := ps[op.Idx%len(ps)]
		creator := p.Address
		if op.Rel == 0 { // somebody else tries to close it
			creator = u
		}
		v := relOf(op.Rel, p.LeveragedLpAmount)
		amt = v.BigInt()
		r := w.Deliver(&levtypes.MsgClose{Creator: creator, Id: p.Id, LpAmount: v})
		if r.OK() {
			x.c12LevLocked(p.Address, p.Id, "MsgClose by "+creator)
		}
		return r, amt
	case "perp_open":
		q := x.qOf(op)
		trade := x.trade(q)
		// take-profit / stop-loss triggers: 5x, 0.2x / 0.8x, 1.3x of the fixture price of the pool's trading asset
		trig := [4]string{"25", "1", "4", "6.5"}
		if q == 1 {
			trig = [4]string{"10000", "400", "1600", "2600"}
		}
		pos := perptypes.Position_LONG
		coll := USDC
		tp := trig[0]
		if op.Dir%2 == 1 {
			pos = perptypes.Position_SHORT
			tp = trig[1]
		}
		if op.Dir >= 2 && pos == perptypes.Position_LONG {
			coll = trade
		}
		sl := "0"
		if op.Rel == 1 {
			if pos == perptypes.Position_LONG {
				sl = trig[2]
			} else {
				sl = trig[3]
			}
		}
		tpd := dec(tp)
		if op.Rel == 2 { // a take-profit price one ordinary price move away: 1.2x (long) / 0.8x (short) of the market price now
			f := "1.2"
			if pos == perptypes.Position_SHORT {
				f = "0.8"
			}
			tpd = m.Prices[trade].Mul(dec(f))
		}
		v := x.amtOf(op, coll)
		amt = v.BigInt()
		if op.Rel == 3 {
			// the same open THROUGH TRADESHIELD: a limit-open order whose trigger is already met, executed at once by another
			// account (perpetual Open is then called by the tradeshield keeper, with ITS handle on the perpetual keeper)
			f, tpos := "1.02", tstypes.PerpetualPosition_LONG
			if pos == perptypes.Position_SHORT {
				f, tpos = "0.98", tstypes.PerpetualPosition_SHORT
			}
			r1 := w.Deliver(&tstypes.MsgCreatePerpetualOpenOrder{OwnerAddress: u, TriggerPrice: tstypes.TriggerPrice{TradingAssetDenom: trade, Rate: m.Prices[trade].Mul(dec(f))},
				Collateral: sdk.NewCoin(coll, v), TradingAsset: trade, Position: tpos, Leverage: dec(op.Lev), TakeProfitPrice: tpd, StopLossPrice: dec(sl), PoolId: x.oraclePool(q)})
			if !r1.OK() {
				return r1, amt
			}
			var id uint64
			for _, o := range w.App.TradeshieldKeeper.GetAllPendingPerpetualOrder(w.QCtx()) {
				if o.OwnerAddress == u && o.OrderId > id {
					id = o.OrderId
				}
			}
			r2 := w.Deliver(&tstypes.MsgExecuteOrders{Creator: m.User(op.U + 1), PerpetualOrderIds: []uint64{id}})
			evs := append(append([]abci.Event{}, r1.Events...), r2.Events...)
			// an order that could not be executed is cancelled again so that no escrow is left behind
			for _, o := range w.App.TradeshieldKeeper.GetAllPendingPerpetualOrder(w.QCtx()) {
				if o.OwnerAddress == u && o.OrderId == id {
					r3 := w.Deliver(&tstypes.MsgCancelPerpetualOrder{OwnerAddress: u, OrderId: id})
					evs = append(evs, r3.Events...)
				}
			}
			// the step is THREE transactions (create, execute, possibly cancel): the create succeeded and changed the stores, so the
			// step as a whole is not "a failed transaction" even when the execute request failed (drivers that check the rollback
			// of failed transactions judge single messages)
			return TxResult{Events: evs}, amt
		}
		return w.Deliver(&perptypes.MsgOpen{Creator: u, Position: pos, Leverage: dec(op.Lev), TradingAsset: trade, Collateral: sdk.NewCoin(coll, v),
			TakeProfitPrice: tpd, StopLossPrice: dec(sl), PoolId: x.oraclePool(q)}), amt
	case "perp_close":
		ms := w.App.PerpetualKeeper.GetAllMTPs(w.QCtx())
		if len(ms) == 0 {
			return TxResult{Err: fmt.Errorf("skip")}, nil
		}
		p := ms[op.Idx%len(ms)]
		creator := p.Address
		if op.Rel == 0 {
			creator = u
		}
		v := relOf(op.Rel, p.Custody)
		amt = v.BigInt()
		return w.Deliver(&perptypes.MsgClose{Creator: creator, Id: p.Id, Amount: v}), amt
	case "feed_ext": // amm MsgFeedMultipleExternalLiquidity from the (fixture) price feeder; Dir 3: from an account that is no feeder
		feeder := m.Provider
		sender := feeder.String()
		if op.Dir == 3 {
			sender = u
		} else if _, found := w.App.OracleKeeper.GetPriceFeeder(w.QCtx(), feeder); !found {
			// the first report of a history: governance registers the fixture's provider as a price feeder (this step IS that tx)
			return w.Deliver(&oracletypes.MsgAddPriceFeeders{Authority: w.Gov, Feeders: []string{feeder.String()}}), nil
		}
		depth := []string{"0.02", "0.05", "0.5", "0.001", "1", "0.9", "0.0001"}[op.Rel%7]
		one := func(q int) ammtypes.ExternalLiquidity {
			pool, _ := w.App.AmmKeeper.GetPool(w.QCtx(), x.oraclePool(q))
			var ds []ammtypes.AssetAmountDepth
			for i, a := range pool.PoolAssets { // external venue: 3x / 0.5x the pool's own balance
				f := []int64{6, 1}[i%2]
				ds = append(ds, ammtypes.AssetAmountDepth{Asset: m.Display[a.Token.Denom], Amount: a.Token.Amount.MulRaw(f).QuoRaw(2).ToLegacyDec(), Depth: dec(depth)})
			}
			return ammtypes.ExternalLiquidity{PoolId: pool.PoolId, AmountDepthInfo: ds}
		}
		q := x.qOf(op)
		ls := []ammtypes.ExternalLiquidity{one(q)}
		if m.OraclePool2 != 0 && op.Dir >= 2 { // both oracle pools in one message
			ls = append(ls, one(1-q))
		}
		return w.Deliver(&ammtypes.MsgFeedMultipleExternalLiquidity{Sender: sender, Liquidity: ls}), nil
	case "steer": // also reachable through exec for drivers that embed lRun (C15 C18 C19)
		x.steer(op)
		return TxResult{}, nil
	case "lev_add_collateral": // C06 only (harness/c06_trace_test.go)
		return c06AddCollateral(x, op)
	case "c09_exit_to": // C09 only (harness/c09b_trace_test.go)
		r, v := c09bExitTo(x, op)
		return r, v.BigInt()
	case "pos_donate":
		// a plain bank transfer to the ACCOUNT OF A LEVERAGED-LP POSITION (every position has its own address: collateral and exit proceeds
		// pass through it, its pool shares are committed there), from its owner (N 0) or from somebody else. With the debt in base currency
		// lying there (Rel 0) a forced close of a position that is under water fails AFTER the pool exit and the repayment
		// (ErrNegUserAmountAfterRepay). Perpetual MTPs have no account of their own (GetAccountAddress is the owner).
		ps := w.App.LeveragelpKeeper.GetAllPositions(w.QCtx())
		if len(ps) == 0 {
			return TxResult{Err: fmt.Errorf("skip")}, nil
		}
		p := ps[op.Idx%len(ps)]
		sender := p.Address
		if op.N != 0 {
			sender = u
		}
		d := []string{USDC, x.tradeOfPool(p.AmmPoolId), ELYS}[op.Pool%3]
		owed := w.App.StablestakeKeeper.UpdateInterestAndGetDebt(w.QCtx(), p.GetPositionAddress()).GetTotalLiablities()
		v := sdkmath.OneInt()
		switch op.Rel {
		case 0:
			v = owed
		case 1:
			v = x.amtOf(op, d)
		case 2:
			v = owed.QuoRaw(2)
		}
		if !v.IsPositive() {
			v = sdkmath.OneInt()
		}
		amt = v.BigInt()
		return w.Deliver(&banktypes.MsgSend{FromAddress: sender, ToAddress: p.GetPositionAddress().String(), Amount: sdk.NewCoins(sdk.NewCoin(d, v))}), amt
	case "ss_params":
		// stablestake MsgUpdateParams. Dir 0: a proposer READS the params (no transaction) and keeps the answer; Dir 1: governance executes
		// the proposal drafted from the kept answer - every field as it was THEN, TotalValue included, InterestRateMax raised; Dir 2: drafted
		// from the params as they are now with TotalValue left zero; Dir 3: the params as they are now; Dir 4: Dir 1 sent by a user
		// (refused). The vault's TotalValue is the chain's own book-keeping: no such message may move it.
		cur := w.App.StablestakeKeeper.GetParams(w.QCtx())
		if op.Dir == 0 || x.ssSnap == nil {
			snap := cur
			x.ssSnap = &snap
			if op.Dir == 0 {
				return TxResult{}, nil
			}
		}
		pp := *x.ssSnap
		switch op.Dir {
		case 2:
			pp = cur
			pp.TotalValue = sdkmath.ZeroInt()
		case 3:
			pp = cur
		}
		pp.InterestRateMax = cur.InterestRateMax.Add(dec("0.01"))
		auth := w.Gov
		if op.Dir == 4 {
			auth = u
		}
		if !pp.TotalValue.Equal(cur.TotalValue) && !pp.TotalValue.IsZero() {
			x.count("ss_params_carrying_a_stale_total_value", 1)
		}
		return w.Deliver(&sstypes.MsgUpdateParams{Authority: auth, Params: &pp}), nil
	case "donate":
		pool, _ := w.App.AmmKeeper.GetPool(w.QCtx(), x.poolOf(op))
		a, b := x.denomsOf(op)
		d := []string{a, b, ELYS}[op.Dir]
		v := x.amtOf(op, d)
		amt = v.BigInt()
		res = w.Deliver(&banktypes.MsgSend{FromAddress: u, ToAddress: pool.Address, Amount: sdk.NewCoins(sdk.NewCoin(d, v))})
		if res.OK() {
			k := pool.Address + "/" + d
			if x.donated[k] == nil {
				x.donated[k] = new(big.Int)
			}
			x.donated[k].Add(x.donated[k], v.BigInt())
		}
		return res, amt
	}
	x.t.Fatalf("unknown op %q", op.Op)
	return
}

// ---------------- third-party close requests (C10) ----------------

// lIndependentLevHealth: leveraged-LP health from first principles (no call into leveragelp's own health code): what the position's committed
// shares would pay out in the base currency (amm ExitPoolEst) divided by Borrowed + InterestStacked - InterestPaid of its stablestake debt
// record with interest brought up to date. ok=false when it cannot be evaluated (estimation error / panic on a degenerate pool).
func lIndependentLevHealth(w *World, qc sdk.Context, p levtypes.Position) (h sdkmath.LegacyDec, ok bool) {
	defer func() {
		if r := recover(); r != nil {
			ok = false
		}
	}()
	d := w.App.StablestakeKeeper.UpdateInterestAndGetDebt(qc, p.GetPositionAddress())
	owed := d.Borrowed.Add(d.InterestStacked).Sub(d.InterestPaid)
	if owed.IsZero() {
		return sdkmath.LegacyMaxSortableDec, true
	}
	shares := sdkmath.ZeroInt()
	for _, ct := range w.App.CommitmentKeeper.GetCommitments(qc, p.GetPositionAddress()).CommittedTokens {
		shares = shares.Add(ct.Amount)
	}
	coins, _, err := w.App.AmmKeeper.ExitPoolEst(qc, p.AmmPoolId, shares, USDC)
	if err != nil {
		return h, false
	}
	return coins.AmountOf(USDC).ToLegacyDec().Quo(owed.ToLegacyDec()), true
}

type posSnap struct {
	found      bool
	lp, liab   sdkmath.Int
	collateral sdkmath.Int
	custody    sdkmath.Int
	health     sdkmath.LegacyDec
	healthErr  bool
	ownerUSDC  sdkmath.Int
	ownerATOM  sdkmath.Int
	stopLoss   sdkmath.LegacyDec
	takeProfit sdkmath.LegacyDec
	long       bool
}

// steer: health thresholds cannot be hit by luck, so the ATOM price is bisected (on throw-away contexts) until the health
// of the chosen position is just BELOW (Rel 0: liquidatable, with the largest possible payout left) or just ABOVE (Rel 1:
// must be left alone) the module's safety factor; the found price is then fed as the market price.
// Dir 0: perpetual MTP number Idx, Dir 1: leveragelp position number Idx.
func (x *lRun) steer(op lOp) {
	w, m := x.w, x.m
	// the price that is moved is the one of the chosen position's pool
	asset := ATOM
	if op.Dir == 0 {
		if ms := w.App.PerpetualKeeper.GetAllMTPs(w.QCtx()); len(ms) > 0 {
			asset = x.tradeOfPool(ms[op.Idx%len(ms)].AmmPoolId)
		}
	} else if ps := w.App.LeveragelpKeeper.GetAllPositions(w.QCtx()); len(ps) > 0 {
		asset = x.tradeOfPool(ps[op.Idx%len(ps)].AmmPoolId)
	}
	health := func(price sdkmath.LegacyDec) (h sdkmath.LegacyDec, ok bool) {
		defer func() {
			if r := recover(); r != nil {
				ok = false
			}
		}()
		qc := w.QCtx()
		w.App.OracleKeeper.SetPrice(qc, oracletypes.Price{Asset: m.Display[asset], Price: price, Source: "elys", Provider: m.Provider.String(),
			Timestamp: uint64(qc.BlockTime().Unix()), BlockHeight: uint64(qc.BlockHeight())})
		if op.Dir == 0 {
			ms := w.App.PerpetualKeeper.GetAllMTPs(qc)
			if len(ms) == 0 {
				return h, false
			}
			mtp := ms[op.Idx%len(ms)]
			ammPool, _ := w.App.AmmKeeper.GetPool(qc, mtp.AmmPoolId)
			pool, _ := w.App.PerpetualKeeper.GetPool(qc, mtp.AmmPoolId)
			w.App.PerpetualKeeper.UpdateMTPBorrowInterestUnpaidLiability(qc, &mtp)
			if _, err := w.App.PerpetualKeeper.SettleMTPBorrowInterestUnpaidLiability(qc, &mtp, &pool, ammPool); err != nil {
				return h, false
			}
			if err := w.App.PerpetualKeeper.SettleFunding(qc, &mtp, &pool, ammPool); err != nil {
				return h, false
			}
			hh, err := w.App.PerpetualKeeper.GetMTPHealth(qc, mtp, ammPool, USDC)
			return hh, err == nil
		}
		ps := w.App.LeveragelpKeeper.GetAllPositions(qc)
		if len(ps) == 0 {
			return h, false
		}
		p := ps[op.Idx%len(ps)]
		w.App.StablestakeKeeper.UpdateInterestAndGetDebt(qc, p.GetPositionAddress())
		hh, err := w.App.LeveragelpKeeper.GetPositionHealth(qc, p)
		return hh, err == nil
	}
	var sf sdkmath.LegacyDec
	if op.Dir == 0 {
		sf = w.App.PerpetualKeeper.GetParams(w.QCtx()).SafetyFactor
	} else {
		sf = w.App.LeveragelpKeeper.GetParams(w.QCtx()).SafetyFactor
	}
	target := sf.Mul(dec("0.9985"))
	if op.Rel == 1 {
		target = sf.Mul(dec("1.0015"))
	}
	lo, hi := dec("0.05"), dec("500")
	if asset == WETH {
		lo, hi = dec("20"), dec("200000")
	}
	hLo, ok1 := health(lo)
	hHi, ok2 := health(hi)
	if !ok1 || !ok2 || hLo.Equal(hHi) {
		return
	}
	incr := hHi.GT(hLo)
	if (incr && (target.LT(hLo) || target.GT(hHi))) || (!incr && (target.GT(hLo) || target.LT(hHi))) {
		return
	}
	for i := 0; i < 60; i++ {
		mid := lo.Add(hi).QuoInt64(2)
		hm, ok := health(mid)
		if !ok {
			return
		}
		if (hm.LT(target)) == incr {
			lo = mid
		} else {
			hi = mid
		}
	}
	// pick the side of the interval that satisfies the request (below the factor for Rel 0, above for Rel 1)
	pick := lo
	if hl, ok := health(lo); ok && ((op.Rel == 0) != hl.LTE(sf)) {
		pick = hi
	}
	m.SetPrice(asset, pick)
}

func (x *lRun) closePositions(op lOp) (res TxResult) {
	w, m := x.w, x.m
	u := m.User(op.U)
	if op.Op == "lev_close_positions" {
		ps := w.App.LeveragelpKeeper.GetAllPositions(w.QCtx())
		if len(ps) == 0 {
			return TxResult{Err: fmt.Errorf("skip")}
		}
		p := ps[op.Idx%len(ps)]
		owner := sdk.MustAccAddressFromBech32(p.Address)
		qc := w.QCtx()
		before := posSnap{found: true, lp: p.LeveragedLpAmount, liab: p.Liabilities, collateral: p.Collateral.Amount, stopLoss: p.StopLossPrice,
			ownerUSDC: w.Bal(owner, USDC)}
		// health recomputed on a throw-away context, with interest brought up to date the way the handler does
		debt := w.App.StablestakeKeeper.UpdateInterestAndGetDebt(qc, p.GetPositionAddress())
		_ = debt
		var hl, lpPrice sdkmath.LegacyDec
		var err, lpErr error
		func() {
			defer func() {
				if r := recover(); r != nil {
					err = fmt.Errorf("panic: %v", r)
				}
			}()
			hl, err = w.App.LeveragelpKeeper.GetPositionHealth(qc, p)
		}()
		// the same quantity recomputed without the keeper's health function: exit value of ALL shares committed at the position address in the
		// base currency over what the debt record says is owed (principal + interest ever charged - interest paid)
		if hi, ok := lIndependentLevHealth(w, qc, p); ok && err == nil {
			if !hi.Equal(hl) {
				x.fail("C10:lev-health-differs-from-exit-value-over-debt", fmt.Sprintf("position %s/%d: keeper health %s, exit value over debt %s", p.Address, p.Id, hl, hi))
			}
			hl = hi // the verdict on a forced close is judged by the independent value
		}
		before.health, before.healthErr = hl, err != nil
		sf := w.App.LeveragelpKeeper.GetParams(qc).SafetyFactor
		ammPool, _ := w.App.AmmKeeper.GetPool(qc, p.AmmPoolId)
		func() {
			defer func() {
				if r := recover(); r != nil {
					lpErr = fmt.Errorf("panic: %v", r)
				}
			}()
			lpPrice, lpErr = ammPool.LpTokenPrice(qc, w.App.OracleKeeper, w.App.AccountedPoolKeeper)
		}()
		req := &levtypes.PositionRequest{Address: p.Address, Id: p.Id}
		// batch form: the message carries a LIST; the observed position first (Rel 0) or last (Rel 1), then its neighbours
		reqs := []*levtypes.PositionRequest{req}
		mixed := false
		for j := int64(1); j < op.N && int(j) < len(ps); j++ {
			q := ps[(op.Idx+int(j))%len(ps)]
			mixed = mixed || q.AmmPoolId != p.AmmPoolId
			r2 := &levtypes.PositionRequest{Address: q.Address, Id: q.Id}
			if op.Rel == 1 {
				reqs = append([]*levtypes.PositionRequest{r2}, reqs...)
			} else {
				reqs = append(reqs, r2)
			}
		}
		if mixed {
			x.count("lev_batches_listing_both_pools", 1)
		}
		// repeated ids (op.Dup): the observed position (or every position) is named more than once, in one list or in both
		var other []*levtypes.PositionRequest
		switch op.Dup {
		case 1, 2:
			if (op.Dup == 1) == (op.Rel == 1) {
				reqs = append(reqs, req)
			} else {
				reqs = append([]*levtypes.PositionRequest{req}, reqs...)
			}
		case 3, 6:
			other = []*levtypes.PositionRequest{req}
		case 4, 7:
			other = append([]*levtypes.PositionRequest{}, reqs...)
		case 5:
			reqs = append(reqs, reqs...)
		}
		if op.Dup != 0 {
			x.count("lev_batches_repeating_an_id", 1)
		}
		msg := &levtypes.MsgClosePositions{Creator: u}
		if op.Dir == 0 {
			msg.Liquidate, msg.StopLoss = reqs, other
		} else {
			msg.StopLoss, msg.Liquidate = reqs, other
		}
		res = w.Deliver(msg)
		after, err2 := w.App.LeveragelpKeeper.GetPosition(w.QCtx(), owner, p.Id)
		changed := err2 != nil || !after.LeveragedLpAmount.Equal(before.lp) || !after.Collateral.Amount.Equal(before.collateral)
		if os.Getenv("VERIF_REPLAY") != "" {
			fmt.Printf("  lev close-positions on %s/%d: liabilities %s health %v (err %v) sf %s -> changed=%v gone=%v res=%v\n", p.Address, p.Id, p.Liabilities, before.health, before.healthErr, sf, changed, err2 != nil, res.Err)
		}
		if changed && !before.healthErr && lpErr == nil {
			liqOK := before.health.LTE(sf)
			slOK := !before.stopLoss.IsNil() && lpPrice.LTE(before.stopLoss)
			allowed := false
			if op.Dir == 0 {
				allowed = liqOK || (len(other) > 0 && slOK)
			} else {
				allowed = slOK || (len(other) > 0 && liqOK)
			}
			if !allowed {
				// C12: a forced close uncommits with the liquidation flag, which overrides lock-ups: without a liquidation condition
				// the shares committed within the last hour must still be there
				x.c12LevLocked(p.Address, p.Id, "MsgClosePositions by "+u+" without a liquidation or stop-loss condition")
				x.fail("C10:levlp-forced-close-without-guard", fmt.Sprintf("position %s/%d changed by %s (dir %d) with health %s > safety factor %s, lp price %s stop loss %s",
					p.Address, p.Id, u, op.Dir, before.health, sf, lpPrice, before.stopLoss))
			}
		}
		x.col.ImplCheck(1)
		return res
	}
	ms := w.App.PerpetualKeeper.GetAllMTPs(w.QCtx())
	if len(ms) == 0 {
		return TxResult{Err: fmt.Errorf("skip")}
	}
	p := ms[op.Idx%len(ms)]
	owner := sdk.MustAccAddressFromBech32(p.Address)
	qc := w.QCtx()
	ammPool, _ := w.App.AmmKeeper.GetPool(qc, p.AmmPoolId)
	// bring interest/funding up to date on the throw-away context exactly like the handler does
	pool, _ := w.App.PerpetualKeeper.GetPool(qc, p.AmmPoolId)
	mtp := p
	// the same preparatory steps CheckAndLiquidateUnhealthyPosition takes before it reads the health
	var settleErr error
	func() {
		defer func() {
			if r := recover(); r != nil {
				settleErr = fmt.Errorf("panic: %v", r)
			}
		}()
		if mtp.TakeProfitLiabilities, settleErr = w.App.PerpetualKeeper.CalcMTPTakeProfitLiability(qc, mtp); settleErr != nil {
			return
		}
		if settleErr = mtp.UpdateMTPTakeProfitBorrowFactor(); settleErr != nil {
			return
		}
		w.App.PerpetualKeeper.UpdateMTPBorrowInterestUnpaidLiability(qc, &mtp)
		if _, settleErr = w.App.PerpetualKeeper.SettleMTPBorrowInterestUnpaidLiability(qc, &mtp, &pool, ammPool); settleErr != nil {
			return
		}
		settleErr = w.App.PerpetualKeeper.SettleFunding(qc, &mtp, &pool, ammPool)
	}()
	var hl, price sdkmath.LegacyDec
	var herr, perr error
	// the observer's own probes run on degenerate states too (emptied pools make the swap estimation overflow): a panic there
	// is an unobservable health, not a harness failure
	func() {
		defer func() {
			if r := recover(); r != nil {
				herr = fmt.Errorf("panic: %v", r)
			}
		}()
		hl, herr = w.App.PerpetualKeeper.GetMTPHealth(qc, mtp, ammPool, USDC)
	}()
	sf := w.App.PerpetualKeeper.GetParams(qc).SafetyFactor
	func() {
		defer func() {
			if r := recover(); r != nil {
				perr = fmt.Errorf("panic: %v", r)
			}
		}()
		price, perr = w.App.PerpetualKeeper.GetAssetPrice(qc, p.TradingAsset)
	}()
	req := perptypes.PositionRequest{Address: p.Address, Id: p.Id}
	// batch form: the message carries a LIST; the observed position first (Rel 0) or last (Rel 1), then its neighbours
	reqs := []perptypes.PositionRequest{req}
	mixed := false
	for j := int64(1); j < op.N && int(j) < len(ms); j++ {
		q := ms[(op.Idx+int(j))%len(ms)]
		mixed = mixed || q.AmmPoolId != p.AmmPoolId
		r2 := perptypes.PositionRequest{Address: q.Address, Id: q.Id}
		if op.Rel == 1 {
			reqs = append([]perptypes.PositionRequest{r2}, reqs...)
		} else {
			reqs = append(reqs, r2)
		}
	}
	if mixed {
		x.count("perp_batches_listing_both_pools", 1)
	}
	// the three lists of the message (0 liquidate, 1 stop loss, 2 take profit); repeated ids (op.Dup): the observed position (or every
	// position) is named more than once, in one list or in several
	kind := op.Dir
	if kind < 0 || kind > 2 {
		kind = 2
	}
	var lists [3][]perptypes.PositionRequest
	switch op.Dup {
	case 1, 2:
		if (op.Dup == 1) == (op.Rel == 1) {
			reqs = append(reqs, req)
		} else {
			reqs = append([]perptypes.PositionRequest{req}, reqs...)
		}
	case 3, 6:
		lists[(kind+op.Dup/3)%3] = []perptypes.PositionRequest{req}
	case 4, 7:
		lists[(kind+op.Dup/3)%3] = append([]perptypes.PositionRequest{}, reqs...)
	case 5:
		reqs = append(reqs, reqs...)
	}
	if op.Dup != 0 {
		x.count("perp_batches_repeating_an_id", 1)
	}
	lists[kind] = reqs
	msg := &perptypes.MsgClosePositions{Creator: u, Liquidate: lists[0], StopLoss: lists[1], TakeProfit: lists[2]}
	res = w.Deliver(msg)
	after, err2 := w.App.PerpetualKeeper.GetMTP(w.QCtx(), owner, p.Id)
	closed := err2 != nil
	if os.Getenv("VERIF_REPLAY") != "" {
		fmt.Printf("replay close_positions: observed mtp %s/%d health %s sf %s price %v closed=%v (batch of %d)\n", p.Address, p.Id, hl, sf, price, closed, len(reqs))
	}
	sizeChanged := closed || after.Custody.LT(mtp.Custody.Sub(mtp.Custody.QuoRaw(1000)).SubRaw(2)) // beyond interest/funding taken from custody
	if sizeChanged && settleErr == nil && herr == nil && perr == nil {
		allowed := false
		for k := range lists { // the guard of ANY list that names the position
			if len(lists[k]) == 0 {
				continue
			}
			switch k {
			case 0:
				allowed = allowed || hl.LTE(sf)
			case 1:
				if !p.StopLossPrice.IsNil() {
					if p.Position == perptypes.Position_LONG {
						allowed = allowed || price.LTE(p.StopLossPrice)
					} else {
						allowed = allowed || price.GTE(p.StopLossPrice)
					}
				}
			default:
				if !p.TakeProfitPrice.IsNil() {
					if p.Position == perptypes.Position_LONG {
						allowed = allowed || price.GTE(p.TakeProfitPrice)
					} else {
						allowed = allowed || price.LTE(p.TakeProfitPrice)
					}
				}
			}
		}
		// a position whose custody was already exhausted by interest is closed by the settlement itself
		if !allowed && !(closed && hl.LTE(sf)) {
			x.fail("C10:perp-forced-close-without-guard", fmt.Sprintf("mtp %s/%d changed by %s (dir %d): health %s sf %s price %s sl %s tp %s custody %s -> closed=%v",
				p.Address, p.Id, u, op.Dir, hl, sf, price, p.StopLossPrice, p.TakeProfitPrice, mtp.Custody, closed))
		}
	}
	x.col.ImplCheck(1)
	return res
}

// ---------------- invariants on the implementation ----------------

func (x *lRun) invariants(when string) {
	w := x.w
	ctx := w.QCtx()
	app := w.App
	n := 0
	// ---- C01
	pools := app.AmmKeeper.GetAllPool(ctx)
	sumRes := map[string]sdkmath.Int{}
	for _, p := range pools {
		addr := sdk.MustAccAddressFromBech32(p.Address)
		for _, a := range p.PoolAssets {
			d := a.Token.Denom
			bal := app.BankKeeper.GetBalance(ctx, addr, d).Amount
			don := sdkmath.ZeroInt()
			if v := x.donated[p.Address+"/"+d]; v != nil {
				don = sdkmath.NewIntFromBigInt(v)
			}
			if !bal.Equal(a.Token.Amount.Add(don)) {
				x.fail("C01:reserve-neq-bank", fmt.Sprintf("%s: pool %d %s reserve %s + donated %s != bank %s", when, p.PoolId, d, a.Token.Amount, don, bal))
			}
			if _, ok := sumRes[d]; !ok {
				sumRes[d] = sdkmath.ZeroInt()
			}
			sumRes[d] = sumRes[d].Add(a.Token.Amount)
			n++
		}
	}
	for _, dl := range app.AmmKeeper.GetAllDenomLiquidity(ctx) {
		s, ok := sumRes[dl.Denom]
		if !ok {
			s = sdkmath.ZeroInt()
		}
		if !dl.Liquidity.Equal(s) {
			x.fail("C01:denom-liquidity-neq-sum", fmt.Sprintf("%s: denom %s liquidity %s != sum of reserves %s", when, dl.Denom, dl.Liquidity, s))
		}
		delete(sumRes, dl.Denom)
		n++
	}
	for d, s := range sumRes {
		if !s.IsZero() {
			x.fail("C01:denom-liquidity-missing", fmt.Sprintf("%s: denom %s has reserves %s but no liquidity record", when, d, s))
		}
	}
	// ---- C02
	commitAddr := authtypes.NewModuleAddress(ctypes.ModuleName)
	allC := app.CommitmentKeeper.GetAllCommitments(ctx)
	for _, p := range pools {
		sd := p.TotalShares.Denom
		supply := app.BankKeeper.GetSupply(ctx, sd).Amount
		sum := sdkmath.ZeroInt()
		for _, c := range allC {
			sum = sum.Add(c.GetCommittedAmountForDenom(sd))
		}
		custody := app.BankKeeper.GetBalance(ctx, commitAddr, sd).Amount
		if !p.TotalShares.Amount.Equal(supply) {
			x.fail("C02:total-shares-neq-supply", fmt.Sprintf("%s: pool %d TotalShares %s != supply %s", when, p.PoolId, p.TotalShares.Amount, supply))
		}
		if !supply.Equal(sum) {
			x.fail("C02:supply-neq-committed", fmt.Sprintf("%s: pool %d supply %s != sum committed %s", when, p.PoolId, supply, sum))
		}
		if !custody.Equal(supply) {
			x.fail("C02:custody-neq-supply", fmt.Sprintf("%s: pool %d commitment module holds %s of supply %s", when, p.PoolId, custody, supply))
		}
		n += 3
	}
	// ---- C06
	sp := app.StablestakeKeeper.GetParams(ctx)
	cash := app.BankKeeper.GetBalance(ctx, authtypes.NewModuleAddress(sstypes.ModuleName), sp.DepositDenom).Amount
	loans := sdkmath.ZeroInt()
	for _, d := range app.StablestakeKeeper.GetAllDebts(ctx) {
		loans = loans.Add(d.Borrowed).Add(d.InterestStacked).Sub(d.InterestPaid)
	}
	if !sp.TotalValue.Equal(cash.Add(loans)) {
		if sp.TotalValue.Add(x.vaultDonated).Equal(cash.Add(loans)) {
			// fully explained by transfers an AMM pool made straight to the vault's address (swap recipient)
			x.fail("C06:swap-recipient-vault-inflates-cash", fmt.Sprintf("%s: TotalValue %s != cash %s + loans %s; the difference %s is exactly what swaps paid out to the vault's module address", when, sp.TotalValue, cash, loans, x.vaultDonated))
		} else {
			x.fail("C06:total-value-neq-cash-plus-loans", fmt.Sprintf("%s: TotalValue %s != cash %s + loans %s (diff %s, donated %s)", when, sp.TotalValue, cash, loans, sp.TotalValue.Sub(cash).Sub(loans), x.vaultDonated))
		}
	}
	n++
	// ---- C08
	positions := app.LeveragelpKeeper.GetAllPositions(ctx)
	for _, lp := range app.LeveragelpKeeper.GetAllPools(ctx) {
		sum := sdkmath.ZeroInt()
		for _, p := range positions {
			if p.AmmPoolId == lp.AmmPoolId {
				sum = sum.Add(p.LeveragedLpAmount)
			}
		}
		if !lp.LeveragedLpAmount.Equal(sum) {
			x.fail("C08:pool-total-neq-sum-positions", fmt.Sprintf("%s: leveragelp pool %d LeveragedLpAmount %s != sum over positions %s", when, lp.AmmPoolId, lp.LeveragedLpAmount, sum))
		}
		n++
	}
	for _, p := range positions {
		c := app.CommitmentKeeper.GetCommitments(ctx, p.GetPositionAddress())
		got := c.GetCommittedAmountForDenom(ammtypes.GetPoolShareDenom(p.AmmPoolId))
		if !got.Equal(p.LeveragedLpAmount) {
			x.fail("C08:position-lp-neq-committed", fmt.Sprintf("%s: position %s/%d LeveragedLpAmount %s != committed at position address %s", when, p.Address, p.Id, p.LeveragedLpAmount, got))
		}
		n++
	}
	if cnt := app.LeveragelpKeeper.GetOpenPositionCount(ctx); cnt != uint64(len(positions)) {
		x.fail("C08:open-count", fmt.Sprintf("%s: open position counter %d != stored positions %d", when, cnt, len(positions)))
	}
	// ---- C09 / C11
	mtps := app.PerpetualKeeper.GetAllMTPs(ctx)
	for _, pp := range app.PerpetualKeeper.GetAllPools(ctx) {
		ammPool, _ := app.AmmKeeper.GetPool(ctx, pp.AmmPoolId)
		type agg struct{ liab, cust, coll sdkmath.Int }
		for side, assets := range map[perptypes.Position][]perptypes.PoolAsset{perptypes.Position_LONG: pp.PoolAssetsLong, perptypes.Position_SHORT: pp.PoolAssetsShort} {
			for _, a := range assets {
				g := agg{sdkmath.ZeroInt(), sdkmath.ZeroInt(), sdkmath.ZeroInt()}
				for _, mt := range mtps {
					if mt.AmmPoolId != pp.AmmPoolId || mt.Position != side {
						continue
					}
					if mt.LiabilitiesAsset == a.AssetDenom {
						g.liab = g.liab.Add(mt.Liabilities)
					}
					if mt.CustodyAsset == a.AssetDenom {
						g.cust = g.cust.Add(mt.Custody)
					}
					if mt.CollateralAsset == a.AssetDenom {
						g.coll = g.coll.Add(mt.Collateral)
					}
				}
				if !a.Liabilities.Equal(g.liab) {
					x.fail("C09:liabilities-neq-sum", fmt.Sprintf("%s: pool %d %v %s liabilities %s != sum over MTPs %s", when, pp.AmmPoolId, side, a.AssetDenom, a.Liabilities, g.liab))
				}
				if !a.Custody.Equal(g.cust) {
					x.fail("C09:custody-neq-sum", fmt.Sprintf("%s: pool %d %v %s custody %s != sum over MTPs %s", when, pp.AmmPoolId, side, a.AssetDenom, a.Custody, g.cust))
				}
				if !a.Collateral.Equal(g.coll) {
					x.fail("C09:collateral-neq-sum", fmt.Sprintf("%s: pool %d %v %s collateral %s != sum over MTPs %s", when, pp.AmmPoolId, side, a.AssetDenom, a.Collateral, g.coll))
				}
				n += 3
			}
		}
		acc, found := app.AccountedPoolKeeper.GetAccountedPool(ctx, pp.AmmPoolId)
		for _, a := range ammPool.PoolAssets {
			d := a.Token.Denom
			liab, cust, _, _ := pp.GetPerpetualPoolBalances(d)
			if a.Token.Amount.LT(cust) {
				sig := "C09:custody-not-backed"
				if (x.c09b != nil && x.c09b.aborts > 0) || (x.c09b2 != nil && x.c09b2.aborts > 0) {
					sig += ":" + c09bAbortSig
				}
				x.fail(sig, fmt.Sprintf("%s: pool %d %s reserve %s < total custody %s", when, pp.AmmPoolId, d, a.Token.Amount, cust))
			}
			n++
			if found {
				want := a.Token.Amount.Add(liab).Sub(cust)
				got := sdk.Coins(acc.TotalTokens).AmountOf(d)
				if !got.Equal(want) {
					x.fail("C11:accounted-total-stale", fmt.Sprintf("%s: pool %d %s accounted %s != reserve %s + liabilities %s - custody %s = %s", when, pp.AmmPoolId, d, got, a.Token.Amount, liab, cust, want))
				}
				gotN := sdk.Coins(acc.NonAmmPoolTokens).AmountOf(d)
				if !gotN.Equal(liab.Sub(cust)) {
					x.fail("C11:accounted-nonamm-stale", fmt.Sprintf("%s: pool %d %s non-amm %s != liabilities %s - custody %s", when, pp.AmmPoolId, d, gotN, liab, cust))
				}
				n += 2
			}
		}
	}
	if cnt := app.PerpetualKeeper.GetOpenMTPCount(ctx); cnt != uint64(len(mtps)) {
		x.fail("C09:open-count", fmt.Sprintf("%s: open MTP counter %d != stored MTPs %d", when, cnt, len(mtps)))
	}
	// ---- C15 (supply of externally issued assets)
	for _, d := range x.externalDenoms() {
		s := app.BankKeeper.GetSupply(ctx, d).Amount
		if !s.Equal(x.supply0[d]) {
			x.fail("C15:external-supply-changed", fmt.Sprintf("%s: supply of %s changed %s -> %s", when, d, x.supply0[d], s))
		}
		n++
	}
	x.col.ImplCheck(n)
}

// scanDonations records pool -> vault transfers (swap payouts addressed to the vault).
func (x *lRun) scanDonations(ops []BankOp) {
	for _, o := range ops {
		if o.Kind == "send" && o.To == x.vaultAddr && o.Denom == USDC && x.poolAddrs[o.From] {
			x.vaultDonated = x.vaultDonated.Add(o.Amt)
		}
	}
}

func (x *lRun) block(dt int64) bool {
	x.m.RefreshPrices()
	// C12 (and the sweep of the leveragelp begin blocker): positions holding shares under a running lock and no liquidation /
	// stop-loss condition on the state the next block starts from must still hold them after the block
	type lockedPos struct {
		p     levtypes.Position
		noLiq bool
	}
	var watch []lockedPos
	if x.prop == "C12" || x.prop == "C" {
		qc := x.w.QCtx().WithBlockTime(x.w.Time.Add(time.Duration(dt) * time.Second))
		sf := x.w.App.LeveragelpKeeper.GetParams(qc).SafetyFactor
		for _, p := range x.w.App.LeveragelpKeeper.GetAllPositions(qc) {
			if len(x.levLocks[fmt.Sprintf("%s/%d", p.Address, p.Id)]) == 0 {
				continue
			}
			noLiq := false
			func() {
				defer func() { _ = recover() }()
				h, ok := lIndependentLevHealth(x.w, qc, p)
				ammPool, found := x.w.App.AmmKeeper.GetPool(qc, p.AmmPoolId)
				if !ok || !found {
					return
				}
				lpPrice, err := ammPool.LpTokenPrice(qc, x.w.App.OracleKeeper, x.w.App.AccountedPoolKeeper)
				if err != nil {
					return
				}
				// a comfortable margin: the sweep sees the state AFTER interest accrual of the new block
				noLiq = h.GT(sf.Mul(dec("1.05"))) && (p.StopLossPrice.IsNil() || p.StopLossPrice.IsZero() || lpPrice.GT(p.StopLossPrice.Mul(dec("1.05"))))
			}()
			watch = append(watch, lockedPos{p, noLiq})
		}
	}
	err := x.w.EndBlock(dt)
	if err == nil {
		for _, lp := range watch {
			if lp.noLiq {
				x.c12LevLocked(lp.p.Address, lp.p.Id, "a block in which the position met no liquidation or stop-loss condition")
			}
		}
	}
	if err == nil {
		x.scanDonations(BankOps(x.w.LastBlockEvents))
	}
	if err != nil {
		x.fail("C18:block-failed", err.Error())
		// any property's run is void after a failed block; C18 reports it
		x.dead = true
		return false
	}
	if x.c01 != nil {
		x.c01.step(BankOps(x.w.LastBlockEvents), false, true)
	}
	if x.c08 != nil {
		x.c08.step()
	}
	if x.c02 != nil {
		x.c02.step(BankOps(x.w.LastBlockEvents))
	}
	if x.c11 != nil {
		x.c11.step()
	}
	if x.c09 != nil {
		x.c09.step()
	}
	if x.c06 != nil {
		x.c06.step(BankOps(x.w.LastBlockEvents), "block", "", TxResult{})
	}
	if x.c09b != nil {
		x.c09b.step(BankOps(x.w.LastBlockEvents), "block", TxResult{})
	}
	if x.c09b2 != nil {
		x.c09b2.step(BankOps(x.w.LastBlockEvents), "block", TxResult{})
	}
	x.invariants(fmt.Sprintf("after block %d", x.w.Height))
	if x.prop == "C13" || x.prop == "C" {
		x.c13Solvent(fmt.Sprintf("after block %d", x.w.Height))
	}
	return true
}

// c13Solvent (property C13 over the ledger histories): what every account holding committed shares (users AND position accounts)
// would be paid by a claim now, summed per denom, is covered by the reward module's balance. The amounts come from the module's own
// checkpoint + pending computation run on a throw-away context (the predicate is the property itself: every claim succeeds).
func (x *lRun) c13Solvent(where string) {
	qc, _ := x.w.QCtx().CacheContext()
	mk := x.w.App.MasterchefKeeper
	owed := sdk.NewCoins()
	var who []string
	func() {
		defer func() {
			if r := recover(); r != nil {
				owed = nil
			}
		}()
		pools := mk.GetAllPoolInfos(qc)
		for _, c := range x.w.App.CommitmentKeeper.GetAllCommitments(qc) {
			a, err := sdk.AccAddressFromBech32(c.Creator)
			if err != nil {
				continue
			}
			for _, p := range pools {
				if r := mk.UserPoolPendingReward(qc, a, p.PoolId); !r.IsZero() {
					owed = owed.Add(r...)
					who = append(who, fmt.Sprintf("%s@%d:%s", c.Creator[len(c.Creator)-6:], p.PoolId, r))
				}
			}
		}
	}()
	if owed == nil {
		return
	}
	x.col.ImplCheck(1)
	macc := authtypes.NewModuleAddress("masterchef")
	for _, c := range owed {
		if have := x.w.Bal(macc, c.Denom); have.LT(c.Amount) && c.Denom != "ueden" && c.Denom != "uedenb" {
			x.fail("C13:unpayable", fmt.Sprintf("%s: masterchef holds %s%s but the claims of all holders would pay %s (%s)", where, have, c.Denom, c.Amount, strings.Join(who, " ")))
		}
	}
}

func runLedgerHistory(t *testing.T, col *Collector, prop string, h lHist) {
	w := NewWorld(t)
	m := NewMarket(w, lMarketOpts(h))
	x := &lRun{t: t, col: col, prop: prop, w: w, m: m, h: h, donated: map[string]*big.Int{}, supply0: map[string]sdkmath.Int{}}
	for _, d := range x.externalDenoms() {
		x.supply0[d] = w.App.BankKeeper.GetSupply(w.QCtx(), d).Amount
	}
	x.vaultDonated = sdkmath.ZeroInt()
	x.vaultAddr = authtypes.NewModuleAddress(sstypes.ModuleName).String()
	x.poolAddrs = map[string]bool{}
	for _, p := range w.App.AmmKeeper.GetAllPool(w.QCtx()) {
		x.poolAddrs[p.Address] = true
		x.poolAddrs[p.RebalanceTreasury] = true // weight-balance bonus is paid from here to the swap recipient
	}
	x.step = -1
	if !x.block(5) {
		return
	}
	{ // the params a proposer reads before the history starts (op ss_params)
		snap := w.App.StablestakeKeeper.GetParams(w.QCtx())
		x.ssSnap = &snap
	}
	if prop == "C01" {
		x.c01 = newC01Tracer(x)
	}
	if prop == "C08" {
		x.c08 = newC08Tracer(x)
	}
	if prop == "C02" {
		x.c02 = newC02Tracer(x)
	}
	if prop == "C11" {
		x.c11 = newC11Tracer(x)
	}
	if prop == "C09" {
		x.c09 = newC09Tracer(x)
		x.c09b = newC09bTracer(x, m.OraclePool)
		if m.OraclePool2 != 0 {
			x.c09b2 = newC09bTracer(x, m.OraclePool2)
		}
	}
	if prop == "C06" {
		x.c06 = newC06Tracer(x)
	}
	for k, op := range h.Ops {
		x.step = k
		switch op.Op {
		case "blocks":
			for j := int64(0); j < op.N; j++ {
				if !x.block(op.DT) {
					return
				}
			}
			col.Op("blocks", "ok", nil)
			continue
		case "steer":
			x.steer(op)
			col.Op("steer", "ok", nil)
			continue
		case "c09_tune": // C09 only (harness/c09b_trace_test.go)
			if c09bTune(x, op) {
				col.Op("c09_tune", "ok", nil)
			} else {
				col.Op("c09_tune", "err", nil)
			}
			continue
		case "price":
			x.movePrice(op)
			col.Op("price", "ok", nil)
			continue
		}
		var res TxResult
		var amt *big.Int
		if op.Op == "lev_close_positions" || op.Op == "perp_close_positions" {
			res = x.closePositions(op)
		} else {
			res, amt = x.exec(op)
		}
		x.scanDonations(BankOps(res.Events))
		if x.c01 != nil {
			x.c01.step(BankOps(res.Events), op.Op == "donate", false)
		}
		if x.c08 != nil {
			x.c08.step()
		}
		if x.c02 != nil {
			x.c02.step(BankOps(res.Events))
		}
		if x.c11 != nil {
			x.c11.step()
		}
		if x.c09 != nil {
			x.c09.step()
		}
		if x.c06 != nil {
			x.c06.step(BankOps(res.Events), op.Op, x.m.User(op.U), res)
		}
		if x.c09b != nil {
			x.c09b.step(BankOps(res.Events), op.Op, res)
		}
		if x.c09b2 != nil {
			x.c09b2.step(BankOps(res.Events), op.Op, res)
		}
		col.Op(op.Op, res.Kind(), amt)
		if x.qOf(op) == 1 && res.Kind() != "" { // visibility of the second pool's share of the traffic (evidence: extra)
			x.count("pool2_"+op.Op+":"+res.Kind(), 1)
		}
		if os.Getenv("VERIF_REPLAY") != "" {
			fmt.Printf("replay step %d %+v -> %s %v %v\n", k, op, res.Kind(), res.Err, res.Panic)
		}
		fmt.Fprintf(&x.fp, "%s:%s;", op.Op, res.Kind())
		if res.OK() {
			x.nontriv = true
		}
		x.invariants(fmt.Sprintf("after tx %d (%s %s)", k, op.Op, res.Kind()))
		if k%2 == 1 && !lNoBlockAfter(op) {
			if !x.block(5) {
				return
			}
		}
	}
	x.step = len(h.Ops)
	x.block(5)
	if h.Two {
		x.count("two_pool_histories", 1)
	}
	if x.c01 != nil {
		col.Case(h.ID, x.c01.caseText(h.ID))
		col.mu.Lock()
		n, _ := col.rep.Extra["levelB_single_swap_blocks"].(int)
		col.rep.Extra["levelB_single_swap_blocks"] = n + x.c01.swapsB
		col.mu.Unlock()
	}
	if x.c11 != nil {
		col.Case(h.ID, x.c11.caseText(h.ID))
	}
	if x.c09 != nil {
		bcs := x.c09b.caseText(h.ID)
		if x.c09b2 != nil {
			bcs += ";\n " + x.c09b2.caseText(h.ID+1000000)
			x.c09b2.finish(col)
		}
		col.Case(h.ID, "("+x.c09.caseText(h.ID)+",\n ["+bcs+"])")
		x.c09b.finish(col)
		col.mu.Lock()
		n, _ := col.rep.Extra["mtps_created"].(int)
		col.rep.Extra["mtps_created"] = n + x.c09.news
		n2, _ := col.rep.Extra["mtps_destroyed"].(int)
		col.rep.Extra["mtps_destroyed"] = n2 + x.c09.dels
		col.mu.Unlock()
	}
	if x.c02 != nil {
		col.Case(h.ID, x.c02.caseText(h.ID))
		col.mu.Lock()
		n, _ := col.rep.Extra["share_mints"].(int)
		col.rep.Extra["share_mints"] = n + x.c02.mints
		n2, _ := col.rep.Extra["share_burns"].(int)
		col.rep.Extra["share_burns"] = n2 + x.c02.burns
		col.mu.Unlock()
	}
	if x.c06 != nil {
		col.Case(h.ID, x.c06.caseText(h.ID))
		x.c06.finish(col)
	}
	if x.c08 != nil {
		col.Case(h.ID, x.c08.caseText(h.ID))
		col.mu.Lock()
		n, _ := col.rep.Extra["position_opens"].(int)
		col.rep.Extra["position_opens"] = n + x.c08.opens
		n2, _ := col.rep.Extra["position_closes"].(int)
		col.rep.Extra["position_closes"] = n2 + x.c08.closes
		col.mu.Unlock()
	}
	col.Distinct(x.fp.String(), x.nontriv)
	col.Sample(h)
}

// lNoBlockAfter: ops the generator appends in parity-neutral PAIRS to the op a draw stood for (the driver closes a block after every
// op with an odd index); exempt from that rule so that every other op of a stored seed stays in the block it was in
func lNoBlockAfter(op lOp) bool {
	return op.Op == "feed_ext" || op.Op == "pos_donate" || op.Op == "ss_params" || op.Dup != 0
}

func firstLines(s string, n int) string {
	ls := strings.Split(s, "\n")
	if len(ls) > n {
		ls = ls[:n]
	}
	return strings.Join(ls, "\n")
}

func runLedger(t *testing.T, prop string) {
	seed := envInt("VERIF_SEED", 1)
	cname := prop
	if prop == "C12" {
		cname = "C12l" // extra test of the C12 check: the lock-up rule on leveraged positions (TestC12 has its own directory)
	}
	if prop == "C13" {
		cname = "C13l" // extra test of the C13 check: solvency of the reward module over the ledger histories (leveraged positions, batches)
	}
	col := NewCollector(cname, seed)
	n := 128
	if tier() == "thorough" {
		n = 1200
	}
	n = int(envInt("VERIF_N", int64(n)))
	var hists []lHist
	var one lHist
	if loadReplay(&one) {
		hists = []lHist{one}
	} else {
		hists = append(hists, ledgerCorpus()...)
		if prop == "C06" {
			hists = append(hists, c06Corpus()...)
		}
		if prop == "C09" {
			hists = append(hists, c09bCorpus()...)
		}
		for i := len(hists); i < n; i++ {
			h := lGen(NewRng(uint64(seed), uint64(i)), i)
			if prop == "C06" {
				h = c06Augment(h, NewRng(uint64(seed)+1000003, uint64(i)))
			}
			hists = append(hists, h)
		}
		// third batch of directed histories (harness/ledger3_test.go), after the others so that those keep their indices
		ne := 12
		if tier() == "thorough" {
			ne = 160
		}
		hists = append(hists, lExtras3(seed, len(hists), int(envInt("VERIF_NEXTRA", int64(ne))))...)
	}
	RunParallel(len(hists), func(i int) {
		h := hists[i]
		h.ID = i
		runLedgerHistory(t, col, prop, h)
	})
	header, footer := "", ""
	switch prop {
	case "C01":
		header = "From Coq Require Import ZArith List Bool.\nFrom Elys Require Import Base.Res Base.Fn Models.AmmLedger Run.AmmLedgerRun.\nImport ListNotations.\nOpen Scope Z_scope.\n"
		footer = "Definition M := Eval vm_compute in mismatches cases.\nPrint M.\n"
	case "C02":
		header = "From Coq Require Import ZArith List Bool.\nFrom Elys Require Import Base.Res Base.Fn Models.SumLedger Models.Shares Run.SharesRun.\nImport ListNotations.\nOpen Scope Z_scope.\n"
		footer = "Definition M := Eval vm_compute in mismatches cases.\nPrint M.\n"
	case "C11":
		header = "From Coq Require Import ZArith List Bool.\nFrom Elys Require Import Base.Res Models.AccPool Run.AccPoolRun.\nImport ListNotations.\nOpen Scope Z_scope.\n"
		footer = "Definition M := Eval vm_compute in mismatches cases.\nPrint M.\n"
	case "C09":
		header, footer = c09bCoqHeader, c09bCoqFooter
	case "C06":
		header, footer = c06CoqHeader, c06CoqFooter
	case "C08":
		header = "From Coq Require Import ZArith List Bool.\nFrom Elys Require Import Base.Res Base.Fn Models.SumLedger Models.LevLedger Models.LevLedgerMulti Run.LevLedgerMultiRun.\nImport ListNotations.\nOpen Scope Z_scope.\n"
		footer = "Definition M := Eval vm_compute in mismatches cases.\nPrint M.\n"
	}
	col.Finish(t, len(hists), header, footer, 12)
}

func ledgerCorpus() []lHist {
	return []lHist{
		{Ops: []lOp{ // perpetual long with uusdc collateral (accounted pool staleness before its fix)
			{Op: "perp_open", U: 1, Dir: 0, Amt: "1000000000", Lev: "3"}, {Op: "blocks", N: 1, DT: 5},
			{Op: "perp_open", U: 2, Dir: 1, Amt: "500000000", Lev: "2"}, {Op: "blocks", N: 2, DT: 3700},
			{Op: "perp_close", U: 1, Idx: 0, Rel: 3}, {Op: "perp_close", U: 1, Idx: 0, Rel: 5}}},
		{Ops: []lOp{ // C01 (fixed 6ee1073): fee conversion rejected by the leveragelp AfterSwap hook inside a huge swap
			{Op: "lev_open", U: 1, Amt: "9025762260", Lev: "5", P: "0"},
			{Op: "swap_in", U: 2, V: 2, Dir: 1, Amt: "183028483069"}, {Op: "blocks", N: 1, DT: 5}}},
		{Ops: []lOp{ // C18 (fixed 2c7dfa0): perpetual revenue in uatom cannot be converted, masterchef EndBlocker returned the error
			{Op: "lev_open", U: 3, Amt: "4119892071", Lev: "10", P: "0.5"},
			{Op: "perp_open", U: 3, Dir: 2, Amt: "1705603", Rel: 3, Lev: "3"},
			{Op: "join", U: 2, Dir: 2, Amt: "569046028584"}, {Op: "blocks", N: 1, DT: 86400},
			{Op: "perp_close", U: 1, Rel: 1, Idx: 3}, {Op: "blocks", N: 2, DT: 5}}},
		{Ops: []lOp{ // C08/C02 (fixed f605879): dust position whose liquidation fails half way in the begin blocker
			{Op: "lev_open", U: 2, Amt: "4281", Lev: "3", P: "0"}, {Op: "blocks", N: 1, DT: 3700},
			{Op: "lev_close", U: 2, Rel: 4, Idx: 2}, {Op: "blocks", N: 3, DT: 5}}},
		{Ops: []lOp{ // C11 (fixed 48844d3): liquidation check on a healthy position settles interest without a hook
			{Op: "perp_open", U: 1, Dir: 0, Amt: "1000000000", Lev: "3"}, {Op: "blocks", N: 2, DT: 3700},
			{Op: "perp_close_positions", U: 3, Idx: 0, Dir: 0}, {Op: "blocks", N: 1, DT: 5}}},
		{Ops: []lOp{ // leveraged LP life cycle with a price move and third-party liquidation attempts
			{Op: "lev_open", U: 3, Amt: "10000000", Lev: "5", P: "0"}, {Op: "blocks", N: 1, DT: 3700},
			{Op: "lev_close_positions", U: 4, Idx: 0, Dir: 0}, {Op: "price", P: "0.5"}, {Op: "lev_close_positions", U: 4, Idx: 0, Dir: 0},
			{Op: "lev_close", U: 3, Idx: 0, Rel: 3}, {Op: "lev_close", U: 3, Idx: 0, Rel: 5}}},
		{Ops: []lOp{ // a batch whose HEAD is liquidatable with a payout left (price steered to just below its threshold), followed by another position of the same pool
			{Op: "perp_open", U: 0, Amt: "2681668", Rel: 1, Lev: "10"}, {Op: "perp_open", U: 1, Dir: 2, Amt: "6793680", Rel: 2, Lev: "8"},
			{Op: "swap_in", U: 4, V: 3, Dir: 1, Amt: "5430898", Rel: 3}, {Op: "blocks", N: 1, DT: 3700},
			{Op: "steer"}, {Op: "perp_close_positions", U: 1, N: 8}, {Op: "blocks", N: 1, DT: 5}}},
		{Ops: []lOp{ // take-profit prices one price move away, the move, a third party's take-profit batch (the rarely used list), then the rest is closed
			{Op: "perp_open", U: 1, Dir: 0, Amt: "800000000", Lev: "3", Rel: 2}, {Op: "perp_open", U: 2, Dir: 1, Amt: "300000000", Lev: "2", Rel: 2},
			{Op: "perp_open", U: 3, Dir: 2, Amt: "50000000", Lev: "2", Rel: 2}, {Op: "blocks", N: 1, DT: 3700},
			{Op: "perp_close_positions", U: 4, Idx: 0, Dir: 2, N: 8}, // not reached yet: nothing may close
			{Op: "price", P: "1.25"}, {Op: "perp_close_positions", U: 4, Idx: 0, Dir: 2, N: 8}, {Op: "swap_in", U: 0, V: 0, Dir: 0, Amt: "1000000"}, {Op: "blocks", N: 1, DT: 5},
			{Op: "price", P: "0.5"}, {Op: "perp_close_positions", U: 4, Idx: 0, Dir: 2, N: 8, Rel: 1}, {Op: "blocks", N: 1, DT: 5},
			{Op: "perp_close", U: 1, Idx: 0, Rel: 5}, {Op: "perp_close", U: 1, Idx: 0, Rel: 5}}},
		{Ops: []lOp{ // a large long left alone for 200 days against a small short (longs pay funding): the funding due exceeds the custody left; then a
			// bystander opens and the owner tops up (leverage 0) / consolidates with enough collateral for the merged position
			{Op: "perp_open", U: 1, Dir: 0, Amt: "1000000000", Lev: "5"}, {Op: "perp_open", U: 2, Dir: 1, Amt: "30000000", Lev: "2"},
			{Op: "blocks", N: 1, DT: 17280000}, {Op: "perp_open", U: 3, Dir: 0, Amt: "200000000", Lev: "2"},
			{Op: "perp_open", U: 1, Dir: 0, Amt: "3000000000", Lev: "0"}, {Op: "blocks", N: 1, DT: 5},
			{Op: "perp_open", U: 1, Dir: 0, Amt: "500000000", Lev: "2"}, {Op: "blocks", N: 1, DT: 17280000},
			{Op: "perp_open", U: 1, Dir: 0, Amt: "4000000000", Lev: "1.5"}, {Op: "blocks", N: 1, DT: 5},
			{Op: "perp_close", U: 3, Idx: 2, Rel: 5}, {Op: "perp_close", U: 3, Idx: 0, Rel: 5}, {Op: "perp_close", U: 3, Idx: 0, Rel: 5}}},
		// ---- two-pool market (second oracle pool uusdc/aweth, 18 decimals, price 2000)
		{Two: true, Ops: []lOp{ // leveraged-LP position ids vs pool ids: position 1 lives in the SECOND pool (amm pool 3), positions 2 and 3 in the first
			// (amm pool 1); stop-loss prices far above the LP token price (reached at once); after the one-hour lock a third party's STOP-LOSS batch
			{Op: "lev_open", U: 1, Amt: "400000000", Lev: "3", P: "1000000", Q: 1}, {Op: "lev_open", U: 2, Amt: "300000000", Lev: "2", P: "1000000"},
			{Op: "lev_open", U: 3, Amt: "200000000", Lev: "5", P: "1000000"}, {Op: "lev_open", U: 4, Amt: "100000000", Lev: "2", P: "0", Q: 1},
			{Op: "blocks", N: 1, DT: 3700}, {Op: "lev_close_positions", U: 0, Idx: 0, Dir: 1, N: 8}, {Op: "blocks", N: 1, DT: 5},
			{Op: "lev_close_positions", U: 0, Idx: 0, Dir: 1, N: 8, Rel: 1}, {Op: "lev_close", U: 4, Idx: 0, Rel: 5}, {Op: "blocks", N: 1, DT: 5}}},
		{Two: true, Ops: []lOp{ // the 200-day funding gap on the second pool while the first pool has the mirrored market
			{Op: "perp_open", U: 1, Dir: 0, Amt: "1000000000", Lev: "5", Q: 1}, {Op: "perp_open", U: 2, Dir: 1, Amt: "30000000", Lev: "2", Q: 1},
			{Op: "perp_open", U: 2, Dir: 0, Amt: "30000000", Lev: "2"}, {Op: "perp_open", U: 1, Dir: 1, Amt: "1000000000", Lev: "3"},
			{Op: "blocks", N: 1, DT: 17280000}, {Op: "perp_open", U: 3, Dir: 0, Amt: "200000000", Lev: "2", Q: 1},
			{Op: "perp_open", U: 1, Dir: 0, Amt: "3000000000", Lev: "0", Q: 1}, {Op: "perp_open", U: 2, Dir: 0, Amt: "900000000", Lev: "0"}, {Op: "blocks", N: 1, DT: 5}}},
		{Two: true, Ops: []lOp{ // take-profit batch listing reached positions of both pools
			{Op: "perp_open", U: 1, Dir: 0, Amt: "800000000", Lev: "3", Rel: 2}, {Op: "perp_open", U: 1, Dir: 0, Amt: "600000000", Lev: "2", Rel: 2, Q: 1},
			{Op: "perp_open", U: 2, Dir: 1, Amt: "300000000", Lev: "2", Rel: 2, Q: 1}, {Op: "blocks", N: 1, DT: 3700},
			{Op: "price", P: "1.25"}, {Op: "price", P: "1.25", Q: 1}, {Op: "perp_close_positions", U: 4, Idx: 0, Dir: 2, N: 8}, {Op: "blocks", N: 1, DT: 5},
			{Op: "price", P: "0.5", Q: 1}, {Op: "perp_close_positions", U: 4, Idx: 0, Dir: 2, N: 8}, {Op: "blocks", N: 1, DT: 5}}},
		{Two: true, Ops: []lOp{ // the same on the second pool, with positions of the same owners on the first pool listed in between
			{Op: "perp_open", U: 0, Amt: "2681668", Rel: 1, Lev: "10", Q: 1}, {Op: "perp_open", U: 0, Amt: "3000000", Lev: "3"},
			{Op: "perp_open", U: 1, Dir: 2, Amt: "6793680", Rel: 2, Lev: "8", Q: 1}, {Op: "perp_open", U: 1, Dir: 2, Amt: "5000000", Lev: "2"},
			{Op: "swap_in", U: 4, V: 3, Dir: 1, Amt: "5430898", Rel: 3, Q: 1}, {Op: "blocks", N: 1, DT: 3700},
			{Op: "steer"}, {Op: "perp_close_positions", U: 1, N: 8}, {Op: "blocks", N: 1, DT: 5}}},
		{Two: true, Ops: []lOp{ // one owner holds a leveraged-LP position on EACH pool, a second owner only on the second; only aweth crashes; one batch lists all
			{Op: "lev_open", U: 1, Amt: "2000000000", Lev: "5", P: "0"}, {Op: "lev_open", U: 1, Amt: "3000000000", Lev: "9.5", P: "0", Q: 1},
			{Op: "lev_open", U: 2, Amt: "70000000", Lev: "10", P: "0", Q: 1}, {Op: "blocks", N: 2, DT: 86400},
			{Op: "lev_open", U: 1, Amt: "500000000", Lev: "2", P: "0", Q: 1}, // consolidating re-open on the second pool
			{Op: "lev_close_positions", U: 4, Idx: 0, Dir: 0, N: 8}, {Op: "price", P: "0.5", Q: 1}, {Op: "blocks", N: 1, DT: 5},
			{Op: "lev_close_positions", U: 4, Idx: 1, Dir: 0, N: 8, Rel: 1}, {Op: "blocks", N: 1, DT: 3700},
			{Op: "lev_close", U: 1, Idx: 0, Rel: 3}, {Op: "lev_close", U: 1, Idx: 1, Rel: 3}, {Op: "lev_close", U: 1, Idx: 0, Rel: 5}, {Op: "lev_close", U: 1, Idx: 0, Rel: 5},
			{Op: "lev_close", U: 2, Idx: 0, Rel: 5}, {Op: "blocks", N: 1, DT: 5}}},
		{Two: true, Ops: []lOp{ // perpetual: the same owner long on both pools (base-currency and trading-asset collateral), shorts on both, funding + interest, mixed batch, closes
			{Op: "perp_open", U: 1, Dir: 0, Amt: "1000000000", Lev: "3"}, {Op: "perp_open", U: 1, Dir: 2, Amt: "40000000", Lev: "2", Q: 1},
			{Op: "perp_open", U: 2, Dir: 1, Amt: "300000000", Lev: "2", Q: 1}, {Op: "perp_open", U: 2, Dir: 1, Amt: "200000000", Lev: "2"},
			{Op: "blocks", N: 2, DT: 3700}, {Op: "perp_open", U: 1, Dir: 2, Amt: "10000000", Lev: "0", Q: 1}, // collateral top-up on the second pool
			{Op: "perp_close_positions", U: 3, Idx: 0, Dir: 0, N: 8}, {Op: "blocks", N: 1, DT: 86400},
			{Op: "price", P: "0.5", Q: 1}, {Op: "perp_close_positions", U: 3, Idx: 1, Dir: 0, N: 8, Rel: 1}, {Op: "blocks", N: 1, DT: 5},
			{Op: "perp_close", U: 1, Idx: 0, Rel: 3}, {Op: "perp_close", U: 1, Idx: 1, Rel: 3}, {Op: "perp_close", U: 2, Idx: 2, Rel: 5}, {Op: "perp_close", U: 2, Idx: 2, Rel: 5},
			{Op: "perp_close", U: 1, Idx: 0, Rel: 5}, {Op: "perp_close", U: 1, Idx: 0, Rel: 5}, {Op: "blocks", N: 1, DT: 5}}},
		{Two: true, Ops: []lOp{ // routes over both oracle pools, single-sided 18-decimals liquidity in and out, dust, a position open on each pool meanwhile
			{Op: "perp_open", U: 3, Dir: 0, Amt: "500000000", Lev: "2", Q: 1}, {Op: "lev_open", U: 3, Amt: "800000000", Lev: "3", P: "0"},
			{Op: "swap_hop", U: 1, Dir: 5, Amt: "3000000000"}, {Op: "swap_hop", U: 2, Dir: 6, Amt: "2000000000"}, {Op: "blocks", N: 1, DT: 5},
			{Op: "swap_hop", U: 1, Dir: 7, Amt: "100000000"}, {Op: "swap_hop", U: 2, Dir: 8, Amt: "700000000"}, {Op: "swap_hop", U: 4, Dir: 9, Amt: "50000000"}, {Op: "blocks", N: 1, DT: 5},
			{Op: "join", U: 4, Dir: 2, Amt: "9000000000", Q: 1}, {Op: "join", U: 4, Dir: 2, Amt: "7", Q: 1, Raw: true}, {Op: "join", U: 4, Dir: 0, Amt: "1000000", Q: 1},
			{Op: "swap_in", U: 2, V: 2, Dir: 1, Amt: "1", Q: 1, Raw: true}, {Op: "swap_out", U: 2, V: 1, Dir: 0, Amt: "123456789", Q: 1, Rel: 1}, {Op: "blocks", N: 1, DT: 3700},
			{Op: "exit", U: 4, Dir: 2, Rel: 3, Q: 1}, {Op: "exit", U: 4, Dir: 0, Rel: 5, Q: 1}, {Op: "blocks", N: 1, DT: 5}}},
	}
}

var _ = sort.Strings

func TestLedgerAll(t *testing.T) { // harness self-test: every predicate, all properties
	seed := envInt("VERIF_SEED", 1)
	col := NewCollector("LedgerAll", seed)
	n := int(envInt("VERIF_N", 48))
	extras := lExtras3(seed, n, int(envInt("VERIF_NEXTRA", 12)))
	RunParallel(n+len(extras), func(i int) {
		var h lHist
		if i < n {
			h = lGen(NewRng(uint64(seed), uint64(i)), i)
		} else {
			h = extras[i-n]
			h.ID = i
		}
		runLedgerHistoryAll(t, col, h)
	})
	col.Finish(t, n+len(extras), "", "", 300)
}

func runLedgerHistoryAll(t *testing.T, col *Collector, h lHist) {
	// run once with a prefix that matches every signature
	runLedgerHistory(t, col, "C", h)
}

func TestC01(t *testing.T) { runLedger(t, "C01") }
func TestC02(t *testing.T) { runLedger(t, "C02") }
func TestC06(t *testing.T) { runLedger(t, "C06") }
func TestC08(t *testing.T) { runLedger(t, "C08") }
func TestC09(t *testing.T) { runLedger(t, "C09") }
func TestC11(t *testing.T) { runLedger(t, "C11") }

// TestC13Ledger: the ledger histories judged by C13's solvency predicate (extra test of the C13 check)
func TestC13Ledger(t *testing.T) { runLedger(t, "C13") }

// TestC12Ledger: the ledger histories judged by C12's lock-up rule on leveraged-LP positions (extra test of the C12 check)
func TestC12Ledger(t *testing.T) { runLedger(t, "C12") }

// ---------------- shrinking (delta debugging on the op list) ----------------

func ledgerHasSig(t *testing.T, prop string, h lHist, sig string) bool {
	col := &Collector{cases: map[int]string{}}
	col.rep = Report{Property: prop, OpHist: map[string]int{}, ResHist: map[string]int{}, DecadeHist: map[string]int{}, Extra: map[string]interface{}{}, distinctSeen: map[string]bool{}}
	runLedgerHistory(t, col, prop, h)
	for _, v := range col.rep.Violations {
		if v.Signature == sig {
			return true
		}
	}
	return false
}

func shrinkLedger(t *testing.T, prop string, h lHist, sig string) lHist {
	ops := h.Ops
	chunk := len(ops) / 2
	for chunk >= 1 {
		changed := false
		for i := 0; i+chunk <= len(ops); {
			cand := append(append([]lOp{}, ops[:i]...), ops[i+chunk:]...)
			if ledgerHasSig(t, prop, lHist{ID: h.ID, Ops: cand}, sig) {
				ops = cand
				changed = true
			} else {
				i += chunk
			}
		}
		if !changed || chunk == 1 {
			if chunk == 1 && !changed {
				break
			}
		}
		if chunk > 1 {
			chunk /= 2
		} else if !changed {
			break
		}
	}
	return lHist{ID: h.ID, Ops: ops}
}

// TestShrink: VERIF_REPLAY=<violation json> VERIF_SIG=<signature> -> prints the minimised history
func TestShrink(t *testing.T) {
	var h lHist
	if !loadReplay(&h) {
		t.Skip("no VERIF_REPLAY")
	}
	sig := os.Getenv("VERIF_SIG")
	if !ledgerHasSig(t, "C", h, sig) {
		t.Fatalf("signature %s does not reproduce", sig)
	}
	m := shrinkLedger(t, "C", h, sig)
	b, _ := json.MarshalIndent(m, "", " ")
	fmt.Println(string(b))
	if out := os.Getenv("VERIF_SHRUNK"); out != "" {
		_ = os.WriteFile(out, b, 0o644)
	}
}
