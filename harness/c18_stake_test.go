package harness

// C18 - staking / estaking op family ("s_*" ops of the C18 histories).
//
// Real cosmos-sdk staking messages (MsgDelegate, MsgUndelegate, MsgBeginRedelegate, MsgCancelUnbondingDelegation,
// MsgCreateValidator, staking MsgUpdateParams) against the genesis validator of the test application and against
// validators created by the users, commitment messages that move Eden / EdenB between the claimed and the committed
// bucket (MsgCommitClaimedRewards, MsgUncommitTokens, MsgStake, MsgUnstake: the committed amounts ARE the delegations
// to the two virtual validators of x/estaking), reward withdrawals (estaking MsgWithdrawReward /
// MsgWithdrawElysStakingRewards / MsgWithdrawAllRewards, distribution MsgWithdrawDelegatorReward /
// MsgWithdrawValidatorCommission), by several users, amounts dust / fractions / all-1 / all / all+1 relative to the
// balance, the delegation, the claimed or the committed amount, interleaved with blocks of 5 s .. 30 days (unbonding
// completion, epochs) and with the estaking / parameter settings of c18Run.param.
//
// What this reaches that the other C18 histories do not: x/estaking EndBlocker -> BurnEdenBIfElysStakingReduced ->
// BurnEdenBFromElysUnstaking -> WithdrawAllRewards -> SDK distribution WithdrawDelegationRewards (whose sanity checks
// PANIC) and commitment BurnEdenBoost with its hooks, outside any recover; the distribution wrapper's begin blocker with
// rewards allocated to real and virtual validators; the staking end blocker with unbonding / redelegation queues.
//
// Claimable Eden / EdenB comes from the real reward path (time based inflation on, stake, let blocks pass, withdraw)
// and, to get interesting amounts early, from the fixture op s_reward, which pays through the commitment keeper's bank
// wrapper exactly as the distribution module pays rewards.

import (
	"encoding/json"
	"fmt"
	"math/big"
	"os"
	"strings"
	"sync"
	"testing"

	sdkmath "cosmossdk.io/math"
	"github.com/cosmos/cosmos-sdk/crypto/keys/ed25519"
	sdk "github.com/cosmos/cosmos-sdk/types"
	authtypes "github.com/cosmos/cosmos-sdk/x/auth/types"
	distrtypes "github.com/cosmos/cosmos-sdk/x/distribution/types"
	stakingtypes "github.com/cosmos/cosmos-sdk/x/staking/types"
	ccvconsumertypes "github.com/cosmos/interchain-security/v6/x/ccv/consumer/types"

	ctypes "github.com/elys-network/elys/x/commitment/types"
	estypes "github.com/elys-network/elys/x/estaking/types"
)

const (
	c18Day = int64(86400)
)

// real validators in a replay-stable order: the genesis validator(s) first (their keys are drawn afresh for every
// application, so the store order is not stable), then the validators created by s_create_val in user order
func c18Vals(w *World, m *Market) []stakingtypes.Validator {
	vals, err := w.App.StakingKeeper.GetAllValidators(w.QCtx())
	if err != nil {
		return nil
	}
	byOp := map[string]stakingtypes.Validator{}
	for _, v := range vals {
		byOp[v.OperatorAddress] = v
	}
	var created []stakingtypes.Validator
	for _, a := range m.Users {
		op := sdk.ValAddress(a).String()
		if v, ok := byOp[op]; ok {
			created = append(created, v)
			delete(byOp, op)
		}
	}
	var out []stakingtypes.Validator
	for _, v := range vals {
		if _, ok := byOp[v.OperatorAddress]; ok {
			out = append(out, v)
		}
	}
	return append(out, created...)
}

func c18ValOf(w *World, m *Market, i int) (string, stakingtypes.Validator, bool) {
	vals := c18Vals(w, m)
	if len(vals) == 0 {
		return "", stakingtypes.Validator{}, false
	}
	v := vals[((i%len(vals))+len(vals))%len(vals)]
	return v.OperatorAddress, v, true
}

// tokens the delegation of del to val is worth now (0 when there is none)
func c18DelTokens(w *World, del sdk.AccAddress, val stakingtypes.Validator) sdkmath.Int {
	va, err := sdk.ValAddressFromBech32(val.OperatorAddress)
	if err != nil {
		return sdkmath.ZeroInt()
	}
	d, err := w.App.StakingKeeper.GetDelegation(w.QCtx(), del, va)
	if err != nil || val.DelegatorShares.IsZero() {
		return sdkmath.ZeroInt()
	}
	return val.TokensFromShares(d.Shares).TruncateInt()
}

func c18VirtDenom(dir int) string {
	if dir%2 == 0 {
		return "ueden"
	}
	return "uedenb"
}

// amount: absolute when the op carries one, otherwise relative to the natural base of the op
func c18Amt(op lOp, base sdkmath.Int) sdkmath.Int {
	if op.Amt != "" {
		return bigOf(op.Amt)
	}
	return relOf(op.Rel, base)
}

func (c *c18Run) stake(op lOp) {
	w, m := c.w, c.m
	app := w.App
	u := m.User(op.U)
	ua := sdk.MustAccAddressFromBech32(u)
	one := func(kind string, msg sdk.Msg, amt sdkmath.Int) TxResult {
		return c.tx(kind, func() (TxResult, *big.Int) {
			if amt.IsNil() {
				return w.Deliver(msg), nil
			}
			return w.Deliver(msg), amt.BigInt()
		})
	}
	switch op.Op {
	case "s_reward": // fixture: a staking reward in Eden / EdenB is paid out (commitment keeper's bank wrapper: it lands in `claimed`)
		v := bigOf(op.Amt)
		if v.IsPositive() {
			ctx := w.Ctx()
			coins := sdk.NewCoins(sdk.NewCoin(c18VirtDenom(op.Dir), v))
			if err := app.CommitmentKeeper.MintCoins(ctx, ctypes.ModuleName, coins); err != nil {
				c.t.Fatalf("c18 s_reward mint: %v", err)
			}
			if err := app.CommitmentKeeper.SendCoinsFromModuleToAccount(ctx, ctypes.ModuleName, ua, coins); err != nil {
				c.t.Fatalf("c18 s_reward send: %v", err)
			}
		}
		c.col.Op(op.Op, "ok", v.BigInt())
	case "s_create_val":
		va := sdk.ValAddress(ua)
		pk := ed25519.GenPrivKeyFromSecret([]byte(fmt.Sprintf("c18-validator-%d", op.U%len(m.Users)))).PubKey()
		v := c18Amt(op, w.Bal(ua, ELYS))
		rates := [][3]string{{"0.05", "0.2", "0.01"}, {"0", "0", "0"}, {"1", "1", "1"}}[op.Dir%3]
		msg, err := stakingtypes.NewMsgCreateValidator(va.String(), pk, sdk.NewCoin(ELYS, v), stakingtypes.Description{Moniker: fmt.Sprintf("c18-%d", op.U)},
			stakingtypes.NewCommissionRates(dec(rates[0]), dec(rates[1]), dec(rates[2])), sdkmath.OneInt())
		if err != nil {
			c.col.Op(op.Op, "err", nil)
			return
		}
		one(op.Op, msg, v)
	case "s_delegate":
		val, _, ok := c18ValOf(w, m, op.V)
		if !ok {
			return
		}
		v := c18Amt(op, w.Bal(ua, ELYS))
		one(op.Op, &stakingtypes.MsgDelegate{DelegatorAddress: u, ValidatorAddress: val, Amount: sdk.Coin{Denom: ELYS, Amount: v}}, v)
	case "s_undelegate":
		val, vv, ok := c18ValOf(w, m, op.V)
		if !ok {
			return
		}
		v := c18Amt(op, c18DelTokens(w, ua, vv))
		one(op.Op, &stakingtypes.MsgUndelegate{DelegatorAddress: u, ValidatorAddress: val, Amount: sdk.Coin{Denom: ELYS, Amount: v}}, v)
	case "s_redelegate":
		src, vv, ok := c18ValOf(w, m, op.V)
		dst, _, _ := c18ValOf(w, m, op.V+1+op.Idx)
		if !ok {
			return
		}
		v := c18Amt(op, c18DelTokens(w, ua, vv))
		one(op.Op, &stakingtypes.MsgBeginRedelegate{DelegatorAddress: u, ValidatorSrcAddress: src, ValidatorDstAddress: dst, Amount: sdk.Coin{Denom: ELYS, Amount: v}}, v)
	case "s_cancel_unbond":
		val, _, ok := c18ValOf(w, m, op.V)
		if !ok {
			return
		}
		va, _ := sdk.ValAddressFromBech32(val)
		height, base := w.Height, sdkmath.NewInt(1000)
		if ubd, err := app.StakingKeeper.GetUnbondingDelegation(w.QCtx(), ua, va); err == nil && len(ubd.Entries) > 0 {
			e := ubd.Entries[int(op.N)%len(ubd.Entries)]
			height, base = e.CreationHeight, e.Balance
		}
		v := c18Amt(op, base)
		one(op.Op, &stakingtypes.MsgCancelUnbondingDelegation{DelegatorAddress: u, ValidatorAddress: val, Amount: sdk.Coin{Denom: ELYS, Amount: v}, CreationHeight: height}, v)
	case "s_sparam": // staking parameters the SDK's own validation accepts
		p, err := app.StakingKeeper.GetParams(w.QCtx())
		if err != nil {
			return
		}
		switch op.Dir % 4 {
		case 0:
			p.UnbondingTime = 1_000_000_000 // one second: unbondings complete in the next block
		case 1:
			p.MaxValidators = 1 // a second validator is pushed out of the bonded set
		case 2:
			p.MaxEntries = 1
		default:
			d := stakingtypes.DefaultParams()
			p.UnbondingTime, p.MaxValidators, p.MaxEntries = d.UnbondingTime, d.MaxValidators, d.MaxEntries
		}
		res := one(fmt.Sprintf("s_sparam_%d", op.Dir%4), &stakingtypes.MsgUpdateParams{Authority: w.Gov, Params: p}, sdkmath.Int{})
		if res.OK() {
			// A governance message runs in the gov END blocker, which precedes the staking end blocker in the production
			// order: the validator-set update of the SAME block sees the new parameters (and pushes validators out of a
			// smaller bonded set) before the next begin blocker reads the last validator set. The harness delivers
			// messages between blocks, so that update is run here (without it the SDK's staking begin blocker panics
			// with "more validators than maxValidators found", a state no production block order can produce).
			cctx, write := w.Ctx().CacheContext()
			if k, err := c18Guard(func() error { _, e := app.StakingKeeper.ApplyAndReturnValidatorSetUpdates(cctx); return e }); k == 0 {
				write()
			} else {
				c.fail("C18:block-failed:staking-valset-update-after-params", fmt.Sprint(err))
			}
		}
	case "s_commit":
		d := c18VirtDenom(op.Dir)
		cm := app.CommitmentKeeper.GetCommitments(w.QCtx(), ua)
		v := c18Amt(op, cm.GetClaimedForDenom(d))
		one(op.Op+"_"+d, &ctypes.MsgCommitClaimedRewards{Creator: u, Denom: d, Amount: v}, v)
	case "s_uncommit":
		d := c18VirtDenom(op.Dir)
		cm := app.CommitmentKeeper.GetCommitments(w.QCtx(), ua)
		v := c18Amt(op, cm.GetCommittedAmountForDenom(d))
		one(op.Op+"_"+d, &ctypes.MsgUncommitTokens{Creator: u, Denom: d, Amount: v}, v)
	case "s_cstake", "s_cunstake": // the commitment module's front door to both of the above and to the SDK staking messages
		val, vv, ok := c18ValOf(w, m, op.V)
		if !ok {
			return
		}
		cm := app.CommitmentKeeper.GetCommitments(w.QCtx(), ua)
		asset := []string{ELYS, "ueden", "uedenb"}[op.Dir%3]
		var base sdkmath.Int
		stake := op.Op == "s_cstake"
		switch {
		case asset == ELYS && stake:
			base = w.Bal(ua, ELYS)
		case asset == ELYS:
			base = c18DelTokens(w, ua, vv)
		case stake:
			base = cm.GetClaimedForDenom(asset)
		default:
			base = cm.GetCommittedAmountForDenom(asset)
		}
		v := c18Amt(op, base)
		if stake {
			one(op.Op+"_"+asset, &ctypes.MsgStake{Creator: u, Amount: v, Asset: asset, ValidatorAddress: val}, v)
		} else {
			one(op.Op+"_"+asset, &ctypes.MsgUnstake{Creator: u, Amount: v, Asset: asset, ValidatorAddress: val}, v)
		}
	case "s_withdraw":
		ep := app.EstakingKeeper.GetParams(w.QCtx())
		val, _, _ := c18ValOf(w, m, op.V)
		switch op.Idx % 3 { // which validator: a real one, the Eden one, the EdenB one
		case 1:
			val = ep.EdenCommitVal
		case 2:
			val = ep.EdenbCommitVal
		}
		switch op.Dir % 5 {
		case 0:
			one("s_withdraw_reward", &estypes.MsgWithdrawReward{DelegatorAddress: u, ValidatorAddress: val}, sdkmath.Int{})
		case 1:
			one("s_withdraw_elys", &estypes.MsgWithdrawElysStakingRewards{DelegatorAddress: u}, sdkmath.Int{})
		case 2:
			one("s_withdraw_all", &estypes.MsgWithdrawAllRewards{DelegatorAddress: u}, sdkmath.Int{})
		case 3:
			one("s_withdraw_sdk", &distrtypes.MsgWithdrawDelegatorReward{DelegatorAddress: u, ValidatorAddress: val}, sdkmath.Int{})
		default:
			one("s_withdraw_commission", &distrtypes.MsgWithdrawValidatorCommission{ValidatorAddress: sdk.ValAddress(ua).String()}, sdkmath.Int{})
		}
	default:
		c.t.Fatalf("unknown staking op %q", op.Op)
	}
}

// c18StakeCause: suffix that makes the signature of a failed block specific when a parameter edge explains it.
// TotalBlocksPerYear is a uint64 that x/parameter accepts up to 2^64-1 while every consumer converts it with int64(...):
// at or above 2^63 the per-block reward amounts turn negative (sdk.NewCoin panics in the estaking end blocker).
func c18StakeCause(w *World) string {
	if w.App.ParameterKeeper.GetParams(w.QCtx()).TotalBlocksPerYear > 1<<63-1 {
		return ":total-blocks-per-year-above-int64"
	}
	return ""
}

// ---------------------------------------------------------------- generator

// parameter settings of c18Run.param that touch the staking reward path
var c18StakeParams = []int{6, 7, 9, 10, 11, 12, 13, 15, 23, 0, 2}

func c18StakeGen(r *Rng, id int) lHist {
	h := lHist{ID: id}
	add := func(o ...lOp) { h.Ops = append(h.Ops, o...) }
	blocks := func(n, dt int64) lOp { return lOp{Op: "blocks", N: n, DT: dt} }
	rel := func() int { return []int{0, 1, 2, 2, 3, 3, 4, 5, 5, 6, 7}[r.Intn(11)] }
	part := func() int { return []int{0, 1, 2, 3}[r.Intn(4)] } // strictly partial
	nu := 4
	// ---- prelude: rewards flow (time based inflation), a parameter setting now and then, maybe a second validator
	if r.Chance(75) {
		add(lOp{Op: "f_inflation", N: 1000, Idx: []int{1, 1, 4, 0, 2}[r.Intn(5)]})
	}
	if r.Chance(35) {
		add(lOp{Op: "f_param", Idx: c18StakeParams[r.Intn(len(c18StakeParams))]})
	}
	if r.Chance(20) {
		add(lOp{Op: "s_sparam", Dir: r.Intn(3)})
	}
	if r.Chance(55) {
		add(lOp{Op: "s_create_val", U: r.Intn(nu), Dir: r.Intn(3), Amt: fmt.Sprint(r.Pick(1, 999_999, 1_000_000, 5_000_000, 1_000_000_000))})
	}
	for u := 0; u < nu; u++ {
		if r.Chance(70) {
			add(lOp{Op: "s_reward", U: u, Dir: 0, Amt: r.Decade(0, 13).String()})
		}
		if r.Chance(75) {
			add(lOp{Op: "s_reward", U: u, Dir: 1, Amt: r.Decade(0, 13).String()})
		}
	}
	// ---- a directed opening
	u := r.Intn(nu)
	switch id % 5 {
	case 0: // stake, commit EdenB, then partial undelegations in consecutive blocks, then everything, then stake again
		add(lOp{Op: "s_delegate", U: u, V: 0, Amt: r.Decade(3, 11).String()}, lOp{Op: "s_commit", U: u, Dir: 1, Rel: []int{3, 5, 4, 2}[r.Intn(4)]})
		if r.Chance(50) {
			add(lOp{Op: "s_commit", U: u, Dir: 0, Rel: []int{3, 5}[r.Intn(2)]})
		}
		add(blocks(1+int64(r.Intn(2)), 5))
		for j := 0; j < 2+r.Intn(3); j++ {
			add(lOp{Op: "s_undelegate", U: u, V: 0, Rel: part()}, blocks(1, r.Pick(5, 5, 60, 3600)))
		}
		add(lOp{Op: "s_undelegate", U: u, V: 0, Rel: 5}, blocks(1, 5), lOp{Op: "s_delegate", U: u, V: 0, Rel: 2}, blocks(1, 5), lOp{Op: "s_undelegate", U: u, V: 0, Rel: part()}, blocks(1, 5))
	case 1: // Eden uncommit path (BurnEdenBFromEdenUncommitted) with committed EdenB, then withdrawals in later blocks
		add(lOp{Op: "s_cstake", U: u, V: 0, Dir: 0, Amt: r.Decade(3, 11).String()}, lOp{Op: "s_commit", U: u, Dir: 0, Rel: 5}, lOp{Op: "s_commit", U: u, Dir: 1, Rel: []int{3, 5}[r.Intn(2)]}, blocks(2, 5))
		for j := 0; j < 2+r.Intn(2); j++ {
			add(lOp{Op: "s_uncommit", U: u, Dir: 0, Rel: part()}, blocks(1, 5), lOp{Op: "s_withdraw", U: u, Dir: r.Intn(4), Idx: r.Intn(3)}, blocks(1, 5))
		}
		add(lOp{Op: "s_undelegate", U: u, V: 0, Rel: part()}, blocks(1, 5), lOp{Op: "s_uncommit", U: u, Dir: 1, Rel: rel()}, blocks(1, 5))
	case 2: // two validators: redelegate back and forth, cancel an unbonding, unbonding completes
		add(lOp{Op: "s_delegate", U: u, V: 0, Amt: r.Decade(6, 11).String()}, lOp{Op: "s_delegate", U: u, V: 1, Amt: r.Decade(6, 11).String()}, lOp{Op: "s_commit", U: u, Dir: 1, Rel: 3}, blocks(1, 5),
			lOp{Op: "s_redelegate", U: u, V: 0, Rel: part()}, blocks(1, 5), lOp{Op: "s_undelegate", U: u, V: 1, Rel: part()}, blocks(1, 5),
			lOp{Op: "s_cancel_unbond", U: u, V: 1, Rel: rel()}, blocks(1, 5), lOp{Op: "s_redelegate", U: u, V: 1, Rel: 5}, blocks(1, 22*c18Day), lOp{Op: "s_undelegate", U: u, V: 0, Rel: part()}, blocks(2, 5))
	case 3: // many stakers at once, one block; then all of them reduce in the same block; long gaps
		for j := 0; j < nu; j++ {
			add(lOp{Op: "s_delegate", U: j, V: r.Intn(2), Amt: r.Decade(0, 12).String()}, lOp{Op: "s_commit", U: j, Dir: r.Intn(2), Rel: rel()})
		}
		add(blocks(1, r.Pick(5, c18Day, 30*c18Day)))
		for j := 0; j < nu; j++ {
			add(lOp{Op: "s_undelegate", U: j, V: r.Intn(2), Rel: rel()})
		}
		add(blocks(2, r.Pick(5, 21*c18Day+1, 30*c18Day)))
	default: // dust stakes and commits
		add(lOp{Op: "s_delegate", U: u, V: 0, Amt: fmt.Sprint(r.Pick(1, 2, 3, 10))}, lOp{Op: "s_commit", U: u, Dir: 1, Amt: fmt.Sprint(r.Pick(1, 2, 3))}, blocks(1, 5),
			lOp{Op: "s_undelegate", U: u, V: 0, Amt: "1"}, blocks(1, 5), lOp{Op: "s_undelegate", U: u, V: 0, Amt: "1"}, blocks(1, 5))
	}
	// ---- free mix
	n := 22 + r.Intn(22)
	for k := 0; k < n; k++ {
		x := r.Intn(100)
		u := r.Intn(nu)
		v := r.Intn(3)
		switch {
		case x < 13:
			o := lOp{Op: "s_delegate", U: u, V: v, Rel: rel()}
			if r.Chance(60) {
				o.Amt = r.Decade(0, 12).String()
			}
			add(o)
		case x < 27:
			add(lOp{Op: "s_undelegate", U: u, V: v, Rel: rel()})
		case x < 33:
			add(lOp{Op: "s_redelegate", U: u, V: v, Idx: r.Intn(2), Rel: rel()})
		case x < 37:
			add(lOp{Op: "s_cancel_unbond", U: u, V: v, N: int64(r.Intn(3)), Rel: rel()})
		case x < 47:
			add(lOp{Op: "s_commit", U: u, Dir: r.Intn(2), Rel: rel()})
		case x < 55:
			add(lOp{Op: "s_uncommit", U: u, Dir: r.Intn(2), Rel: rel()})
		case x < 60:
			add(lOp{Op: "s_cstake", U: u, V: v, Dir: r.Intn(3), Rel: rel()})
		case x < 65:
			add(lOp{Op: "s_cunstake", U: u, V: v, Dir: r.Intn(3), Rel: rel()})
		case x < 74:
			add(lOp{Op: "s_withdraw", U: u, V: v, Dir: r.Intn(5), Idx: r.Intn(3)})
		case x < 77:
			add(lOp{Op: "s_reward", U: u, Dir: r.Intn(2), Amt: r.Decade(0, 13).String()})
		case x < 79:
			add(lOp{Op: "s_create_val", U: u, Dir: r.Intn(3), Amt: fmt.Sprint(r.Pick(1, 1_000_000, 50_000_000))})
		case x < 81:
			add(lOp{Op: "s_sparam", Dir: r.Intn(4)})
		case x < 84:
			add(lOp{Op: "f_param", Idx: c18StakeParams[r.Intn(len(c18StakeParams))]})
		case x < 87: // fees and revenue for the stakers' USDC rewards
			if r.Chance(50) {
				add(lOp{Op: "swap_in", U: u, V: u, Pool: r.Intn(2), Dir: r.Intn(2), Amt: r.Decade(4, 10).String()})
			} else {
				add(lOp{Op: "f_mint", Dir: r.Intn(2), Idx: r.Intn(3), Amt: r.Decade(0, 10).String()})
			}
		case x < 89:
			add(lOp{Op: "f_gap", N: 1, DT: r.Pick(301, 11*c18Day)})
		default:
			add(blocks(r.Pick(1, 1, 1, 2, 3), r.Pick(5, 5, 5, 60, 3600, c18Day, 21*c18Day+1, 30*c18Day)))
		}
	}
	return h
}

func c18StakeCorpus() []lHist {
	return []lHist{
		{Ops: []lOp{ // GENUINE DEFECT (repaired: fix: f62637f): TotalBlocksPerYear 2^63 (accepted by x/parameter before the fix) is negative as int64; with EdenBoostApr 1e6
			// (accepted by estaking) and 6e12 uelys staked the per-block EdenB amount rounds to -1: NewCoin panics in UpdateStakersRewards
			{Op: "f_param", Idx: 11}, {Op: "f_param", Idx: 13}, {Op: "s_delegate", U: 0, Rel: 4}, {Op: "s_delegate", U: 1, Rel: 4}, {Op: "s_delegate", U: 2, Rel: 4},
			{Op: "s_delegate", U: 3, Rel: 4}, {Op: "s_delegate", U: 4, Rel: 4}, {Op: "s_delegate", U: 5, Rel: 4}, {Op: "blocks", N: 2, DT: 5}}},
		{Ops: []lOp{ // the sequence of seeded change C18-3: stake, commit EdenB, unstake a part, next block unstake again
			{Op: "s_reward", U: 1, Dir: 1, Amt: "50000"}, {Op: "s_delegate", U: 1, V: 0, Amt: "1000000"}, {Op: "s_commit", U: 1, Dir: 1, Amt: "50000"}, {Op: "blocks", N: 2, DT: 5},
			{Op: "s_undelegate", U: 1, V: 0, Amt: "100000"}, {Op: "blocks", N: 2, DT: 5}, {Op: "s_undelegate", U: 1, V: 0, Amt: "100000"}, {Op: "blocks", N: 2, DT: 5}}},
		{Ops: []lOp{ // the same through the Eden-uncommit path, real rewards, a later withdrawal from the EdenB validator, unbonding completes
			{Op: "f_inflation", N: 1000, Idx: 1}, {Op: "s_reward", U: 2, Dir: 0, Amt: "900000"}, {Op: "s_reward", U: 2, Dir: 1, Amt: "70000"},
			{Op: "s_cstake", U: 2, V: 0, Dir: 0, Amt: "5000000"}, {Op: "s_commit", U: 2, Dir: 0, Rel: 5}, {Op: "s_commit", U: 2, Dir: 1, Rel: 3}, {Op: "blocks", N: 3, DT: 5},
			{Op: "s_uncommit", U: 2, Dir: 0, Rel: 2}, {Op: "blocks", N: 1, DT: 5}, {Op: "s_withdraw", U: 2, Dir: 0, Idx: 2}, {Op: "s_withdraw", U: 2, Dir: 2}, {Op: "blocks", N: 1, DT: 5},
			{Op: "s_undelegate", U: 2, V: 0, Rel: 5}, {Op: "blocks", N: 1, DT: 22 * c18Day}, {Op: "s_delegate", U: 2, V: 0, Rel: 3}, {Op: "blocks", N: 2, DT: 5}}},
		{Ops: []lOp{ // second validator, redelegation, bonded set of one, everything withdrawn
			{Op: "f_inflation", N: 1000, Idx: 1}, {Op: "s_create_val", U: 3, Amt: "5000000"}, {Op: "s_delegate", U: 0, V: 0, Amt: "7000000"}, {Op: "s_delegate", U: 0, V: 1, Amt: "3000000"},
			{Op: "blocks", N: 2, DT: 5}, {Op: "s_redelegate", U: 0, V: 0, Rel: 3}, {Op: "s_sparam", Dir: 1}, {Op: "blocks", N: 2, DT: 5}, {Op: "s_withdraw", U: 0, Dir: 2},
			{Op: "s_withdraw", U: 3, Dir: 4}, {Op: "s_undelegate", U: 0, V: 1, Rel: 5}, {Op: "s_undelegate", U: 3, V: 1, Rel: 5}, {Op: "blocks", N: 2, DT: 22 * c18Day}}},
	}
}

// ---------------------------------------------------------------- shrinker

func c18HasSig(t *testing.T, table []c18Blk, h lHist, sig string) bool {
	col := NewCollector("C18shrink", 0)
	c18RunHistory(t, col, table, h)
	col.mu.Lock()
	defer col.mu.Unlock()
	for _, v := range col.rep.Violations {
		if strings.HasPrefix(v.Signature, sig) {
			return true
		}
	}
	return false
}

// TestC18Shrink: VERIF_REPLAY=<history or violation record> VERIF_SIG=<signature prefix> [VERIF_SHRUNK=<out file>]
// removes ops (chunks, then single ops, to a fixpoint) as long as a violation with that signature is still reported.
func TestC18Shrink(t *testing.T) {
	var h lHist
	if !loadReplay(&h) {
		t.Skip("no VERIF_REPLAY")
	}
	sig := os.Getenv("VERIF_SIG")
	table := c18LoadTable(t)
	if !c18HasSig(t, table, h, sig) {
		t.Fatalf("signature %q does not reproduce", sig)
	}
	for chunk := (len(h.Ops) + 1) / 2; chunk >= 1; {
		changed := false
		for i := 0; i+chunk <= len(h.Ops); {
			cand := lHist{ID: h.ID}
			cand.Ops = append(cand.Ops, h.Ops[:i]...)
			cand.Ops = append(cand.Ops, h.Ops[i+chunk:]...)
			if c18HasSig(t, table, cand, sig) {
				h = cand
				changed = true
			} else {
				i += chunk
			}
		}
		if chunk == 1 && !changed {
			break
		}
		if chunk > 1 {
			chunk /= 2
		}
	}
	b, _ := json.MarshalIndent(h, "", " ")
	fmt.Println(string(b))
	if out := os.Getenv("VERIF_SHRUNK"); out != "" {
		_ = os.WriteFile(out, b, 0o644)
	}
}

// ---------------------------------------------------------------- reward amount correspondence (TestC18Rewards)

// rewardRow: after a block that succeeded, what Models/StakerRewards.v edenb_amount must reproduce: the EdenB minted by
// UpdateStakersRewards in that block is what the cons_redistribute account holds now (the distribution wrapper's begin
// blocker swept the previous amount; the stake read by the end blocker is not changed by anything that runs after it)
func (c *c18Run) rewardRow() {
	app := c.w.App
	ctx := c.w.QCtx()
	total, err := app.EstakingKeeper.TotalBondedTokens(ctx)
	if err != nil {
		return
	}
	ep := app.EstakingKeeper.GetParams(ctx)
	tbpy := app.ParameterKeeper.GetParams(ctx).TotalBlocksPerYear
	acc := authtypes.NewModuleAddress(ccvconsumertypes.ConsumerRedistributeName)
	cm := app.CommitmentKeeper.GetCommitments(ctx, acc)
	obs := cm.GetClaimedForDenom("uedenb")
	zs := func(b *big.Int) string {
		if b.Sign() < 0 {
			return "(" + b.String() + ")"
		}
		return b.String()
	}
	*c.rew = append(*c.rew, fmt.Sprintf("(%s, %s, %d, %s)", zs(total.BigInt()), zs(ep.EdenBoostApr.BigInt()), tbpy, zs(obs.BigInt())))
}

// TestC18Rewards: staking histories; every successful block yields one row for the Coq evaluator Run/StakerRewardsRun.v
func TestC18Rewards(t *testing.T) {
	seed := envInt("VERIF_SEED", 1)
	col := NewCollector("C18r", seed)
	scratch := NewCollector("C18rx", seed) // the C18 bookkeeping of these runs is not reported here (TestC18 runs the same family)
	table := c18LoadTable(t)
	n := 10
	if tier() == "thorough" {
		n = 100
	}
	n = int(envInt("VERIF_NREW", int64(n)))
	rows := 0
	var mu sync.Mutex
	RunParallel(n, func(i int) {
		h := c18StakeGen(NewRng(uint64(seed), uint64(2_000_000+i)), i)
		var rew []string
		c18RunHistoryX(t, scratch, table, h, &rew)
		col.Case(i, fmt.Sprintf("(%d%%nat, ([%s] : list (Z * Z * Z * Z)))", i, strings.Join(rew, ";")))
		col.Distinct(strings.Join(rew, ";"), len(rew) > 0)
		mu.Lock()
		rows += len(rew)
		mu.Unlock()
	})
	col.Extra("rows", rows)
	col.mu.Lock()
	col.rep.Steps = rows
	col.mu.Unlock()
	header := "From Coq Require Import ZArith List Bool.\nFrom Elys Require Import Base.Zdec Models.Blocks Models.StakerRewards Run.StakerRewardsRun.\nImport ListNotations.\nOpen Scope Z_scope.\n"
	footer := "Definition M := Eval vm_compute in rw_mismatches cases.\nPrint M.\n"
	col.Finish(t, n, header, footer, 40)
}
