package harness

// TestZdec: differential test of coq/Base/Zdec.v against cosmossdk.io/math LegacyDec (raw big integers).

import (
	"fmt"
	"math/big"
	"testing"

	sdkmath "cosmossdk.io/math"
)

func rawDec(x *big.Int) sdkmath.LegacyDec { return sdkmath.LegacyNewDecFromBigIntWithPrec(x, 18) }

func TestZdec(t *testing.T) {
	seed := envInt("VERIF_SEED", 1)
	col := NewCollector("Zdec", seed)
	n := 1500
	if tier() == "thorough" {
		n = 40000
	}
	r := NewRng(uint64(seed), 77)
	half := new(big.Int).Exp(big.NewInt(10), big.NewInt(18), nil)
	half.Div(half, big.NewInt(2))
	for i := 0; i < n; i++ {
		a := r.Decade(0, 50)
		b := r.Decade(0, 45)
		switch r.Intn(8) {
		case 0: // exactly on a rounding tie
			a = new(big.Int).Mul(r.Decade(0, 20), new(big.Int).Exp(big.NewInt(10), big.NewInt(18), nil))
			a.Add(a, half)
			b = new(big.Int).Exp(big.NewInt(10), big.NewInt(18), nil)
		case 1:
			a.Neg(a)
		case 2:
			b.Neg(b)
		case 3:
			a.Neg(a)
			b.Neg(b)
		}
		op := r.Intn(12)
		da, db := rawDec(a), rawDec(b)
		var e *big.Int
		switch op {
		case 0:
			e = da.Mul(db).BigInt()
		case 1:
			e = da.MulTruncate(db).BigInt()
		case 2:
			e = da.MulRoundUp(db).BigInt()
		case 3:
			e = da.MulInt(sdkmath.NewIntFromBigInt(b)).BigInt()
		case 4:
			e = da.Quo(db).BigInt()
		case 5:
			e = da.QuoTruncate(db).BigInt()
		case 6:
			e = da.QuoRoundUp(db).BigInt()
		case 7:
			e = da.QuoInt(sdkmath.NewIntFromBigInt(b)).BigInt()
		case 8:
			e = da.RoundInt().BigInt()
		case 9:
			e = da.TruncateInt().BigInt()
		case 10:
			e = da.Ceil().BigInt()
		case 11:
			e = da.TruncateDec().BigInt()
		}
		col.Op(fmt.Sprintf("op%02d", op), "ok", new(big.Int).Abs(a))
		col.Distinct(fmt.Sprintf("%d:%s:%s", op, a, b), true)
		col.Case(i, fmt.Sprintf("(%d,%d%%nat,%s,%s,%s)", i, op, zstr(a), zstr(b), zstr(e)))
	}
	col.Sample(map[string]string{"op": "Quo", "a": "raw scaled integers", "b": "per-decade magnitudes up to 1e50, ties, negatives"})
	header := "From Coq Require Import ZArith List.\nFrom Elys Require Import Base.Zdec Run.ZdecRun.\nImport ListNotations.\nOpen Scope Z_scope.\n"
	footer := "Definition M := Eval vm_compute in mismatches cases.\nPrint M.\n"
	col.Finish(t, n, header, footer, 500)
}
