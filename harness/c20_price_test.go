package harness

// C20: the market price of a spot order's pair, computed by the harness INDEPENDENTLY of x/tradeshield.
//
// The property speaks about "the market price": the USD value of one base unit of the base denom divided by the USD value of
// one base unit of the quote denom,
//     E(base, quote) = (P_base / 10^dec_base) / (P_quote / 10^dec_quote)
// with P_d the oracle's price record of d's display asset (per WHOLE token; read from x/oracle, never through tradeshield or amm)
// and dec_d the decimals the fixture registered for d (table below, not read from the chain). E is an exact rational (big.Rat).
// The verdict "trigger met / not met" of the predicate C20:executed-without-trigger is taken from E; the value the keeper's
// GetAssetPriceFromDenomInToDenomOut returns (K) is only used to interpret what the code did (which branch the attempt took) and
// is handed to the Coq model, where Models/ShieldPrice.v recomputes it from (P_base, dec_base, P_quote, dec_quote).
// Where the oracle has no record for one side the real code falls back to the amm spot price: there is no independent value then
// and the keeper's value is kept (counted in extra.price_from_keeper_no_oracle_record).

import (
	"fmt"
	"math/big"

	sdkmath "cosmossdk.io/math"
	sdk "github.com/cosmos/cosmos-sdk/types"

	tstypes "github.com/elys-network/elys/x/tradeshield/types"
)

var c20Decimals = map[string]int{USDC: 6, ATOM: 6, ELYS: 6, WETH: 18}

// verdicts are withheld when the exact price is within this many units of the last (18th) digit of the order's rate
const c20AmbigUlp = 2

func c20Pow10(n int) *big.Int { return new(big.Int).Exp(big.NewInt(10), big.NewInt(int64(n)), nil) }

var c20E18 = c20Pow10(18)

func c20RatOfDec(d sdkmath.LegacyDec) *big.Rat { return new(big.Rat).SetFrac(d.BigInt(), c20E18) }

type c20Px struct {
	ok        bool // both oracle records present: e is defined
	e         *big.Rat
	pin, pout sdkmath.LegacyDec
	din, dout int
}

func (x *c20Run) c20Oracle(ctx sdk.Context, denom string) (sdkmath.LegacyDec, int, bool) {
	disp, ok := x.m.Display[denom]
	dec, ok2 := c20Decimals[denom]
	if !ok || !ok2 {
		return sdkmath.LegacyZeroDec(), 0, false
	}
	p, found := x.w.App.OracleKeeper.GetAssetPrice(ctx, disp)
	if !found || p.Price.IsNil() || !p.Price.IsPositive() {
		return sdkmath.LegacyZeroDec(), dec, false
	}
	return p.Price, dec, true
}

// c20Exact: the exact market price of one base unit of base in base units of quote, from the oracle records and the decimals.
func (x *c20Run) c20Exact(ctx sdk.Context, base, quote string) c20Px {
	var r c20Px
	var a, b bool
	r.pin, r.din, a = x.c20Oracle(ctx, base)
	r.pout, r.dout, b = x.c20Oracle(ctx, quote)
	if !a || !b {
		return r
	}
	num := new(big.Int).Mul(r.pin.BigInt(), c20Pow10(r.dout))
	den := new(big.Int).Mul(r.pout.BigInt(), c20Pow10(r.din))
	r.e, r.ok = new(big.Rat).SetFrac(num, den), true
	return r
}

// c20AsIs: what the code as it is computes from the same inputs: CalculateUSDValue(denom, 1) = Dec(P).Quo(Dec(10^dec)) for both
// sides, then Quo. Used ONLY to name the cause in the signature of a violation (the loss of digits in the per-base-unit value),
// never to decide whether there is one.
func c20AsIs(p c20Px) (sdkmath.LegacyDec, bool) {
	a := p.pin.Quo(sdkmath.LegacyNewDecFromBigInt(c20Pow10(p.din)))
	b := p.pout.Quo(sdkmath.LegacyNewDecFromBigInt(c20Pow10(p.dout)))
	if a.IsZero() || b.IsZero() {
		return sdkmath.LegacyZeroDec(), false
	}
	return a.Quo(b), true
}

func (p c20Px) String() string {
	return fmt.Sprintf("oracle price(base)=%s decimals %d, price(quote)=%s decimals %d, exact ratio=%s", p.pin, p.din, p.pout, p.dout, p.e.FloatString(24))
}

// relative error of the keeper's value against the exact ratio above 1e-9, and more than one unit of the 18th digit apart (no
// LegacyDec can be closer than half a unit: a price near 1e-10 has 8 significant digits)
func c20Differs(k sdkmath.LegacyDec, e *big.Rat) bool {
	d := new(big.Rat).Sub(c20RatOfDec(k), e)
	d.Abs(d)
	if d.Cmp(new(big.Rat).SetFrac(big.NewInt(1), c20E18)) <= 0 {
		return false
	}
	d.Quo(d, e)
	return d.Cmp(big.NewRat(1, 1_000_000_000)) > 0
}

// c20PriceCheck compares the keeper's market price with the independent one (predicate C20:market-price-differs-from-oracle-ratio).
func (x *c20Run) c20PriceCheck(base, quote string, k sdkmath.LegacyDec, kok bool, p c20Px) {
	if !p.ok {
		if kok {
			x.noOracle++
		}
		return
	}
	x.col.ImplCheck(1)
	x.priceCmp++
	if !kok {
		// the exact ratio exists (both records positive) but the keeper reports no price: only legitimate when a per-unit value rounds to zero
		if _, ok := c20AsIs(p); !ok {
			x.unitZero++
			return
		}
		x.fail("C20:market-price-differs-from-oracle-ratio", fmt.Sprintf("%s/%s: the keeper reports no market price although both oracle records exist: %s", base, quote, p))
		return
	}
	v, asIs := c20AsIs(p)
	if !asIs {
		x.unitZero++
	}
	if !c20Differs(k, p.e) {
		return
	}
	sig, why := "C20:market-price-differs-from-oracle-ratio", ""
	if asIs && v.Equal(k) {
		// the value is what Dec(P).Quo(10^dec) per side and one more Quo give: digits lost in the per-base-unit USD value
		sig = "C20:market-price-rounded-per-base-unit"
	} else if !asIs {
		// ALL digits lost: price / 10^decimals rounds to zero (any 18-decimals asset below 0.5 USD), the oracle record is dropped and the
		// amm spot price substituted
		sig, why = "C20:market-price-rounded-per-base-unit", " (a per-base-unit value rounds to zero: amm spot price substituted for the oracle record)"
	}
	x.fail(sig, fmt.Sprintf("%s/%s: keeper market price %s, %s%s", base, quote, k, p, why))
}

// exact trigger decision of a spot order; ambiguous = the exact price is within c20AmbigUlp units of the rate's last digit
func c20SpotTrigExact(o tstypes.SpotOrder, e *big.Rat) (trig, ambiguous bool) {
	rate := c20RatOfDec(o.OrderPrice.Rate)
	d := new(big.Rat).Sub(e, rate)
	tol := new(big.Rat).SetFrac(big.NewInt(c20AmbigUlp), c20E18)
	if new(big.Rat).Abs(d).Cmp(tol) <= 0 {
		ambiguous = true
	}
	if o.OrderType == tstypes.SpotOrderType_LIMITSELL {
		return d.Sign() >= 0, ambiguous
	}
	return d.Sign() <= 0, ambiguous
}

// oracle price to feed for `denom` so that the exact price of base in quote becomes r (the other side's record stays); false if
// the other side has no record
func (x *c20Run) c20PriceFor(ctx sdk.Context, base, quote string, r sdkmath.LegacyDec, moveBase bool) (sdkmath.LegacyDec, bool) {
	db, dq := c20Decimals[base], c20Decimals[quote]
	rr := c20RatOfDec(r)
	var v *big.Rat
	if moveBase { // P_b = r * P_q * 10^(db-dq)
		pq, _, ok := x.c20Oracle(ctx, quote)
		if !ok {
			return r, false
		}
		v = new(big.Rat).Mul(rr, c20RatOfDec(pq))
		v.Mul(v, new(big.Rat).SetFrac(c20Pow10(db), c20Pow10(dq)))
	} else { // P_q = P_b * 10^(dq-db) / r
		pb, _, ok := x.c20Oracle(ctx, base)
		if !ok || rr.Sign() == 0 {
			return r, false
		}
		v = new(big.Rat).Quo(c20RatOfDec(pb), rr)
		v.Mul(v, new(big.Rat).SetFrac(c20Pow10(dq), c20Pow10(db)))
	}
	// to 18 digits, truncated
	n := new(big.Int).Mul(v.Num(), c20E18)
	n.Quo(n, v.Denom())
	if n.Sign() <= 0 || n.BitLen() > 200 {
		return r, false
	}
	return sdkmath.LegacyNewDecFromBigIntWithPrec(n, 18), true
}

// Coq text of the inputs of one price computation (Run/ShieldPriceRun.v): step index, order id, P_base, dec_base, P_quote, dec_quote
func c20PcheckCoq(step int, id uint64, p c20Px) string {
	return fmt.Sprintf("mkP %d %d %s %d %s %d", step, id, c20Dec(p.pin), p.din, c20Dec(p.pout), p.dout)
}
