package harness

// C03 driver (full application): real MsgSwapExactAmountIn / MsgSwapExactAmountOut on constant-product pools
// (the fixture's 1:3 pool, an extra 1:1 pool with reserves up to 1e30) and oracle pools (the fixture's pool and
// an extra one with external-liquidity ratios > 1 and a funded rebalance treasury), queued by the message and
// executed by the amm EndBlocker of the real FinalizeBlock. For every executed swap
//   - the property's own predicate is evaluated on the bank balances before/after against an exact rational
//     reference (math/big) for constant-product pools and against the oracle prices in force for oracle pools,
//   - bank events are inspected: everything the recipient receives comes from the pool (the swap) or from the pool's
//     rebalance treasury (the bonus), and the bonus never exceeds the treasury balance before the block,
//   - the pure pool function is called on the pool state read before the block and must explain the result; that
//     call is emitted as a Coq case (ties app -> pure function -> Gallina model), the bonus transfer as a case of
//     the model's bonus decision (kind 5), the discounted fee as a case of ApplyDiscount (kind 11).

import (
	"fmt"
	"math/big"
	"sort"
	"sync"
	"testing"

	sdkmath "cosmossdk.io/math"
	sdk "github.com/cosmos/cosmos-sdk/types"

	ammtypes "github.com/elys-network/elys/x/amm/types"
)

type c03Emit struct {
	kind int
	args []string
	res  c03Res
	cost float64
}

type c03AppStep struct {
	Pool     uint64 `json:"pool"`
	ExactOut bool   `json:"exact_out"`
	In       string `json:"in"`
	Out      string `json:"out"`
	Amt      string `json:"amount"`
	Split    bool   `json:"split,omitempty"` // the same request queued twice in one block
	Result   string `json:"result"`
}

const (
	c03SigAppDiff  = "C03:app-swap-not-explained-by-pool-function"
	c03SigAppSettl = "C03:app-swap-settled-other-than-requested"
)

// like RunParallel, but one goroutine per history: a t.Fatalf inside a fixture ends that goroutine only
func c03RunApp(n int, f func(i int)) {
	sem := make(chan struct{}, 14)
	var wg sync.WaitGroup
	for i := 0; i < n; i++ {
		wg.Add(1)
		sem <- struct{}{}
		go func(i int) {
			defer wg.Done()
			defer func() { <-sem }()
			f(i)
		}(i)
	}
	wg.Wait()
}

func c03BigOf(x sdkmath.Int) *big.Int { return new(big.Int).Set(x.BigInt()) }

func c03MkPool(w *World, m *Market, useOracle bool, a, b sdk.Coin, wa, wb int64, fee string, ra, rb string) (uint64, bool) {
	creator := m.Users[0]
	w.Mint(creator, sdk.NewCoins(a, b))
	assets := []ammtypes.PoolAsset{
		{Token: a, Weight: I(wa), ExternalLiquidityRatio: dec(ra)},
		{Token: b, Weight: I(wb), ExternalLiquidityRatio: dec(rb)},
	}
	sort.Slice(assets, func(i, j int) bool { return assets[i].Token.Denom < assets[j].Token.Denom })
	before := w.App.AmmKeeper.GetAllPool(w.QCtx())
	r := w.Deliver(&ammtypes.MsgCreatePool{Sender: creator.String(),
		PoolParams: ammtypes.PoolParams{SwapFee: dec(fee), UseOracle: useOracle, FeeDenom: USDC}, PoolAssets: assets})
	if !r.OK() {
		return 0, false
	}
	after := w.App.AmmKeeper.GetAllPool(w.QCtx())
	if len(after) != len(before)+1 {
		return 0, false
	}
	return after[len(after)-1].PoolId, true
}

// pool state as the pure functions will see it at execution time (read right before the block is closed)
func c03SnapCase(w *World, poolId uint64, in, out string, amt *big.Int, fee sdkmath.LegacyDec, kind string) (c03Case, ammtypes.Pool, bool) {
	ctx := w.QCtx()
	pool, ok := w.App.AmmKeeper.GetPool(ctx, poolId)
	if !ok {
		return c03Case{}, pool, false
	}
	c := c03Case{Kind: kind, Oracle: pool.PoolParams.UseOracle, Fee: fee.BigInt().String(), Amt: amt.String()}
	found := 0
	for i, a := range pool.PoolAssets {
		acc := w.App.AccountedPoolKeeper.GetAccountedBalance(ctx, poolId, a.Token.Denom)
		switch a.Token.Denom {
		case in:
			c.Bin, c.Win, c.RatioIn = a.Token.Amount.String(), a.Weight.String(), a.ExternalLiquidityRatio.BigInt().String()
			c.InFirst = i == 0
			if acc.IsPositive() {
				c.AccIn = acc.String()
			}
			found++
		case out:
			c.Bout, c.Wout, c.RatioOut = a.Token.Amount.String(), a.Weight.String(), a.ExternalLiquidityRatio.BigInt().String()
			if acc.IsPositive() {
				c.AccOut = acc.String()
			}
			found++
		}
	}
	if found != 2 {
		return c, pool, false
	}
	if c.Oracle {
		c.SnapIn, c.SnapOut = c03OrS(c.AccIn, c.Bin), c03OrS(c.AccOut, c.Bout)
		c.PriceIn = w.App.OracleKeeper.GetAssetPriceFromDenom(ctx, in).BigInt().String()
		c.PriceOut = w.App.OracleKeeper.GetAssetPriceFromDenom(ctx, out).BigInt().String()
	}
	p := w.App.AmmKeeper.GetParams(ctx)
	c.params = &p
	return c, pool, true
}

var c03Half = new(big.Int).Quo(c03Pow18, big.NewInt(2))
var c03P2 = new(big.Int).Mul(c03Pow18, c03Pow18)

func c03I64(x *big.Int) int64 {
	if !x.IsInt64() {
		return 9_000_000_000_000_000_000
	}
	return x.Int64()
}

// one history on a fresh application; hi == 0 is the witness history of C03_one_unit_refuted / C03_round_trip_gain_refuted
func c03AppHistory(t *testing.T, col *Collector, seed int64, hi int, verbose bool) (emits []c03Emit) {
	r := NewRng(uint64(seed), uint64(4000+hi))
	hidx := 100000 + hi
	w := NewWorld(t)
	o := DefaultMarketOpts()
	fees := []string{"0", "0.001", "0.003", "0.01", "0.02", "0.000000000000000001"}
	o.SwapFee = fees[r.Intn(len(fees))]
	o.CPUSDC, o.CPELYS = c03I64(r.Decade(4, 18)), c03I64(r.Decade(4, 18))
	o.AtomPrice = []string{"5.0", "0.37", "12.345678", "1000", "0.000123"}[r.Intn(5)]
	atom, _ := new(big.Float).SetString(o.AtomPrice)
	v := r.Decade(8, 16)
	imb := [][2]int64{{1, 1}, {3, 1}, {1, 3}, {21, 20}, {1, 1}}[r.Intn(5)]
	o.OracleUSDC = c03I64(new(big.Int).Mul(v, big.NewInt(imb[0])))
	av, _ := new(big.Float).Quo(new(big.Float).SetInt(new(big.Int).Mul(v, big.NewInt(imb[1]))), atom).Int(nil)
	if av.Sign() == 0 {
		av = big.NewInt(1)
	}
	o.OracleATOM = c03I64(av)
	if r.Chance(30) {
		o.OracleWeights = [2]int64{60, 40}
	}
	o.NoLeverage = r.Chance(50)
	o.UserFunds = 9_000_000_000_000_000_000
	m := NewMarket(w, o)
	type pinfo struct {
		id     uint64
		da, db string
	}
	pools := []pinfo{{m.CPPool, USDC, ELYS}, {m.OraclePool, USDC, ATOM}}
	// extra 1:1 constant-product pool, huge reserves
	var bigPool uint64
	if hi == 0 {
		w3 := c03BigS("3000000000000000000000")
		if id, ok := c03MkPool(w, m, false, sdk.NewCoin(USDC, sdkmath.NewIntFromBigInt(w3)), sdk.NewCoin(ELYS, sdkmath.NewIntFromBigInt(w3)), 1, 1, "0", "1", "1"); ok {
			bigPool = id
		} else {
			t.Fatalf("witness pool not created")
		}
	} else if r.Chance(65) {
		ra, rb := r.Decade(17, 31), r.Decade(17, 31)
		if r.Chance(30) {
			rb = new(big.Int).Set(ra)
		}
		wgt := r.Pick(1, 1, 50)
		if id, ok := c03MkPool(w, m, false, sdk.NewCoin(USDC, sdkmath.NewIntFromBigInt(ra)), sdk.NewCoin(ELYS, sdkmath.NewIntFromBigInt(rb)), wgt, wgt, fees[r.Intn(len(fees))], "1", "1"); ok {
			bigPool = id
		}
	}
	if bigPool != 0 {
		pools = append(pools, pinfo{bigPool, USDC, ELYS}, pinfo{bigPool, USDC, ELYS})
	}
	// extra oracle pool with external-liquidity ratios above 1
	if hi != 0 && r.Chance(45) {
		ratios := []string{"1", "3", "10", "50", "1.5"}
		vu := r.Decade(8, 20)
		va, _ := new(big.Float).Quo(new(big.Float).SetInt(new(big.Int).Mul(vu, big.NewInt(r.Pick(1, 1, 2, 5)))), atom).Int(nil)
		if va.Sign() > 0 {
			if id, ok := c03MkPool(w, m, true, sdk.NewCoin(USDC, sdkmath.NewIntFromBigInt(vu)), sdk.NewCoin(ATOM, sdkmath.NewIntFromBigInt(va)),
				r.Pick(10, 50, 30), r.Pick(10, 50, 70), fees[r.Intn(len(fees))], ratios[r.Intn(5)], ratios[r.Intn(5)]); ok {
				pools = append(pools, pinfo{id, USDC, ATOM}, pinfo{id, USDC, ATOM})
			}
		}
	}
	// fund the rebalance treasuries of the oracle pools (a plain bank transfer anybody can make)
	for _, p := range pools {
		pool, _ := w.App.AmmKeeper.GetPool(w.QCtx(), p.id)
		if pool.PoolParams.UseOracle && r.Chance(60) {
			tr := sdk.MustAccAddressFromBech32(pool.GetRebalanceTreasury())
			w.Mint(tr, sdk.NewCoins(sdk.NewCoin(p.da, sdkmath.NewIntFromBigInt(r.Decade(0, 12))), sdk.NewCoin(p.db, sdkmath.NewIntFromBigInt(r.Decade(0, 12)))))
		}
	}
	m.RefreshPrices()
	if err := w.EndBlock(5); err != nil {
		col.Op("app_block", "failed(C18)", big.NewInt(0))
		return emits
	}
	nSteps := 6 + r.Intn(5)
	type fixed struct {
		exactOut bool
		in, out  string
		amt      string
	}
	var script []fixed
	if hi == 0 {
		script = []fixed{{false, USDC, ELYS, "1000000000000000000"}, {false, USDC, ELYS, "2000"}, {false, ELYS, USDC, "prev"}, {true, USDC, ELYS, "4400"}}
		nSteps = len(script)
	}
	var steps []c03AppStep
	prevGot := big.NewInt(0)
	for si := 0; si < nSteps; si++ {
		var p pinfo
		var in, out string
		var exactOut bool
		var amt *big.Int
		if hi == 0 {
			p = pinfo{bigPool, USDC, ELYS}
			in, out, exactOut = script[si].in, script[si].out, script[si].exactOut
			if script[si].amt == "prev" {
				amt = new(big.Int).Set(prevGot)
			} else {
				amt = c03BigS(script[si].amt)
			}
		} else {
			p = pools[r.Intn(len(pools))]
			in, out = p.da, p.db
			if r.Chance(50) {
				in, out = out, in
			}
			exactOut = r.Chance(40)
		}
		sender := m.Users[1+r.Intn(4)]
		pool0, _ := w.App.AmmKeeper.GetPool(w.QCtx(), p.id)
		resOf := func(d string) *big.Int {
			for _, a := range pool0.PoolAssets {
				if a.Token.Denom == d {
					return c03BigOf(a.Token.Amount)
				}
			}
			return big.NewInt(0)
		}
		if hi != 0 {
			if exactOut {
				amt = c03AmtRel(r, resOf(out), true)
				if r.Chance(25) { // keep most exact-out requests fillable
					amt = c03MulRat(resOf(out), int64(1+r.Intn(60)), 100)
				}
			} else {
				amt = c03AmtRel(r, resOf(in), false)
			}
			if amt.Sign() <= 0 {
				amt = big.NewInt(1)
			}
		}
		// funds
		need := new(big.Int).Set(amt)
		if exactOut {
			need = new(big.Int).Mul(resOf(in), big.NewInt(1000))
			need.Add(need, big.NewInt(1_000_000))
		}
		if need.BitLen() < 200 {
			w.Mint(sender, sdk.NewCoins(sdk.NewCoin(in, sdkmath.NewIntFromBigInt(need))))
		}
		_, tier := w.App.TierKeeper.GetMembershipTier(w.QCtx(), sender)
		discount := tier.Discount
		if discount.IsNil() {
			discount = sdkmath.LegacyZeroDec()
		}
		fee := ammtypes.ApplyDiscount(pool0.PoolParams.SwapFee, discount)
		emits = append(emits, c03Emit{11, []string{zstr(pool0.PoolParams.SwapFee.BigInt()), zstr(discount.BigInt())}, c03Res{0, fee.BigInt(), big.NewInt(0)}, 1})
		var msg sdk.Msg
		if exactOut {
			msg = &ammtypes.MsgSwapExactAmountOut{Sender: sender.String(), Recipient: sender.String(),
				Routes:   []ammtypes.SwapAmountOutRoute{{PoolId: p.id, TokenInDenom: in}},
				TokenOut: sdk.NewCoin(out, sdkmath.NewIntFromBigInt(amt)), TokenInMaxAmount: sdkmath.NewIntFromBigInt(need)}
		} else {
			msg = &ammtypes.MsgSwapExactAmountIn{Sender: sender.String(), Recipient: sender.String(),
				Routes:  []ammtypes.SwapAmountInRoute{{PoolId: p.id, TokenOutDenom: out}},
				TokenIn: sdk.NewCoin(in, sdkmath.NewIntFromBigInt(amt)), TokenOutMinAmount: I(1)}
		}
		kind := "app_in"
		if exactOut {
			kind = "app_out"
		}
		if pool0.PoolParams.UseOracle {
			kind += "_oracle"
		} else {
			kind += "_cp"
		}
		step := c03AppStep{Pool: p.id, ExactOut: exactOut, In: in, Out: out, Amt: amt.String()}
		// a SPLIT step: the same trader queues the same request twice in one block (constant-product pools). Splitting a
		// trade must not beat doing it in one piece (C03_split_no_gain): the two pieces are judged together against the
		// pool function on the state before the block, applied to twice the amount.
		split := hi != 0 && !pool0.PoolParams.UseOracle && r.Chance(22)
		step.Split = split
		tx := w.Deliver(msg)
		if split && tx.OK() {
			if t2 := w.Deliver(msg); !t2.OK() {
				split = false
				step.Split = false
			}
		}
		if !tx.OK() {
			col.Op(kind, "rejected", amt)
			step.Result = "rejected"
			steps = append(steps, step)
			continue
		}
		m.RefreshPrices()
		// state the end-blocker will see
		pk := "out"
		if exactOut {
			pk = "in"
		}
		judged := amt
		if split {
			judged = new(big.Int).Mul(amt, big.NewInt(2))
		}
		c, pool, okc := c03SnapCase(w, p.id, in, out, judged, fee, pk)
		trAddr := pool.GetRebalanceTreasury()
		tr := sdk.MustAccAddressFromBech32(trAddr)
		trBefore := c03BigOf(w.Bal(tr, out))
		inBefore, outBefore := c03BigOf(w.Bal(sender, in)), c03BigOf(w.Bal(sender, out))
		if err := w.EndBlock(5); err != nil {
			// block processing failed (property C18's business, e.g. masterchef "invalid eden price" once the uelys/uusdc
			// pool price rounds to zero): this application instance is finished
			col.Op("app_block", "failed(C18)", amt)
			if verbose {
				fmt.Printf("  step %d: block failed: %v\n", si, err)
			}
			break
		}
		paid := new(big.Int).Sub(inBefore, c03BigOf(w.Bal(sender, in)))
		got := new(big.Int).Sub(c03BigOf(w.Bal(sender, out)), outBefore)
		if paid.Sign() == 0 && got.Sign() == 0 {
			col.Op(kind, "not_executed", amt)
			step.Result = "not_executed"
			steps = append(steps, step)
			continue
		}
		col.Op(kind, "ok", amt)
		col.Distinct(fmt.Sprintf("%s:%+v", kind, c), true)
		step.Result = fmt.Sprintf("paid %s got %s", paid, got)
		steps = append(steps, step)
		prevGot = new(big.Int).Set(got)
		replay := map[string]interface{}{"kind": "app", "app_idx": hi, "steps": steps}
		// where did the recipient's tokens come from?
		fromPool, fromTr, other := big.NewInt(0), big.NewInt(0), big.NewInt(0)
		for _, op := range BankOps(w.LastBlockEvents) {
			if op.Kind != "send" || op.To != sender.String() || op.Denom != out {
				continue
			}
			switch op.From {
			case pool.GetAddress():
				fromPool.Add(fromPool, op.Amt.BigInt())
			case trAddr:
				fromTr.Add(fromTr, op.Amt.BigInt())
			default:
				other.Add(other, op.Amt.BigInt())
			}
		}
		col.ImplCheck(1)
		if other.Sign() != 0 || new(big.Int).Add(fromPool, fromTr).Cmp(got) != 0 || fromTr.Cmp(trBefore) > 0 || (fromTr.Sign() > 0 && !pool.PoolParams.UseOracle) {
			col.Violate(Violation{Signature: c03SigBonus, Detail: fmt.Sprintf("recipient got %s %s: %s from the pool, %s from the rebalance treasury (balance before %s), %s from elsewhere", got, out, fromPool, fromTr, trBefore, other),
				History: hidx, Step: si, Replay: replay})
		}
		if split {
			// both pieces must have been executed, else there is nothing to compare (a piece that could not be filled is C04's business)
			if (exactOut && fromPool.Cmp(judged) != 0) || (!exactOut && paid.Cmp(judged) != 0) || !okc {
				col.Op(kind+"_split", "partly_executed", amt)
				continue
			}
			// integer reserves: after the first piece the pool's reserves are whole numbers and the fee moved out is a whole number of
			// coins, so the two pieces follow the real-valued formula only up to about 1/reserve: judged on pools of at least 10^6 units
			if c03BigS(c.Bin).Cmp(big.NewInt(1_000_000)) < 0 || c03BigS(c.Bout).Cmp(big.NewInt(1_000_000)) < 0 {
				col.Op(kind+"_split", "tiny_pool_not_judged", amt)
				continue
			}
			col.Op(kind+"_split", "ok", amt)
			col.ImplCheck(1)
			// the second piece may enjoy a tier discount that the first piece's execution brought about (the tier hook
			// computes the trader's portfolio at the first swap): judge against the LOWER of the two fees (sound: a lower fee
			// pays more / charges less)
			if _, t2 := w.App.TierKeeper.GetMembershipTier(w.QCtx(), sender); !t2.Discount.IsNil() && t2.Discount.GT(discount) {
				c.Fee = ammtypes.ApplyDiscount(pool0.PoolParams.SwapFee, t2.Discount).BigInt().String()
			}
			// slack: one unit per piece and per rounding step, the 1e-8 relative precision of EACH Pow evaluation for unequal weights, and
			// reserve/1e18 per piece for the ratio rounding of solveConstantFunctionInvariant (the open finding's cause)
			slack := func(v *big.Int) *big.Int {
				sl := big.NewInt(6)
				sl.Add(sl, new(big.Int).Div(v, big.NewInt(20_000_000))) // three Pow evaluations (two pieces + the one-piece reference), each within 1e-8: 5e-8 in all
				for _, b := range []string{c.Bin, c.Bout} {
					sl.Add(sl, new(big.Int).Div(c03BigS(b), new(big.Int).Exp(big.NewInt(10), big.NewInt(17), nil)))
				}
				// whole-number reserves between the pieces: relative 4/reserve of the judged amount
				for _, b := range []string{c.Bin, c.Bout} {
					sl.Add(sl, new(big.Int).Div(new(big.Int).Mul(v, big.NewInt(4)), c03BigS(b)))
				}
				return sl
			}
			if exactOut {
				pr := c.calcIn()
				if pr.Code == 0 && new(big.Int).Add(paid, slack(pr.V1)).Cmp(pr.V1) < 0 {
					col.Violate(Violation{Signature: "C03:split-exact-out-cheaper-than-one-piece", Detail: fmt.Sprintf("two exact-out requests of %s each in one block cost %s in total; one request of %s on the state before the block costs %s: %+v", amt, paid, judged, pr.V1, c),
						History: hidx, Step: si, Replay: replay})
				}
			} else {
				pr := c.calcOut()
				if pr.Code == 0 && new(big.Int).Add(pr.V1, slack(pr.V1)).Cmp(fromPool) < 0 {
					col.Violate(Violation{Signature: "C03:split-exact-in-pays-more-than-one-piece", Detail: fmt.Sprintf("two exact-in requests of %s each in one block were paid %s in total; one request of %s on the state before the block is paid %s: %+v", amt, fromPool, judged, pr.V1, c),
						History: hidx, Step: si, Replay: replay})
				}
			}
			continue
		}
		if (exactOut && fromPool.Cmp(amt) != 0) || (!exactOut && paid.Cmp(amt) != 0) {
			col.Violate(Violation{Signature: c03SigAppSettl, Detail: fmt.Sprintf("requested %s, paid %s, pool paid %s", amt, paid, fromPool), History: hidx, Step: si, Replay: replay})
			continue
		}
		if !okc {
			continue
		}
		if verbose {
			fmt.Printf("  step %d pool %d %s %s->%s amt %s: paid %s, from pool %s, bonus %s; case %+v\n", si, p.id, kind, in, out, amt, paid, fromPool, fromTr, c)
		}
		if !pool.PoolParams.UseOracle {
			if exactOut {
				pr := c.calcIn()
				if pr.Code != 0 || pr.V1.Cmp(paid) != 0 {
					col.Violate(Violation{Signature: c03SigAppDiff, Detail: fmt.Sprintf("app charged %s, CalcInAmtGivenOut on the state before gives %s %s: %+v", paid, pr.kind(), pr.V1, c), History: hidx, Step: si, Replay: replay})
					continue
				}
				emits = append(emits, c03Emit{2, append(c.poolArgs(), c03Zs(c.Amt), c03Zs(c.Fee)), pr, c.cost(true)})
				c03CheckIn(col, hidx, c, paid)
			} else {
				pr := c.calcOut()
				if pr.Code != 0 || pr.V1.Cmp(fromPool) != 0 {
					col.Violate(Violation{Signature: c03SigAppDiff, Detail: fmt.Sprintf("app paid %s, CalcOutAmtGivenIn on the state before gives %s %s: %+v", fromPool, pr.kind(), pr.V1, c), History: hidx, Step: si, Replay: replay})
					continue
				}
				emits = append(emits, c03Emit{1, append(c.poolArgs(), c03Zs(c.Amt), c03Zs(c.Fee)), pr, c.cost(false)})
				c03CheckOut(col, hidx, c, fromPool)
			}
			continue
		}
		// oracle pool: value at the oracle prices in force
		pin, pout := c03BigS(c.PriceIn), c03BigS(c.PriceOut)
		col.ImplCheck(1)
		lhs := new(big.Int).Mul(new(big.Int).Mul(fromPool, pout), c03P2)
		rhs := new(big.Int).Mul(new(big.Int).Mul(paid, pin), c03P2)
		if exactOut {
			rhs.Add(rhs, new(big.Int).Mul(new(big.Int).Add(c03Half, big.NewInt(1)), pin))
			if lhs.Cmp(rhs) >= 0 {
				col.Violate(Violation{Signature: c03SigOracleIn, Detail: fmt.Sprintf("app: pays in=%s for out=%s at prices %s/%s: %+v", paid, fromPool, pin, pout, c), History: hidx, Step: si, Replay: replay})
			}
		} else {
			rhs.Add(rhs, new(big.Int).Mul(c03Half, pout))
			if lhs.Cmp(rhs) > 0 {
				col.Violate(Violation{Signature: c03SigOracleOut, Detail: fmt.Sprintf("app: out=%s for in=%s at prices %s/%s: %+v", fromPool, paid, pin, pout, c), History: hidx, Step: si, Replay: replay})
			}
		}
		po := c.swapOracle(exactOut)
		want := fromPool
		if exactOut {
			want = paid
		}
		if po.R.Code != 0 || po.R.V1.Cmp(want) != 0 {
			col.Violate(Violation{Signature: c03SigAppDiff, Detail: fmt.Sprintf("app settled %s, the pool's swap function on the state before gives %s %s: %+v", want, po.R.kind(), po.R.V1, c), History: hidx, Step: si, Replay: replay})
			continue
		}
		wbf := big.NewInt(0)
		if po.Bonus.Sign() < 0 {
			wbf = new(big.Int).Neg(po.Bonus)
		}
		c2 := c
		c2.Amt, c2.Fee = c03DecS(new(big.Int).Mul(amt, c03Pow18).String()).Quo(c03DecS(c.RatioOut)).RoundInt().String(), "0"
		kk := 9
		if exactOut {
			kk = 10
		}
		emits = append(emits, c03Emit{kk, append(c.poolArgs(), c03Zs(c.Amt), c03Zs(c.RatioOut), zstr(wbf), c03Zs(c.Fee)), c03Res{0, po.R.V1, po.SlipAmt}, c2.cost(exactOut)})
		// the same with the weight-breaking fee computed by the model from the pool state and the app's amm params
		emits = append(emits, c03Emit{kk + 3, c.wbfArgs(c03BigS(c.RatioOut)), c03WbfRes(po), c2.cost(exactOut)})
		c03WbfImplCheck(col, hidx, c, po)
		// the bonus decision of UpdatePoolForSwap
		base := new(big.Int).Quo(po.OracAmt, c03Pow18)
		if exactOut {
			base = new(big.Int).Set(amt)
		}
		emits = append(emits, c03Emit{5, []string{"1", zstr(base), zstr(po.Bonus), zstr(trBefore)}, c03Res{0, fromTr, big.NewInt(0)}, 1})
		if fromTr.Sign() > 0 {
			col.Op("app_bonus_paid", "ok", fromTr)
		} else if po.Bonus.Sign() > 0 {
			col.Op("app_bonus_zero_or_capped", "ok", trBefore)
		}
	}
	if hi == 0 || verbose {
		col.Extra("app_witness_history", steps)
	}
	return emits
}
