package harness

// C12 driver: the commitment ledger (committed / lock-ups / claimed per account, Params.TotalCommitted,
// custody of the commitment module account).
//
// PURE part: types.Commitments.AddCommittedTokens / DeductFromCommitted called directly on generated
// entries, lock-up lists and times (unlock == now, now±1) and compared with Models/Commit.v.
// APP part: histories on the real application: MsgCommitClaimedRewards, MsgUncommitTokens, stablestake
// MsgBond / MsgUnbond, amm MsgJoinPool / MsgExitPool on an oracle pool (1-hour lock) and a
// constant-product pool, commitment MsgStake (Elys delegation, so that ElysStaked != 0), and keeper
// calls exactly as other modules make them (CommitLiquidTokens with a lock, UncommitTokens with the
// liquidation flag, BurnEdenBoost, DepositLiquidTokensClaimed), by several users over varying block
// times.  After every step (a) the model is given the same operation and must reproduce the acting
// account, TotalCommitted and the module balance (Coq case text), and (b) the property's own
// predicates are evaluated on the implementation's state, independently of the model.

import (
	"fmt"
	"math/big"
	"os"
	"sort"
	"strings"
	"sync"
	"sync/atomic"
	"testing"

	sdkmath "cosmossdk.io/math"
	abci "github.com/cometbft/cometbft/abci/types"
	sdk "github.com/cosmos/cosmos-sdk/types"
	authtypes "github.com/cosmos/cosmos-sdk/x/auth/types"
	minttypes "github.com/cosmos/cosmos-sdk/x/mint/types"

	ammtypes "github.com/elys-network/elys/x/amm/types"
	atypes "github.com/elys-network/elys/x/assetprofile/types"
	ctypes "github.com/elys-network/elys/x/commitment/types"
	sstypes "github.com/elys-network/elys/x/stablestake/types"
)

const (
	c12XT   = "uxtest" // a plain bank denom with an asset profile entry, minted to every user
	c12Nope = "unope"  // no asset profile entry
)

// symbolic denoms of the histories -> (real denom, interned id of the model)
var c12Sym = []string{"eden", "edenb", "ss", "p1", "p2", "xt", "nope"}

type c12Op struct {
	Op   string `json:"op"`
	Acct int    `json:"acct,omitempty"`
	D    string `json:"d,omitempty"`    // symbolic denom
	Rel  int    `json:"rel,omitempty"`  // amount selector relative to the state (see c12Amount)
	Amt  string `json:"amt,omitempty"`  // absolute amount (wins over Rel)
	Liq  bool   `json:"liq,omitempty"`  // k_uncommit: isLiquidation
	Lock int64  `json:"lock,omitempty"` // k_commit: lock seconds from now (0 none)
	Dt   int64  `json:"dt,omitempty"`   // blocks: seconds; <0: relative to the earliest pending unlock (-1: one second before, -2: exactly, -3: one after)
	CE   bool   `json:"ce,omitempty"`   // profile
	WE   bool   `json:"we,omitempty"`
	Del  bool   `json:"del,omitempty"` // profile: remove the entry
}

type c12Hist struct {
	ID   int     `json:"id"`
	Seed uint64  `json:"seed"` // drives the executor-side retargeting (which account really has something committed)
	Ops  []c12Op `json:"ops"`
}

func c12Gen(r *Rng, id int) c12Hist {
	h := c12Hist{ID: id, Seed: r.Next()}
	// every history starts by giving the users claimable Eden / EdenB
	for i := 0; i < 4; i++ {
		if r.Chance(85) {
			h.Ops = append(h.Ops, c12Op{Op: "reward", Acct: i, D: "eden", Amt: r.Decade(0, 24).String()})
		}
		if r.Chance(70) {
			h.Ops = append(h.Ops, c12Op{Op: "reward", Acct: i, D: "edenb", Amt: r.Decade(0, 24).String()})
		}
	}
	n := 28 + r.Intn(26)
	virt := func() string { return []string{"eden", "eden", "edenb"}[r.Intn(3)] }
	relU := func() int { return []int{0, 1, 2, 3, 4, 5, 5, 8, 8, 10, 2, 3, 6, 7, 9}[r.Intn(15)] }
	for k := 0; k < n; k++ {
		x := r.Intn(100)
		a := r.Intn(4)
		switch {
		case x < 14:
			d := virt()
			if r.Chance(8) {
				d = []string{"ss", "xt", "nope"}[r.Intn(3)]
			}
			h.Ops = append(h.Ops, c12Op{Op: "commit_claimed", Acct: a, D: d, Rel: r.Intn(9)})
		case x < 30:
			d := virt()
			if r.Chance(8) {
				d = []string{"ss", "p2", "nope"}[r.Intn(3)]
			}
			h.Ops = append(h.Ops, c12Op{Op: "uncommit_msg", Acct: a, D: d, Rel: relU()})
		case x < 36:
			h.Ops = append(h.Ops, c12Op{Op: "bond", Acct: a, Amt: r.Decade(0, 10).String()})
		case x < 42:
			h.Ops = append(h.Ops, c12Op{Op: "unbond", Acct: a, Rel: relU()})
		case x < 52:
			h.Ops = append(h.Ops, c12Op{Op: "join", Acct: a, D: []string{"p1", "p1", "p2"}[r.Intn(3)], Amt: r.Decade(2, 10).String()})
		case x < 64:
			h.Ops = append(h.Ops, c12Op{Op: "exit", Acct: a, D: []string{"p1", "p1", "p2"}[r.Intn(3)], Rel: relU()})
		case x < 70:
			h.Ops = append(h.Ops, c12Op{Op: "k_commit", Acct: a, D: []string{"xt", "xt", "xt", "nope", "eden"}[r.Intn(5)], Rel: r.Intn(9),
				Lock: r.Pick(0, 0, 1, 5, 60, 3600)})
		case x < 80:
			h.Ops = append(h.Ops, c12Op{Op: "k_uncommit", Acct: a, D: []string{"xt", "xt", "p1", "p1", "p2", "ss", "eden", "edenb"}[r.Intn(8)],
				Rel: relU(), Liq: r.Chance(45)})
		case x < 84:
			h.Ops = append(h.Ops, c12Op{Op: "k_burn", Acct: a, Rel: r.Intn(12)})
		case x < 87:
			h.Ops = append(h.Ops, c12Op{Op: "k_deposit", Acct: a, D: []string{"xt", "xt", "nope"}[r.Intn(3)], Rel: r.Intn(9)})
		case x < 89:
			h.Ops = append(h.Ops, c12Op{Op: "profile", D: "xt", CE: r.Chance(70), WE: r.Chance(70), Del: r.Chance(15)})
		case x < 90:
			h.Ops = append(h.Ops, c12Op{Op: "donate", D: "xt", Amt: r.Decade(0, 8).String()})
		case x < 92:
			h.Ops = append(h.Ops, c12Op{Op: "stake", Acct: a, Amt: r.Decade(3, 9).String()})
		case x < 94:
			h.Ops = append(h.Ops, c12Op{Op: "reward", Acct: a, D: virt(), Amt: r.Decade(0, 20).String()})
		default:
			h.Ops = append(h.Ops, c12Op{Op: "blocks", Dt: r.Pick(1, 5, 5, 60, 1800, 3599, 3600, 3601, 3700, -1, -2, -2, -3)})
		}
	}
	return h
}

// ---------- run state ----------

type c12Run struct {
	t     *testing.T
	w     *World
	m     *Market
	h     c12Hist
	ilk   map[string][][2]*big.Int // the harness's own book of locked commits
	col   *Collector
	den   map[string]string // symbolic -> real
	id    map[string]int    // real -> model id
	users []sdk.AccAddress
	modA  sdk.AccAddress
	valA  string
	steps []string
	fp    strings.Builder
	// independent bookkeeping for the implementation-side predicate on the total
	unc   map[string]*big.Int // Σ amounts of successful UncommitTokens per denom
	burnt map[string]*big.Int // Σ committed amount removed by BurnEdenBoost per denom
	nontrivial bool
}

var c12Reported sync.Map // signature -> *int (bounded reporting so that no signature is crowded out)

func (x *c12Run) violate(step int, sig, detail string) {
	v, _ := c12Reported.LoadOrStore(sig, new(int32))
	if n := atomic.AddInt32(v.(*int32), 1); n > 2 {
		return
	}
	x.col.Violate(Violation{Signature: sig, Detail: detail, History: x.h.ID, Step: step, Replay: x.h})
}

type c12Tok struct {
	Denom string
	Amt   *big.Int
	Locks [][2]*big.Int // amount, unlock
}

type c12Acct struct {
	Toks    []c12Tok
	Claimed map[string]*big.Int
}

func (x *c12Run) acct(addr sdk.AccAddress) c12Acct {
	c := x.w.App.CommitmentKeeper.GetCommitments(x.w.QCtx(), addr)
	return c12FromCommitments(&c)
}

func c12FromCommitments(c *ctypes.Commitments) c12Acct {
	a := c12Acct{Claimed: map[string]*big.Int{}}
	for _, t := range c.CommittedTokens {
		tk := c12Tok{Denom: t.Denom, Amt: t.Amount.BigInt()}
		for _, l := range t.Lockups {
			tk.Locks = append(tk.Locks, [2]*big.Int{l.Amount.BigInt(), new(big.Int).SetUint64(l.UnlockTimestamp)})
		}
		a.Toks = append(a.Toks, tk)
	}
	for _, cl := range c.Claimed {
		a.Claimed[cl.Denom] = cl.Amount.BigInt()
	}
	return a
}

func (a c12Acct) committed(d string) *big.Int { // sum of all entries of that denom
	s := new(big.Int)
	for _, t := range a.Toks {
		if t.Denom == d {
			s.Add(s, t.Amt)
		}
	}
	return s
}
func (a c12Acct) lockedAt(d string, now int64) *big.Int {
	s := new(big.Int)
	for _, t := range a.Toks {
		if t.Denom == d {
			for _, l := range t.Locks {
				if l[1].Cmp(big.NewInt(now)) > 0 {
					s.Add(s, l[0])
				}
			}
		}
	}
	return s
}
func (a c12Acct) claimed(d string) *big.Int {
	if v, ok := a.Claimed[d]; ok {
		return v
	}
	return new(big.Int)
}

func (x *c12Run) toksCoq(toks []c12Tok) string {
	var out []string
	for _, t := range toks {
		id, ok := x.id[t.Denom]
		if !ok {
			x.t.Fatalf("history %d: committed denom %q outside the modelled universe", x.h.ID, t.Denom)
		}
		var ls []string
		for _, l := range t.Locks {
			ls = append(ls, fmt.Sprintf("(%s,%s)", zstr(l[0]), zstr(l[1])))
		}
		out = append(out, fmt.Sprintf("(%d,%s,[%s])", id, zstr(t.Amt), strings.Join(ls, ";")))
	}
	return "[" + strings.Join(out, ";") + "]"
}

var c12ClaimedObs = []string{"eden", "edenb", "xt"}
var c12WalletObs = []string{"ss", "p1", "p2", "xt"}
var c12TotObs = []string{"eden", "edenb", "ss", "p1", "p2", "xt"}

func (x *c12Run) aobs(i int) string {
	a := x.acct(x.users[i])
	var cl, wl []string
	for _, s := range c12ClaimedObs {
		cl = append(cl, fmt.Sprintf("(%d,%s)", x.id[x.den[s]], zstr(a.claimed(x.den[s]))))
	}
	for _, s := range c12WalletObs {
		wl = append(wl, fmt.Sprintf("(%d,%s)", x.id[x.den[s]], zstr(x.w.Bal(x.users[i], x.den[s]).BigInt())))
	}
	return fmt.Sprintf("(mkAO %d %s [%s] [%s])", i, x.toksCoq(a.Toks), strings.Join(cl, ";"), strings.Join(wl, ";"))
}

func (x *c12Run) total(d string) *big.Int {
	return x.w.App.CommitmentKeeper.GetParams(x.w.QCtx()).TotalCommitted.AmountOf(d).BigInt()
}

func (x *c12Run) obs(kind string, mode int, i int) string {
	k := map[string]int{"ok": 0, "err": 1, "panic": 2}[kind]
	var tot, mod []string
	for _, s := range c12TotObs {
		d := x.den[s]
		tot = append(tot, fmt.Sprintf("(%d,%s)", x.id[d], zstr(x.total(d))))
		mod = append(mod, fmt.Sprintf("(%d,%s)", x.id[d], zstr(x.w.Bal(x.modA, d).BigInt())))
	}
	return fmt.Sprintf("mkO %d %d %s [%s] [%s]", k, mode, x.aobs(i), strings.Join(tot, ";"), strings.Join(mod, ";"))
}

func (x *c12Run) emit(coq string, kind string, mode int, i int) {
	x.steps = append(x.steps, fmt.Sprintf("(%s, %s)", coq, x.obs(kind, mode, i)))
}

// keeper call on a branch of the state that is written only on success (as inside a transaction)
func (x *c12Run) keeperCall(f func(ctx sdk.Context) error) (res TxResult) {
	base := x.w.Ctx()
	cctx, write := base.CacheContext()
	cctx = cctx.WithEventManager(sdk.NewEventManager())
	defer func() {
		if r := recover(); r != nil {
			res = TxResult{Panic: r}
		}
	}()
	if err := f(cctx); err != nil {
		return TxResult{Err: err}
	}
	write()
	return TxResult{Events: cctx.EventManager().ABCIEvents()}
}

// Eden / EdenB credited by estaking's WithdrawAllRewards inside the EdenUncommitted hook
func c12HookRewards(evs []abci.Event) (e, b *big.Int) {
	e, b = new(big.Int), new(big.Int)
	for _, ev := range evs {
		if ev.Type != "withdraw_reward" {
			continue
		}
		coins, err := sdk.ParseCoinsNormalized(attr(ev, "amount"))
		if err != nil {
			continue
		}
		e.Add(e, coins.AmountOf("ueden").BigInt())
		b.Add(b, coins.AmountOf("uedenb").BigInt())
	}
	return
}

// whole ledger as the property sees it
type c12Ledger struct {
	sumCommitted map[string]*big.Int
	sumClaimed   map[string]*big.Int
	text         string // canonical text of every commitments record + totals (for "unchanged" checks)
	negative     string
}

func (x *c12Run) ledger() c12Ledger {
	l := c12Ledger{sumCommitted: map[string]*big.Int{}, sumClaimed: map[string]*big.Int{}}
	ctx := x.w.QCtx()
	var sb strings.Builder
	for _, c := range x.w.App.CommitmentKeeper.GetAllCommitments(ctx) {
		a := c12FromCommitments(c)
		fmt.Fprintf(&sb, "%s:", c.Creator)
		for _, t := range a.Toks {
			if _, ok := l.sumCommitted[t.Denom]; !ok {
				l.sumCommitted[t.Denom] = new(big.Int)
			}
			l.sumCommitted[t.Denom].Add(l.sumCommitted[t.Denom], t.Amt)
			if t.Amt.Sign() < 0 {
				l.negative = fmt.Sprintf("%s committed %s%s", c.Creator, t.Amt, t.Denom)
			}
			fmt.Fprintf(&sb, "%s=%s", t.Denom, t.Amt)
			for _, lk := range t.Locks {
				fmt.Fprintf(&sb, "[%s@%s]", lk[0], lk[1])
				if lk[0].Sign() < 0 {
					l.negative = fmt.Sprintf("%s lock-up %s%s", c.Creator, lk[0], t.Denom)
				}
			}
			sb.WriteString(",")
		}
		ds := make([]string, 0, len(a.Claimed))
		for d := range a.Claimed {
			ds = append(ds, d)
		}
		sort.Strings(ds)
		for _, d := range ds {
			if _, ok := l.sumClaimed[d]; !ok {
				l.sumClaimed[d] = new(big.Int)
			}
			l.sumClaimed[d].Add(l.sumClaimed[d], a.Claimed[d])
			if a.Claimed[d].Sign() < 0 {
				l.negative = fmt.Sprintf("%s claimed %s%s", c.Creator, a.Claimed[d], d)
			}
			fmt.Fprintf(&sb, "c:%s=%s,", d, a.Claimed[d])
		}
		sb.WriteString("\n")
	}
	fmt.Fprintf(&sb, "total=%s", x.w.App.CommitmentKeeper.GetParams(ctx).TotalCommitted.String())
	l.text = sb.String()
	return l
}

func bz(m map[string]*big.Int, d string) *big.Int {
	if v, ok := m[d]; ok {
		return v
	}
	return new(big.Int)
}

// the property's own predicates, evaluated on the implementation after every step
func (x *c12Run) implPredicates(step int) {
	l := x.ledger()
	ctx := x.w.QCtx()
	if l.negative != "" {
		x.violate(step, "C12:negative-ledger-entry", l.negative)
	}
	// (1) chain-wide total == Σ accounts, per denom
	denoms := map[string]bool{}
	for d := range l.sumCommitted {
		denoms[d] = true
	}
	for _, c := range x.w.App.CommitmentKeeper.GetParams(ctx).TotalCommitted {
		denoms[c.Denom] = true
	}
	for d := range denoms {
		disc := new(big.Int).Sub(x.total(d), bz(l.sumCommitted, d))
		if disc.Sign() == 0 {
			continue
		}
		u, b := bz(x.unc, d), bz(x.burnt, d)
		expl := new(big.Int).Add(new(big.Int).Lsh(u, 1), b) // 2·Σ uncommitted + Σ burned from committed
		detail := fmt.Sprintf("TotalCommitted[%s]=%s but Σ accounts' committed=%s (difference %s; successful uncommits so far Σ=%s, committed EdenB burned Σ=%s)",
			d, x.total(d), bz(l.sumCommitted, d), disc, u, b)
		if disc.Cmp(expl) != 0 {
			x.violate(step, "C12:total-mismatch-unexplained", detail)
			continue
		}
		if u.Sign() > 0 {
			x.violate(step, "C12:uncommit-adds-to-total", detail)
		}
		if b.Sign() > 0 {
			x.violate(step, "C12:burn-edenb-skips-total", detail)
		}
	}
	// (2) custody: module balance >= Σ committed + Σ claimed for every bank-backed denom
	for d := range denoms {
		denoms[d] = true
	}
	for d := range l.sumClaimed {
		denoms[d] = true
	}
	for d := range denoms {
		if d == "ueden" || d == "uedenb" {
			continue
		}
		need := new(big.Int).Add(bz(l.sumCommitted, d), bz(l.sumClaimed, d))
		have := x.w.Bal(x.modA, d).BigInt()
		if have.Cmp(need) < 0 {
			x.violate(step, "C12:custody-short", fmt.Sprintf("commitment module holds %s%s < committed %s + claimed %s", have, d, bz(l.sumCommitted, d), bz(l.sumClaimed, d)))
		}
	}
	x.col.ImplCheck(2 * len(denoms))
}

func c12Rel(r int, base, unlocked *big.Int) *big.Int {
	switch r {
	case 8:
		return new(big.Int).Set(unlocked)
	case 9:
		return new(big.Int).Add(unlocked, big.NewInt(1))
	case 10:
		if unlocked.Sign() > 0 {
			return new(big.Int).Sub(unlocked, big.NewInt(1))
		}
		return big.NewInt(1)
	case 11:
		return new(big.Int).Mul(base, big.NewInt(3))
	}
	return relAmount(r, base)
}

func c12Exec(t *testing.T, col *Collector, h c12Hist) string {
	w := NewWorld(t)
	m := NewMarket(w, DefaultMarketOpts())
	x := &c12Run{t: t, w: w, m: m, h: h, col: col, users: m.Users, unc: map[string]*big.Int{}, burnt: map[string]*big.Int{}}
	x.modA = authtypes.NewModuleAddress(ctypes.ModuleName)
	x.den = map[string]string{"eden": "ueden", "edenb": "uedenb", "ss": sstypes.GetShareDenom(),
		"p1": ammtypes.GetPoolShareDenom(m.OraclePool), "p2": ammtypes.GetPoolShareDenom(m.CPPool), "xt": c12XT, "nope": c12Nope}
	x.id = map[string]int{}
	for i, s := range c12Sym {
		x.id[x.den[s]] = i
	}
	vals, err := w.App.StakingKeeper.GetAllValidators(w.QCtx())
	if err == nil && len(vals) > 0 {
		x.valA = vals[0].OperatorAddress
	}
	// fixture additions: the plain bank denom
	{
		ctx := w.Ctx()
		w.App.AssetprofileKeeper.SetEntry(ctx, atypes.Entry{BaseDenom: c12XT, Denom: c12XT, Decimals: 6, DisplayName: "XT", CommitEnabled: true, WithdrawEnabled: true})
	}
	xtFunds := new(big.Int).Exp(big.NewInt(10), big.NewInt(15), nil)
	for _, u := range x.users {
		w.Mint(u, sdk.NewCoins(sdk.NewCoin(c12XT, sdkmath.NewIntFromBigInt(xtFunds))))
	}
	// reconstruct the fixture as model operations (from the empty ledger)
	for _, s := range c12Sym[:6] {
		x.steps = append(x.steps, fmt.Sprintf("(OSetProfile %d (Some (true,true)), mkO 0 2 (mkAO 0 [] [] []) [] [])", x.id[x.den[s]]))
	}
	for i, u := range x.users {
		x.steps = append(x.steps, fmt.Sprintf("(OMintWallet %d %d %s, mkO 0 2 (mkAO 0 [] [] []) [] [])", i, x.id[c12XT], zstr(xtFunds)))
		a := x.acct(u)
		for _, tk := range a.Toks {
			lock := big.NewInt(0)
			if len(tk.Locks) > 1 || (len(tk.Locks) == 1 && tk.Locks[0][0].Cmp(tk.Amt) != 0) {
				t.Fatalf("fixture: unexpected lock-up structure %v", tk)
			}
			if len(tk.Locks) == 1 {
				lock = tk.Locks[0][1]
			}
			x.steps = append(x.steps, fmt.Sprintf("(OMintCommit %d %d %s %s, mkO 0 2 (mkAO 0 [] [] []) [] [])", i, x.id[tk.Denom], zstr(tk.Amt), zstr(lock)))
		}
		for d, v := range a.Claimed {
			if v.Sign() != 0 {
				t.Fatalf("fixture: user has claimed %s%s", v, d)
			}
		}
	}
	for i := range x.users { // full comparison of every account after the fixture
		x.emit(fmt.Sprintf("ODonate %d 0", x.id[c12XT]), "ok", 0, i)
	}
	x.implPredicates(-1)

	blk := func(k int, dt int64) bool {
		m.RefreshPrices()
		if err := w.EndBlock(dt); err != nil {
			x.violate(k, "C12:block-failed", err.Error())
			return false
		}
		return true
	}
	if !blk(-1, 5) {
		return ""
	}

	for k, op := range h.Ops {
		i := op.Acct % len(x.users)
		now := w.Time.Unix()
		// retarget most uncommit-like ops to an account that has the denom committed (the generator is
		// not state-aware; without this most of them would only exercise the "nothing committed" error)
		switch op.Op {
		case "uncommit_msg", "k_uncommit", "exit", "unbond":
			rr := NewRng(h.Seed, uint64(k))
			d := x.den[op.D]
			if op.Op == "unbond" {
				d = x.den["ss"]
			}
			if x.acct(x.users[i]).committed(d).Sign() == 0 && rr.Chance(80) {
				var have []int
				for j := range x.users {
					if x.acct(x.users[j]).committed(d).Sign() > 0 {
						have = append(have, j)
					}
				}
				if len(have) > 0 {
					i = have[rr.Intn(len(have))]
				}
			}
		}
		u := x.users[i]
		real := x.den[op.D]
		did := x.id[real]
		pre := x.acct(u)
		preLedger := x.ledger()
		absAmt := func(base, unlocked *big.Int) *big.Int {
			if op.Amt != "" {
				v, _ := new(big.Int).SetString(op.Amt, 10)
				return v
			}
			return c12Rel(op.Rel, base, unlocked)
		}
		unlockedOf := func(d string) *big.Int {
			v := new(big.Int).Sub(pre.committed(d), pre.lockedAt(d, now))
			if v.Sign() < 0 {
				v.SetInt64(0)
			}
			return v
		}
		staked := w.App.EstakingKeeper.GetElysStaked(w.QCtx(), u).Amount.BigInt()
		var res TxResult
		var amt *big.Int
		uncommitLike := false // the step called Keeper.UncommitTokens(real, amt, liq) for account i
		liq := false
		commitLike := false
		modelled := true
		switch op.Op {
		case "blocks":
			dt := op.Dt
			if dt < 0 { // aim at the earliest pending unlock of any user
				var best *big.Int
				for _, uu := range x.users {
					for _, tk := range x.acct(uu).Toks {
						for _, lk := range tk.Locks {
							if lk[1].Cmp(big.NewInt(now)) > 0 && (best == nil || lk[1].Cmp(best) < 0) {
								best = lk[1]
							}
						}
					}
				}
				if best == nil {
					dt = 5
				} else {
					dt = best.Int64() - now + map[int64]int64{-1: -1, -2: 0, -3: 1}[op.Dt]
					if dt < 1 {
						dt = 1
					}
				}
			}
			if !blk(k, dt) {
				return ""
			}
			col.Op("blocks", "ok", nil)
			continue
		case "reward": // fixture: claimable Eden / EdenB appears (AddClaimed, as the reward paths do)
			amt = absAmt(big.NewInt(1000), big.NewInt(0))
			ctx := w.Ctx()
			c := w.App.CommitmentKeeper.GetCommitments(ctx, u)
			c.AddClaimed(sdk.NewCoin(real, sdkmath.NewIntFromBigInt(amt)))
			w.App.CommitmentKeeper.SetCommitments(ctx, c)
			x.emit(fmt.Sprintf("OAddClaimed %d %d %s", i, did, zstr(amt)), "ok", 0, i)
		case "commit_claimed":
			amt = absAmt(pre.claimed(real), pre.claimed(real))
			res = w.Deliver(&ctypes.MsgCommitClaimedRewards{Creator: u.String(), Amount: sdkmath.NewIntFromBigInt(amt), Denom: real})
			if amt.Sign() <= 0 { // rejected by ValidateBasic, the handler does not run
				modelled = false
				if res.OK() {
					x.violate(k, "C12:nonpositive-amount-accepted", "MsgCommitClaimedRewards with amount <= 0 succeeded")
				}
			} else {
				x.emit(fmt.Sprintf("OCommitClaimed %d %d %s %d", i, did, zstr(amt), now), res.Kind(), 0, i)
				commitLike = res.OK()
			}
		case "uncommit_msg":
			amt = absAmt(pre.committed(real), unlockedOf(real))
			res = w.Deliver(&ctypes.MsgUncommitTokens{Creator: u.String(), Amount: sdkmath.NewIntFromBigInt(amt), Denom: real})
			if amt.Sign() <= 0 {
				modelled = false
				if res.OK() {
					x.violate(k, "C12:nonpositive-amount-accepted", "MsgUncommitTokens with amount <= 0 succeeded")
				}
			} else {
				re, rb := c12HookRewards(res.Events)
				x.emit(fmt.Sprintf("OUncommitMsg %d %d %s %d %s %s %s", i, did, zstr(amt), now, zstr(staked), zstr(re), zstr(rb)), res.Kind(), 0, i)
				uncommitLike = true
				if res.OK() && real != "ueden" && real != "uedenb" {
					x.violate(k, "C12:uncommit-msg-unsupported-denom", "MsgUncommitTokens accepted "+real)
				}
			}
		case "bond", "join":
			amt = absAmt(big.NewInt(1000), big.NewInt(0))
			var msg sdk.Msg
			lock := int64(0)
			if op.Op == "bond" {
				real = x.den["ss"]
				msg = &sstypes.MsgBond{Creator: u.String(), Amount: sdkmath.NewIntFromBigInt(amt)}
			} else if op.D == "p1" { // oracle pool: single-sided join, locked for one hour
				lock = now + 3600
				msg = &ammtypes.MsgJoinPool{Sender: u.String(), PoolId: m.OraclePool, MaxAmountsIn: sdk.NewCoins(sdk.NewCoin(USDC, sdkmath.NewIntFromBigInt(amt))), ShareAmountOut: I(1)}
			} else { // constant product: ask for shares, generous limits
				shares := new(big.Int).Mul(amt, big.NewInt(10_000_000))
				msg = &ammtypes.MsgJoinPool{Sender: u.String(), PoolId: m.CPPool, MaxAmountsIn: sdk.NewCoins(sdk.NewCoin(USDC, I(100_000_000_000)), sdk.NewCoin(ELYS, I(100_000_000_000))),
					ShareAmountOut: sdkmath.NewIntFromBigInt(shares)}
			}
			did = x.id[real]
			res = w.Deliver(msg)
			if res.OK() {
				// shares = what the bank moved from the user into the commitment module
				shares := new(big.Int)
				for _, bo := range BankOps(res.Events) {
					if bo.Kind == "send" && bo.Denom == real && bo.From == u.String() && bo.To == x.modA.String() {
						shares.Add(shares, bo.Amt.BigInt())
					}
				}
				x.emit(fmt.Sprintf("OMintCommit %d %d %s %d", i, did, zstr(shares), lock), "ok", 1, i)
				commitLike = true
				if lock > now {
					x.ibook(u.String(), real, shares, lock)
				}
			} else {
				modelled = false
			}
		case "unbond", "exit":
			var msg sdk.Msg
			if op.Op == "unbond" {
				real = x.den["ss"]
			}
			did = x.id[real]
			amt = absAmt(pre.committed(real), unlockedOf(real))
			if op.Op == "unbond" {
				msg = &sstypes.MsgUnbond{Creator: u.String(), Amount: sdkmath.NewIntFromBigInt(amt)}
			} else {
				pid := m.OraclePool
				if op.D == "p2" {
					pid = m.CPPool
				}
				msg = &ammtypes.MsgExitPool{Sender: u.String(), PoolId: pid, MinAmountsOut: sdk.Coins{}, ShareAmountIn: sdkmath.NewIntFromBigInt(amt)}
			}
			res = w.Deliver(msg)
			if amt.Sign() <= 0 {
				modelled = false
			} else {
				x.emit(fmt.Sprintf("OUncommitBurn %d %d %s %d false", i, did, zstr(amt), now), res.Kind(), 1, i)
				uncommitLike = true
			}
		case "k_commit":
			amt = absAmt(w.Bal(u, real).BigInt(), big.NewInt(0))
			if op.D == "eden" { // ueden is not a bank coin: CommitLiquidTokens must refuse
				amt = absAmt(pre.claimed(real), big.NewInt(0))
			}
			lock := int64(0)
			if op.Lock > 0 {
				lock = now + op.Lock
			}
			res = x.keeperCall(func(ctx sdk.Context) error {
				return w.App.CommitmentKeeper.CommitLiquidTokens(ctx, u, real, sdkmath.NewIntFromBigInt(amt), uint64(lock))
			})
			x.emit(fmt.Sprintf("OCommitLiquid %d %d %s %d", i, did, zstr(amt), lock), res.Kind(), 0, i)
			commitLike = res.OK()
			if res.OK() && lock > now {
				x.ibook(u.String(), real, amt, lock)
			}
		case "k_uncommit":
			amt = absAmt(pre.committed(real), unlockedOf(real))
			if (real == "ueden" || real == "uedenb") && amt.Sign() <= 0 {
				// no caller passes a non-positive Eden amount (the messages are validated); a zero-amount Eden
				// uncommit would run the distribution "before" hook without the "after" hook (CommitmentChanged
				// skips zero amounts) and leave the delegation without starting info: outside the ledger model
				amt = big.NewInt(1)
			}
			liq = op.Liq
			res = x.keeperCall(func(ctx sdk.Context) error {
				return w.App.CommitmentKeeper.UncommitTokens(ctx, u, real, sdkmath.NewIntFromBigInt(amt), liq)
			})
			re, rb := c12HookRewards(res.Events)
			x.emit(fmt.Sprintf("OUncommit %d %d %s %d %v %s %s %s", i, did, zstr(amt), now, liq, zstr(staked), zstr(re), zstr(rb)), res.Kind(), 0, i)
			uncommitLike = true
		case "k_burn":
			real = "uedenb"
			base := new(big.Int).Add(pre.claimed(real), pre.committed(real))
			switch op.Rel {
			case 8:
				amt = new(big.Int).Set(pre.claimed(real))
			case 9:
				amt = new(big.Int).Add(pre.claimed(real), big.NewInt(1))
			case 10:
				amt = big.NewInt(0)
			default:
				amt = c12Rel(op.Rel, base, base)
			}
			res = x.keeperCall(func(ctx sdk.Context) error {
				return w.App.CommitmentKeeper.BurnEdenBoost(ctx, u, real, sdkmath.NewIntFromBigInt(amt))
			})
			x.emit(fmt.Sprintf("OBurnEdenB %d %s %d", i, zstr(amt), now), res.Kind(), 0, i)
		case "k_deposit":
			amt = absAmt(w.Bal(u, real).BigInt(), big.NewInt(0))
			res = x.keeperCall(func(ctx sdk.Context) error {
				return w.App.CommitmentKeeper.DepositLiquidTokensClaimed(ctx, real, sdkmath.NewIntFromBigInt(amt), u)
			})
			x.emit(fmt.Sprintf("ODepositClaimed %d %d %s", i, did, zstr(amt)), res.Kind(), 0, i)
		case "profile":
			ctx := w.Ctx()
			if op.Del {
				w.App.AssetprofileKeeper.RemoveEntry(ctx, real)
				x.emit(fmt.Sprintf("OSetProfile %d None", did), "ok", 0, i)
			} else {
				w.App.AssetprofileKeeper.SetEntry(ctx, atypes.Entry{BaseDenom: real, Denom: real, Decimals: 6, DisplayName: "XT", CommitEnabled: op.CE, WithdrawEnabled: op.WE})
				x.emit(fmt.Sprintf("OSetProfile %d (Some (%v,%v))", did, op.CE, op.WE), "ok", 0, i)
			}
		case "donate":
			amt = absAmt(big.NewInt(1), big.NewInt(0))
			ctx := w.Ctx()
			coins := sdk.NewCoins(sdk.NewCoin(real, sdkmath.NewIntFromBigInt(amt)))
			if err := w.App.BankKeeper.MintCoins(ctx, minttypes.ModuleName, coins); err != nil {
				t.Fatalf("donate mint: %v", err)
			}
			if err := w.App.BankKeeper.SendCoinsFromModuleToModule(ctx, minttypes.ModuleName, ctypes.ModuleName, coins); err != nil {
				t.Fatalf("donate send: %v", err)
			}
			x.emit(fmt.Sprintf("ODonate %d %s", did, zstr(amt)), "ok", 0, i)
		case "stake": // Elys delegation through the commitment module; outside the ledger except for reward credits
			amt = absAmt(big.NewInt(1000), big.NewInt(0))
			res = w.Deliver(&ctypes.MsgStake{Creator: u.String(), Amount: sdkmath.NewIntFromBigInt(amt), Asset: ELYS, ValidatorAddress: x.valA})
			post := x.acct(u)
			for _, d := range []string{"ueden", "uedenb"} {
				if delta := new(big.Int).Sub(post.claimed(d), pre.claimed(d)); delta.Sign() != 0 {
					x.emit(fmt.Sprintf("OAddClaimed %d %d %s", i, x.id[d], zstr(delta)), "ok", 0, i)
				}
			}
			modelled = false
		default:
			t.Fatalf("unknown op %q", op.Op)
		}
		_ = modelled
		if os.Getenv("VERIF_C12_TRACE") == fmt.Sprint(h.ID) {
			t.Logf("history %d step %d (model step %d) %+v amt=%v -> %s err=%v panic=%v", h.ID, k, len(x.steps)-1, op, amt, res.Kind(), res.Err, res.Panic)
		}
		col.Op(op.Op, res.Kind(), amt)
		fmt.Fprintf(&x.fp, "%s:%s:%s:%d;", op.Op, op.D, res.Kind(), i)

		// ---- the property's predicates on the implementation ----
		post := x.acct(u)
		postLedger := x.ledger()
		if !res.OK() && op.Op != "reward" && op.Op != "profile" && op.Op != "donate" && op.Op != "stake" {
			if preLedger.text != postLedger.text {
				x.violate(k, "C12:failed-op-changed-ledger", fmt.Sprintf("%s failed (%v%v) but the ledger changed", op.Op, res.Err, res.Panic))
			}
		}
		if uncommitLike && amt != nil {
			committedBefore := pre.committed(real)
			if res.OK() {
				x.nontrivial = true
				if _, ok := x.unc[real]; !ok {
					x.unc[real] = new(big.Int)
				}
				x.unc[real].Add(x.unc[real], amt)
				// no overdraw
				if amt.Cmp(committedBefore) > 0 {
					x.violate(k, "C12:overdraw", fmt.Sprintf("uncommitted %s of %s committed %s", amt, committedBefore, real))
				}
				if new(big.Int).Sub(committedBefore, post.committed(real)).Cmp(amt) != 0 {
					x.violate(k, "C12:uncommit-account-delta", fmt.Sprintf("uncommit %s%s moved the account's committed from %s to %s", amt, real, committedBefore, post.committed(real)))
				}
				// lock-ups: what was still locked at this time must remain committed
				if !liq {
					if locked := pre.lockedAt(real, now); post.committed(real).Cmp(locked) < 0 {
						x.violate(k, "C12:locked-withdrawn", fmt.Sprintf("after uncommitting %s at t=%d only %s%s remain committed but %s were locked", amt, now, post.committed(real), real, locked))
					}
					// the same against the harness's OWN book of what it committed under which lock (the stored lock-up list is the
					// value under test): every amount committed with an unlock time still ahead must remain committed
					if locked := x.ilocked(u.String(), real, now); post.committed(real).Cmp(locked) < 0 {
						x.violate(k, "C12:locked-withdrawn-by-own-book", fmt.Sprintf("after uncommitting %s at t=%d only %s%s remain committed although %s were committed under locks that are still running", amt, now, post.committed(real), real, locked))
					}
				} else {
					x.iclear(u.String(), real) // a liquidation may take locked tokens: the book of this (account, denom) starts afresh
				}
				// an Eden uncommit may burn committed EdenB through the estaking hook
				if real == "ueden" {
					if d := new(big.Int).Sub(pre.committed("uedenb"), post.committed("uedenb")); d.Sign() != 0 {
						if _, ok := x.burnt["uedenb"]; !ok {
							x.burnt["uedenb"] = new(big.Int)
						}
						x.burnt["uedenb"].Add(x.burnt["uedenb"], d)
					}
				}
			} else {
				// liquidation override: within the committed amount a liquidation is never stopped by a lock
				if liq && op.Op == "k_uncommit" && amt.Sign() >= 0 && amt.Cmp(committedBefore) <= 0 && committedBefore.Sign() > 0 {
					if e, found := w.App.AssetprofileKeeper.GetEntry(w.QCtx(), real); found && e.WithdrawEnabled {
						x.violate(k, "C12:liquidation-blocked", fmt.Sprintf("liquidation uncommit of %s of %s%s failed: %v%v", amt, committedBefore, real, res.Err, res.Panic))
					}
				}
			}
		}
		if op.Op == "k_burn" && res.OK() {
			x.iclear(u.String(), "uedenb")
			if d := new(big.Int).Sub(pre.committed("uedenb"), post.committed("uedenb")); d.Sign() != 0 {
				x.nontrivial = true
				if _, ok := x.burnt["uedenb"]; !ok {
					x.burnt["uedenb"] = new(big.Int)
				}
				x.burnt["uedenb"].Add(x.burnt["uedenb"], d)
			}
		}
		if commitLike {
			x.nontrivial = true
		}
		x.implPredicates(k)
		if k%4 == 3 {
			if !blk(k, 5) {
				return ""
			}
		}
	}
	var fin []string
	for i := range x.users {
		fin = append(fin, x.aobs(i))
	}
	col.Distinct(x.fp.String(), x.nontrivial)
	col.Sample(h)
	return fmt.Sprintf("CApp (mkC %d %d [\n  %s]\n  [%s])", h.ID, len(x.users), strings.Join(x.steps, ";\n  "), strings.Join(fin, ";\n   "))
}

// independent book of locked commits (account, denom) -> [(amount, unlock)]
func (x *c12Run) ibook(acct, denom string, amt *big.Int, unlock int64) {
	if x.ilk == nil {
		x.ilk = map[string][][2]*big.Int{}
	}
	x.ilk[acct+"|"+denom] = append(x.ilk[acct+"|"+denom], [2]*big.Int{new(big.Int).Set(amt), big.NewInt(unlock)})
}
func (x *c12Run) ilocked(acct, denom string, now int64) *big.Int {
	s := new(big.Int)
	for _, l := range x.ilk[acct+"|"+denom] {
		if l[1].Int64() > now {
			s.Add(s, l[0])
		}
	}
	return s
}
func (x *c12Run) iclear(acct, denom string) { delete(x.ilk, acct+"|"+denom) }

// ---------- pure part ----------

func c12PureToks(toks []*ctypes.CommittedTokens) string {
	var out []string
	for _, t := range toks {
		var ls []string
		for _, l := range t.Lockups {
			ls = append(ls, fmt.Sprintf("(%s,%d)", zstr(l.Amount.BigInt()), l.UnlockTimestamp))
		}
		var d int
		fmt.Sscanf(t.Denom, "d%d", &d)
		out = append(out, fmt.Sprintf("(%d,%s,[%s])", d, zstr(t.Amount.BigInt()), strings.Join(ls, ";")))
	}
	return "[" + strings.Join(out, ";") + "]"
}

func c12Clone(c ctypes.Commitments) ctypes.Commitments {
	n := ctypes.Commitments{Creator: c.Creator}
	for _, t := range c.CommittedTokens {
		nt := &ctypes.CommittedTokens{Denom: t.Denom, Amount: t.Amount}
		nt.Lockups = append([]ctypes.Lockup{}, t.Lockups...)
		n.CommittedTokens = append(n.CommittedTokens, nt)
	}
	return n
}

func c12Pure(col *Collector, r *Rng, id int) string {
	c := ctypes.Commitments{Creator: Addr(1).String()}
	base := int64(1_700_000_000)
	times := []int64{base, base + 1, base + 2, base + 10, base + 3600, base + 3601, base + 7200}
	var steps []string
	n := 4 + r.Intn(9)
	nontrivial := false
	var fp strings.Builder
	for k := 0; k < n; k++ {
		d := r.Intn(3)
		denom := fmt.Sprintf("d%d", d)
		if r.Chance(45) || len(c.CommittedTokens) == 0 {
			amt := r.Decade(0, 30)
			if r.Chance(6) {
				amt = big.NewInt(0)
			}
			unlock := int64(0)
			if r.Chance(70) {
				unlock = times[r.Intn(len(times))]
			}
			c.AddCommittedTokens(denom, sdkmath.NewIntFromBigInt(amt), uint64(unlock))
			steps = append(steps, fmt.Sprintf("(PAdd %d %s %d, 0, %s)", d, zstr(amt), unlock, c12PureToks(c.CommittedTokens)))
			col.Op("pure_add", "ok", amt)
			fmt.Fprintf(&fp, "a%d;", d)
			continue
		}
		now := times[r.Intn(len(times))] + r.Pick(-1, 0, 0, 1)
		liq := r.Chance(25)
		a := c12FromCommitments(&c)
		committed := a.committed(denom)
		unlocked := new(big.Int).Sub(committed, a.lockedAt(denom, now))
		if unlocked.Sign() < 0 {
			unlocked.SetInt64(0)
		}
		amt := c12Rel(r.Intn(11), committed, unlocked)
		if r.Chance(3) {
			amt.Neg(amt)
		}
		saved := c12Clone(c)
		err := c.DeductFromCommitted(denom, sdkmath.NewIntFromBigInt(amt), uint64(now), liq)
		kind := 0
		if err != nil {
			kind = 1
			c = saved // every caller discards the mutated receiver on error
		} else {
			nontrivial = true
			// the property's predicates on the pure function
			post := c12FromCommitments(&c)
			if amt.Cmp(committed) > 0 {
				col.Violate(Violation{Signature: "C12:overdraw", Detail: fmt.Sprintf("pure: deducted %s of %s", amt, committed), History: id, Step: k})
			}
			if !liq && amt.Sign() >= 0 && post.committed(denom).Cmp(a.lockedAt(denom, now)) < 0 {
				col.Violate(Violation{Signature: "C12:locked-withdrawn", Detail: fmt.Sprintf("pure: %s remain, %s locked at %d", post.committed(denom), a.lockedAt(denom, now), now), History: id, Step: k})
			}
			for _, t := range c.CommittedTokens {
				if t.Amount.IsNegative() {
					col.Violate(Violation{Signature: "C12:negative-ledger-entry", Detail: "pure: negative committed amount", History: id, Step: k})
				}
			}
		}
		if err != nil && liq && amt.Sign() >= 0 && amt.Cmp(committed) <= 0 && len(a.Toks) > 0 && committed.Sign() > 0 {
			col.Violate(Violation{Signature: "C12:liquidation-blocked", Detail: "pure: liquidation deduct within the committed amount failed", History: id, Step: k})
		}
		col.ImplCheck(3)
		col.Op("pure_deduct", map[int]string{0: "ok", 1: "err"}[kind], new(big.Int).Abs(amt))
		fmt.Fprintf(&fp, "d%d%d%v;", d, kind, liq)
		steps = append(steps, fmt.Sprintf("(PDed %d %s %d %v, %d, %s)", d, zstr(amt), now, liq, kind, c12PureToks(c.CommittedTokens)))
	}
	col.Distinct(fp.String(), nontrivial)
	return fmt.Sprintf("CPure (mkPC %d [] [\n  %s])", id, strings.Join(steps, ";\n  "))
}

func TestC12(t *testing.T) {
	seed := envInt("VERIF_SEED", 1)
	col := NewCollector("C12", seed)
	n, np := 72, 1200
	if tier() == "thorough" {
		n, np = 1200, 12000
	}
	n = int(envInt("VERIF_N", int64(n)))
	np = int(envInt("VERIF_NPURE", int64(np)))
	var hists []c12Hist
	var one c12Hist
	if loadReplay(&one) {
		hists = []c12Hist{one}
		np = 0
	} else {
		hists = append(hists, c12Corpus()...)
		for i := len(hists); i < n; i++ {
			hists = append(hists, c12Gen(NewRng(uint64(seed), uint64(i)), i))
		}
	}
	// case ids: the (large) app cases are spread evenly between the (small) pure cases so that the
	// Coq shards have similar sizes
	stride := 1
	if len(hists) > 0 {
		stride = np/len(hists) + 1
	}
	RunParallel(len(hists), func(i int) {
		h := hists[i]
		h.ID = i * stride
		if txt := c12Exec(t, col, h); txt != "" {
			col.Case(h.ID, txt)
		}
	})
	id := 0
	for j := 0; j < np; j++ {
		id++
		for id%stride == 0 && id/stride < len(hists) {
			id++
		}
		col.Case(id, c12Pure(col, NewRng(uint64(seed), uint64(1_000_000+j)), id))
	}
	header := "From Coq Require Import ZArith List Bool.\nFrom Elys Require Import Base.Res Models.Commit Run.CommitRun.\nImport ListNotations.\nOpen Scope Z_scope.\n"
	footer := "Definition M := Eval vm_compute in mismatches false false cases.\nPrint M.\n"
	col.Finish(t, len(hists)+np, header, footer, 128)
}

// corpus: minimised histories that matter (run first on every check)
func c12Corpus() []c12Hist {
	return []c12Hist{
		{ // the known finding: commit 100 ueden, uncommit 100 ueden -> TotalCommitted = 200ueden
			Ops: []c12Op{{Op: "reward", Acct: 0, D: "eden", Amt: "100"}, {Op: "commit_claimed", Acct: 0, D: "eden", Amt: "100"},
				{Op: "uncommit_msg", Acct: 0, D: "eden", Amt: "100"}},
		},
		{ // committed EdenB burned by the EdenUncommitted hook: TotalCommitted[uedenb] is not lowered
			Ops: []c12Op{{Op: "reward", Acct: 1, D: "eden", Amt: "100"}, {Op: "reward", Acct: 1, D: "edenb", Amt: "100"},
				{Op: "commit_claimed", Acct: 1, D: "edenb", Amt: "100"}, {Op: "commit_claimed", Acct: 1, D: "eden", Amt: "100"},
				{Op: "blocks", Dt: 5}, {Op: "uncommit_msg", Acct: 1, D: "eden", Amt: "100"}},
		},
		{ // oracle-pool lock: exit before, exactly at and after the unlock second; liquidation override
			Ops: []c12Op{{Op: "join", Acct: 2, D: "p1", Amt: "5000000"}, {Op: "exit", Acct: 2, D: "p1", Rel: 5}, {Op: "blocks", Dt: -1},
				{Op: "exit", Acct: 2, D: "p1", Rel: 3}, {Op: "k_uncommit", Acct: 2, D: "p1", Rel: 2, Liq: true}, {Op: "blocks", Dt: -2},
				{Op: "exit", Acct: 2, D: "p1", Rel: 5}, {Op: "exit", Acct: 2, D: "p1", Rel: 0}},
		},
		{ // plain bank denom: commit with locks, deposit as claimed, commit the claimed, disabled profile
			Ops: []c12Op{{Op: "k_commit", Acct: 3, D: "xt", Amt: "1000", Lock: 60}, {Op: "k_commit", Acct: 3, D: "xt", Amt: "500"},
				{Op: "k_uncommit", Acct: 3, D: "xt", Amt: "501"}, {Op: "k_uncommit", Acct: 3, D: "xt", Amt: "500"},
				{Op: "k_deposit", Acct: 3, D: "xt", Amt: "77"}, {Op: "commit_claimed", Acct: 3, D: "xt", Amt: "77"},
				{Op: "profile", D: "xt", CE: true, WE: false}, {Op: "k_uncommit", Acct: 3, D: "xt", Amt: "1", Liq: true},
				{Op: "profile", D: "xt", CE: true, WE: true}, {Op: "blocks", Dt: 61}, {Op: "k_uncommit", Acct: 3, D: "xt", Rel: 5}},
		},
		c12ManyLocks(false), c12ManyLocks(true),
	}
}

// c12ManyLocks: one account commits the same denom under a lock many times without ever withdrawing (the lock-up list only shrinks on a
// withdrawal), then tries to take out what it committed last while that lock is still running; then waits it out
func c12ManyLocks(pool bool) c12Hist {
	var ops []c12Op
	for i := 0; i < 13; i++ {
		if pool {
			ops = append(ops, c12Op{Op: "join", Acct: 2, D: "p1", Amt: fmt.Sprint(1_000_000 + 1000*i)}, c12Op{Op: "blocks", Dt: 4000})
		} else {
			ops = append(ops, c12Op{Op: "k_commit", Acct: 3, D: "xt", Amt: fmt.Sprint(100 + i), Lock: 600}, c12Op{Op: "blocks", Dt: 700})
		}
	}
	if pool {
		ops = append(ops, c12Op{Op: "join", Acct: 2, D: "p1", Amt: "2000000"}, c12Op{Op: "blocks", Dt: 600}, c12Op{Op: "exit", Acct: 2, D: "p1", Rel: 5},
			c12Op{Op: "exit", Acct: 2, D: "p1", Rel: 4}, c12Op{Op: "blocks", Dt: -3}, c12Op{Op: "exit", Acct: 2, D: "p1", Rel: 5})
	} else {
		ops = append(ops, c12Op{Op: "k_commit", Acct: 3, D: "xt", Amt: "5000", Lock: 600}, c12Op{Op: "blocks", Dt: 60}, c12Op{Op: "k_uncommit", Acct: 3, D: "xt", Rel: 5},
			c12Op{Op: "k_uncommit", Acct: 3, D: "xt", Amt: "5000"}, c12Op{Op: "blocks", Dt: -3}, c12Op{Op: "k_uncommit", Acct: 3, D: "xt", Rel: 5})
	}
	return c12Hist{Ops: ops}
}
