package harness

// C08 trace emission: which leveraged-LP positions changed in a step (from the position store before
// and after), as (pool, LOpen / LClose) operations of coq/Models/LevLedgerMulti.v, plus EVERY leveraged-LP pool's recorded
// total, the module's open counter and, for every touched or stored position, its pool, its amount and the shares
// committed at its address.

import (
	"fmt"
	"sort"
	"strings"

	sdkmath "cosmossdk.io/math"
	ammtypes "github.com/elys-network/elys/x/amm/types"
	levtypes "github.com/elys-network/elys/x/leveragelp/types"
)

type c08Tracer struct {
	x      *lRun
	ids    map[string]int
	prev   map[string]levtypes.Position
	steps  []string
	closes int
	opens  int
}

func newC08Tracer(x *lRun) *c08Tracer {
	return &c08Tracer{x: x, ids: map[string]int{}, prev: map[string]levtypes.Position{}}
}

func (c *c08Tracer) key(p levtypes.Position) string { return fmt.Sprintf("%s/%d", p.Address, p.Id) }

func (c *c08Tracer) id(k string) int {
	if v, ok := c.ids[k]; ok {
		return v
	}
	c.ids[k] = len(c.ids)
	return c.ids[k]
}

func (c *c08Tracer) step() {
	w := c.x.w
	ctx := w.QCtx()
	cur := map[string]levtypes.Position{}
	for _, p := range w.App.LeveragelpKeeper.GetAllPositions(ctx) {
		cur[c.key(p)] = p
	}
	touched := map[string]bool{}
	var ops []string
	var ks []string
	for k := range cur {
		ks = append(ks, k)
	}
	for k := range c.prev {
		if _, ok := cur[k]; !ok {
			ks = append(ks, k)
		}
	}
	sort.Strings(ks)
	for _, k := range ks {
		before, had := c.prev[k]
		after, has := cur[k]
		b, a := sdkmath.ZeroInt(), sdkmath.ZeroInt()
		if had {
			b = before.LeveragedLpAmount
		}
		if has {
			a = after.LeveragedLpAmount
		}
		switch {
		case a.GT(b):
			ops = append(ops, fmt.Sprintf("(%d%%nat, LOpen %d %s)", c01PoolIdx(c.x.m, after.AmmPoolId), c.id(k), zstr(a.Sub(b).BigInt())))
			touched[k] = true
			c.opens++
		case a.LT(b):
			ref := before
			if has {
				ref = after
			}
			ops = append(ops, fmt.Sprintf("(%d%%nat, LClose %d %s)", c01PoolIdx(c.x.m, ref.AmmPoolId), c.id(k), zstr(b.Sub(a).BigInt())))
			touched[k] = true
			c.closes++
		}
	}
	var totals []string
	for _, lp := range w.App.LeveragelpKeeper.GetAllPools(ctx) {
		totals = append(totals, fmt.Sprintf("(%d%%nat,%s)", c01PoolIdx(c.x.m, lp.AmmPoolId), zstr(lp.LeveragedLpAmount.BigInt())))
	}
	var pos []string
	for _, k := range ks {
		p, has := cur[k]
		ref := p
		if !has {
			ref = c.prev[k]
		}
		amt := sdkmath.ZeroInt()
		if has {
			amt = p.LeveragedLpAmount
		}
		cmts := w.App.CommitmentKeeper.GetCommitments(ctx, ref.GetPositionAddress())
		cm := cmts.GetCommittedAmountForDenom(ammtypes.GetPoolShareDenom(ref.AmmPoolId))
		pos = append(pos, fmt.Sprintf("(%d%%nat,%d%%nat,%s,%s)", c01PoolIdx(c.x.m, ref.AmmPoolId), c.id(k), zstr(amt.BigInt()), zstr(cm.BigInt())))
	}
	c.steps = append(c.steps, fmt.Sprintf("([%s], mkMLO [%s] %d [%s])", strings.Join(ops, ";"), strings.Join(totals, ";"),
		w.App.LeveragelpKeeper.GetOpenPositionCount(ctx), strings.Join(pos, ";")))
	c.prev = cur
}

func (c *c08Tracer) caseText(id int) string {
	return fmt.Sprintf("mkMLevC %d [\n  %s]", id, strings.Join(c.steps, ";\n  "))
}
