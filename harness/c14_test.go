package harness

// C14 driver: vest / vest-liquid / claim / cancel / vest-now / governance updates of BOTH vesting infos
// (ueden -> uelys and the bank-held uusdc -> uusdc) on the real application at adversarial heights; emits (a) the Coq cases for the correspondence with Models/Vesting.v and
// (b) the property's own predicate evaluated on the implementation (independent of the model).

import (
	"fmt"
	"math/big"
	"strings"
	"testing"

	sdkmath "cosmossdk.io/math"
	sdk "github.com/cosmos/cosmos-sdk/types"
	authtypes "github.com/cosmos/cosmos-sdk/x/auth/types"

	atypes "github.com/elys-network/elys/x/assetprofile/types"
	ctypes "github.com/elys-network/elys/x/commitment/types"
)

type c14Op struct {
	Op   string `json:"op"` // vest vest_liquid claim cancel vest_now gov gov_liquid enable_now blocks
	Acct int    `json:"acct,omitempty"`
	Amt  string `json:"amt,omitempty"`
	N    int64  `json:"n,omitempty"`   // gov: NumBlocks ; blocks: how many
	Max  int64  `json:"max,omitempty"` // gov: NumMaxVestings
	F    int64  `json:"f,omitempty"`   // gov: VestNowFactor
	On   bool   `json:"on,omitempty"`
	Bad  bool   `json:"bad,omitempty"` // cancel: msg.Denom = uusdc (always refused)
}

type c14Hist struct {
	ID   int      `json:"id"`
	N    int64    `json:"num_blocks"`
	Max  int64    `json:"max_vestings"`
	F    int64    `json:"factor"`
	Now  bool     `json:"vest_now_enabled"`
	Eden []string `json:"eden"` // initial claimable Eden per account
	Elys []string `json:"elys"` // initial uelys balance per account
	Usdc []string `json:"usdc"` // initial uusdc balance per account (absent = 0)
	// second vesting info uusdc -> uusdc, added by the real governance message before the first op when Liquid
	Liquid bool    `json:"liquid,omitempty"`
	LN     int64   `json:"liquid_num_blocks,omitempty"`
	LMax   int64   `json:"liquid_max_vestings,omitempty"`
	Ops    []c14Op `json:"ops"`
	Final  bool    `json:"final_drain"` // run the drain phase (advance past every schedule, claim)
}

const c14Accts = 3
const c14Liq = "uusdc"

// c14Shape prepends a directed prefix on account 0 that builds one list shape in which a skipped entry (other
// vesting denom, or a zero-block ELYS schedule) sits BEFORE an ELYS schedule that a cancel then touches, and
// cancels from it partially / fully and claims from it.
func c14Shape(r *Rng, h *c14Hist) {
	h.Liquid = true
	h.Max, h.LMax = 10000, 10000
	if h.N < 3 {
		h.N = r.Pick(5, 7, 16, 40)
	}
	h.Eden[0] = r.Decade(3, 26).String()
	h.Usdc[0] = r.Decade(3, 20).String()
	vl := func() c14Op { return c14Op{Op: "vest_liquid", Acct: 0, Amt: fmt.Sprintf("rel:%d", r.Pick(1, 2, 2, 3))} }
	ve := func() c14Op { return c14Op{Op: "vest", Acct: 0, Amt: fmt.Sprintf("rel:%d", r.Pick(1, 2, 2, 3))} }
	bl := func() c14Op { return c14Op{Op: "blocks", N: r.Pick(1, 1, 2, 3)} }
	var ops []c14Op
	zeroClaimOK := true
	switch r.Intn(6) {
	case 0: // [usdc, elys]
		ops = append(ops, vl(), bl(), ve())
	case 1: // [elys, usdc, elys]
		ops = append(ops, ve(), vl(), bl(), ve())
	case 2: // [zero-block elys, elys]: governance sets NumBlocks 0 and back
		ops = append(ops, c14Op{Op: "gov", N: 0, Max: 10000, F: h.F}, ve(), c14Op{Op: "gov", N: h.N, Max: 10000, F: h.F}, ve())
		zeroClaimOK = false
	case 3: // [usdc, usdc, elys]
		ops = append(ops, vl(), vl(), bl(), ve())
	case 4: // [zero-block usdc, elys, usdc]
		ops = append(ops, c14Op{Op: "gov_liquid", N: 0, Max: 10000, F: 1}, vl(), ve(), c14Op{Op: "gov_liquid", N: r.Pick(2, 5, 9), Max: 10000, F: 1}, vl())
		zeroClaimOK = false
	default: // [elys, zero-block elys, usdc, elys]
		ops = append(ops, ve(), c14Op{Op: "gov", N: 0, Max: 10000, F: h.F}, ve(), vl(), c14Op{Op: "gov", N: h.N, Max: 10000, F: h.F}, ve())
		zeroClaimOK = false
	}
	ops = append(ops, bl())
	if r.Chance(50) && (zeroClaimOK || r.Chance(25)) { // a claim pays a zero-block entry away: mostly cancel first
		ops = append(ops, c14Op{Op: "claim", Acct: 0}, bl())
	}
	// partial / newest-only / everything / everything-1 / too much
	ops = append(ops, c14Op{Op: "cancel", Acct: 0, Amt: fmt.Sprintf("rel:%d", r.Pick(1, 2, 3, 7, 7, 4, 5, 5, 6))})
	ops = append(ops, c14Op{Op: "claim", Acct: 0})
	if r.Chance(60) {
		ops = append(ops, bl(), c14Op{Op: "cancel", Acct: 0, Amt: fmt.Sprintf("rel:%d", r.Pick(2, 3, 7, 5))}, c14Op{Op: "claim", Acct: 0})
	}
	h.Ops = append(ops, h.Ops...)
}

func c14Gen(r *Rng, id int) c14Hist {
	h := c14Hist{ID: id, Final: true}
	h.N = r.Pick(1, 2, 3, 5, 7, 10, 16, 31, 40)
	h.Max = r.Pick(1, 2, 3, 5, 10000, 10000)
	h.F = r.Pick(1, 2, 3, 7, 90, 1000)
	h.Now = r.Chance(60)
	for i := 0; i < c14Accts; i++ {
		h.Eden = append(h.Eden, r.Decade(0, 26).String())
		if r.Chance(50) {
			h.Elys = append(h.Elys, "0")
		} else {
			h.Elys = append(h.Elys, r.Decade(0, 20).String())
		}
		if r.Chance(15) {
			h.Usdc = append(h.Usdc, "0")
		} else {
			h.Usdc = append(h.Usdc, r.Decade(0, 22).String())
		}
	}
	h.Liquid = r.Chance(75)
	h.LN = r.Pick(0, 1, 2, 3, 5, 8, 13, 40)
	h.LMax = r.Pick(1, 2, 3, 5, 10000, 10000)
	n := 25 + r.Intn(30)
	for k := 0; k < n; k++ {
		x := r.Intn(100)
		a := r.Intn(c14Accts)
		switch {
		case x < 19:
			h.Ops = append(h.Ops, c14Op{Op: "vest", Acct: a, Amt: fmt.Sprintf("rel:%d", r.Intn(7))})
		case x < 31:
			h.Ops = append(h.Ops, c14Op{Op: "vest_liquid", Acct: a, Amt: fmt.Sprintf("rel:%d", r.Intn(7))})
		case x < 54:
			h.Ops = append(h.Ops, c14Op{Op: "claim", Acct: a})
		case x < 70:
			h.Ops = append(h.Ops, c14Op{Op: "cancel", Acct: a, Amt: fmt.Sprintf("rel:%d", r.Intn(8)), Bad: r.Chance(6)})
		case x < 76:
			h.Ops = append(h.Ops, c14Op{Op: "vest_now", Acct: a, Amt: fmt.Sprintf("rel:%d", r.Intn(7))})
		case x < 80:
			h.Ops = append(h.Ops, c14Op{Op: "gov", N: r.Pick(1, 2, 4, 9, 25, 0, 0), Max: r.Pick(0, 1, 3, 10000, 10000), F: r.Pick(1, 3, 90, 2, 7, 0, -1)})
		case x < 83:
			h.Ops = append(h.Ops, c14Op{Op: "gov_liquid", N: r.Pick(0, 0, 1, 3, 6, 20, -1), Max: r.Pick(0, 2, 4, 10000, 10000), F: r.Pick(1, 1, 5, 0)})
		case x < 85:
			h.Ops = append(h.Ops, c14Op{Op: "enable_now", On: r.Chance(70)})
		default:
			h.Ops = append(h.Ops, c14Op{Op: "blocks", N: r.Pick(1, 1, 1, 2, 3, -1, -2, -3, -4)}) // negative: relative to NumBlocks
		}
	}
	if r.Chance(35) {
		c14Shape(r, &h)
	}
	return h
}

type c14Run struct {
	w     *World
	addrs []sdk.AccAddress
	// independent bookkeeping for the implementation-side predicate
	vestedIn, released, returned []*big.Int
	vestedIn1, released1, usdc0  []*big.Int // the liquid denom: put into vesting, released, initial wallet
	mod                          sdk.AccAddress
}

func c14Den(denom string) int {
	switch denom {
	case "uelys":
		return 0
	case c14Liq:
		return 1
	}
	return 2
}
func (x *c14Run) usdc(i int) *big.Int { return x.w.Bal(x.addrs[i], c14Liq).BigInt() }
func (x *c14Run) modUsdc() *big.Int   { return x.w.Bal(x.mod, c14Liq).BigInt() }

// not yet released by the entries of one vesting denom
func (x *c14Run) outD(i int, denom string) *big.Int {
	s := new(big.Int)
	for _, v := range x.entries(i) {
		if v.Denom == denom {
			s.Add(s, new(big.Int).Sub(v.TotalAmount.BigInt(), v.ClaimedAmount.BigInt()))
		}
	}
	return s
}

func c14EntryStr(v *ctypes.VestingTokens) string {
	return fmt.Sprintf("%s:%s/%s@%d+%d", v.Denom, v.ClaimedAmount, v.TotalAmount, v.StartBlock, v.NumBlocks)
}

// the entries a cancel must not touch: another vesting denom, zero blocks, zero total (in list order)
func c14Skipped(es []*ctypes.VestingTokens) (other, zero []string) {
	for _, v := range es {
		if v.Denom != "uelys" {
			other = append(other, c14EntryStr(v))
		} else if v.NumBlocks == 0 || v.TotalAmount.IsZero() {
			zero = append(zero, c14EntryStr(v))
		}
	}
	return
}

func (x *c14Run) eden(i int) *big.Int {
	c := x.w.App.CommitmentKeeper.GetCommitments(x.w.QCtx(), x.addrs[i])
	return c.Claimed.AmountOf("ueden").BigInt()
}
func (x *c14Run) elys(i int) *big.Int { return x.w.Bal(x.addrs[i], "uelys").BigInt() }
func (x *c14Run) entries(i int) []*ctypes.VestingTokens {
	return x.w.App.CommitmentKeeper.GetCommitments(x.w.QCtx(), x.addrs[i]).VestingTokens
}
func (x *c14Run) outstanding(i int) *big.Int { return x.outD(i, "uelys") }

func (x *c14Run) obs(kind string, i int) string {
	k := map[string]int{"ok": 0, "err": 1, "panic": 2}[kind]
	var vs []string
	for _, v := range x.entries(i) {
		vs = append(vs, fmt.Sprintf("(%s,%s,%d,%d,%d)", zstr(v.TotalAmount.BigInt()), zstr(v.ClaimedAmount.BigInt()), v.StartBlock, v.NumBlocks, c14Den(v.Denom)))
	}
	return fmt.Sprintf("mkO %d %d %s %s %s %s [%s]", k, i, zstr(x.eden(i)), zstr(x.elys(i)), zstr(x.usdc(i)), zstr(x.modUsdc()), strings.Join(vs, ";"))
}

func relAmount(r int, base *big.Int) *big.Int {
	switch r {
	case 0:
		return big.NewInt(1)
	case 1:
		return new(big.Int).Div(base, big.NewInt(1000))
	case 2:
		return new(big.Int).Div(base, big.NewInt(3))
	case 3:
		return new(big.Int).Div(base, big.NewInt(2))
	case 4:
		return new(big.Int).Sub(base, big.NewInt(1))
	case 5:
		return new(big.Int).Set(base)
	case 6:
		return new(big.Int).Add(base, big.NewInt(1))
	default:
		return new(big.Int).Mul(base, big.NewInt(2))
	}
}

// c14Exec runs one history; returns the Coq case text.
func c14Exec(t *testing.T, col *Collector, h c14Hist) string {
	w := NewWorld(t)
	x := &c14Run{w: w, mod: authtypes.NewModuleAddress(ctypes.ModuleName)}
	for len(h.Usdc) < c14Accts { // histories stored before the liquid denom existed
		h.Usdc = append(h.Usdc, "0")
	}
	fail := func(step int, sig, detail string) {
		col.Violate(Violation{Signature: sig, Detail: detail, History: h.ID, Step: step, Replay: h})
	}
	// fixture: governance sets the vesting info through the real handler
	if r := w.Deliver(&ctypes.MsgUpdateVestingInfo{Authority: w.Gov, BaseDenom: "ueden", VestingDenom: "uelys", NumBlocks: h.N, VestNowFactor: h.F, NumMaxVestings: h.Max}); !r.OK() {
		t.Fatalf("fixture gov: %v %v", r.Err, r.Panic)
	}
	if r := w.Deliver(&ctypes.MsgUpdateEnableVestNow{Authority: w.Gov, EnableVestNow: h.Now}); !r.OK() {
		t.Fatalf("fixture enable: %v %v", r.Err, r.Panic)
	}
	// the liquid denom can be deposited into the commitment module (asset profile, fixture)
	w.App.AssetprofileKeeper.SetEntry(w.Ctx(), atypes.Entry{BaseDenom: c14Liq, Denom: c14Liq, Decimals: 6, DisplayName: "USDC", CommitEnabled: true, WithdrawEnabled: true})
	var inits []string
	for i := 0; i < c14Accts; i++ {
		a := Addr(100*h.ID%250 + i) // distinct per account; worlds are separate anyway
		x.addrs = append(x.addrs, a)
		eden, _ := new(big.Int).SetString(h.Eden[i], 10)
		elys, _ := new(big.Int).SetString(h.Elys[i], 10)
		ctx := w.Ctx()
		c := w.App.CommitmentKeeper.GetCommitments(ctx, a)
		c.AddClaimed(sdk.NewCoin("ueden", sdkmath.NewIntFromBigInt(eden)))
		w.App.CommitmentKeeper.SetCommitments(ctx, c)
		if elys.Sign() > 0 {
			w.Mint(a, sdk.NewCoins(sdk.NewCoin("uelys", sdkmath.NewIntFromBigInt(elys))))
		}
		usdc, _ := new(big.Int).SetString(h.Usdc[i], 10)
		if usdc.Sign() > 0 {
			w.Mint(a, sdk.NewCoins(sdk.NewCoin(c14Liq, sdkmath.NewIntFromBigInt(usdc))))
		}
		inits = append(inits, fmt.Sprintf("(%s,%s,%s)", zstr(eden), zstr(elys), zstr(usdc)))
		x.vestedIn = append(x.vestedIn, new(big.Int))
		x.released = append(x.released, new(big.Int))
		x.returned = append(x.returned, new(big.Int))
		x.vestedIn1 = append(x.vestedIn1, new(big.Int))
		x.released1 = append(x.released1, new(big.Int))
		x.usdc0 = append(x.usdc0, usdc)
	}
	curN, curF := h.N, h.F
	var steps []string
	if h.Liquid {
		// the second vesting info, through the real governance message (replayed by the model as its first step)
		r := w.Deliver(&ctypes.MsgUpdateVestingInfo{Authority: w.Gov, BaseDenom: c14Liq, VestingDenom: c14Liq, NumBlocks: h.LN, VestNowFactor: 1, NumMaxVestings: h.LMax})
		if !r.OK() {
			t.Fatalf("fixture gov liquid: %v %v", r.Err, r.Panic)
		}
		steps = append(steps, fmt.Sprintf("(OGovL %d %d 1, %s)", h.LN, h.LMax, x.obs("ok", 0)))
	}
	nontrivial := false
	var fp strings.Builder
	for k, op := range h.Ops {
		height := w.Height + 1
		var res TxResult
		var coq string
		var amt *big.Int
		i := op.Acct
		switch op.Op {
		case "blocks":
			n := op.N
			if n < 0 { // relative to the current NumBlocks: N/2, N-1, N, N+1
				switch n {
				case -1:
					n = curN / 2
				case -2:
					n = curN - 1
				case -3:
					n = curN
				default:
					n = curN + 1
				}
			}
			if n < 1 {
				n = 1
			}
			for j := int64(0); j < n; j++ {
				if err := w.EndBlock(5); err != nil {
					fail(k, "C14:block-failed", err.Error())
					return ""
				}
			}
			col.Op("blocks", "ok", nil)
			continue
		case "vest":
			var rel int
			fmt.Sscanf(op.Amt, "rel:%d", &rel)
			amt = relAmount(rel, x.eden(i))
			before := x.elys(i)
			res = w.Deliver(&ctypes.MsgVest{Creator: x.addrs[i].String(), Amount: sdkmath.NewIntFromBigInt(amt), Denom: "ueden"})
			coq = fmt.Sprintf("OVest %d %d %s", i, height, zstr(amt))
			if res.OK() {
				x.vestedIn[i].Add(x.vestedIn[i], amt)
				nontrivial = true
			}
			if x.elys(i).Cmp(before) != 0 {
				fail(k, "C14:vest-moved-elys", "vest changed the ELYS balance")
			}
		case "vest_liquid":
			var rel int
			fmt.Sscanf(op.Amt, "rel:%d", &rel)
			amt = relAmount(rel, x.usdc(i))
			elysBefore, edenBefore, usdcBefore, modBefore, nBefore := x.elys(i), x.eden(i), x.usdc(i), x.modUsdc(), len(x.entries(i))
			res = w.Deliver(&ctypes.MsgVestLiquid{Creator: x.addrs[i].String(), Amount: sdkmath.NewIntFromBigInt(amt), Denom: c14Liq})
			coq = fmt.Sprintf("OVestLiquid %d %d %s", i, height, zstr(amt))
			if res.OK() {
				x.vestedIn1[i].Add(x.vestedIn1[i], amt)
				nontrivial = true
				if new(big.Int).Sub(usdcBefore, x.usdc(i)).Cmp(amt) != 0 || new(big.Int).Sub(x.modUsdc(), modBefore).Cmp(amt) != 0 {
					fail(k, "C14:vest-liquid-not-moved-to-module", fmt.Sprintf("vest-liquid of %s: wallet %s -> %s, module %s -> %s", amt, usdcBefore, x.usdc(i), modBefore, x.modUsdc()))
				}
				es := x.entries(i)
				if len(es) != nBefore+1 || es[len(es)-1].Denom != c14Liq || es[len(es)-1].TotalAmount.BigInt().Cmp(amt) != 0 || !es[len(es)-1].ClaimedAmount.IsZero() {
					fail(k, "C14:vest-liquid-entry", "vest-liquid did not append one schedule of the liquid denom with the amount")
				}
			}
			if x.elys(i).Cmp(elysBefore) != 0 || x.eden(i).Cmp(edenBefore) != 0 {
				fail(k, "C14:vest-liquid-moved-elys-or-eden", "vest-liquid changed the ELYS balance or the claimable Eden")
			}
		case "claim":
			before := x.elys(i)
			outBefore := x.outstanding(i)
			usdcBefore, out1Before, modBefore := x.usdc(i), x.outD(i, c14Liq), x.modUsdc()
			res = w.Deliver(&ctypes.MsgClaimVesting{Sender: x.addrs[i].String()})
			coq = fmt.Sprintf("OClaim %d %d", i, height)
			after := x.elys(i)
			d := new(big.Int).Sub(after, before)
			if !res.OK() {
				// the property: claiming what has vested always succeeds
				why := fmt.Sprint(res.Err, res.Panic)
				sig := "C14:claim-fails"
				if strings.Contains(why, "negative coin amount") {
					sig = "C14:claim-after-cancel-negative-coin"
				} else if strings.Contains(why, "division by zero") {
					sig = "C14:claim-numblocks-zero"
				}
				fail(k, sig, "ClaimVesting failed: "+why)
			} else {
				if d.Sign() < 0 {
					fail(k, "C14:claim-negative-release", "claim decreased the owner's ELYS")
				}
				x.released[i].Add(x.released[i], d)
				if new(big.Int).Sub(outBefore, x.outstanding(i)).Cmp(d) != 0 {
					fail(k, "C14:claim-release-neq-claimed-delta", fmt.Sprintf("released %s but outstanding moved %s -> %s", d, outBefore, x.outstanding(i)))
				}
				// every denom is paid its own: the liquid wallet gets exactly the drop of the liquid schedules, out of the module
				d1 := new(big.Int).Sub(x.usdc(i), usdcBefore)
				x.released1[i].Add(x.released1[i], d1)
				if d1.Sign() < 0 || new(big.Int).Sub(out1Before, x.outD(i, c14Liq)).Cmp(d1) != 0 || new(big.Int).Sub(modBefore, x.modUsdc()).Cmp(d1) != 0 {
					fail(k, "C14:claim-liquid-release-neq-claimed-delta", fmt.Sprintf("liquid wallet moved %s, liquid schedules %s -> %s, module %s -> %s", d1, out1Before, x.outD(i, c14Liq), modBefore, x.modUsdc()))
				}
				if d.Sign() > 0 || d1.Sign() > 0 {
					nontrivial = true
				}
			}
		case "cancel":
			var rel int
			fmt.Sscanf(op.Amt, "rel:%d", &rel)
			base := x.outstanding(i)
			if rel == 7 { // relative to the newest entry only
				es := x.entries(i)
				if len(es) > 0 {
					e := es[len(es)-1]
					base = new(big.Int).Sub(e.TotalAmount.BigInt(), e.ClaimedAmount.BigInt())
				}
				rel = 5
			}
			amt = relAmount(rel, base)
			edenBefore, elysBefore, outBefore := x.eden(i), x.elys(i), x.outstanding(i)
			usdcBefore, out1Before := x.usdc(i), x.outD(i, c14Liq)
			esBefore := x.entries(i)
			otherBefore, zeroBefore := c14Skipped(esBefore)
			cdenom, cd := "ueden", 0
			if op.Bad {
				cdenom, cd = c14Liq, 1
			}
			res = w.Deliver(&ctypes.MsgCancelVest{Creator: x.addrs[i].String(), Amount: sdkmath.NewIntFromBigInt(amt), Denom: cdenom})
			coq = fmt.Sprintf("OCancel %d %d %s", i, cd, zstr(amt))
			if res.OK() {
				nontrivial = true
				// shape statistics: did the cancel run over a list in which a skipped entry stands in front of a running ELYS schedule?
				seenSkipped, over := false, false
				for _, e := range esBefore {
					if e.Denom != "uelys" || e.NumBlocks == 0 || e.TotalAmount.IsZero() {
						seenSkipped = true
					} else if seenSkipped {
						over = true
					}
				}
				if over {
					col.Op("cancel_list_with_skipped_entry_in_front", "ok", nil)
				}
				// a cancel touches only the running ELYS schedules: every other entry is still there, unchanged, in order
				otherAfter, zeroAfter := c14Skipped(x.entries(i))
				if strings.Join(otherAfter, ",") != strings.Join(otherBefore, ",") {
					fail(k, "C14:cancel-changed-other-entry", fmt.Sprintf("entries of other vesting denoms before [%s] after [%s]", strings.Join(otherBefore, ","), strings.Join(otherAfter, ",")))
				}
				if strings.Join(zeroAfter, ",") != strings.Join(zeroBefore, ",") {
					fail(k, "C14:cancel-changed-other-entry", fmt.Sprintf("zero-block ELYS entries before [%s] after [%s]", strings.Join(zeroBefore, ","), strings.Join(zeroAfter, ",")))
				}
				if x.usdc(i).Cmp(usdcBefore) != 0 || x.outD(i, c14Liq).Cmp(out1Before) != 0 {
					fail(k, "C14:cancel-moved-liquid", "cancel changed the liquid wallet or what the liquid schedules still hold")
				}
				x.returned[i].Add(x.returned[i], amt)
				if new(big.Int).Sub(x.eden(i), edenBefore).Cmp(amt) != 0 {
					fail(k, "C14:cancel-eden-returned-neq-amount", "cancel did not return exactly the cancelled Eden")
				}
				if new(big.Int).Sub(outBefore, x.outstanding(i)).Cmp(amt) != 0 {
					fail(k, "C14:cancel-outstanding-neq-amount", "cancel did not take exactly the amount out of the unreleased part")
				}
				if x.elys(i).Cmp(elysBefore) != 0 {
					fail(k, "C14:cancel-moved-elys", "cancel changed the ELYS balance")
				}
			}
		case "vest_now":
			var rel int
			fmt.Sscanf(op.Amt, "rel:%d", &rel)
			amt = relAmount(rel, x.eden(i))
			edenBefore, elysBefore := x.eden(i), x.elys(i)
			res = w.Deliver(&ctypes.MsgVestNow{Creator: x.addrs[i].String(), Amount: sdkmath.NewIntFromBigInt(amt), Denom: "ueden"})
			coq = fmt.Sprintf("OVestNow %d %s", i, zstr(amt))
			if res.OK() {
				nontrivial = true
				want := new(big.Int).Quo(amt, big.NewInt(curF))
				if new(big.Int).Sub(x.elys(i), elysBefore).Cmp(want) != 0 {
					fail(k, "C14:vest-now-payout", fmt.Sprintf("vest-now paid %s, want %s", new(big.Int).Sub(x.elys(i), elysBefore), want))
				}
				if new(big.Int).Sub(edenBefore, x.eden(i)).Cmp(amt) != 0 {
					fail(k, "C14:vest-now-debit", "vest-now did not debit exactly the amount")
				}
			}
		case "gov":
			i = 0
			res = w.Deliver(&ctypes.MsgUpdateVestingInfo{Authority: w.Gov, BaseDenom: "ueden", VestingDenom: "uelys", NumBlocks: op.N, VestNowFactor: op.F, NumMaxVestings: op.Max})
			coq = fmt.Sprintf("OGov %s %s %s", zstr(bi(op.N)), zstr(bi(op.Max)), zstr(bi(op.F)))
			if res.OK() {
				curN, curF = op.N, op.F
			}
		case "gov_liquid":
			i = 0
			res = w.Deliver(&ctypes.MsgUpdateVestingInfo{Authority: w.Gov, BaseDenom: c14Liq, VestingDenom: c14Liq, NumBlocks: op.N, VestNowFactor: op.F, NumMaxVestings: op.Max})
			coq = fmt.Sprintf("OGovL %s %s %s", zstr(bi(op.N)), zstr(bi(op.Max)), zstr(bi(op.F)))
		case "enable_now":
			i = 0
			res = w.Deliver(&ctypes.MsgUpdateEnableVestNow{Authority: w.Gov, EnableVestNow: op.On})
			coq = fmt.Sprintf("OEnableNow %v", op.On)
		default:
			t.Fatalf("unknown op %q", op.Op)
		}
		col.Op(op.Op, res.Kind(), amt)
		fmt.Fprintf(&fp, "%s:%s:%d;", op.Op, res.Kind(), i)
		steps = append(steps, fmt.Sprintf("(%s, %s)", coq, x.obs(res.Kind(), i)))
		// conservation on the implementation, from the harness's own bookkeeping
		custody := new(big.Int)
		for j := 0; j < c14Accts; j++ {
			lhs := x.vestedIn[j]
			rhs := new(big.Int).Add(x.released[j], x.returned[j])
			rhs.Add(rhs, x.outstanding(j))
			if lhs.Cmp(rhs) != 0 {
				fail(k, "C14:conservation", fmt.Sprintf("acct %d: vested-in %s != released %s + returned %s + outstanding %s", j, lhs, x.released[j], x.returned[j], x.outstanding(j)))
			}
			for _, e := range x.entries(j) {
				if e.ClaimedAmount.GT(e.TotalAmount) || e.ClaimedAmount.IsNegative() {
					fail(k, "C14:claimed-exceeds-total", fmt.Sprintf("acct %d entry claimed %s total %s", j, e.ClaimedAmount, e.TotalAmount))
				}
				if c14Den(e.Denom) == 2 {
					fail(k, "C14:unknown-vesting-denom", e.Denom)
				}
			}
			// the same for the liquid denom, and the wallet: nothing appears, nothing is lost
			out1 := x.outD(j, c14Liq)
			if x.vestedIn1[j].Cmp(new(big.Int).Add(x.released1[j], out1)) != 0 {
				fail(k, "C14:conservation-liquid", fmt.Sprintf("acct %d: liquid vested-in %s != released %s + outstanding %s", j, x.vestedIn1[j], x.released1[j], out1))
			}
			if new(big.Int).Add(x.usdc(j), out1).Cmp(x.usdc0[j]) != 0 {
				fail(k, "C14:liquid-wallet-plus-vesting-neq-initial", fmt.Sprintf("acct %d: wallet %s + outstanding %s != initial %s", j, x.usdc(j), out1, x.usdc0[j]))
			}
			custody.Add(custody, out1)
			if c := x.w.App.CommitmentKeeper.GetCommitments(x.w.QCtx(), x.addrs[j]).Claimed.AmountOf(c14Liq); !c.IsZero() {
				fail(k, "C14:liquid-claimed-bucket-nonzero", fmt.Sprintf("acct %d: Claimed[%s] = %s after the tx", j, c14Liq, c))
			}
		}
		// the module holds exactly what the liquid schedules of all accounts still owe
		if custody.Cmp(x.modUsdc()) != 0 {
			fail(k, "C14:module-custody-neq-liquid-outstanding", fmt.Sprintf("module holds %s %s, liquid schedules owe %s", x.modUsdc(), c14Liq, custody))
		}
		col.ImplCheck(2*c14Accts + 1)
		if r := k % 3; r == 0 {
			if err := w.EndBlock(5); err != nil {
				fail(k, "C14:block-failed", err.Error())
				return ""
			}
		}
	}
	if h.Final {
		// drain: advance past every schedule; every account's claim must release all that is outstanding
		maxEnd := int64(0)
		for j := 0; j < c14Accts; j++ {
			for _, e := range x.entries(j) {
				if end := e.StartBlock + e.NumBlocks; end > maxEnd {
					maxEnd = end
				}
			}
		}
		for w.Height+1 < maxEnd {
			if err := w.EndBlock(5); err != nil {
				fail(len(h.Ops), "C14:block-failed", err.Error())
				return ""
			}
		}
		for j := 0; j < c14Accts; j++ {
			height := w.Height + 1
			before, out := x.elys(j), x.outstanding(j)
			before1, out1 := x.usdc(j), x.outD(j, c14Liq)
			res := w.Deliver(&ctypes.MsgClaimVesting{Sender: x.addrs[j].String()})
			col.Op("claim_final", res.Kind(), nil)
			if !res.OK() {
				fail(len(h.Ops), "C14:final-claim-fails", fmt.Sprint(res.Err, res.Panic))
			} else {
				d := new(big.Int).Sub(x.elys(j), before)
				if d.Cmp(out) != 0 || len(x.entries(j)) != 0 {
					fail(len(h.Ops), "C14:not-complete-at-end", fmt.Sprintf("acct %d: released %s of outstanding %s, %d entries left", j, d, out, len(x.entries(j))))
				}
				x.released[j].Add(x.released[j], d)
				d1 := new(big.Int).Sub(x.usdc(j), before1)
				if d1.Cmp(out1) != 0 || x.usdc(j).Cmp(x.usdc0[j]) != 0 {
					fail(len(h.Ops), "C14:liquid-not-complete-at-end", fmt.Sprintf("acct %d: liquid released %s of outstanding %s; wallet %s, initial %s", j, d1, out1, x.usdc(j), x.usdc0[j]))
				}
			}
			steps = append(steps, fmt.Sprintf("(OClaim %d %d, %s)", j, height, x.obs(res.Kind(), j)))
			col.ImplCheck(2)
		}
		if x.modUsdc().Sign() != 0 {
			fail(len(h.Ops), "C14:module-custody-neq-liquid-outstanding", fmt.Sprintf("after every schedule was paid out the module still holds %s %s", x.modUsdc(), c14Liq))
		}
	}
	col.Distinct(fp.String(), nontrivial)
	col.Sample(h)
	return fmt.Sprintf("mkC %d (mkP %d %d %d %v) [%s] [\n  %s]", h.ID, h.N, h.Max, h.F, h.Now,
		strings.Join(inits, ";"), strings.Join(steps, ";\n  "))
}

func TestC14(t *testing.T) {
	seed := envInt("VERIF_SEED", 1)
	col := NewCollector("C14", seed)
	n := 96
	if tier() == "thorough" {
		n = 1500
	}
	n = int(envInt("VERIF_N", int64(n)))
	var hists []c14Hist
	var one c14Hist
	if loadReplay(&one) {
		hists = []c14Hist{one}
	} else {
		hists = append(hists, c14Corpus()...)
		for i := len(hists); i < n; i++ {
			hists = append(hists, c14Gen(NewRng(uint64(seed), uint64(i)), i))
		}
	}
	RunParallel(len(hists), func(i int) {
		h := hists[i]
		h.ID = i
		if txt := c14Exec(t, col, h); txt != "" {
			col.Case(i, txt)
		}
	})
	header := "From Coq Require Import ZArith List Bool.\nFrom Elys Require Import Base.Res Models.Vesting Run.VestingRun.\nImport ListNotations.\nOpen Scope Z_scope.\n"
	footer := "Definition M := Eval vm_compute in mismatches true cases.\nPrint M.\n"
	col.Finish(t, len(hists), header, footer, 300)
}

// corpus: minimised histories that matter (run first on every check)
func c14Corpus() []c14Hist {
	return []c14Hist{
		{ // claim at half time, cancel part of the rest (the reduced schedule now LAGS behind what was released), one block later ask for more
			// than the unreleased remainder (+1, then twice as much: both must be refused), then a cancel of exactly the remainder, claims
			N: 100, Max: 10, F: 90, Eden: []string{"100000", "0", "0"}, Elys: []string{"0", "0", "0"}, Final: true,
			Ops: []c14Op{{Op: "vest", Acct: 0, Amt: "rel:5"}, {Op: "blocks", N: 50}, {Op: "claim", Acct: 0}, {Op: "cancel", Acct: 0, Amt: "rel:3"}, {Op: "blocks", N: 1},
				{Op: "cancel", Acct: 0, Amt: "rel:6"}, {Op: "cancel", Acct: 0, Amt: "rel:7"}, {Op: "blocks", N: 1}, {Op: "claim", Acct: 0}, {Op: "cancel", Acct: 0, Amt: "rel:5"}, {Op: "claim", Acct: 0}},
		},
		{ // claim - cancel - claim: the defect repaired by the fix: commit (negative coin panic)
			N: 100, Max: 10, F: 90, Eden: []string{"1000", "0", "0"}, Elys: []string{"0", "0", "0"}, Final: true,
			Ops: []c14Op{{Op: "vest", Acct: 0, Amt: "rel:4"}, {Op: "blocks", N: 50}, {Op: "claim", Acct: 0},
				{Op: "cancel", Acct: 0, Amt: "rel:3"}, {Op: "blocks", N: 1}, {Op: "claim", Acct: 0}},
		},
		{ // several entries, cancel spanning two of them, vest-now
			N: 7, Max: 3, F: 3, Now: true, Eden: []string{"100000", "77", "5"}, Elys: []string{"0", "9", "0"}, Final: true,
			Ops: []c14Op{{Op: "vest", Acct: 0, Amt: "rel:2"}, {Op: "blocks", N: 2}, {Op: "vest", Acct: 0, Amt: "rel:2"},
				{Op: "blocks", N: 3}, {Op: "claim", Acct: 0}, {Op: "cancel", Acct: 0, Amt: "rel:3"}, {Op: "vest_now", Acct: 1, Amt: "rel:5"},
				{Op: "vest", Acct: 0, Amt: "rel:5"}, {Op: "vest", Acct: 0, Amt: "rel:0"}, {Op: "blocks", N: 1}, {Op: "claim", Acct: 0}},
		},
		{ // [usdc, elys]: partial cancel of the ELYS schedule behind a liquid one, then claims of both denoms
			N: 10, Max: 10, F: 3, Liquid: true, LN: 4, LMax: 10, Eden: []string{"9000", "0", "0"}, Elys: []string{"0", "0", "0"}, Usdc: []string{"5000", "70", "0"}, Final: true,
			Ops: []c14Op{{Op: "vest_liquid", Acct: 0, Amt: "rel:3"}, {Op: "vest", Acct: 0, Amt: "rel:3"}, {Op: "blocks", N: 2}, {Op: "claim", Acct: 0},
				{Op: "cancel", Acct: 0, Amt: "rel:2"}, {Op: "claim", Acct: 0}, {Op: "vest_liquid", Acct: 1, Amt: "rel:5"}, {Op: "cancel", Acct: 0, Amt: "rel:5"}, {Op: "blocks", N: 1}, {Op: "claim", Acct: 0}},
		},
		{ // [zero-block elys, elys]: governance sets NumBlocks 0 and back; the cancel reaches the running schedule only
			N: 8, Max: 10, F: 3, Eden: []string{"9000", "0", "0"}, Elys: []string{"0", "0", "0"}, Usdc: []string{"0", "0", "0"}, Final: true,
			Ops: []c14Op{{Op: "gov", N: 0, Max: 10, F: 3}, {Op: "vest", Acct: 0, Amt: "rel:2"}, {Op: "gov", N: 8, Max: 10, F: 3}, {Op: "vest", Acct: 0, Amt: "rel:2"},
				{Op: "blocks", N: 2}, {Op: "cancel", Acct: 0, Amt: "rel:1"}, {Op: "cancel", Acct: 0, Amt: "rel:7"}, {Op: "claim", Acct: 0}},
		},
		{ // [elys, usdc, elys] and [usdc, usdc, elys] on two accounts; full cancel; zero-block liquid schedule; wrong cancel denom
			N: 6, Max: 10, F: 3, Liquid: true, LN: 0, LMax: 10, Eden: []string{"600", "900", "0"}, Elys: []string{"0", "0", "0"}, Usdc: []string{"1000", "1000", "0"}, Final: true,
			Ops: []c14Op{{Op: "vest", Acct: 0, Amt: "rel:2"}, {Op: "vest_liquid", Acct: 0, Amt: "rel:2"}, {Op: "vest", Acct: 0, Amt: "rel:3"},
				{Op: "vest_liquid", Acct: 1, Amt: "rel:2"}, {Op: "gov_liquid", N: 5, Max: 10, F: 1}, {Op: "vest_liquid", Acct: 1, Amt: "rel:2"}, {Op: "vest", Acct: 1, Amt: "rel:3"},
				{Op: "blocks", N: 2}, {Op: "cancel", Acct: 0, Amt: "rel:7"}, {Op: "cancel", Acct: 1, Amt: "rel:3", Bad: true}, {Op: "cancel", Acct: 1, Amt: "rel:3"},
				{Op: "claim", Acct: 1}, {Op: "cancel", Acct: 0, Amt: "rel:5"}, {Op: "claim", Acct: 0}},
		},
	}
}
