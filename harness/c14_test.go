package harness

// C14 driver: vest / claim / cancel / vest-now / governance updates on the real application at
// adversarial heights; emits (a) the Coq cases for the correspondence with Models/Vesting.v and
// (b) the property's own predicate evaluated on the implementation (independent of the model).

import (
	"fmt"
	"math/big"
	"strings"
	"testing"

	sdkmath "cosmossdk.io/math"
	sdk "github.com/cosmos/cosmos-sdk/types"

	ctypes "github.com/elys-network/elys/x/commitment/types"
)

type c14Op struct {
	Op   string `json:"op"` // vest claim cancel vest_now gov enable_now blocks
	Acct int    `json:"acct,omitempty"`
	Amt  string `json:"amt,omitempty"`
	N    int64  `json:"n,omitempty"`   // gov: NumBlocks ; blocks: how many
	Max  int64  `json:"max,omitempty"` // gov: NumMaxVestings
	F    int64  `json:"f,omitempty"`   // gov: VestNowFactor
	On   bool   `json:"on,omitempty"`
}

type c14Hist struct {
	ID    int      `json:"id"`
	N     int64    `json:"num_blocks"`
	Max   int64    `json:"max_vestings"`
	F     int64    `json:"factor"`
	Now   bool     `json:"vest_now_enabled"`
	Eden  []string `json:"eden"` // initial claimable Eden per account
	Elys  []string `json:"elys"` // initial uelys balance per account
	Ops   []c14Op  `json:"ops"`
	Final bool     `json:"final_drain"` // run the drain phase (advance past every schedule, claim)
}

const c14Accts = 3

func c14Gen(r *Rng, id int) c14Hist {
	h := c14Hist{ID: id, Final: true}
	h.N = r.Pick(1, 2, 3, 5, 7, 10, 16, 31, 40)
	h.Max = r.Pick(1, 2, 3, 5, 10000, 10000)
	h.F = r.Pick(1, 2, 3, 7, 90, 1000)
	h.Now = r.Chance(60)
	for i := 0; i < c14Accts; i++ {
		h.Eden = append(h.Eden, r.Decade(0, 26).String())
		if r.Chance(50) {
			h.Elys = append(h.Elys, "0")
		} else {
			h.Elys = append(h.Elys, r.Decade(0, 20).String())
		}
	}
	n := 25 + r.Intn(30)
	for k := 0; k < n; k++ {
		x := r.Intn(100)
		a := r.Intn(c14Accts)
		switch {
		case x < 24:
			h.Ops = append(h.Ops, c14Op{Op: "vest", Acct: a, Amt: fmt.Sprintf("rel:%d", r.Intn(7))})
		case x < 52:
			h.Ops = append(h.Ops, c14Op{Op: "claim", Acct: a})
		case x < 68:
			h.Ops = append(h.Ops, c14Op{Op: "cancel", Acct: a, Amt: fmt.Sprintf("rel:%d", r.Intn(8))})
		case x < 76:
			h.Ops = append(h.Ops, c14Op{Op: "vest_now", Acct: a, Amt: fmt.Sprintf("rel:%d", r.Intn(7))})
		case x < 80:
			h.Ops = append(h.Ops, c14Op{Op: "gov", N: r.Pick(1, 2, 4, 9, 25, 0), Max: r.Pick(0, 1, 3, 10000), F: r.Pick(1, 3, 90, 0, -1)})
		case x < 83:
			h.Ops = append(h.Ops, c14Op{Op: "enable_now", On: r.Chance(70)})
		default:
			h.Ops = append(h.Ops, c14Op{Op: "blocks", N: r.Pick(1, 1, 1, 2, 3, -1, -2, -3, -4)}) // negative: relative to NumBlocks
		}
	}
	return h
}

type c14Run struct {
	w     *World
	addrs []sdk.AccAddress
	// independent bookkeeping for the implementation-side predicate
	vestedIn, released, returned []*big.Int
}

func (x *c14Run) eden(i int) *big.Int {
	c := x.w.App.CommitmentKeeper.GetCommitments(x.w.QCtx(), x.addrs[i])
	return c.Claimed.AmountOf("ueden").BigInt()
}
func (x *c14Run) elys(i int) *big.Int { return x.w.Bal(x.addrs[i], "uelys").BigInt() }
func (x *c14Run) entries(i int) []*ctypes.VestingTokens {
	return x.w.App.CommitmentKeeper.GetCommitments(x.w.QCtx(), x.addrs[i]).VestingTokens
}
func (x *c14Run) outstanding(i int) *big.Int {
	s := new(big.Int)
	for _, v := range x.entries(i) {
		s.Add(s, new(big.Int).Sub(v.TotalAmount.BigInt(), v.ClaimedAmount.BigInt()))
	}
	return s
}

func (x *c14Run) obs(kind string, i int) string {
	k := map[string]int{"ok": 0, "err": 1, "panic": 2}[kind]
	var vs []string
	for _, v := range x.entries(i) {
		vs = append(vs, fmt.Sprintf("(%s,%s,%d,%d)", zstr(v.TotalAmount.BigInt()), zstr(v.ClaimedAmount.BigInt()), v.StartBlock, v.NumBlocks))
	}
	return fmt.Sprintf("mkO %d %d %s %s [%s]", k, i, zstr(x.eden(i)), zstr(x.elys(i)), strings.Join(vs, ";"))
}

func relAmount(r int, base *big.Int) *big.Int {
	switch r {
	case 0:
		return big.NewInt(1)
	case 1:
		return new(big.Int).Div(base, big.NewInt(1000))
	case 2:
		return new(big.Int).Div(base, big.NewInt(3))
	case 3:
		return new(big.Int).Div(base, big.NewInt(2))
	case 4:
		return new(big.Int).Sub(base, big.NewInt(1))
	case 5:
		return new(big.Int).Set(base)
	case 6:
		return new(big.Int).Add(base, big.NewInt(1))
	default:
		return new(big.Int).Mul(base, big.NewInt(2))
	}
}

// c14Exec runs one history; returns the Coq case text.
func c14Exec(t *testing.T, col *Collector, h c14Hist) string {
	w := NewWorld(t)
	x := &c14Run{w: w}
	fail := func(step int, sig, detail string) {
		col.Violate(Violation{Signature: sig, Detail: detail, History: h.ID, Step: step, Replay: h})
	}
	// fixture: governance sets the vesting info through the real handler
	if r := w.Deliver(&ctypes.MsgUpdateVestingInfo{Authority: w.Gov, BaseDenom: "ueden", VestingDenom: "uelys", NumBlocks: h.N, VestNowFactor: h.F, NumMaxVestings: h.Max}); !r.OK() {
		t.Fatalf("fixture gov: %v %v", r.Err, r.Panic)
	}
	if r := w.Deliver(&ctypes.MsgUpdateEnableVestNow{Authority: w.Gov, EnableVestNow: h.Now}); !r.OK() {
		t.Fatalf("fixture enable: %v %v", r.Err, r.Panic)
	}
	var inits []string
	for i := 0; i < c14Accts; i++ {
		a := Addr(100*h.ID%250 + i) // distinct per account; worlds are separate anyway
		x.addrs = append(x.addrs, a)
		eden, _ := new(big.Int).SetString(h.Eden[i], 10)
		elys, _ := new(big.Int).SetString(h.Elys[i], 10)
		ctx := w.Ctx()
		c := w.App.CommitmentKeeper.GetCommitments(ctx, a)
		c.AddClaimed(sdk.NewCoin("ueden", sdkmath.NewIntFromBigInt(eden)))
		w.App.CommitmentKeeper.SetCommitments(ctx, c)
		if elys.Sign() > 0 {
			w.Mint(a, sdk.NewCoins(sdk.NewCoin("uelys", sdkmath.NewIntFromBigInt(elys))))
		}
		inits = append(inits, fmt.Sprintf("(%s,%s)", zstr(eden), zstr(elys)))
		x.vestedIn = append(x.vestedIn, new(big.Int))
		x.released = append(x.released, new(big.Int))
		x.returned = append(x.returned, new(big.Int))
	}
	curN, curF := h.N, h.F
	var steps []string
	nontrivial := false
	var fp strings.Builder
	for k, op := range h.Ops {
		height := w.Height + 1
		var res TxResult
		var coq string
		var amt *big.Int
		i := op.Acct
		switch op.Op {
		case "blocks":
			n := op.N
			if n < 0 { // relative to the current NumBlocks: N/2, N-1, N, N+1
				switch n {
				case -1:
					n = curN / 2
				case -2:
					n = curN - 1
				case -3:
					n = curN
				default:
					n = curN + 1
				}
			}
			if n < 1 {
				n = 1
			}
			for j := int64(0); j < n; j++ {
				if err := w.EndBlock(5); err != nil {
					fail(k, "C14:block-failed", err.Error())
					return ""
				}
			}
			col.Op("blocks", "ok", nil)
			continue
		case "vest":
			var rel int
			fmt.Sscanf(op.Amt, "rel:%d", &rel)
			amt = relAmount(rel, x.eden(i))
			before := x.elys(i)
			res = w.Deliver(&ctypes.MsgVest{Creator: x.addrs[i].String(), Amount: sdkmath.NewIntFromBigInt(amt), Denom: "ueden"})
			coq = fmt.Sprintf("OVest %d %d %s", i, height, zstr(amt))
			if res.OK() {
				x.vestedIn[i].Add(x.vestedIn[i], amt)
				nontrivial = true
			}
			if x.elys(i).Cmp(before) != 0 {
				fail(k, "C14:vest-moved-elys", "vest changed the ELYS balance")
			}
		case "claim":
			before := x.elys(i)
			outBefore := x.outstanding(i)
			res = w.Deliver(&ctypes.MsgClaimVesting{Sender: x.addrs[i].String()})
			coq = fmt.Sprintf("OClaim %d %d", i, height)
			after := x.elys(i)
			d := new(big.Int).Sub(after, before)
			if !res.OK() {
				// the property: claiming what has vested always succeeds
				why := fmt.Sprint(res.Err, res.Panic)
				sig := "C14:claim-fails"
				if strings.Contains(why, "negative coin amount") {
					sig = "C14:claim-after-cancel-negative-coin"
				} else if strings.Contains(why, "division by zero") {
					sig = "C14:claim-numblocks-zero"
				}
				fail(k, sig, "ClaimVesting failed: "+why)
			} else {
				if d.Sign() < 0 {
					fail(k, "C14:claim-negative-release", "claim decreased the owner's ELYS")
				}
				x.released[i].Add(x.released[i], d)
				if new(big.Int).Sub(outBefore, x.outstanding(i)).Cmp(d) != 0 {
					fail(k, "C14:claim-release-neq-claimed-delta", fmt.Sprintf("released %s but outstanding moved %s -> %s", d, outBefore, x.outstanding(i)))
				}
				if d.Sign() > 0 {
					nontrivial = true
				}
			}
		case "cancel":
			var rel int
			fmt.Sscanf(op.Amt, "rel:%d", &rel)
			base := x.outstanding(i)
			if rel == 7 { // relative to the newest entry only
				es := x.entries(i)
				if len(es) > 0 {
					e := es[len(es)-1]
					base = new(big.Int).Sub(e.TotalAmount.BigInt(), e.ClaimedAmount.BigInt())
				}
				rel = 5
			}
			amt = relAmount(rel, base)
			edenBefore, elysBefore, outBefore := x.eden(i), x.elys(i), x.outstanding(i)
			res = w.Deliver(&ctypes.MsgCancelVest{Creator: x.addrs[i].String(), Amount: sdkmath.NewIntFromBigInt(amt), Denom: "ueden"})
			coq = fmt.Sprintf("OCancel %d %s", i, zstr(amt))
			if res.OK() {
				nontrivial = true
				x.returned[i].Add(x.returned[i], amt)
				if new(big.Int).Sub(x.eden(i), edenBefore).Cmp(amt) != 0 {
					fail(k, "C14:cancel-eden-returned-neq-amount", "cancel did not return exactly the cancelled Eden")
				}
				if new(big.Int).Sub(outBefore, x.outstanding(i)).Cmp(amt) != 0 {
					fail(k, "C14:cancel-outstanding-neq-amount", "cancel did not take exactly the amount out of the unreleased part")
				}
				if x.elys(i).Cmp(elysBefore) != 0 {
					fail(k, "C14:cancel-moved-elys", "cancel changed the ELYS balance")
				}
			}
		case "vest_now":
			var rel int
			fmt.Sscanf(op.Amt, "rel:%d", &rel)
			amt = relAmount(rel, x.eden(i))
			edenBefore, elysBefore := x.eden(i), x.elys(i)
			res = w.Deliver(&ctypes.MsgVestNow{Creator: x.addrs[i].String(), Amount: sdkmath.NewIntFromBigInt(amt), Denom: "ueden"})
			coq = fmt.Sprintf("OVestNow %d %s", i, zstr(amt))
			if res.OK() {
				nontrivial = true
				want := new(big.Int).Quo(amt, big.NewInt(curF))
				if new(big.Int).Sub(x.elys(i), elysBefore).Cmp(want) != 0 {
					fail(k, "C14:vest-now-payout", fmt.Sprintf("vest-now paid %s, want %s", new(big.Int).Sub(x.elys(i), elysBefore), want))
				}
				if new(big.Int).Sub(edenBefore, x.eden(i)).Cmp(amt) != 0 {
					fail(k, "C14:vest-now-debit", "vest-now did not debit exactly the amount")
				}
			}
		case "gov":
			i = 0
			res = w.Deliver(&ctypes.MsgUpdateVestingInfo{Authority: w.Gov, BaseDenom: "ueden", VestingDenom: "uelys", NumBlocks: op.N, VestNowFactor: op.F, NumMaxVestings: op.Max})
			coq = fmt.Sprintf("OGov %s %s %s", zstr(bi(op.N)), zstr(bi(op.Max)), zstr(bi(op.F)))
			if res.OK() {
				curN, curF = op.N, op.F
			}
		case "enable_now":
			i = 0
			res = w.Deliver(&ctypes.MsgUpdateEnableVestNow{Authority: w.Gov, EnableVestNow: op.On})
			coq = fmt.Sprintf("OEnableNow %v", op.On)
		default:
			t.Fatalf("unknown op %q", op.Op)
		}
		col.Op(op.Op, res.Kind(), amt)
		fmt.Fprintf(&fp, "%s:%s:%d;", op.Op, res.Kind(), i)
		steps = append(steps, fmt.Sprintf("(%s, %s)", coq, x.obs(res.Kind(), i)))
		// conservation on the implementation, from the harness's own bookkeeping
		for j := 0; j < c14Accts; j++ {
			lhs := x.vestedIn[j]
			rhs := new(big.Int).Add(x.released[j], x.returned[j])
			rhs.Add(rhs, x.outstanding(j))
			if lhs.Cmp(rhs) != 0 {
				fail(k, "C14:conservation", fmt.Sprintf("acct %d: vested-in %s != released %s + returned %s + outstanding %s", j, lhs, x.released[j], x.returned[j], x.outstanding(j)))
			}
			for _, e := range x.entries(j) {
				if e.ClaimedAmount.GT(e.TotalAmount) || e.ClaimedAmount.IsNegative() {
					fail(k, "C14:claimed-exceeds-total", fmt.Sprintf("acct %d entry claimed %s total %s", j, e.ClaimedAmount, e.TotalAmount))
				}
			}
		}
		col.ImplCheck(c14Accts)
		if r := k % 3; r == 0 {
			if err := w.EndBlock(5); err != nil {
				fail(k, "C14:block-failed", err.Error())
				return ""
			}
		}
	}
	if h.Final {
		// drain: advance past every schedule; every account's claim must release all that is outstanding
		maxEnd := int64(0)
		for j := 0; j < c14Accts; j++ {
			for _, e := range x.entries(j) {
				if end := e.StartBlock + e.NumBlocks; end > maxEnd {
					maxEnd = end
				}
			}
		}
		for w.Height+1 < maxEnd {
			if err := w.EndBlock(5); err != nil {
				fail(len(h.Ops), "C14:block-failed", err.Error())
				return ""
			}
		}
		for j := 0; j < c14Accts; j++ {
			height := w.Height + 1
			before, out := x.elys(j), x.outstanding(j)
			res := w.Deliver(&ctypes.MsgClaimVesting{Sender: x.addrs[j].String()})
			col.Op("claim_final", res.Kind(), nil)
			if !res.OK() {
				fail(len(h.Ops), "C14:final-claim-fails", fmt.Sprint(res.Err, res.Panic))
			} else {
				d := new(big.Int).Sub(x.elys(j), before)
				if d.Cmp(out) != 0 || len(x.entries(j)) != 0 {
					fail(len(h.Ops), "C14:not-complete-at-end", fmt.Sprintf("acct %d: released %s of outstanding %s, %d entries left", j, d, out, len(x.entries(j))))
				}
				x.released[j].Add(x.released[j], d)
			}
			steps = append(steps, fmt.Sprintf("(OClaim %d %d, %s)", j, height, x.obs(res.Kind(), j)))
			col.ImplCheck(1)
		}
	}
	col.Distinct(fp.String(), nontrivial)
	col.Sample(h)
	return fmt.Sprintf("mkC %d (mkP %d %d %d %v) [%s] [\n  %s]", h.ID, h.N, h.Max, h.F, h.Now,
		strings.Join(inits, ";"), strings.Join(steps, ";\n  "))
}

func TestC14(t *testing.T) {
	seed := envInt("VERIF_SEED", 1)
	col := NewCollector("C14", seed)
	n := 96
	if tier() == "thorough" {
		n = 1500
	}
	n = int(envInt("VERIF_N", int64(n)))
	var hists []c14Hist
	var one c14Hist
	if loadReplay(&one) {
		hists = []c14Hist{one}
	} else {
		hists = append(hists, c14Corpus()...)
		for i := len(hists); i < n; i++ {
			hists = append(hists, c14Gen(NewRng(uint64(seed), uint64(i)), i))
		}
	}
	RunParallel(len(hists), func(i int) {
		h := hists[i]
		h.ID = i
		if txt := c14Exec(t, col, h); txt != "" {
			col.Case(i, txt)
		}
	})
	header := "From Coq Require Import ZArith List Bool.\nFrom Elys Require Import Base.Res Models.Vesting Run.VestingRun.\nImport ListNotations.\nOpen Scope Z_scope.\n"
	footer := "Definition M := Eval vm_compute in mismatches true cases.\nPrint M.\n"
	col.Finish(t, len(hists), header, footer, 300)
}

// corpus: minimised histories that matter (run first on every check)
func c14Corpus() []c14Hist {
	return []c14Hist{
		{ // claim - cancel - claim: the defect repaired by the fix: commit (negative coin panic)
			N: 100, Max: 10, F: 90, Eden: []string{"1000", "0", "0"}, Elys: []string{"0", "0", "0"}, Final: true,
			Ops: []c14Op{{Op: "vest", Acct: 0, Amt: "rel:4"}, {Op: "blocks", N: 50}, {Op: "claim", Acct: 0},
				{Op: "cancel", Acct: 0, Amt: "rel:3"}, {Op: "blocks", N: 1}, {Op: "claim", Acct: 0}},
		},
		{ // several entries, cancel spanning two of them, vest-now
			N: 7, Max: 3, F: 3, Now: true, Eden: []string{"100000", "77", "5"}, Elys: []string{"0", "9", "0"}, Final: true,
			Ops: []c14Op{{Op: "vest", Acct: 0, Amt: "rel:2"}, {Op: "blocks", N: 2}, {Op: "vest", Acct: 0, Amt: "rel:2"},
				{Op: "blocks", N: 3}, {Op: "claim", Acct: 0}, {Op: "cancel", Acct: 0, Amt: "rel:3"}, {Op: "vest_now", Acct: 1, Amt: "rel:5"},
				{Op: "vest", Acct: 0, Amt: "rel:5"}, {Op: "vest", Acct: 0, Amt: "rel:0"}, {Op: "blocks", N: 1}, {Op: "claim", Acct: 0}},
		},
	}
}
