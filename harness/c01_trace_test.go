package harness

// C01 trace emission: pool-related committed bank operations per step (from the SDK's bank events)
// as Level-A ledger operations, the observed reserves / pool bank balances / liquidity records after
// the step, and - for blocks that consist of exactly one swap - the Level-B view of that swap.

import (
	"fmt"
	"strings"

	sdkmath "cosmossdk.io/math"
	sdk "github.com/cosmos/cosmos-sdk/types"

	ammtypes "github.com/elys-network/elys/x/amm/types"
)

var c01Denoms = map[string]int{USDC: 0, ATOM: 1, ELYS: 2, WETH: 3}

// model index of an amm pool: 0 the oracle pool uusdc/uatom, 1 the constant-product pool, 2 the second oracle pool uusdc/aweth
func c01PoolIdx(m *Market, id uint64) int {
	switch {
	case id == m.OraclePool:
		return 0
	case m.OraclePool2 != 0 && id == m.OraclePool2:
		return 2
	}
	return 1
}

type c01Tracer struct {
	x        *lRun
	poolIdx  map[string]int // pool address -> model index
	treasury map[string]int
	revenue  map[string]int
	init     string
	steps    []string
	swapsB   int
}

func newC01Tracer(x *lRun) *c01Tracer {
	c := &c01Tracer{x: x, poolIdx: map[string]int{}, treasury: map[string]int{}, revenue: map[string]int{}}
	for _, p := range x.w.App.AmmKeeper.GetAllPool(x.w.QCtx()) {
		i := c01PoolIdx(x.m, p.PoolId)
		c.poolIdx[p.Address] = i
		c.treasury[p.RebalanceTreasury] = i
		c.revenue[ammtypes.NewPoolRevenueAddress(p.PoolId).String()] = i
	}
	c.init = c.obs()
	return c
}

func (c *c01Tracer) obs() string {
	ctx := c.x.w.QCtx()
	var rs, ls []string
	for _, p := range c.x.w.App.AmmKeeper.GetAllPool(ctx) {
		addr := sdk.MustAccAddressFromBech32(p.Address)
		for _, a := range p.PoolAssets {
			d, ok := c01Denoms[a.Token.Denom]
			if !ok {
				continue
			}
			bal := c.x.w.App.BankKeeper.GetBalance(ctx, addr, a.Token.Denom).Amount
			rs = append(rs, fmt.Sprintf("(%d%%nat,%d%%nat,%s,%s)", c.poolIdx[p.Address], d, zstr(a.Token.Amount.BigInt()), zstr(bal.BigInt())))
		}
	}
	for _, dl := range c.x.w.App.AmmKeeper.GetAllDenomLiquidity(ctx) {
		if d, ok := c01Denoms[dl.Denom]; ok {
			ls = append(ls, fmt.Sprintf("(%d%%nat,%s)", d, zstr(dl.Liquidity.BigInt())))
		}
	}
	return fmt.Sprintf("mkObs [%s] [%s]", strings.Join(rs, ";"), strings.Join(ls, ";"))
}

// record one step (a transaction or a block)
func (c *c01Tracer) step(ops []BankOp, donate bool, isBlock bool) {
	var aops []string
	for _, o := range ops {
		if o.Kind != "send" {
			continue
		}
		d, ok := c01Denoms[o.Denom]
		if !ok {
			continue
		}
		if p, ok := c.poolIdx[o.From]; ok {
			aops = append(aops, fmt.Sprintf("AOut %d %d %s", p, d, zstr(o.Amt.BigInt())))
		}
		if p, ok := c.poolIdx[o.To]; ok {
			if donate {
				aops = append(aops, fmt.Sprintf("ADonate %d %d %s", p, d, zstr(o.Amt.BigInt())))
			} else {
				aops = append(aops, fmt.Sprintf("AIn %d %d %s", p, d, zstr(o.Amt.BigInt())))
			}
		}
	}
	b := "None"
	if isBlock {
		if s, ok := c.parseSingleSwap(ops); ok {
			b = "(Some (" + s + "))"
			c.swapsB++
		}
	}
	c.steps = append(c.steps, fmt.Sprintf("([%s], %s, %s)", strings.Join(aops, ";"), b, c.obs()))
}

// parseSingleSwap recognises the transfer protocol of UpdatePoolForSwap (+ OnCollectFee) when the
// block's pool-related transfers are exactly those of one swap on one pool.
func (c *c01Tracer) parseSingleSwap(all []BankOp) (string, bool) {
	var ops []BankOp
	for _, o := range all {
		if o.Kind != "send" {
			continue
		}
		_, a := c.poolIdx[o.From]
		_, b := c.poolIdx[o.To]
		_, t1 := c.treasury[o.From]
		_, t2 := c.treasury[o.To]
		_, r1 := c.revenue[o.From]
		_, r2 := c.revenue[o.To]
		if a || b || t1 || t2 || r1 || r2 {
			ops = append(ops, o)
		}
	}
	if len(ops) < 2 {
		return "", false
	}
	p, ok := c.poolIdx[ops[0].To]
	if !ok {
		return "", false
	}
	if _, fromPool := c.poolIdx[ops[0].From]; fromPool {
		return "", false
	}
	pin := ops[0]
	pout := ops[1]
	if q, ok := c.poolIdx[pout.From]; !ok || q != p {
		return "", false
	}
	if _, isT := c.treasury[pout.To]; isT {
		return "", false
	}
	din, ok1 := c01Denoms[pin.Denom]
	dout, ok2 := c01Denoms[pout.Denom]
	if !ok1 || !ok2 || din == dout {
		return "", false
	}
	fee, wb := sdkmath.ZeroInt(), sdkmath.ZeroInt()
	conv := "None"
	i := 2
	isPoolToTreasury := func(o BankOp) bool {
		q, ok := c.poolIdx[o.From]
		t, ok2 := c.treasury[o.To]
		return ok && ok2 && q == p && t == p && o.Denom == pin.Denom
	}
	if i < len(ops) && isPoolToTreasury(ops[i]) {
		fee = ops[i].Amt
		i++
		// treasury -> revenue
		if i < len(ops) {
			if t, ok := c.treasury[ops[i].From]; ok && t == p {
				if r, ok := c.revenue[ops[i].To]; ok && r == p {
					i++
				}
			}
		}
		// nested conversion: revenue -> pool, pool -> revenue
		if i+1 < len(ops) {
			if r, ok := c.revenue[ops[i].From]; ok && r == p {
				if q, ok := c.poolIdx[ops[i].To]; ok && q == p && ops[i].Denom == pin.Denom {
					o2 := ops[i+1]
					if q2, ok := c.poolIdx[o2.From]; ok && q2 == p {
						if r2, ok := c.revenue[o2.To]; ok && r2 == p {
							if nd, ok := c01Denoms[o2.Denom]; ok {
								conv = fmt.Sprintf("(Some (mkN %s %s %d 0))", zstr(ops[i].Amt.BigInt()), zstr(o2.Amt.BigInt()), nd)
								i += 2
							}
						}
					}
				}
			}
		}
		if conv == "None" && pin.Denom != USDC {
			// the conversion was attempted and discarded (no committed transfers): any failure point
			conv = "(Some (mkN 0 0 0 1))"
		}
	}
	if i < len(ops) && isPoolToTreasury(ops[i]) {
		wb = ops[i].Amt
		i++
	}
	// optional bonus treasury -> recipient
	if i < len(ops) {
		if t, ok := c.treasury[ops[i].From]; ok && t == p {
			if _, toPool := c.poolIdx[ops[i].To]; !toPool {
				i++
			}
		}
	}
	if i != len(ops) {
		return "", false
	}
	return fmt.Sprintf("mkB %d %d %d %s %s %s %s %s", p, din, dout, zstr(pin.Amt.BigInt()), zstr(pout.Amt.BigInt()), zstr(fee.BigInt()), zstr(wb.BigInt()), conv), true
}

func (c *c01Tracer) caseText(id int) string {
	return fmt.Sprintf("mkLC %d (%s) [\n  %s]", id, c.init, strings.Join(c.steps, ";\n  "))
}
