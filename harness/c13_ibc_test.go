package harness

// TestC13Ibc (extra driver of the C13 check): the reward module stays solvent on a chain whose base currency is an IBC denom, i.e.
// the bank denom of USDC differs from the asset-profile key "uusdc" (as on mainnet). Every other fixture of this harness uses the
// literal uusdc denom, so code that confuses the key with the denom is invisible there. Implementation-side predicate only
// (c13Solvent of the ledger driver: what every holder would be paid by a claim now is covered by the module's balance), plus:
// every claim succeeds, in any order.

import (
	"fmt"
	"sort"
	"testing"

	sdkmath "cosmossdk.io/math"
	sdk "github.com/cosmos/cosmos-sdk/types"
	authtypes "github.com/cosmos/cosmos-sdk/x/auth/types"

	elysapp "github.com/elys-network/elys/app"
	ammtypes "github.com/elys-network/elys/x/amm/types"
	atypes "github.com/elys-network/elys/x/assetprofile/types"
	mctypes "github.com/elys-network/elys/x/masterchef/types"
	oracletypes "github.com/elys-network/elys/x/oracle/types"
)

const c13IbcUSDC = "ibc/2180E84E20F5679FCC760D8C165B60F42065DEF7F46A72B447CFF1B7DC6C0A65"

func c13IbcHistory(t *testing.T, col *Collector, seed int64, id int) {
	r := NewRng(uint64(seed), uint64(7000+id))
	w := NewWorld(t)
	app, ctx := w.App, w.Ctx()
	elysapp.SetupAssetProfile(app, ctx)
	e, _ := app.AssetprofileKeeper.GetEntry(ctx, "uusdc")
	e.Denom = c13IbcUSDC
	app.AssetprofileKeeper.SetEntry(ctx, e)
	app.AssetprofileKeeper.SetEntry(ctx, atypes.Entry{BaseDenom: ATOM, Denom: ATOM, Decimals: 6, DisplayName: "ATOM", CommitEnabled: true, WithdrawEnabled: true})
	provider := Addr(900)
	for d, p := range map[string]string{c13IbcUSDC: "1.0", ATOM: "5.0"} {
		disp := map[string]string{c13IbcUSDC: "USDC", ATOM: "ATOM"}[d]
		app.OracleKeeper.SetAssetInfo(ctx, oracletypes.AssetInfo{Denom: d, Display: disp, Decimal: 6})
		app.OracleKeeper.SetPrice(ctx, oracletypes.Price{Asset: disp, Price: dec(p), Source: "elys", Provider: provider.String(),
			Timestamp: uint64(ctx.BlockTime().Unix()), BlockHeight: uint64(ctx.BlockHeight())})
	}
	var users []sdk.AccAddress
	for i := 0; i < 4; i++ {
		a := Addr(i)
		users = append(users, a)
		w.Mint(a, sdk.NewCoins(sdk.NewCoin(c13IbcUSDC, I(1_000_000_000_000)), sdk.NewCoin(ATOM, I(1_000_000_000_000)), sdk.NewCoin(ELYS, I(1_000_000_000_000))))
	}
	fail := func(step int, sig, detail string) {
		col.Violate(Violation{Signature: sig, Detail: detail, History: 7000 + id, Step: step, Replay: map[string]interface{}{"kind": "ibc", "id": id, "seed": seed}})
	}
	must := func(what string, res TxResult) bool {
		if !res.OK() {
			t.Logf("ibc history %d: %s: %v %v", id, what, res.Err, res.Panic)
			return false
		}
		return true
	}
	ap := app.AmmKeeper.GetParams(w.QCtx())
	ap.AllowedPoolCreators = []string{users[0].String()}
	ap.BaseAssets = []string{c13IbcUSDC}
	if !must("amm params", w.Deliver(&ammtypes.MsgUpdateParams{Authority: w.Gov, Params: &ap})) {
		return
	}
	assets := []ammtypes.PoolAsset{
		{Token: sdk.NewCoin(c13IbcUSDC, I(5_000_000_000)), Weight: I(1), ExternalLiquidityRatio: dec("1")},
		{Token: sdk.NewCoin(ATOM, I(1_000_000_000)), Weight: I(1), ExternalLiquidityRatio: dec("1")},
	}
	sort.Slice(assets, func(i, j int) bool { return assets[i].Token.Denom < assets[j].Token.Denom })
	if !must("create pool", w.Deliver(&ammtypes.MsgCreatePool{Sender: users[0].String(), PoolParams: ammtypes.PoolParams{SwapFee: dec("0.003"), UseOracle: false, FeeDenom: c13IbcUSDC}, PoolAssets: assets})) {
		return
	}
	pools := app.AmmKeeper.GetAllPool(w.QCtx())
	pid := pools[len(pools)-1].PoolId
	refresh := func() {
		c := w.Ctx()
		for d, p := range map[string]string{"USDC": "1.0", "ATOM": "5.0"} {
			app.OracleKeeper.SetPrice(c, oracletypes.Price{Asset: d, Price: dec(p), Source: "elys", Provider: provider.String(), Timestamp: uint64(c.BlockTime().Unix()), BlockHeight: uint64(c.BlockHeight())})
		}
	}
	block := func(step int, dt int64) bool {
		refresh()
		if err := w.EndBlock(dt); err != nil {
			col.Op("ibc_block", "failed(C18)", nil)
			return false
		}
		c13IbcSolvent(w, fmt.Sprintf("after block %d", w.Height), func(sig, d string) { fail(step, sig, d) })
		col.ImplCheck(1)
		return true
	}
	if !block(0, 5) {
		return
	}
	must("reward denom usdc", w.Deliver(&mctypes.MsgAddExternalRewardDenom{Authority: w.Gov, RewardDenom: c13IbcUSDC, MinAmount: I(1), Supported: true}))
	must("reward denom atom", w.Deliver(&mctypes.MsgAddExternalRewardDenom{Authority: w.Gov, RewardDenom: ATOM, MinAmount: I(1), Supported: true}))
	h := w.Ctx().BlockHeight()
	for _, d := range []string{c13IbcUSDC, ATOM} {
		res := w.Deliver(&mctypes.MsgAddExternalIncentive{Sender: users[3].String(), RewardDenom: d, PoolId: pid, FromBlock: h + 1, ToBlock: h + 1 + r.Pick(5, 10, 40), AmountPerBlock: I(r.Pick(1000, 2500, 99_999))})
		col.Op("ibc_incentive", res.Kind(), nil)
	}
	step := 1
	for k := 0; k < 14; k++ {
		u := users[1+r.Intn(3)]
		switch r.Intn(5) {
		case 0, 1: // all-asset join
			pool, _ := app.AmmKeeper.GetPool(w.QCtx(), pid)
			sh := pool.TotalShares.Amount.QuoRaw(r.Pick(3, 10, 50, 1000))
			res := w.Deliver(&ammtypes.MsgJoinPool{Sender: u.String(), PoolId: pid, MaxAmountsIn: sdk.NewCoins(sdk.NewCoin(c13IbcUSDC, I(900_000_000_000)), sdk.NewCoin(ATOM, I(900_000_000_000))), ShareAmountOut: sh})
			col.Op("ibc_join", res.Kind(), nil)
		case 2: // partial or full exit
			cm := app.CommitmentKeeper.GetCommitments(w.QCtx(), u)
			have := cm.GetCommittedAmountForDenom(ammtypes.GetPoolShareDenom(pid))
			if have.IsPositive() {
				v := relOf(int(r.Pick(2, 3, 3, 5)), have)
				res := w.Deliver(&ammtypes.MsgExitPool{Sender: u.String(), PoolId: pid, MinAmountsOut: sdk.Coins{}, ShareAmountIn: v})
				col.Op("ibc_exit", res.Kind(), nil)
			}
		case 3: // swap (fee revenue in the base currency)
			res := w.Deliver(&ammtypes.MsgSwapExactAmountIn{Sender: u.String(), Recipient: u.String(), Routes: []ammtypes.SwapAmountInRoute{{PoolId: pid, TokenOutDenom: ATOM}},
				TokenIn: sdk.NewCoin(c13IbcUSDC, I(r.Pick(1_000_000, 33_333_333, 500_000_000))), TokenOutMinAmount: I(1)})
			col.Op("ibc_swap", res.Kind(), nil)
		case 4: // claim
			res := w.Deliver(&mctypes.MsgClaimRewards{Sender: u.String(), PoolIds: []uint64{pid}})
			col.Op("ibc_claim", res.Kind(), nil)
			if !res.OK() {
				fail(step, "C13:claim-failed", fmt.Sprintf("claim of %s on pool %d failed: %v %v", u, pid, res.Err, res.Panic))
			}
		}
		step++
		if !block(step, r.Pick(5, 5, 60, 3700)) {
			return
		}
	}
	// everybody claims, in a random order: every claim must succeed
	order := []int{0, 1, 2, 3}
	for i := 3; i > 0; i-- {
		j := r.Intn(i + 1)
		order[i], order[j] = order[j], order[i]
	}
	for _, i := range order {
		res := w.Deliver(&mctypes.MsgClaimRewards{Sender: users[i].String(), PoolIds: []uint64{pid}})
		col.Op("ibc_final_claim", res.Kind(), nil)
		if !res.OK() {
			fail(step, "C13:claim-failed", fmt.Sprintf("final claim of user %d on pool %d failed: %v %v", i, pid, res.Err, res.Panic))
		}
	}
	col.Distinct(fmt.Sprintf("ibc:%d:%d", seed, id), true)
}

// c13IbcSolvent: the ledger driver's solvency predicate for any world
func c13IbcSolvent(w *World, where string, fail func(sig, detail string)) {
	qc, _ := w.QCtx().CacheContext()
	mk := w.App.MasterchefKeeper
	owed := sdk.NewCoins()
	ok := true
	func() {
		defer func() {
			if r := recover(); r != nil {
				ok = false
			}
		}()
		pools := mk.GetAllPoolInfos(qc)
		for _, c := range w.App.CommitmentKeeper.GetAllCommitments(qc) {
			a, err := sdk.AccAddressFromBech32(c.Creator)
			if err != nil {
				continue
			}
			for _, p := range pools {
				owed = owed.Add(mk.UserPoolPendingReward(qc, a, p.PoolId)...)
			}
		}
	}()
	if !ok {
		return
	}
	macc := authtypes.NewModuleAddress("masterchef")
	for _, c := range owed {
		if have := w.Bal(macc, c.Denom); have.LT(c.Amount) && c.Denom != "ueden" && c.Denom != "uedenb" {
			fail("C13:unpayable", fmt.Sprintf("%s: masterchef holds %s%s but the claims of all holders would pay %s", where, have, c.Denom, c.Amount))
		}
	}
	_ = sdkmath.ZeroInt
}

func TestC13Ibc(t *testing.T) {
	seed := envInt("VERIF_SEED", 1)
	col := NewCollector("C13i", seed)
	n := 12
	if tier() == "thorough" {
		n = 120
	}
	RunParallel(n, func(i int) { c13IbcHistory(t, col, seed, i) })
	col.Finish(t, n, "", "", 0)
}
