package harness

// C02 trace emission: share mints / burns committed by the bank in a step (coinbase / burn events of
// amm/pool/N denoms) with the account they went to / came from, and TotalShares, supply, commitment
// module balance and the touched accounts' committed shares afterwards.

import (
	"fmt"
	"strings"

	authtypes "github.com/cosmos/cosmos-sdk/x/auth/types"
	sdk "github.com/cosmos/cosmos-sdk/types"

	ammtypes "github.com/elys-network/elys/x/amm/types"
	ctypes "github.com/elys-network/elys/x/commitment/types"
)

type c02Tracer struct {
	x       *lRun
	accts   map[string]int
	pool    map[string]int // share denom -> pool index
	steps   []string
	ammMod  string
	mints   int
	burns   int
	touched map[int]map[string]bool
}

func newC02Tracer(x *lRun) *c02Tracer {
	c := &c02Tracer{x: x, accts: map[string]int{}, pool: map[string]int{}, touched: map[int]map[string]bool{}}
	c.ammMod = authtypes.NewModuleAddress(ammtypes.ModuleName).String()
	for _, p := range x.w.App.AmmKeeper.GetAllPool(x.w.QCtx()) {
		i := c01PoolIdx(x.m, p.PoolId)
		c.pool[p.TotalShares.Denom] = i
		c.touched[i] = map[string]bool{}
	}
	// the shares that exist at the start (pool creation) are replayed as joins by their holders
	var ops []string
	for _, cm := range x.w.App.CommitmentKeeper.GetAllCommitments(x.w.QCtx()) {
		for _, ct := range cm.CommittedTokens {
			if pi, ok := c.pool[ct.Denom]; ok && ct.Amount.IsPositive() {
				ops = append(ops, fmt.Sprintf("(%d%%nat, ShJoin %d %s)", pi, c.acct(cm.Creator), zstr(ct.Amount.BigInt())))
				c.touched[pi][cm.Creator] = true
			}
		}
	}
	c.steps = append(c.steps, fmt.Sprintf("([%s], [%s])", strings.Join(ops, ";"), c.obs()))
	return c
}

func (c *c02Tracer) acct(a string) int {
	if v, ok := c.accts[a]; ok {
		return v
	}
	c.accts[a] = len(c.accts)
	return c.accts[a]
}

func (c *c02Tracer) obs() string {
	ctx := c.x.w.QCtx()
	commitAddr := authtypes.NewModuleAddress(ctypes.ModuleName)
	var out []string
	for _, p := range c.x.w.App.AmmKeeper.GetAllPool(ctx) {
		sd := p.TotalShares.Denom
		pi := c.pool[sd]
		var cs []string
		for a := range c.touched[pi] {
			cm := c.x.w.App.CommitmentKeeper.GetCommitments(ctx, sdk.MustAccAddressFromBech32(a))
			cs = append(cs, fmt.Sprintf("(%d%%nat,%s)", c.acct(a), zstr(cm.GetCommittedAmountForDenom(sd).BigInt())))
		}
		out = append(out, fmt.Sprintf("mkShO %d %s %s %s [%s]", pi, zstr(p.TotalShares.Amount.BigInt()),
			zstr(c.x.w.App.BankKeeper.GetSupply(ctx, sd).Amount.BigInt()),
			zstr(c.x.w.App.BankKeeper.GetBalance(ctx, commitAddr, sd).Amount.BigInt()), strings.Join(cs, ";")))
	}
	return strings.Join(out, ";")
}

func (c *c02Tracer) step(ops []BankOp) {
	var sops []string
	for i, o := range ops {
		pi, ok := c.pool[o.Denom]
		if !ok {
			continue
		}
		switch o.Kind {
		case "mint":
			who := ""
			for j := i + 1; j < len(ops); j++ {
				if ops[j].Kind == "send" && ops[j].Denom == o.Denom && ops[j].From == c.ammMod && ops[j].Amt.Equal(o.Amt) {
					who = ops[j].To
					break
				}
			}
			sops = append(sops, fmt.Sprintf("(%d%%nat, ShJoin %d %s)", pi, c.acct(who), zstr(o.Amt.BigInt())))
			c.touched[pi][who] = true
			c.mints++
		case "burn":
			who := ""
			for j := i - 1; j >= 0; j-- {
				if ops[j].Kind == "send" && ops[j].Denom == o.Denom && ops[j].To == c.ammMod && ops[j].Amt.Equal(o.Amt) {
					who = ops[j].From
					break
				}
			}
			sops = append(sops, fmt.Sprintf("(%d%%nat, ShExit %d %s)", pi, c.acct(who), zstr(o.Amt.BigInt())))
			c.touched[pi][who] = true
			c.burns++
		}
	}
	c.steps = append(c.steps, fmt.Sprintf("([%s], [%s])", strings.Join(sops, ";"), c.obs()))
}

func (c *c02Tracer) caseText(id int) string {
	return fmt.Sprintf("mkShC %d [\n  %s]", id, strings.Join(c.steps, ";\n  "))
}
