package harness

import (
	"encoding/json"
	"fmt"
	"testing"
)

// TestLedgerDump prints the generated ledger history VERIF_ID of seed VERIF_SEED as replayable JSON
// (VERIF_REPLAY=<file> go test -run 'TestC01$' ...; TestShrink).
func TestLedgerDump(t *testing.T) {
	id := int(envInt("VERIF_ID", -1))
	if id < 0 {
		t.Skip("no VERIF_ID")
	}
	h := lGen(NewRng(uint64(envInt("VERIF_SEED", 1)), uint64(id)), id)
	b, _ := json.Marshal(h)
	fmt.Println(string(b))
}
