package harness

// C05 driver: joins and exits cannot extract value from the other liquidity providers.
//
//  (a) PURE cases: types.Pool values are built directly and the exported pool functions of x/amm/types
//      are called (JoinPool, GetMaximalNoSwapLPAmount, ExitPool, CalcExitPoolCoinsFromShares, TVL,
//      CalcSingleAssetJoinPoolShares, Pow) with two-line mock keepers. Every case is written as a Coq
//      term for Run/AmmJoinExitRun.v (the model must return the same integers / result kind) and the
//      property's own inequalities are evaluated on what the implementation returned (big.Int, no model).
//  (b) APP histories: real MsgJoinPool / MsgExitPool on the real application (constant-product and
//      oracle pool of the market fixture); wallet deltas, pool book, pool bank balance and the
//      value per share are checked on the implementation; all-asset steps are also written as Coq cases.

import (
	"fmt"
	"math/big"
	"strings"
	"testing"

	sdkmath "cosmossdk.io/math"
	sdk "github.com/cosmos/cosmos-sdk/types"

	ammtypes "github.com/elys-network/elys/x/amm/types"
	oracletypes "github.com/elys-network/elys/x/oracle/types"
)

// ---------- mocks ----------

type c05Oracle struct{ prices map[string]sdkmath.LegacyDec }

func (o c05Oracle) GetAssetPrice(ctx sdk.Context, asset string) (oracletypes.Price, bool) {
	return oracletypes.Price{}, false
}
func (o c05Oracle) GetAssetPriceFromDenom(ctx sdk.Context, denom string) sdkmath.LegacyDec {
	if p, ok := o.prices[denom]; ok {
		return p
	}
	return sdkmath.LegacyZeroDec()
}
func (o c05Oracle) GetPriceFeeder(ctx sdk.Context, feeder sdk.AccAddress) (oracletypes.PriceFeeder, bool) {
	return oracletypes.PriceFeeder{}, false
}

type c05Acc struct{ acc map[string]sdkmath.Int }

func (a c05Acc) GetAccountedBalance(ctx sdk.Context, id uint64, denom string) sdkmath.Int {
	if x, ok := a.acc[denom]; ok {
		return x
	}
	return sdkmath.ZeroInt()
}

// ---------- case description (also the replay format) ----------

type c05Coin struct {
	D int    `json:"d"` // denom index: position in the pool, >= len(pool) = not a pool denom
	A string `json:"a"`
}

type c05AppOp struct {
	Op    string    `json:"op"` // join_cp join_oracle join_oracle_single exit_cp exit_oracle exit_oracle_single wait
	User  int       `json:"user"`
	Coins []c05Coin `json:"coins,omitempty"` // denom index into the pool's sorted denoms
	Share string    `json:"share,omitempty"` // "rel:k" or absolute
	D     int       `json:"d,omitempty"`
}

type c05Case struct {
	ID      int        `json:"id"`
	Kind    string     `json:"kind"` // join_coins join_shares exit ojoin oexit single app
	R       []string   `json:"r,omitempty"`
	S       string     `json:"s,omitempty"`
	Coins   []c05Coin  `json:"coins,omitempty"`
	Share   string     `json:"share,omitempty"` // shareOut / exiting shares
	D       int        `json:"d,omitempty"`
	Amt     string     `json:"amt,omitempty"`
	Acc     []string   `json:"acc,omitempty"`
	Prices  []string   `json:"prices,omitempty"` // raw 18-decimals
	Weights []string   `json:"weights,omitempty"`
	Fee     string     `json:"fee,omitempty"`
	Imb     int64      `json:"oracle_usdc_permille,omitempty"` // app: initial USDC side of the oracle pool
	Ops     []c05AppOp `json:"ops,omitempty"`
	Wb      []string   `json:"wb,omitempty"` // ojoin / oexit: amm params multiplier, exponent, portion, threshold (raw); empty = defaults
}

func c05Den(i int) string { return fmt.Sprintf("denom%d", i) }

func bigs(xs []string) []*big.Int {
	out := make([]*big.Int, len(xs))
	for i, s := range xs {
		out[i], _ = new(big.Int).SetString(s, 10)
		if out[i] == nil {
			out[i] = new(big.Int)
		}
	}
	return out
}
func c05Big(s string) *big.Int {
	x, ok := new(big.Int).SetString(s, 10)
	if !ok {
		return new(big.Int)
	}
	return x
}
func zlist(xs []*big.Int) string {
	ss := make([]string, len(xs))
	for i, x := range xs {
		ss[i] = zstr(x)
	}
	return "[" + strings.Join(ss, ";") + "]"
}
func strs(xs []*big.Int) []string {
	ss := make([]string, len(xs))
	for i, x := range xs {
		ss[i] = x.String()
	}
	return ss
}
func mulB(a, b *big.Int) *big.Int { return new(big.Int).Mul(a, b) }
func addB(a, b *big.Int) *big.Int { return new(big.Int).Add(a, b) }
func subB(a, b *big.Int) *big.Int { return new(big.Int).Sub(a, b) }
func pow10(n int) *big.Int        { return new(big.Int).Exp(big.NewInt(10), big.NewInt(int64(n)), nil) }

func c05Pool(R []*big.Int, S *big.Int, weights []*big.Int, oracle bool, fee string) ammtypes.Pool {
	assets := make([]ammtypes.PoolAsset, len(R))
	tw := sdkmath.ZeroInt()
	for i := range R {
		w := sdkmath.NewInt(1 << 30)
		if weights != nil {
			w = sdkmath.NewIntFromBigInt(weights[i])
		}
		tw = tw.Add(w)
		assets[i] = ammtypes.PoolAsset{Token: sdk.Coin{Denom: c05Den(i), Amount: sdkmath.NewIntFromBigInt(R[i])}, Weight: w, ExternalLiquidityRatio: sdkmath.LegacyOneDec()}
	}
	if fee == "" {
		fee = "0"
	}
	return ammtypes.Pool{PoolId: 1, Address: ammtypes.NewPoolAddress(1).String(), RebalanceTreasury: ammtypes.NewPoolRebalanceTreasury(1).String(),
		PoolParams:  ammtypes.PoolParams{SwapFee: sdkmath.LegacyMustNewDecFromStr(fee), UseOracle: oracle, FeeDenom: c05Den(0)},
		TotalShares: sdk.Coin{Denom: "amm/pool/1", Amount: sdkmath.NewIntFromBigInt(S)}, PoolAssets: assets, TotalWeight: tw}
}

func c05Reserves(p *ammtypes.Pool) []*big.Int {
	out := make([]*big.Int, len(p.PoolAssets))
	for i, a := range p.PoolAssets {
		out[i] = a.Token.Amount.BigInt()
	}
	return out
}

// protect runs f and classifies the outcome; overflow panics (|Int| > 2^256, not modelled) are "skip".
func protect(f func() error) (kind string) {
	defer func() {
		if r := recover(); r != nil {
			if strings.Contains(strings.ToLower(fmt.Sprint(r)), "overflow") || strings.Contains(fmt.Sprint(r), "out of bound") {
				kind = "skip"
			} else {
				kind = "panic"
			}
		}
	}()
	if err := f(); err != nil {
		return "err"
	}
	return "ok"
}

var kindNo = map[string]int{"ok": 0, "err": 1, "panic": 2}

func coinsCoq(cs []c05Coin) string {
	ss := make([]string, len(cs))
	for i, c := range cs {
		ss[i] = fmt.Sprintf("(%d%%nat,%s)", c.D, zstr(c05Big(c.A)))
	}
	return "[" + strings.Join(ss, ";") + "]"
}

func hasDup(cs []c05Coin) bool {
	seen := map[int]bool{}
	for _, c := range cs {
		if seen[c.D] {
			return true
		}
		seen[c.D] = true
	}
	return false
}

// ---------- the property's own predicates on the implementation (no model involved) ----------

type c05Chk struct {
	col  *Collector
	c    c05Case
	step int
}

func (k c05Chk) fail(sig, detail string) {
	k.col.Violate(Violation{Signature: sig, Detail: detail, History: k.c.ID, Step: k.step, Replay: k.c})
}

// all-asset join: shares never worth more than the deposit in ANY asset; leftover LPs not diluted
func (k c05Chk) joinAll(R, R2 []*big.Int, S, S2, shares *big.Int, dup bool, form string) {
	pre := "C05:join"
	if dup {
		pre = "C05:join-duplicate-denom"
	}
	for i := range R {
		j := subB(R2[i], R[i])
		if mulB(shares, R[i]).Cmp(mulB(j, S)) > 0 {
			k.fail(pre+"-shares-exceed-deposit", fmt.Sprintf("%s: asset %d reserve %s joined %s, shares %s of supply %s: shares*R > joined*S", form, i, R[i], j, shares, S))
			return
		}
		if mulB(R2[i], S).Cmp(mulB(R[i], S2)) < 0 {
			k.fail(pre+"-dilutes-lps", fmt.Sprintf("%s: asset %d reserve per share decreased: %s/%s -> %s/%s", form, i, R[i], S, R2[i], S2))
			return
		}
	}
	if subB(S2, S).Cmp(shares) != 0 || shares.Sign() < 0 {
		k.fail("C05:join-share-accounting", fmt.Sprintf("%s: supply %s -> %s but %s shares minted", form, S, S2, shares))
	}
	k.col.ImplCheck(2*len(R) + 1)
}

// exit: outs never above the pro-rata claim, leftover LPs not diluted, nothing emptied, book = what is left
func (k c05Chk) exitAll(R, R2, outs []*big.Int, S, S2, sh *big.Int, form string) {
	for i := range R {
		if mulB(outs[i], S).Cmp(mulB(sh, R[i])) > 0 {
			k.fail("C05:exit-exceeds-prorata", fmt.Sprintf("%s: asset %d out %s for %s of %s shares, reserve %s", form, i, outs[i], sh, S, R[i]))
			return
		}
	}
	k.exitCommon(R, R2, outs, S, S2, sh, form)
}

func (k c05Chk) exitCommon(R, R2, outs []*big.Int, S, S2, sh *big.Int, form string) {
	for i := range R {
		left := subB(R[i], outs[i])
		if left.Sign() <= 0 && R[i].Sign() > 0 {
			k.fail("C05:exit-drains-reserve", fmt.Sprintf("%s: asset %d reserve %s, paid out %s: nothing left (pool book afterwards says %s)", form, i, R[i], outs[i], R2[i]))
			return
		}
		if left.Cmp(R2[i]) != 0 {
			k.fail("C05:exit-book-differs-from-paid", fmt.Sprintf("%s: asset %d reserve %s - out %s != book %s", form, i, R[i], outs[i], R2[i]))
			return
		}
		if sh.Sign() >= 0 && mulB(R2[i], S).Cmp(mulB(R[i], S2)) < 0 && form != "oracle-single" {
			k.fail("C05:exit-dilutes-lps", fmt.Sprintf("%s: asset %d reserve per share decreased: %s/%s -> %s/%s", form, i, R[i], S, R2[i], S2))
			return
		}
	}
	if S2.Sign() <= 0 || subB(S, sh).Cmp(S2) != 0 {
		k.fail("C05:exit-burns-all-shares", fmt.Sprintf("%s: supply %s -> %s exiting %s", form, S, S2, sh))
	}
	k.col.ImplCheck(3*len(R) + 1)
}

// ---------- pure execution ----------

func c05Pure(col *Collector, c c05Case) string {
	ctx := sdk.Context{}
	params := c05WbfParams(c)
	R, S := bigs(c.R), c05Big(c.S)
	chk := c05Chk{col: col, c: c}
	id := c.ID
	switch c.Kind {
	case "join_coins":
		p := c05Pool(R, S, nil, true, "")
		snap := p
		var tokens sdk.Coins
		for _, x := range c.Coins {
			tokens = append(tokens, sdk.Coin{Denom: c05Den(x.D), Amount: sdkmath.NewIntFromBigInt(c05Big(x.A))})
		}
		var shares sdkmath.Int
		var joined sdk.Coins
		kind := protect(func() (err error) {
			joined, shares, _, _, err = p.JoinPool(ctx, &snap, c05Oracle{}, c05Acc{}, tokens, params)
			return err
		})
		amt := new(big.Int)
		if len(c.Coins) > 0 {
			amt = c05Big(c.Coins[0].A)
		}
		col.Op("join_coins", kind, amt)
		if kind == "skip" {
			return ""
		}
		col.Distinct(fmt.Sprintf("jc:%v:%s:%v", c.R, c.S, c.Coins), kind == "ok")
		if kind != "ok" {
			return fmt.Sprintf("CJoinCoins %d %s %s %s %d 0 [] [] 0", id, zlist(R), zstr(S), coinsCoq(c.Coins), kindNo[kind])
		}
		R2, S2 := c05Reserves(&p), p.TotalShares.Amount.BigInt()
		j := make([]*big.Int, len(R))
		for i := range R {
			j[i] = subB(R2[i], R[i])
			// what the joiner is charged (tokensJoined) is what the pool books
			if joined.AmountOf(c05Den(i)).BigInt().Cmp(j[i]) != 0 {
				chk.fail("C05:join-charged-differs-from-booked", fmt.Sprintf("asset %d charged %s booked %s", i, joined.AmountOf(c05Den(i)), j[i]))
			}
		}
		// the predicate is claimed for every coin set a user can submit: MsgJoinPool.ValidateBasic decides that
		vb := (&ammtypes.MsgJoinPool{Sender: Addr(1).String(), PoolId: 1, MaxAmountsIn: tokens, ShareAmountOut: sdkmath.OneInt()}).ValidateBasic()
		if vb == nil {
			chk.joinAll(R, R2, S, S2, shares.BigInt(), hasDup(c.Coins), "tokens-given")
		} else {
			col.Op("join_coins_input_rejected_by_validate_basic", "ok", nil)
		}
		return fmt.Sprintf("CJoinCoins %d %s %s %s 0 %s %s %s %s", id, zlist(R), zstr(S), coinsCoq(c.Coins), zstr(shares.BigInt()), zlist(j), zlist(R2), zstr(S2))
	case "join_shares":
		p := c05Pool(R, S, nil, false, "")
		snap := p
		so := c05Big(c.Share)
		var needed, joined sdk.Coins
		var shares sdkmath.Int
		kind := protect(func() (err error) {
			needed, err = p.GetMaximalNoSwapLPAmount(sdkmath.NewIntFromBigInt(so))
			if err != nil {
				return err
			}
			joined, shares, _, _, err = p.JoinPool(ctx, &snap, c05Oracle{}, c05Acc{}, needed, params)
			return err
		})
		col.Op("join_shares", kind, so)
		if kind == "skip" {
			return ""
		}
		col.Distinct(fmt.Sprintf("js:%v:%s:%s", c.R, c.S, c.Share), kind == "ok")
		if kind != "ok" {
			return fmt.Sprintf("CJoinShares %d %s %s %s %d [] 0 [] [] 0", id, zlist(R), zstr(S), zstr(so), kindNo[kind])
		}
		R2, S2 := c05Reserves(&p), p.TotalShares.Amount.BigInt()
		j, nd := make([]*big.Int, len(R)), make([]*big.Int, len(R))
		for i := range R {
			j[i] = subB(R2[i], R[i])
			nd[i] = needed.AmountOf(c05Den(i)).BigInt()
			if j[i].Cmp(nd[i]) > 0 || joined.AmountOf(c05Den(i)).BigInt().Cmp(j[i]) != 0 {
				chk.fail("C05:join-charged-more-than-quoted", fmt.Sprintf("asset %d quoted %s charged %s booked %s", i, nd[i], joined.AmountOf(c05Den(i)), j[i]))
			}
		}
		chk.joinAll(R, R2, S, S2, shares.BigInt(), false, "shares-requested")
		return fmt.Sprintf("CJoinShares %d %s %s %s 0 %s %s %s %s %s", id, zlist(R), zstr(S), zstr(so), zlist(nd), zstr(shares.BigInt()), zlist(j), zlist(R2), zstr(S2))
	case "exit":
		p := c05Pool(R, S, nil, c.D == 1, "")
		sh := c05Big(c.Share)
		var out sdk.Coins
		kind := protect(func() (err error) {
			out, err = p.ExitPool(ctx, c05Oracle{}, c05Acc{}, sdkmath.NewIntFromBigInt(sh), "", params)
			return err
		})
		col.Op("exit", kind, sh)
		if kind == "skip" {
			return ""
		}
		col.Distinct(fmt.Sprintf("ex:%v:%s:%s", c.R, c.S, c.Share), kind == "ok")
		if kind != "ok" {
			return fmt.Sprintf("CExit %d %s %s %s %d [] [] 0", id, zlist(R), zstr(S), zstr(sh), kindNo[kind])
		}
		R2, S2 := c05Reserves(&p), p.TotalShares.Amount.BigInt()
		outs := make([]*big.Int, len(R))
		for i := range R {
			outs[i] = out.AmountOf(c05Den(i)).BigInt()
		}
		if sh.Sign() > 0 { // the keeper rejects non-positive amounts before this function is reached
			chk.exitAll(R, R2, outs, S, S2, sh, "pro-rata")
		}
		return fmt.Sprintf("CExit %d %s %s %s 0 %s %s %s", id, zlist(R), zstr(S), zstr(sh), zlist(outs), zlist(R2), zstr(S2))
	case "ojoin", "oexit":
		W, acc, prices := bigs(c.Weights), bigs(c.Acc), bigs(c.Prices)
		p := c05Pool(R, S, W, true, "")
		snap := p
		ok := c05Oracle{prices: map[string]sdkmath.LegacyDec{}}
		ak := c05Acc{acc: map[string]sdkmath.Int{}}
		for i := range R {
			ok.prices[c05Den(i)] = rawDec(prices[i])
			ak.acc[c05Den(i)] = sdkmath.NewIntFromBigInt(acc[i])
		}
		tv := new(big.Int)
		if protect(func() error { t, err := p.TVL(ctx, ok, ak); tv = t.BigInt(); return err }) == "skip" {
			return ""
		}
		inputs := fmt.Sprintf("%s %s %s", zlist(acc), zlist(prices), zlist(W))
		if c.Kind == "ojoin" {
			amt := c05Big(c.Amt)
			var shares sdkmath.Int
			var bonus sdkmath.LegacyDec
			kind := protect(func() (err error) {
				_, shares, _, bonus, err = p.JoinPool(ctx, &snap, ok, ak, sdk.Coins{sdk.Coin{Denom: c05Den(c.D), Amount: sdkmath.NewIntFromBigInt(amt)}}, params)
				return err
			})
			col.Op("ojoin", kind, amt)
			if kind == "skip" || kind == "panic" { // Pow inside GetWeightBreakingFee can reject its base: no fee to resolve
				return ""
			}
			col.Distinct(fmt.Sprintf("oj:%v:%s:%s:%v:%v", c.R, c.S, c.Amt, c.Prices, c.Acc), kind == "ok")
			if kind != "ok" {
				return fmt.Sprintf("COJoin %d %s %s %d%%nat %s %s 0 %d 0 0 [] 0", id, zlist(R), zstr(S), c.D, zstr(amt), inputs, kindNo[kind])
			}
			wbf := new(big.Int)
			if bonus.IsNegative() {
				wbf = bonus.Neg().BigInt()
			}
			R2, S2 := c05Reserves(&p), p.TotalShares.Amount.BigInt()
			// value of the minted shares at the pool's own valuation never above the deposited value (+1 share unit)
			jv := mulB(prices[c.D], amt)
			if mulB(shares.BigInt(), tv).Cmp(addB(mulB(S, jv), tv)) > 0 {
				chk.fail("C05:oracle-join-shares-exceed-value", fmt.Sprintf("shares %s * tvl %s > supply %s * join value %s + tvl", shares, tv, S, jv))
			}
			if subB(R2[c.D], R[c.D]).Cmp(amt) != 0 || subB(S2, S).Cmp(shares.BigInt()) != 0 {
				chk.fail("C05:join-share-accounting", "oracle single-sided join: book does not match")
			}
			col.ImplCheck(2)
			return fmt.Sprintf("COJoin %d %s %s %d%%nat %s %s %s 0 %s %s %s %s", id, zlist(R), zstr(S), c.D, zstr(amt), inputs, zstr(wbf), zstr(tv), zstr(shares.BigInt()), zlist(R2), zstr(S2))
		}
		sh := c05Big(c.Share)
		var bonus sdkmath.LegacyDec
		var out sdk.Coins
		kind := protect(func() (err error) {
			_, bonus, err = p.CalcExitPoolCoinsFromShares(ctx, ok, ak, sdkmath.NewIntFromBigInt(sh), c05Den(c.D), params)
			return err
		})
		if kind == "ok" {
			kind = protect(func() (err error) {
				out, err = p.ExitPool(ctx, ok, ak, sdkmath.NewIntFromBigInt(sh), c05Den(c.D), params)
				return err
			})
		} else if kind == "panic" {
			col.Op("oexit", "pow-panic", sh)
			return ""
		}
		col.Op("oexit", kind, sh)
		if kind == "skip" {
			return ""
		}
		wbf := new(big.Int)
		if !bonus.IsNil() {
			wbf = bonus.Neg().BigInt()
		}
		col.Distinct(fmt.Sprintf("oe:%v:%s:%s:%v:%v", c.R, c.S, c.Share, c.Prices, c.Acc), kind == "ok")
		if kind != "ok" {
			return fmt.Sprintf("COExit %d %s %s %s %d%%nat %s %s %d 0 [] 0", id, zlist(R), zstr(S), zstr(sh), c.D, inputs, zstr(wbf), kindNo[kind])
		}
		R2, S2 := c05Reserves(&p), p.TotalShares.Amount.BigInt()
		outs := make([]*big.Int, len(R))
		for i := range R {
			outs[i] = out.AmountOf(c05Den(i)).BigInt()
		}
		// out * price * S <= tvl * shares + S * (price + 1): at most one base unit (+1e-18) above the pro-rata value
		lhs := mulB(mulB(outs[c.D], prices[c.D]), S)
		rhs := addB(mulB(tv, sh), mulB(S, addB(prices[c.D], big.NewInt(1))))
		if lhs.Cmp(rhs) > 0 {
			chk.fail("C05:oracle-exit-exceeds-value", fmt.Sprintf("out %s * price %s * supply %s > tvl %s * shares %s + slack", outs[c.D], prices[c.D], S, tv, sh))
		}
		chk.exitCommon(R, R2, outs, S, S2, sh, "oracle-single")
		return fmt.Sprintf("COExit %d %s %s %s %d%%nat %s %s 0 %s %s %s", id, zlist(R), zstr(S), zstr(sh), c.D, inputs, zstr(wbf), zstr(outs[c.D]), zlist(R2), zstr(S2))
	case "single":
		W := bigs(c.Weights)
		p := c05Pool(R, S, W, false, c.Fee)
		amt := c05Big(c.Amt)
		var shares sdkmath.Int
		kind := protect(func() (err error) {
			shares, _, err = p.CalcSingleAssetJoinPoolShares(sdk.Coins{sdk.Coin{Denom: c05Den(c.D), Amount: sdkmath.NewIntFromBigInt(amt)}})
			return err
		})
		col.Op("single", kind, amt)
		if kind != "ok" {
			return ""
		}
		// the argument handed to Pow, recomputed with the SDK's own decimal operations
		one := sdkmath.LegacyOneDec()
		wn := sdkmath.LegacyNewDecFromBigInt(W[c.D]).Quo(sdkmath.LegacyNewDecFromInt(p.TotalWeight))
		afterFee := sdkmath.LegacyNewDecFromBigInt(amt).Mul(one.Sub(one.Sub(wn).Mul(p.PoolParams.SwapFee)))
		B := sdkmath.LegacyNewDecFromBigInt(R[c.D])
		y := B.Add(afterFee).Quo(B)
		var pw sdkmath.LegacyDec
		if protect(func() error { pw = ammtypes.Pow(y, wn); return nil }) != "ok" {
			return ""
		}
		col.Distinct(fmt.Sprintf("sg:%v:%s:%s:%d", c.R, c.S, c.Amt, c.D), true)
		// the deposited asset's reserve per share does not decrease (+1 share unit), given y^w <= y
		if pw.LTE(y) && mulB(shares.BigInt(), R[c.D]).Cmp(addB(mulB(amt, S), addB(S, R[c.D]))) > 0 {
			chk.fail("C05:single-join-shares-exceed-deposit", fmt.Sprintf("shares %s * reserve %s > amount %s * supply %s + slack", shares, R[c.D], amt, S))
		}
		col.ImplCheck(1)
		tw := p.TotalWeight.BigInt()
		return fmt.Sprintf("CSingle %d %s %s %s %s %s %s %s %s %s %s", id, zstr(R[c.D]), zstr(W[c.D]), zstr(tw), zstr(amt),
			zstr(p.PoolParams.SwapFee.BigInt()), zstr(S), zstr(pw.BigInt()), zstr(y.BigInt()), zstr(wn.BigInt()), zstr(shares.BigInt()))
	}
	return ""
}

// ---------- pure generators ----------

func c05Reserve(r *Rng) *big.Int {
	switch r.Intn(12) {
	case 0:
		return big.NewInt(1)
	case 1:
		return big.NewInt(int64(2 + r.Intn(8)))
	default:
		return r.Decade(0, 31)
	}
}

func c05Supply(r *Rng) *big.Int {
	switch r.Intn(10) {
	case 0:
		return r.Decade(0, 7)
	case 1:
		return pow10(18 + r.Intn(13))
	default:
		return r.Decade(18, 31)
	}
}

func relTo(r *Rng, base *big.Int) *big.Int {
	switch r.Intn(12) {
	case 0:
		return big.NewInt(1)
	case 1:
		return new(big.Int).Div(base, big.NewInt(1000))
	case 2:
		return new(big.Int).Div(base, big.NewInt(3))
	case 3:
		return new(big.Int).Div(base, big.NewInt(2))
	case 4:
		return subB(base, big.NewInt(1))
	case 5:
		return new(big.Int).Set(base)
	case 6:
		return addB(base, big.NewInt(1))
	case 7:
		return mulB(base, big.NewInt(int64(2+r.Intn(9))))
	case 8:
		return new(big.Int).Div(base, pow10(1+r.Intn(20)))
	default:
		return r.Big(addB(base, big.NewInt(1)))
	}
}

func c05PureGen(r *Rng, id int) c05Case {
	c := c05Case{ID: id}
	n := 2
	if x := r.Intn(10); x >= 7 {
		n = 3 + r.Intn(2)
	}
	R := make([]*big.Int, n)
	for i := range R {
		R[i] = c05Reserve(r)
	}
	S := c05Supply(r)
	x := r.Intn(100)
	switch {
	case x < 30:
		c.Kind = "join_coins"
		// a fraction f of the pool, perturbed
		f := relTo(r, pow10(18))
		for i := range R {
			a := new(big.Int).Div(mulB(R[i], f), pow10(18))
			switch r.Intn(8) {
			case 0:
				a.Add(a, big.NewInt(1))
			case 1:
				a = relTo(r, R[i])
			case 2:
				a = r.Decade(0, 31)
			case 3:
				if r.Chance(30) {
					a = big.NewInt(0)
				}
			}
			if a.Sign() < 0 {
				a.SetInt64(0)
			}
			c.Coins = append(c.Coins, c05Coin{D: i, A: a.String()})
		}
		switch r.Intn(14) { // malformed user input: MaxAmountsIn is validated coin by coin only
		case 0: // duplicate denom, small first
			d := r.Intn(n)
			a := relTo(r, R[d])
			if a.Sign() <= 0 {
				a.SetInt64(1)
			}
			c.Coins = c.Coins[:0]
			for i := 0; i < n; i++ {
				c.Coins = append(c.Coins, c05Coin{D: d, A: mulB(a, big.NewInt(int64(i+1))).String()})
			}
		case 1: // duplicate denom, any order
			d := r.Intn(n)
			c.Coins[r.Intn(n)].D = d
		case 2: // unsorted
			c.Coins[0], c.Coins[n-1] = c.Coins[n-1], c.Coins[0]
		case 3: // not a pool denom
			c.Coins[n-1].D = n + r.Intn(2)
		case 4: // too few / too many
			if r.Chance(50) && n > 2 {
				c.Coins = c.Coins[:n-1]
			} else {
				c.Coins = append(c.Coins, c05Coin{D: n - 1, A: "5"})
			}
		case 5: // zero reserve in the pool
			R[r.Intn(n)] = big.NewInt(0)
		}
	case x < 50:
		c.Kind = "join_shares"
		so := relTo(r, S)
		switch r.Intn(10) {
		case 0:
			so = big.NewInt(0)
		case 1:
			so = big.NewInt(-5)
		case 2:
			so = mulB(S, big.NewInt(int64(1+r.Intn(900))))
		case 3:
			so = new(big.Int).Div(S, pow10(18)) // share ratio exactly 10^-18 or 0
		}
		c.Share = so.String()
	case x < 70:
		c.Kind = "exit"
		sh := relTo(r, S)
		if r.Chance(4) {
			sh = big.NewInt(-7)
		}
		if r.Chance(4) {
			sh = big.NewInt(0)
		}
		if r.Chance(3) {
			R[r.Intn(n)] = big.NewInt(0)
		}
		c.Share = sh.String()
		c.D = r.Intn(2) // oracle pool flag: the pro-rata branch is shared
	case x < 92:
		R = R[:2]
		for i := range R {
			R[i] = r.Decade(0, 19)
		}
		S = r.Decade(12, 25)
		if r.Chance(15) {
			S = r.Decade(0, 6)
		}
		prices := []*big.Int{r.Decade(12, 23), r.Decade(12, 23)}
		if r.Chance(40) {
			prices[0] = pow10(18)
		}
		if r.Chance(4) {
			prices[r.Intn(2)] = big.NewInt(0)
		}
		w := []*big.Int{big.NewInt(10 << 30), big.NewInt(10 << 30)}
		if r.Chance(30) {
			w[0] = big.NewInt(int64(1+r.Intn(9)) << 30)
		}
		acc := []*big.Int{big.NewInt(0), big.NewInt(0)}
		if r.Chance(35) {
			for i := range acc {
				if r.Chance(70) {
					acc[i] = addB(R[i], r.Big(addB(R[i], big.NewInt(1))))
				}
			}
		}
		c.Prices, c.Weights, c.Acc = strs(prices), strs(w), strs(acc)
		c.D = r.Intn(2)
		if x < 80 {
			c.Kind = "ojoin"
			a := relTo(r, R[c.D])
			if r.Chance(30) {
				a = r.Decade(0, 19)
			}
			if a.Sign() < 0 {
				a.SetInt64(0)
			}
			c.Amt = a.String()
		} else {
			c.Kind = "oexit"
			sh := relTo(r, S)
			if r.Chance(45) {
				// shares worth (about / exactly) the whole reserve of the asset taken out
				v := mulB(R[c.D], prices[c.D])
				tv := addB(mulB(R[0], prices[0]), mulB(R[1], prices[1]))
				if tv.Sign() > 0 {
					sh = new(big.Int).Div(mulB(S, v), tv)
					switch r.Intn(4) {
					case 0:
						sh.Add(sh, big.NewInt(1))
					case 1:
						sh = new(big.Int).Div(mulB(sh, big.NewInt(int64(90+r.Intn(20)))), big.NewInt(100))
					}
				}
			}
			if sh.Sign() < 0 {
				sh.SetInt64(0)
			}
			c.Share = sh.String()
		}
	default:
		c.Kind = "single"
		for i := range R {
			R[i] = r.Decade(0, 25)
		}
		S = r.Decade(18, 25)
		w := make([]*big.Int, len(R))
		for i := range w {
			w[i] = big.NewInt(int64(1+r.Intn(5)) << 30)
		}
		c.Weights = strs(w)
		c.D = r.Intn(len(R))
		a := relTo(r, R[c.D])
		if a.Sign() <= 0 {
			a.SetInt64(1)
		}
		c.Amt = a.String()
		c.Fee = []string{"0", "0.003", "0.01", "0.1"}[r.Intn(4)]
	}
	c.R, c.S = strs(R), S.String()
	if c.Kind == "ojoin" || c.Kind == "oexit" {
		c05WbfGen(r, &c)
	}
	return c
}

// ---------- real application ----------

func c05AppGen(r *Rng, id int) c05Case {
	c := c05Case{ID: id, Kind: "app", Imb: r.Pick(500, 500, 400, 300, 650, 200, 850, 150, 900)}
	n := 8 + r.Intn(8)
	if c.Imb >= 850 || c.Imb <= 150 {
		// a pool far off its target weights (beyond the weight-recovery threshold): consecutive single-sided joins of the
		// UNDER-weight asset (the weight-recovering direction, bonus branch), each priced from the accounted pool the
		// previous join must have refreshed
		d := 0 // pool assets are sorted by denom: 0 = uatom, 1 = uusdc; Imb is the uusdc permille
		if c.Imb <= 150 {
			d = 1
		}
		for j := 0; j < 2+r.Intn(2); j++ {
			c.Ops = append(c.Ops, c05AppOp{Op: "join_oracle_single", User: 1 + r.Intn(3), D: d, Coins: []c05Coin{{D: 0, A: r.Decade(7, 10).String()}}})
		}
	}
	for k := 0; k < n; k++ {
		u := 1 + r.Intn(3)
		x := r.Intn(100)
		switch {
		case x < 20:
			c.Ops = append(c.Ops, c05AppOp{Op: "join_cp", User: u, Share: fmt.Sprintf("rel:%d", r.Intn(12))})
		case x < 24:
			// single-asset join of the weighted (1:3) constant-product pool, from dust to a multiple of the reserve
			c.Ops = append(c.Ops, c05AppOp{Op: "join_cp_single", User: u, D: r.Intn(2), Coins: []c05Coin{{D: 0, A: r.Decade(0, 11).String()}}})
		case x < 38:
			op := c05AppOp{Op: "join_oracle", User: u}
			a := r.Decade(0, 11)
			b := r.Decade(0, 11)
			op.Coins = []c05Coin{{D: 0, A: a.String()}, {D: 1, A: b.String()}}
			switch r.Intn(6) {
			case 0: // duplicate denom, small first
				d := r.Intn(2)
				op.Coins = []c05Coin{{D: d, A: a.String()}, {D: d, A: mulB(a, big.NewInt(2)).String()}}
			case 1:
				d := r.Intn(2)
				op.Coins = []c05Coin{{D: d, A: a.String()}, {D: d, A: b.String()}}
			case 2:
				op.Coins[0], op.Coins[1] = op.Coins[1], op.Coins[0]
			}
			c.Ops = append(c.Ops, op)
		case x < 50:
			c.Ops = append(c.Ops, c05AppOp{Op: "join_oracle_single", User: u, D: r.Intn(2), Coins: []c05Coin{{D: 0, A: r.Decade(0, 11).String()}}})
		case x < 64:
			c.Ops = append(c.Ops, c05AppOp{Op: "exit_cp", User: r.Intn(4), Share: fmt.Sprintf("rel:%d", r.Intn(12))})
		case x < 76:
			c.Ops = append(c.Ops, c05AppOp{Op: "exit_oracle", User: r.Intn(4), Share: fmt.Sprintf("rel:%d", r.Intn(12))})
		case x < 90:
			c.Ops = append(c.Ops, c05AppOp{Op: "exit_oracle_single", User: r.Intn(4), D: r.Intn(2), Share: fmt.Sprintf("rel:%d", 12+r.Intn(6))})
		default:
			c.Ops = append(c.Ops, c05AppOp{Op: "wait"})
		}
	}
	return c
}

type c05App struct {
	w   *World
	m   *Market
	col *Collector
	c   c05Case
}

func (x *c05App) pool(id uint64) ammtypes.Pool {
	p, _ := x.w.App.AmmKeeper.GetPool(x.w.QCtx(), id)
	return p
}
func (x *c05App) shares(u sdk.AccAddress, id uint64) *big.Int {
	com := x.w.App.CommitmentKeeper.GetCommitments(x.w.QCtx(), u)
	return com.GetCommittedAmountForDenom(ammtypes.GetPoolShareDenom(id)).BigInt()
}

func c05AppExec(t *testing.T, col *Collector, c c05Case) []string {
	w := NewWorld(t)
	o := DefaultMarketOpts()
	o.Users = 5
	o.NoLeverage = c.ID%2 == 0 // every other history runs with leveragelp/perpetual enabled on the oracle pool: joins are then priced from the ACCOUNTED pool
	if c.Imb > 0 { // value split of the oracle pool: USDC permille of a 2e11 TVL
		o.OracleUSDC = 200_000_000 * c.Imb
		o.OracleATOM = 200_000_000 * (1000 - c.Imb) / 5
	}
	m := NewMarket(w, o)
	x := &c05App{w: w, m: m, col: col, c: c}
	m.RefreshPrices()
	if err := w.EndBlock(3700); err != nil {
		t.Fatalf("block: %v", err)
	}
	m.RefreshPrices()
	var cases []string
	price := map[string]*big.Int{USDC: big.NewInt(1), ATOM: big.NewInt(5), ELYS: big.NewInt(3)}
	for k, op := range c.Ops {
		chk := c05Chk{col: col, c: c, step: k}
		u := m.Users[op.User%len(m.Users)]
		pid := m.CPPool
		if strings.Contains(op.Op, "oracle") {
			pid = m.OraclePool
		}
		if op.Op == "wait" {
			m.RefreshPrices()
			if err := w.EndBlock(3700); err != nil {
				chk.fail("C05:block-failed", err.Error())
				return cases
			}
			m.RefreshPrices()
			col.Op("wait", "ok", nil)
			continue
		}
		p0 := x.pool(pid)
		R, S := c05Reserves(&p0), p0.TotalShares.Amount.BigInt()
		den := func(i int) string { return p0.PoolAssets[i%len(p0.PoolAssets)].Token.Denom }
		paddr := sdk.MustAccAddressFromBech32(p0.Address)
		bal := func(a sdk.AccAddress) []*big.Int {
			out := make([]*big.Int, len(R))
			for i := range R {
				out[i] = w.Bal(a, den(i)).BigInt()
			}
			return out
		}
		ub0, sh0 := bal(u), x.shares(u, pid)
		tvl := func(rs []*big.Int) *big.Int {
			v := new(big.Int)
			for i := range rs {
				v.Add(v, mulB(rs[i], price[den(i)]))
			}
			return v
		}
		var res TxResult
		var want *big.Int
		cid := c.ID*100 + k
		switch op.Op {
		case "join_cp":
			want = relShare(op.Share, S)
			maxs := sdk.Coins{}
			for i := range R {
				maxs = append(maxs, sdk.NewCoin(den(i), sdkmath.NewInt(900_000_000_000)))
			}
			res = w.Deliver(&ammtypes.MsgJoinPool{Sender: u.String(), PoolId: pid, MaxAmountsIn: maxs, ShareAmountOut: sdkmath.NewIntFromBigInt(want)})
		case "join_cp_single":
			want = c05Big(op.Coins[0].A)
			res = w.Deliver(&ammtypes.MsgJoinPool{Sender: u.String(), PoolId: pid, MaxAmountsIn: sdk.Coins{sdk.Coin{Denom: den(op.D), Amount: sdkmath.NewIntFromBigInt(want)}}, ShareAmountOut: sdkmath.NewInt(1)})
		case "join_oracle", "join_oracle_single":
			var maxs sdk.Coins
			for _, cn := range op.Coins {
				d := cn.D
				if op.Op == "join_oracle_single" {
					d = op.D
				}
				maxs = append(maxs, sdk.Coin{Denom: den(d), Amount: sdkmath.NewIntFromBigInt(c05Big(cn.A))})
			}
			want = c05Big(op.Coins[0].A)
			res = w.Deliver(&ammtypes.MsgJoinPool{Sender: u.String(), PoolId: pid, MaxAmountsIn: maxs, ShareAmountOut: sdkmath.NewInt(1)})
		case "exit_cp", "exit_oracle", "exit_oracle_single":
			want = relShare(op.Share, sh0)
			if strings.HasPrefix(op.Share, "rel:") && op.Op == "exit_oracle_single" {
				// aim at the whole reserve of the asset taken out (if the account owns that much)
				switch op.Share {
				case "rel:12", "rel:13":
					want = new(big.Int).Div(mulB(S, mulB(R[op.D%2], price[den(op.D)])), tvl(R))
				case "rel:14":
					want = new(big.Int).Div(mulB(S, mulB(R[op.D%2], price[den(op.D)])), tvl(R))
					want.Sub(want, new(big.Int).Div(want, big.NewInt(1000)))
				default:
					want = relShare(fmt.Sprintf("rel:%d", 2+k%5), sh0)
				}
			}
			msg := &ammtypes.MsgExitPool{Sender: u.String(), PoolId: pid, MinAmountsOut: sdk.Coins{}, ShareAmountIn: sdkmath.NewIntFromBigInt(want)}
			if op.Op == "exit_oracle_single" {
				msg.TokenOutDenom = den(op.D)
			}
			if want.Sign() < 0 {
				want.SetInt64(0)
				msg.ShareAmountIn = sdkmath.ZeroInt()
			}
			res = w.Deliver(msg)
		}
		col.Op(op.Op, res.Kind(), want)
		p1 := x.pool(pid)
		R2, S2 := c05Reserves(&p1), p1.TotalShares.Amount.BigInt()
		ub1, sh1 := bal(u), x.shares(u, pid)
		pb := bal(paddr)
		// the pool's book never exceeds what the pool account really holds
		for i := range R2 {
			if pb[i].Cmp(R2[i]) < 0 {
				chk.fail("C05:exit-drains-reserve", fmt.Sprintf("%s: pool %d asset %s book %s but the pool account holds %s", op.Op, pid, den(i), R2[i], pb[i]))
				return cases
			}
		}
		col.ImplCheck(len(R2))
		if !res.OK() {
			for i := range R {
				if ub0[i].Cmp(ub1[i]) != 0 || R[i].Cmp(R2[i]) != 0 {
					chk.fail("C05:failed-tx-changed-state", op.Op)
				}
			}
			// (oracle-pool shares are locked for an hour after a join: only the guard failures are comparable there)
			if op.Op == "exit_cp" || (op.Op == "exit_oracle" && (want.Cmp(S) >= 0 || want.Sign() <= 0)) {
				if sh0.Cmp(want) >= 0 { // the account owns the shares: the model must reject it for the same reason
					cases = append(cases, fmt.Sprintf("CKeeperExit %d %s %s %s %d [] [] 0", cid, zlist(R), zstr(S), zstr(want), kindNo[res.Kind()]))
				}
			}
			continue
		}
		paid, got := make([]*big.Int, len(R)), make([]*big.Int, len(R))
		for i := range R {
			paid[i] = subB(ub0[i], ub1[i])
			got[i] = subB(ub1[i], ub0[i])
		}
		minted := subB(sh1, sh0)
		if strings.HasPrefix(op.Op, "join") {
			dup := op.Op == "join_oracle" && hasDup(op.Coins)
			// the joiner's wallet pays exactly what the pool books; the joiner's committed shares grow by the supply growth
			for i := range R {
				if paid[i].Cmp(subB(R2[i], R[i])) != 0 && op.Op != "join_oracle_single" {
					chk.fail("C05:join-charged-differs-from-booked", fmt.Sprintf("%s asset %s paid %s booked %s", op.Op, den(i), paid[i], subB(R2[i], R[i])))
				}
			}
			if minted.Cmp(subB(S2, S)) != 0 {
				chk.fail("C05:join-share-accounting", fmt.Sprintf("%s minted %s supply grew %s", op.Op, minted, subB(S2, S)))
			}
			if op.Op == "join_cp_single" {
				// weighted pool, single asset X with normalised weight w: shares = S*((1+a'/X)^w - 1) <= S*w*a/X (concavity), i.e. at the
				// pool's own spot prices (pool value = X/w in units of X) the minted shares are worth at most the deposit:
				//   minted * X * W <= S * w_X * a   (+ 1e-8 relative for the power approximation, + one share unit)
				i := op.D % len(R)
				wX := p0.PoolAssets[i].Weight.BigInt()
				W := new(big.Int)
				for _, a := range p0.PoolAssets {
					W.Add(W, a.Weight.BigInt())
				}
				lhs := mulB(mulB(minted, R[i]), W)
				rhs := mulB(mulB(S, wX), paid[i])
				slack := addB(new(big.Int).Div(rhs, big.NewInt(100_000_000)), mulB(R[i], W))
				if lhs.Cmp(addB(rhs, slack)) > 0 {
					chk.fail("C05:cp-single-join-shares-exceed-value", fmt.Sprintf("asset %s (weight %s of %s) reserve %s: deposited %s minted %s of %s shares: minted*X*W = %s > S*w*a = %s", den(i), wX, W, R[i], paid[i], minted, S, lhs, rhs))
				}
				for j := range R {
					if j != i && paid[j].Sign() != 0 {
						chk.fail("C05:join-charged-differs-from-booked", fmt.Sprintf("single-asset join moved %s of the other asset %s", paid[j], den(j)))
					}
				}
				col.ImplCheck(1)
			} else if op.Op == "join_oracle_single" {
				// single-sided: value of the shares at the pool's book value <= value paid (+ bonus received) + one share unit
				v := tvl(paid) // a weight-recovery bonus paid by the treasury reduces what the joiner paid: conservative
				if mulB(minted, tvl(R)).Cmp(addB(mulB(S, tvl(subBs(R2, R))), tvl(R))) > 0 {
					chk.fail("C05:oracle-join-shares-exceed-value", fmt.Sprintf("minted %s of %s, pool value %s, deposited value %s (paid %s)", minted, S, tvl(R), tvl(subBs(R2, R)), v))
				}
				col.ImplCheck(1)
			} else {
				chk.joinAll(R, R2, S, S2, minted, dup, op.Op)
				if op.Op == "join_cp" {
					j := subBs(R2, R)
					nd := make([]*big.Int, len(R))
					if quoted, err := p0.GetMaximalNoSwapLPAmount(sdkmath.NewIntFromBigInt(want)); err == nil {
						for i := range R {
							nd[i] = quoted.AmountOf(den(i)).BigInt()
							if paid[i].Cmp(nd[i]) > 0 {
								chk.fail("C05:join-charged-more-than-quoted", fmt.Sprintf("asset %s quoted %s paid %s", den(i), nd[i], paid[i]))
							}
						}
						cases = append(cases, fmt.Sprintf("CJoinShares %d %s %s %s 0 %s %s %s %s %s", cid, zlist(R), zstr(S), zstr(want), zlist(nd), zstr(minted), zlist(j), zlist(R2), zstr(S2)))
					}
				} else {
					cs := make([]c05Coin, len(op.Coins))
					for i, cn := range op.Coins {
						cs[i] = c05Coin{D: cn.D % 2, A: cn.A}
					}
					cases = append(cases, fmt.Sprintf("CJoinCoins %d %s %s %s 0 %s %s %s %s", cid, zlist(R), zstr(S), coinsCoq(cs), zstr(minted), zlist(subBs(R2, R)), zlist(R2), zstr(S2)))
				}
			}
			col.Distinct(fmt.Sprintf("app:%s:%v:%s:%s", op.Op, strs(R), S, want), true)
			continue
		}
		// exits
		burned := subB(sh0, sh1)
		if burned.Cmp(want) != 0 || subB(S, S2).Cmp(want) != 0 {
			chk.fail("C05:exit-share-accounting", fmt.Sprintf("%s asked %s burned %s supply fell %s", op.Op, want, burned, subB(S, S2)))
		}
		if op.Op == "exit_oracle_single" {
			if mulB(tvl(got), S).Cmp(addB(mulB(tvl(R), want), mulB(S, big.NewInt(6)))) > 0 {
				chk.fail("C05:oracle-exit-exceeds-value", fmt.Sprintf("received value %s for %s of %s shares of a pool worth %s", tvl(got), want, S, tvl(R)))
			}
			chk.exitCommon(R, R2, got, S, S2, want, "oracle-single")
		} else {
			chk.exitAll(R, R2, got, S, S2, want, op.Op)
			cases = append(cases, fmt.Sprintf("CKeeperExit %d %s %s %s 0 %s %s %s", cid, zlist(R), zstr(S), zstr(want), zlist(got), zlist(R2), zstr(S2)))
		}
		col.Distinct(fmt.Sprintf("app:%s:%v:%s:%s", op.Op, strs(R), S, want), true)
	}
	return cases
}

func subBs(a, b []*big.Int) []*big.Int {
	out := make([]*big.Int, len(a))
	for i := range a {
		out[i] = subB(a[i], b[i])
	}
	return out
}

func relShare(spec string, base *big.Int) *big.Int {
	if !strings.HasPrefix(spec, "rel:") {
		return c05Big(spec)
	}
	var k int
	fmt.Sscanf(spec, "rel:%d", &k)
	switch k {
	case 0:
		return big.NewInt(1)
	case 1:
		return new(big.Int).Div(base, big.NewInt(1000))
	case 2:
		return new(big.Int).Div(base, big.NewInt(3))
	case 3:
		return new(big.Int).Div(base, big.NewInt(2))
	case 4:
		return subB(base, big.NewInt(1))
	case 5:
		return new(big.Int).Set(base)
	case 6:
		return addB(base, big.NewInt(1))
	case 7:
		return big.NewInt(0)
	case 8:
		return new(big.Int).Div(base, pow10(17))
	case 9:
		return new(big.Int).Div(base, big.NewInt(7))
	case 10:
		return new(big.Int).Div(base, pow10(10))
	default:
		return new(big.Int).Div(base, big.NewInt(10))
	}
}

// corpus: minimised inputs that matter, run first on every check
func c05Corpus() []c05Case {
	return []c05Case{
		// duplicate denom in the tokens of an all-asset join (reaches JoinPool through MsgJoinPool.MaxAmountsIn on oracle pools)
		{Kind: "join_coins", R: []string{"12000000000", "40000000000"}, S: "100000000000000000000000", Coins: []c05Coin{{D: 1, A: "50000000"}, {D: 1, A: "100000000"}}},
		// single-sided oracle exit of shares worth exactly the whole reserve of the asset taken out
		{Kind: "oexit", R: []string{"20000000000", "100000000000"}, S: "200000000000000000000000", Share: "100000000000000000000000", D: 1,
			Acc: []string{"0", "0"}, Prices: []string{"5000000000000000000", "1000000000000000000"}, Weights: []string{"10737418240", "10737418240"}},
		{Kind: "app", Imb: 400, Ops: []c05AppOp{{Op: "join_oracle", User: 2, Coins: []c05Coin{{D: 1, A: "50000000"}, {D: 1, A: "100000000"}}}, {Op: "wait"}, {Op: "exit_oracle", User: 2, Share: "rel:5"}}},
		{Kind: "app", Imb: 500, Ops: []c05AppOp{{Op: "exit_oracle_single", User: 0, D: 1, Share: "rel:12"}}},
		// well-formed boundary cases
		{Kind: "join_coins", R: []string{"1", "1000000000000000000000000000000"}, S: "1000000000000000000", Coins: []c05Coin{{D: 0, A: "1"}, {D: 1, A: "1"}}},
		{Kind: "join_coins", R: []string{"1", "3"}, S: "1000000000000000000", Coins: []c05Coin{{D: 0, A: "100000000000000000000"}, {D: 1, A: "900000000000000000000"}}}, // every ratio >= MaxSortableDec
		{Kind: "join_shares", R: []string{"3", "7"}, S: "1000000000000000000", Share: "1"},
		{Kind: "exit", R: []string{"3", "7"}, S: "1000000000000000000", Share: "999999999999999999"},
		{Kind: "exit", R: []string{"1", "1"}, S: "2", Share: "1"},
	}
}

func TestC05(t *testing.T) {
	seed := envInt("VERIF_SEED", 1)
	col := NewCollector("C05", seed)
	nPure, nApp := 1500, 72
	if tier() == "thorough" {
		nPure, nApp = 24000, 400
	}
	nPure = int(envInt("VERIF_N", int64(nPure)))
	nApp = int(envInt("VERIF_NAPP", int64(nApp)))
	var cs []c05Case
	var one c05Case
	if loadReplay(&one) {
		cs = []c05Case{one}
	} else {
		cs = append(cs, c05Corpus()...)
		for i := len(cs); i < nPure; i++ {
			cs = append(cs, c05PureGen(NewRng(uint64(seed), uint64(i)), i))
		}
		for i := 0; i < nApp; i++ {
			cs = append(cs, c05AppGen(NewRng(uint64(seed), uint64(1_000_000+i)), len(cs)))
		}
	}
	RunParallel(len(cs), func(i int) {
		c := cs[i]
		c.ID = i
		if c.Kind == "app" {
			if txts := c05AppExec(t, col, c); len(txts) > 0 {
				col.Case(i, strings.Join(txts, ";\n"))
			}
			col.Sample(c)
			return
		}
		txt := c05Pure(col, c)
		if c.Kind == "ojoin" || c.Kind == "oexit" { // the same operation with the weight-breaking fee computed by the model
			if w := c05WbfCase(col, c); w != "" {
				if txt != "" {
					txt += ";\n"
				}
				txt += w
			}
		}
		if txt != "" {
			col.Case(i, txt)
		}
	})
	header := "From Coq Require Import ZArith List Bool.\nFrom Elys Require Import Base.Res Models.AmmJoinExit Run.AmmJoinExitRun.\nImport ListNotations.\nOpen Scope Z_scope.\n"
	footer := "Definition M := Eval vm_compute in mismatches cases.\nPrint M.\n"
	col.Finish(t, len(cs), header, footer, 280)
}
