package harness

// C09 trace emission: which MTPs appeared / changed / disappeared in a step (from the MTP store before
// and after) as PNew / PDelta / PDel operations, and every perpetual pool's recorded aggregates + the module's counter.
// A field is 12 * (pool slot) + 6 * side + 3 * asset + kind: an MTP moves only the fields of its own pool.

import (
	"fmt"
	"sort"
	"strings"

	sdkmath "cosmossdk.io/math"
	perptypes "github.com/elys-network/elys/x/perpetual/types"
)

type c09Tracer struct {
	x     *lRun
	ids   map[string]int
	prev  map[string]perptypes.MTP
	steps []string
	news  int
	dels  int
}

func newC09Tracer(x *lRun) *c09Tracer {
	return &c09Tracer{x: x, ids: map[string]int{}, prev: map[string]perptypes.MTP{}}
}

// asset index inside a pool: 0 the base currency, 1 the pool's trading asset
func c09Asset(d string) int {
	if d == ATOM || d == WETH {
		return 1
	}
	return 0
}

const c09NFields = 24

// pool slot: 0 the oracle pool uusdc/uatom, 1 the second oracle pool uusdc/aweth
func c09Slot(mk *Market, pool uint64) int {
	if mk.OraclePool2 != 0 && pool == mk.OraclePool2 {
		return 1
	}
	return 0
}

func c09Field(slot int, side perptypes.Position, denom string, kind int) int {
	s := 0
	if side == perptypes.Position_SHORT {
		s = 1
	}
	return slot*12 + s*6 + c09Asset(denom)*3 + kind
}

func c09Fields(mk *Market, m perptypes.MTP) map[int]sdkmath.Int {
	slot := c09Slot(mk, m.AmmPoolId)
	out := map[int]sdkmath.Int{}
	add := func(f int, v sdkmath.Int) {
		if cur, ok := out[f]; ok {
			out[f] = cur.Add(v)
		} else {
			out[f] = v
		}
	}
	add(c09Field(slot, m.Position, m.LiabilitiesAsset, 0), m.Liabilities)
	add(c09Field(slot, m.Position, m.CustodyAsset, 1), m.Custody)
	add(c09Field(slot, m.Position, m.CollateralAsset, 2), m.Collateral)
	return out
}

func (c *c09Tracer) id(k string) int {
	if v, ok := c.ids[k]; ok {
		return v
	}
	c.ids[k] = len(c.ids)
	return c.ids[k]
}

func (c *c09Tracer) step() {
	w := c.x.w
	ctx := w.QCtx()
	cur := map[string]perptypes.MTP{}
	for _, m := range w.App.PerpetualKeeper.GetAllMTPs(ctx) {
		cur[fmt.Sprintf("%s/%d", m.Address, m.Id)] = m
	}
	var ks []string
	for k := range cur {
		ks = append(ks, k)
	}
	for k := range c.prev {
		if _, ok := cur[k]; !ok {
			ks = append(ks, k)
		}
	}
	sort.Strings(ks)
	var ops []string
	for _, k := range ks {
		before, had := c.prev[k]
		after, has := cur[k]
		bf, af := map[int]sdkmath.Int{}, map[int]sdkmath.Int{}
		if had {
			bf = c09Fields(c.x.m, before)
		}
		if has {
			af = c09Fields(c.x.m, after)
		}
		if !had {
			ops = append(ops, fmt.Sprintf("PNew %d", c.id(k)))
			c.news++
		}
		for f := 0; f < c09NFields; f++ {
			b, a := sdkmath.ZeroInt(), sdkmath.ZeroInt()
			if v, ok := bf[f]; ok {
				b = v
			}
			if v, ok := af[f]; ok {
				a = v
			}
			if !a.Equal(b) {
				ops = append(ops, fmt.Sprintf("PDelta %d %d %s", c.id(k), f, zstr(a.Sub(b).BigInt())))
			}
		}
		if !has {
			ops = append(ops, fmt.Sprintf("PDel %d", c.id(k)))
			c.dels++
		}
	}
	aggs := make([]string, c09NFields)
	for i := range aggs {
		aggs[i] = "0"
	}
	for _, pp := range w.App.PerpetualKeeper.GetAllPools(ctx) {
		for side, assets := range map[perptypes.Position][]perptypes.PoolAsset{perptypes.Position_LONG: pp.PoolAssetsLong, perptypes.Position_SHORT: pp.PoolAssetsShort} {
			for _, a := range assets {
				slot := c09Slot(c.x.m, pp.AmmPoolId)
				aggs[c09Field(slot, side, a.AssetDenom, 0)] = zstr(a.Liabilities.BigInt())
				aggs[c09Field(slot, side, a.AssetDenom, 1)] = zstr(a.Custody.BigInt())
				aggs[c09Field(slot, side, a.AssetDenom, 2)] = zstr(a.Collateral.BigInt())
			}
		}
	}
	c.steps = append(c.steps, fmt.Sprintf("([%s], mkPO [%s] %d)", strings.Join(ops, ";"), strings.Join(aggs, ";"), w.App.PerpetualKeeper.GetOpenMTPCount(ctx)))
	c.prev = cur
}

func (c *c09Tracer) caseText(id int) string {
	return fmt.Sprintf("mkPC %d [\n  %s]", id, strings.Join(c.steps, ";\n  "))
}
