package harness

// C19 - the state transition is deterministic and survives restart (correspondence run).
//
// Three replicas of the REAL application are fed the same generated multi-module history
// (the shared ledger generator lGen + burner / masterchef / commitment / vesting / oracle-feed ops):
//
//	A  never stops (mem DB)
//	B  a second fresh instance: Go randomises the iteration order of every map range execution, so
//	   two in-process replicas already see different orders
//	C  runs on a database the harness keeps a handle to (mem DB, or goleveldb under /var/tmp for every
//	   fourth history); after chosen heights the ElysApp object is dropped and a NEW ElysApp is built
//	   over the same database with loadLatest=true (that is a restart: keeper memory, package state of
//	   the dropped object's closures, transient and memory stores are gone)
//
// All three start from the SAME genesis bytes (app.InitElysTestApp draws fresh random validator and
// account keys per call, so two apps made by it never agree; the genesis is generated once per process).
// After every transaction: result kind and a hash over its events must agree. After every block: app
// hash, block outcome and the multiset of block events must agree. The per-block observations and the
// state-holding keeper fields found by reflection on the live application are replayed against the Coq
// model (Run/RestartRun.v), whose prediction is "equal" / "no memory cell the table does not flag".

import (
	"bytes"
	"crypto/sha256"
	"encoding/binary"
	"encoding/hex"
	"encoding/json"
	"fmt"
	"math/big"
	"os"
	"path/filepath"
	"reflect"
	"sort"
	"strings"
	"sync"
	"testing"
	"time"

	"cosmossdk.io/log"
	sdkmath "cosmossdk.io/math"
	abci "github.com/cometbft/cometbft/abci/types"
	dbm "github.com/cosmos/cosmos-db"
	"github.com/cosmos/cosmos-sdk/client/flags"
	"github.com/cosmos/cosmos-sdk/server"
	simtestutil "github.com/cosmos/cosmos-sdk/testutil/sims"
	sdk "github.com/cosmos/cosmos-sdk/types"
	authtypes "github.com/cosmos/cosmos-sdk/x/auth/types"
	banktypes "github.com/cosmos/cosmos-sdk/x/bank/types"
	govtypes "github.com/cosmos/cosmos-sdk/x/gov/types"

	elysapp "github.com/elys-network/elys/app"
	burnertypes "github.com/elys-network/elys/x/burner/types"
	ctypes "github.com/elys-network/elys/x/commitment/types"
	epochstypes "github.com/elys-network/elys/x/epochs/types"
	mctypes "github.com/elys-network/elys/x/masterchef/types"
	oracletypes "github.com/elys-network/elys/x/oracle/types"
)

// ---------------- shared genesis ----------------

type c19Genesis struct {
	state   []byte
	valHash []byte
}

var (
	c19GenOnce sync.Once
	c19Gen     c19Genesis
)

func c19NewApp(t *testing.T, db dbm.DB, home string) *elysapp.ElysApp {
	appOptions := make(simtestutil.AppOptionsMap, 0)
	appOptions[flags.FlagHome] = ""
	appOptions[server.FlagInvCheckPeriod] = 1
	worldWarmUp.Do(func() { _ = elysapp.InitElysTestApp(true, t) }) // see world_test.go: first construction alone
	return elysapp.NewElysApp(log.NewNopLogger(), db, nil, true, map[int64]bool{}, home, appOptions)
}

func c19GenesisOnce(t *testing.T) c19Genesis {
	c19GenOnce.Do(func() {
		app := c19NewApp(t, dbm.NewMemDB(), t.TempDir())
		gs, valSet, _, _ := elysapp.GenesisStateWithValSet(app)
		b, err := json.MarshalIndent(gs, "", " ")
		if err != nil {
			panic(err)
		}
		c19Gen = c19Genesis{state: b, valHash: valSet.Hash()}
	})
	return c19Gen
}

// c19Boot: InitChain + first block + commit on the given database (as app.InitElysTestApp + NewWorld do,
// but with shared genesis bytes and a database handle that survives the application object).
func c19Boot(t *testing.T, db dbm.DB, home string) *World {
	g := c19GenesisOnce(t)
	app := c19NewApp(t, db, home)
	if _, err := app.InitChain(&abci.RequestInitChain{Validators: []abci.ValidatorUpdate{}, ConsensusParams: simtestutil.DefaultConsensusParams, AppStateBytes: g.state}); err != nil {
		t.Fatalf("c19 InitChain: %v", err)
	}
	if _, err := app.FinalizeBlock(&abci.RequestFinalizeBlock{Height: app.LastBlockHeight() + 1, Hash: app.LastCommitID().Hash, NextValidatorsHash: g.valHash}); err != nil {
		t.Fatalf("c19 first block: %v", err)
	}
	if _, err := app.Commit(); err != nil {
		t.Fatalf("c19 commit genesis block: %v", err)
	}
	w := &World{T: t, App: app}
	w.Height = app.LastBlockHeight()
	w.Time = time.Unix(1_700_000_000, 0).UTC()
	w.Gov = authtypes.NewModuleAddress(govtypes.ModuleName).String()
	return w
}

// ---------------- replicas ----------------

type c19Replica struct {
	name     string
	w        *World
	m        *Market
	x        *lRun
	db       dbm.DB
	home     string
	dbDir    string // goleveldb directory ("" = mem DB)
	restarts int
}

var c19Denoms = []string{USDC, ATOM, ELYS, "uc19a", "uc19b", "uc19c", "uc19d", "uc19e"}

func c19NewReplica(t *testing.T, col *Collector, name string, h lHist, disk bool) *c19Replica {
	r := &c19Replica{name: name, home: t.TempDir()}
	if disk {
		d, err := os.MkdirTemp("/var/tmp", "verif-c19-db-")
		if err == nil {
			if db, err2 := dbm.NewGoLevelDB("application", d, nil); err2 == nil {
				r.db, r.dbDir = db, d
			} else {
				_ = os.RemoveAll(d)
			}
		}
	}
	if r.db == nil {
		r.db = dbm.NewMemDB()
	}
	r.w = c19Boot(t, r.db, r.home)
	w := r.w
	r.m = NewMarket(w, lMarketOpts(h)) // two-pool market (aweth, second oracle pool) when the history asks for it
	m := r.m
	// burner: burn at the end of every five-minute epoch
	m.must("burner params", w.Deliver(&burnertypes.MsgUpdateParams{Authority: w.Gov, Params: burnertypes.Params{EpochIdentifier: epochstypes.FiveMinutesEpochID}}))
	ctx := w.Ctx()
	for _, d := range c19Denoms {
		// the burner walks the bank's denom metadata
		w.App.BankKeeper.SetDenomMetaData(ctx, banktypes.Metadata{Base: d, Display: d, Name: d, Symbol: d, DenomUnits: []*banktypes.DenomUnit{{Denom: d, Exponent: 0}}})
	}
	for i, u := range m.Users {
		var cs sdk.Coins
		for _, d := range c19Denoms[3:] {
			cs = cs.Add(sdk.NewCoin(d, I(1_000_000_000+int64(i))))
		}
		w.Mint(u, cs)
		// claimed Eden to commit / vest
		c := w.App.CommitmentKeeper.GetCommitments(ctx, u)
		c.AddClaimed(sdk.NewCoin("ueden", I(5_000_000_000)))
		w.App.CommitmentKeeper.SetCommitments(ctx, c)
	}
	m.must("vesting info", w.Deliver(&ctypes.MsgUpdateVestingInfo{Authority: w.Gov, BaseDenom: "ueden", VestingDenom: "uelys", NumBlocks: 25, VestNowFactor: 90, NumMaxVestings: 5}))
	w.App.OracleKeeper.SetPriceFeeder(ctx, oracletypes.PriceFeeder{Feeder: m.Provider.String(), IsActive: true})
	r.x = &lRun{t: t, col: col, prop: "C19", w: w, m: m, h: h, donated: map[string]*big.Int{}, supply0: map[string]sdkmath.Int{}}
	r.x.vaultDonated = sdkmath.ZeroInt()
	return r
}

// restart: drop the application object, build a new one over the same database (loadLatest).
func (r *c19Replica) restart(t *testing.T) error {
	if r.dbDir != "" {
		// a real stop: close the application (closes the database), re-open the files
		if err := r.w.App.Close(); err != nil {
			return fmt.Errorf("close: %v", err)
		}
		db, err := dbm.NewGoLevelDB("application", r.dbDir, nil)
		if err != nil {
			return fmt.Errorf("re-open goleveldb: %v", err)
		}
		r.db = db
	}
	r.w.App = nil
	app := c19NewApp(t, r.db, r.home)
	if app.LastBlockHeight() != r.w.Height {
		return fmt.Errorf("restarted application is at height %d, expected %d", app.LastBlockHeight(), r.w.Height)
	}
	r.w.App = app
	r.restarts++
	return nil
}

func (r *c19Replica) cleanup() {
	if r.dbDir != "" {
		if r.w != nil && r.w.App != nil {
			_ = r.w.App.Close()
		}
		_ = os.RemoveAll(r.dbDir)
	}
}

// ---------------- history ----------------

type c19Hist struct {
	ID   int   `json:"id"`
	Ops  []lOp `json:"ops"`
	Cuts []int `json:"cuts"` // restart replica C after the n-th committed block of the history (0-based); nil + All = every block
	All  bool  `json:"all,omitempty"`
	Disk bool  `json:"disk,omitempty"`
	Two  bool  `json:"two,omitempty"` // lHist.Two
}

func c19GenHist(r *Rng, id int, everyHeight bool) c19Hist {
	base := lGen(r, id)
	var ops []lOp
	for _, op := range base.Ops {
		ops = append(ops, op)
		switch x := r.Intn(100); {
		case x < 9:
			ops = append(ops, lOp{Op: "c19_burnfund", U: r.Intn(5), Rel: 1 + r.Intn(255), Amt: r.Decade(0, 9).String()})
			if r.Chance(60) {
				ops = append(ops, lOp{Op: "blocks", N: r.Pick(1, 2), DT: r.Pick(301, 400, 3700, 86400)})
			}
		case x < 14:
			ops = append(ops, lOp{Op: "c19_chef_claim", U: r.Intn(6), Rel: r.Intn(3)})
		case x < 18:
			ops = append(ops, lOp{Op: "c19_commit", U: r.Intn(5), Amt: r.Decade(3, 10).String()})
		case x < 21:
			ops = append(ops, lOp{Op: "c19_uncommit", U: r.Intn(5), Rel: r.Intn(7)})
		case x < 25:
			ops = append(ops, lOp{Op: "c19_vest", U: r.Intn(5), Amt: r.Decade(3, 10).String()})
		case x < 28:
			ops = append(ops, lOp{Op: "c19_claim_vest", U: r.Intn(5)})
		case x < 32:
			ops = append(ops, lOp{Op: "c19_feed", P: []string{"0.9", "0.97", "1.03", "1.1"}[r.Intn(4)], Rel: r.Intn(8)})
		}
	}
	h := c19Hist{ID: id, Ops: ops, All: everyHeight, Disk: id%4 == 3, Two: base.Two}
	if !everyHeight {
		// 4 restart points; the number of blocks of a history is about half its length
		n := len(ops)/2 + 4
		seen := map[int]bool{}
		for len(h.Cuts) < 4 {
			c := r.Intn(n)
			if !seen[c] {
				seen[c] = true
				h.Cuts = append(h.Cuts, c)
			}
		}
		sort.Ints(h.Cuts)
	}
	return h
}

func c19Corpus() []c19Hist {
	return []c19Hist{
		{All: true, Ops: []lOp{ // burner: several denoms at the zero address, epoch boundary crossed with a long gap, restart at every height
			{Op: "c19_burnfund", U: 1, Rel: 255, Amt: "1234567"}, {Op: "c19_burnfund", U: 2, Rel: 0x55, Amt: "7"},
			{Op: "blocks", N: 2, DT: 400}, {Op: "c19_burnfund", U: 3, Rel: 0xAA, Amt: "99999"}, {Op: "blocks", N: 1, DT: 86400},
			{Op: "swap_in", U: 1, V: 1, Pool: 1, Dir: 0, Amt: "1000000"}, {Op: "blocks", N: 1, DT: 5}}},
		{All: true, Disk: true, Ops: []lOp{ // swaps queued in the transient store, leverage, perpetual, vesting over a restart (goleveldb)
			{Op: "swap_in", U: 1, V: 2, Pool: 0, Dir: 0, Amt: "50000000", Rel: 1}, {Op: "swap_out", U: 2, V: 2, Pool: 1, Dir: 1, Amt: "300000"},
			{Op: "lev_open", U: 3, Amt: "100000000", Lev: "3", P: "0"}, {Op: "perp_open", U: 1, Dir: 0, Amt: "1000000000", Lev: "3"},
			{Op: "c19_vest", U: 2, Amt: "1000000"}, {Op: "c19_commit", U: 3, Amt: "2000000"}, {Op: "blocks", N: 2, DT: 3700},
			{Op: "c19_claim_vest", U: 2}, {Op: "c19_chef_claim", U: 0, Rel: 0}, {Op: "c19_feed", P: "1.1"}, {Op: "perp_close", U: 1, Idx: 0, Rel: 5},
			{Op: "lev_close", U: 3, Idx: 0, Rel: 5}, {Op: "c19_uncommit", U: 3, Rel: 3}, {Op: "blocks", N: 1, DT: 400}}},
	}
}

func (r *c19Replica) exec(op lOp) (res TxResult, amt *big.Int) {
	w, m := r.w, r.m
	u := m.User(op.U)
	switch op.Op {
	case "lev_close_positions", "perp_close_positions":
		return r.x.closePositions(op), nil
	case "c19_burnfund":
		v := bigOf(op.Amt)
		var cs sdk.Coins
		for i, d := range c19Denoms {
			if op.Rel&(1<<uint(i)) != 0 {
				cs = cs.Add(sdk.NewCoin(d, v.AddRaw(int64(i))))
			}
		}
		return w.Deliver(&banktypes.MsgSend{FromAddress: u, ToAddress: burnertypes.GetZeroAddress().String(), Amount: cs}), v.BigInt()
	case "c19_chef_claim":
		ids := [][]uint64{{m.OraclePool, m.CPPool}, {m.CPPool}, {}}[op.Rel%3]
		return w.Deliver(&mctypes.MsgClaimRewards{Sender: u, PoolIds: ids}), nil
	case "c19_commit":
		v := bigOf(op.Amt)
		return w.Deliver(&ctypes.MsgCommitClaimedRewards{Creator: u, Amount: v, Denom: "ueden"}), v.BigInt()
	case "c19_uncommit":
		c := w.App.CommitmentKeeper.GetCommitments(w.QCtx(), m.Users[op.U%len(m.Users)])
		v := relOf(op.Rel, c.GetCommittedAmountForDenom("ueden"))
		return w.Deliver(&ctypes.MsgUncommitTokens{Creator: u, Amount: v, Denom: "ueden"}), v.BigInt()
	case "c19_vest":
		v := bigOf(op.Amt)
		return w.Deliver(&ctypes.MsgVest{Creator: u, Amount: v, Denom: "ueden"}), v.BigInt()
	case "c19_claim_vest":
		return w.Deliver(&ctypes.MsgClaimVesting{Sender: u}), nil
	case "c19_feed":
		np := m.Prices[ATOM].Mul(dec(op.P))
		if np.LT(dec("0.05")) || np.GT(dec("500")) {
			np = dec("5")
		}
		prov := m.Provider.String()
		if op.Rel == 7 { // not a feeder
			prov = u
		}
		res = w.Deliver(&oracletypes.MsgFeedPrice{Provider: prov, FeedPrice: oracletypes.FeedPrice{Asset: "ATOM", Price: np, Source: "elys"}})
		if res.OK() {
			m.Prices[ATOM] = np
		}
		return res, nil
	}
	return r.x.exec(op)
}

// ---------------- observation ----------------

func c19EventsHash(kind string, evs []abci.Event, sorted bool) []byte {
	var items []string
	for _, e := range evs {
		var sb strings.Builder
		sb.WriteString(e.Type)
		for _, a := range e.Attributes {
			sb.WriteString("|" + a.Key + "=" + a.Value)
		}
		items = append(items, sb.String())
	}
	if sorted {
		sort.Strings(items)
	}
	h := sha256.New()
	h.Write([]byte(kind))
	for _, it := range items {
		h.Write([]byte{0})
		h.Write([]byte(it))
	}
	return h.Sum(nil)
}

func c19Lead(b []byte) string { // leading 8 bytes as a decimal integer (Coq literal)
	if len(b) < 8 {
		b = append(make([]byte, 8-len(b)), b...)
	}
	return fmt.Sprintf("%d", binary.BigEndian.Uint64(b[:8])>>1)
}

func c19StoreHashes(app *elysapp.ElysApp) map[string]string {
	out := map[string]string{}
	for name, key := range app.GetKVStoreKey() {
		func() {
			defer func() { _ = recover() }()
			st := app.CommitMultiStore().GetCommitKVStore(key)
			if st != nil {
				out[name] = hex.EncodeToString(st.LastCommitID().Hash)
			}
		}()
	}
	return out
}

func c19DiffStores(a, b *elysapp.ElysApp) string {
	ha, hb := c19StoreHashes(a), c19StoreHashes(b)
	var names []string
	for n := range ha {
		if ha[n] != hb[n] {
			names = append(names, n)
		}
	}
	for n := range hb {
		if _, ok := ha[n]; !ok {
			names = append(names, n)
		}
	}
	sort.Strings(names)
	return strings.Join(names, ",")
}

// ---------------- translator cross-check: keeper fields of the live application ----------------

type c19LiveField struct {
	Pkg, Struct, Name, Kind string
	State                   bool
}

const c19ModPrefix = "github.com/elys-network/elys/"

func c19WiringPtr(t reflect.Type) bool { // mirrors tools/gotrans/determinism.go shape(): pointer to keeper / router / store key
	n := t.String()
	return strings.HasSuffix(n, "Keeper") || strings.HasSuffix(n, "Router") || strings.Contains(n, "StoreKey")
}

func c19LiveFields(app *elysapp.ElysApp) []c19LiveField {
	var out []c19LiveField
	seen := map[reflect.Type]bool{}
	var walk func(t reflect.Type, depth int)
	walk = func(t reflect.Type, depth int) {
		for t.Kind() == reflect.Ptr {
			t = t.Elem()
		}
		if t.Kind() != reflect.Struct || seen[t] || depth > 4 {
			return
		}
		if !strings.HasPrefix(t.PkgPath(), c19ModPrefix+"x/") {
			return
		}
		seen[t] = true
		pkg := strings.TrimPrefix(t.PkgPath(), c19ModPrefix)
		for i := 0; i < t.NumField(); i++ {
			f := t.Field(i)
			ft := f.Type
			lf := c19LiveField{Pkg: pkg, Struct: t.Name(), Name: f.Name, Kind: ft.Kind().String()}
			switch ft.Kind() {
			case reflect.Map, reflect.Slice, reflect.Array, reflect.Chan, reflect.UnsafePointer:
				lf.State = true
			case reflect.Ptr:
				lf.State = !c19WiringPtr(ft.Elem())
				if ft.Elem().Kind() == reflect.Struct {
					walk(ft.Elem(), depth+1)
				}
			case reflect.Struct:
				if strings.HasSuffix(ft.Name(), "Keeper") {
					walk(ft, depth+1)
				} else if !strings.Contains(strings.ToLower(ft.String()), "codec") && !strings.Contains(ft.String(), "StoreKey") {
					lf.State = true
				}
			}
			out = append(out, lf)
		}
	}
	ak := reflect.TypeOf(app.AppKeepers)
	for i := 0; i < ak.NumField(); i++ {
		walk(ak.Field(i).Type, 0)
	}
	sort.Slice(out, func(i, j int) bool {
		a, b := out[i], out[j]
		if a.Pkg != b.Pkg {
			return a.Pkg < b.Pkg
		}
		if a.Struct != b.Struct {
			return a.Struct < b.Struct
		}
		return a.Name < b.Name
	})
	return out
}

type c19Table struct {
	Fields []struct {
		Pkg, Struct, Name, Kind string
		Assigned                bool
	} `json:"fields"`
	Pkgvars   []struct{ Pkg, Name, Kind string }          `json:"pkgvars"`
	MapRanges []struct{ Pkg, Func, Expr, Class string }   `json:"map_ranges"`
	NdSites   []struct{ Pkg, Func, Kind, Context string } `json:"nd_sites"`
	Stats     map[string]int                              `json:"stats"`
}

func c19LoadTable() (*c19Table, string) {
	dir := os.Getenv("VERIF_GENDIR")
	if dir == "" {
		dir = filepath.Join("..", "coq", "Generated")
	}
	b, err := os.ReadFile(filepath.Join(dir, "determinism.json"))
	if err != nil {
		return nil, err.Error()
	}
	var t c19Table
	if err := json.Unmarshal(b, &t); err != nil {
		return nil, err.Error()
	}
	return &t, ""
}

// ---------------- one history ----------------

type c19Obs struct {
	height    int64
	restarted bool
	hash      [3][]byte
	tx        [3][]byte
}

func c19RunHistory(t *testing.T, col *Collector, h c19Hist, live []c19LiveField) {
	lh := lHist{ID: h.ID, Ops: h.Ops, Two: h.Two}
	reps := []*c19Replica{
		c19NewReplica(t, col, "A", lh, false),
		c19NewReplica(t, col, "B", lh, false),
		c19NewReplica(t, col, "C", lh, h.Disk),
	}
	defer func() {
		for _, r := range reps {
			r.cleanup()
		}
	}()
	cuts := map[int]bool{}
	for _, c := range h.Cuts {
		cuts[c] = true
	}
	var obs []c19Obs
	step := -1
	dead := false
	blockNo := 0
	pendingRestarted := false
	txAcc := [3][]byte{{}, {}, {}} // running digest of the tx results of the block being built
	fail := func(sig, detail string) {
		col.Violate(Violation{Signature: sig, Detail: detail, History: h.ID, Step: step, Replay: h})
		dead = true
	}
	var fp strings.Builder
	nontriv := false
	burnBlocks, burnDenoms, burnMulti, orderDiff := 0, 0, 0, 0
	block := func(dt int64) {
		if dead {
			return
		}
		var errs [3]error
		var o c19Obs
		for i, r := range reps {
			r.m.RefreshPrices()
			errs[i] = r.w.EndBlock(dt)
		}
		o.height = reps[0].w.Height
		o.restarted = pendingRestarted
		pendingRestarted = false
		for i, r := range reps {
			o.hash[i] = r.w.AppHash()
			kind := "ok"
			if errs[i] != nil {
				kind = "failed"
			}
			bh := c19EventsHash(kind, r.w.LastBlockEvents, true)
			s := sha256.Sum256(append(append([]byte{}, txAcc[i]...), bh...))
			o.tx[i] = s[:]
			txAcc[i] = []byte{}
		}
		obs = append(obs, o)
		col.ImplCheck(4)
		if errs[0] == nil {
			burnerAddr := authtypes.NewModuleAddress(burnertypes.ModuleName).String()
			nb := 0
			for _, bo := range BankOps(reps[0].w.LastBlockEvents) {
				if bo.Kind == "burn" && bo.From == burnerAddr {
					nb++
				}
			}
			if nb > 0 {
				burnBlocks++
				burnDenoms += nb
				if nb > 1 {
					burnMulti++
				}
			}
			if !bytes.Equal(c19EventsHash("", reps[0].w.LastBlockEvents, false), c19EventsHash("", reps[1].w.LastBlockEvents, false)) {
				orderDiff++
			}
		}
		for i := 1; i < 3; i++ {
			if (errs[0] == nil) != (errs[i] == nil) {
				fail("C19:block-outcome-diverged", fmt.Sprintf("height %d: replica A block error %v, replica %s block error %v", o.height, errs[0], reps[i].name, errs[i]))
				return
			}
		}
		if errs[0] != nil {
			// the block failed identically on all replicas (C18 reports such failures); the history ends here
			dead = true
			return
		}
		if !bytes.Equal(o.hash[0], o.hash[1]) {
			fail("C19:apphash-diverged-between-replicas", fmt.Sprintf("first diverging height %d: A %x B %x; stores whose commit hashes differ: [%s]",
				o.height, o.hash[0], o.hash[1], c19DiffStores(reps[0].w.App, reps[1].w.App)))
			return
		}
		if !bytes.Equal(o.hash[0], o.hash[2]) {
			sig := "C19:apphash-diverged-after-restart"
			if reps[2].restarts == 0 {
				sig = "C19:apphash-diverged-between-replicas"
			}
			fail(sig, fmt.Sprintf("first diverging height %d (replica C restarted %d times, last restart just before this block: %v): A %x C %x; stores whose commit hashes differ: [%s]",
				o.height, reps[2].restarts, o.restarted, o.hash[0], o.hash[2], c19DiffStores(reps[0].w.App, reps[2].w.App)))
			return
		}
		for i := 1; i < 3; i++ {
			if !bytes.Equal(o.tx[0], o.tx[i]) {
				fail("C19:txresult-diverged", fmt.Sprintf("height %d: transaction results / block events of replica A and %s differ although the app hashes agree", o.height, reps[i].name))
				return
			}
		}
		// restart replica C after this commit?
		if h.All || cuts[blockNo] {
			if err := reps[2].restart(t); err != nil {
				fail("C19:restart-failed", fmt.Sprintf("after height %d: %v", o.height, err))
				return
			}
			pendingRestarted = true
			col.Op("restart", "ok", nil)
			if !bytes.Equal(reps[2].w.AppHash(), o.hash[0]) {
				fail("C19:apphash-diverged-after-restart", fmt.Sprintf("height %d: the re-opened application reports app hash %x, committed %x", o.height, reps[2].w.AppHash(), o.hash[0]))
				return
			}
		}
		blockNo++
	}
	block(5)
	for k, op := range h.Ops {
		if dead {
			break
		}
		step = k
		switch op.Op {
		case "blocks":
			for j := int64(0); j < op.N && !dead; j++ {
				block(op.DT)
			}
			col.Op("blocks", "ok", nil)
			continue
		case "price":
			for _, r := range reps {
				r.x.movePrice(op) // the asset of the pool the op names (uatom, or aweth on a two-pool market)
			}
			col.Op("price", "ok", nil)
			continue
		}
		var kinds [3]string
		var ehs [3][]byte
		var amt *big.Int
		for i, r := range reps {
			res, a := r.exec(op)
			if i == 0 {
				amt = a
			}
			kinds[i] = res.Kind()
			ehs[i] = c19EventsHash(res.Kind(), res.Events, false)
			s := sha256.Sum256(append(append([]byte{}, txAcc[i]...), ehs[i]...))
			txAcc[i] = s[:]
		}
		col.Op(op.Op, kinds[0], amt)
		col.ImplCheck(2)
		fmt.Fprintf(&fp, "%s:%s;", op.Op, kinds[0])
		if kinds[0] == "ok" {
			nontriv = true
		}
		for i := 1; i < 3; i++ {
			if kinds[i] != kinds[0] || !bytes.Equal(ehs[i], ehs[0]) {
				fail("C19:txresult-diverged", fmt.Sprintf("op %d (%s) in the block after height %d: replica A %s, replica %s %s (C restarted %d times); events hash equal: %v",
					k, op.Op, reps[0].w.Height, kinds[0], reps[i].name, kinds[i], reps[2].restarts, bytes.Equal(ehs[i], ehs[0])))
				break
			}
		}
		if k%2 == 1 {
			block(5)
		}
	}
	step = len(h.Ops)
	block(5)
	// Coq case
	var sb strings.Builder
	fmt.Fprintf(&sb, "mkCase %d [", h.ID)
	for i, o := range obs {
		if i > 0 {
			sb.WriteString("; ")
		}
		fmt.Fprintf(&sb, "mkO %d %v %s %s %s %s %s %s", o.height, o.restarted, c19Lead(o.hash[0]), c19Lead(o.hash[1]), c19Lead(o.hash[2]), c19Lead(o.tx[0]), c19Lead(o.tx[1]), c19Lead(o.tx[2]))
	}
	sb.WriteString("] [")
	n := 0
	for _, f := range live {
		if f.State {
			if n > 0 {
				sb.WriteString("; ")
			}
			fmt.Fprintf(&sb, "(%q, %q, %q)", f.Pkg, f.Struct, f.Name)
			n++
		}
	}
	sb.WriteString("]")
	col.Case(h.ID, sb.String())
	col.Distinct(fp.String(), nontriv)
	col.Sample(h)
	col.mu.Lock()
	a, _ := col.rep.Extra["blocks_compared"].(int)
	col.rep.Extra["blocks_compared"] = a + len(obs)
	b, _ := col.rep.Extra["restarts_of_replica_C"].(int)
	col.rep.Extra["restarts_of_replica_C"] = b + reps[2].restarts
	for k, v := range map[string]int{"burner_blocks": burnBlocks, "burner_denoms_burned": burnDenoms, "burner_blocks_with_several_denoms": burnMulti,
		"blocks_whose_event_ORDER_differs_between_A_and_B_(same multiset)": orderDiff} {
		c, _ := col.rep.Extra[k].(int)
		col.rep.Extra[k] = c + v
	}
	if reps[2].dbDir != "" {
		c, _ := col.rep.Extra["histories_on_goleveldb"].(int)
		col.rep.Extra["histories_on_goleveldb"] = c + 1
	}
	col.mu.Unlock()
}

func TestC19(t *testing.T) {
	seed := envInt("VERIF_SEED", 1)
	col := NewCollector("C19", seed)
	n := 32
	if tier() == "thorough" {
		n = 300
	}
	n = int(envInt("VERIF_N", int64(n)))
	var hists []c19Hist
	var one c19Hist
	if loadReplay(&one) {
		hists = []c19Hist{one}
	} else {
		hists = append(hists, c19Corpus()...)
		for i := len(hists); i < n; i++ {
			hists = append(hists, c19GenHist(NewRng(uint64(seed), uint64(i)), i, tier() == "thorough"))
		}
	}
	// translator cross-check on a live application
	probe := c19Boot(t, dbm.NewMemDB(), t.TempDir())
	live := c19LiveFields(probe.App)
	tab, terr := c19LoadTable()
	if tab == nil {
		col.Violate(Violation{Signature: "C19:translator-table-missing", Detail: "cannot read determinism.json: " + terr})
	} else {
		known := map[string]string{}
		for _, f := range tab.Fields {
			known[f.Pkg+"|"+f.Struct+"|"+f.Name] = f.Kind
		}
		for _, f := range live {
			k, ok := known[f.Pkg+"|"+f.Struct+"|"+f.Name]
			if !ok {
				col.Violate(Violation{Signature: "C19:translator-missed-keeper-field", Detail: fmt.Sprintf("live keeper field %s.%s.%s (%s) is not in the regenerated table", f.Pkg, f.Struct, f.Name, f.Kind)})
				continue
			}
			wiring := k == "Interface" || k == "Keeper" || k == "StoreKey" || k == "Codec" || k == "Func" || k == "String" || k == "Scalar"
			if f.State && wiring {
				col.Violate(Violation{Signature: "C19:translator-misclassified-keeper-field", Detail: fmt.Sprintf("live keeper field %s.%s.%s has kind %s (holds state) but the table says %s", f.Pkg, f.Struct, f.Name, f.Kind, k)})
			}
		}
		col.ImplCheck(len(live))
		col.Extra("table_sizes", map[string]int{"keeper_fields": len(tab.Fields), "package_vars": len(tab.Pkgvars), "map_ranges": len(tab.MapRanges), "nd_sites": len(tab.NdSites)})
		col.Extra("translator_stats", tab.Stats)
	}
	nstate := 0
	for _, f := range live {
		if f.State {
			nstate++
		}
	}
	col.Extra("live_keeper_fields_by_reflection", len(live))
	col.Extra("live_keeper_fields_holding_state", nstate)
	RunParallel(len(hists), func(i int) {
		h := hists[i]
		h.ID = i
		c19RunHistory(t, col, h, live)
	})
	header := "From Coq Require Import ZArith String List Bool.\nFrom Elys Require Import Models.Restart Run.RestartRun.\nImport ListNotations.\nOpen Scope string_scope.\nOpen Scope Z_scope.\n"
	footer := "Definition M := Eval vm_compute in mismatches cases.\nPrint M.\n"
	col.Finish(t, len(hists), header, footer, 10)
}
