package harness

import (
	"testing"

	sdk "github.com/cosmos/cosmos-sdk/types"
	ammtypes "github.com/elys-network/elys/x/amm/types"
	levtypes "github.com/elys-network/elys/x/leveragelp/types"
	perptypes "github.com/elys-network/elys/x/perpetual/types"
)

// TestFixture18 smoke-tests the optional second oracle pool with an 18-decimals asset: swap, leveraged LP and perpetual open on it.
func TestFixture18(t *testing.T) {
	w := NewWorld(t)
	o := DefaultMarketOpts()
	o.Extra18 = true
	m := NewMarket(w, o)
	if m.OraclePool2 == 0 {
		t.Fatal("no second oracle pool")
	}
	u := m.User(1)
	r := w.Deliver(&ammtypes.MsgSwapExactAmountIn{Sender: u, Routes: []ammtypes.SwapAmountInRoute{{PoolId: m.OraclePool2, TokenOutDenom: WETH}},
		TokenIn: sdk.NewCoin(USDC, I(2_000_000_000)), TokenOutMinAmount: I(1)})
	if !r.OK() {
		t.Fatalf("swap: %v %v", r.Err, r.Panic)
	}
	if err := w.EndBlock(5); err != nil {
		t.Fatal(err)
	}
	m.RefreshPrices()
	t.Logf("weth after swap: %s", w.Bal(m.Users[1], WETH))
	r = w.Deliver(&levtypes.MsgOpen{Creator: u, CollateralAsset: USDC, CollateralAmount: I(100_000_000), AmmPoolId: m.OraclePool2, Leverage: dec("3"), StopLossPrice: dec("0")})
	if !r.OK() {
		t.Fatalf("lev open: %v %v", r.Err, r.Panic)
	}
	r = w.Deliver(&perptypes.MsgOpen{Creator: u, Position: perptypes.Position_LONG, Leverage: dec("2"), Collateral: sdk.NewCoin(USDC, I(100_000_000)),
		TradingAsset: WETH, TakeProfitPrice: dec("6000"), StopLossPrice: dec("0"), PoolId: m.OraclePool2})
	if !r.OK() {
		t.Fatalf("perp open: %v %v", r.Err, r.Panic)
	}
	if err := w.EndBlock(5); err != nil {
		t.Fatal(err)
	}
}
