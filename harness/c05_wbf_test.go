package harness

// C05: correspondence cases for the oracle single-sided join / exit WITH the weight-breaking fee computed by the model
// (coq/Models/WeightFee.v + WeightFeeJoinExit.v): constructors COJoinW / COExitW of coq/Run/AmmJoinExitRun.v. The model gets
// the pool state (reserves, accounted balances, oracle prices, weights) and the four amm params, and must reproduce the
// shares / amount, the reserves and supply after, AND the weightBalanceBonus the Go function returned (or its failure kind:
// a Pow panic inside GetWeightBreakingFee is a panic of the model too).

import (
	"fmt"
	"math/big"

	sdkmath "cosmossdk.io/math"
	sdk "github.com/cosmos/cosmos-sdk/types"

	ammtypes "github.com/elys-network/elys/x/amm/types"
)

// amm params of a pure C05 case: the chain's defaults unless the case carries its own four values
func c05WbfParams(c c05Case) ammtypes.Params {
	p := ammtypes.DefaultParams()
	if len(c.Wb) == 4 {
		p.WeightBreakingFeeMultiplier = rawDec(c05Big(c.Wb[0]))
		p.WeightBreakingFeeExponent = rawDec(c05Big(c.Wb[1]))
		p.WeightBreakingFeePortion = rawDec(c05Big(c.Wb[2]))
		p.ThresholdWeightDifference = rawDec(c05Big(c.Wb[3]))
	}
	return p
}

// drawn at the END of the per-case generator stream (the case itself stays what it was)
func c05WbfGen(r *Rng, c *c05Case) {
	if r.Chance(50) {
		return
	}
	c.Wb = []string{
		[]string{"0", "500000000000000", "20000000000000000", "1000000000000000000", "5000000000000000000", "1"}[r.Intn(6)],
		[]string{"2500000000000000000", "1000000000000000000", "2000000000000000000", "500000000000000000", "3500000000000000000", "0", "1500000000000000000"}[r.Intn(7)],
		[]string{"500000000000000000", "0", "1000000000000000000", "100000000000000000", "2000000000000000000"}[r.Intn(5)],
		[]string{"300000000000000000", "0", "1", "5000000000000000", "100000000000000000", "1000000000000000000"}[r.Intn(6)],
	}
}

const c05SigWbfRange = "C05:weight-breaking-fee-or-bonus-out-of-range"

func c05WbfCase(col *Collector, c c05Case) string {
	ctx := sdk.Context{}
	params := c05WbfParams(c)
	R, S := bigs(c.R), c05Big(c.S)
	W, acc, prices := bigs(c.Weights), bigs(c.Acc), bigs(c.Prices)
	p := c05Pool(R, S, W, true, "")
	snap := p
	ok := c05Oracle{prices: map[string]sdkmath.LegacyDec{}}
	ak := c05Acc{acc: map[string]sdkmath.Int{}}
	for i := range R {
		ok.prices[c05Den(i)] = rawDec(prices[i])
		ak.acc[c05Den(i)] = sdkmath.NewIntFromBigInt(acc[i])
	}
	// the pure model of TVL has no range panics: skip what overflows there (as c05Pure does)
	if protect(func() error { _, err := p.TVL(ctx, ok, ak); return err }) == "skip" {
		return ""
	}
	prm := fmt.Sprintf("%s %s %s %s", zstr(params.WeightBreakingFeeMultiplier.BigInt()), zstr(params.WeightBreakingFeeExponent.BigInt()),
		zstr(params.WeightBreakingFeePortion.BigInt()), zstr(params.ThresholdWeightDifference.BigInt()))
	inputs := fmt.Sprintf("%s %s %s %s", zlist(acc), zlist(prices), zlist(W), prm)
	cap99 := sdkmath.LegacyNewDecWithPrec(99, 2)
	rangeCheck := func(what string, bonus sdkmath.LegacyDec) {
		col.ImplCheck(1)
		if bonus.GT(cap99.Mul(params.WeightBreakingFeePortion)) || bonus.Neg().GT(cap99) {
			col.Violate(Violation{Signature: c05SigWbfRange, Detail: fmt.Sprintf("%s: weightBalanceBonus %s outside [-0.99, 0.99*portion]", what, bonus), History: c.ID, Replay: c})
		}
	}
	id := c.ID
	if c.Kind == "ojoin" {
		amt := c05Big(c.Amt)
		var shares sdkmath.Int
		var bonus sdkmath.LegacyDec
		kind := protect(func() (err error) {
			_, shares, _, bonus, err = p.JoinPool(ctx, &snap, ok, ak, sdk.Coins{sdk.Coin{Denom: c05Den(c.D), Amount: sdkmath.NewIntFromBigInt(amt)}}, params)
			return err
		})
		col.Op("ojoin_wf", kind, amt)
		if kind == "skip" {
			return ""
		}
		if kind != "ok" {
			return fmt.Sprintf("COJoinW %d %s %s %d%%nat %s %s %d 0 0 [] 0", id, zlist(R), zstr(S), c.D, zstr(amt), inputs, kindNo[kind])
		}
		rangeCheck("oracle join", bonus)
		if bonus.IsPositive() {
			col.Op("ojoin_bonus_positive", "ok", amt)
		}
		R2, S2 := c05Reserves(&p), p.TotalShares.Amount.BigInt()
		return fmt.Sprintf("COJoinW %d %s %s %d%%nat %s %s 0 %s %s %s %s", id, zlist(R), zstr(S), c.D, zstr(amt), inputs, zstr(shares.BigInt()), zstr(bonus.BigInt()), zlist(R2), zstr(S2))
	}
	sh := c05Big(c.Share)
	var bonus sdkmath.LegacyDec
	var out sdk.Coins
	kind := protect(func() (err error) {
		_, bonus, err = p.CalcExitPoolCoinsFromShares(ctx, ok, ak, sdkmath.NewIntFromBigInt(sh), c05Den(c.D), params)
		return err
	})
	if kind == "ok" {
		kind = protect(func() (err error) {
			out, err = p.ExitPool(ctx, ok, ak, sdkmath.NewIntFromBigInt(sh), c05Den(c.D), params)
			return err
		})
	}
	col.Op("oexit_wf", kind, sh)
	if kind == "skip" {
		return ""
	}
	if kind != "ok" {
		return fmt.Sprintf("COExitW %d %s %s %s %d%%nat %s %d 0 0 [] 0", id, zlist(R), zstr(S), zstr(sh), c.D, inputs, kindNo[kind])
	}
	rangeCheck("oracle exit", bonus)
	col.ImplCheck(1)
	if bonus.IsPositive() {
		col.Violate(Violation{Signature: "C05:oracle-exit-earns-a-bonus", Detail: fmt.Sprintf("weightBalanceBonus %s > 0 on an exit", bonus), History: c.ID, Replay: c})
	}
	R2, S2 := c05Reserves(&p), p.TotalShares.Amount.BigInt()
	return fmt.Sprintf("COExitW %d %s %s %s %d%%nat %s 0 %s %s %s %s", id, zlist(R), zstr(S), zstr(sh), c.D, inputs,
		zstr(out.AmountOf(c05Den(c.D)).BigInt()), zstr(bonus.BigInt()), zlist(R2), zstr(S2))
}

var _ = big.NewInt
