package harness

// C06 trace emission for the shared ledger driver: after every transaction and every block the
// stable-stake vault's books are read (Params.TotalValue, the module account's deposit-denom balance,
// every stored Debt record) and the step is described as primitive vault operations of
// coq/Models/VaultLedger.v:
//   - every committed bank transfer of the deposit denom into or out of the module account (from the
//     SDK bank events, in commit order) is one operation: VBond (sender = creator of a MsgBond),
//     VRepay (sender has / had a Debt record), VDonate (anybody else), VBorrow (recipient has a Debt
//     record), VUnbond (recipient = creator of a MsgUnbond), VOut (anything else: the model refuses it);
//   - the interest stacked for a borrower in the step is the change of InterestStacked (for a record
//     deleted by a full repayment: what was paid beyond principal and unpaid interest);
//   - records written without a transfer are VAccrue.
// The Coq evaluator replays the operations and must land on the same TotalValue, cash, record set and
// record fields. Also here: the C06-only corpus and the extra operations mixed into the generated
// histories when the driver runs for C06 (separate PRNG stream: other properties' histories are unchanged).

import (
	"errors"
	"fmt"
	"math/big"
	"sort"
	"strings"

	sdkmath "cosmossdk.io/math"
	sdk "github.com/cosmos/cosmos-sdk/types"
	sdkerrors "github.com/cosmos/cosmos-sdk/types/errors"
	authtypes "github.com/cosmos/cosmos-sdk/x/auth/types"

	sstypes "github.com/elys-network/elys/x/stablestake/types"
)

type c06Tracer struct {
	x     *lRun
	vault string
	ids   map[string]int
	order []string
	prev  map[string]sstypes.Debt
	steps []string
	cnt   map[string]int
}

func c06Debts(x *lRun) map[string]sstypes.Debt {
	m := map[string]sstypes.Debt{}
	for _, d := range x.w.App.StablestakeKeeper.GetAllDebts(x.w.QCtx()) {
		m[d.Address] = d
	}
	return m
}

func newC06Tracer(x *lRun) *c06Tracer {
	c := &c06Tracer{x: x, ids: map[string]int{}, prev: map[string]sstypes.Debt{}, cnt: map[string]int{}}
	c.vault = authtypes.NewModuleAddress(sstypes.ModuleName).String()
	// the fixture has bonded once: the trace starts from the empty vault with that deposit
	ctx := x.w.QCtx()
	sp := x.w.App.StablestakeKeeper.GetParams(ctx)
	var ops []string
	if sp.TotalValue.IsPositive() {
		ops = append(ops, "VBond "+zstr(sp.TotalValue.BigInt()))
	}
	c.prev = c06Debts(x)
	c.steps = append(c.steps, fmt.Sprintf("([%s], %s)", strings.Join(ops, ";"), c.obs()))
	return c
}

func (c *c06Tracer) id(a string) int {
	if v, ok := c.ids[a]; ok {
		return v
	}
	c.ids[a] = len(c.ids)
	c.order = append(c.order, a)
	return c.ids[a]
}

func (c *c06Tracer) obs() string {
	w := c.x.w
	ctx := w.QCtx()
	sp := w.App.StablestakeKeeper.GetParams(ctx)
	dd := w.App.StablestakeKeeper.GetDepositDenom(ctx)
	cash := w.App.BankKeeper.GetBalance(ctx, authtypes.NewModuleAddress(sstypes.ModuleName), dd).Amount
	cur := c06Debts(c.x)
	// every address with a record gets an id (sorted for determinism)
	var as []string
	for a := range cur {
		as = append(as, a)
	}
	sort.Strings(as)
	for _, a := range as {
		c.id(a)
	}
	var ds []string
	for k, a := range c.order {
		d, ok := cur[a]
		if ok {
			ds = append(ds, fmt.Sprintf("(%d%%nat,true,%s,%s,%s)", k, zstr(d.Borrowed.BigInt()), zstr(d.InterestStacked.BigInt()), zstr(d.InterestPaid.BigInt())))
		} else {
			ds = append(ds, fmt.Sprintf("(%d%%nat,false,0,0,0)", k))
		}
	}
	return fmt.Sprintf("mkVO %s %s %d [%s]", zstr(sp.TotalValue.BigInt()), zstr(cash.BigInt()), len(cur), strings.Join(ds, ";"))
}

// step describes one committed transaction (kind = the driver's op name, creator = its signer) or one
// block (kind "block"). ok=false: the transaction failed and must have left the vault untouched.
func (c *c06Tracer) step(ops []BankOp, kind, creator string, res TxResult) {
	w := c.x.w
	dd := w.App.StablestakeKeeper.GetDepositDenom(w.QCtx())
	cur := c06Debts(c.x)
	isDebt := func(a string) bool {
		_, p := c.prev[a]
		_, q := cur[a]
		return p || q
	}
	// amounts repaid per borrower in this step (needed for the interest of a deleted record)
	repaid := map[string]sdkmath.Int{}
	for _, o := range ops {
		if o.Kind == "send" && o.Denom == dd && o.To == c.vault && o.From != c.vault && isDebt(o.From) {
			if _, ok := repaid[o.From]; !ok {
				repaid[o.From] = sdkmath.ZeroInt()
			}
			repaid[o.From] = repaid[o.From].Add(o.Amt)
		}
	}
	interest := func(a string) sdkmath.Int {
		p, hadP := c.prev[a]
		q, hasQ := cur[a]
		ps, pb, pp := sdkmath.ZeroInt(), sdkmath.ZeroInt(), sdkmath.ZeroInt()
		if hadP {
			ps, pb, pp = p.InterestStacked, p.Borrowed, p.InterestPaid
		}
		r, wasRepaid := repaid[a]
		if hasQ && !(wasRepaid && hadP && q.Borrowed.IsZero()) {
			return q.InterestStacked.Sub(ps)
		}
		// record deleted by a full repayment (Repay deletes at zero principal; a record that is there
		// afterwards with zero principal was written again by a later UpdateInterestAndGetDebt of the same
		// step): everything paid beyond principal + unpaid interest was interest stacked by the Repay call
		if !wasRepaid {
			return sdkmath.ZeroInt()
		}
		return r.Sub(pb).Sub(ps.Sub(pp))
	}
	done := map[string]bool{}
	take := func(a string) sdkmath.Int {
		if done[a] {
			return sdkmath.ZeroInt()
		}
		done[a] = true
		i := interest(a)
		if i.IsPositive() {
			c.cnt["interest_positive"]++
		}
		return i
	}
	var vops []string
	for _, o := range ops {
		if o.Kind != "send" || o.Denom != dd || o.From == o.To {
			continue
		}
		switch {
		case o.To == c.vault && isDebt(o.From):
			k := c.id(o.From)
			vops = append(vops, fmt.Sprintf("VRepay %d %s %s", k, zstr(o.Amt.BigInt()), zstr(take(o.From).BigInt())))
			if q, ok := cur[o.From]; ok && q.Borrowed.IsZero() {
				// deleted by the Repay, written again (all zero) by the UpdateInterestAndGetDebt that follows
				vops = append(vops, fmt.Sprintf("VAccrue %d %s", k, zstr(q.InterestStacked.BigInt())))
				c.cnt["repay_full_record_rewritten_empty"]++
			} else if ok {
				c.cnt["repay_partial"]++
				if kind == "block" || kind == "lev_close_positions" {
					if !q.Borrowed.Add(q.InterestStacked).Sub(q.InterestPaid).IsZero() && !c06HasPosition(c.x, o.From) {
						c.cnt["liquidation_shortfall"]++ // position gone, debt record stays
					}
				}
			} else {
				c.cnt["repay_full_record_deleted"]++
			}
		case o.To == c.vault && kind == "bond" && o.From == creator:
			vops = append(vops, "VBond "+zstr(o.Amt.BigInt()))
			c.cnt["bond"]++
		case o.To == c.vault:
			vops = append(vops, "VDonate "+zstr(o.Amt.BigInt()))
			c.cnt["third_party_receipt"]++
		case o.From == c.vault && isDebt(o.To):
			k := c.id(o.To)
			vops = append(vops, fmt.Sprintf("VBorrow %d %s %s", k, zstr(o.Amt.BigInt()), zstr(take(o.To).BigInt())))
			c.cnt["borrow"]++
		case o.From == c.vault && kind == "unbond" && o.To == creator:
			vops = append(vops, "VUnbond "+zstr(o.Amt.BigInt()))
			c.cnt["unbond"]++
		case o.From == c.vault:
			vops = append(vops, "VOut "+zstr(o.Amt.BigInt()))
			c.cnt["unexplained_payout"]++
		}
	}
	// records written without a transfer: UpdateInterestAndGetDebt alone
	var as []string
	for a := range cur {
		as = append(as, a)
	}
	sort.Strings(as)
	for _, a := range as {
		if done[a] {
			continue
		}
		_, had := c.prev[a]
		i := take(a)
		if !had || !i.IsZero() {
			vops = append(vops, fmt.Sprintf("VAccrue %d %s", c.id(a), zstr(i.BigInt())))
			c.cnt["accrue"]++
		}
	}
	if kind == "unbond" && !res.OK() && res.Err != nil && errors.Is(res.Err, sdkerrors.ErrInsufficientFunds) {
		c.cnt["unbond_refused_cash_short"]++
	}
	if kind == "lev_open" && !res.OK() && res.Err != nil && errors.Is(res.Err, sstypes.ErrMaxBorrowAmount) {
		c.cnt["borrow_refused_by_cap"]++
	}
	c.steps = append(c.steps, fmt.Sprintf("([%s], %s)", strings.Join(vops, ";"), c.obs()))
	c.prev = cur
}

func c06HasPosition(x *lRun, addr string) bool {
	for _, p := range x.w.App.LeveragelpKeeper.GetAllPositions(x.w.QCtx()) {
		if p.GetPositionAddress().String() == addr {
			return true
		}
	}
	return false
}

func (c *c06Tracer) caseText(id int) string {
	return fmt.Sprintf("mkVC %d [\n  %s]", id, strings.Join(c.steps, ";\n  "))
}

func (c *c06Tracer) finish(col *Collector) {
	// debt records that outlived their position with something still owed (bad debt kept on the books)
	n := 0
	for a, d := range c.prev {
		if d.Borrowed.Add(d.InterestStacked).Sub(d.InterestPaid).IsPositive() && !c06HasPosition(c.x, a) {
			n++
		}
	}
	col.mu.Lock()
	defer col.mu.Unlock()
	for k, v := range c.cnt {
		old, _ := col.rep.Extra["c06_"+k].(int)
		col.rep.Extra["c06_"+k] = old + v
	}
	old, _ := col.rep.Extra["c06_bad_debt_records_at_end"].(int)
	col.rep.Extra["c06_bad_debt_records_at_end"] = old + n
}

// ---------------- keeper-level add-collateral ----------------

// c06AddCollateral drives Keeper.ProcessAddCollateral (no message reaches it in this tree; it is part of
// the property's quantifier) as one atomic transaction on a cache context.
func c06AddCollateral(x *lRun, op lOp) (res TxResult, amt *big.Int) {
	w := x.w
	ps := w.App.LeveragelpKeeper.GetAllPositions(w.QCtx())
	if len(ps) == 0 {
		return TxResult{Err: fmt.Errorf("skip")}, nil
	}
	p := ps[op.Idx%len(ps)]
	debt := w.App.StablestakeKeeper.GetDebt(w.QCtx(), p.GetPositionAddress())
	v := relOf(op.Rel, debt.GetTotalLiablities())
	amt = v.BigInt()
	if !v.IsPositive() {
		return TxResult{Err: fmt.Errorf("skip")}, amt
	}
	base := w.Ctx()
	cctx, write := base.CacheContext()
	cctx = cctx.WithEventManager(sdk.NewEventManager())
	defer func() {
		if r := recover(); r != nil {
			res = TxResult{Panic: r}
		}
	}()
	if err := w.App.LeveragelpKeeper.ProcessAddCollateral(cctx, p.Address, p.Id, v); err != nil {
		return TxResult{Err: err}, amt
	}
	write()
	return TxResult{Events: cctx.EventManager().ABCIEvents()}, amt
}

// ---------------- C06-only histories ----------------

func c06Corpus() []lHist {
	vaultSwap := func(u int, amt string) lOp { // ATOM -> USDC on the oracle pool, paid out to the vault's module account
		return lOp{Op: "swap_in", U: u, V: u, Pool: 0, Dir: 1, Amt: amt, Rel: 2}
	}
	return []lHist{
		{Ops: []lOp{ // swap recipient = vault: the minimal history of C06:swap-recipient-vault-inflates-cash
			vaultSwap(1, "1000000"), {Op: "blocks", N: 1, DT: 5}}},
		{Ops: []lOp{ // borrow, interest over long gaps, partial closes, full close (record deleted)
			{Op: "lev_open", U: 1, Amt: "2000000000", Lev: "5", P: "0"}, {Op: "blocks", N: 2, DT: 86400},
			{Op: "lev_open", U: 2, Amt: "3000000", Lev: "10", P: "0"}, {Op: "blocks", N: 1, DT: 2592000},
			{Op: "lev_close", U: 1, Idx: 0, Rel: 2}, {Op: "blocks", N: 1, DT: 2592000},
			{Op: "lev_add_collateral", U: 1, Idx: 0, Rel: 2}, {Op: "lev_add_collateral", U: 1, Idx: 1, Rel: 6},
			{Op: "lev_open", U: 1, Amt: "1000000000", Lev: "3", P: "0"}, // consolidating re-open: second Borrow on the same record
			{Op: "lev_close", U: 1, Idx: 0, Rel: 5}, {Op: "lev_close", U: 2, Idx: 0, Rel: 5}, {Op: "blocks", N: 1, DT: 5}}},
		{Ops: []lOp{ // price crash: 10x positions are worth less than their debt; liquidation repays only what there is
			{Op: "lev_open", U: 1, Amt: "1000000000", Lev: "10", P: "0"}, {Op: "lev_open", U: 2, Amt: "50000000", Lev: "9.5", P: "0"},
			{Op: "blocks", N: 1, DT: 3700}, {Op: "price", P: "0.5"}, {Op: "blocks", N: 1, DT: 5},
			{Op: "lev_close_positions", U: 4, Idx: 0, Dir: 0}, {Op: "lev_close_positions", U: 4, Idx: 0, Dir: 0},
			{Op: "blocks", N: 2, DT: 86400}, {Op: "bond", U: 3, Amt: "777"}, {Op: "unbond", U: 3, Rel: 5}}},
		{Ops: []lOp{ // vault lent out, the big lender asks for more than the cash at hand, then for what is there
			{Op: "lev_open", U: 1, Amt: "12000000000", Lev: "10", P: "0"}, {Op: "lev_open", U: 2, Amt: "3000000000", Lev: "10", P: "0"},
			{Op: "unbond", U: 5, Rel: 5}, {Op: "unbond", U: 5, Rel: 4}, {Op: "unbond", U: 5, Rel: 2},
			{Op: "blocks", N: 1, DT: 86400}, {Op: "unbond", U: 5, Rel: 2}, vaultSwap(3, "5000000000"), {Op: "blocks", N: 1, DT: 5},
			{Op: "lev_open", U: 3, Amt: "9000000000", Lev: "10", P: "0"}, // the cap now works on an understated "borrowed"
			{Op: "lev_close", U: 1, Idx: 0, Rel: 5}, {Op: "blocks", N: 1, DT: 5}}},
	}
}

// c06Augment mixes vault-centred operations into a generated history (own PRNG stream).
func c06Augment(h lHist, r *Rng) lHist {
	var out []lOp
	// two-pool market: the big borrowers open on either leveraged-LP pool (one vault lends to both)
	q := func() int {
		if !h.Two {
			return 0
		}
		return r.Intn(2)
	}
	for _, op := range h.Ops {
		out = append(out, op)
		if !r.Chance(22) {
			continue
		}
		switch r.Intn(8) {
		case 0:
			out = append(out, lOp{Op: "lev_add_collateral", U: r.Intn(5), Idx: r.Intn(4), Rel: r.Intn(8)})
		case 1:
			out = append(out, lOp{Op: "unbond", U: 5, Rel: 1 + r.Intn(5)})
		case 2:
			out = append(out, lOp{Op: "blocks", N: 1, DT: r.Pick(86400, 604800, 2592000)})
		case 3:
			out = append(out, lOp{Op: "price", P: "0.5", Q: q()}, lOp{Op: "lev_close_positions", U: r.Intn(5), Idx: r.Intn(4), Dir: 0})
		case 4:
			out = append(out, lOp{Op: "lev_open", U: r.Intn(5), Amt: r.Decade(8, 11).String(), Lev: []string{"9.5", "10"}[r.Intn(2)], P: "0", Q: q()})
		case 5:
			out = append(out, lOp{Op: "lev_close", U: r.Intn(5), Idx: r.Intn(4), Rel: 1 + r.Intn(5)})
		case 6:
			out = append(out, lOp{Op: "swap_in", U: r.Intn(5), V: 0, Pool: r.Intn(2), Dir: 1, Amt: r.Decade(0, 10).String(), Rel: 2, Q: q()})
		default:
			out = append(out, lOp{Op: "bond", U: r.Intn(5), Amt: r.Decade(0, 12).String()})
		}
	}
	h.Ops = out
	return h
}

const c06CoqHeader = "From Coq Require Import ZArith List Bool.\nFrom Elys Require Import Base.Res Base.Fn Models.SumLedger Models.VaultLedger Run.VaultLedgerRun.\nImport ListNotations.\nOpen Scope Z_scope.\n"
const c06CoqFooter = "Definition M := Eval vm_compute in mismatches cases.\nPrint M.\n"
