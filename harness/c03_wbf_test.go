package harness

// C03 (and C05): correspondence cases for the weight-breaking fee model coq/Models/WeightFee.v.
//   kind 12 / 13  the whole oracle SwapOutAmtGivenIn / SwapInAmtGivenOut with the fee COMPUTED by the model from the
//                 pool state and the amm params (the fee no longer is an argument taken from the implementation):
//                 amount and weightBalanceBonus (or the error kind) must agree
//   kind 14       GetWeightBreakingFee called directly (weights 0 / tiny / around the target, distanceDiff -1 / 0 / +1 ulp,
//                 multiplier 0 .. 5, values around the 0.99 cap)
//   kind 15 / 16  Pool.WeightDistanceFromTarget, GetDenomOracleAssetWeight, GetDenomNormalizedWeight on pools of 0-4 assets
// Evaluated by coq/Run/WeightFeeRun.v (eval_case_wf).

import (
	"fmt"
	"math/big"

	sdkmath "cosmossdk.io/math"
	sdk "github.com/cosmos/cosmos-sdk/types"

	ammtypes "github.com/elys-network/elys/x/amm/types"
)

// amm params of a case as the four raw LegacyDec integers the model takes
func c03WbfParamArgs(p ammtypes.Params) []string {
	return []string{zstr(p.WeightBreakingFeeMultiplier.BigInt()), zstr(p.WeightBreakingFeeExponent.BigInt()),
		zstr(p.WeightBreakingFeePortion.BigInt()), zstr(p.ThresholdWeightDifference.BigInt())}
}

// params drawn for a pure oracle case: mostly the defaults of the chain, sometimes other multipliers / exponents (integer or
// half-integer: LegacyDec.Power and ApproxSqrt only, cheap in Coq's VM) / portions / thresholds incl. 0
func c03WbfGenParams(r *Rng, c *c03Case) {
	if r.Chance(45) {
		return
	}
	c.WbMult = []string{"0", "500000000000000", "20000000000000000", "1000000000000000000", "5000000000000000000", "1"}[r.Intn(6)]
	c.WbExp = []string{"2500000000000000000", "1000000000000000000", "2000000000000000000", "500000000000000000", "3500000000000000000", "0", "1500000000000000000"}[r.Intn(7)]
	c.WbPortion = []string{"500000000000000000", "0", "1000000000000000000", "100000000000000000", "2000000000000000000"}[r.Intn(5)]
	c.WbThr = []string{"300000000000000000", "0", "1", "5000000000000000", "100000000000000000", "1000000000000000000"}[r.Intn(6)]
}

func (c c03Case) wbfArgs(ratio *big.Int) []string {
	inf := "0"
	if c.InFirst {
		inf = "1"
	}
	a := append(c.poolArgs(), inf, c03Zs(c.Amt), zstr(ratio), c03Pow18.String(), c03Zs(c.Fee))
	return append(a, c03WbfParamArgs(c.ammParams())...)
}

// cost (Pow series iterations in Coq) of the balancer calculation on the resized amount; 1 if there is none
func (c c03Case) wbfCost(givenOut bool) (cost float64) {
	defer func() {
		if recover() != nil {
			cost = 1
		}
	}()
	ratio := c03BigS(c.RatioOut)
	if ratio.Sign() == 0 || c03BigS(c.PriceIn).Sign() == 0 || c03BigS(c.PriceOut).Sign() == 0 {
		return 1
	}
	c2 := c
	c2.Amt = rawDec(new(big.Int).Mul(c03BigS(c.Amt), c03Pow18)).Quo(rawDec(ratio)).RoundInt().String()
	c2.Fee = "0"
	return c2.cost(givenOut)
}

// the result the model must reproduce: (0, amount, bonus) or (error code, 0, 0)
func c03WbfRes(o c03OracleRes) c03Res {
	if o.R.Code != 0 {
		return c03Res{o.R.Code, big.NewInt(0), big.NewInt(0)}
	}
	return c03Res{0, o.R.V1, o.Bonus}
}

// implementation-side facts about the bonus / fee the swap function returned (independent of the model):
// the rate never exceeds 0.99 * portion (rounded), a fee (negative bonus) never exceeds 0.99
const c03SigWbfRange = "C03:weight-breaking-fee-or-bonus-out-of-range"

func c03WbfImplCheck(col *Collector, idx int, c c03Case, o c03OracleRes) {
	if o.R.Code != 0 {
		return
	}
	col.ImplCheck(1)
	p := c.ammParams()
	cap99 := sdkmath.LegacyNewDecWithPrec(99, 2)
	maxBonus := cap99.Mul(p.WeightBreakingFeePortion).BigInt()
	if o.Bonus.Cmp(maxBonus) > 0 || new(big.Int).Neg(o.Bonus).Cmp(cap99.BigInt()) > 0 {
		col.Violate(Violation{Signature: c03SigWbfRange, Detail: fmt.Sprintf("weightBalanceBonus %s outside [-0.99, 0.99*portion=%s]: %+v", o.Bonus, maxBonus, c), History: idx, Replay: c})
	}
}

// ---------- direct cases ----------

func c03WbfWeight(r *Rng) *big.Int { // a normalized weight: 0, 1 ulp, tiny, around 1/2, close to 1, 1
	switch r.Intn(9) {
	case 0:
		return big.NewInt(0)
	case 1:
		return big.NewInt(1 + int64(r.Intn(3)))
	case 2:
		return r.Decade(0, 17)
	case 3:
		return new(big.Int).Set(c03Pow18)
	case 4:
		return new(big.Int).Sub(c03Pow18, r.Decade(0, 17))
	case 5:
		return c03MulRat(c03Pow18, 1, 2)
	default:
		return r.Big(c03Pow18)
	}
}

func c03WbfDirect(seed int64, col *Collector, scale int, emit func(kind int, args []string, r c03Res, cost float64)) {
	r := NewRng(uint64(seed), 305)
	mults := []string{"0", "500000000000000", "500000000000000", "20000000000000000", "1000000000000000000", "5000000000000000000", "1", "990000000000000000", "990000000000000001"}
	exps := []string{"2500000000000000000", "2500000000000000000", "1000000000000000000", "2000000000000000000", "500000000000000000", "3500000000000000000", "0", "1500000000000000000", "10000000000000000000"}
	// kind 14: GetWeightBreakingFee
	for i := 0; i < 260*scale; i++ {
		var w [6]*big.Int
		for j := range w {
			w[j] = c03WbfWeight(r)
		}
		if r.Chance(50) { // a consistent two-asset picture: out = 1 - in
			for j := 0; j < 6; j += 2 {
				if w[j].Cmp(c03Pow18) <= 0 {
					w[j+1] = new(big.Int).Sub(c03Pow18, w[j])
				}
			}
		}
		var dd *big.Int
		switch r.Intn(6) {
		case 0:
			dd = big.NewInt(0)
		case 1:
			dd = big.NewInt(1)
		case 2:
			dd = big.NewInt(-1)
		case 3:
			dd = new(big.Int).Neg(r.Decade(0, 18))
		default:
			dd = r.Decade(0, 18)
		}
		mu, ex := mults[r.Intn(len(mults))], exps[r.Intn(len(exps))]
		p := c03Params()
		p.WeightBreakingFeeMultiplier, p.WeightBreakingFeeExponent = c03DecS(mu), c03DecS(ex)
		res := c03Guard(func() c03Res {
			v := ammtypes.GetWeightBreakingFee(rawDec(w[0]), rawDec(w[1]), rawDec(w[2]), rawDec(w[3]), rawDec(w[4]), rawDec(w[5]), rawDec(dd), p)
			return c03Res{0, v.BigInt(), big.NewInt(0)}
		})
		col.Op("wbf_direct", res.kind(), dd)
		col.Distinct(fmt.Sprintf("wbf:%v:%s:%s:%s", w, dd, mu, ex), res.Code == 0)
		emit(14, []string{zstr(w[0]), zstr(w[1]), zstr(w[2]), zstr(w[3]), zstr(w[4]), zstr(w[5]), zstr(dd), c03Zs(mu), c03Zs(ex)}, res, 1)
		if res.Code == 0 {
			col.ImplCheck(1)
			if res.V1.Sign() < 0 || res.V1.Cmp(c03BigS("990000000000000000")) > 0 {
				col.Violate(Violation{Signature: c03SigWbfRange, Detail: fmt.Sprintf("GetWeightBreakingFee = %s outside [0, 0.99]: weights %v dd %s mult %s exp %s", res.V1, w, dd, mu, ex), History: i})
			}
		}
	}
	// kinds 15, 16: weight distance and the per-denom weights
	for i := 0; i < 200*scale; i++ {
		n := []int{2, 2, 2, 3, 4, 1, 0}[r.Intn(7)]
		var assets []ammtypes.PoolAsset
		or := c03Oracle{prices: map[string]sdkmath.LegacyDec{}}
		var args []string
		for j := 0; j < n; j++ {
			amt := r.Decade(0, 30)
			if r.Chance(6) {
				amt = big.NewInt(0)
			}
			wt := big.NewInt(r.Pick(1, 1, 50, 40, 60, 20, 80, 1073741824, 3))
			if r.Chance(4) {
				wt = big.NewInt(0)
			}
			pr := c03Price(r)
			if r.Chance(4) {
				pr = big.NewInt(0)
			}
			d := fmt.Sprintf("udd%d", j)
			assets = append(assets, ammtypes.PoolAsset{Token: sdk.Coin{Denom: d, Amount: sdkmath.NewIntFromBigInt(amt)}, Weight: sdkmath.NewIntFromBigInt(wt)})
			or.prices[d] = rawDec(pr)
			args = append(args, zstr(amt), zstr(wt), zstr(pr))
		}
		pool := ammtypes.Pool{PoolId: 1, PoolAssets: assets, PoolParams: ammtypes.PoolParams{UseOracle: true}}
		res := c03Guard(func() c03Res {
			return c03Res{0, pool.WeightDistanceFromTarget(c03Ctx(), or, assets).BigInt(), big.NewInt(0)}
		})
		col.Op("weight_distance", res.kind(), big.NewInt(int64(n)))
		col.Distinct(fmt.Sprintf("wd:%v", args), res.Code == 0)
		emit(15, args, res, 1)
		if n > 0 {
			k := r.Intn(n)
			d := fmt.Sprintf("udd%d", k)
			res2 := c03Guard(func() c03Res {
				return c03Res{0, ammtypes.GetDenomOracleAssetWeight(c03Ctx(), 1, or, assets, d).BigInt(), ammtypes.GetDenomNormalizedWeight(assets, d).BigInt()}
			})
			emit(16, append([]string{fmt.Sprint(k)}, args...), res2, 1)
		}
	}
}
