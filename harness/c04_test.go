package harness

// C04 - a swap settles exactly as requested within the user's limit, or changes nothing.
//
// Driver: blocks of 1-6 swap messages (exact-in, exact-out, by-denom; single- and multi-hop; same and
// opposite directions; recipient = sender / other user / empty / a pool address / a module address;
// limits set to exactly the achievable amount and one unit either side; senders that cannot pay both of
// their requests) on the real app. The messages go through the production router (they only enqueue),
// the block is closed by the real FinalizeBlock + Commit, and the committed bank events of the AMM end
// blocker are cut into hops (one token_swapped event each) and matched to the stored requests.
//   - the property's own predicate is evaluated per request on those bank operations and per block on
//     the balances of every tracked account (before the block / after commit);
//   - every block becomes a Coq case: the model (Models/SwapQueue.v) replays the handlers with the
//     amounts of a dry run, then the batch loop with the coded selection over the real store keys,
//     and must execute / drop the same requests in the same order and reproduce all balances.

import (
	"bytes"
	"fmt"
	"math/big"
	"sort"
	"strconv"
	"strings"
	"testing"

	sdkmath "cosmossdk.io/math"
	abci "github.com/cometbft/cometbft/abci/types"
	sdk "github.com/cosmos/cosmos-sdk/types"
	authtypes "github.com/cosmos/cosmos-sdk/x/auth/types"

	ammtypes "github.com/elys-network/elys/x/amm/types"
)

// ---------------------------------------------------------------- histories

type c04Op struct {
	Kind  string `json:"kind"`  // in | out | bd_in | bd_out | price
	From  int    `json:"from"`  // user index
	To    int    `json:"to"`    // user index; -1 empty recipient; -2 address of the CP pool; -3 stablestake module address
	Route int    `json:"route"` // index into c04Routes
	Amt   string `json:"amt"`   // absolute amount, or "pct:N" = N % of the sender's balance of the paid denom (in) / of 1e6 (out)
	Lim   string `json:"lim"`   // loose | exact | slack | tight | zero
	Price string `json:"price,omitempty"`
}

type c04Block struct {
	Ops []c04Op `json:"ops"`
}

type c04Hist struct {
	ID     int        `json:"id"`
	Blocks []c04Block `json:"blocks"`
}

// a route as the sequence of denoms it passes and the pools it uses (0 = oracle pool uusdc/uatom,
// 1 = constant-product uusdc/uelys, 2 = constant-product uusdc/uatom, 9 = a pool that does not exist)
type c04Route struct {
	Denoms []string
	Pools  []int
}

var c04Routes = []c04Route{
	{[]string{ATOM, USDC}, []int{0}},             // 0
	{[]string{USDC, ATOM}, []int{0}},             // 1
	{[]string{USDC, ELYS}, []int{1}},             // 2
	{[]string{ELYS, USDC}, []int{1}},             // 3
	{[]string{ATOM, USDC}, []int{2}},             // 4
	{[]string{USDC, ATOM}, []int{2}},             // 5
	{[]string{ATOM, USDC, ELYS}, []int{0, 1}},    // 6
	{[]string{ELYS, USDC, ATOM}, []int{1, 0}},    // 7
	{[]string{ATOM, USDC, ELYS}, []int{2, 1}},    // 8
	{[]string{ELYS, USDC, ATOM}, []int{1, 2}},    // 9
	{[]string{USDC, ATOM, USDC}, []int{0, 2}},    // 10 cyclic
	{[]string{ATOM, USDC, ATOM}, []int{2, 0}},    // 11 cyclic
	{[]string{ELYS, USDC, ATOM, USDC}, []int{1, 0, 2}}, // 12 three hops
	{[]string{ATOM, USDC}, []int{1}},             // 13 invalid: pool without the denom
	{[]string{USDC, ATOM}, []int{9}},             // 14 invalid: no such pool
	{[]string{USDC, USDC}, []int{0}},             // 15 invalid: same denom
	// routes that come back to a pool they already used (c04RevisitFirst .. end); the hop loops decide "last hop" by
	// position, so the earlier visit of the last pool must pay the SENDER and run with the neutral limit
	{[]string{USDC, ATOM, USDC}, []int{0, 0}},          // 16 there and back on the oracle pool
	{[]string{ATOM, USDC, ATOM}, []int{2, 2}},          // 17 there and back on a constant-product pool
	{[]string{USDC, ELYS, USDC}, []int{1, 1}},          // 18
	{[]string{ELYS, USDC, ELYS}, []int{1, 1}},          // 19
	{[]string{USDC, ATOM, USDC, ATOM}, []int{0, 2, 0}}, // 20 A-B-A: the last pool is also the first
	{[]string{ATOM, USDC, ATOM, USDC}, []int{2, 0, 2}}, // 21 A-B-A
	{[]string{USDC, ELYS, USDC, ATOM}, []int{1, 1, 0}}, // 22 the FIRST pool twice in a row, last pool fresh
	{[]string{ELYS, USDC, ATOM, USDC}, []int{1, 2, 2}}, // 23 the LAST pool twice in a row
	{[]string{USDC, ATOM, USDC, ELYS}, []int{0, 0, 1}}, // 24
	{[]string{ATOM, USDC, ATOM, USDC}, []int{0, 0, 0}}, // 25 one pool three times
	{[]string{ATOM, USDC, ATOM}, []int{0, 0}},          // 26
	{[]string{USDC, ATOM, USDC}, []int{2, 2}},          // 27
}

const c04RevisitFirst = 16

const c04Users = 6 // 0..3 funded with 1e12 of each denom, 4..5 poor

// revisit = false: the histories as they always were; revisit = true: the same generator, with about half of the
// requests (in some blocks nearly all) rewritten by c04Revisit from a second random stream
func c04Gen(r *Rng, id int, revisit bool) c04Hist {
	h := c04Hist{ID: id}
	r2 := &Rng{s: r.s*0x2545F4914F6CDD1D + 0xC04B}
	r2.Next()
	nb := 2 + r.Intn(3)
	for b := 0; b < nb; b++ {
		var blk c04Block
		n := 1 + r.Intn(6)
		// a theme per block makes collisions frequent
		theme := r.Intn(5)
		base := r.Intn(13)
		revisitPct := 0
		if revisit {
			revisitPct = 45
			if r2.Chance(15) { // a whole block of routes that revisit pools
				revisitPct = 90
			}
		}
		for k := 0; k < n; k++ {
			var op c04Op
			switch x := r.Intn(100); {
			case x < 38:
				op.Kind = "in"
			case x < 76:
				op.Kind = "out"
			case x < 85:
				op.Kind = "bd_in"
			case x < 94:
				op.Kind = "bd_out"
			default:
				op.Kind = "price"
				op.Price = []string{"4.0", "4.9", "5.0", "5.1", "6.5"}[r.Intn(5)]
				blk.Ops = append(blk.Ops, op)
				continue
			}
			op.From = r.Intn(4)
			if r.Chance(25) {
				op.From = 4 + r.Intn(2)
			}
			switch x := r.Intn(100); {
			case x < 50:
				op.To = op.From
			case x < 80:
				op.To = r.Intn(c04Users)
			case x < 88:
				op.To = -1
			case x < 94:
				op.To = -2
			default:
				op.To = -3
			}
			switch theme {
			case 0: // same pool, both directions
				op.Route = []int{0, 1}[r.Intn(2)]
				if base%2 == 1 {
					op.Route = []int{2, 3}[r.Intn(2)]
				}
			case 1: // multi-hop
				op.Route = 6 + r.Intn(7)
			case 2: // one route, many requests
				op.Route = base
			default:
				op.Route = r.Intn(13)
			}
			if r.Chance(6) {
				op.Route = 13 + r.Intn(3)
			}
			switch x := r.Intn(100); {
			case x < 45:
				op.Amt = r.Decade(0, 10).String()
			case x < 60:
				op.Amt = r.Decade(9, 12).String()
			case x < 70:
				op.Amt = "1"
			default:
				op.Amt = "pct:" + strconv.Itoa([]int{1, 30, 60, 60, 99, 100, 101}[r.Intn(7)])
			}
			op.Lim = []string{"loose", "loose", "exact", "exact", "slack", "tight", "zero"}[r.Intn(7)]
			if revisitPct > 0 && r2.Chance(revisitPct) {
				c04Revisit(r2, &op)
			}
			blk.Ops = append(blk.Ops, op)
		}
		h.Blocks = append(h.Blocks, blk)
	}
	return h
}

// c04Revisit turns a request into one whose route uses a pool more than once (2 or 3 hops): exact-in or exact-out,
// sender rich in every denom of the fixture (now and then a poor one), recipient = sender / another user / (exact-in)
// an account that does not exist yet, minimum 1 or at / next to the achievable amount
func c04Revisit(r *Rng, op *c04Op) {
	op.Route = c04RevisitFirst + r.Intn(len(c04Routes)-c04RevisitFirst)
	switch op.Kind {
	case "bd_in":
		op.Kind = "in"
	case "bd_out":
		op.Kind = "out"
	}
	if r.Chance(25) {
		op.Kind = []string{"in", "out"}[r.Intn(2)]
	}
	op.From = r.Intn(4)
	if r.Chance(12) {
		op.From = 4 + r.Intn(2)
	}
	switch x := r.Intn(100); {
	case x < 30:
		op.To = op.From
	case x < 75 || op.Kind == "out":
		op.To = (op.From + 1 + r.Intn(c04Users-1)) % c04Users
	default:
		op.To = -4 - r.Intn(2)
	}
	switch x := r.Intn(100); {
	case x < 60:
		op.Amt = r.Decade(2, 9).String()
	case x < 75:
		op.Amt = r.Decade(9, 11).String()
	case x < 85:
		op.Amt = "1"
	default:
		op.Amt = "pct:" + strconv.Itoa([]int{1, 30, 99, 101}[r.Intn(4)])
	}
	op.Lim = []string{"loose", "loose", "loose", "exact", "exact", "slack", "tight", "zero"}[r.Intn(8)]
}

// a route that uses some pool on more than one hop
func c04Revisits(pools []uint64) bool {
	seen := map[uint64]bool{}
	for _, p := range pools {
		if seen[p] {
			return true
		}
		seen[p] = true
	}
	return false
}

func c04Corpus() []c04Hist {
	return []c04Hist{
		{ // suspicion j: two-hop exact-out with recipient <> sender (+ a two-hop exact-in and a by-denom exact-out naming a recipient)
			Blocks: []c04Block{{Ops: []c04Op{
				{Kind: "out", From: 0, To: 1, Route: 6, Amt: "1000000", Lim: "loose"},
				{Kind: "in", From: 0, To: 1, Route: 6, Amt: "1000000", Lim: "loose"},
				{Kind: "bd_out", From: 0, To: 1, Route: 2, Amt: "1000000", Lim: "loose"}}}}},
		{ // a poor sender queues two requests it can pay only one of; opposite directions on one pool; exact limits
			Blocks: []c04Block{{Ops: []c04Op{
				{Kind: "in", From: 4, To: 4, Route: 2, Amt: "pct:60", Lim: "exact"},
				{Kind: "in", From: 4, To: 2, Route: 2, Amt: "pct:60", Lim: "loose"},
				{Kind: "out", From: 1, To: 1, Route: 3, Amt: "500000", Lim: "exact"},
				{Kind: "in", From: 2, To: 2, Route: 3, Amt: "7000000", Lim: "exact"},
				{Kind: "in", From: 3, To: 3, Route: 2, Amt: "1", Lim: "tight"}}},
				{Ops: []c04Op{{Kind: "out", From: 1, To: 1, Route: 7, Amt: "123456", Lim: "exact"},
					{Kind: "price", Price: "6.5"},
					{Kind: "in", From: 2, To: 3, Route: 0, Amt: "999999999", Lim: "exact"},
					{Kind: "in", From: 3, To: -2, Route: 1, Amt: "5000000", Lim: "slack"}}}}},
	}
}

// directed histories appended after the generated ones (so that the generated histories keep their streams)
func c04CorpusLate() []c04Hist {
	return []c04Hist{
		{ // routes that revisit their last pool, recipient <> sender, minimum 1 and exact: there-and-back and A-B-A, exact-in and exact-out
			Blocks: []c04Block{{Ops: []c04Op{
				{Kind: "in", From: 0, To: 1, Route: 16, Amt: "1000000", Lim: "loose"},
				{Kind: "in", From: 1, To: -4, Route: 20, Amt: "2000000", Lim: "loose"},
				{Kind: "out", From: 2, To: 3, Route: 17, Amt: "300000", Lim: "loose"}}},
				{Ops: []c04Op{
					{Kind: "in", From: 0, To: 2, Route: 17, Amt: "700000", Lim: "exact"},
					{Kind: "in", From: 1, To: 1, Route: 21, Amt: "900000", Lim: "exact"},
					{Kind: "out", From: 3, To: 0, Route: 20, Amt: "50000", Lim: "exact"}}},
				{Ops: []c04Op{
					{Kind: "in", From: 2, To: 3, Route: 23, Amt: "4000000", Lim: "slack"},
					{Kind: "in", From: 3, To: -5, Route: 25, Amt: "123456", Lim: "loose"},
					{Kind: "in", From: 0, To: 1, Route: 18, Amt: "5000000", Lim: "tight"},
					{Kind: "out", From: 1, To: 2, Route: 24, Amt: "80000", Lim: "slack"}}}}},
		{ // the oracle pool pushed far off its target weights, then requests in the recovering direction (the ones that earn a
			// weight bonus) whose minimum is one unit more than the pool pays, or exactly what it pays: the bonus is not part of the minimum
			Blocks: []c04Block{{Ops: []c04Op{
				{Kind: "in", From: 0, To: 0, Route: 0, Amt: "1000000000", Lim: "loose"},
				{Kind: "in", From: 1, To: 1, Route: 0, Amt: "10000000000", Lim: "loose"},
				{Kind: "in", From: 2, To: 2, Route: 0, Amt: "100000000000", Lim: "loose"}}},
				{Ops: []c04Op{
					{Kind: "in", From: 0, To: 1, Route: 1, Amt: "1000000", Lim: "tight"},
					{Kind: "in", From: 1, To: 1, Route: 1, Amt: "50000000", Lim: "tight"},
					{Kind: "in", From: 2, To: 3, Route: 1, Amt: "3000000", Lim: "exact"}}},
				{Ops: []c04Op{
					{Kind: "in", From: 0, To: 1, Route: 0, Amt: "1000000", Lim: "tight"},
					{Kind: "in", From: 3, To: 3, Route: 9, Amt: "2000000", Lim: "tight"}}}}},
	}
}

// ---------------------------------------------------------------- run state

type c04Stored struct { // a request as stored in the transient queue
	Idx     int
	IsIn    bool
	Sender  string
	Rcpt    string // recipient of the STORED message (defaulted to the sender)
	MsgRcpt string // recipient the user's message named (defaulted to the sender)
	ByDenom bool
	Pools   []uint64
	Denoms  []string // d0 .. dn in execution order
	Amt     sdkmath.Int
	Lim     sdkmath.Int
	Key     []byte
	RPfx    []byte
	Probe   []c04Hop // hops of the dry run made when the message was delivered (amounts priced at that moment)
}

type c04Hop struct {
	Sender, Rcpt string
	Pool         uint64
	In, Out      sdk.Coin
	Ops          []BankOp
}

type c04Run struct {
	t      *testing.T
	col    *Collector
	h      c04Hist
	w      *World
	m      *Market
	users  []sdk.AccAddress
	fresh  []sdk.AccAddress // recipients that hold nothing and have no account when the history starts (To = -4, -5)
	pools  []uint64         // route pool number -> pool id
	vault  sdk.AccAddress
	addrID map[string]int
	denID  map[string]int
	sys    map[string]bool
	treas  map[string]bool
	step   int
}

func (x *c04Run) fail(sig, detail string) {
	x.col.Violate(Violation{Signature: sig, Detail: detail, History: x.h.ID, Step: x.step, Replay: x.h})
}

func (x *c04Run) aid(a string) int {
	if v, ok := x.addrID[a]; ok {
		return v
	}
	v := 900 + len(x.addrID)
	x.addrID[a] = v
	return v
}

func (x *c04Run) did(d string) int {
	if v, ok := x.denID[d]; ok {
		return v
	}
	v := len(x.denID)
	x.denID[d] = v
	return v
}

func (x *c04Run) poolAddrs(id uint64) (pool, treas, rev string) {
	return ammtypes.NewPoolAddress(id).String(), ammtypes.NewPoolRebalanceTreasury(id).String(), ammtypes.NewPoolRevenueAddress(id).String()
}

var c04Denoms = []string{USDC, ATOM, ELYS}

func (x *c04Run) tracked() []string {
	var l []string
	for _, u := range x.accounts() {
		l = append(l, u.String())
	}
	for _, id := range x.pools[:3] {
		p, tr, rv := x.poolAddrs(id)
		l = append(l, p, tr, rv)
	}
	l = append(l, x.vault.String())
	return l
}

// every account whose balances (all denoms of the fixture, hence every intermediate denom of every route) are
// compared before the block / after commit: the senders and the fresh recipients
func (x *c04Run) accounts() []sdk.AccAddress {
	return append(append([]sdk.AccAddress{}, x.users...), x.fresh...)
}

func (x *c04Run) snapshot() map[string]*big.Int {
	s := map[string]*big.Int{}
	for _, a := range x.tracked() {
		acc := sdk.MustAccAddressFromBech32(a)
		for _, d := range c04Denoms {
			s[a+"|"+d] = x.w.Bal(acc, d).BigInt()
		}
	}
	return s
}

// hops cuts an event list into hops: the bank operations up to each token_swapped event whose sender is
// not a pool revenue address (those are the nested fee conversions and belong to the enclosing hop)
func (x *c04Run) hops(evs []abci.Event) (hops []c04Hop, stray []BankOp) {
	var cur []BankOp
	for _, ev := range evs {
		switch ev.Type {
		case "transfer", "coinbase", "burn":
			cur = append(cur, BankOps([]abci.Event{ev})...)
		case ammtypes.TypeEvtTokenSwapped:
			snd := attr(ev, "sender")
			isRev := false
			for _, id := range x.pools[:3] {
				if _, _, rv := x.poolAddrs(id); rv == snd {
					isRev = true
				}
			}
			if isRev {
				continue
			}
			pid, _ := strconv.ParseUint(attr(ev, ammtypes.AttributeKeyPoolId), 10, 64)
			in, e1 := sdk.ParseCoinNormalized(attr(ev, ammtypes.AttributeKeyTokensIn))
			out, e2 := sdk.ParseCoinNormalized(attr(ev, ammtypes.AttributeKeyTokensOut))
			if e1 != nil || e2 != nil {
				stray = append(stray, cur...)
				cur = nil
				continue
			}
			pa := ammtypes.NewPoolAddress(pid).String()
			start := -1
			for i, o := range cur {
				if o.Kind == "send" && o.From == snd && o.To == pa && o.Denom == in.Denom && o.Amt.Equal(in.Amount) {
					start = i
					break
				}
			}
			if start < 0 {
				stray = append(stray, cur...)
				cur = nil
				continue
			}
			stray = append(stray, cur[:start]...)
			hops = append(hops, c04Hop{Sender: snd, Rcpt: attr(ev, "recipient"), Pool: pid, In: in, Out: out, Ops: cur[start:]})
			cur = nil
		}
	}
	stray = append(stray, cur...)
	return
}

// choice text of one executed request (or dry run) from its hops
func (x *c04Run) choiceOf(isIn bool, hops []c04Hop) (string, bool) {
	var hs []string
	ins := []string{"0"}
	okAll := true
	for i, hp := range hops {
		p, tr, rv := x.poolAddrs(hp.Pool)
		role := func(a string) string {
			switch a {
			case p:
				return "RPool"
			case tr:
				return "RTreas"
			case rv:
				return "RRev"
			}
			return ""
		}
		if len(hp.Ops) < 2 || hp.Ops[1].Kind != "send" || hp.Ops[1].From != p || hp.Ops[1].Denom != hp.Out.Denom || !hp.Ops[1].Amt.Equal(hp.Out.Amount) {
			return "", false
		}
		to := hp.Ops[1].To
		var sys []string
		bonus := "0"
		rest := hp.Ops[2:]
		for k, o := range rest {
			if o.Kind != "send" {
				okAll = false
				continue
			}
			if k == len(rest)-1 && o.From == tr && o.To == to && o.Denom == hp.Out.Denom && role(to) == "" {
				bonus = o.Amt.String()
				continue
			}
			rf, rt := role(o.From), role(o.To)
			if rf == "" || rt == "" {
				okAll = false
				continue
			}
			sys = append(sys, fmt.Sprintf("(%s, %s, %d%%nat, %s)", rf, rt, x.did(o.Denom), o.Amt.String()))
		}
		amt := hp.Out.Amount
		if !isIn {
			amt = hp.In.Amount
			if i < len(hops)-1 {
				ins = append(ins, hp.Out.Amount.String())
			}
		}
		hs = append(hs, fmt.Sprintf("mkHop false %s [%s] %s false", amt.String(), strings.Join(sys, "; "), bonus))
	}
	if isIn {
		ins = nil
	}
	return fmt.Sprintf("(mkCh false [%s] [%s])", strings.Join(ins, "; "), strings.Join(hs, "; ")), okAll
}

const c04FailChoice = "(mkCh true [] [])"

// the smallest amounts the model's decision logic accepts for a request whose real try succeeded but was discarded
func c04MinimalOk(r *c04Stored) string {
	n := len(r.Pools)
	var hs, ins []string
	for i := 0; i < n; i++ {
		amt := "1"
		if r.IsIn && i == n-1 && r.Lim.GT(sdkmath.OneInt()) {
			amt = r.Lim.String()
		}
		hs = append(hs, fmt.Sprintf("mkHop false %s [] 0 false", amt))
		ins = append(ins, "1")
	}
	if r.IsIn {
		ins = nil
	}
	return fmt.Sprintf("(mkCh false [%s] [%s])", strings.Join(ins, "; "), strings.Join(hs, "; "))
}

// the hops c04MinimalOk stands for, as bank operations: every hop but the last pays the sender, the last the stored recipient
func c04MinimalHops(r *c04Stored) []c04Hop {
	n := len(r.Pools)
	var hs []c04Hop
	prev := r.Amt
	for i, p := range r.Pools {
		to := r.Sender
		if i == n-1 {
			to = r.Rcpt
		}
		in, out := sdkmath.OneInt(), sdkmath.OneInt()
		if r.IsIn {
			in = prev
			if i == n-1 && r.Lim.GT(sdkmath.OneInt()) {
				out = r.Lim
			}
			prev = out
		} else if i == n-1 {
			out = r.Amt
		}
		pa := ammtypes.NewPoolAddress(p).String()
		cin, cout := sdk.NewCoin(r.Denoms[i], in), sdk.NewCoin(r.Denoms[i+1], out)
		hs = append(hs, c04Hop{Sender: r.Sender, Rcpt: to, Pool: p, In: cin, Out: cout, Ops: []BankOp{
			{Kind: "send", From: r.Sender, To: pa, Denom: cin.Denom, Amt: in}, {Kind: "send", From: pa, To: to, Denom: cout.Denom, Amt: out}}})
	}
	return hs
}

// c04SimOK: would the model's settlement accept these hops for request r on this bank (balances of the tracked accounts)?
// The request's own limit must hold and no tracked account may be overdrawn by any of the transfers, in their order.
func c04SimOK(bank map[string]*big.Int, r *c04Stored, hops []c04Hop) bool {
	if len(hops) != len(r.Pools) || len(hops) == 0 {
		return false
	}
	if r.IsIn && hops[len(hops)-1].Out.Amount.LT(r.Lim) {
		return false
	}
	if !r.IsIn && hops[0].In.Amount.GT(r.Lim) {
		return false
	}
	b := map[string]*big.Int{}
	get := func(k string) *big.Int {
		if v, ok := b[k]; ok {
			return v
		}
		if v, ok := bank[k]; ok {
			b[k] = new(big.Int).Set(v)
			return b[k]
		}
		return nil
	}
	for _, hp := range hops {
		for _, o := range hp.Ops {
			if o.Kind != "send" || !o.Amt.IsPositive() {
				return false
			}
			if v := get(o.From + "|" + o.Denom); v != nil {
				if v.Cmp(o.Amt.BigInt()) < 0 {
					return false
				}
				v.Sub(v, o.Amt.BigInt())
			}
			if v := get(o.To + "|" + o.Denom); v != nil {
				v.Add(v, o.Amt.BigInt())
			}
		}
	}
	return true
}

func c04Bytes(b []byte) string {
	s := make([]string, len(b))
	for i, v := range b {
		s[i] = strconv.Itoa(int(v))
	}
	return "[" + strings.Join(s, ";") + "]%nat"
}

func (x *c04Run) reqText(r *c04Stored, rcpt string) string {
	k := "KIn"
	var hops []string
	var d int
	if r.IsIn {
		for i, p := range r.Pools {
			hops = append(hops, fmt.Sprintf("(%d, %d)", p, x.did(r.Denoms[i+1])))
		}
		d = x.did(r.Denoms[0])
	} else {
		k = "KOut"
		for i, p := range r.Pools {
			hops = append(hops, fmt.Sprintf("(%d, %d)", p, x.did(r.Denoms[i])))
		}
		d = x.did(r.Denoms[len(r.Denoms)-1])
	}
	return fmt.Sprintf("(mkReq %d %s %d %d [%s]%%nat %d %s %s %s %s)", r.Idx, k, x.aid(r.Sender), x.aid(rcpt), strings.Join(hops, "; "),
		d, zstr(r.Amt.BigInt()), zstr(r.Lim.BigInt()), c04Bytes(r.Key), c04Bytes(r.RPfx))
}

// the reversed prefix SelectReverseSwapRequest searches for
func c04RPfx(prefix []byte) []byte {
	sp := strings.Split(string(prefix), "/")
	for i, j := 0, len(sp)-1; i < j; i, j = i+1, j-1 {
		sp[i], sp[j] = sp[j], sp[i]
	}
	return []byte(strings.Join(sp, "/"))
}

func c04SelFirst(q []*c04Stored, pfx []byte) *c04Stored {
	var best *c04Stored
	for _, in := range []bool{true, false} {
		for _, r := range q {
			if r.IsIn == in && bytes.HasPrefix(r.Key, pfx) && (best == nil || bytes.Compare(r.Key, best.Key) < 0) {
				best = r
			}
		}
		if best != nil {
			return best
		}
	}
	return nil
}

func c04Del(q []*c04Stored, m *c04Stored) []*c04Stored {
	var o []*c04Stored
	for _, r := range q {
		if r.Idx != m.Idx {
			o = append(o, r)
		}
	}
	return o
}

// ---------------------------------------------------------------- execution of one history

func c04Exec(t *testing.T, col *Collector, h c04Hist) []string {
	w := NewWorld(t)
	o := DefaultMarketOpts()
	o.NoLeverage = true
	m := NewMarket(w, o)
	x := &c04Run{t: t, col: col, h: h, w: w, m: m, addrID: map[string]int{}, denID: map[string]int{}, sys: map[string]bool{}, treas: map[string]bool{}}
	// a second constant-product pool sharing uusdc (uusdc/uatom), created like the fixture creates its pools
	assets := []ammtypes.PoolAsset{
		{Token: sdk.NewCoin(ATOM, I(4_000_000_000)), Weight: I(1), ExternalLiquidityRatio: dec("1")},
		{Token: sdk.NewCoin(USDC, I(20_000_000_000)), Weight: I(1), ExternalLiquidityRatio: dec("1")},
	}
	m.must("create pool 3", w.Deliver(&ammtypes.MsgCreatePool{Sender: m.Users[0].String(),
		PoolParams: ammtypes.PoolParams{SwapFee: dec("0.002"), UseOracle: false, FeeDenom: USDC}, PoolAssets: assets}))
	all := w.App.AmmKeeper.GetAllPool(w.QCtx())
	x.pools = []uint64{m.OraclePool, m.CPPool, all[len(all)-1].PoolId, 0, 0, 0, 0, 0, 0, 99}
	x.users = []sdk.AccAddress{m.Users[1], m.Users[2], m.Users[3], m.Users[4], Addr(10), Addr(11)}
	w.Mint(Addr(10), sdk.NewCoins(sdk.NewCoin(USDC, I(5_000_000)), sdk.NewCoin(ATOM, I(300)), sdk.NewCoin(ELYS, I(2_000_000))))
	w.Mint(Addr(11), sdk.NewCoins(sdk.NewCoin(ATOM, I(40_000_000))))
	x.vault = authtypes.NewModuleAddress("stablestake")
	x.fresh = []sdk.AccAddress{Addr(20), Addr(21)}
	for i, u := range x.accounts() {
		x.addrID[u.String()] = i + 1
	}
	for _, id := range x.pools[:3] {
		p, tr, rv := x.poolAddrs(id)
		x.addrID[p], x.addrID[tr], x.addrID[rv] = 100+int(id), 200+int(id), 300+int(id)
		x.sys[p], x.sys[tr], x.sys[rv] = true, true, true
		x.treas[tr] = true
	}
	x.addrID[x.vault.String()] = 50
	for i, d := range c04Denoms {
		x.denID[d] = i
	}
	m.RefreshPrices()
	if err := w.EndBlock(5); err != nil {
		t.Fatalf("first block: %v", err)
	}
	var cases []string
	var fp strings.Builder
	nontrivial := false
	for bi, blk := range h.Blocks {
		x.step = bi
		txt, fpb, nt := x.block(bi, blk)
		if txt != "" {
			cases = append(cases, txt)
		}
		fp.WriteString(fpb)
		nontrivial = nontrivial || nt
	}
	col.Distinct(fp.String(), nontrivial)
	col.Sample(h)
	return cases
}

func (x *c04Run) queue() (ins []ammtypes.MsgSwapExactAmountIn, outs []ammtypes.MsgSwapExactAmountOut) {
	ctx := x.w.QCtx()
	return x.w.App.AmmKeeper.GetAllSwapExactAmountInRequests(ctx), x.w.App.AmmKeeper.GetAllSwapExactAmountOutRequests(ctx)
}

func (x *c04Run) recipient(op c04Op) string {
	switch {
	case op.To >= 0:
		return x.users[op.To%len(x.users)].String()
	case op.To == -2:
		return ammtypes.NewPoolAddress(x.pools[1]).String()
	case op.To == -3:
		return x.vault.String()
	case op.To == -4 || op.To == -5:
		return x.fresh[-4-op.To].String()
	}
	return ""
}

func (x *c04Run) block(bi int, blk c04Block) (caseText, fp string, nontrivial bool) {
	w, m := x.w, x.m
	k := w.App.AmmKeeper
	if ins, outs := x.queue(); len(ins)+len(outs) != 0 {
		x.fail("C04:request-lingers", fmt.Sprintf("block %d starts with %d stored swap requests", bi, len(ins)+len(outs)))
	}
	before := x.snapshot()
	var stored []*c04Stored
	var txs []string
	var fpb strings.Builder
	for oi, op := range blk.Ops {
		if op.Kind == "price" {
			m.SetPrice(ATOM, dec(op.Price))
			x.col.Op("price", "ok", nil)
			continue
		}
		rt := c04Routes[op.Route%len(c04Routes)]
		sender := x.users[op.From%len(x.users)]
		msgRcpt := x.recipient(op)
		rcptOrSender := msgRcpt
		if rcptOrSender == "" {
			rcptOrSender = sender.String()
		}
		isIn := op.Kind == "in" || op.Kind == "bd_in"
		byDenom := op.Kind == "bd_in" || op.Kind == "bd_out"
		dIn, dOut := rt.Denoms[0], rt.Denoms[len(rt.Denoms)-1]
		// amount
		var amt sdkmath.Int
		if strings.HasPrefix(op.Amt, "pct:") {
			pct, _ := strconv.Atoi(op.Amt[4:])
			basis := sdkmath.NewInt(1_000_000)
			if isIn {
				basis = w.Bal(sender, dIn)
			}
			amt = basis.MulRaw(int64(pct)).QuoRaw(100)
			if !amt.IsPositive() {
				amt = sdkmath.OneInt()
			}
		} else {
			b, _ := new(big.Int).SetString(op.Amt, 10)
			amt = sdkmath.NewIntFromBigInt(b)
		}
		// the route in the message's own terms
		pools := make([]uint64, len(rt.Pools))
		for i, p := range rt.Pools {
			pools[i] = x.pools[p]
		}
		denoms := rt.Denoms
		routeOK := true
		if byDenom { // the handler resolves the route itself
			base, _ := w.App.AssetprofileKeeper.GetUsdcDenom(w.QCtx())
			pools, denoms = nil, nil
			if isIn {
				r, err := k.CalcInRouteByDenom(w.QCtx(), dIn, dOut, base)
				routeOK = err == nil
				denoms = []string{dIn}
				for _, h := range r {
					pools = append(pools, h.PoolId)
					denoms = append(denoms, h.TokenOutDenom)
				}
			} else {
				r, err := k.CalcOutRouteByDenom(w.QCtx(), dOut, dIn, base)
				routeOK = err == nil
				for _, h := range r {
					pools = append(pools, h.PoolId)
					denoms = append(denoms, h.TokenInDenom)
				}
				denoms = append(denoms, dOut)
			}
		}
		inRoutes := func() []ammtypes.SwapAmountInRoute {
			var r []ammtypes.SwapAmountInRoute
			for i, p := range pools {
				r = append(r, ammtypes.SwapAmountInRoute{PoolId: p, TokenOutDenom: denoms[i+1]})
			}
			return r
		}
		outRoutes := func() []ammtypes.SwapAmountOutRoute {
			var r []ammtypes.SwapAmountOutRoute
			for i, p := range pools {
				r = append(r, ammtypes.SwapAmountOutRoute{PoolId: p, TokenInDenom: denoms[i]})
			}
			return r
		}
		if byDenom && routeOK { // the handler first estimates the swap; a failing estimation refuses the message
			base, _ := w.App.AssetprofileKeeper.GetUsdcDenom(w.QCtx())
			ac := sdk.NewCoin(dIn, amt)
			if !isIn {
				ac = sdk.NewCoin(dOut, amt)
			}
			func() {
				defer func() {
					if r := recover(); r != nil {
						routeOK = false
					}
				}()
				if _, _, _, _, _, _, _, _, _, _, err := k.CalcSwapEstimationByDenom(w.QCtx(), ac, dIn, dOut, base, sender.String(), sdkmath.LegacyZeroDec(), 0); err != nil {
					routeOK = false
				}
			}()
		}
		// dry run with a loose limit on a throw-away branch: the achievable amount and the per-hop amounts
		probeRcpt := sdk.MustAccAddressFromBech32(rcptOrSender)
		if op.Kind == "bd_out" {
			probeRcpt = sender
		}
		choice := c04FailChoice
		var achievable sdkmath.Int
		var probeHops []c04Hop
		probeOK := false
		if routeOK && len(pools) > 0 {
			cctx, _ := w.Ctx().CacheContext()
			cctx = cctx.WithEventManager(sdk.NewEventManager())
			var err error
			func() {
				defer func() {
					if r := recover(); r != nil {
						err = fmt.Errorf("panic: %v", r)
					}
				}()
				if isIn {
					achievable, _, _, err = k.RouteExactAmountIn(cctx, sender, probeRcpt, inRoutes(), sdk.NewCoin(dIn, amt), sdkmath.OneInt())
				} else {
					achievable, _, _, err = k.RouteExactAmountOut(cctx, sender, probeRcpt, outRoutes(), sdkmath.NewIntFromBigInt(new(big.Int).Exp(big.NewInt(10), big.NewInt(40), nil)), sdk.NewCoin(dOut, amt))
				}
			}()
			if err == nil && !achievable.IsNil() {
				hp, _ := x.hops(cctx.EventManager().ABCIEvents())
				if len(hp) == len(pools) {
					if c, ok := x.choiceOf(isIn, hp); ok {
						choice, probeOK, probeHops = c, true, hp
					}
				}
			}
		}
		// limit
		var lim sdkmath.Int
		switch {
		case !probeOK || op.Lim == "loose":
			lim = sdkmath.OneInt()
			if !isIn {
				lim = w.Bal(sender, dIn)
				if !lim.IsPositive() {
					lim = sdkmath.OneInt()
				}
			}
		case op.Lim == "zero":
			lim = sdkmath.ZeroInt()
			if !isIn {
				lim = achievable.MulRaw(3)
			}
		case op.Lim == "exact":
			lim = achievable
		case op.Lim == "slack":
			lim = achievable.SubRaw(1)
			if !isIn {
				lim = achievable.AddRaw(1)
			}
		default: // tight: one unit beyond what can be had
			lim = achievable.AddRaw(1)
			if !isIn {
				lim = achievable.SubRaw(1)
			}
		}
		// the message
		var msg sdk.Msg
		switch op.Kind {
		case "in":
			msg = &ammtypes.MsgSwapExactAmountIn{Sender: sender.String(), Recipient: msgRcpt, Routes: inRoutes(), TokenIn: sdk.NewCoin(dIn, amt), TokenOutMinAmount: lim}
		case "out":
			msg = &ammtypes.MsgSwapExactAmountOut{Sender: sender.String(), Recipient: msgRcpt, Routes: outRoutes(), TokenOut: sdk.NewCoin(dOut, amt), TokenInMaxAmount: lim}
		case "bd_in":
			msg = &ammtypes.MsgSwapByDenom{Sender: sender.String(), Recipient: msgRcpt, Amount: sdk.NewCoin(dIn, amt), DenomIn: dIn, DenomOut: dOut,
				MinAmount: sdk.NewCoin(dOut, lim), MaxAmount: sdk.NewCoin(dOut, sdkmath.ZeroInt())}
		case "bd_out":
			msg = &ammtypes.MsgSwapByDenom{Sender: sender.String(), Recipient: msgRcpt, Amount: sdk.NewCoin(dOut, amt), DenomIn: dIn, DenomOut: dOut,
				MinAmount: sdk.NewCoin(dOut, sdkmath.ZeroInt()), MaxAmount: sdk.NewCoin(dOut, lim)}
		}
		balBefore := x.snapshot()
		qi0, qo0 := x.queue()
		res := w.Deliver(msg)
		qi1, qo1 := x.queue()
		x.col.Op(op.Kind, res.Kind(), amt.BigInt())
		if c04Revisits(pools) {
			x.col.Op("revisit_"+op.Kind, res.Kind(), nil)
		}
		if res.Panic != nil {
			x.fail("C04:handler-panic", fmt.Sprintf("block %d op %d: %v", bi, oi, res.Panic))
		}
		for key, v := range x.snapshot() {
			if v.Cmp(balBefore[key]) != 0 {
				x.fail("C04:handler-moved-funds", fmt.Sprintf("block %d op %d (%s): %s changed from %s to %s when the message was only accepted", bi, oi, op.Kind, key, balBefore[key], v))
				break
			}
		}
		x.col.ImplCheck(1)
		added := len(qi1) + len(qo1) - len(qi0) - len(qo0)
		if (res.OK() && added != 1) || (!res.OK() && added != 0) {
			x.fail("C04:enqueue-count", fmt.Sprintf("block %d op %d: result %s but the queue grew by %d", bi, oi, res.Kind(), added))
		}
		// the request as the user's message states it
		st := &c04Stored{Idx: len(stored) + 1, IsIn: isIn, Sender: sender.String(), Rcpt: rcptOrSender, MsgRcpt: rcptOrSender, ByDenom: byDenom,
			Pools: pools, Denoms: denoms, Amt: amt, Lim: lim}
		st.Probe = probeHops
		if len(pools) == 0 || len(denoms) != len(pools)+1 { // nothing the model can store: only the refusal is compared
			if res.OK() {
				x.fail("C04:accepted-without-route", fmt.Sprintf("block %d op %d accepted although no route exists", bi, oi))
			}
			continue
		}
		kind := 1
		if res.OK() {
			kind = 0
			nontrivial = true
			// key and stored recipient of the real stored message
			if isIn {
				cnt := map[string]int{}
				for i := range qi0 {
					cnt[qi0[i].String()]--
				}
				for i := range qi1 {
					if cnt[qi1[i].String()]++; cnt[qi1[i].String()] > 0 {
						sm := &qi1[i]
						st.Key = ammtypes.TKeyPrefixSwapExactAmountIn(sm, uint64(st.Idx))
						st.RPfx = c04RPfx(ammtypes.TKeyPrefixSwapExactAmountInPrefix(sm))
						st.Rcpt = sm.Recipient
						break
					}
				}
			} else {
				cnt := map[string]int{}
				for i := range qo0 {
					cnt[qo0[i].String()]--
				}
				for i := range qo1 {
					if cnt[qo1[i].String()]++; cnt[qo1[i].String()] > 0 {
						sm := &qo1[i]
						st.Key = ammtypes.TKeyPrefixSwapExactAmountOut(sm, uint64(st.Idx))
						st.RPfx = c04RPfx(ammtypes.TKeyPrefixSwapExactAmountOutPrefix(sm))
						st.Rcpt = sm.Recipient
						break
					}
				}
			}
			if st.Rcpt == "" {
				st.Rcpt = st.Sender
			}
			stored = append(stored, st)
		} else {
			// a refused message: the key fields are irrelevant, the index is the one it would have got
			st.Key, st.RPfx = []byte{0}, []byte{0}
		}
		ctor := "MIn"
		if byDenom {
			ctor = "MByDenom"
		} else if !isIn {
			ctor = "MOut"
		}
		txs = append(txs, fmt.Sprintf("(%s %s, %s, %d)", ctor, x.reqText(st, st.MsgRcpt), choice, kind))
		fmt.Fprintf(&fpb, "%s%d%s%d;", op.Kind, op.Route, op.Lim, kind)
	}
	// close the block
	m.RefreshPrices()
	if err := w.EndBlock(5); err != nil {
		x.fail("C04:block-failed", err.Error())
		return "", fpb.String(), nontrivial
	}
	after := x.snapshot()
	if ins, outs := x.queue(); len(ins)+len(outs) != 0 {
		x.fail("C04:request-lingers", fmt.Sprintf("%d swap requests are still stored after block %d was committed", len(ins)+len(outs), bi))
	}
	x.col.ImplCheck(1)
	var endEvs []abci.Event
	for _, ev := range w.LastBlockEvents {
		if attr(ev, "mode") == "EndBlock" {
			endEvs = append(endEvs, ev)
		}
	}
	hops, _ := x.hops(endEvs)
	// match hops to stored requests
	type exec struct {
		r    *c04Stored
		hops []c04Hop
	}
	var execs []exec
	used := map[int]bool{}
	isUser := map[string]bool{}
	for _, u := range x.accounts() {
		isUser[u.String()] = true
	}
	matches := func(r *c04Stored, hs []c04Hop) bool {
		if len(hs) < len(r.Pools) {
			return false
		}
		for i, p := range r.Pools {
			hp := hs[i]
			if hp.Sender != r.Sender || hp.Pool != p || hp.In.Denom != r.Denoms[i] || hp.Out.Denom != r.Denoms[i+1] {
				return false
			}
		}
		if r.IsIn {
			return hs[0].In.Amount.Equal(r.Amt)
		}
		return hs[len(r.Pools)-1].Out.Amount.Equal(r.Amt)
	}
	for g := 0; g < len(hops); {
		var hit *c04Stored
		again := false
		for _, r := range stored {
			if matches(r, hops[g:]) {
				if used[r.Idx] {
					again = true
					continue
				}
				hit = r
				break
			}
		}
		if hit == nil {
			if again {
				x.fail("C04:executed-more-than-once", fmt.Sprintf("block %d: a stored request of %s was executed again (hop %d of the end blocker)", bi, hops[g].Sender, g))
			} else if isUser[hops[g].Sender] {
				x.fail("C04:unrequested-swap", fmt.Sprintf("block %d: the end blocker swapped %s of %s on pool %d without a matching stored request", bi, hops[g].In, hops[g].Sender, hops[g].Pool))
			}
			g++
			continue
		}
		used[hit.Idx] = true
		execs = append(execs, exec{hit, hops[g : g+len(hit.Pools)]})
		g += len(hit.Pools)
	}
	// the property's own predicate, per executed request
	explained := map[string]*big.Int{}
	for _, ex := range execs {
		r := ex.r
		net := map[string]*big.Int{}
		bonus := map[string]*big.Int{}
		add := func(mp map[string]*big.Int, key string, v *big.Int) {
			if mp[key] == nil {
				mp[key] = new(big.Int)
			}
			mp[key].Add(mp[key], v)
		}
		for _, hp := range ex.hops {
			for _, o := range hp.Ops {
				if o.Kind != "send" {
					x.fail("C04:unexpected-transfer", fmt.Sprintf("block %d request %d: %s of %s%s", bi, r.Idx, o.Kind, o.Amt, o.Denom))
					continue
				}
				add(net, o.From+"|"+o.Denom, new(big.Int).Neg(o.Amt.BigInt()))
				add(net, o.To+"|"+o.Denom, o.Amt.BigInt())
				if x.treas[o.From] {
					add(bonus, o.To+"|"+o.Denom, o.Amt.BigInt())
				}
			}
		}
		for key, v := range net {
			add(explained, key, v)
		}
		get := func(mp map[string]*big.Int, a, d string) *big.Int {
			if v := mp[a+"|"+d]; v != nil {
				return v
			}
			return new(big.Int)
		}
		S, R := r.Sender, r.MsgRcpt
		dIn, dOut := r.Denoms[0], r.Denoms[len(r.Denoms)-1]
		if c04Revisits(r.Pools) {
			x.col.Op("revisit_executed", fmt.Sprintf("%s hops=%d rcpt_is_sender=%v", map[bool]string{true: "in", false: "out"}[r.IsIn], len(r.Pools), S == R), nil)
		}
		desc := fmt.Sprintf("block %d request %d (%s, %d hops, sender %d, stated recipient %d, stored recipient %d, amount %s, limit %s)", bi, r.Idx,
			map[bool]string{true: "exact-in", false: "exact-out"}[r.IsIn], len(r.Pools), x.aid(S), x.aid(R), x.aid(r.Rcpt), r.Amt, r.Lim)
		denset := map[string]bool{}
		for key := range net {
			denset[key[strings.Index(key, "|")+1:]] = true
		}
		denset[dIn], denset[dOut] = true, true
		// every denom the route passes through is judged, moved or not; inter = passed through but neither paid nor received
		inter := map[string]bool{}
		for _, d := range r.Denoms {
			denset[d] = true
			if d != dIn && d != dOut {
				inter[d] = true
			}
		}
		for _, d := range c04Denoms {
			denset[d] = true
		}
		var dens []string
		for d := range denset {
			dens = append(dens, d)
		}
		sort.Strings(dens)
		x.col.ImplCheck(1)
		if r.IsIn {
			// sender: exactly the stated input leaves, nothing else; recipient: at least the minimum of the output denom, nothing else
			for _, d := range dens {
				if !x.sys[S] {
					v := new(big.Int).Sub(get(net, S, d), get(bonus, S, d)) // without treasury bonuses
					if d == dIn {
						v.Add(v, r.Amt.BigInt())
					}
					if S == R && d == dOut {
						if v.Cmp(r.Lim.BigInt()) < 0 {
							x.fail("C04:exact-in-credit", desc+fmt.Sprintf(": received %s %s < minimum", v, d))
						}
					} else if v.Sign() != 0 && inter[d] {
						x.fail("C04:exact-in-intermediate-denom-moved", desc+fmt.Sprintf(": sender's %s, a denom the route only passes through, moved by %s", d, v))
					} else if v.Sign() != 0 {
						x.fail("C04:exact-in-debit", desc+fmt.Sprintf(": sender's %s moved by %s beyond the stated input", d, v))
					}
				}
				if S != R && !x.sys[R] {
					v := new(big.Int).Sub(get(net, R, d), get(bonus, R, d))
					if d == dOut {
						if v.Cmp(r.Lim.BigInt()) < 0 || v.Sign() <= 0 {
							x.fail("C04:exact-in-credit", desc+fmt.Sprintf(": recipient received %s %s < minimum", v, d))
						}
					} else if v.Sign() != 0 && inter[d] {
						x.fail("C04:exact-in-intermediate-denom-moved", desc+fmt.Sprintf(": recipient's %s, a denom the route only passes through, moved by %s", d, v))
					} else if v.Sign() != 0 {
						x.fail("C04:exact-in-credit", desc+fmt.Sprintf(": recipient's %s moved by %s", d, v))
					}
				}
			}
		} else {
			for _, d := range dens {
				if !x.sys[S] {
					lo := new(big.Int)
					if d == dIn {
						lo.Sub(lo, r.Lim.BigInt())
					}
					if S == R && d == dOut {
						lo.Add(lo, r.Amt.BigInt())
					}
					if v := get(net, S, d); v.Cmp(lo) < 0 {
						if len(r.Pools) > 1 && S != r.Rcpt && d != dIn {
							x.fail("C04:exact-out-multihop-sender-pays-intermediate", desc+fmt.Sprintf(": the sender also paid %s %s, a denom that is not the stated input (%s)", new(big.Int).Neg(v), d, dIn))
						} else {
							x.fail("C04:exact-out-debit", desc+fmt.Sprintf(": sender's %s moved by %s, allowed at least %s", d, v, lo))
						}
					}
				}
				if S != R && !x.sys[R] {
					lo := new(big.Int)
					if d == dOut {
						lo.Set(r.Amt.BigInt())
					}
					if v := get(net, R, d); v.Cmp(lo) < 0 {
						if r.ByDenom && r.Rcpt != R {
							x.fail("C04:swap-by-denom-exact-out-recipient-ignored", desc+fmt.Sprintf(": the recipient named in MsgSwapByDenom received %s %s, the output went to the sender", v, d))
						} else {
							x.fail("C04:exact-out-credit", desc+fmt.Sprintf(": recipient's %s moved by %s, expected at least %s", d, v, lo))
						}
					}
				}
			}
		}
		for a := range isUser {
			if a == S || a == R {
				continue
			}
			for _, d := range dens {
				if get(net, a, d).Sign() != 0 {
					x.fail("C04:third-party-moved", desc+fmt.Sprintf(": account %d's %s moved by %s", x.aid(a), d, get(net, a, d)))
				}
			}
		}
	}
	// per block: every user's balance change is the sum of the executed requests' effects (a dropped request moved nothing)
	for _, u := range x.accounts() {
		for _, d := range c04Denoms {
			key := u.String() + "|" + d
			diff := new(big.Int).Sub(after[key], before[key])
			exp := explained[key]
			if exp == nil {
				exp = new(big.Int)
			}
			x.col.ImplCheck(1)
			if diff.Cmp(exp) != 0 {
				x.fail("C04:unexplained-balance-change", fmt.Sprintf("block %d: account %d's %s changed by %s, the executed requests explain %s", bi, x.aid(u.String()), d, diff, exp))
			}
		}
	}
	// ---- Coq case: script for the batch loop from the observed executions
	applied := map[int]int{} // idx -> position in execs
	var appliedIdx, droppedIdx []string
	for i, ex := range execs {
		applied[ex.r.Idx] = i
		appliedIdx = append(appliedIdx, strconv.Itoa(ex.r.Idx))
	}
	for _, r := range stored {
		if _, ok := applied[r.Idx]; !ok {
			droppedIdx = append(droppedIdx, strconv.Itoa(r.Idx))
		}
	}
	realChoice := func(r *c04Stored) string {
		c, ok := x.choiceOf(r.IsIn, execs[applied[r.Idx]].hops)
		if !ok {
			x.fail("C04:unexpected-transfer", fmt.Sprintf("block %d request %d: the bank operations of the executed request are not those of a swap", bi, r.Idx))
			return c04FailChoice
		}
		return c
	}
	// The tries whose cache context was discarded leave no events, so the outcome of an iteration with a
	// reverse request is not observable directly (e.g. "m2 executed, m1 dropped" is reached either by
	// (try1 fails, try2 ok: m1 deleted now, m2 executed later) or by (both ok, m2 preferred: m2 executed now,
	// m1 deleted when its next try fails)); the two differ in the ORDER of the executions when other requests
	// are executed in between. The script is therefore searched: outcomes of the coded loop, in a fixed
	// preference order, with backtracking on the observed execution order; Coq then validates the script.
	// The amounts of a try that succeeded but was discarded are not observable either; the model only needs SOME amounts
	// its settlement accepts on the bank of that moment (the result is dropped). The smallest amounts (1 per hop, the
	// limit on the last) are not always payable: on a route that comes back to a pool the last hop is paid out of what
	// an earlier hop of the same request put into that pool. So the candidates are tried on the bank of the moment
	// (balances before the block + the operations of the requests executed so far): the smallest amounts, the amounts
	// of the dry run made when the message was delivered, the amounts of the request's own later execution.
	bankMemo := map[int]map[string]*big.Int{}
	bankAt := func(ai int) map[string]*big.Int {
		if b, ok := bankMemo[ai]; ok {
			return b
		}
		b := map[string]*big.Int{}
		for key, v := range before {
			b[key] = new(big.Int).Set(v)
		}
		for _, ex := range execs[:ai] {
			for _, hp := range ex.hops {
				for _, o := range hp.Ops {
					if o.Kind != "send" {
						continue
					}
					if v, ok := b[o.From+"|"+o.Denom]; ok {
						v.Sub(v, o.Amt.BigInt())
					}
					if v, ok := b[o.To+"|"+o.Denom]; ok {
						v.Add(v, o.Amt.BigInt())
					}
				}
			}
		}
		bankMemo[ai] = b
		return b
	}
	discardedOk := func(r *c04Stored, ai int) string {
		b := bankAt(ai)
		if c04SimOK(b, r, c04MinimalHops(r)) {
			return c04MinimalOk(r)
		}
		if c04SimOK(b, r, r.Probe) {
			if c, ok := x.choiceOf(r.IsIn, r.Probe); ok {
				x.col.Op("discarded_try", "dry-run amounts", nil)
				return c
			}
		}
		if i, ok := applied[r.Idx]; ok && c04SimOK(b, r, execs[i].hops) {
			x.col.Op("discarded_try", "amounts of the later execution", nil)
			return realChoice(r)
		}
		x.col.Op("discarded_try", "no payable amounts found", nil)
		return c04MinimalOk(r)
	}
	var search func(q []*c04Stored, ai int) ([]string, bool)
	search = func(q []*c04Stored, ai int) ([]string, bool) {
		if len(q) == 0 {
			return nil, ai == len(execs)
		}
		m1 := c04SelFirst(q, nil)
		m2 := c04SelFirst(q, m1.RPfx)
		_, a1 := applied[m1.Idx]
		next := -1
		if ai < len(execs) {
			next = execs[ai].r.Idx
		}
		try := func(rec string, q2 []*c04Stored, ai2 int) ([]string, bool) {
			if rest, ok := search(q2, ai2); ok {
				return append([]string{rec}, rest...), true
			}
			return nil, false
		}
		if m2 == nil {
			if a1 {
				if next != m1.Idx {
					return nil, false
				}
				return try(fmt.Sprintf("(%s, %s, false)", realChoice(m1), c04FailChoice), c04Del(q, m1), ai+1)
			}
			return try(fmt.Sprintf("(%s, %s, false)", c04FailChoice, c04FailChoice), c04Del(q, m1), ai)
		}
		_, a2 := applied[m2.Idx]
		same := m2.Idx == m1.Idx
		if !a1 && !a2 { // both tries fail
			if r, ok := try(fmt.Sprintf("(%s, %s, false)", c04FailChoice, c04FailChoice), c04Del(c04Del(q, m1), m2), ai); ok {
				return r, true
			}
		}
		if !a1 && !same { // try1 fails, try2 succeeds (discarded): m1 deleted, m2 stays
			if r, ok := try(fmt.Sprintf("(%s, %s, false)", c04FailChoice, discardedOk(m2, ai)), c04Del(q, m1), ai); ok {
				return r, true
			}
		}
		if !a2 && !same { // try1 succeeds (discarded), try2 fails: m2 deleted, m1 stays and is selected again
			if r, ok := try(fmt.Sprintf("(%s, %s, false)", discardedOk(m1, ai), c04FailChoice), c04Del(q, m2), ai); ok {
				return r, true
			}
		}
		if a1 && next == m1.Idx { // both succeed, m1 has the lower stacked slippage: m1 executed, m2 stays
			c2 := discardedOk(m2, ai)
			if same {
				c2 = realChoice(m1)
			}
			if r, ok := try(fmt.Sprintf("(%s, %s, true)", realChoice(m1), c2), c04Del(q, m1), ai+1); ok {
				return r, true
			}
		}
		if a2 && next == m2.Idx && !same { // both succeed, m2 preferred: m2 executed, m1 stays
			if r, ok := try(fmt.Sprintf("(%s, %s, false)", discardedOk(m1, ai), realChoice(m2)), c04Del(q, m2), ai+1); ok {
				return r, true
			}
		}
		return nil, false
	}
	script, explained2 := search(append([]*c04Stored{}, stored...), 0)
	if !explained2 {
		x.fail("C04:batch-outcome-not-explainable", fmt.Sprintf("block %d: no run of the batch loop over the stored requests executes %v (in this order) and drops %v", bi, appliedIdx, droppedIdx))
	}
	var pools, init, obs []string
	for _, id := range x.pools[:3] {
		pools = append(pools, fmt.Sprintf("(%d%%nat, (%d%%nat, %d%%nat, %d%%nat))", id, 100+id, 200+id, 300+id))
	}
	keys := make([]string, 0, len(before))
	for key := range before {
		keys = append(keys, key)
	}
	sort.Strings(keys)
	for _, key := range keys {
		i := strings.Index(key, "|")
		a, d := key[:i], key[i+1:]
		init = append(init, fmt.Sprintf("(%d%%nat, %d%%nat, %s)", x.aid(a), x.did(d), zstr(before[key])))
		if isUser[a] || (x.sys[a] && !x.treas[a] && x.aid(a) < 200) {
			obs = append(obs, fmt.Sprintf("(%d%%nat, %d%%nat, %s)", x.aid(a), x.did(d), zstr(after[key])))
		}
	}
	var blocked []string
	for a, id := range x.addrID {
		if ad, err := sdk.AccAddressFromBech32(a); err == nil && x.w.App.BankKeeper.BlockedAddr(ad) {
			blocked = append(blocked, fmt.Sprintf("%d", id))
		}
	}
	sort.Strings(blocked)
	caseText = fmt.Sprintf("mkQ %d\n [%s]\n [%s]%%nat\n [%s]\n [%s]\n [%s]\n [%s]%%nat [%s]%%nat\n [%s]", x.h.ID*100+bi, strings.Join(pools, "; "), strings.Join(blocked, "; "), strings.Join(init, "; "),
		strings.Join(txs, ";\n  "), strings.Join(script, ";\n  "), strings.Join(appliedIdx, "; "), strings.Join(droppedIdx, "; "), strings.Join(obs, "; "))
	fmt.Fprintf(&fpb, "|%s|%s#", strings.Join(appliedIdx, ","), strings.Join(droppedIdx, ","))
	x.col.Op("end_block", fmt.Sprintf("executed=%d dropped=%d", len(execs), len(droppedIdx)), nil)
	return caseText, fpb.String(), nontrivial || len(execs) > 0
}

func TestC04(t *testing.T) {
	seed := envInt("VERIF_SEED", 1)
	col := NewCollector("C04", seed)
	n := 140
	if tier() == "thorough" {
		n = 1200
	}
	n = int(envInt("VERIF_N", int64(n)))
	var hists []c04Hist
	var one c04Hist
	if loadReplay(&one) {
		hists = []c04Hist{one}
	} else {
		hists = append(hists, c04Corpus()...)
		for i := len(hists); i < n; i++ {
			hists = append(hists, c04Gen(NewRng(uint64(seed), uint64(i)), i, false))
		}
		for i := n; i < n+n/3; i++ { // on top: histories whose routes come back to pools they already used
			hists = append(hists, c04Gen(NewRng(uint64(seed), uint64(i)), i, true))
		}
		hists = append(hists, c04CorpusLate()...)
	}
	RunParallel(len(hists), func(i int) {
		h := hists[i]
		h.ID = i
		for j, c := range c04Exec(t, col, h) {
			col.Case(i*10+j, c)
		}
	})
	header := "From Coq Require Import ZArith List Bool.\nFrom Elys Require Import Base.Res Models.SwapQueue Run.SwapQueueRun.\nImport ListNotations.\nOpen Scope Z_scope.\n"
	footer := "Definition M := Eval vm_compute in mismatches cases.\nPrint M.\n"
	col.Finish(t, len(hists), header, footer, 150)
}
