package harness

// Shared plumbing of all property drivers: one PRNG state per history (derived from VERIF_SEED
// and the history index), parallel execution, collection of Coq case text, violations, histograms
// and samples, and the report that ./check turns into evidence.

import (
	"encoding/json"
	"fmt"
	"math/big"
	"os"
	"path/filepath"
	"sort"
	"strings"
	"sync"
	"testing"
	"time"
)

// ---------- splitmix64 ----------

type Rng struct{ s uint64 }

func NewRng(seed, stream uint64) *Rng {
	r := &Rng{s: seed*0x9E3779B97F4A7C15 + stream*0xD1B54A32D192ED03 + 0x1234567}
	r.Next()
	r.Next()
	return r
}
func (r *Rng) Next() uint64 {
	r.s += 0x9E3779B97F4A7C15
	z := r.s
	z = (z ^ (z >> 30)) * 0xBF58476D1CE4E5B9
	z = (z ^ (z >> 27)) * 0x94D049BB133111EB
	return z ^ (z >> 31)
}
func (r *Rng) Intn(n int) int {
	if n <= 0 {
		return 0
	}
	return int(r.Next() % uint64(n))
}
func (r *Rng) Chance(pct int) bool { return r.Intn(100) < pct }
func (r *Rng) Pick(xs ...int64) int64 {
	return xs[r.Intn(len(xs))]
}

// Big returns a uniformly random integer in [0, n).
func (r *Rng) Big(n *big.Int) *big.Int {
	if n.Sign() <= 0 {
		return big.NewInt(0)
	}
	words := (n.BitLen() + 63) / 64
	x := new(big.Int)
	for i := 0; i < words+1; i++ {
		x.Lsh(x, 64)
		x.Or(x, new(big.Int).SetUint64(r.Next()))
	}
	return x.Mod(x, n)
}

// Decade draws an amount whose order of magnitude is uniform in [10^lo, 10^hi).
func (r *Rng) Decade(lo, hi int) *big.Int {
	d := lo + r.Intn(hi-lo)
	base := new(big.Int).Exp(big.NewInt(10), big.NewInt(int64(d)), nil)
	m := new(big.Int).Mul(base, big.NewInt(9))
	return new(big.Int).Add(base, r.Big(m))
}

func bi(x int64) *big.Int { return big.NewInt(x) }

// ---------- report ----------

type Violation struct {
	Property  string      `json:"property"`
	Signature string      `json:"signature"` // stable identification used by known_findings.json
	Detail    string      `json:"detail"`
	History   int         `json:"history"`
	Step      int         `json:"step"`
	Replay    interface{} `json:"replay"` // the (shrunk) history
}

type Report struct {
	Property     string                 `json:"property"`
	Tier         string                 `json:"tier"`
	Seed         int64                  `json:"seed"`
	Histories    int                    `json:"histories"`
	Steps        int                    `json:"steps"`
	Nontrivial   int                    `json:"distinct_nontrivial"`
	OpHist       map[string]int         `json:"op_histogram"`
	ResHist      map[string]int         `json:"result_histogram"`
	DecadeHist   map[string]int         `json:"amount_decade_histogram"`
	Violations   []Violation            `json:"violations"`
	Samples      []interface{}          `json:"samples"`
	CaseFiles    []string               `json:"case_files"`
	Extra        map[string]interface{} `json:"extra"`
	WallS        float64                `json:"wall_s"`
	ImplChecks   int                    `json:"impl_predicate_evaluations"`
	distinctSeen map[string]bool
}

type Collector struct {
	mu     sync.Mutex
	rep    Report
	cases  map[int]string // history index -> Coq text of the case
	start  time.Time
	dir    string
	header string
	footer string
	sigCount map[string]int
}

func NewCollector(prop string, seed int64) *Collector {
	c := &Collector{cases: map[int]string{}, start: time.Now()}
	c.rep = Report{Property: prop, Tier: tier(), Seed: seed, OpHist: map[string]int{}, ResHist: map[string]int{},
		DecadeHist: map[string]int{}, Extra: map[string]interface{}{}, distinctSeen: map[string]bool{}}
	c.dir = filepath.Join(outDir(), prop)
	_ = os.RemoveAll(c.dir)
	_ = os.MkdirAll(c.dir, 0o755)
	return c
}

func (c *Collector) Op(kind, result string, amt *big.Int) {
	c.mu.Lock()
	defer c.mu.Unlock()
	c.rep.Steps++
	c.rep.OpHist[kind]++
	c.rep.ResHist[kind+":"+result]++
	if amt != nil && amt.Sign() > 0 {
		c.rep.DecadeHist[fmt.Sprintf("1e%02d", len(amt.String())-1)]++
	}
}

// Distinct registers a case fingerprint; nontrivial cases are counted once each.
func (c *Collector) Distinct(fp string, nontrivial bool) {
	c.mu.Lock()
	defer c.mu.Unlock()
	if !nontrivial || c.rep.distinctSeen[fp] {
		return
	}
	c.rep.distinctSeen[fp] = true
	c.rep.Nontrivial++
}

func (c *Collector) ImplCheck(n int) {
	c.mu.Lock()
	c.rep.ImplChecks += n
	c.mu.Unlock()
}

func (c *Collector) Violate(v Violation) {
	c.mu.Lock()
	defer c.mu.Unlock()
	v.Property = c.rep.Property
	// keep a few per signature so that one frequent violation cannot hide a different one
	if c.sigCount == nil {
		c.sigCount = map[string]int{}
	}
	c.sigCount[v.Signature]++
	if c.sigCount[v.Signature] <= 3 && len(c.rep.Violations) < 120 {
		c.rep.Violations = append(c.rep.Violations, v)
	}
}

func (c *Collector) Sample(s interface{}) {
	c.mu.Lock()
	defer c.mu.Unlock()
	if len(c.rep.Samples) < 3 {
		c.rep.Samples = append(c.rep.Samples, s)
	}
}

func (c *Collector) Case(idx int, text string) {
	c.mu.Lock()
	c.cases[idx] = text
	c.mu.Unlock()
}

func (c *Collector) Extra(k string, v interface{}) {
	c.mu.Lock()
	c.rep.Extra[k] = v
	c.mu.Unlock()
}

// Finish writes cases_<k>.v shards (header + "Definition cases := [ ... ]." + footer) and report.json.
func (c *Collector) Finish(t *testing.T, histories int, header, footer string, perShard int) {
	c.mu.Lock()
	defer c.mu.Unlock()
	c.rep.Histories = histories
	idxs := make([]int, 0, len(c.cases))
	for i := range c.cases {
		idxs = append(idxs, i)
	}
	sort.Ints(idxs)
	if perShard <= 0 {
		perShard = 400
	}
	for sh := 0; sh*perShard < len(idxs); sh++ {
		lo, hi := sh*perShard, (sh+1)*perShard
		if hi > len(idxs) {
			hi = len(idxs)
		}
		var sb strings.Builder
		sb.WriteString(header)
		sb.WriteString("Definition cases := [\n")
		for k, i := range idxs[lo:hi] {
			if k > 0 {
				sb.WriteString(";\n")
			}
			sb.WriteString(c.cases[i])
		}
		sb.WriteString("\n].\n")
		sb.WriteString(footer)
		name := fmt.Sprintf("cases_%s_%03d.v", c.rep.Property, sh)
		if err := os.WriteFile(filepath.Join(c.dir, name), []byte(sb.String()), 0o644); err != nil {
			t.Fatalf("write cases: %v", err)
		}
		c.rep.CaseFiles = append(c.rep.CaseFiles, name)
	}
	c.rep.WallS = time.Since(c.start).Seconds()
	b, _ := json.MarshalIndent(c.rep, "", " ")
	if err := os.WriteFile(filepath.Join(c.dir, "report.json"), b, 0o644); err != nil {
		t.Fatalf("write report: %v", err)
	}
}

// RunParallel runs f(i) for i in [0,n) on up to 16 workers.
func RunParallel(n int, f func(i int)) {
	workers := int(envInt("VERIF_WORKERS", 14))
	if workers > n {
		workers = n
	}
	if workers < 1 {
		workers = 1
	}
	var wg sync.WaitGroup
	ch := make(chan int)
	for w := 0; w < workers; w++ {
		wg.Add(1)
		go func() {
			defer wg.Done()
			for i := range ch {
				f(i)
			}
		}()
	}
	for i := 0; i < n; i++ {
		ch <- i
	}
	close(ch)
	wg.Wait()
}

func zstr(x *big.Int) string {
	if x.Sign() < 0 {
		return "(" + x.String() + ")"
	}
	return x.String()
}

func loadReplay(v interface{}) bool {
	p := os.Getenv("VERIF_REPLAY")
	if p == "" {
		return false
	}
	b, err := os.ReadFile(p)
	if err != nil {
		panic(err)
	}
	// a replay file is either the bare history or a violation record with a "replay" member
	var wrap struct {
		Replay json.RawMessage `json:"replay"`
	}
	if json.Unmarshal(b, &wrap) == nil && len(wrap.Replay) > 0 {
		b = wrap.Replay
	}
	if err := json.Unmarshal(b, v); err != nil {
		panic(err)
	}
	return true
}
