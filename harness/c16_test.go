package harness

// C16 driver: the oracle price store of the REAL application, driven only through the production
// messages (MsgFeedPrice, MsgFeedMultiplePrices, feeder registry and governance messages) and real
// FinalizeBlock/Commit, over name alphabets BUILT TO COLLIDE (assets/sources that are prefixes or
// concatenations of one another) and over clean alphabets. After every step it
//   (a) evaluates the property's own predicate on the implementation against a reference map
//       (asset, source) -> live fed prices kept by the harness (independent of the Coq model), and
//   (b) emits the step with GetAssetPrice of EVERY name / GetAssetPriceFromDenom of every denom for the
//       exact comparison with coq/Models/Oracle.v (Run/OracleRun.v, vm_compute).
// c16Fixed selects which model the real code is compared with: false = the code as it is at the pinned
// commit (lookups return whatever the reverse prefix scan hits first); true = after the repair that skips
// iterator entries decoding to another asset/source.

import (
	"bytes"
	"encoding/binary"
	"fmt"
	"math/big"
	"os"
	"path/filepath"
	"regexp"
	"sort"
	"strings"
	"sync"
	"testing"

	sdkmath "cosmossdk.io/math"
	sdk "github.com/cosmos/cosmos-sdk/types"

	otypes "github.com/elys-network/elys/x/oracle/types"
)

const c16Fixed = true

type c16Feed struct {
	Asset  string `json:"asset"`
	Source string `json:"source"`
	Price  string `json:"price"` // raw 10^18-scaled integer of the LegacyDec
}

type c16Op struct {
	Op      string    `json:"op"` // feed feed_multi add_feeders remove_feeders set_feeder delete_feeder create_info remove_info params block
	Sender  int       `json:"sender,omitempty"`
	Feeds   []c16Feed `json:"feeds,omitempty"`
	Addrs   []int     `json:"addrs,omitempty"`
	Active  bool      `json:"active,omitempty"`
	BadAuth bool      `json:"bad_auth,omitempty"` // authority := an ordinary account instead of gov
	Denom   string    `json:"denom,omitempty"`
	Display string    `json:"display,omitempty"`
	Decimal uint64    `json:"decimal,omitempty"`
	Expiry  uint64    `json:"expiry,omitempty"`
	Life    uint64    `json:"life,omitempty"`
	Dt      int64     `json:"dt,omitempty"` // block: >0 seconds; <0: relative to PriceExpiryTime (-1: e-1, -2: e, -3: e+1, -4: e/2)
}

type c16Hist struct {
	ID     int      `json:"id"`
	Kind   string   `json:"kind"` // clean | collide
	Names  []string `json:"names"`
	Denoms []string `json:"denoms"`
	Ops    []c16Op  `json:"ops"`
}

const c16Gov = 99 // interned id of the governance module account (a genesis feeder)

var (
	c16CleanAssets    = []string{"ATOM", "USDC", "WBTC", "ELYS", "OSMO", "BTC", "ETH"}
	c16CleanSources   = []string{"elys", "band", "binance", "cex"}
	c16CollideAssets  = []string{"ATM", "ATMO", "ATMe", "ATMelys", "ATMband", "ATMelysb", "BTC", "BTCelys", "ETH", "elys", "band", "ATM/x", "elysband"}
	c16CollideSources = []string{"elys", "band", "lys", "x", "elysium", "elys/x", "and", "b", "/", "e", "bandx", "Oelys", "elys", "band"}
	c16CollideQueries = []string{"AT", "ATMel", "ATMelys/", "E", "BT"}
	c16BadAssets      = []string{"AB", "1ATM", "AT M", ""}
	c16Denoms         = []string{"uatom", "uusdc", "wbtc-sat", "ibc/27394FB092D2ECCD", "satoshi", "wei", "nope"}
)

func c16Gen(r *Rng, id int) c16Hist {
	h := c16Hist{ID: id, Kind: "collide"}
	assets, sources := c16CollideAssets, c16CollideSources
	if r.Chance(40) {
		h.Kind = "clean"
		assets, sources = c16CleanAssets, c16CleanSources
		h.Names = append(h.Names, assets...)
	} else {
		h.Names = append(append(h.Names, assets...), c16CollideQueries...)
	}
	h.Denoms = c16Denoms
	// a feeder usually re-feeds the SAME value block after block (a stable price): a quarter of the feeds repeat an earlier
	// (asset, source, price) unchanged; a write skipped "because nothing changed" would leave the old timestamp to expire
	var prev []c16Feed
	feed0 := func() c16Feed { return c16Feed{} }
	feed := func() c16Feed {
		if len(prev) > 0 && r.Chance(25) {
			return prev[r.Intn(len(prev))]
		}
		f := feed0()
		prev = append(prev, f)
		if len(prev) > 12 {
			prev = prev[1:]
		}
		return f
	}
	feed0 = func() c16Feed {
		f := c16Feed{Asset: assets[r.Intn(len(assets))], Source: sources[r.Intn(len(sources))]}
		if h.Kind == "collide" && r.Chance(45) { // stay inside one colliding family
			f.Asset = assets[r.Intn(6)]
		}
		if r.Chance(55) {
			f.Source = sources[r.Intn(2)]
		}
		switch x := r.Intn(40); {
		case x == 0:
			f.Price = "0"
		case x == 1:
			f.Price = "-1"
		case x == 2:
			f.Asset = c16BadAssets[r.Intn(len(c16BadAssets))]
			f.Price = "1000000000000000000"
		case x == 3:
			f.Source = ""
			f.Price = "1000000000000000000"
		default:
			f.Price = r.Decade(0, 40).String()
		}
		return f
	}
	sender := func() int {
		switch x := r.Intn(20); {
		case x < 9:
			return 0
		case x < 13:
			return 1
		case x < 15:
			return 2 // registered, mostly inactive
		case x < 17:
			return 3 // never registered by the prologue
		case x < 18:
			return 4
		default:
			return c16Gov
		}
	}
	// prologue: feeders 0,1,2 registered by governance, 2 switches itself off
	h.Ops = append(h.Ops, c16Op{Op: "add_feeders", Addrs: []int{0, 1, 2}}, c16Op{Op: "set_feeder", Sender: 2, Active: false},
		c16Op{Op: "params", Expiry: uint64(r.Pick(5, 10, 20, 60, 86400)), Life: uint64(r.Pick(1, 2, 3, 5, 1000))})
	n := 30 + r.Intn(30)
	for k := 0; k < n; k++ {
		switch x := r.Intn(100); {
		case x < 38:
			h.Ops = append(h.Ops, c16Op{Op: "feed", Sender: sender(), Feeds: []c16Feed{feed()}})
		case x < 50:
			m := r.Intn(4) // 0 = empty list (invalid)
			op := c16Op{Op: "feed_multi", Sender: sender()}
			for j := 0; j < m; j++ {
				op.Feeds = append(op.Feeds, feed())
			}
			if h.Kind == "collide" && r.Chance(12) { // two pairs with the same concatenation in one message
				p := [][2]c16Feed{{{"ATM", "elys", "11"}, {"ATMe", "lys", "22"}}, {{"ATMO", "elys", "33"}, {"ATM", "Oelys", "44"}}}[r.Intn(2)]
				if r.Chance(50) {
					p[0], p[1] = p[1], p[0]
				}
				op.Feeds = append(op.Feeds, p[0], p[1])
			}
			h.Ops = append(h.Ops, op)
		case x < 72:
			h.Ops = append(h.Ops, c16Op{Op: "block", Dt: r.Pick(1, 1, 2, 3, 5, 7, -1, -2, -3, -4)})
		case x < 77:
			h.Ops = append(h.Ops, c16Op{Op: "set_feeder", Sender: r.Intn(5), Active: r.Chance(50)})
		case x < 79:
			h.Ops = append(h.Ops, c16Op{Op: "delete_feeder", Sender: r.Intn(5)})
		case x < 83:
			op := c16Op{Op: "add_feeders", BadAuth: r.Chance(30)}
			for j := r.Intn(3); j >= 0; j-- {
				op.Addrs = append(op.Addrs, r.Intn(5))
			}
			h.Ops = append(h.Ops, op)
		case x < 85:
			h.Ops = append(h.Ops, c16Op{Op: "remove_feeders", BadAuth: r.Chance(30), Addrs: []int{r.Intn(5)}})
		case x < 91:
			d := c16Denoms[r.Intn(len(c16Denoms))]
			if r.Chance(8) {
				d = "ab" // invalid denom
			}
			h.Ops = append(h.Ops, c16Op{Op: "create_info", Sender: r.Intn(5), Denom: d, Display: h.Names[r.Intn(len(h.Names))],
				Decimal: uint64(r.Pick(6, 6, 8, 18, 18, 5, 19))})
		case x < 93:
			h.Ops = append(h.Ops, c16Op{Op: "remove_info", BadAuth: r.Chance(30), Denom: c16Denoms[r.Intn(len(c16Denoms))]})
		default:
			e := uint64(r.Pick(0, 1, 3, 5, 10, 20, 86400))
			switch r.Intn(8) {
			case 0:
				e = ^uint64(0) // ts + e wraps around in uint64
			case 1:
				e = ^uint64(0) - 1_700_000_000 // wraps for some timestamps of this world only
			}
			l := uint64(r.Pick(0, 1, 1, 2, 3, 5, 1000))
			if r.Intn(10) == 0 {
				l = ^uint64(0)
			}
			h.Ops = append(h.Ops, c16Op{Op: "params", BadAuth: r.Chance(20), Expiry: e, Life: l})
		}
	}
	h.Ops = append(h.Ops, c16Op{Op: "block", Dt: 1}, c16Op{Op: "block", Dt: 1})
	return h
}

// ---- reference map kept by the harness (the property's own predicate) ----

type c16Rec struct {
	asset, source string
	ts, height    uint64
	price         *big.Int
	provider      string
}

type c16Run struct {
	t      *testing.T
	w      *World
	col    *Collector
	h      c16Hist
	addr   map[int]string
	idx    map[string]int
	ref    map[[2]string][]c16Rec // live fed prices
	writer map[string][2]string   // asset||source||ts -> last (asset, source) written there (classification only)
	reg    map[string]bool        // feeder registry: address -> active
	infos  map[string]otypes.AssetInfo
	expiry uint64
	life   uint64
	prevP  []string
	prevD  []string
	step   int
	seen   map[string]bool
}

// Violations are gathered and handed to the collector at the end, ordered by history, at most two per
// signature (the collector keeps 50 in all: a frequent signature must not crowd out a rare one, and the
// reported history must not depend on goroutine scheduling); every occurrence is counted in the evidence.
var (
	c16SigMu    sync.Mutex
	c16SigCount = map[string]int{}
	c16Found    []Violation
)

func (x *c16Run) fail(sig, detail string) {
	if x.seen[sig] { // one report per signature and history
		return
	}
	x.seen[sig] = true
	c16SigMu.Lock()
	c16SigCount[sig]++
	c16Found = append(c16Found, Violation{Signature: sig, Detail: fmt.Sprintf("[%s alphabet] %s", x.h.Kind, detail), History: x.h.ID, Step: x.step, Replay: x.h})
	c16SigMu.Unlock()
}

func c16Flush(col *Collector) {
	c16SigMu.Lock()
	defer c16SigMu.Unlock()
	sort.SliceStable(c16Found, func(i, j int) bool { return c16Found[i].History < c16Found[j].History })
	n := map[string]int{}
	for _, v := range c16Found {
		if n[v.Signature]++; n[v.Signature] <= 2 {
			col.Violate(v)
		}
	}
	col.Extra("histories_per_violation_signature", c16SigCount)
}

func cstr(s string) string { return `B"` + strings.ReplaceAll(s, `"`, `""`) + `"` }

func nstr(u uint64) string { return new(big.Int).SetUint64(u).String() }

func c16FeedCoq(f c16Feed) string {
	p, _ := new(big.Int).SetString(f.Price, 10)
	return fmt.Sprintf("mkF (%s) (%s) %s", cstr(f.Asset), cstr(f.Source), zstr(p))
}

func c16Dec(raw string) sdkmath.LegacyDec {
	p, _ := new(big.Int).SetString(raw, 10)
	return sdkmath.LegacyNewDecFromBigIntWithPrec(p, 18)
}

func (x *c16Run) slotKey(a, s string, ts uint64) string {
	var b [8]byte
	binary.BigEndian.PutUint64(b[:], ts)
	return a + s + "/" + string(b[:])
}

func (x *c16Run) newest(a, s string) (c16Rec, bool) {
	var best c16Rec
	ok := false
	for _, r := range x.ref[[2]string{a, s}] {
		if !ok || r.ts > best.ts {
			best, ok = r, true
		}
	}
	return best, ok
}

func (x *c16Run) overwritten(r c16Rec) bool {
	wr, ok := x.writer[x.slotKey(r.asset, r.source, r.ts)]
	return ok && wr != [2]string{r.asset, r.source}
}

// anyOverwritten: some live reference record of (asset, source) (source "" = any) lost its key to another pair
func (x *c16Run) anyOverwritten(a, s string) bool {
	for k, rs := range x.ref {
		if k[0] != a || (s != "" && k[1] != s) {
			continue
		}
		for _, r := range rs {
			if x.overwritten(r) {
				return true
			}
		}
	}
	return false
}

// anyIntact: some live reference record of (asset, source) still owns its store key
func (x *c16Run) anyIntact(a, s string) bool {
	for _, r := range x.ref[[2]string{a, s}] {
		if !x.overwritten(r) {
			return true
		}
	}
	return false
}

func (x *c16Run) refFeed(r c16Rec) {
	k := [2]string{r.asset, r.source}
	l := x.ref[k][:0:0]
	for _, o := range x.ref[k] {
		if o.ts != r.ts {
			l = append(l, o)
		}
	}
	x.ref[k] = append(l, r)
	x.writer[x.slotKey(r.asset, r.source, r.ts)] = k
}

// the end-blocker's rule, in uint64 arithmetic, applied to the reference map
func (x *c16Run) refExpire(height, now uint64) {
	for k, rs := range x.ref {
		l := rs[:0:0]
		for _, r := range rs {
			if r.ts+x.expiry < now || r.height+x.life < height {
				continue
			}
			l = append(l, r)
		}
		if len(l) == 0 {
			delete(x.ref, k)
		} else {
			x.ref[k] = l
		}
	}
}

// checkName evaluates the property on one lookup and returns the Coq observation.
func (x *c16Run) checkName(a string) string {
	k := x.w.App.OracleKeeper
	got, found := k.GetAssetPrice(x.w.QCtx(), a)
	x.col.ImplCheck(1)
	_, liveE := x.newest(a, "elys")
	_, liveB := x.newest(a, "band")
	anyLive := false
	for key := range x.ref {
		if key[0] == a {
			anyLive = true
		}
	}
	if !found {
		if anyLive {
			if x.anyOverwritten(a, "") {
				x.fail("C16:key-overwrite", fmt.Sprintf("GetAssetPrice(%q) finds nothing although a live price was fed for it: its store key was overwritten by a feed for another (asset, source) with the same concatenation", a))
			} else {
				x.fail("C16:live-price-not-found", fmt.Sprintf("GetAssetPrice(%q) finds nothing although a live price was fed for it", a))
			}
		}
		return "None"
	}
	obs := fmt.Sprintf("Some (%s, %s, %s%%Z, %d, %s, %s)", cstr(got.Asset), cstr(got.Source), zstr(got.Price.BigInt()), x.idx[got.Provider], nstr(got.Timestamp), nstr(got.BlockHeight))
	if got.Asset != a {
		if !strings.HasPrefix(x.slotKey(got.Asset, got.Source, got.Timestamp), a) { // not explained by the key format
			x.fail("C16:foreign-asset-price", fmt.Sprintf("GetAssetPrice(%q) returned the price fed for asset %q source %q", a, got.Asset, got.Source))
			return obs
		}
		x.fail("C16:prefix-collision", fmt.Sprintf("GetAssetPrice(%q) returned the price fed for asset %q source %q (store key %q is captured by the scan prefix of %q)",
			a, got.Asset, got.Source, "Price/value/"+got.Asset+got.Source+"/<ts>", a))
		return obs
	}
	var rec *c16Rec
	for _, r := range x.ref[[2]string{a, got.Source}] {
		if r.ts == got.Timestamp {
			r := r
			rec = &r
		}
	}
	if rec == nil || rec.height != got.BlockHeight || rec.provider != got.Provider || rec.price.Cmp(got.Price.BigInt()) != 0 {
		x.fail("C16:stale-or-unknown-price", fmt.Sprintf("GetAssetPrice(%q) returned %v which is not a live fed price (expired or never fed)", a, got))
		return obs
	}
	want := got.Source
	if liveE {
		want = "elys"
	} else if liveB {
		want = "band"
	}
	if got.Source != want {
		switch {
		case !x.anyIntact(a, want):
			// every live record of the preferred source lost its store key to another (asset, source) pair with the same concatenation
			x.fail("C16:key-overwrite", fmt.Sprintf("GetAssetPrice(%q) served source %q although a live %q price was fed: its key was overwritten by another (asset, source) pair", a, got.Source, want))
		case (strings.HasPrefix(got.Source, "elys") && got.Source != "elys") || (strings.HasPrefix(got.Source, "band") && got.Source != "band"):
			x.fail("C16:prefix-collision", fmt.Sprintf("GetAssetPrice(%q) served source %q in the slot of a preferred source although a live %q price exists (source name captured by the scan prefix)", a, got.Source, want))
		case x.anyOverwritten(a, want):
			x.fail("C16:key-overwrite", fmt.Sprintf("GetAssetPrice(%q) served source %q although a live %q price was fed: its key was overwritten by another (asset, source) pair", a, got.Source, want))
		default:
			x.fail("C16:wrong-source-preference", fmt.Sprintf("GetAssetPrice(%q) served source %q although a live %q price exists", a, got.Source, want))
		}
		return obs
	}
	if best, _ := x.newest(a, want); best.ts != rec.ts {
		if x.overwritten(best) {
			x.fail("C16:key-overwrite", fmt.Sprintf("GetAssetPrice(%q) returned the %q price of t=%d although one was fed at t=%d: that key was overwritten by another (asset, source) pair", a, want, rec.ts, best.ts))
		} else {
			x.fail("C16:not-newest", fmt.Sprintf("GetAssetPrice(%q) returned the %q price of t=%d although one was fed at t=%d", a, want, rec.ts, best.ts))
		}
	}
	return obs
}

func (x *c16Run) checkDenom(d string) string {
	k := x.w.App.OracleKeeper
	val := k.GetAssetPriceFromDenom(x.w.QCtx(), d)
	x.col.ImplCheck(1)
	info, have := x.infos[d]
	if ki, found := k.GetAssetInfo(x.w.QCtx(), d); found != have || (found && (ki.Display != info.Display || ki.Decimal != info.Decimal)) {
		x.fail("C16:asset-info-mismatch", fmt.Sprintf("asset info of %q differs from what the messages established", d))
	}
	if !have {
		if !val.IsZero() {
			x.fail("C16:price-without-asset-info", fmt.Sprintf("GetAssetPriceFromDenom(%q) = %s without asset info", d, val))
		}
	} else {
		p, found := k.GetAssetPrice(x.w.QCtx(), info.Display) // itself checked by checkName (every display is a queried name)
		want := sdkmath.LegacyZeroDec()
		if found {
			want = p.Price.Quo(sdkmath.LegacyNewDecFromInt(sdkmath.NewIntWithDecimal(1, int(info.Decimal))))
		}
		if !val.Equal(want) {
			x.fail("C16:denom-price-mismatch", fmt.Sprintf("GetAssetPriceFromDenom(%q) = %s, want %s", d, val, want))
		}
	}
	return zstr(val.BigInt()) + "%Z"
}

func c16DumpPrices(w *World) []byte {
	var b bytes.Buffer
	for _, p := range w.App.OracleKeeper.GetAllPrice(w.QCtx()) {
		fmt.Fprintf(&b, "%q|%q|%s|%s|%d|%d\n", p.Asset, p.Source, p.Price, p.Provider, p.Timestamp, p.BlockHeight)
	}
	return b.Bytes()
}

func c16Valid(f c16Feed) bool {
	p, _ := new(big.Int).SetString(f.Price, 10)
	return p.Sign() >= 0 && sdk.ValidateDenom(f.Asset) == nil && f.Source != ""
}

func c16Exec(t *testing.T, col *Collector, h c16Hist) string {
	w := NewWorld(t)
	k := w.App.OracleKeeper
	x := &c16Run{t: t, w: w, col: col, h: h, addr: map[int]string{}, idx: map[string]int{}, ref: map[[2]string][]c16Rec{},
		writer: map[string][2]string{}, reg: map[string]bool{}, infos: map[string]otypes.AssetInfo{}, seen: map[string]bool{}}
	for i := 0; i < 5; i++ {
		x.addr[i] = Addr(200 + i).String()
	}
	x.addr[c16Gov] = w.Gov
	for i, a := range x.addr {
		x.idx[a] = i
	}
	// initial state, read from the real keeper (genesis of the test app)
	if n := len(k.GetAllPrice(w.QCtx())); n != 0 {
		t.Fatalf("genesis has %d prices", n)
	}
	var fe, inf []string
	for _, f := range k.GetAllPriceFeeder(w.QCtx()) {
		i, ok := x.idx[f.Feeder]
		if !ok {
			t.Fatalf("unknown genesis feeder %s", f.Feeder)
		}
		x.reg[f.Feeder] = f.IsActive
		fe = append(fe, fmt.Sprintf("(%d, %v)", i, f.IsActive))
	}
	for _, ai := range k.GetAllAssetInfo(w.QCtx()) {
		x.infos[ai.Denom] = ai
		inf = append(inf, fmt.Sprintf("(%s, mkI (%s) %d)", cstr(ai.Denom), cstr(ai.Display), ai.Decimal))
	}
	par := k.GetParams(w.QCtx())
	x.expiry, x.life = par.PriceExpiryTime, par.LifeTimeInBlocks
	init := fmt.Sprintf("mkS [] [%s] [%s] (mkP %s %s) %d %d", strings.Join(fe, ";"), strings.Join(inf, ";"), nstr(x.expiry), nstr(x.life), w.Height+1, w.Time.Unix())
	names := h.Names
	// every display that an info can point to must be queried
	x.prevP = make([]string, len(names))
	for i := range x.prevP {
		x.prevP[i] = "None"
	}
	x.prevD = make([]string, len(h.Denoms))
	for i := range x.prevD {
		x.prevD[i] = "0%Z"
	}
	auth := func(bad bool) (string, string) {
		if bad {
			return x.addr[3], "false"
		}
		return w.Gov, "true"
	}
	ilist := func(l []int) string {
		var s []string
		for _, i := range l {
			s = append(s, fmt.Sprint(i))
		}
		return "[" + strings.Join(s, ";") + "]"
	}
	var steps []string
	var fp strings.Builder
	nontrivial := false
	for step, op := range h.Ops {
		x.step = step
		var res TxResult
		var coq string
		before := c16DumpPrices(w)
		isFeed := false
		switch op.Op {
		case "feed", "feed_multi":
			isFeed = true
			sender := x.addr[op.Sender]
			var msg sdk.Msg
			var fl []string
			valid := len(op.Feeds) > 0
			var fps []otypes.FeedPrice
			for _, f := range op.Feeds {
				fps = append(fps, otypes.FeedPrice{Asset: f.Asset, Price: c16Dec(f.Price), Source: f.Source})
				fl = append(fl, c16FeedCoq(f))
				valid = valid && c16Valid(f)
			}
			if op.Op == "feed" {
				msg = &otypes.MsgFeedPrice{Provider: sender, FeedPrice: fps[0]}
				coq = fmt.Sprintf("OFeed %d (%s)", op.Sender, fl[0])
			} else {
				msg = &otypes.MsgFeedMultiplePrices{Creator: sender, FeedPrices: fps}
				coq = fmt.Sprintf("OFeedMulti %d [%s]", op.Sender, strings.Join(fl, "; "))
			}
			// "currently registered and active", read from the keeper itself and from the harness registry
			kf, kfound := k.GetPriceFeeder(w.QCtx(), sdk.MustAccAddressFromBech32(sender))
			active, registered := x.reg[sender]
			if kfound != registered || (kfound && kf.IsActive != active) {
				x.fail("C16:feeder-registry-mismatch", fmt.Sprintf("registry entry of account %d differs from what the messages established", op.Sender))
			}
			res = w.Deliver(msg)
			authorised := registered && active
			switch {
			case res.OK() && !authorised:
				x.fail("C16:unauthorised-price-write", fmt.Sprintf("%s from account %d (registered=%v active=%v) succeeded", op.Op, op.Sender, registered, active))
			case !res.OK() && authorised && valid:
				x.fail("C16:active-feeder-rejected", fmt.Sprintf("%s from an active feeder failed: %v %v", op.Op, res.Err, res.Panic))
			case res.OK() && !valid:
				x.fail("C16:invalid-feed-accepted", fmt.Sprintf("%s with an invalid asset/source/price succeeded", op.Op))
			}
			if res.OK() {
				nontrivial = true
				for _, f := range op.Feeds {
					p, _ := new(big.Int).SetString(f.Price, 10)
					x.refFeed(c16Rec{asset: f.Asset, source: f.Source, ts: uint64(w.Time.Unix()), height: uint64(w.Height + 1), price: p, provider: sender})
					col.Op("fed_price", "ok", p)
				}
			}
		case "add_feeders", "remove_feeders":
			a, ab := auth(op.BadAuth)
			var l []string
			for _, i := range op.Addrs {
				l = append(l, x.addr[i])
			}
			if op.Op == "add_feeders" {
				res = w.Deliver(&otypes.MsgAddPriceFeeders{Authority: a, Feeders: l})
				coq = fmt.Sprintf("OAddFeeders %s %s", ab, ilist(op.Addrs))
			} else {
				res = w.Deliver(&otypes.MsgRemovePriceFeeders{Authority: a, Feeders: l})
				coq = fmt.Sprintf("ORemoveFeeders %s %s", ab, ilist(op.Addrs))
			}
			if res.OK() {
				if op.BadAuth {
					x.fail("C16:feeder-registry-changed-without-authority", op.Op+" with a foreign authority succeeded")
				}
				for _, f := range l {
					if op.Op == "add_feeders" {
						x.reg[f] = true
					} else {
						delete(x.reg, f)
					}
				}
			}
		case "set_feeder":
			res = w.Deliver(&otypes.MsgSetPriceFeeder{Feeder: x.addr[op.Sender], IsActive: op.Active})
			coq = fmt.Sprintf("OSetFeeder %d %v", op.Sender, op.Active)
			_, was := x.reg[x.addr[op.Sender]]
			if res.OK() {
				if !was {
					x.fail("C16:self-registration", "MsgSetPriceFeeder registered an account that governance never added")
				}
				x.reg[x.addr[op.Sender]] = op.Active
			}
		case "delete_feeder":
			res = w.Deliver(&otypes.MsgDeletePriceFeeder{Feeder: x.addr[op.Sender]})
			coq = fmt.Sprintf("ODeleteFeeder %d", op.Sender)
			if res.OK() {
				delete(x.reg, x.addr[op.Sender])
			}
		case "create_info":
			res = w.Deliver(&otypes.MsgCreateAssetInfo{Creator: x.addr[op.Sender], Denom: op.Denom, Display: op.Display, BandTicker: "T", ElysTicker: "T", Decimal: op.Decimal})
			coq = fmt.Sprintf("OCreateInfo (%s) (%s) %d", cstr(op.Denom), cstr(op.Display), op.Decimal)
			if res.OK() {
				x.infos[op.Denom] = otypes.AssetInfo{Denom: op.Denom, Display: op.Display, Decimal: op.Decimal}
			}
		case "remove_info":
			a, ab := auth(op.BadAuth)
			res = w.Deliver(&otypes.MsgRemoveAssetInfo{Authority: a, Denom: op.Denom})
			coq = fmt.Sprintf("ORemoveInfo %s (%s)", ab, cstr(op.Denom))
			if res.OK() {
				delete(x.infos, op.Denom)
			}
		case "params":
			a, ab := auth(op.BadAuth)
			p := k.GetParams(w.QCtx())
			p.PriceExpiryTime, p.LifeTimeInBlocks = op.Expiry, op.Life
			res = w.Deliver(&otypes.MsgUpdateParams{Authority: a, Params: p})
			coq = fmt.Sprintf("OUpdateParams %s (mkP %s %s)", ab, nstr(op.Expiry), nstr(op.Life))
			if res.OK() {
				x.expiry, x.life = op.Expiry, op.Life
			}
		case "block":
			dt := op.Dt
			if dt < 0 {
				e := int64(x.expiry)
				if x.expiry > 1_000_000 {
					e = 4
				}
				switch dt {
				case -1:
					dt = e - 1
				case -2:
					dt = e
				case -3:
					dt = e + 1
				default:
					dt = e / 2
				}
			}
			if dt < 1 {
				dt = 1
			}
			x.refExpire(uint64(w.Height+1), uint64(w.Time.Unix()))
			if err := w.EndBlock(dt); err != nil {
				x.fail("C16:block-failed", err.Error())
				return ""
			}
			coq = fmt.Sprintf("OEndBlock %d", dt)
			if kp := k.GetParams(w.QCtx()); kp.PriceExpiryTime != x.expiry || kp.LifeTimeInBlocks != x.life {
				x.fail("C16:params-mismatch", "oracle params differ from what governance set")
			}
		default:
			t.Fatalf("unknown op %q", op.Op)
		}
		col.Op(op.Op, res.Kind(), nil)
		fmt.Fprintf(&fp, "%s:%s;", op.Op, res.Kind())
		after := c16DumpPrices(w)
		if !bytes.Equal(before, after) {
			switch {
			case op.Op == "block":
				// the end-blocker may only REMOVE prices
				have := map[string]bool{}
				for _, l := range strings.Split(string(before), "\n") {
					have[l] = true
				}
				for _, l := range strings.Split(string(after), "\n") {
					if !have[l] {
						x.fail("C16:block-added-price", "a price appeared during block processing: "+l)
					}
				}
			case !isFeed || !res.OK():
				x.fail("C16:price-changed-by-non-feed", fmt.Sprintf("%s (%s) changed the stored prices", op.Op, res.Kind()))
			}
		}
		x.col.ImplCheck(1)
		// the store holds exactly the live fed prices (reference map), nothing else
		{
			have := map[string]bool{}
			for _, l := range strings.Split(strings.TrimSuffix(string(after), "\n"), "\n") {
				if l != "" {
					have[l] = true
				}
			}
			nref := 0
			for _, rs := range x.ref {
				for _, r := range rs {
					nref++
					l := fmt.Sprintf("%q|%q|%s|%s|%d|%d", r.asset, r.source, sdkmath.LegacyNewDecFromBigIntWithPrec(r.price, 18), r.provider, r.ts, r.height)
					if !have[l] {
						if x.overwritten(r) {
							wr := x.writer[x.slotKey(r.asset, r.source, r.ts)]
							x.fail("C16:key-overwrite", fmt.Sprintf("the live price fed for asset %q source %q at t=%d is no longer stored: the feed for asset %q source %q in the same second has the same store key %q",
								r.asset, r.source, r.ts, wr[0], wr[1], "Price/value/"+r.asset+r.source+"/<ts>"))
						} else {
							x.fail("C16:live-price-missing-from-store", fmt.Sprintf("the live price fed for asset %q source %q at t=%d height %d is not stored", r.asset, r.source, r.ts, r.height))
						}
					}
					delete(have, l)
				}
			}
			for l := range have {
				x.fail("C16:expired-or-unknown-price-in-store", "stored price is not a live fed price (expired, or never fed): "+l)
				break
			}
			x.col.ImplCheck(nref + 1)
		}
		// lookups of every name / denom: property predicate + observation deltas for the model
		var dp, dd []string
		for i, a := range names {
			o := x.checkName(a)
			if o != x.prevP[i] {
				dp = append(dp, fmt.Sprintf("(%d%%nat, %s)", i, o))
				x.prevP[i] = o
			}
		}
		for i, d := range h.Denoms {
			o := x.checkDenom(d)
			if o != x.prevD[i] {
				dd = append(dd, fmt.Sprintf("(%d%%nat, %s)", i, o))
				x.prevD[i] = o
			}
		}
		kind := map[string]int{"ok": 0, "err": 1, "panic": 2}[res.Kind()]
		steps = append(steps, fmt.Sprintf("(%s, mkO %d %d [%s] [%s])", coq, kind, bytes.Count(after, []byte("\n")), strings.Join(dp, "; "), strings.Join(dd, "; ")))
	}
	col.Distinct(fp.String(), nontrivial)
	col.Sample(h)
	var ns, ds []string
	for _, a := range names {
		ns = append(ns, cstr(a))
	}
	for _, d := range h.Denoms {
		ds = append(ds, cstr(d))
	}
	return fmt.Sprintf("mkC %d (%s)\n  [%s]\n  [%s] [\n  %s]", h.ID, init, strings.Join(ns, "; "), strings.Join(ds, "; "), strings.Join(steps, ";\n  "))
}

// c16Writers: every call site of the oracle's SetPrice and every user of PriceKey in the current source
// tree (non-test files), compared with the sites the model accounts for. A new site is a new writer of
// prices that the theorem about feeders does not cover.
func c16Writers(col *Collector) {
	repo := os.Getenv("VERIF_REPO")
	if repo == "" {
		repo = "/repo"
	}
	known := map[string]string{
		"x/oracle/keeper/price.go":                           "SetPrice itself; MigrateAllLegacyPrices (upgrade handler only)",
		"x/oracle/keeper/msg_server_price.go":                "FeedPrice (modelled)",
		"x/oracle/keeper/msg_server_feed_multiple_prices.go": "FeedMultiplePrices (modelled)",
		"x/oracle/genesis.go":                                "InitGenesis",
		"x/oracle/oracle.go":                                 "Band IBC packet receive (source band; no channel in the sandbox)",
		"x/oracle/types/genesis.go":                          "genesis validation (PriceKey as a duplicate index)",
		"x/oracle/types/keys.go":                             "PriceKey definition",
	}
	re := regexp.MustCompile(`\bSetPrice\(|\bPriceKey\(|\bPriceKeyPrefix(Asset|AssetAndSource)?\b`)
	var sites []string
	for _, root := range []string{"x", "app", "wasmbindings"} {
		_ = filepath.Walk(filepath.Join(repo, root), func(p string, fi os.FileInfo, err error) error {
			if err != nil || fi.IsDir() || !strings.HasSuffix(p, ".go") || strings.HasSuffix(p, "_test.go") || strings.HasSuffix(p, ".pb.go") || strings.HasSuffix(p, ".pb.gw.go") {
				return nil
			}
			src, e := os.ReadFile(p)
			if e != nil || !re.Match(src) {
				return nil
			}
			rel, _ := filepath.Rel(repo, p)
			if strings.HasPrefix(rel, "x/oracle/") || bytes.Contains(src, []byte("OracleKeeper.SetPrice(")) || bytes.Contains(src, []byte("oracleKeeper.SetPrice(")) {
				sites = append(sites, rel)
			}
			return nil
		})
	}
	sort.Strings(sites)
	col.Extra("price_writer_sites", sites)
	for _, s := range sites {
		if _, ok := known[s]; !ok && s != "x/oracle/keeper/grpc_query_price.go" {
			col.Violate(Violation{Signature: "C16:new-price-writer-site", Detail: "SetPrice/PriceKey is used in " + s + ", which the model of price writers does not cover", History: -1, Replay: map[string]string{"site": s}})
		}
	}
}

func TestC16(t *testing.T) {
	seed := envInt("VERIF_SEED", 1)
	col := NewCollector("C16", seed)
	n := 96
	if tier() == "thorough" {
		n = 1500
	}
	n = int(envInt("VERIF_N", int64(n)))
	var hists []c16Hist
	var one c16Hist
	if loadReplay(&one) {
		hists = []c16Hist{one}
	} else {
		c16Writers(col)
		hists = append(hists, c16Corpus()...)
		for i := len(hists); i < n; i++ {
			hists = append(hists, c16Gen(NewRng(uint64(seed), uint64(i)), i))
		}
	}
	RunParallel(len(hists), func(i int) {
		h := hists[i]
		h.ID = i
		if txt := c16Exec(t, col, h); txt != "" {
			col.Case(i, txt)
		}
	})
	c16Flush(col)
	header := "From Coq Require Import ZArith NArith List Bool String.\nFrom Elys Require Import Base.Res Models.Oracle Run.OracleRun.\nImport ListNotations.\nOpen Scope string_scope.\nOpen Scope N_scope.\n"
	footer := fmt.Sprintf("Definition M := Eval vm_compute in mismatches %v cases.\nPrint M.\n", c16Fixed)
	col.Finish(t, len(hists), header, footer, 12)
}

// corpus: minimised histories that matter (run first on every check)
func c16Corpus() []c16Hist {
	one := "1000000000000000000"
	pro := []c16Op{{Op: "add_feeders", Addrs: []int{0, 1}}}
	with := func(ops ...c16Op) []c16Op { return append(append([]c16Op{}, pro...), ops...) }
	names := append(append([]string{}, c16CollideAssets...), c16CollideQueries...)
	return []c16Hist{
		{ // the witness of Coq theorem C16_prefix_collision_refuted: a price fed for ATMelys/band is served for ATM
			Kind: "collide", Names: names, Denoms: c16Denoms,
			Ops: with(c16Op{Op: "create_info", Sender: 3, Denom: "uatom", Display: "ATM", Decimal: 6},
				c16Op{Op: "feed", Sender: 0, Feeds: []c16Feed{{"ATMelys", "band", "7000000000000000000"}}}),
		},
		{ // any-source tier: with no price of its own, ATM is served the price of ATMO
			Kind: "collide", Names: names, Denoms: c16Denoms,
			Ops: with(c16Op{Op: "feed", Sender: 0, Feeds: []c16Feed{{"ATMO", "elys", "5000000000000000000"}}},
				c16Op{Op: "feed", Sender: 1, Feeds: []c16Feed{{"ATM", "elys", one}}},
				c16Op{Op: "block", Dt: 1}, c16Op{Op: "feed", Sender: 0, Feeds: []c16Feed{{"ATMO", "elys", "5000000000000000000"}}},
				c16Op{Op: "block", Dt: 1}, c16Op{Op: "feed", Sender: 0, Feeds: []c16Feed{{"ATMO", "elys", "5000000000000000000"}}},
				c16Op{Op: "block", Dt: 1}),
		},
		{ // identical concatenation: (ATM, elys) and (ATMe, lys) share one store key per timestamp
			Kind: "collide", Names: names, Denoms: c16Denoms,
			Ops: with(c16Op{Op: "feed", Sender: 0, Feeds: []c16Feed{{"ATM", "elys", one}}},
				c16Op{Op: "feed", Sender: 1, Feeds: []c16Feed{{"ATMe", "lys", "2000000000000000000"}}}),
		},
		{ // source names that extend a preferred source: "elysium" beats a newer "elys"; "elys/x" too
			Kind: "collide", Names: names, Denoms: c16Denoms,
			Ops: with(c16Op{Op: "feed", Sender: 0, Feeds: []c16Feed{{"ATM", "elysium", "3000000000000000000"}}},
				c16Op{Op: "block", Dt: 1}, c16Op{Op: "feed", Sender: 0, Feeds: []c16Feed{{"ATM", "elys", one}}}),
		},
		{ // clean names: expiry by time exactly at the boundary, then by height; feeders switched off and removed
			Kind: "clean", Names: c16CleanAssets, Denoms: c16Denoms,
			Ops: with(c16Op{Op: "params", Expiry: 10, Life: 1000}, c16Op{Op: "create_info", Sender: 4, Denom: "uatom", Display: "ATOM", Decimal: 6},
				c16Op{Op: "feed", Sender: 0, Feeds: []c16Feed{{"ATOM", "band", "9000000000000000000"}}},
				c16Op{Op: "block", Dt: 5}, c16Op{Op: "feed", Sender: 1, Feeds: []c16Feed{{"ATOM", "elys", "9100000000000000000"}}},
				c16Op{Op: "block", Dt: 5}, c16Op{Op: "block", Dt: 1}, c16Op{Op: "block", Dt: 4}, c16Op{Op: "block", Dt: 1}, c16Op{Op: "block", Dt: 1},
				c16Op{Op: "params", Expiry: 86400, Life: 1},
				c16Op{Op: "feed_multi", Sender: 0, Feeds: []c16Feed{{"ATOM", "cex", "123"}, {"USDC", "elys", one}, {"ATOM", "binance", "77"}}},
				c16Op{Op: "block", Dt: 1}, c16Op{Op: "block", Dt: 1}, c16Op{Op: "block", Dt: 1},
				c16Op{Op: "set_feeder", Sender: 0, Active: false}, c16Op{Op: "feed", Sender: 0, Feeds: []c16Feed{{"ATOM", "elys", one}}},
				c16Op{Op: "set_feeder", Sender: 0, Active: true}, c16Op{Op: "feed", Sender: 0, Feeds: []c16Feed{{"ATOM", "elys", one}}},
				c16Op{Op: "remove_feeders", Addrs: []int{0}}, c16Op{Op: "feed", Sender: 0, Feeds: []c16Feed{{"ATOM", "elys", "5"}}},
				c16Op{Op: "set_feeder", Sender: 0, Active: true}, c16Op{Op: "feed", Sender: 3, Feeds: []c16Feed{{"ATOM", "elys", "5"}}},
				c16Op{Op: "params", Expiry: ^uint64(0), Life: 5}, c16Op{Op: "block", Dt: 1}),
		},
	}
}
