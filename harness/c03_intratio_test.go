package harness

// C03, weighted constant-product pools whose weight ratio is an INTEGER n >= 2 (1:2, 1:3, 1:4, ... in the direction
// in which Pow takes the LegacyDec.Power path): generator and the implementation-side predicates that are exactly the
// conclusions of Props/C03.v C03_weighted_out_integer_ratio (b) and C03_weighted_in_integer_ratio, evaluated with
// big.Int on the amounts the REAL CalcOutAmtGivenIn / CalcInAmtGivenOut returned.

import (
	"fmt"
	"math/big"
)

const (
	c03SigIntRatioOut = "C03:weighted-integer-ratio-out-exceeds-bound"
	c03SigIntRatioIn  = "C03:weighted-integer-ratio-in-below-bound"
)

func c03IntPow(x *big.Int, n int64) *big.Int { return new(big.Int).Exp(x, big.NewInt(n), nil) }

// N = Bi*P + a*(P - fee)
func c03IntRatioN(bi, a, fee *big.Int) *big.Int {
	return new(big.Int).Add(c03Mul(bi, c03Pow18), c03Mul(a, new(big.Int).Sub(c03Pow18, fee)))
}

// C03_weighted_out_integer_ratio (b):
//   2*out*P^2*N^n <= 2*Bo*P^2*(N^n - (Bi*P)^n) + Bo*N^n*((2n-1)*P + 2n)
func c03IntRatioOutHolds(bi, bo, a, fee, out *big.Int, n int64) bool {
	N := c03IntRatioN(bi, a, fee)
	Nn := c03IntPow(N, n)
	An := c03IntPow(c03Mul(bi, c03Pow18), n)
	lhs := c03Mul(big.NewInt(2), out, c03PP, Nn)
	rhs := c03Mul(big.NewInt(2), bo, c03PP, new(big.Int).Sub(Nn, An))
	k := new(big.Int).Add(c03Mul(big.NewInt(2*n-1), c03Pow18), big.NewInt(2*n))
	rhs.Add(rhs, c03Mul(bo, Nn, k))
	return lhs.Cmp(rhs) <= 0
}

// floor of the exact constant-weighted-product amount Bo*(1 - (Bi*P/N)^n)
func c03IntRatioExactFloor(bi, bo, a, fee *big.Int, n int64) *big.Int {
	N := c03IntRatioN(bi, a, fee)
	if N.Sign() <= 0 {
		return big.NewInt(0)
	}
	Nn := c03IntPow(N, n)
	An := c03IntPow(c03Mul(bi, c03Pow18), n)
	x := c03Mul(bo, new(big.Int).Sub(Nn, An))
	return x.Div(x, Nn)
}

// C03_weighted_in_integer_ratio: with R = Bo - o and y = Quo(Bo, R) the theorem gives
//   Bi*((2P - (n-1))*y^n - 2P*P^n) <= 2*in*P*P^n   and   Bo*P^2 < y*P*R + (HALF+1)*R,
// hence y >= ylb := max(P, floor((Bo*P^2 - (HALF+1)*R)/(P*R)) + 1) and (2P-(n-1) > 0, y >= ylb >= 0) the first
// inequality with ylb in place of y. Everything in exact integers; no LegacyDec operation of the implementation is used.
func c03IntRatioInHolds(bi, bo, o, in *big.Int, n int64) bool {
	R := new(big.Int).Sub(bo, o)
	if R.Sign() <= 0 {
		return false // the theorem says 0 < R for every successful call
	}
	num := new(big.Int).Sub(c03Mul(bo, c03PP), c03Mul(c03H1, R))
	ylb := new(big.Int).Div(num, c03Mul(c03Pow18, R)) // floor (num may be negative only if Bo = 0)
	ylb.Add(ylb, big.NewInt(1))
	if ylb.Cmp(c03Pow18) < 0 {
		ylb.Set(c03Pow18)
	}
	Pn := c03IntPow(c03Pow18, n)
	coef := new(big.Int).Sub(c03Mul(big.NewInt(2), c03Pow18), big.NewInt(n-1))
	lhs := new(big.Int).Sub(c03Mul(coef, c03IntPow(ylb, n)), c03Mul(big.NewInt(2), c03Pow18, Pn))
	lhs.Mul(lhs, bi)
	rhs := c03Mul(big.NewInt(2), in, c03Pow18, Pn)
	return lhs.Cmp(rhs) <= 0
}

// called by c03CheckOut for class "weighted" with w_in = n*w_out
func c03IntRatioCheckOut(col *Collector, idx int, c c03Case, bi, bo, a, fee, out *big.Int, n int64) {
	col.ImplCheck(1)
	if !c03IntRatioOutHolds(bi, bo, a, fee, out, n) || out.Sign() <= 0 || out.Cmp(bo) > 0 {
		col.Violate(Violation{Signature: c03SigIntRatioOut, Detail: fmt.Sprintf("out=%s exceeds B_out*(1-(B_in/(B_in+a'))^%d) + B_out*((2n-1)/2+n*1e-18)*1e-18 (theorem C03_weighted_out_integer_ratio), floor(exact)=%s: %+v",
			out, n, c03IntRatioExactFloor(bi, bo, a, fee, n), c), History: idx, Replay: c})
		return
	}
	// statistics only: the ONE-unit allowance is proved for B_out*((2n-1)*1e18+2n) <= 2e36 and refuted above
	// (C03_weighted_integer_one_unit_refuted; same cause and same known finding as the equal-weight case)
	ex := c03IntRatioExactFloor(bi, bo, a, fee, n)
	if out.Cmp(new(big.Int).Add(ex, big.NewInt(1))) > 0 {
		k := new(big.Int).Add(c03Mul(big.NewInt(2*n-1), c03Pow18), big.NewInt(2*n))
		if c03Mul(bo, k).Cmp(c03Mul(big.NewInt(2), c03PP)) <= 0 {
			col.Violate(Violation{Signature: c03SigIntRatioOut, Detail: fmt.Sprintf("out=%s exceeds floor(exact)+1=%s+1 although B_out is below the bound of C03_weighted_out_integer_ratio_one_unit: %+v", out, ex, c), History: idx, Replay: c})
			return
		}
		col.Op("cp_out_intratio_more_than_one_unit_above_exact", "within_proven_slack", bo)
	} else {
		col.Op("cp_out_intratio_within_one_unit", "ok", bo)
	}
}

// called by c03CheckIn for class "weighted" with w_out = n*w_in
func c03IntRatioCheckIn(col *Collector, idx int, c c03Case, bi, bo, o, in *big.Int, n int64) {
	col.ImplCheck(1)
	if !c03IntRatioInHolds(bi, bo, o, in, n) || in.Sign() <= 0 {
		col.Violate(Violation{Signature: c03SigIntRatioIn, Detail: fmt.Sprintf("in=%s below B_in*(z^%d*(1-(n-1)/2e18) - 1), z = B_out/(B_out-o) rounded (theorem C03_weighted_in_integer_ratio): %+v", in, n, c), History: idx, Replay: c})
		return
	}
	col.Op("cp_in_intratio_bound", "ok", bi)
}

// ---------- generator ----------

func c03IntRatioReserve(r *Rng, n int64) *big.Int {
	switch r.Intn(9) {
	case 0:
		return r.Decade(0, 4) // dust
	case 1, 2, 3:
		return r.Decade(6, 18) // mid
	case 4, 5:
		return r.Decade(18, 31) // huge
	case 6:
		// the boundary of the one-unit corollary: floor(2e36 / ((2n-1)e18 + 2n)) and its neighbours
		k := new(big.Int).Add(c03Mul(big.NewInt(2*n-1), c03Pow18), big.NewInt(2*n))
		b := new(big.Int).Div(c03Mul(big.NewInt(2), c03PP), k)
		return b.Add(b, big.NewInt(int64(r.Intn(3))-1))
	case 7:
		return new(big.Int).Exp(big.NewInt(10), big.NewInt(int64(r.Intn(31))), nil)
	default:
		return c03MulRat(big.NewInt(10000000000), r.Pick(1, 3), 1) // the fixture's 10e9 / 30e9
	}
}

func c03GenIntRatio(r *Rng, kind string) c03Case {
	c := c03Case{Kind: kind, InFirst: r.Chance(50)}
	n := r.Pick(2, 3, 4, 3, 2, 4, 3, 5, 8, 10, 100)
	w := r.Pick(1, 1, 5, 25, 1073741824)
	if kind == "out" {
		c.Win, c.Wout = fmt.Sprint(n*w), fmt.Sprint(w)
	} else {
		c.Win, c.Wout = fmt.Sprint(w), fmt.Sprint(n*w)
	}
	bin, bout := c03IntRatioReserve(r, n), c03IntRatioReserve(r, n)
	c.Bin, c.Bout = bin.String(), bout.String()
	c.Fee = c03Fee(r).String()
	if r.Chance(6) {
		c.AccIn = r.Decade(0, 31).String()
	}
	if r.Chance(6) {
		c.AccOut = r.Decade(0, 31).String()
	}
	bi, bo := c.effRes()
	if kind == "out" {
		c.Amt = c03AmtRel(r, bi, false).String()
	} else {
		c.Amt = c03AmtRel(r, bo, true).String()
	}
	return c
}
