package harness

// C03 driver (pure): constructs types.Pool values directly and calls the exported functions of
// x/amm/types (Pow, Pool.CalcOutAmtGivenIn, Pool.CalcInAmtGivenOut, Pool.SwapOutAmtGivenIn,
// Pool.SwapInAmtGivenOut) with two-line mock keepers. It emits
//  (a) Coq cases for the bit-for-bit correspondence with coq/Models/AmmSwap.v (coq/Run/AmmSwapRun.v), and
//  (b) the property's own predicate on the implementation, independent of the model: an exact rational
//      reference (math/big) of the weighted-product formula; any payout above reference + allowance is a
//      violation with a stable signature.

import (
	"errors"
	"fmt"
	"math"
	"math/big"
	"strings"
	"testing"

	sdkmath "cosmossdk.io/math"
	storetypes "cosmossdk.io/store/types"
	sdk "github.com/cosmos/cosmos-sdk/types"

	ammtypes "github.com/elys-network/elys/x/amm/types"
	oracletypes "github.com/elys-network/elys/x/oracle/types"
)

// ---------- mocks ----------

type c03Oracle struct{ prices map[string]sdkmath.LegacyDec }

func (o c03Oracle) GetAssetPrice(ctx sdk.Context, asset string) (oracletypes.Price, bool) {
	return oracletypes.Price{}, false
}
func (o c03Oracle) GetAssetPriceFromDenom(ctx sdk.Context, denom string) sdkmath.LegacyDec {
	if p, ok := o.prices[denom]; ok {
		return p
	}
	return sdkmath.LegacyZeroDec()
}
func (o c03Oracle) GetPriceFeeder(ctx sdk.Context, feeder sdk.AccAddress) (oracletypes.PriceFeeder, bool) {
	return oracletypes.PriceFeeder{}, false
}

type c03Acc struct{ bal map[string]sdkmath.Int }

func (a c03Acc) GetAccountedBalance(ctx sdk.Context, id uint64, denom string) sdkmath.Int {
	if b, ok := a.bal[denom]; ok {
		return b
	}
	return sdkmath.ZeroInt()
}

const (
	c03In  = "uaaa"
	c03Out = "ubbb"
)

// ---------- case description (also the replay format) ----------

type c03Case struct {
	Kind      string `json:"kind"` // pow | out | in | oracle_out | oracle_in
	Bin       string `json:"b_in,omitempty"`
	Bout      string `json:"b_out,omitempty"`
	Win       string `json:"w_in,omitempty"`
	Wout      string `json:"w_out,omitempty"`
	AccIn     string `json:"acc_in,omitempty"`
	AccOut    string `json:"acc_out,omitempty"`
	Oracle    bool   `json:"use_oracle,omitempty"`
	SnapIn    string `json:"snap_in,omitempty"`
	SnapOut   string `json:"snap_out,omitempty"`
	PriceIn   string `json:"price_in,omitempty"`  // raw LegacyDec integer
	PriceOut  string `json:"price_out,omitempty"` // raw LegacyDec integer
	RatioIn   string `json:"ratio_in,omitempty"`  // raw LegacyDec integer (ExternalLiquidityRatio)
	RatioOut  string `json:"ratio_out,omitempty"`
	Amt       string `json:"amount,omitempty"`
	Fee       string `json:"fee,omitempty"` // raw LegacyDec integer
	Base      string `json:"base,omitempty"`
	Exp       string `json:"exp,omitempty"`
	InFirst   bool   `json:"in_asset_first"`
	Treasury  string `json:"treasury,omitempty"`
	GivenBase string `json:"bonus_base,omitempty"`
	AppIdx    int    `json:"app_idx,omitempty"` // kind "app": index of the application history to re-run
	// amm params of the weight-breaking fee (raw LegacyDec integers); "" = the value of c03Params()
	WbMult    string `json:"wb_mult,omitempty"`
	WbExp     string `json:"wb_exp,omitempty"`
	WbPortion string `json:"wb_portion,omitempty"`
	WbThr     string `json:"wb_thr,omitempty"`

	params *ammtypes.Params // amm params of the running application (app driver); nil = c03Params()
}

func (c c03Case) ammParams() ammtypes.Params {
	if c.params != nil {
		return *c.params
	}
	p := c03Params()
	if c.WbMult != "" {
		p.WeightBreakingFeeMultiplier = c03DecS(c.WbMult)
	}
	if c.WbExp != "" {
		p.WeightBreakingFeeExponent = c03DecS(c.WbExp)
	}
	if c.WbPortion != "" {
		p.WeightBreakingFeePortion = c03DecS(c.WbPortion)
	}
	if c.WbThr != "" {
		p.ThresholdWeightDifference = c03DecS(c.WbThr)
	}
	return p
}

func c03BigS(s string) *big.Int {
	if s == "" {
		return big.NewInt(0)
	}
	x, ok := new(big.Int).SetString(s, 10)
	if !ok {
		panic("bad integer " + s)
	}
	return x
}
func c03IntS(s string) sdkmath.Int       { return sdkmath.NewIntFromBigInt(c03BigS(s)) }
func c03DecS(s string) sdkmath.LegacyDec { return rawDec(c03BigS(s)) }

var c03Pow18 = new(big.Int).Exp(big.NewInt(10), big.NewInt(18), nil)

func c03Ctx() sdk.Context {
	return sdk.Context{}.WithGasMeter(storetypes.NewInfiniteGasMeter())
}

func (c c03Case) pools() (ammtypes.Pool, ammtypes.Pool, c03Oracle, c03Acc) {
	mk := func(bi, bo *big.Int) ammtypes.Pool {
		ain := ammtypes.PoolAsset{Token: sdk.Coin{Denom: c03In, Amount: sdkmath.NewIntFromBigInt(bi)}, Weight: c03IntS(c.Win), ExternalLiquidityRatio: c03DecS(c03OrS(c.RatioIn, c03Pow18.String()))}
		aout := ammtypes.PoolAsset{Token: sdk.Coin{Denom: c03Out, Amount: sdkmath.NewIntFromBigInt(bo)}, Weight: c03IntS(c.Wout), ExternalLiquidityRatio: c03DecS(c03OrS(c.RatioOut, c03Pow18.String()))}
		assets := []ammtypes.PoolAsset{ain, aout}
		if !c.InFirst {
			assets = []ammtypes.PoolAsset{aout, ain}
		}
		return ammtypes.Pool{PoolId: 1, PoolParams: ammtypes.PoolParams{SwapFee: c03DecS(c.Fee), UseOracle: c.Oracle, FeeDenom: c03In},
			TotalShares: sdk.Coin{Denom: "amm/pool/1", Amount: sdkmath.NewInt(1000000)}, PoolAssets: assets,
			TotalWeight: c03IntS(c.Win).Add(c03IntS(c.Wout))}
	}
	pool := mk(c03BigS(c.Bin), c03BigS(c.Bout))
	snap := mk(c03BigS(c03OrS(c.SnapIn, c.Bin)), c03BigS(c03OrS(c.SnapOut, c.Bout)))
	or := c03Oracle{prices: map[string]sdkmath.LegacyDec{}}
	if c.Oracle {
		or.prices[c03In] = c03DecS(c.PriceIn)
		or.prices[c03Out] = c03DecS(c.PriceOut)
	}
	acc := c03Acc{bal: map[string]sdkmath.Int{}}
	if c03BigS(c.AccIn).Sign() != 0 {
		acc.bal[c03In] = c03IntS(c.AccIn)
	}
	if c03BigS(c.AccOut).Sign() != 0 {
		acc.bal[c03Out] = c03IntS(c.AccOut)
	}
	return pool, snap, or, acc
}

func c03OrS(a, b string) string {
	if a == "" {
		return b
	}
	return a
}

// Coq argument list of the pool record (11 fields, see Run/AmmSwapRun.v mk_pool)
func (c c03Case) poolArgs() []string {
	uo := "0"
	if c.Oracle {
		uo = "1"
	}
	return []string{c03Zs(c.Bin), c03Zs(c.Bout), c03Zs(c.Win), c03Zs(c.Wout), c03Zs(c.AccIn), c03Zs(c.AccOut), uo,
		c03Zs(c03OrS(c.SnapIn, c.Bin)), c03Zs(c03OrS(c.SnapOut, c.Bout)), c03Zs(c.PriceIn), c03Zs(c.PriceOut)}
}

func c03Zs(s string) string { return zstr(c03BigS(s)) }

// result triple (code, v1, v2)
type c03Res struct {
	Code   int
	V1, V2 *big.Int
}

func (r c03Res) coq() string { return fmt.Sprintf("(%d,%s,%s)", r.Code, zstr(r.V1), zstr(r.V2)) }
func (r c03Res) kind() string {
	switch {
	case r.Code == 0:
		return "ok"
	case r.Code == 200:
		return "panic"
	default:
		return fmt.Sprintf("err%d", r.Code-100)
	}
}

func c03ErrCode(err error) int {
	switch {
	case errors.Is(err, ammtypes.ErrAmountTooLow):
		return 101
	case errors.Is(err, ammtypes.ErrTokenOutAmountZero):
		return 102
	case errors.Is(err, ammtypes.ErrInvalidMathApprox):
		return 103
	case errors.Is(err, ammtypes.ErrTooMuchSwapFee):
		return 104
	default:
		return 105
	}
}

func c03Guard(f func() c03Res) (r c03Res) {
	defer func() {
		if rec := recover(); rec != nil {
			r = c03Res{200, big.NewInt(0), big.NewInt(0)}
		}
	}()
	return f()
}

func c03Pow(base, exp *big.Int) c03Res {
	return c03Guard(func() c03Res {
		v := ammtypes.Pow(rawDec(base), rawDec(exp))
		return c03Res{0, v.BigInt(), big.NewInt(0)}
	})
}

func (c c03Case) calcOut() c03Res {
	pool, snap, or, acc := c.pools()
	return c03Guard(func() c03Res {
		coin, slip, err := pool.CalcOutAmtGivenIn(c03Ctx(), or, &snap, sdk.Coins{sdk.Coin{Denom: c03In, Amount: c03IntS(c.Amt)}}, c03Out, c03DecS(c.Fee), acc)
		if err != nil {
			return c03Res{c03ErrCode(err), big.NewInt(0), big.NewInt(0)}
		}
		return c03Res{0, coin.Amount.BigInt(), slip.BigInt()}
	})
}

func (c c03Case) calcIn() c03Res {
	pool, snap, or, acc := c.pools()
	return c03Guard(func() c03Res {
		coin, slip, err := pool.CalcInAmtGivenOut(c03Ctx(), or, &snap, sdk.Coins{sdk.Coin{Denom: c03Out, Amount: c03IntS(c.Amt)}}, c03In, c03DecS(c.Fee), acc)
		if err != nil {
			return c03Res{c03ErrCode(err), big.NewInt(0), big.NewInt(0)}
		}
		return c03Res{0, coin.Amount.BigInt(), slip.BigInt()}
	})
}

func c03Params() ammtypes.Params {
	return ammtypes.Params{
		PoolCreationFee:             sdkmath.NewInt(0),
		WeightBreakingFeeExponent:   sdkmath.LegacyMustNewDecFromStr("2.5"),
		WeightBreakingFeeMultiplier: sdkmath.LegacyMustNewDecFromStr("0.0005"),
		WeightBreakingFeePortion:    sdkmath.LegacyMustNewDecFromStr("0.5"),
		WeightRecoveryFeePortion:    sdkmath.LegacyMustNewDecFromStr("0.1"),
		ThresholdWeightDifference:   sdkmath.LegacyMustNewDecFromStr("0.3"),
	}
}

// oracle swap: returns amount, slippageAmount, weightBalanceBonus, oracleAmount
type c03OracleRes struct {
	R                       c03Res
	SlipAmt, Bonus, OracAmt *big.Int
}

func (c c03Case) swapOracle(givenOut bool) (o c03OracleRes) {
	pool, snap, or, acc := c.pools()
	defer func() {
		if rec := recover(); rec != nil {
			o = c03OracleRes{R: c03Res{200, big.NewInt(0), big.NewInt(0)}}
		}
	}()
	one := sdkmath.LegacyOneDec()
	if givenOut {
		coin, _, sa, bonus, oa, err := pool.SwapInAmtGivenOut(c03Ctx(), or, &snap, sdk.Coins{sdk.Coin{Denom: c03Out, Amount: c03IntS(c.Amt)}}, c03In, c03DecS(c.Fee), acc, one, c.ammParams())
		if err != nil {
			return c03OracleRes{R: c03Res{c03ErrCode(err), big.NewInt(0), big.NewInt(0)}}
		}
		return c03OracleRes{R: c03Res{0, coin.Amount.BigInt(), oa.BigInt()}, SlipAmt: sa.BigInt(), Bonus: bonus.BigInt(), OracAmt: oa.BigInt()}
	}
	coin, _, sa, bonus, oa, err := pool.SwapOutAmtGivenIn(c03Ctx(), or, &snap, sdk.Coins{sdk.Coin{Denom: c03In, Amount: c03IntS(c.Amt)}}, c03Out, c03DecS(c.Fee), acc, one, c.ammParams())
	if err != nil {
		return c03OracleRes{R: c03Res{c03ErrCode(err), big.NewInt(0), big.NewInt(0)}}
	}
	return c03OracleRes{R: c03Res{0, coin.Amount.BigInt(), oa.BigInt()}, SlipAmt: sa.BigInt(), Bonus: bonus.BigInt(), OracAmt: oa.BigInt()}
}

// ---------- exact rational reference (independent of the Coq model) ----------

func c03RatI(x *big.Int) *big.Rat { return new(big.Rat).SetInt(x) }

func c03RatPow(x *big.Rat, n int64) *big.Rat {
	num := new(big.Int).Exp(x.Num(), big.NewInt(n), nil)
	den := new(big.Int).Exp(x.Denom(), big.NewInt(n), nil)
	return new(big.Rat).SetFrac(num, den)
}

func c03Gcd64(a, b int64) int64 {
	for b != 0 {
		a, b = b, a%b
	}
	return a
}

func c03CeilDiv(a, b *big.Int) *big.Int {
	q, m := new(big.Int).DivMod(a, b, new(big.Int))
	if m.Sign() > 0 {
		q.Add(q, big.NewInt(1))
	}
	return q
}

// c03ProvenSlackOut is the slack of theorem C03_cp_equal_weight_out: 1 + ceil(B_out / (2*10^18)).
func c03ProvenSlackOut(bout *big.Int) *big.Int {
	s := c03CeilDiv(bout, new(big.Int).Mul(big.NewInt(2), c03Pow18))
	return s.Add(s, big.NewInt(1))
}

// c03ExactOutLess reports whether the exact weighted-product output B_out * (1 - y^(p/q)), y = B_in/(B_in + a(1-fee)),
// is strictly less than the rational t, by comparing y^p with (1 - t/B_out)^q (all exact, math/big).
func c03ExactOutLess(bin, bout, a, fee *big.Int, p, q int64, t *big.Rat) bool {
	return c03ExactOutLessDiv(bin, bout, a, fee, p, q, t, big.NewRat(1, 1))
}

// ... with the right-hand base divided by div: y^(p/q) > (1 - t/B_out)/div
func c03ExactOutLessDiv(bin, bout, a, fee *big.Int, p, q int64, t *big.Rat, div *big.Rat) bool {
	if t.Sign() <= 0 {
		return false
	}
	if t.Cmp(c03RatI(bout)) > 0 {
		return true
	}
	aEff := new(big.Rat).Mul(c03RatI(a), new(big.Rat).SetFrac(new(big.Int).Sub(c03Pow18, fee), c03Pow18))
	den := new(big.Rat).Add(c03RatI(bin), aEff)
	if den.Sign() == 0 {
		return true
	}
	y := new(big.Rat).Quo(c03RatI(bin), den)
	s := new(big.Rat).Sub(big.NewRat(1, 1), new(big.Rat).Quo(t, c03RatI(bout)))
	s.Quo(s, div)
	return c03RatPow(y, p).Cmp(c03RatPow(s, q)) > 0 // y^(p/q) > 1 - t/B_out  <=>  exact < t
}

// c03ExactInGreater reports whether the exact input B_in * (z^(q/p) - 1) / (1-fee), z = B_out/(B_out-o), is strictly
// greater than the rational t (p/q = w_in/w_out reduced).
func c03ExactInGreater(bin, bout, o, fee *big.Int, p, q int64, t *big.Rat) bool {
	return c03ExactInGreaterDiv(bin, bout, o, fee, p, q, t, big.NewRat(1, 1))
}

func c03ExactInGreaterDiv(bin, bout, o, fee *big.Int, p, q int64, t *big.Rat, div *big.Rat) bool {
	rem := new(big.Int).Sub(bout, o)
	if rem.Sign() <= 0 {
		return true // the whole reserve (or more) can never be bought
	}
	if bin.Sign() == 0 {
		return false
	}
	tA := new(big.Rat).Mul(t, new(big.Rat).SetFrac(new(big.Int).Sub(c03Pow18, fee), c03Pow18))
	u := new(big.Rat).Add(new(big.Rat).Quo(tA, c03RatI(bin)), big.NewRat(1, 1))
	if u.Sign() <= 0 {
		return true
	}
	u.Quo(u, div)
	z := new(big.Rat).SetFrac(bout, rem)
	return c03RatPow(z, q).Cmp(c03RatPow(u, p)) > 0 // z^(q/p) > u
}

// compatibility wrappers: absolute allowance
func c03OutExceeds(bin, bout, a, fee *big.Int, p, q int64, out, allow *big.Int) bool {
	return c03ExactOutLess(bin, bout, a, fee, p, q, c03RatI(new(big.Int).Sub(out, allow)))
}
func c03InBelow(bin, bout, o, fee *big.Int, p, q int64, in, allow *big.Int) bool {
	return c03ExactInGreater(bin, bout, o, fee, p, q, c03RatI(new(big.Int).Add(in, allow)))
}

var c03Eps = big.NewRat(1, 100000000) // 1e-8: the documented relative precision of the power approximation


// ---------- cost estimate (series iterations) of evaluating a case in Coq's VM (~2 ms per iteration) ----------
// Deterministic; only decides which cases are ALSO replayed by the Coq model in this tier. Every generated case is
// run on the Go code and checked by the implementation-side predicate regardless of its cost.

func c03SeriesLen(absY float64) float64 {
	if absY <= 0 {
		return 1
	}
	if absY >= 1 {
		return 150001
	}
	n := 18.5 / -math.Log(absY)
	if n > 150001 {
		n = 150001
	}
	return n + 1
}

func c03PowCost(baseRaw, expRaw *big.Int) float64 {
	if baseRaw.Sign() <= 0 || expRaw.Sign() < 0 {
		return 1
	}
	frac := new(big.Int).Rem(expRaw, c03Pow18)
	cost := 8.0
	if frac.Sign() == 0 {
		return cost
	}
	if frac.Cmp(c03MulRat(c03Pow18, 1, 2)) == 0 {
		return cost + 40 + float64(baseRaw.BitLen()) // Newton iterations
	}
	b := new(big.Float).SetPrec(300).SetInt(baseRaw)
	b.Quo(b, new(big.Float).SetPrec(300).SetInt(c03Pow18))
	one, two, half := big.NewFloat(1), big.NewFloat(2), big.NewFloat(0.5)
	if b.Cmp(half) >= 0 && b.Cmp(two) < 0 {
		x, _ := new(big.Float).Sub(b, one).Float64()
		return cost + c03SeriesLen(math.Abs(x))
	}
	k := 0.0
	for b.Cmp(two) > 0 {
		b.Quo(b, two)
		k++
	}
	for b.Cmp(half) < 0 {
		b.Mul(b, two)
		k++
	}
	y, _ := new(big.Float).Sub(b, one).Float64()
	return cost + k + c03SeriesLen(math.Abs(y)) + 40
}

func (c c03Case) cost(exactOut bool) (cost float64) {
	defer func() {
		if recover() != nil {
			cost = 1
		}
	}()
	bi, bo := c.effRes()
	var wi, wo sdkmath.LegacyDec
	if c.Oracle {
		wi = sdkmath.NewIntFromBigInt(c03BigS(c03OrS(c.SnapIn, c.Bin))).ToLegacyDec().Mul(c03DecS(c.PriceIn))
		wo = sdkmath.NewIntFromBigInt(c03BigS(c03OrS(c.SnapOut, c.Bout))).ToLegacyDec().Mul(c03DecS(c.PriceOut))
		tot := wi.Add(wo)
		wi, wo = wi.Quo(tot), wo.Quo(tot)
	} else {
		wi, wo = c03IntS(c.Win).ToLegacyDec(), c03IntS(c.Wout).ToLegacyDec()
	}
	dbi, dbo := sdkmath.NewIntFromBigInt(bi).ToLegacyDec(), sdkmath.NewIntFromBigInt(bo).ToLegacyDec()
	if exactOut {
		after := dbo.Sub(c03IntS(c.Amt).ToLegacyDec())
		if !after.IsPositive() {
			return 1
		}
		return c03PowCost(dbo.Quo(after).BigInt(), wo.Quo(wi).BigInt())
	}
	aEff := c03IntS(c.Amt).ToLegacyDec().Mul(sdkmath.LegacyOneDec().Sub(c03DecS(c.Fee)))
	return c03PowCost(dbi.Quo(dbi.Add(aEff)).BigInt(), wi.Quo(wo).BigInt())
}

// ---------- generators ----------

func c03Fee(r *Rng) *big.Int {
	switch r.Intn(12) {
	case 0, 1, 2:
		return big.NewInt(0)
	case 3:
		return big.NewInt(1000000000000000) // 0.1 %
	case 4:
		return big.NewInt(3000000000000000) // 0.3 %
	case 5:
		return big.NewInt(10000000000000000) // 1 %
	case 6:
		return big.NewInt(20000000000000000) // 2 %
	case 7:
		return big.NewInt(1) // one ulp
	default:
		return r.Big(big.NewInt(20000000000000001))
	}
}

// weights: returns (w_in, w_out, class)
func c03Weights(r *Rng, forceEqual bool) (int64, int64, string) {
	if forceEqual {
		w := r.Pick(1, 1, 50, 100, 7, 1073741824)
		return w, w, "equal"
	}
	switch r.Intn(8) {
	case 0:
		return r.Pick(2, 4, 6, 80, 100), 1, "int" // integer ratio (Power path), incl 100:1
	case 1:
		w := r.Pick(1, 5, 20, 25)
		return w * r.Pick(2, 3, 4), w, "int"
	case 2:
		w := r.Pick(1, 10, 33)
		return w, 2 * w, "half" // ratio 0.5: ApproxSqrt
	case 3:
		w := r.Pick(1, 10, 20)
		return 3 * w, 2 * w, "half" // 1.5
	case 4:
		return r.Pick(20, 25, 1), r.Pick(80, 75, 100), "frac" // 0.25, 1/3, 0.01
	default:
		a, b := int64(1+r.Intn(100)), int64(1+r.Intn(100))
		if a == b {
			return a, b, "equal"
		}
		g := c03Gcd64(a, b)
		switch {
		case (a/g)%(b/g) == 0:
			return a, b, "int"
		case 2*(a%b) == b:
			return a, b, "half"
		}
		return a, b, "frac"
	}
}

func c03MulRat(x *big.Int, num, den int64) *big.Int {
	y := new(big.Int).Mul(x, big.NewInt(num))
	return y.Quo(y, big.NewInt(den))
}

// amount relative to a reserve
func c03AmtRel(r *Rng, res *big.Int, exactOut bool) *big.Int {
	one := big.NewInt(1)
	switch r.Intn(16) {
	case 0:
		return big.NewInt(1)
	case 1:
		return r.Decade(0, 4) // dust
	case 2:
		return c03MulRat(res, 1, 1000000)
	case 3:
		return c03MulRat(res, 1, 100)
	case 4:
		return c03MulRat(res, 1, 3)
	case 5:
		return c03MulRat(res, 1, 2) // exact-out: z = 2 boundary of the maclaurin range
	case 6:
		return new(big.Int).Sub(res, one)
	case 7:
		if exactOut {
			return new(big.Int).Set(res) // whole reserve
		}
		return new(big.Int).Set(res)
	case 8:
		if exactOut {
			return new(big.Int).Add(res, one)
		}
		return c03MulRat(res, 10, 1)
	case 9:
		if exactOut {
			return c03MulRat(res, 999, 1000)
		}
		return c03MulRat(res, 1000, 1)
	case 10:
		return big.NewInt(0)
	case 11:
		return c03MulRat(res, 2, 3)
	default:
		// uniform fraction per decade of the reserve
		d := r.Decade(0, 9) // 1 .. 1e9
		x := new(big.Int).Mul(res, d)
		x.Quo(x, big.NewInt(1000000000))
		if x.Sign() == 0 {
			x.SetInt64(1)
		}
		return x
	}
}

func c03Reserve(r *Rng) *big.Int {
	switch r.Intn(20) {
	case 0:
		return big.NewInt(0)
	case 1:
		return big.NewInt(1)
	case 2:
		return new(big.Int).Exp(big.NewInt(10), big.NewInt(int64(r.Intn(31))), nil)
	default:
		return r.Decade(0, 31)
	}
}

func c03GenCP(r *Rng, kind string, forceEqual bool) c03Case {
	c := c03Case{Kind: kind, InFirst: r.Chance(50)}
	bin, bout := c03Reserve(r), c03Reserve(r)
	if r.Chance(15) {
		bout = new(big.Int).Set(bin)
	}
	wi, wo, _ := c03Weights(r, forceEqual)
	c.Bin, c.Bout, c.Win, c.Wout = bin.String(), bout.String(), fmt.Sprint(wi), fmt.Sprint(wo)
	fee := c03Fee(r)
	if r.Chance(2) {
		fee = new(big.Int).Add(c03Pow18, big.NewInt(int64(r.Intn(2)))) // fee >= 1 (invalid)
	}
	c.Fee = fee.String()
	if r.Chance(8) {
		c.AccIn = r.Decade(0, 31).String()
	}
	if r.Chance(8) {
		c.AccOut = r.Decade(0, 31).String()
	}
	if kind == "out" {
		eb := bin
		if c.AccIn != "" {
			eb = c03BigS(c.AccIn)
		}
		c.Amt = c03AmtRel(r, eb, false).String()
	} else {
		eb := bout
		if c.AccOut != "" {
			eb = c03BigS(c.AccOut)
		}
		c.Amt = c03AmtRel(r, eb, true).String()
	}
	return c
}

func c03Price(r *Rng) *big.Int { // raw dec: 1e-6 .. 1e6, sometimes "round"
	if r.Chance(30) {
		return new(big.Int).Exp(big.NewInt(10), big.NewInt(int64(12+r.Intn(13))), nil)
	}
	return r.Decade(12, 25)
}

func c03GenOracle(r *Rng, kind string) c03Case {
	c := c03Case{Kind: kind, InFirst: r.Chance(50), Oracle: true}
	pin, pout := c03Price(r), c03Price(r)
	// reserves such that the pool is roughly balanced in value, or deliberately imbalanced
	bin := r.Decade(3, 28)
	v := new(big.Int).Mul(bin, pin)
	bout := v.Quo(v, pout)
	switch r.Intn(5) {
	case 0:
		bout = c03MulRat(bout, 3, 1)
	case 1:
		bout = c03MulRat(bout, 1, 4)
	case 2:
		bout = c03MulRat(bout, 100+int64(r.Intn(5)), 100)
	}
	if bout.Sign() == 0 {
		bout = big.NewInt(1 + int64(r.Intn(5)))
	}
	c.Bin, c.Bout = bin.String(), bout.String()
	w := r.Pick(1, 50, 1073741824)
	c.Win, c.Wout = fmt.Sprint(w), fmt.Sprint(w)
	if r.Chance(20) {
		c.Win, c.Wout = fmt.Sprint(r.Pick(40, 60, 80)), fmt.Sprint(r.Pick(60, 40, 20))
	}
	c.PriceIn, c.PriceOut = pin.String(), pout.String()
	if r.Chance(3) {
		c.PriceIn = "0"
	}
	if r.Chance(3) {
		c.PriceOut = "0"
	}
	ratio := func() string {
		switch r.Intn(6) {
		case 0, 1:
			return c03Pow18.String()
		case 2:
			return c03MulRat(c03Pow18, 3, 2).String()
		case 3:
			return c03MulRat(c03Pow18, 10, 1).String()
		case 4:
			return c03MulRat(c03Pow18, 100, 1).String()
		default:
			return new(big.Int).Add(c03Pow18, r.Big(c03MulRat(c03Pow18, 50, 1))).String()
		}
	}
	c.RatioIn, c.RatioOut = ratio(), ratio()
	if r.Chance(2) {
		c.RatioOut = "0"
	}
	if r.Chance(40) { // snapshot differs from the live pool (earlier swaps in the same block)
		c.SnapIn = c03MulRat(bin, 95+int64(r.Intn(11)), 100).String()
		c.SnapOut = c03MulRat(bout, 95+int64(r.Intn(11)), 100).String()
	}
	if r.Chance(15) {
		c.AccIn = c03MulRat(bin, 100+int64(r.Intn(30)), 100).String()
		c.AccOut = c03MulRat(bout, 100+int64(r.Intn(30)), 100).String()
	}
	c.Fee = c03Fee(r).String()
	if kind == "oracle_out" || kind == "out" {
		c.Amt = c03AmtRel(r, bin, false).String()
	} else {
		c.Amt = c03AmtRel(r, bout, true).String()
	}
	return c
}

// ---------- the one-unit witness of theorem C03_one_unit_refuted (Props/C03.v) ----------

func c03Witness() c03Case {
	return c03Case{Kind: "out", InFirst: true, Bin: "3000000000000000000000", Bout: "3000000000000000000000", Win: "1", Wout: "1",
		Fee: "0", Amt: "1000000000000000000"}
}

const (
	// the stated one-base-unit allowance is exceeded because y = B/(B+-a) is rounded to 10^-18 and multiplied by a reserve
	// above 10^18 base units (theorems C03_one_unit_refuted / C03_one_unit_in_refuted / C03_round_trip_gain_refuted)
	c03SigOneUnit = "C03:one-unit-exceeded:reserve-above-1e18"
	// the same for a reserve of at most 10^18: excluded by C03_cp_out_one_unit_below_2e18 / C03_cp_in_one_unit_below_bound
	c03SigOneUnitSmall = "C03:one-unit-exceeded:reserve-at-most-1e18"
	c03SigSlackOut  = "C03:cp-out-exceeds-proven-slack"
	c03SigSlackIn   = "C03:cp-in-below-proven-slack"
	c03SigPowOut    = "C03:weighted-out-exceeds-1e-8-power-precision"
	c03SigPowIn     = "C03:weighted-in-below-1e-8-power-precision"
	c03SigOracleOut = "C03:oracle-value-out-exceeds-value-in"
	c03SigOracleIn  = "C03:oracle-value-in-below-value-out"
	c03SigRound     = "C03:round-trip-gain"
	c03SigSplit     = "C03:split-trade-gain"
	c03SigBonus     = "C03:bonus-exceeds-treasury-or-not-from-treasury"
)

func c03OneUnitSig(reserve *big.Int) string {
	if reserve.Cmp(c03Pow18) > 0 {
		return c03SigOneUnit
	}
	return c03SigOneUnitSmall
}

func c03Class(c c03Case) (p, q int64, class string) {
	wi, wo := c03BigS(c.Win).Int64(), c03BigS(c.Wout).Int64()
	if wi <= 0 || wo <= 0 {
		return 1, 1, "invalid"
	}
	g := c03Gcd64(wi, wo)
	p, q = wi/g, wo/g
	switch {
	case p == q:
		class = "equal"
	default:
		class = "weighted"
	}
	return
}

// effective reserves (accounted balance overrides)
func (c c03Case) effRes() (*big.Int, *big.Int) {
	bi, bo := c03BigS(c.Bin), c03BigS(c.Bout)
	if c03BigS(c.AccIn).Sign() > 0 {
		bi = c03BigS(c.AccIn)
	}
	if c03BigS(c.AccOut).Sign() > 0 {
		bo = c03BigS(c.AccOut)
	}
	return bi, bo
}

func c03Mul(xs ...*big.Int) *big.Int {
	r := big.NewInt(1)
	for _, x := range xs {
		r.Mul(r, x)
	}
	return r
}

var c03H = new(big.Int).Quo(c03Pow18, big.NewInt(2))
var c03H1 = new(big.Int).Add(c03H, big.NewInt(1))
var c03PP = new(big.Int).Mul(c03Pow18, c03Pow18)

// Ub of Proofs/AmmSwapProofs2.v: out*P^2*(Bi*P + x) <= Bo*P^2*x + Bo*(Bi*P + x)*(HALF+1), x = a*(P - fee)
func c03UbHolds(bi, bo, a, fee, out *big.Int) bool {
	x := c03Mul(a, new(big.Int).Sub(c03Pow18, fee))
	n := new(big.Int).Add(c03Mul(bi, c03Pow18), x)
	lhs := c03Mul(out, c03PP, n)
	rhs := new(big.Int).Add(c03Mul(bo, c03PP, x), c03Mul(bo, n, c03H1))
	return lhs.Cmp(rhs) <= 0
}

// calc_in_equal_lower: Bi*o*P^3 < in*P^2*(P-fee)*R + Bi*R*P*(1+HALF) + R*(P-fee)*(1+HALF), R = Bo - o
func c03InLowerHolds(bi, bo, o, fee, in *big.Int) bool {
	r := new(big.Int).Sub(bo, o)
	f := new(big.Int).Sub(c03Pow18, fee)
	lhs := c03Mul(bi, o, c03PP, c03Pow18)
	rhs := c03Mul(in, c03PP, f, r)
	rhs.Add(rhs, c03Mul(bi, r, c03Pow18, c03H1))
	rhs.Add(rhs, c03Mul(r, f, c03H1))
	return lhs.Cmp(rhs) < 0
}

// implementation-side predicate for a successful constant-product CalcOutAmtGivenIn
func c03CheckOut(col *Collector, idx int, c c03Case, out *big.Int) {
	bi, bo := c.effRes()
	p, q, class := c03Class(c)
	if class == "invalid" || c03BigS(c.Fee).Cmp(c03Pow18) >= 0 {
		return
	}
	col.ImplCheck(1)
	a, fee := c03BigS(c.Amt), c03BigS(c.Fee)
	if class == "equal" {
		if !c03UbHolds(bi, bo, a, fee, out) {
			col.Violate(Violation{Signature: c03SigSlackOut, Detail: fmt.Sprintf("out=%s exceeds the bound of theorem C03_cp_equal_weight_out_bounds: %+v", out, c), History: idx, Replay: c})
		} else if c03OutExceeds(bi, bo, a, fee, 1, 1, out, big.NewInt(1)) {
			col.Violate(Violation{Signature: c03OneUnitSig(bo), Detail: fmt.Sprintf("out=%s exceeds floor-exact + 1 base unit (B_out=%s): %+v", out, bo, c), History: idx, Replay: c})
		}
		return
	}
	if q == 1 && c03BigS(c.Amt).Sign() >= 0 { // integer weight ratio w_in = p*w_out: theorem C03_weighted_out_integer_ratio
		c03IntRatioCheckOut(col, idx, c, bi, bo, a, fee, out, p)
	}
	// unequal weights: one unit + 1e-8 relative precision of the power
	// violation iff out > exact*(1+1e-8) + 1  <=>  exact < (out-1)/(1+1e-8)
	// (sharp) out <= exact*(1+1e-8) + 1, i.e. 1e-8 of the OUTPUT; where that fails the property's literal allowance decides:
	// 1e-8 relative precision of the POWER: out <= B_out*(1 - y^r*(1-1e-8)) + 1
	t := new(big.Rat).Quo(c03RatI(new(big.Int).Sub(out, big.NewInt(1))), new(big.Rat).Add(big.NewRat(1, 1), c03Eps))
	if c03ExactOutLess(bi, bo, a, fee, p, q, t) {
		om := new(big.Rat).Sub(big.NewRat(1, 1), c03Eps)
		if out.Cmp(new(big.Int).Add(bo, big.NewInt(1))) > 0 || c03ExactOutLessDiv(bi, bo, a, fee, p, q, c03RatI(new(big.Int).Sub(out, big.NewInt(1))), om) {
			col.Violate(Violation{Signature: c03SigPowOut, Detail: fmt.Sprintf("out=%s exceeds B_out*(1 - y^r*(1-1e-8)) + 1: %+v", out, c), History: idx, Replay: c})
		} else {
			col.Op("cp_out_weighted_more_than_1e-8_of_output_above_exact", "within_power_precision", bo)
		}
	}
}

func c03CheckIn(col *Collector, idx int, c c03Case, in *big.Int) {
	bi, bo := c.effRes()
	p, q, class := c03Class(c)
	if class == "invalid" || c03BigS(c.Fee).Cmp(c03Pow18) >= 0 {
		return
	}
	col.ImplCheck(1)
	o, fee := c03BigS(c.Amt), c03BigS(c.Fee)
	if class == "equal" {
		if !c03InLowerHolds(bi, bo, o, fee, in) {
			col.Violate(Violation{Signature: c03SigSlackIn, Detail: fmt.Sprintf("in=%s below the bound of theorem C03_cp_equal_weight_in: %+v", in, c), History: idx, Replay: c})
		} else if c03InBelow(bi, bo, o, fee, 1, 1, in, big.NewInt(1)) {
			col.Violate(Violation{Signature: c03OneUnitSig(bi), Detail: fmt.Sprintf("in=%s is more than one base unit below the exact amount (B_in=%s): %+v", in, bi, c), History: idx, Replay: c})
		}
		return
	}
	if p == 1 && o.Sign() >= 0 { // integer weight ratio w_out = q*w_in: theorem C03_weighted_in_integer_ratio
		c03IntRatioCheckIn(col, idx, c, bi, bo, o, in, q)
	}
	// violation iff in < exact*(1-1e-8) - 1  <=>  exact > (in+1)/(1-1e-8)
	t := new(big.Rat).Quo(c03RatI(new(big.Int).Add(in, big.NewInt(1))), new(big.Rat).Sub(big.NewRat(1, 1), c03Eps))
	if c03ExactInGreater(bi, bo, o, fee, p, q, t) {
		// the property's literal allowance: in >= B_in*(z^r*(1-1e-8) - 1)/(1-fee) - 1
		om := new(big.Rat).Sub(big.NewRat(1, 1), c03Eps)
		if c03ExactInGreaterDiv(bi, bo, o, fee, p, q, c03RatI(new(big.Int).Add(in, big.NewInt(1))), om) {
			col.Violate(Violation{Signature: c03SigPowIn, Detail: fmt.Sprintf("in=%s below B_in*(z^r*(1-1e-8) - 1)/(1-fee) - 1: %+v", in, c), History: idx, Replay: c})
		} else {
			col.Op("cp_in_weighted_more_than_1e-8_of_input_below_exact", "within_power_precision", bi)
		}
	}
}

// proven slack of C03_cp_equal_weight_in: 2 + ceil(B_in/(10^18 (1-fee)))  (see Props/C03.v)
func c03ProvenSlackIn(bin, bout, o, fee *big.Int) *big.Int {
	omf := new(big.Int).Sub(c03Pow18, fee)
	s := c03CeilDiv(bin, omf)
	return s.Add(s, big.NewInt(2))
}

// ---------- the test ----------

func TestC03(t *testing.T) {
	seed := envInt("VERIF_SEED", 1)
	col := NewCollector("C03", seed)
	scale := 1
	if tier() == "thorough" {
		scale = 15
	}
	var one c03Case
	if loadReplay(&one) {
		if one.Kind == "app" {
			fmt.Printf("replay of application history %d (seed %d)\n", one.AppIdx, seed)
			c03AppHistory(t, col, seed, one.AppIdx, true)
			return
		}
		c03Replay(t, one)
		return
	}
	idx := 0
	// Coq-evaluation budget in series iterations (see c03PowCost): per case and in total
	perCase, total := 1200.0, 45000.0
	if tier() == "thorough" {
		perCase, total = 12000.0, 1200000.0
	}
	used, skipped, maxCost := 0.0, 0, 0.0
	emit := func(kind int, args []string, r c03Res, cost float64) {
		if cost > perCase || used+cost > total {
			skipped++
			return
		}
		used += cost
		if cost > maxCost {
			maxCost = cost
		}
		col.Case(idx, fmt.Sprintf("(%d,%d,[%s],%s)", idx, kind, strings.Join(args, ";"), r.coq()))
		idx++
	}

	// 0. the witness of C03_one_unit_refuted, replayed on the real function in every run
	{
		w := c03Witness()
		r := w.calcOut()
		emit(1, append(w.poolArgs(), c03Zs(w.Amt), c03Zs(w.Fee)), r, 1)
		col.Op("witness_out", r.kind(), c03BigS(w.Amt))
		if r.Code == 0 {
			c03CheckOut(col, idx-1, w, r.V1)
		}
		col.Extra("one_unit_witness", map[string]string{"b_in": w.Bin, "b_out": w.Bout, "a": w.Amt, "go_out": r.V1.String(),
			"floor_exact": "999666777740753082", "excess_units": new(big.Int).Sub(r.V1, c03BigS("999666777740753082")).String()})
	}

	// 1. Pow directly: bases around the branch boundaries, exponents of every class
	rp := NewRng(uint64(seed), 301)
	nPow := 220 * scale
	for i := 0; i < nPow; i++ {
		var base *big.Int
		switch rp.Intn(10) {
		case 0:
			base = new(big.Int).Set(c03Pow18)
		case 1:
			base = c03MulRat(c03Pow18, 1, 2)
		case 2:
			base = new(big.Int).Sub(c03MulRat(c03Pow18, 1, 2), big.NewInt(1))
		case 3:
			base = c03MulRat(c03Pow18, 2, 1)
		case 4:
			base = new(big.Int).Sub(c03MulRat(c03Pow18, 2, 1), rp.Decade(0, 17)) // just below 2: slow maclaurin
		case 5:
			base = rp.Decade(0, 18) // < 1
		case 6:
			base = rp.Decade(18, 40) // > 1, possibly huge
		case 7:
			base = new(big.Int).Add(c03MulRat(c03Pow18, 1, 2), rp.Big(c03MulRat(c03Pow18, 3, 2))) // in [0.5, 2)
		case 8:
			base = big.NewInt(int64(rp.Intn(3)) - 1) // -1, 0, 1 ulp
		default:
			base = new(big.Int).Sub(c03Pow18, rp.Decade(0, 18)) // just below 1 (small trades)
		}
		var exp *big.Int
		switch rp.Intn(9) {
		case 0:
			exp = new(big.Int).Set(c03Pow18)
		case 1:
			exp = c03MulRat(c03Pow18, int64(rp.Intn(101)), 1) // integer 0..100
		case 2:
			exp = c03MulRat(c03Pow18, 1, 2)
		case 3:
			exp = c03MulRat(c03Pow18, 5, 2) // 2.5: the weight-breaking-fee exponent
		case 4:
			exp = c03MulRat(c03Pow18, 3, 2)
		case 5:
			exp = rp.Decade(0, 18) // tiny .. < 1
		case 6:
			exp = new(big.Int).Quo(new(big.Int).Mul(big.NewInt(1+int64(rp.Intn(100))), c03Pow18), big.NewInt(1+int64(rp.Intn(100)))) // w1/w2 truncated
		case 7:
			exp = big.NewInt(0)
		default:
			exp = new(big.Int).Add(c03MulRat(c03Pow18, int64(rp.Intn(4)), 1), rp.Big(c03Pow18))
		}
		r := c03Pow(base, exp)
		col.Op("pow", r.kind(), base)
		col.Distinct(fmt.Sprintf("pow:%s:%s", base, exp), r.Code == 0)
		emit(0, []string{zstr(base), zstr(exp)}, r, c03PowCost(base, exp))
	}

	// 2. constant-product CalcOutAmtGivenIn / CalcInAmtGivenOut
	rc := NewRng(uint64(seed), 302)
	nOut, nIn := 420*scale, 360*scale
	for i := 0; i < nOut+nIn; i++ {
		kind := "out"
		if i >= nOut {
			kind = "in"
		}
		c := c03GenCP(rc, kind, rc.Chance(45))
		var r c03Res
		if kind == "out" {
			r = c.calcOut()
			emit(1, append(c.poolArgs(), c03Zs(c.Amt), c03Zs(c.Fee)), r, c.cost(false))
			if r.Code == 0 {
				c03CheckOut(col, idx-1, c, r.V1)
			}
		} else {
			r = c.calcIn()
			emit(2, append(c.poolArgs(), c03Zs(c.Amt), c03Zs(c.Fee)), r, c.cost(true))
			if r.Code == 0 {
				c03CheckIn(col, idx-1, c, r.V1)
			}
		}
		_, _, class := c03Class(c)
		col.Op("cp_"+kind+"_"+class, r.kind(), c03BigS(c.Amt))
		col.Distinct(fmt.Sprintf("%s:%+v", kind, c), r.Code == 0)
		if i == 3 {
			col.Sample(map[string]interface{}{"case": c, "result_code": r.Code, "v1": r.V1.String(), "slippage_raw": r.V2.String()})
		}
		// round trip and split trade (implementation-side, equal weights, zero fee, no accounted override)
		if kind == "out" && r.Code == 0 && class == "equal" && c03BigS(c.Fee).Sign() == 0 && c.AccIn == "" && c.AccOut == "" && i%3 == 0 {
			c03RoundTripSplit(col, idx-1, c, r.V1)
		}
	}

	// 3. oracle pools: oracle-weighted CalcOut/CalcIn exactly; SwapOut/SwapIn final value formula with the
	//    weight-breaking fee taken from the implementation; slippage kernels; value predicate
	ro := NewRng(uint64(seed), 303)
	rw := NewRng(uint64(seed), 306) // amm params of the weight-breaking fee (own stream: the cases of ro stay what they were)
	nOr := 130 * scale
	for i := 0; i < 2*nOr; i++ {
		givenOut := i >= nOr
		kind := "oracle_out"
		if givenOut {
			kind = "oracle_in"
		}
		c := c03GenOracle(ro, kind)
		c03WbfGenParams(rw, &c)
		// (a) the balancer calculation on the oracle pool (oracle-normalised weights from the snapshot)
		var rb c03Res
		if givenOut {
			rb = c.calcIn()
			emit(2, append(c.poolArgs(), c03Zs(c.Amt), c03Zs(c.Fee)), rb, c.cost(true))
		} else {
			rb = c.calcOut()
			emit(1, append(c.poolArgs(), c03Zs(c.Amt), c03Zs(c.Fee)), rb, c.cost(false))
		}
		col.Op("oracle_calc_"+kind, rb.kind(), c03BigS(c.Amt))
		// (b) the swap itself
		o := c.swapOracle(givenOut)
		col.Op(kind, o.R.kind(), c03BigS(c.Amt))
		col.Distinct(fmt.Sprintf("%s:%+v", kind, c), o.R.Code == 0)
		// (c) the whole function with the weight-breaking fee COMPUTED by the model (Models/WeightFee.v), failures included
		{
			cost := c.wbfCost(givenOut)
			total += cost
			emit(map[bool]int{false: 12, true: 13}[givenOut], c.wbfArgs(c03BigS(c.RatioOut)), c03WbfRes(o), cost)
			c03WbfImplCheck(col, idx-1, c, o)
		}
		if o.R.Code != 0 {
			continue
		}
		wbf := big.NewInt(0)
		if o.Bonus.Sign() < 0 {
			wbf = new(big.Int).Neg(o.Bonus)
		}
		ratio := c03BigS(c.RatioOut)
		kk := 3
		if givenOut {
			kk = 4
		}
		emit(kk, []string{c03Zs(c.Amt), c03Zs(c.PriceIn), c03Zs(c.PriceOut), zstr(ratio), zstr(o.SlipAmt), zstr(wbf), c03Zs(c.Fee)}, o.R, 1)
		// slippage amount = kernel(resized amount, balancer amount of the resized trade at zero fee)
		res := rawDec(new(big.Int).Mul(c03BigS(c.Amt), c03Pow18)).Quo(rawDec(ratio)).RoundInt().BigInt()
		emit(8, []string{c03Zs(c.Amt), zstr(ratio)}, c03Res{0, res, big.NewInt(0)}, 1)
		c2 := c
		c2.Amt, c2.Fee = res.String(), "0"
		if givenOut {
			rr := c2.calcIn()
			emit(2, append(c2.poolArgs(), c03Zs(c2.Amt), "0"), rr, c2.cost(true))
			if rr.Code == 0 {
				emit(7, []string{zstr(res), c03Zs(c.PriceIn), c03Zs(c.PriceOut), zstr(rr.V1)}, c03Res{0, o.SlipAmt, big.NewInt(0)}, 1)
			}
			emit(10, append(c.poolArgs(), c03Zs(c.Amt), zstr(ratio), zstr(wbf), c03Zs(c.Fee)), c03Res{0, o.R.V1, o.SlipAmt}, c2.cost(true))
		} else {
			rr := c2.calcOut()
			emit(1, append(c2.poolArgs(), c03Zs(c2.Amt), "0"), rr, c2.cost(false))
			if rr.Code == 0 {
				emit(6, []string{zstr(res), c03Zs(c.PriceIn), c03Zs(c.PriceOut), zstr(rr.V1)}, c03Res{0, o.SlipAmt, big.NewInt(0)}, 1)
			}
			emit(9, append(c.poolArgs(), c03Zs(c.Amt), zstr(ratio), zstr(wbf), c03Zs(c.Fee)), c03Res{0, o.R.V1, o.SlipAmt}, c2.cost(false))
		}
		// implementation-side predicate: value out <= value in at oracle prices (+ 2 ulp of the out token)
		col.ImplCheck(1)
		pin, pout := c03BigS(c.PriceIn), c03BigS(c.PriceOut)
		if givenOut {
			// trader receives o = Amt, pays in = V1:  o*p_out <= in*p_in   (in is rounded up, no slack needed)
			lhs := c03Mul(c03BigS(c.Amt), pout, c03PP)
			rhs := c03Mul(o.R.V1, pin, c03PP)
			rhs.Add(rhs, c03Mul(c03H1, pin)) // C03_oracle_value_in_ge_out
			if lhs.Cmp(rhs) >= 0 {
				col.Violate(Violation{Signature: c03SigOracleIn, Detail: fmt.Sprintf("pays in=%s for out=%s: %+v", o.R.V1, c.Amt, c), History: idx - 1, Replay: c})
			}
		} else {
			lhs := c03Mul(o.R.V1, pout, c03PP)
			rhs := c03Mul(c03BigS(c.Amt), pin, c03PP)
			rhs.Add(rhs, c03Mul(c03H, pout)) // C03_oracle_value_out_le_in
			if lhs.Cmp(rhs) > 0 {
				col.Violate(Violation{Signature: c03SigOracleOut, Detail: fmt.Sprintf("out=%s for in=%s: %+v", o.R.V1, c.Amt, c), History: idx - 1, Replay: c})
			}
		}
		// bonus decision (UpdatePoolForSwap): model cases over treasury balances around the computed bonus
		if o.Bonus.Sign() > 0 {
			col.Op("bonus_positive", "ok", o.Bonus)
		}
	}
	// 3b. integer-ratio weighted pools (1:2, 1:3, 1:4, ... in the LegacyDec.Power direction), dust / mid / huge reserves
	//     and amounts; own Coq budget (integer path: constant cost) so that the cases above and below are not displaced
	ri := NewRng(uint64(seed), 304)
	nInt := 90 * scale
	for i := 0; i < 2*nInt; i++ {
		kind := "out"
		if i >= nInt {
			kind = "in"
		}
		c := c03GenIntRatio(ri, kind)
		var r c03Res
		if kind == "out" {
			r = c.calcOut()
			cost := c.cost(false)
			total += cost
			emit(1, append(c.poolArgs(), c03Zs(c.Amt), c03Zs(c.Fee)), r, cost)
			if r.Code == 0 {
				c03CheckOut(col, idx-1, c, r.V1)
			}
		} else {
			r = c.calcIn()
			cost := c.cost(true)
			total += cost
			emit(2, append(c.poolArgs(), c03Zs(c.Amt), c03Zs(c.Fee)), r, cost)
			if r.Code == 0 {
				c03CheckIn(col, idx-1, c, r.V1)
			}
		}
		col.Op("cp_"+kind+"_intratio", r.kind(), c03BigS(c.Amt))
		col.Distinct(fmt.Sprintf("%s:%+v", kind, c), r.Code == 0)
	}
	// 3c. the weight-breaking fee kernels called directly (c03_wbf_test.go); constant cost each
	c03WbfDirect(seed, col, scale, func(kind int, args []string, r c03Res, cost float64) { total += cost; emit(kind, args, r, cost) })
	// 4. the full application
	nApp := 24
	if tier() == "thorough" {
		nApp = 240
	}
	appEmits := make([][]c03Emit, nApp)
	c03RunApp(nApp, func(i int) { appEmits[i] = c03AppHistory(t, col, seed, i, false) })
	appBudget := 20000.0 * float64(scale)
	for _, es := range appEmits {
		for _, e := range es {
			if e.cost <= perCase && appBudget-e.cost >= 0 {
				appBudget -= e.cost
				total += e.cost
			}
			emit(e.kind, e.args, e.res, e.cost)
		}
	}
	col.Extra("coq_budget", map[string]interface{}{"per_case_iterations": perCase, "total_iterations": total, "used": used,
		"max_case": maxCost, "cases_not_replayed_in_coq_because_of_cost": skipped})
	col.Finish(t, idx, c03Header, c03Footer, 200)
}

const c03Header = "From Coq Require Import ZArith List.\nFrom Elys Require Import Base.Res Base.Zdec Models.AmmSwap Run.AmmSwapRun Run.WeightFeeRun.\nImport ListNotations.\nOpen Scope Z_scope.\n"
const c03Footer = "Definition M := Eval vm_compute in mismatches_wf cases.\nPrint M.\n"

// round trip A->B->A and split trade on the implementation (zero fee, equal weights), against the bounds of
// C03_round_trip_no_gain and C03_split_no_gain; a gain of more than one base unit inside those bounds is the
// one-unit finding
func c03RoundTripSplit(col *Collector, idx int, c c03Case, out *big.Int) {
	bi, bo, a := c03BigS(c.Bin), c03BigS(c.Bout), c03BigS(c.Amt)
	// state after the first swap
	back := c03Case{Kind: "out", InFirst: c.InFirst, Bin: new(big.Int).Sub(bo, out).String(), Bout: new(big.Int).Add(bi, a).String(),
		Win: c.Wout, Wout: c.Win, Fee: "0", Amt: out.String()}
	rb := back.calcOut()
	col.ImplCheck(1)
	if rb.Code == 0 {
		s := new(big.Int).Add(bi, a)
		lim := new(big.Int).Add(c03Mul(a, c03PP), c03Mul(big.NewInt(2), s, c03H1))
		if c03Mul(rb.V1, c03PP).Cmp(lim) > 0 {
			col.Violate(Violation{Signature: c03SigRound, Detail: fmt.Sprintf("A->B->A returns %s for %s, above the bound of C03_round_trip_no_gain: %+v", rb.V1, a, c), History: idx, Replay: c})
		} else if rb.V1.Cmp(new(big.Int).Add(a, big.NewInt(1))) > 0 {
			col.Violate(Violation{Signature: c03OneUnitSig(s), Detail: fmt.Sprintf("round trip A->B->A returns %s for %s (B_in+a=%s): %+v", rb.V1, a, s, c), History: idx, Replay: c})
		}
	}
	// split a = a1 + a2
	if a.Cmp(big.NewInt(2)) < 0 {
		return
	}
	a1 := new(big.Int).Quo(a, big.NewInt(3))
	if a1.Sign() == 0 {
		a1.SetInt64(1)
	}
	a2 := new(big.Int).Sub(a, a1)
	c1 := c
	c1.Amt = a1.String()
	r1 := c1.calcOut()
	if r1.Code != 0 {
		return
	}
	c2 := c
	c2.Bin = new(big.Int).Add(bi, a1).String()
	c2.Bout = new(big.Int).Sub(bo, r1.V1).String()
	c2.Amt = a2.String()
	r2 := c2.calcOut()
	if r2.Code != 0 {
		return
	}
	col.ImplCheck(1)
	tot := new(big.Int).Add(r1.V1, r2.V1)
	lim := new(big.Int).Add(c03Mul(out, c03PP), c03PP)
	lim.Add(lim, c03Mul(bo, new(big.Int).Add(c03Mul(big.NewInt(3), c03H), big.NewInt(2))))
	if c03Mul(tot, c03PP).Cmp(lim) >= 0 {
		col.Violate(Violation{Signature: c03SigSplit, Detail: fmt.Sprintf("split %s+%s pays %s, single %s: above the bound of C03_split_no_gain: %+v", a1, a2, tot, out, c), History: idx, Replay: c})
	} else if tot.Cmp(new(big.Int).Add(out, big.NewInt(2))) > 0 {
		col.Violate(Violation{Signature: c03OneUnitSig(bo), Detail: fmt.Sprintf("split %s+%s pays %s, single trade %s (B_out=%s): %+v", a1, a2, tot, out, bo, c), History: idx, Replay: c})
	}
}

func c03Replay(t *testing.T, c c03Case) {
	switch c.Kind {
	case "pow":
		r := c03Pow(c03BigS(c.Base), c03BigS(c.Exp))
		fmt.Printf("replay Pow(%s,%s) -> %s %s\n", c.Base, c.Exp, r.kind(), r.V1)
	case "out":
		r := c.calcOut()
		fmt.Printf("replay CalcOutAmtGivenIn %+v -> %s out=%s slippage=%s\n", c, r.kind(), r.V1, r.V2)
		if r.Code == 0 && !c.Oracle {
			bi, bo := c.effRes()
			p, q, _ := c03Class(c)
			fmt.Printf("  exceeds exact+1: %v ; exceeds exact+proven slack(%s): %v\n",
				c03OutExceeds(bi, bo, c03BigS(c.Amt), c03BigS(c.Fee), p, q, r.V1, big.NewInt(1)), c03ProvenSlackOut(bo),
				c03OutExceeds(bi, bo, c03BigS(c.Amt), c03BigS(c.Fee), p, q, r.V1, c03ProvenSlackOut(bo)))
		}
	case "in":
		r := c.calcIn()
		fmt.Printf("replay CalcInAmtGivenOut %+v -> %s in=%s slippage=%s\n", c, r.kind(), r.V1, r.V2)
	case "oracle_out", "oracle_in":
		o := c.swapOracle(c.Kind == "oracle_in")
		fmt.Printf("replay %s %+v -> %s amount=%s oracleAmount=%s slippageAmount=%v bonus=%v\n", c.Kind, c, o.R.kind(), o.R.V1, o.R.V2, o.SlipAmt, o.Bonus)
	}
}
