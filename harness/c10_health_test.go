package harness

// C10: correspondence cases for the health formulas (coq/Models/Health.v, evaluated by coq/Run/HealthRun.v): every health
// value read from the real keepers during a history is emitted together with the quantities it is computed from, read on
// the same throw-away context:
//   leveragelp GetPositionHealth: exit value of all shares committed at the position address in the base currency
//     (amm ExitPoolEst), and Borrowed / InterestStacked / InterestPaid of the stablestake debt record brought up to date
//   perpetual GetMTPHealth: side, Liabilities, BorrowInterestUnpaidLiability, Custody of the MTP as handed to the function,
//     and the EstimateSwapGivenOut result the code obtains for this side (liabilities for SHORT, custody for LONG)

import (
	"fmt"

	sdkmath "cosmossdk.io/math"
	sdk "github.com/cosmos/cosmos-sdk/types"

	levtypes "github.com/elys-network/elys/x/leveragelp/types"
	perptypes "github.com/elys-network/elys/x/perpetual/types"
)

const c10HealthMax = 80 // health cases per history

func c10OptInt(x sdkmath.Int, ok bool) string {
	if !ok {
		return "None"
	}
	return fmt.Sprintf("(Some %s)", zstr(x.BigInt()))
}

// h = what GetPositionHealth returned (no error) for pos on pc
func (r *c10Run) healthLev(pc sdk.Context, pos levtypes.Position, h sdkmath.LegacyDec) {
	if len(r.hcases) >= c10HealthMax {
		return
	}
	ok := true
	var exit sdkmath.Int
	var d = r.w.App.StablestakeKeeper.UpdateInterestAndGetDebt(pc, pos.GetPositionAddress())
	if c10Safely(func() {
		shares := sdkmath.ZeroInt()
		for _, ct := range r.w.App.CommitmentKeeper.GetCommitments(pc, pos.GetPositionAddress()).CommittedTokens {
			shares = shares.Add(ct.Amount)
		}
		if d.GetTotalLiablities().IsZero() {
			exit = sdkmath.ZeroInt() // not evaluated by the code
			return
		}
		coins, _, err := r.w.App.AmmKeeper.ExitPoolEst(pc, pos.AmmPoolId, shares, USDC)
		if err != nil {
			ok = false
			return
		}
		exit = coins.AmountOf(USDC)
	}) || !ok {
		return
	}
	r.hcases = append(r.hcases, fmt.Sprintf("HLev %d %s %s %s %s %s", len(r.hcases), c10Z(exit), c10Z(d.Borrowed), c10Z(d.InterestStacked), c10Z(d.InterestPaid), zstr(h.BigInt())))
	r.count("health_cases_lev")
}

// h, herr, panicked = outcome of GetMTPHealth(pc, mtp, ammPool, USDC)
func (r *c10Run) healthPerp(pc sdk.Context, mtp perptypes.MTP, ammPool interface{}, h sdkmath.LegacyDec, herr error, panicked bool) {
	if len(r.hcases) >= c10HealthMax {
		return
	}
	k := r.w.App.PerpetualKeeper
	pool, err := k.GetAmmPool(pc, mtp.AmmPoolId)
	if err != nil {
		return
	}
	long := mtp.Position == perptypes.Position_LONG
	el, ec := "None", "None"
	total := mtp.Liabilities.Add(mtp.BorrowInterestUnpaidLiability)
	bad := false
	if !mtp.Liabilities.IsZero() {
		if !long {
			if c10Safely(func() {
				v, _, _, e := k.EstimateSwapGivenOut(pc, sdk.NewCoin(mtp.LiabilitiesAsset, total), USDC, pool, mtp.Address)
				el = c10OptInt(v, e == nil)
			}) {
				bad = true
			}
		} else if mtp.Custody.IsPositive() {
			if c10Safely(func() {
				v, _, _, e := k.EstimateSwapGivenOut(pc, sdk.NewCoin(mtp.CustodyAsset, mtp.Custody), USDC, pool, mtp.Address)
				ec = c10OptInt(v, e == nil)
			}) {
				bad = true
			}
		}
	}
	if bad { // the estimate itself panicked: outside the model's inputs
		return
	}
	kind, hv := 0, "0"
	switch {
	case panicked:
		kind = 2
	case herr != nil:
		kind = 1
	default:
		hv = zstr(h.BigInt())
	}
	r.hcases = append(r.hcases, fmt.Sprintf("HPerp %d %s %s %s %s %s %s %d %s", len(r.hcases), c10B(long), c10Z(mtp.Liabilities), c10Z(mtp.BorrowInterestUnpaidLiability),
		c10Z(mtp.Custody), el, ec, kind, hv))
	r.count("health_cases_perp")
}
