#!/bin/bash
# wave.sh <logfile> "<ID> <name>" ...: confirms each seeded change written by a sub-agent, then tries it against the check of its property
cd /verif; LOG=$1; shift
for s in "$@"; do set -- $s; tools/confirm_seed.sh $1 $2 2>&1 | tail -1 >> $LOG; [ -d seeded/$2 ] && tools/run_all_seeds.sh $2 2>&1 | tail -1 >> $LOG; done
echo DONE >> $LOG
