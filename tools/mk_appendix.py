#!/usr/bin/env python3
# Regenerates "Appendix C" of DESIGN.md (list of theorems as stated in coq/Props/*.v) in place.
import glob, os, re
V = os.path.dirname(os.path.dirname(os.path.abspath(__file__)))
lines = []
total = 0
files = sorted(glob.glob(os.path.join(V, "coq", "Props", "C??.v")))
for f in files:
    pid = os.path.basename(f)[:-2]
    names = re.findall(r"^(?:Theorem|Example)\s+(\w+)", open(f).read(), re.M)
    tie = os.path.join(V, "coq", "Props", "ArithTie%s.v" % pid)
    if os.path.exists(tie):
        names += re.findall(r"^(?:Theorem|Example)\s+(\w+)", open(tie).read(), re.M)
    total += len(names)
    lines.append("* **%s** (%d): %s" % (pid, len(names), ", ".join("`%s`" % n for n in names)))
n = lambda d: len(glob.glob(os.path.join(V, "coq", d, "*.v")))
lines.append("")
lines.append("Total: %d theorems / examples in %d files (Props/Cnn.v and Props/ArithTieCnn.v); models in coq/Models (%d files), proofs in coq/Proofs (%d files), evaluators in coq/Run (%d files), generated tables in coq/Generated (%d files)."
             % (total, len(glob.glob(os.path.join(V, "coq", "Props", "*.v"))), n("Models"), n("Proofs"), n("Run"), n("Generated")))
p = os.path.join(V, "DESIGN.md")
s = open(p).read()
m = re.search(r"(## Appendix C[^\n]*\n\n)(.*?)(\n-{20,}\n)", s, re.S)
s = s[:m.start(2)] + "\n".join(lines) + "\n" + s[m.start(3):]
open(p, "w").write(s)
print("appendix C: %d theorems" % total)
