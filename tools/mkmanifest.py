#!/usr/bin/env python3
"""Regenerates MANIFEST.json from tools/propcfg.py (claimed checks) + properties.jsonl (everything else -> not_applicable)."""
import json, os, sys
V = os.path.dirname(os.path.dirname(os.path.abspath(__file__)))
sys.path.insert(0, os.path.join(V, "tools"))
from propcfg import PROPS
props = [json.loads(l) for l in open(os.path.join(V, "properties.jsonl"))]
checks, na = [], []
for p in props:
    pid = p["id"]
    c = PROPS.get(pid)
    if c and c.get("claimed", True):
        checks.append(dict(
            property_id=pid,
            quick_cmd="./check %s quick" % pid,
            thorough_cmd="./check %s thorough" % pid,
            evidence_file="/verif/evidence/%s.json" % pid,
            replay_cmd_template="./check %s --replay {path}" % pid,
            engine="coq-model+correspondence",
            level_claimed=dict(category="proof", text=c.get("level_text", ""), design_ref=c.get("design_ref", "DESIGN.md section 5, " + pid)),
            level_note=c.get("level_note", ""),
            technique=c.get("technique", "Rocq/Coq 8.16 machine-checked theorems about a Gallina model + model/implementation correspondence check"),
        ))
    else:
        na.append(dict(property_id=pid, reason=(c or {}).get("na_reason", "check not built yet in this round; no claim is made (see DESIGN.md status table)")))
m = dict(
    version=1,
    setup_cmd="./check setup",
    hooks=dict(guard="verif", enable="go test -c -tags verif (harness module with replace github.com/elys-network/elys => /repo)",
               baseline_off_cmd="cd /repo && go test -mod=mod -vet=off -count=1 -timeout 25m ./...",
               source_commits=[], add_only=True),
    engines=[dict(name="coq-model+correspondence", path="/verif/check", serves_properties=[c["property_id"] for c in checks],
                  kind_free_text="Coq 8.16.1 theorems over Gallina models (coq/), tied to /repo by a Go differential harness (harness/) whose traces are replayed by Coq's VM, and by a go/ast translator (tools/gotrans) that regenerates tables")],
    checks=checks,
    notes="See DESIGN.md. known_findings.json lists genuine defects (open => KNOWN-FINDING lines, fixed => suppress nothing).",
    not_applicable=na,
)
json.dump(m, open(os.path.join(V, "MANIFEST.json"), "w"), indent=1)
print("claimed:", [c["property_id"] for c in checks])
