#!/bin/bash
# Regenerates harness/go.mod and go.sum from /repo's current go.mod (requires + replace block),
# adding the elys module itself replaced by /repo. Idempotent; rewrites only on change.
set -e
REPO=${VERIF_REPO:-/repo}
H=$(dirname "$0")/../harness
tmp=$(mktemp)
{
  echo "module verifharness"
  echo
  sed -n '/^go /,$p' "$REPO/go.mod"
  echo
  echo "require github.com/elys-network/elys v0.0.0"
  echo "replace github.com/elys-network/elys => $REPO"
} > "$tmp"
if ! cmp -s "$tmp" "$H/go.mod"; then cp "$tmp" "$H/go.mod"; fi
rm -f "$tmp"
if ! cmp -s "$REPO/go.sum" "$H/go.sum"; then cp "$REPO/go.sum" "$H/go.sum"; fi
