COMMON_MODELLED = "Cosmos SDK (bank, auth, store/IAVL, baseapp), CometBFT and protobuf codecs are used as they are by the harness and are not modelled."
