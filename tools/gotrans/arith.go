// gotrans arith<Group> <repo> <out.v>   (arithmetic tie for C14, C07, C13, C03)
//
// Translates the Go functions listed in arSpecs (below) from the CURRENT source of <repo> into one Gallina
// `Definition` each, over Z, using the fixed-point kernel coq/Base/Zdec.v (LegacyDec = Z scaled by 10^18,
// math.Int and native integers = Z) and, in checked mode, coq/Base/ZdecChk.v (range and division-by-zero
// panics). Proofs/ArithTie<Group>.v proves every generated definition equal to the hand-written model
// definition the property theorems are about; a change of the Go function changes the generated text and
// breaks that proof. See coq/Generated/ARITH_README.md for the trusted base (method -> Zdec table).
//
// Types come from go/types (loader of determinism.go). Two modes per listed function:
//
//	whole function   every statement must be in scope: := / = on locals, if / if-else, return, the
//	                 `v, err := f(..); if err != nil { return .., err }` pattern (monadic bind), calls of
//	                 Int / LegacyDec methods, of other listed functions, of declared external functions
//	                 (passed as a parameter, e.g. Pow) and of declared opaque readers (their results become
//	                 parameters). Anything else: error naming file:line and the construct, exit 1.
//	slice (Target)   the value of one expression inside a handler: argument i of the k-th call of a callee
//	                 ("callarg:") or the condition guarding the return of a named error ("guard:"). Statements
//	                 the value does not depend on are skipped; what it depends on must be in scope (an
//	                 untranslatable definition poisons the variable; a poisoned variable in the slice is an error).
//
// Normalisation: locals are inlined (pure values) or bound by `do` under machine-chosen names (checked
// operations, fallible calls), so renaming locals or introducing temporaries does not change the output up
// to alpha-equivalence. Parameters: receiver, then Go parameters in order, each struct flattened to the
// field paths that are read (sorted); then opaque readers in the order of the spec and of their occurrence.
// Output is deterministic and contains no line numbers or absolute paths.
package main

import (
	"fmt"
	"go/ast"
	"go/build"
	"go/constant"
	"go/importer"
	"go/token"
	"go/types"
	"os"
	"path/filepath"
	"sort"
	"strconv"
	"strings"
)

// ---------------------------------------------------------------- specification

type arFn struct {
	Group   string         // property the tie belongs to; selects the output file
	Coq     string         // name of the generated definition
	Pkg     string         // package directory relative to the repository
	Recv    string         // receiver type name ("" = plain function)
	Name    string         // function name
	Checked bool           // LegacyDec operations with range / division-by-zero panics (Base/ZdecChk.v)
	Target  string         // "" whole function | "callarg:<callee>#<k>:<i>" | "guard:<ErrName>"
	Opaque  []string       // callees (types.Func.FullName without the module prefix) whose results are inputs
	Getters []string       // niladic methods on parameters read as fields (ctx.BlockHeight())
	Errs    map[string]int // registered error variable -> code used by the model
	Ext     []string       // package-level functions passed in as parameters (result type res Z)
	ExtPure []string       // package-level functions passed in as pure parameters (Z -> .. -> Z), e.g. a loop the translator does not enter
	Wrap64  bool           // uint64 + - * and uint64 <-> signed conversions are modelled with wrap-around (Base/U64.v)
	Conj    bool           // a boolean target is conjoined with the conditions of the enclosing if statements (negated in else branches)
}

const arSDK = "github.com/cosmos/cosmos-sdk/types"

var arAmmErrs = map[string]int{"ErrAmountTooLow": 1, "ErrTokenOutAmountZero": 2, "ErrInvalidMathApprox": 3, "ErrTooMuchSwapFee": 4, "<unregistered>": 5}

var arSpecs = []arFn{
	// C14: linear vesting schedule
	{Group: "C14", Coq: "VestedSoFar", Pkg: "x/commitment/types", Recv: "VestingTokens", Name: "VestedSoFar", Getters: []string{"BlockHeight"}},
	// C07 (and C06): redemption rate, shares minted by Bond, amount paid by Unbond, the 90% cap of Borrow
	{Group: "C07", Coq: "GetRedemptionRate", Pkg: "x/stablestake/keeper", Recv: "Keeper", Name: "GetRedemptionRate",
		Opaque: []string{"(x/stablestake/keeper.Keeper).GetParams", "(x/stablestake/types.BankKeeper).GetSupply"}},
	{Group: "C07", Coq: "Bond_shareAmount", Pkg: "x/stablestake/keeper", Recv: "msgServer", Name: "Bond",
		Target: "callarg:(x/stablestake/types.BankKeeper).MintCoins#1:2>" + arSDK + ".NewCoins#0>" + arSDK + ".NewCoin#1",
		Opaque: []string{"(x/stablestake/keeper.Keeper).GetRedemptionRate"}},
	{Group: "C07", Coq: "Unbond_redemptionAmount", Pkg: "x/stablestake/keeper", Recv: "msgServer", Name: "Unbond",
		Target: "callarg:(x/stablestake/types.BankKeeper).SendCoinsFromModuleToAccount#1:3>" + arSDK + ".NewCoin#1",
		Opaque: []string{"(x/stablestake/keeper.Keeper).GetRedemptionRate"}},
	{Group: "C07", Coq: "Borrow_overCap", Pkg: "x/stablestake/keeper", Recv: "Keeper", Name: "Borrow",
		Target: "guard:ErrMaxBorrowAmount",
		Opaque: []string{"(x/stablestake/keeper.Keeper).GetParams", "(x/stablestake/types.BankKeeper).GetBalance"}},
	// C13: the per-coin amount of ammkeeper.PortionCoins (masterchef collectors)
	{Group: "C13", Coq: "PortionCoins_amount", Pkg: "x/amm/keeper", Name: "PortionCoins",
		Target: "callarg:" + arSDK + ".NewCoin#1:1"},
	// C13: the reward ledger's accumulator arithmetic (masterchef hooks)
	{Group: "C13", Coq: "UpdateAccPerShare_acc", Pkg: "x/masterchef/keeper", Recv: "Keeper", Name: "UpdateAccPerShare",
		Target: "callarg:(x/masterchef/keeper.Keeper).SetPoolRewardInfo#1:1.PoolAccRewardPerShare",
		Opaque: []string{"(x/masterchef/keeper.Keeper).GetPoolRewardInfo", "(x/masterchef/keeper.Keeper).GetPoolTotalCommit"}},
	{Group: "C13", Coq: "UpdateUserRewardPending_pending", Pkg: "x/masterchef/keeper", Recv: "Keeper", Name: "UpdateUserRewardPending",
		Target: "callarg:(x/masterchef/keeper.Keeper).SetUserRewardInfo#1:1.RewardPending",
		Opaque: []string{"(x/masterchef/keeper.Keeper).GetPoolRewardInfo", "(x/masterchef/keeper.Keeper).GetUserRewardInfo", "(x/masterchef/keeper.Keeper).GetPoolBalance"}},
	{Group: "C13", Coq: "UpdateUserRewardDebt_debt", Pkg: "x/masterchef/keeper", Recv: "Keeper", Name: "UpdateUserRewardDebt",
		Target: "callarg:(x/masterchef/keeper.Keeper).SetUserRewardInfo#1:1.RewardDebt",
		Opaque: []string{"(x/masterchef/keeper.Keeper).GetPoolRewardInfo", "(x/masterchef/keeper.Keeper).GetUserRewardInfo", "(x/masterchef/keeper.Keeper).GetPoolBalance"}},
	// C03: swap mathematics, checked mode
	{Group: "C03", Coq: "solveConstantFunctionInvariant", Pkg: "x/amm/types", Name: "solveConstantFunctionInvariant",
		Checked: true, Errs: arAmmErrs, Ext: []string{"Pow"}},
	{Group: "C03", Coq: "CalculateTokenARate", Pkg: "x/amm/types", Name: "CalculateTokenARate", Checked: true},
	{Group: "C03", Coq: "CalcOutAmtGivenIn", Pkg: "x/amm/types", Recv: "Pool", Name: "CalcOutAmtGivenIn", Checked: true, Errs: arAmmErrs, Ext: []string{"Pow"},
		Opaque: []string{"(x/amm/types.Pool).parsePoolAssets", "(x/amm/types.AccountedPoolKeeper).GetAccountedBalance",
			"x/amm/types.GetOraclePoolNormalizedWeights", "(*x/amm/types.Pool).GetTokenARate"}},
	{Group: "C03", Coq: "CalcInAmtGivenOut", Pkg: "x/amm/types", Recv: "Pool", Name: "CalcInAmtGivenOut", Checked: true, Errs: arAmmErrs, Ext: []string{"Pow"},
		Opaque: []string{"(x/amm/types.Pool).parsePoolAssets", "(x/amm/types.AccountedPoolKeeper).GetAccountedBalance",
			"x/amm/types.GetOraclePoolNormalizedWeights", "(*x/amm/types.Pool).GetTokenARate"}},
	{Group: "C03", Coq: "ApplyDiscount", Pkg: "x/amm/types", Name: "ApplyDiscount", Checked: true},
	{Group: "C03", Coq: "CalcGivenInSlippage", Pkg: "x/amm/types", Recv: "Pool", Name: "CalcGivenInSlippage", Checked: true, Errs: arAmmErrs,
		Opaque: []string{"(x/amm/types.Pool).CalcOutAmtGivenIn", "(x/amm/types.Pool).parsePoolAssets", "(x/amm/types.OracleKeeper).GetAssetPriceFromDenom"}},
	{Group: "C03", Coq: "CalcGivenOutSlippage", Pkg: "x/amm/types", Recv: "Pool", Name: "CalcGivenOutSlippage", Checked: true, Errs: arAmmErrs,
		Opaque: []string{"(x/amm/types.Pool).CalcInAmtGivenOut", "(x/amm/types.Pool).parsePoolAssets", "(x/amm/types.OracleKeeper).GetAssetPriceFromDenom"}},
	// C07: Repay, the condition of ErrNegativeBorrowed (interest first, the rest reduces the principal)
	{Group: "C07", Coq: "Repay_negativeBorrowed", Pkg: "x/stablestake/keeper", Recv: "Keeper", Name: "Repay",
		Target: "guard:ErrNegativeBorrowed", Opaque: []string{"(x/stablestake/keeper.Keeper).UpdateInterestAndGetDebt"}},
}

// ---------------------------------------------------------------- terms and code

type arTerm struct {
	k    string // "var" "lit" "app" "inf" "if" "fld" "tup"
	s    string
	args []*arTerm
	inp  *arInput
}

func arVar(s string) *arTerm               { return &arTerm{k: "var", s: s} }
func arLit(s string) *arTerm               { return &arTerm{k: "lit", s: s} }
func arApp(f string, a ...*arTerm) *arTerm { return &arTerm{k: "app", s: f, args: a} }
func arInf(op string, a, b *arTerm) *arTerm {
	return &arTerm{k: "inf", s: op, args: []*arTerm{a, b}}
}
func arIte(c, a, b *arTerm) *arTerm { return &arTerm{k: "if", args: []*arTerm{c, a, b}} }

func (t *arTerm) String() string {
	switch t.k {
	case "var":
		return t.s
	case "lit":
		if strings.HasPrefix(t.s, "-") {
			return "(" + t.s + ")"
		}
		return t.s
	case "fld":
		return t.inp.fieldName(t.s)
	case "app":
		if len(t.args) == 0 {
			return t.s
		}
		parts := []string{t.s}
		for _, a := range t.args {
			parts = append(parts, a.String())
		}
		return "(" + strings.Join(parts, " ") + ")"
	case "inf":
		return "(" + t.args[0].String() + " " + t.s + " " + t.args[1].String() + ")"
	case "if":
		return "(if " + t.args[0].String() + " then " + t.args[1].String() + " else " + t.args[2].String() + ")"
	case "tup":
		if len(t.args) == 0 {
			return "tt"
		}
		if len(t.args) == 1 {
			return t.args[0].String()
		}
		var parts []string
		for _, a := range t.args {
			parts = append(parts, a.String())
		}
		return "(" + strings.Join(parts, ", ") + ")"
	}
	return "?"
}

func arSame(a, b *arTerm) bool { return a.String() == b.String() }

type arCode struct {
	k    string // "ret" "fail" "if" "bind" "raw"
	t    *arTerm
	s    string
	n    int
	a, b *arCode
	pat  []*arTerm // bind: pattern variables (nil with inp != nil: fields of the input)
	inp  *arInput
	rhsT *arTerm
	rhsC *arCode
}

func (c *arCode) print(sb *strings.Builder, ind string, res bool) {
	switch c.k {
	case "ret":
		if res {
			sb.WriteString(ind + "Ok " + c.t.String())
		} else {
			sb.WriteString(ind + c.t.String())
		}
	case "raw":
		sb.WriteString(ind + c.t.String())
	case "fail":
		sb.WriteString(fmt.Sprintf("%s%s %d%%nat", ind, c.s, c.n))
	case "if":
		sb.WriteString(ind + "if " + c.t.String() + " then\n")
		c.a.print(sb, ind+"  ", res)
		sb.WriteString("\n" + ind + "else\n")
		c.b.print(sb, ind, res)
	case "bind":
		var names []string
		if c.inp != nil {
			names = c.inp.patNames()
		} else {
			for _, p := range c.pat {
				names = append(names, p.String())
			}
		}
		pat := ""
		switch len(names) {
		case 0:
			pat = c.inp.name + "_unit"
		case 1:
			pat = names[0]
		default:
			pat = "'(" + strings.Join(names, ", ") + ")"
		}
		if c.rhsC != nil {
			sb.WriteString(ind + "do " + pat + " <- (\n")
			c.rhsC.print(sb, ind+"    ", res)
			sb.WriteString(");\n")
		} else {
			sb.WriteString(ind + "do " + pat + " <- " + c.rhsT.String() + ";\n")
		}
		c.a.print(sb, ind, res)
	}
}

// ---------------------------------------------------------------- inputs and values

type arInput struct {
	name     string
	kind     int // 0 parameter, 1 opaque reader, 2 loop variable, 3 external function
	ord      [3]int
	fallible bool
	fields   map[string]string // path -> "Z" | "bool"
	desc     string
	errRes   bool   // slice mode: the callee's last result is an error (read as the boolean input <name>_err_nil)
	sig      string // kind 3: Coq type of the function parameter ("" = Z -> Z -> res Z)
}

var arReserved = map[string]bool{"in": true, "at": true, "as": true, "end": true, "fix": true, "fun": true, "let": true, "with": true, "then": true,
	"else": true, "if": true, "match": true, "return": true, "for": true, "forall": true, "exists": true, "where": true, "using": true, "do": true,
	"Type": true, "Prop": true, "Set": true, "cofix": true, "struct": true, "by": true, "is": true, "of": true, "IF": true}

func arIdent(s string) string {
	var sb strings.Builder
	for _, r := range s {
		switch {
		case r >= 'a' && r <= 'z', r >= 'A' && r <= 'Z', r >= '0' && r <= '9', r == '_':
			sb.WriteRune(r)
		case r == '.':
			sb.WriteByte('_')
		}
	}
	out := sb.String()
	if arReserved[out] {
		out += "_"
	}
	return out
}

func (i *arInput) fieldName(path string) string {
	if path == "" {
		return arIdent(i.name)
	}
	return arIdent(i.name + "." + path)
}

func (i *arInput) paths() []string {
	var ps []string
	for p := range i.fields {
		ps = append(ps, p)
	}
	sort.Strings(ps)
	return ps
}

func (i *arInput) patNames() []string {
	var ns []string
	for _, p := range i.paths() {
		ns = append(ns, i.fieldName(p)+"_")
	}
	return ns
}

type arVal struct {
	t    *arTerm
	bool bool
	ref  *arInput
	path string
	rec  map[string]*arVal
	tup  []*arVal
	bad  string // poison: why this value is not available
	null bool   // nil
	base *arVal // rec: fields not in rec are read from base (x.F = e on a struct value)
	lit  bool   // rec: composite literal (fields not listed are not available)
	phi  *arPhi // struct value assigned under a condition
	// slice mode: the error result of a fallible opaque reader
	ein *arInput
	// slices of arith2.go: values assigned through an access path rooted at this value, by the path's source text
	ov map[string]*arVal
}

type arPhi struct {
	cond *arTerm
	a, b *arVal
}

type arErr struct{ msg string }

// ---------------------------------------------------------------- translation context

type arCtx struct {
	l      *detLoader
	p      *detPkg
	spec   *arFn
	group  []*arFn
	fn     *ast.FuncDecl
	env    map[types.Object]*arVal
	inputs []*arInput
	opq    map[*ast.CallExpr]*arInput
	ext    map[string]*arInput
	binds  []*arCode
	tmp    int
	res    bool
	slice  bool
	// slice mode
	tgtCall   *ast.CallExpr
	tgtPath   []arStep
	tgtFields []string
	tgtIf     *ast.IfStmt
	tgtExpr   ast.Expr // "retval:" / "assign:" target
	prune     bool     // targets of arith2.go: input fields that do not occur in the value are dropped
	found     *arVal
	defs      map[types.Object]ast.Expr                 // slice mode: defining expression of a local
	defEnv    map[*ast.CallExpr]map[types.Object]*arVal // slice mode: environment at a defining call
	usedInp   map[*arInput]bool
}

type arStep struct {
	callee string
	arg    int
}

func (c *arCtx) pos(n ast.Node) string {
	p := c.l.fset.Position(n.Pos())
	rel, err := filepath.Rel(c.l.repo, p.Filename)
	if err != nil {
		rel = p.Filename
	}
	return fmt.Sprintf("%s:%d", filepath.ToSlash(rel), p.Line)
}

func (c *arCtx) fail(n ast.Node, format string, a ...interface{}) {
	panic(arErr{fmt.Sprintf("%s: %s.%s: ", c.pos(n), c.spec.Pkg, c.spec.Name) + fmt.Sprintf(format, a...)})
}

func (c *arCtx) src(n ast.Node) string {
	return detSkeletonSafe(c.l.fset, n)
}

func detSkeletonSafe(fset *token.FileSet, n ast.Node) string {
	p1, p2 := fset.Position(n.Pos()), fset.Position(n.End())
	b, err := os.ReadFile(p1.Filename)
	if err != nil || p1.Offset < 0 || p2.Offset > len(b) || p1.Offset > p2.Offset {
		return fmt.Sprintf("%T", n)
	}
	s := strings.Join(strings.Fields(string(b[p1.Offset:p2.Offset])), " ")
	if len(s) > 90 {
		s = s[:90] + "..."
	}
	return s
}

func (c *arCtx) fresh() *arTerm {
	c.tmp++
	return arVar(fmt.Sprintf("t_%d", c.tmp))
}

func (c *arCtx) shortName(full string) string {
	return strings.ReplaceAll(full, c.l.mod+"/", "")
}

// class of a Go type: "I" math.Int, "D" LegacyDec, "N" native integer, "U" unsigned native, "B" bool, "E" error, "" other
func arClass(t types.Type) string {
	if t == nil {
		return ""
	}
	if p, ok := t.(*types.Pointer); ok {
		t = p.Elem()
	}
	if n, ok := t.(*types.Named); ok {
		if n.Obj().Pkg() == nil && n.Obj().Name() == "error" {
			return "E"
		}
		if n.Obj().Pkg() != nil && n.Obj().Pkg().Path() == "cosmossdk.io/math" {
			switch n.Obj().Name() {
			case "Int":
				return "I"
			case "LegacyDec":
				return "D"
			}
			return ""
		}
	}
	if b, ok := t.Underlying().(*types.Basic); ok {
		switch {
		case b.Info()&types.IsBoolean != 0:
			return "B"
		case b.Info()&types.IsUnsigned != 0:
			return "U"
		case b.Info()&types.IsInteger != 0:
			return "N"
		}
	}
	if types.Identical(t, types.Universe.Lookup("error").Type()) {
		return "E"
	}
	return ""
}

func arNumeric(cl string) bool { return cl == "I" || cl == "D" || cl == "N" || cl == "U" }

func (c *arCtx) typeOf(e ast.Expr) types.Type {
	if tv, ok := c.p.info.Types[e]; ok {
		return tv.Type
	}
	if id, ok := e.(*ast.Ident); ok {
		if o := c.p.info.Uses[id]; o != nil {
			return o.Type()
		}
		if o := c.p.info.Defs[id]; o != nil {
			return o.Type()
		}
	}
	return nil
}

func (c *arCtx) classOf(e ast.Expr) string { return arClass(c.typeOf(e)) }

func (c *arCtx) obj(id *ast.Ident) types.Object {
	if o := c.p.info.Defs[id]; o != nil {
		return o
	}
	return c.p.info.Uses[id]
}

// callee of a call: (function object, full name without module prefix)
func (c *arCtx) callee(call *ast.CallExpr) (*types.Func, string) {
	var id *ast.Ident
	switch f := call.Fun.(type) {
	case *ast.Ident:
		id = f
	case *ast.SelectorExpr:
		id = f.Sel
	case *ast.ParenExpr:
		return nil, ""
	}
	if id == nil {
		return nil, ""
	}
	if fn, ok := c.p.info.Uses[id].(*types.Func); ok {
		return fn, c.shortName(fn.FullName())
	}
	return nil, ""
}

// ---------------------------------------------------------------- expressions

func (c *arCtx) num(n ast.Node, v *arVal) *arTerm {
	if v.bad != "" {
		c.fail(n, "value not available: %s", v.bad)
	}
	if v.t != nil {
		return v.t
	}
	if v.ein != nil {
		c.fail(n, "error value used other than in a comparison with nil: %s", c.src(n))
	}
	if v.rec != nil {
		if a, ok := v.rec["Amount"]; ok && len(v.rec) <= 2 && v.base == nil && !v.lit {
			return c.num(n, a)
		}
	}
	c.fail(n, "not a number: %s", c.src(n))
	return nil
}

func (c *arCtx) field(inp *arInput, path string, isBool bool) *arVal {
	srt := "Z"
	if isBool {
		srt = "bool"
	}
	inp.fields[path] = srt
	t := &arTerm{k: "fld", s: path, inp: inp}
	if inp.fallible {
		t = arVar(inp.fieldName(path) + "_")
	}
	return &arVal{t: t, bool: isBool}
}

// value rooted at an input: a number when the Go type is numeric / bool, else a reference
func (c *arCtx) rooted(n ast.Node, inp *arInput, path string, t types.Type) *arVal {
	cl := arClass(t)
	switch {
	case arNumeric(cl):
		return c.field(inp, path, false)
	case cl == "B":
		return c.field(inp, path, true)
	}
	return &arVal{ref: inp, path: path}
}

func (c *arCtx) expr(e ast.Expr) *arVal {
	// constants folded by the type checker
	if tv, ok := c.p.info.Types[e]; ok && tv.Value != nil {
		switch tv.Value.Kind() {
		case constant.Int:
			return &arVal{t: arLit(tv.Value.ExactString())}
		case constant.Bool:
			return &arVal{t: arVar(strconv.FormatBool(constant.BoolVal(tv.Value))), bool: true}
		}
	}
	switch x := e.(type) {
	case *ast.ParenExpr:
		return c.expr(x.X)
	case *ast.BasicLit:
		if x.Kind == token.INT {
			return &arVal{t: arLit(x.Value)}
		}
		return &arVal{bad: "literal " + x.Value + " at " + c.pos(e)}
	case *ast.Ident:
		if x.Name == "nil" {
			return &arVal{null: true}
		}
		o := c.obj(x)
		if v, ok := c.env[o]; ok {
			return v
		}
		if pv, ok := o.(*types.Var); ok && pv.Pkg() != nil && pv.Parent() == pv.Pkg().Scope() {
			return c.pkgVar(e, pv)
		}
		c.fail(e, "identifier %s is not a local, parameter or constant in scope", x.Name)
	case *ast.StarExpr:
		return c.expr(x.X)
	case *ast.SelectorExpr:
		if v := c.overridden(e); v != nil {
			return v
		}
		if id, ok := x.X.(*ast.Ident); ok {
			if _, isPkg := c.p.info.Uses[id].(*types.PkgName); isPkg {
				if o, ok := c.p.info.Uses[x.Sel].(*types.Var); ok {
					return c.pkgVar(e, o)
				}
				c.fail(e, "package-level identifier %s", c.src(e))
			}
		}
		if o, ok := c.p.info.Uses[x.Sel].(*types.Var); ok && !o.IsField() && o.Pkg() != nil && o.Parent() == o.Pkg().Scope() {
			return c.pkgVar(e, o)
		}
		return c.sel(e, c.expr(x.X), x.Sel.Name, c.typeOf(e))
	case *ast.IndexExpr:
		if v := c.overridden(e); v != nil {
			return v
		}
		v := c.expr(x.X)
		if v.bad != "" {
			return v
		}
		tv, ok := c.p.info.Types[x.Index]
		if v.ref != nil && ok && tv.Value != nil && tv.Value.Kind() == constant.Int {
			p := v.path + "[" + tv.Value.ExactString() + "]"
			return c.rooted(e, v.ref, p, c.typeOf(e))
		}
		c.fail(e, "index expression %s", c.src(e))
	case *ast.UnaryExpr:
		switch x.Op {
		case token.NOT:
			return &arVal{t: arApp("negb", c.num(x.X, c.expr(x.X))), bool: true}
		case token.SUB:
			if c.classOf(x.X) == "N" {
				return &arVal{t: arApp("Z.opp", c.num(x.X, c.expr(x.X)))}
			}
		case token.ADD:
			return c.expr(x.X)
		}
		c.fail(e, "unary operator %s in %s", x.Op, c.src(e))
	case *ast.BinaryExpr:
		return c.binary(x)
	case *ast.CallExpr:
		return c.call(x)
	case *ast.CompositeLit:
		if t := c.typeOf(e); t != nil {
			if _, ok := t.Underlying().(*types.Struct); ok {
				v := &arVal{rec: map[string]*arVal{}, lit: true}
				for _, el := range x.Elts {
					kv, ok := el.(*ast.KeyValueExpr)
					if !ok {
						c.fail(e, "struct literal without field names: %s", c.src(e))
					}
					val := kv.Value
					v.rec[kv.Key.(*ast.Ident).Name] = c.tol(func() *arVal { return c.expr(val) })
				}
				return v
			}
		}
	}
	c.fail(e, "expression %T: %s", e, c.src(e))
	return nil
}

// field `name` (of Go type t) of a struct value
func (c *arCtx) sel(n ast.Node, v *arVal, name string, t types.Type) *arVal {
	if v.bad != "" {
		return v
	}
	if v.rec != nil {
		if f, ok := v.rec[name]; ok {
			return f
		}
		if v.base != nil {
			return c.sel(n, v.base, name, t)
		}
		c.fail(n, "field %s of a constructed value is not set", name)
	}
	if v.phi != nil {
		a, b := c.sel(n, v.phi.a, name, t), c.sel(n, v.phi.b, name, t)
		if a.bad != "" {
			return a
		}
		if b.bad != "" {
			return b
		}
		if a.t != nil && b.t != nil {
			if arSame(a.t, b.t) {
				return a
			}
			return &arVal{t: arIte(v.phi.cond, a.t, b.t), bool: a.bool}
		}
		return &arVal{phi: &arPhi{v.phi.cond, a, b}}
	}
	if v.ref != nil {
		p := name
		if v.path != "" {
			p = v.path + "." + p
		}
		return c.rooted(n, v.ref, p, t)
	}
	c.fail(n, "selector .%s on a value that is not a struct: %s", name, c.src(n))
	return nil
}

func arFieldType(t types.Type, name string) types.Type {
	if p, ok := t.(*types.Pointer); ok {
		t = p.Elem()
	}
	st, ok := t.Underlying().(*types.Struct)
	if !ok {
		return nil
	}
	for i := 0; i < st.NumFields(); i++ {
		if st.Field(i).Name() == name {
			return st.Field(i).Type()
		}
	}
	return nil
}

// a package-level variable is read as its initialiser (it is trusted not to be reassigned; C19's table
// lists every package variable of the tree that is)
func (c *arCtx) pkgVar(n ast.Node, o *types.Var) *arVal {
	p := c.l.pkgs[o.Pkg().Path()]
	if p == nil || p.info == nil {
		c.fail(n, "package-level variable %s.%s: package not loaded from source", o.Pkg().Path(), o.Name())
	}
	for _, f := range p.files {
		for _, d := range f.Decls {
			gd, ok := d.(*ast.GenDecl)
			if !ok || gd.Tok != token.VAR {
				continue
			}
			for _, sp := range gd.Specs {
				vs := sp.(*ast.ValueSpec)
				for i, id := range vs.Names {
					if p.info.Defs[id] == o && i < len(vs.Values) && len(vs.Values) == len(vs.Names) {
						savedP, savedEnv := c.p, c.env
						c.p, c.env = p, map[types.Object]*arVal{}
						defer func() { c.p, c.env = savedP, savedEnv }()
						nb := len(c.binds)
						v := c.expr(vs.Values[i])
						if len(c.binds) != nb {
							c.fail(n, "initialiser of %s needs a checked operation", o.Name())
						}
						return v
					}
				}
			}
		}
	}
	c.fail(n, "package-level variable %s has no translatable initialiser", o.Name())
	return nil
}

func (c *arCtx) binary(x *ast.BinaryExpr) *arVal {
	switch x.Op {
	case token.LAND, token.LOR:
		a := c.num(x.X, c.expr(x.X))
		nb := len(c.binds)
		b := c.num(x.Y, c.expr(x.Y))
		if len(c.binds) != nb {
			c.fail(x, "checked operation in the right operand of a short-circuit operator: %s", c.src(x))
		}
		op := "&&"
		if x.Op == token.LOR {
			op = "||"
		}
		return &arVal{t: arInf(op, a, b), bool: true}
	}
	if v := c.errNilTest(x); v != nil {
		return v
	}
	cx, cy := c.classOf(x.X), c.classOf(x.Y)
	if v := c.wrap64Binary(x, cx, cy); v != nil {
		return v
	}
	if cx == "B" && cy == "B" && (x.Op == token.EQL || x.Op == token.NEQ) {
		t := arApp("Bool.eqb", c.num(x.X, c.expr(x.X)), c.num(x.Y, c.expr(x.Y)))
		if x.Op == token.NEQ {
			t = arApp("negb", t)
		}
		return &arVal{t: t, bool: true}
	}
	if !(cx == "N" || cx == "U") || !(cy == "N" || cy == "U") {
		c.fail(x, "operator %s on operands that are not native integers: %s", x.Op, c.src(x))
	}
	a := c.num(x.X, c.expr(x.X))
	b := c.num(x.Y, c.expr(x.Y))
	switch x.Op {
	case token.ADD:
		return &arVal{t: arInf("+", a, b)}
	case token.SUB:
		if cx == "U" || cy == "U" {
			c.fail(x, "subtraction of unsigned integers wraps around: %s", c.src(x))
		}
		return &arVal{t: arInf("-", a, b)}
	case token.MUL:
		return &arVal{t: arInf("*", a, b)}
	case token.QUO:
		return &arVal{t: arApp("Z.quot", a, b)}
	case token.REM:
		return &arVal{t: arApp("Z.rem", a, b)}
	case token.LSS:
		return &arVal{t: arInf("<?", a, b), bool: true}
	case token.LEQ:
		return &arVal{t: arInf("<=?", a, b), bool: true}
	case token.GTR:
		return &arVal{t: arInf("<?", b, a), bool: true}
	case token.GEQ:
		return &arVal{t: arInf("<=?", b, a), bool: true}
	case token.EQL:
		return &arVal{t: arInf("=?", a, b), bool: true}
	case token.NEQ:
		return &arVal{t: arApp("negb", arInf("=?", a, b)), bool: true}
	}
	c.fail(x, "operator %s: %s", x.Op, c.src(x))
	return nil
}

// checked operation: bound by `do` (checked mode) or a plain application (pure mode)
func (c *arCtx) op(pure, checked string, args ...*arTerm) *arVal {
	if !c.spec.Checked || checked == "" {
		if pure == "+" || pure == "-" || pure == "*" {
			return &arVal{t: arInf(pure, args[0], args[1])}
		}
		return &arVal{t: arApp(pure, args...)}
	}
	v := c.fresh()
	c.binds = append(c.binds, &arCode{k: "bind", pat: []*arTerm{v}, rhsT: arApp(checked, args...)})
	return &arVal{t: v}
}

var arZero = arLit("0")

func (c *arCtx) call(call *ast.CallExpr) *arVal {
	// conversions
	if tv, ok := c.p.info.Types[call.Fun]; ok && tv.IsType() && len(call.Args) == 1 {
		to, from := arClass(tv.Type), c.classOf(call.Args[0])
		if to == "N" && from == "N" {
			return c.expr(call.Args[0])
		}
		if v := c.wrap64Conv(call, tv.Type, to, from); v != nil {
			return v
		}
		c.fail(call, "conversion %s (only between signed native integers)", c.src(call))
	}
	fn, full := c.callee(call)
	if fn == nil {
		c.fail(call, "call of a function value: %s", c.src(call))
	}
	sig := fn.Type().(*types.Signature)
	name := fn.Name()
	if strings.HasSuffix(name, "Mut") {
		c.fail(call, "mutating method %s", name)
	}
	args := func(want int) []*arTerm {
		if len(call.Args) != want {
			c.fail(call, "%s with %d arguments", name, len(call.Args))
		}
		var ts []*arTerm
		for _, a := range call.Args {
			ts = append(ts, c.num(a, c.expr(a)))
		}
		return ts
	}
	// methods of math.Int / math.LegacyDec
	if sig.Recv() != nil {
		rc := arClass(sig.Recv().Type())
		sel := call.Fun.(*ast.SelectorExpr)
		if rc == "I" || rc == "D" {
			r := c.num(sel.X, c.expr(sel.X))
			cmp := func(op string, swap bool) *arVal {
				a := args(1)[0]
				if swap {
					return &arVal{t: arInf(op, a, r), bool: true}
				}
				return &arVal{t: arInf(op, r, a), bool: true}
			}
			switch name {
			case "IsZero":
				args(0)
				return &arVal{t: arInf("=?", r, arZero), bool: true}
			case "IsNegative":
				args(0)
				return &arVal{t: arInf("<?", r, arZero), bool: true}
			case "IsPositive":
				args(0)
				return &arVal{t: arInf("<?", arZero, r), bool: true}
			case "LT":
				return cmp("<?", false)
			case "LTE":
				return cmp("<=?", false)
			case "GT":
				return cmp("<?", true)
			case "GTE":
				return cmp("<=?", true)
			case "Equal":
				return cmp("=?", false)
			case "Neg":
				args(0)
				return &arVal{t: arApp("Z.opp", r)}
			case "Abs":
				args(0)
				return &arVal{t: arApp("Z.abs", r)}
			}
			if rc == "I" {
				switch name {
				case "Add", "AddRaw":
					return &arVal{t: arInf("+", r, args(1)[0])}
				case "Sub", "SubRaw":
					return &arVal{t: arInf("-", r, args(1)[0])}
				case "Mul", "MulRaw":
					return &arVal{t: arInf("*", r, args(1)[0])}
				case "Quo", "QuoRaw":
					return &arVal{t: arApp("Z.quot", r, args(1)[0])}
				case "ToLegacyDec":
					args(0)
					return &arVal{t: arApp("dec_of_int", r)}
				}
			} else {
				switch name {
				case "Add":
					return c.op("+", "cadd", r, args(1)[0])
				case "Sub":
					return c.op("-", "csub", r, args(1)[0])
				case "Mul":
					return c.op("dmul", "cmul", r, args(1)[0])
				case "MulTruncate":
					return c.op("dmul_trunc", "cmul_trunc", r, args(1)[0])
				case "MulRoundUp":
					return c.op("dmul_round_up", "cmul_round_up", r, args(1)[0])
				case "MulInt", "MulInt64":
					return c.op("dmul_int", "cmul_int", r, args(1)[0])
				case "Quo":
					return c.op("dquo", "cquo", r, args(1)[0])
				case "QuoTruncate":
					return c.op("dquo_trunc", "cquo_trunc", r, args(1)[0])
				case "QuoRoundUp":
					return c.op("dquo_round_up", "cquo_round_up", r, args(1)[0])
				case "QuoInt", "QuoInt64":
					return c.op("dquo_int", "cquo_int", r, args(1)[0])
				case "Ceil":
					args(0)
					return c.op("dceil", "cceil", r)
				case "RoundInt":
					args(0)
					return &arVal{t: arApp("round_int", r)}
				case "TruncateInt":
					args(0)
					return &arVal{t: arApp("trunc_int", r)}
				case "TruncateDec":
					args(0)
					return &arVal{t: arApp("trunc_dec", r)}
				}
			}
			if v := c.decExtra(call, name, r); v != nil {
				return v
			}
			c.fail(call, "method %s of %s is not in the translator's table", name, sig.Recv().Type())
		}
	}
	// constructors of cosmossdk.io/math
	if fn.Pkg() != nil && fn.Pkg().Path() == "cosmossdk.io/math" && sig.Recv() == nil {
		switch name {
		case "NewInt":
			return &arVal{t: args(1)[0]}
		case "ZeroInt", "LegacyZeroDec":
			args(0)
			return &arVal{t: arZero}
		case "OneInt":
			args(0)
			return &arVal{t: arLit("1")}
		case "LegacyOneDec":
			args(0)
			return &arVal{t: arVar("PREC")}
		case "LegacyNewDec", "LegacyNewDecFromInt":
			return &arVal{t: arApp("dec_of_int", args(1)[0])}
		case "NewIntWithDecimal":
			if len(call.Args) == 2 {
				t0, ok0 := c.p.info.Types[call.Args[0]]
				t1, ok1 := c.p.info.Types[call.Args[1]]
				if ok0 && ok1 && t0.Value != nil && t1.Value != nil {
					n, _ := constant.Int64Val(t0.Value)
					d, _ := constant.Int64Val(t1.Value)
					if d >= 0 && d <= 77 {
						lit := strconv.FormatInt(n, 10)
						if n != 0 {
							lit += strings.Repeat("0", int(d))
						}
						return &arVal{t: arLit(lit)}
					}
				}
			}
			if len(call.Args) == 2 && (c.spec.Wrap64 || len(c.spec.ExtPure) > 0) {
				// NewIntWithDecimal(n, d) = n * 10^d (the SDK panics on d < 0; Z.pow gives 0 there)
				a := args(2)
				return &arVal{t: arInf("*", a[0], arInf("^", arLit("10"), a[1]))}
			}
			c.fail(call, "NewIntWithDecimal with non-constant arguments")
		case "MinInt", "LegacyMinDec":
			a := args(2)
			return &arVal{t: arApp("Z.min", a[0], a[1])}
		case "MaxInt", "LegacyMaxDec":
			a := args(2)
			return &arVal{t: arApp("Z.max", a[0], a[1])}
		}
		if v := c.mathExtra(call, name); v != nil {
			return v
		}
		c.fail(call, "function math.%s is not in the translator's table", name)
	}
	// sdk.NewCoin(denom, amount): the amount (the constructor's own panic on a negative amount is not part of the value)
	if full == arSDK+".NewCoin" && len(call.Args) == 2 {
		return &arVal{rec: map[string]*arVal{"Amount": c.tol(func() *arVal { return c.expr(call.Args[1]) }), "Denom": {bad: "denomination of a coin"}}}
	}
	if v := c.coinMethod(call, fn, sig); v != nil {
		return v
	}
	// getters on parameters (ctx.BlockHeight())
	if sel, ok := call.Fun.(*ast.SelectorExpr); ok && len(call.Args) == 0 {
		for _, g := range c.spec.Getters {
			if g == name {
				v := c.expr(sel.X)
				if v.ref != nil && v.ref.kind == 0 {
					p := name + "()"
					if v.path != "" {
						p = v.path + "." + p
					}
					return c.rooted(call, v.ref, p, c.typeOf(call))
				}
			}
		}
	}
	if sig.Results().Len() > 0 && arClass(sig.Results().At(sig.Results().Len()-1).Type()) == "E" {
		c.fail(call, "fallible call outside the `v, err := f(..); if err != nil { return .., err }` pattern: %s", c.src(call))
	}
	// opaque readers
	if inp, ok := c.opq[call]; ok {
		return c.opaqueResult(call, inp, sig, nil)
	}
	// other listed functions
	if g := c.listed(fn); g != nil {
		return &arVal{t: c.listedCall(call, g)}
	}
	// external functions passed in as pure parameters
	if inp := c.extPureInput(fn); inp != nil {
		var ts []*arTerm
		for _, a := range call.Args {
			ts = append(ts, c.num(a, c.expr(a)))
		}
		return &arVal{t: arApp(inp.name, ts...)}
	}
	// external functions passed in as parameters
	if inp := c.extInput(fn); inp != nil {
		var ts []*arTerm
		for _, a := range call.Args {
			ts = append(ts, c.num(a, c.expr(a)))
		}
		v := c.fresh()
		c.binds = append(c.binds, &arCode{k: "bind", pat: []*arTerm{v}, rhsT: arApp(inp.name, ts...)})
		return &arVal{t: v}
	}
	c.fail(call, "call of %s is outside the translator's scope (not an Int/LegacyDec method, a listed function or a declared opaque reader): %s", full, c.src(call))
	return nil
}

func (c *arCtx) listed(fn *types.Func) *arFn {
	if fn.Pkg() == nil {
		return nil
	}
	rel := strings.TrimPrefix(fn.Pkg().Path(), c.l.mod+"/")
	recv := ""
	if r := fn.Type().(*types.Signature).Recv(); r != nil {
		t := r.Type()
		if p, ok := t.(*types.Pointer); ok {
			t = p.Elem()
		}
		if n, ok := t.(*types.Named); ok {
			recv = n.Obj().Name()
		}
	}
	for _, g := range c.group {
		if g.Pkg == rel && g.Name == fn.Name() && g.Recv == recv && g.Target == "" && g != c.spec {
			return g
		}
	}
	return nil
}

func (c *arCtx) extInput(fn *types.Func) *arInput {
	if fn.Pkg() == nil || fn.Pkg() != c.p.tp || fn.Type().(*types.Signature).Recv() != nil {
		return nil
	}
	for i, e := range c.spec.Ext {
		if e == fn.Name() {
			if inp, ok := c.ext[e]; ok {
				return inp
			}
			inp := &arInput{name: "ext_" + e, kind: 3, ord: [3]int{-1, i, 0}, fields: map[string]string{}, desc: "external function " + e}
			inp.fields[""] = "fun"
			c.ext[e] = inp
			c.inputs = append(c.inputs, inp)
			return inp
		}
	}
	return nil
}

// call of another listed function: numeric arguments only, external functions passed through
func (c *arCtx) listedCall(call *ast.CallExpr, g *arFn) *arTerm {
	if len(g.Opaque) > 0 || g.Recv != "" {
		c.fail(call, "call of listed function %s that has opaque inputs or a receiver", g.Name)
	}
	var ts []*arTerm
	for _, e := range g.Ext {
		found := false
		for _, e2 := range c.spec.Ext {
			if e2 == e {
				found = true
			}
		}
		if !found {
			c.fail(call, "listed function %s needs external %s which the caller does not declare", g.Name, e)
		}
		fo := c.p.tp.Scope().Lookup(e)
		f, _ := fo.(*types.Func)
		if f == nil {
			c.fail(call, "external function %s not found in the package", e)
		}
		ts = append(ts, arVar(c.extInput(f).name))
	}
	for _, a := range call.Args {
		ts = append(ts, c.num(a, c.expr(a)))
	}
	return arApp(g.Coq, ts...)
}

// lhs (may be nil): the assignment's left-hand sides; a result assigned to _ is not an input
func (c *arCtx) opaqueResult(call *ast.CallExpr, inp *arInput, sig *types.Signature, lhs []ast.Expr) *arVal {
	n := sig.Results().Len()
	if inp.fallible || inp.errRes {
		n--
	}
	if n == 1 {
		return c.rooted(call, inp, "", sig.Results().At(0).Type())
	}
	v := &arVal{}
	for i := 0; i < n; i++ {
		if i < len(lhs) {
			if id, ok := lhs[i].(*ast.Ident); ok && id.Name == "_" {
				v.tup = append(v.tup, &arVal{bad: "discarded result"})
				continue
			}
		}
		v.tup = append(v.tup, c.rooted(call, inp, fmt.Sprintf("r%d", i), sig.Results().At(i).Type()))
	}
	return v
}

// tolerant evaluation: a failure becomes a poisoned value
func (c *arCtx) tol(f func() *arVal) (v *arVal) {
	nb := len(c.binds)
	defer func() {
		if r := recover(); r != nil {
			if e, ok := r.(arErr); ok {
				c.binds = c.binds[:nb]
				v = &arVal{bad: e.msg}
				return
			}
			panic(r)
		}
	}()
	return f()
}

// ---------------------------------------------------------------- statements, whole-function mode

func (c *arCtx) take() []*arCode {
	b := c.binds
	c.binds = nil
	return b
}

func arWrap(bs []*arCode, inner *arCode) *arCode {
	for i := len(bs) - 1; i >= 0; i-- {
		b := *bs[i]
		b.a = inner
		inner = &b
	}
	return inner
}

func (c *arCtx) copyEnv() map[types.Object]*arVal {
	m := make(map[types.Object]*arVal, len(c.env))
	for k, v := range c.env {
		m[k] = v
	}
	return m
}

// does every path through the statements end in a return?
func arReturns(stmts []ast.Stmt) bool {
	if len(stmts) == 0 {
		return false
	}
	switch s := stmts[len(stmts)-1].(type) {
	case *ast.ReturnStmt:
		return true
	case *ast.BlockStmt:
		return arReturns(s.List)
	case *ast.IfStmt:
		if s.Else == nil {
			return false
		}
		var el []ast.Stmt
		switch e := s.Else.(type) {
		case *ast.BlockStmt:
			el = e.List
		default:
			el = []ast.Stmt{e}
		}
		return arReturns(s.Body.List) && arReturns(el)
	case *ast.ExprStmt:
		if call, ok := s.X.(*ast.CallExpr); ok {
			if id, ok := call.Fun.(*ast.Ident); ok && id.Name == "panic" {
				return true
			}
		}
	}
	return false
}

// is `s` the check `if err != nil { return ..., <err> }` for the error object o?
func (c *arCtx) errCheck(s ast.Stmt, o types.Object) bool {
	is, ok := s.(*ast.IfStmt)
	if !ok || is.Init != nil || is.Else != nil || len(is.Body.List) != 1 {
		return false
	}
	be, ok := is.Cond.(*ast.BinaryExpr)
	if !ok || be.Op != token.NEQ {
		return false
	}
	x, ok1 := be.X.(*ast.Ident)
	y, ok2 := be.Y.(*ast.Ident)
	if !ok1 || !ok2 || y.Name != "nil" || c.obj(x) != o {
		return false
	}
	rs, ok := is.Body.List[0].(*ast.ReturnStmt)
	if !ok || len(rs.Results) == 0 {
		return false
	}
	return c.mentions(rs.Results[len(rs.Results)-1], o)
}

func (c *arCtx) mentions(e ast.Expr, o types.Object) bool {
	found := false
	ast.Inspect(e, func(n ast.Node) bool {
		if id, ok := n.(*ast.Ident); ok && c.obj(id) == o {
			found = true
		}
		return true
	})
	return found
}

// objects declared before `from` that are assigned inside the statements, ordered by declaration
func (c *arCtx) assignedOuter(stmts []ast.Stmt, from token.Pos) []types.Object {
	seen := map[types.Object]bool{}
	var out []types.Object
	add := func(e ast.Expr) {
		if id, ok := e.(*ast.Ident); ok && id.Name != "_" {
			if o := c.p.info.Uses[id]; o != nil && c.p.info.Defs[id] == nil && o.Pos() < from && !seen[o] {
				if _, isVar := o.(*types.Var); isVar {
					seen[o] = true
					out = append(out, o)
				}
			}
		}
	}
	for _, s := range stmts {
		ast.Inspect(s, func(n ast.Node) bool {
			switch x := n.(type) {
			case *ast.AssignStmt:
				for _, l := range x.Lhs {
					add(l)
				}
			case *ast.IncDecStmt:
				add(x.X)
			case *ast.RangeStmt:
				if x.Tok == token.ASSIGN {
					add(x.Key)
					if x.Value != nil {
						add(x.Value)
					}
				}
			case *ast.UnaryExpr:
				if x.Op == token.AND {
					add(x.X)
				}
			}
			return true
		})
	}
	sort.Slice(out, func(i, j int) bool { return out[i].Pos() < out[j].Pos() })
	return out
}

func (c *arCtx) bindLhs(l ast.Expr, v *arVal) {
	id, ok := l.(*ast.Ident)
	if !ok {
		// x.F = e on a local struct value: the field is overridden (one level); anything deeper, or an
		// index, makes the whole local unavailable
		root := l
		for {
			switch y := root.(type) {
			case *ast.SelectorExpr:
				root = y.X
				continue
			case *ast.IndexExpr:
				root = y.X
				continue
			case *ast.StarExpr:
				root = y.X
				continue
			case *ast.ParenExpr:
				root = y.X
				continue
			}
			break
		}
		rid, isId := root.(*ast.Ident)
		if !isId {
			c.fail(l, "assignment to %s", c.src(l))
		}
		ro := c.obj(rid)
		old, tracked := c.env[ro]
		if !tracked {
			if c.slice {
				return // not a local of this function (package variable): never read by the translator
			}
			c.fail(l, "assignment to %s", c.src(l))
		}
		if sel, ok := l.(*ast.SelectorExpr); ok {
			if x, ok := sel.X.(*ast.Ident); ok && x == rid && (old.bad == "" || c.prune) && old.t == nil && old.tup == nil && !old.null {
				c.env[ro] = &arVal{rec: map[string]*arVal{sel.Sel.Name: v}, base: old}
				return
			}
		}
		if !c.slice {
			c.fail(l, "assignment to %s (only locals and their direct fields can be assigned)", c.src(l))
		}
		if c.prune && c.override(ro, old, l, v) {
			return
		}
		c.env[ro] = &arVal{bad: "assigned through " + c.src(l) + " at " + c.pos(l)}
		return
	}
	if id.Name == "_" {
		return
	}
	c.env[c.obj(id)] = v
}

// the error of a return statement's last result: "" (nil), or the registered error's code
func (c *arCtx) errorCode(e ast.Expr) (isNil bool, code int) {
	if id, ok := e.(*ast.Ident); ok && id.Name == "nil" {
		return true, 0
	}
	if call, ok := e.(*ast.CallExpr); ok {
		if fn, _ := c.callee(call); fn != nil && fn.Pkg() != nil && fn.Pkg().Path() == "cosmossdk.io/errors" && (fn.Name() == "Wrap" || fn.Name() == "Wrapf") && len(call.Args) >= 1 {
			return c.errorCode(call.Args[0])
		}
	}
	if call, ok := e.(*ast.CallExpr); ok {
		// an error made on the spot (no registered identity): the code the spec gives under "<unregistered>"
		if fn, _ := c.callee(call); fn != nil && fn.Pkg() != nil && (fn.Pkg().Path() == "fmt" && fn.Name() == "Errorf" || fn.Pkg().Path() == "errors" && fn.Name() == "New") {
			if code, ok := c.spec.Errs["<unregistered>"]; ok {
				return false, code
			}
		}
	}
	name := ""
	switch x := e.(type) {
	case *ast.Ident:
		name = x.Name
	case *ast.SelectorExpr:
		name = x.Sel.Name
	}
	if code, ok := c.spec.Errs[name]; ok && name != "" {
		return false, code
	}
	c.fail(e, "returned error %s is not a registered error of the spec", c.src(e))
	return false, 0
}

func (c *arCtx) retTuple(n ast.Node, es []ast.Expr) *arTerm {
	t := &arTerm{k: "tup"}
	for _, e := range es {
		t.args = append(t.args, c.num(e, c.expr(e)))
	}
	if len(t.args) == 0 {
		c.fail(n, "return without a value")
	}
	return t
}

func (c *arCtx) fallibleResults(sig *types.Signature) bool {
	n := sig.Results().Len()
	return n > 0 && arClass(sig.Results().At(n-1).Type()) == "E"
}

// block translates the statements; k produces the code at fall-through (nil: falling through is an error)
func (c *arCtx) block(stmts []ast.Stmt, k func() *arCode, end ast.Node) *arCode {
	if len(stmts) == 0 {
		if k == nil {
			c.fail(end, "control reaches the end of the function without a return")
		}
		return k()
	}
	s := stmts[0]
	rest := stmts[1:]
	switch x := s.(type) {
	case *ast.BlockStmt:
		return c.block(append(append([]ast.Stmt{}, x.List...), rest...), k, end)
	case *ast.EmptyStmt:
		return c.block(rest, k, end)
	case *ast.ReturnStmt:
		sig := c.p.info.Defs[c.fn.Name].Type().(*types.Signature)
		if c.fallibleResults(sig) {
			if len(x.Results) == 1 && sig.Results().Len() > 1 {
				c.fail(x, "return of a multi-value call: %s", c.src(x))
			}
			if len(x.Results) == 0 {
				c.fail(x, "bare return with named results")
			}
			isNil, code := c.errorCode(x.Results[len(x.Results)-1])
			if !isNil {
				return arWrap(c.take(), &arCode{k: "fail", s: "Err", n: code})
			}
			t := c.retTuple(x, x.Results[:len(x.Results)-1])
			return arWrap(c.take(), &arCode{k: "ret", t: t})
		}
		t := c.retTuple(x, x.Results)
		return arWrap(c.take(), &arCode{k: "ret", t: t})
	case *ast.DeclStmt:
		gd, ok := x.Decl.(*ast.GenDecl)
		if ok && gd.Tok == token.VAR {
			for _, sp := range gd.Specs {
				vs := sp.(*ast.ValueSpec)
				for i, id := range vs.Names {
					if i < len(vs.Values) {
						c.env[c.obj(id)] = c.expr(vs.Values[i])
					} else if cl := arClass(c.obj(id).Type()); cl == "N" || cl == "U" {
						c.env[c.obj(id)] = &arVal{t: arZero}
					} else {
						c.env[c.obj(id)] = &arVal{bad: "zero value of " + id.Name}
					}
				}
			}
			bs := c.take()
			return arWrap(bs, c.block(rest, k, end))
		}
		c.fail(s, "declaration %s", c.src(s))
	case *ast.AssignStmt:
		if x.Tok != token.DEFINE && x.Tok != token.ASSIGN {
			c.fail(s, "assignment operator %s", x.Tok)
		}
		// fallible call + error check
		if len(x.Rhs) == 1 && len(x.Lhs) >= 2 {
			call, ok := x.Rhs[0].(*ast.CallExpr)
			if !ok {
				c.fail(s, "multi-value assignment from %s", c.src(x.Rhs[0]))
			}
			fn, full := c.callee(call)
			if fn == nil {
				c.fail(s, "call of a function value")
			}
			sig := fn.Type().(*types.Signature)
			if !c.fallibleResults(sig) {
				// multi-value opaque reader without error
				if inp, ok := c.opq[call]; ok {
					v := c.opaqueResult(call, inp, sig, x.Lhs)
					for i, l := range x.Lhs {
						c.bindLhs(l, v.tup[i])
					}
					return c.block(rest, k, end)
				}
				c.fail(s, "multi-value call of %s", full)
			}
			errId, ok := x.Lhs[len(x.Lhs)-1].(*ast.Ident)
			if !ok || len(rest) == 0 || !c.errCheck(rest[0], c.obj(errId)) {
				c.fail(s, "fallible call of %s is not followed by `if err != nil { return ..., err }`", full)
			}
			var bind *arCode
			var vals []*arVal
			if inp, ok := c.opq[call]; ok {
				v := c.opaqueResult(call, inp, sig, x.Lhs)
				if v.tup != nil {
					vals = v.tup
				} else {
					vals = []*arVal{v}
				}
				bind = &arCode{k: "bind", inp: inp, rhsT: arVar(arIdent(inp.name))}
				c.usedInp[inp] = true
			} else if g := c.listed(fn); g != nil {
				t := c.listedCall(call, g)
				var pat []*arTerm
				for i := 0; i < sig.Results().Len()-1; i++ {
					v := c.fresh()
					pat = append(pat, v)
					vals = append(vals, &arVal{t: v, bool: arClass(sig.Results().At(i).Type()) == "B"})
				}
				bind = &arCode{k: "bind", pat: pat, rhsT: t}
			} else {
				c.fail(s, "fallible call of %s: neither a listed function nor a declared opaque reader", full)
			}
			pre := c.take()
			for i, l := range x.Lhs[:len(x.Lhs)-1] {
				c.bindLhs(l, vals[i])
			}
			bind.a = c.block(rest[1:], k, end)
			return arWrap(pre, bind)
		}
		if len(x.Lhs) != len(x.Rhs) {
			c.fail(s, "assignment %s", c.src(s))
		}
		var vals []*arVal
		for _, r := range x.Rhs {
			vals = append(vals, c.expr(r))
		}
		for i, l := range x.Lhs {
			c.bindLhs(l, vals[i])
		}
		bs := c.take()
		return arWrap(bs, c.block(rest, k, end))
	case *ast.IfStmt:
		if x.Init != nil {
			c.fail(s, "if with an init statement: %s", c.src(x.Init))
		}
		cond := c.num(x.Cond, c.expr(x.Cond))
		pre := c.take()
		var els []ast.Stmt
		if x.Else != nil {
			switch e := x.Else.(type) {
			case *ast.BlockStmt:
				els = e.List
			default:
				els = []ast.Stmt{e}
			}
		}
		thenRet, elseRet := arReturns(x.Body.List), x.Else != nil && arReturns(els)
		saved := c.copyEnv()
		switch {
		case thenRet && (x.Else == nil || elseRet):
			a := c.block(x.Body.List, nil, x.Body)
			c.env = saved
			var b *arCode
			if x.Else == nil {
				b = c.block(rest, k, end)
			} else {
				b = c.block(els, nil, x.Else)
			}
			return arWrap(pre, &arCode{k: "if", t: cond, a: a, b: b})
		case !c.hasPlainReturn(x.Body.List) && !c.hasPlainReturn(els):
			// no return on any path except error propagation: join the assigned variables
			var outer []types.Object
			for _, o := range c.assignedOuter(append(append([]ast.Stmt{}, x.Body.List...), els...), x.Pos()) {
				if cl := arClass(o.Type()); arNumeric(cl) || cl == "B" {
					outer = append(outer, o)
				} else if cl != "E" {
					c.fail(x, "non-numeric local %s assigned under a condition", o.Name())
				}
			}
			tuple := func() *arCode {
				t := &arTerm{k: "tup"}
				for _, o := range outer {
					t.args = append(t.args, c.num(x, c.env[o]))
				}
				return &arCode{k: "ret", t: t}
			}
			a := c.block(x.Body.List, tuple, x.Body)
			c.env = c.copyEnvFrom(saved)
			b := c.block(els, tuple, x)
			c.env = c.copyEnvFrom(saved)
			if a.k == "ret" && b.k == "ret" {
				for i, o := range outer {
					ta, tb := a.t.args[i], b.t.args[i]
					if arSame(ta, tb) {
						c.env[o] = &arVal{t: ta, bool: c.env[o].bool}
					} else {
						c.env[o] = &arVal{t: arIte(cond, ta, tb), bool: c.env[o].bool}
					}
				}
				return arWrap(pre, c.block(rest, k, end))
			}
			var pat []*arTerm
			for _, o := range outer {
				v := c.fresh()
				pat = append(pat, v)
				c.env[o] = &arVal{t: v, bool: c.env[o].bool}
			}
			if len(pat) == 0 {
				pat = []*arTerm{c.fresh()}
			}
			bind := &arCode{k: "bind", pat: pat, rhsC: &arCode{k: "if", t: cond, a: a, b: b}}
			bind.a = c.block(rest, k, end)
			return arWrap(pre, bind)
		default:
			// mixed: duplicate the continuation
			a := c.block(append(append([]ast.Stmt{}, x.Body.List...), rest...), k, end)
			c.env = saved
			b := c.block(append(append([]ast.Stmt{}, els...), rest...), k, end)
			return arWrap(pre, &arCode{k: "if", t: cond, a: a, b: b})
		}
	case *ast.ExprStmt:
		if call, ok := x.X.(*ast.CallExpr); ok {
			if id, ok := call.Fun.(*ast.Ident); ok && id.Name == "panic" {
				return arWrap(c.take(), &arCode{k: "fail", s: "Panic", n: 0})
			}
		}
		c.fail(s, "statement with an effect: %s", c.src(s))
	}
	c.fail(s, "statement %T: %s", s, c.src(s))
	return nil
}

func (c *arCtx) copyEnvFrom(m map[types.Object]*arVal) map[types.Object]*arVal {
	out := make(map[types.Object]*arVal, len(m))
	for k, v := range m {
		out[k] = v
	}
	return out
}

// a return statement that is not the body of an error check following a fallible call
func (c *arCtx) hasPlainReturn(stmts []ast.Stmt) bool {
	found := false
	var walk func(list []ast.Stmt)
	walk = func(list []ast.Stmt) {
		for i, s := range list {
			switch x := s.(type) {
			case *ast.ReturnStmt:
				found = true
			case *ast.BlockStmt:
				walk(x.List)
			case *ast.IfStmt:
				if i > 0 {
					if as, ok := list[i-1].(*ast.AssignStmt); ok && len(as.Lhs) >= 2 {
						if id, ok := as.Lhs[len(as.Lhs)-1].(*ast.Ident); ok && c.errCheck(s, c.obj(id)) {
							continue
						}
					}
				}
				walk(x.Body.List)
				if x.Else != nil {
					walk([]ast.Stmt{x.Else})
				}
			case *ast.ExprStmt:
				if call, ok := x.X.(*ast.CallExpr); ok {
					if id, ok := call.Fun.(*ast.Ident); ok && id.Name == "panic" {
						found = true
					}
				}
			}
		}
	}
	walk(stmts)
	return found
}

// ---------------------------------------------------------------- statements, slice mode

func arContains(n ast.Node, target ast.Node) bool {
	return target != nil && n.Pos() <= target.Pos() && target.End() <= n.End()
}

func (c *arCtx) poison(os []types.Object, why string) {
	for _, o := range os {
		c.env[o] = &arVal{bad: why}
	}
}

func (c *arCtx) target() ast.Node {
	if c.tgtCall != nil {
		return c.tgtCall
	}
	if c.tgtExpr != nil {
		return c.tgtExpr
	}
	return c.tgtIf
}

// follows the target path inside the target call: argument i, then through nested constructor calls
func (c *arCtx) evalTarget() *arVal {
	call := c.tgtCall
	for i, st := range c.tgtPath {
		if st.arg >= len(call.Args) {
			c.fail(call, "target call has no argument %d", st.arg)
		}
		a := call.Args[st.arg]
		if i == len(c.tgtPath)-1 {
			v := c.expr(a)
			t := c.typeOf(a)
			for _, f := range c.tgtFields {
				if t != nil {
					t = arFieldType(t, f)
				}
				if t == nil {
					c.fail(a, "target field %s: not a field of the argument's type", f)
				}
				v = c.sel(a, v, f, t)
			}
			return v
		}
		next := c.tgtPath[i+1]
		// resolve the argument to a call of the expected constructor: directly, or through a local
		e := a
		for depth := 0; depth < 8; depth++ {
			if p, ok := e.(*ast.ParenExpr); ok {
				e = p.X
				continue
			}
			if cl, ok := e.(*ast.CompositeLit); ok && len(cl.Elts) == 1 {
				e = cl.Elts[0]
				continue
			}
			if id, ok := e.(*ast.Ident); ok {
				if d, ok := c.defs[c.obj(id)]; ok {
					e = d
					continue
				}
			}
			break
		}
		nc, ok := e.(*ast.CallExpr)
		if !ok {
			c.fail(a, "target path: %s is not a call of %s", c.src(a), next.callee)
		}
		if _, full := c.callee(nc); full != next.callee {
			c.fail(a, "target path: expected a call of %s, found %s", next.callee, full)
		}
		call = nc
		// the remaining steps are evaluated in the environment of the definition site
		if env, ok := c.defEnv[nc]; ok {
			saved := c.env
			c.env = env
			defer func() { c.env = saved }()
		}
	}
	return nil
}

func (c *arCtx) walk(stmts []ast.Stmt) {
	for _, s := range stmts {
		if c.found != nil {
			return
		}
		c.walkStmt(s)
	}
}

func (c *arCtx) walkStmt(s ast.Stmt) {
	tgt := c.target()
	has := arContains(s, tgt)
	// a pointer to a tracked local escapes: its value is no longer known
	ast.Inspect(s, func(n ast.Node) bool {
		if u, ok := n.(*ast.UnaryExpr); ok && u.Op == token.AND {
			if id, ok := u.X.(*ast.Ident); ok {
				if o := c.obj(id); o != nil {
					if v, ok := c.env[o]; ok && v.t != nil {
						c.env[o] = &arVal{bad: "address of " + id.Name + " taken at " + c.pos(u)}
					}
				}
			}
		}
		return true
	})
	// a closure may assign the locals it captures at any later time
	ast.Inspect(s, func(n ast.Node) bool {
		if fl, ok := n.(*ast.FuncLit); ok {
			c.poison(c.assignedOuter([]ast.Stmt{fl.Body}, fl.Pos()), "assigned inside a closure at "+c.pos(fl))
			return false
		}
		return true
	})
	// a method with a pointer receiver called on a tracked local may change it (declared readers excepted)
	if _, compound := s.(*ast.BlockStmt); !compound {
		ast.Inspect(s, func(n ast.Node) bool {
			switch n.(type) {
			case *ast.BlockStmt, *ast.FuncLit:
				return false // nested statements are visited on their own
			}
			call, ok := n.(*ast.CallExpr)
			if !ok {
				return true
			}
			sel, ok := call.Fun.(*ast.SelectorExpr)
			if !ok {
				return true
			}
			id, ok := sel.X.(*ast.Ident)
			if !ok {
				return true
			}
			fn, _ := c.callee(call)
			if fn == nil {
				return true
			}
			if _, declared := c.opq[call]; declared {
				return true
			}
			if r := fn.Type().(*types.Signature).Recv(); r != nil {
				if _, ptr := r.Type().(*types.Pointer); ptr {
					if o := c.obj(id); o != nil {
						if _, tracked := c.env[o]; tracked {
							c.env[o] = &arVal{bad: "may be changed by the pointer-receiver method " + fn.Name() + " at " + c.pos(call)}
						}
					}
				}
			}
			return true
		})
	}
	switch x := s.(type) {
	case *ast.BlockStmt:
		c.walk(x.List)
		return
	case *ast.AssignStmt:
		if has {
			break
		}
		if x.Tok != token.DEFINE && x.Tok != token.ASSIGN {
			for _, l := range x.Lhs {
				if id, ok := l.(*ast.Ident); ok {
					c.env[c.obj(id)] = &arVal{bad: "compound assignment at " + c.pos(s)}
				}
			}
			return
		}
		if len(x.Rhs) == 1 && len(x.Lhs) >= 2 {
			v := c.tol(func() *arVal {
				call, ok := x.Rhs[0].(*ast.CallExpr)
				if !ok {
					c.fail(s, "multi-value assignment")
				}
				inp, ok := c.opq[call]
				if !ok {
					_, full := c.callee(call)
					c.fail(s, "multi-value call of %s", full)
				}
				fn, _ := c.callee(call)
				sig := fn.Type().(*types.Signature)
				r := c.opaqueResult(call, inp, sig, x.Lhs)
				if r.tup == nil {
					r = &arVal{tup: []*arVal{r}}
				}
				return r
			})
			for i, l := range x.Lhs {
				switch {
				case v.bad != "":
					c.bindLhs(l, v)
				case i < len(v.tup):
					c.bindLhs(l, v.tup[i])
				case i == len(x.Lhs)-1 && c.errInputOf(x.Rhs[0]) != nil:
					c.bindLhs(l, &arVal{ein: c.errInputOf(x.Rhs[0])})
				default:
					c.bindLhs(l, &arVal{bad: "error value"})
				}
			}
			return
		}
		if len(x.Lhs) != len(x.Rhs) {
			return
		}
		var vals []*arVal
		for _, r := range x.Rhs {
			r := r
			vals = append(vals, c.tol(func() *arVal { return c.expr(r) }))
			if call, ok := r.(*ast.CallExpr); ok {
				c.defEnv[call] = c.copyEnv()
			}
		}
		for i, l := range x.Lhs {
			c.bindLhs(l, vals[i])
			if id, ok := l.(*ast.Ident); ok && id.Name != "_" {
				c.defs[c.obj(id)] = x.Rhs[i]
			}
		}
		return
	case *ast.DeclStmt:
		if gd, ok := x.Decl.(*ast.GenDecl); ok && gd.Tok == token.VAR {
			for _, sp := range gd.Specs {
				vs := sp.(*ast.ValueSpec)
				for i, id := range vs.Names {
					if i < len(vs.Values) {
						e := vs.Values[i]
						c.env[c.obj(id)] = c.tol(func() *arVal { return c.expr(e) })
					} else if cl := arClass(c.obj(id).Type()); cl == "N" || cl == "U" {
						c.env[c.obj(id)] = &arVal{t: arZero}
					} else {
						c.env[c.obj(id)] = &arVal{bad: "zero value of " + id.Name}
					}
				}
			}
		}
		return
	case *ast.IncDecStmt:
		if id, ok := x.X.(*ast.Ident); ok {
			c.env[c.obj(id)] = &arVal{bad: "++/-- at " + c.pos(s)}
		}
		return
	case *ast.IfStmt:
		if x.Init != nil {
			c.walkStmt(x.Init)
			if c.found != nil {
				return
			}
		}
		if c.tgtIf == x {
			c.found = c.expr(x.Cond)
			return
		}
		var els []ast.Stmt
		if x.Else != nil {
			els = []ast.Stmt{x.Else}
		}
		if has {
			pc := c.pathCondOf(x, tgt)
			if arContains(x.Body, tgt) {
				c.walk(x.Body.List)
			} else if x.Else != nil && arContains(x.Else, tgt) {
				c.walk(els)
			} else {
				c.fail(s, "target inside the condition of an if statement")
			}
			if c.found == nil {
				c.fail(s, "target not reached inside %s", c.src(s))
			}
			c.applyPathCond(x, pc)
			return
		}
		cond := c.tol(func() *arVal { return &arVal{t: c.num(x.Cond, c.expr(x.Cond)), bool: true} })
		outer := c.assignedOuter(append([]ast.Stmt{x.Body}, els...), x.Pos())
		saved := c.copyEnv()
		c.walk(x.Body.List)
		envA := c.env
		c.env = c.copyEnvFrom(saved)
		c.walk(els)
		envB := c.env
		c.env = saved
		for _, o := range outer {
			va, vb := envA[o], envB[o]
			switch {
			case va == nil || vb == nil:
				c.env[o] = &arVal{bad: "assigned under a condition before being defined"}
			case va.bad != "":
				c.env[o] = va
			case vb.bad != "":
				c.env[o] = vb
			case va.t == nil || vb.t == nil:
				if va != vb {
					if cond.bad != "" || va.t != nil || vb.t != nil || va.tup != nil || vb.tup != nil {
						c.env[o] = &arVal{bad: "non-numeric value assigned under a condition at " + c.pos(s)}
					} else {
						c.env[o] = &arVal{phi: &arPhi{cond.t, va, vb}}
					}
				}
			case arSame(va.t, vb.t):
				c.env[o] = va
			case cond.bad != "":
				c.env[o] = &arVal{bad: "assigned under a condition that is out of scope (" + cond.bad + ")"}
			default:
				c.env[o] = &arVal{t: arIte(cond.t, va.t, vb.t), bool: va.bool}
			}
		}
		return
	case *ast.RangeStmt:
		if c.prune {
			c.walkRange2(x, has)
			return
		}
		outer := c.assignedOuter([]ast.Stmt{x.Body}, x.Pos())
		if !has {
			c.poison(outer, "assigned inside the loop at "+c.pos(s))
			return
		}
		if !arContains(x.Body, tgt) {
			c.fail(s, "target in the header of a range statement")
		}
		c.poison(outer, "loop-carried variable of the loop at "+c.pos(s))
		if id, ok := x.Key.(*ast.Ident); ok && id.Name != "_" {
			c.env[c.obj(id)] = &arVal{bad: "loop index"}
		}
		if id, ok := x.Value.(*ast.Ident); ok && id.Name != "_" && x.Tok == token.DEFINE {
			inp := &arInput{name: id.Name, kind: 2, ord: [3]int{1 << 20, len(c.inputs), 0}, fields: map[string]string{}, desc: "element of " + c.src(x.X)}
			c.inputs = append(c.inputs, inp)
			c.env[c.obj(id)] = c.rooted(id, inp, "", c.obj(id).Type())
		}
		c.walk(x.Body.List)
		if c.found == nil {
			c.fail(s, "target not reached inside the loop body")
		}
		return
	case *ast.ForStmt, *ast.SwitchStmt, *ast.TypeSwitchStmt, *ast.SelectStmt:
		if sw, ok := s.(*ast.SwitchStmt); ok && has {
			c.walkSwitch(sw)
			return
		}
		if fs, ok := s.(*ast.ForStmt); ok && has {
			c.walkFor(fs)
			return
		}
		if fs, ok := s.(*ast.ForStmt); ok && c.prune {
			c.afterLoop(c.assignedOuter([]ast.Stmt{fs}, fs.Pos()), fs)
			return
		}
		if has {
			c.fail(s, "target inside %T", s)
		}
		c.poison(c.assignedOuter([]ast.Stmt{s}, s.Pos()), "assigned inside "+c.src(s))
		return
	}
	if has {
		if c.tgtExpr != nil {
			c.found = c.expr(c.tgtExpr)
			return
		}
		if c.tgtCall == nil {
			c.fail(s, "target statement %T", s)
		}
		c.found = c.evalTarget()
		return
	}
	// return / expression / defer / go / branch statements do not change the value of a tracked local
}

// ---------------------------------------------------------------- one function

func arFindFunc(p *detPkg, recv, name string) *ast.FuncDecl {
	for _, f := range p.files {
		for _, d := range f.Decls {
			fd, ok := d.(*ast.FuncDecl)
			if !ok || fd.Name.Name != name || fd.Body == nil {
				continue
			}
			r := ""
			if fd.Recv != nil && len(fd.Recv.List) == 1 {
				t := fd.Recv.List[0].Type
				if s, ok := t.(*ast.StarExpr); ok {
					t = s.X
				}
				if id, ok := t.(*ast.Ident); ok {
					r = id.Name
				}
			}
			if r == recv {
				return fd
			}
		}
	}
	return nil
}

func (c *arCtx) parseTarget() {
	t := c.spec.Target
	switch {
	case strings.HasPrefix(t, "guard:"):
		want := strings.TrimPrefix(t, "guard:")
		var hits []*ast.IfStmt
		ast.Inspect(c.fn.Body, func(n ast.Node) bool {
			is, ok := n.(*ast.IfStmt)
			if !ok || len(is.Body.List) != 1 {
				return true
			}
			rs, ok := is.Body.List[0].(*ast.ReturnStmt)
			if !ok || len(rs.Results) == 0 {
				return true
			}
			m := false
			ast.Inspect(rs.Results[len(rs.Results)-1], func(n ast.Node) bool {
				if id, ok := n.(*ast.Ident); ok && id.Name == want {
					m = true
				}
				return true
			})
			if m {
				hits = append(hits, is)
			}
			return true
		})
		if len(hits) != 1 {
			c.fail(c.fn, "target %s: %d if statements return that error (want exactly 1)", t, len(hits))
		}
		c.tgtIf = hits[0]
	case strings.HasPrefix(t, "callarg:"):
		steps := strings.Split(strings.TrimPrefix(t, "callarg:"), ">")
		// first step: <callee>#<k>:<i>, following steps: <callee>#<i>
		first := steps[0]
		h := strings.LastIndex(first, "#")
		col := strings.LastIndex(first, ":")
		if h < 0 || col < h {
			c.fail(c.fn, "malformed target %s", t)
		}
		callee := first[:h]
		k, _ := strconv.Atoi(first[h+1 : col])
		// the last step may end in .Field(.Field)*: a field of the struct argument
		last := steps[len(steps)-1]
		if h2 := strings.LastIndex(last, "#"); h2 >= 0 {
			if dot := strings.Index(last[h2:], "."); dot >= 0 {
				c.tgtFields = strings.Split(last[h2+dot+1:], ".")
				steps[len(steps)-1] = last[:h2+dot]
				if len(steps) == 1 {
					first = steps[0]
					col = strings.LastIndex(first, ":")
				}
			}
		}
		ai, _ := strconv.Atoi(first[col+1:])
		c.tgtPath = []arStep{{callee, ai}}
		for _, st := range steps[1:] {
			h := strings.LastIndex(st, "#")
			if h < 0 {
				c.fail(c.fn, "malformed target %s", t)
			}
			a, _ := strconv.Atoi(st[h+1:])
			c.tgtPath = append(c.tgtPath, arStep{st[:h], a})
		}
		n := 0
		ast.Inspect(c.fn.Body, func(nd ast.Node) bool {
			if call, ok := nd.(*ast.CallExpr); ok {
				if _, full := c.callee(call); full == callee {
					n++
					if n == k {
						c.tgtCall = call
					}
				}
			}
			return true
		})
		if c.tgtCall == nil {
			c.fail(c.fn, "target %s: the function has %d calls of %s", t, n, callee)
		}
	default:
		if !c.parseTarget2(t) {
			c.fail(c.fn, "malformed target %s", t)
		}
	}
}

func arTranslate(l *detLoader, spec *arFn, group []*arFn) (out string, err error) {
	p := l.pkgs[l.mod+"/"+spec.Pkg]
	if p == nil || p.info == nil {
		return "", fmt.Errorf("package %s not loaded", spec.Pkg)
	}
	fd := arFindFunc(p, spec.Recv, spec.Name)
	if fd == nil {
		return "", fmt.Errorf("%s: function %s (receiver %q) not found", spec.Pkg, spec.Name, spec.Recv)
	}
	c := &arCtx{l: l, p: p, spec: spec, group: group, fn: fd, env: map[types.Object]*arVal{}, opq: map[*ast.CallExpr]*arInput{},
		ext: map[string]*arInput{}, usedInp: map[*arInput]bool{}, slice: spec.Target != "", defs: map[types.Object]ast.Expr{}, defEnv: map[*ast.CallExpr]map[types.Object]*arVal{}}
	defer func() {
		if r := recover(); r != nil {
			if e, ok := r.(arErr); ok {
				err = fmt.Errorf("%s", e.msg)
				return
			}
			panic(r)
		}
	}()
	sig, _ := p.info.Defs[fd.Name].Type().(*types.Signature)
	if sig == nil {
		c.fail(fd, "no type information for the function")
	}
	c.res = spec.Checked || c.fallibleResults(sig) || len(spec.Ext) > 0
	// parameters
	np := 0
	addParam := func(id *ast.Ident) {
		if id == nil || id.Name == "_" {
			return
		}
		o := c.obj(id)
		inp := &arInput{name: id.Name, kind: 0, ord: [3]int{0, np, 0}, fields: map[string]string{}, desc: "parameter " + id.Name}
		np++
		c.inputs = append(c.inputs, inp)
		v := c.rooted(id, inp, "", o.Type())
		if v.t != nil {
			// numeric parameters are always part of the signature, used or not
			inp.fields[""] = map[bool]string{false: "Z", true: "bool"}[v.bool]
		}
		c.env[o] = v
	}
	if fd.Recv != nil {
		for _, f := range fd.Recv.List {
			for _, id := range f.Names {
				addParam(id)
			}
		}
	}
	for _, f := range fd.Type.Params.List {
		for _, id := range f.Names {
			addParam(id)
		}
	}
	if fd.Type.Results != nil {
		for _, f := range fd.Type.Results.List {
			for _, id := range f.Names {
				o := c.obj(id)
				if cl := arClass(o.Type()); cl == "I" || cl == "D" || cl == "N" {
					c.env[o] = &arVal{bad: "named result " + id.Name + " read before assignment"}
				} else {
					c.env[o] = &arVal{bad: "named result " + id.Name}
				}
			}
		}
	}
	// opaque readers: every call of a declared callee, numbered in source order
	count := map[string]int{}
	ast.Inspect(fd.Body, func(n ast.Node) bool {
		call, ok := n.(*ast.CallExpr)
		if !ok {
			return true
		}
		fn, full := c.callee(call)
		if fn == nil {
			return true
		}
		for i, o := range spec.Opaque {
			if o == full {
				count[full]++
				s := fn.Type().(*types.Signature)
				inp := &arInput{name: fmt.Sprintf("%s%d", fn.Name(), count[full]), kind: 1, ord: [3]int{1, i, count[full]},
					fallible: c.fallibleResults(s) && !c.slice, errRes: c.fallibleResults(s) && c.slice, fields: map[string]string{}, desc: fmt.Sprintf("result of call %d of %s", count[full], full)}
				c.opq[call] = inp
				c.inputs = append(c.inputs, inp)
			}
		}
		return true
	})
	var body strings.Builder
	resultType := ""
	if c.slice {
		if spec.Checked {
			c.fail(fd, "slice targets are translated in pure mode only")
		}
		c.res = false
		c.prune = arIsSpec2(spec)
		c.parseTarget()
		c.walk(fd.Body.List)
		if c.found == nil {
			c.fail(fd, "target %s not reached", spec.Target)
		}
		t := c.num(c.target(), c.found)
		if len(c.binds) > 0 {
			c.fail(fd, "slice depends on a fallible or checked operation")
		}
		c.pruneErrFields(t)
		body.WriteString("  " + t.String())
		resultType = "Z"
		if c.found.bool {
			resultType = "bool"
		}
	} else {
		code := c.block(fd.Body.List, nil, fd.Body)
		code.print(&body, "  ", c.res)
		n := sig.Results().Len()
		if c.fallibleResults(sig) {
			n--
		}
		var ts []string
		for i := 0; i < n; i++ {
			switch arClass(sig.Results().At(i).Type()) {
			case "B":
				ts = append(ts, "bool")
			default:
				ts = append(ts, "Z")
			}
		}
		resultType = strings.Join(ts, " * ")
		if c.res {
			if n > 1 {
				resultType = "(" + resultType + ")"
			}
			resultType = "res " + resultType
		}
	}
	// signature
	sort.SliceStable(c.inputs, func(i, j int) bool {
		a, b := c.inputs[i].ord, c.inputs[j].ord
		for k := 0; k < 3; k++ {
			if a[k] != b[k] {
				return a[k] < b[k]
			}
		}
		return false
	})
	var params, doc []string
	used := map[string]bool{}
	for _, inp := range c.inputs {
		if len(inp.fields) == 0 && !(inp.fallible && c.usedFallible(inp)) {
			continue
		}
		switch {
		case inp.kind == 3:
			ar := "Z -> Z -> res Z"
			if inp.sig != "" {
				ar = inp.sig
			}
			params = append(params, fmt.Sprintf("(%s : %s)", inp.name, ar))
			doc = append(doc, fmt.Sprintf("%s : %s", inp.name, inp.desc))
		case inp.fallible:
			var ts []string
			for _, pth := range inp.paths() {
				ts = append(ts, inp.fields[pth])
			}
			ty := "unit"
			if len(ts) == 1 {
				ty = ts[0]
			} else if len(ts) > 1 {
				ty = "(" + strings.Join(ts, " * ") + ")"
			}
			params = append(params, fmt.Sprintf("(%s : res %s)", arIdent(inp.name), ty))
			doc = append(doc, fmt.Sprintf("%s : %s, components (%s)", arIdent(inp.name), inp.desc, strings.Join(arPathDoc(inp.paths()), ", ")))
		default:
			for _, pth := range inp.paths() {
				n := inp.fieldName(pth)
				if used[n] {
					return "", fmt.Errorf("%s.%s: parameter name %s is not unique", spec.Pkg, spec.Name, n)
				}
				used[n] = true
				params = append(params, fmt.Sprintf("(%s : %s)", n, inp.fields[pth]))
				what := inp.desc
				if pth != "" {
					what += " ." + pth
				}
				doc = append(doc, n+" : "+what)
			}
		}
	}
	var sb strings.Builder
	mode := "pure mode (range panics and division by zero are not modelled)"
	if spec.Checked {
		mode = "checked mode (Base/ZdecChk.v)"
	}
	fname := spec.Name
	if spec.Recv != "" {
		fname = "(" + spec.Recv + ")." + spec.Name
	}
	sb.WriteString(fmt.Sprintf("(* %s %s, %s", spec.Pkg, fname, mode))
	if spec.Target != "" {
		sb.WriteString("\n   slice: " + spec.Target)
	}
	for _, d := range doc {
		sb.WriteString("\n     " + d)
	}
	sb.WriteString(" *)\n")
	hdr := sb.String()
	sb.Reset()
	// Go's "(*T).m" must not open a nested Coq comment
	sb.WriteString("(*" + strings.ReplaceAll(strings.ReplaceAll(hdr[2:len(hdr)-3], "(*", "( *"), "*)", "* )") + "*)\n")
	sb.WriteString(fmt.Sprintf("Definition %s %s : %s :=\n%s.\n", spec.Coq, strings.Join(params, " "), resultType, body.String()))
	return sb.String(), nil
}

func (c *arCtx) usedFallible(inp *arInput) bool { return c.usedInp[inp] }

// ---------------------------------------------------------------- driver

func arNewLoader(repo string) (*detLoader, error) {
	build.Default.CgoEnabled = false
	l := &detLoader{fset: token.NewFileSet(), repo: repo, pkgs: map[string]*detPkg{}, busy: map[string]bool{}, stubs: map[string]*types.Package{}, stdFail: map[string]bool{}}
	l.modcache = os.Getenv("GOMODCACHE")
	if l.modcache == "" {
		gp := os.Getenv("GOPATH")
		if gp == "" {
			if h, err := os.UserHomeDir(); err == nil {
				gp = filepath.Join(h, "go")
			}
		}
		l.modcache = filepath.Join(strings.Split(gp, string(os.PathListSeparator))[0], "pkg", "mod")
	}
	if err := l.readGoMod(); err != nil {
		return nil, err
	}
	std, ok := importer.ForCompiler(l.fset, "source", nil).(types.ImporterFrom)
	if !ok {
		return nil, fmt.Errorf("no source importer")
	}
	l.std = std
	// the numeric types first, so that every later package sees the real cosmossdk.io/math and sdk types
	for _, path := range []string{"cosmossdk.io/math", "cosmossdk.io/errors", arSDK} {
		if d := l.moduleDir(path); d != "" {
			l.load(path, d, false, 1)
		}
		if p := l.pkgs[path]; p == nil || p.tp == nil {
			return nil, fmt.Errorf("cannot type-check %s from the module cache", path)
		}
	}
	return l, nil
}

func genArith(kind, repo, out string) error {
	repo, _ = filepath.Abs(repo)
	group := strings.TrimPrefix(kind, "arith")
	var fns []*arFn
	for i := range arSpecs {
		if arSpecs[i].Group == group {
			fns = append(fns, &arSpecs[i])
		}
	}
	for i := range arSpecs2 {
		if arSpecs2[i].Group == group {
			fns = append(fns, &arSpecs2[i])
		}
	}
	if len(fns) == 0 {
		return fmt.Errorf("no functions listed for group %q", group)
	}
	l, err := arNewLoader(repo)
	if err != nil {
		return err
	}
	for _, f := range fns {
		l.load(l.mod+"/"+f.Pkg, filepath.Join(repo, f.Pkg), true, 0)
	}
	var sb strings.Builder
	sb.WriteString("(* GENERATED by tools/gotrans arith" + group + " from the Go sources; do not edit.\n")
	sb.WriteString("   One definition per listed Go function; Proofs/ArithTie" + group + ".v proves each equal to the hand-written model. *)\n")
	sb.WriteString("From Coq Require Import ZArith Bool.\nFrom Elys Require Import Base.Res Base.Zdec Base.ZdecChk" + arExtraImports(fns) + ".\nOpen Scope Z_scope.\n\n")
	var errs []string
	for _, f := range fns {
		txt, err := arTranslate(l, f, fns)
		if err != nil {
			errs = append(errs, err.Error())
			continue
		}
		sb.WriteString(txt + "\n")
	}
	if len(errs) > 0 {
		return fmt.Errorf("arith %s: %d function(s) outside the translator's scope:\n  %s", group, len(errs), strings.Join(errs, "\n  "))
	}
	return os.WriteFile(out, []byte(sb.String()), 0o644)
}

func arPathDoc(ps []string) []string {
	var out []string
	for _, p := range ps {
		if p == "" {
			p = "the value"
		}
		out = append(out, p)
	}
	return out
}
