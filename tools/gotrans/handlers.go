package main

// Table "handlers" (property C17).
//
// For every method of the generated `MsgServer` interface of every module (x/<mod>/types/tx.pb.go)
// the translator finds the implementation on the module's `msgServer` type (any non-test file of
// x/<mod>/keeper), and emits
//   - module, method, request type,
//   - whether the request struct has an `Authority` field,
//   - the Go name of its signer field (proto option cosmos.msg.v1.signer of proto/elys/<mod>/*.proto,
//     mapped through the protobuf struct tag),
//   - the control-flow SKELETON of the handler: one abstract statement per top-level statement of the
//     body, in order:
//       Pure            no state access, cannot return
//       Read            state is read (getter), cannot return
//       Check           may return an ERROR early (an `if`/loop/switch containing returns), writes nothing
//       MayReturn       like Check, but one of the returns has a nil error (early successful return)
//       GuardAuthority  `if <keeper>.authority != msg.F { return ..., err }` (either operand order,
//                       `!(a == b)`, local aliases, `GetAuthority()`, or a helper that is inlined)
//       GuardOwner      `if msg.F != x.G { return ..., err }` where x was read from the state
//       KeyedLookup     `x, err := k.GetY(ctx, addr(msg.F), ...)` immediately followed by a failing check:
//                       the object is looked up under the signer's own key
//       Write           anything that can mutate state. Conservative: every call that is not
//                       recognised as pure or as a getter is a Write.
//       Return          unconditional return
//     Delegation (`return k.Keeper.X(ctx, msg)`, `a, err := k.X(ctx, msg); if err != nil { return }`,
//     `if err := k.X(..); err != nil { return }`) into a function of the same package that receives the
//     request or one of its fields is inlined, up to depth 3.
//
// What the translator OMITS is trusted (DESIGN.md section 6); what it EMITS is cross-checked by the
// correspondence run against the production router (harness/c17_test.go).

import (
	"encoding/json"
	"fmt"
	"go/ast"
	"go/parser"
	"go/token"
	"os"
	"path/filepath"
	"regexp"
	"sort"
	"strings"
	"unicode"
)

type Stmt struct {
	Kind string `json:"kind"`
	A    string `json:"a,omitempty"`
	B    string `json:"b,omitempty"`
}

type Handler struct {
	Module       string `json:"module"`
	Method       string `json:"method"`
	Req          string `json:"req"`
	HasAuthority bool   `json:"has_authority"`
	SignerProto  string `json:"signer_proto"`
	Signer       string `json:"signer"`
	Resolved     bool   `json:"resolved"`
	Skel         []Stmt `json:"skel"`
}

type fn struct {
	decl     *ast.FuncDecl
	imports  map[string]bool
	recvName string
	recvType string
}

type pkg struct {
	mod    string
	funcs  map[string]*fn      // "Type.Name" or ".Name"
	embeds map[string][]string // struct type -> embedded (promoting) type names
}

// method lookup through struct embedding (msgServer embeds Keeper)
func (p *pkg) method(ty, name string, seen map[string]bool) (*fn, string) {
	if seen[ty] {
		return nil, ""
	}
	seen[ty] = true
	if f, ok := p.funcs[ty+"."+name]; ok {
		return f, ty + "." + name
	}
	for _, e := range p.embeds[ty] {
		if f, k := p.method(e, name, seen); f != nil {
			return f, k
		}
	}
	return nil, ""
}

const maxInline = 3

// ------------------------------------------------------------------ loading

func loadKeeper(dir, mod string) (*pkg, error) {
	p := &pkg{mod: mod, funcs: map[string]*fn{}, embeds: map[string][]string{}}
	ents, err := os.ReadDir(dir)
	if err != nil {
		return p, nil
	}
	fset := token.NewFileSet()
	for _, e := range ents {
		n := e.Name()
		if e.IsDir() || !strings.HasSuffix(n, ".go") || strings.HasSuffix(n, "_test.go") {
			continue
		}
		f, err := parser.ParseFile(fset, filepath.Join(dir, n), nil, 0)
		if err != nil {
			return nil, err
		}
		imps := map[string]bool{}
		for _, im := range f.Imports {
			path := strings.Trim(im.Path.Value, `"`)
			name := path[strings.LastIndex(path, "/")+1:]
			if im.Name != nil {
				name = im.Name.Name
			} else if m := regexp.MustCompile(`^v\d+$`).FindString(name); m != "" {
				parts := strings.Split(path, "/")
				if len(parts) >= 2 {
					name = parts[len(parts)-2]
				}
			}
			imps[name] = true
		}
		for _, d := range f.Decls {
			if gd, ok := d.(*ast.GenDecl); ok {
				for _, sp := range gd.Specs {
					ts, ok := sp.(*ast.TypeSpec)
					if !ok {
						continue
					}
					st, ok := ts.Type.(*ast.StructType)
					if !ok {
						continue
					}
					for _, fl := range st.Fields.List {
						if len(fl.Names) != 0 {
							continue
						}
						t := fl.Type
						if s, ok := t.(*ast.StarExpr); ok {
							t = s.X
						}
						if id, ok := t.(*ast.Ident); ok {
							p.embeds[ts.Name.Name] = append(p.embeds[ts.Name.Name], id.Name)
						}
					}
				}
			}
			fd, ok := d.(*ast.FuncDecl)
			if !ok || fd.Body == nil {
				continue
			}
			x := &fn{decl: fd, imports: imps}
			key := "." + fd.Name.Name
			if fd.Recv != nil && len(fd.Recv.List) == 1 {
				t := fd.Recv.List[0].Type
				if s, ok := t.(*ast.StarExpr); ok {
					t = s.X
				}
				if id, ok := t.(*ast.Ident); ok {
					x.recvType = id.Name
					key = id.Name + "." + fd.Name.Name
				}
				if len(fd.Recv.List[0].Names) == 1 {
					x.recvName = fd.Recv.List[0].Names[0].Name
				}
			}
			p.funcs[key] = x
		}
	}
	return p, nil
}

type field struct{ goName, protoName string }

// parses x/<mod>/types/tx.pb.go: request structs and the MsgServer interface
func loadTx(path string) (structs map[string][]field, methods [][2]string, err error) {
	structs = map[string][]field{}
	fset := token.NewFileSet()
	f, err := parser.ParseFile(fset, path, nil, 0)
	if err != nil {
		return nil, nil, err
	}
	tagRe := regexp.MustCompile(`name=([A-Za-z0-9_]+)`)
	for _, d := range f.Decls {
		gd, ok := d.(*ast.GenDecl)
		if !ok {
			continue
		}
		for _, sp := range gd.Specs {
			ts, ok := sp.(*ast.TypeSpec)
			if !ok {
				continue
			}
			switch t := ts.Type.(type) {
			case *ast.StructType:
				var fs []field
				for _, fl := range t.Fields.List {
					pn := ""
					if fl.Tag != nil {
						if m := tagRe.FindStringSubmatch(fl.Tag.Value); m != nil {
							pn = m[1]
						}
					}
					for _, n := range fl.Names {
						fs = append(fs, field{n.Name, pn})
					}
				}
				structs[ts.Name.Name] = fs
			case *ast.InterfaceType:
				if ts.Name.Name != "MsgServer" {
					continue
				}
				for _, m := range t.Methods.List {
					ft, ok := m.Type.(*ast.FuncType)
					if !ok || len(m.Names) != 1 || ft.Params == nil || len(ft.Params.List) < 2 {
						continue
					}
					rt := ft.Params.List[1].Type
					if s, ok := rt.(*ast.StarExpr); ok {
						rt = s.X
					}
					if id, ok := rt.(*ast.Ident); ok {
						methods = append(methods, [2]string{m.Names[0].Name, id.Name})
					}
				}
			}
		}
	}
	return structs, methods, nil
}

// proto option (cosmos.msg.v1.signer) per message, from proto/elys/<mod>/*.proto
func loadSigners(dir string) map[string]string {
	out := map[string]string{}
	files, _ := filepath.Glob(filepath.Join(dir, "*.proto"))
	sort.Strings(files)
	msgRe := regexp.MustCompile(`^\s*message\s+(\w+)\s*\{`)
	sigRe := regexp.MustCompile(`option\s*\(\s*cosmos\.msg\.v1\.signer\s*\)\s*=\s*"(\w+)"`)
	for _, f := range files {
		b, err := os.ReadFile(f)
		if err != nil {
			continue
		}
		cur := ""
		for _, line := range strings.Split(string(b), "\n") {
			if i := strings.Index(line, "//"); i >= 0 {
				line = line[:i]
			}
			if m := msgRe.FindStringSubmatch(line); m != nil {
				cur = m[1]
			}
			if m := sigRe.FindStringSubmatch(line); m != nil && cur != "" {
				if _, dup := out[cur]; !dup {
					out[cur] = m[1]
				}
			}
		}
	}
	return out
}

// ------------------------------------------------------------------ canonical expressions

type env struct {
	p        *pkg
	f        *fn
	alias    map[string]ast.Expr
	state    map[string]bool // locals that hold something read from the state
	once     map[string]bool // locals assigned exactly once in this function
	depth    int
	inlining map[string]bool
	signer   string          // Go name of the request's signer field
	tainted  map[string]bool // request fields that the handler itself assigns (never accepted in a guard)
}

const cMsg, cRecv = "§msg", "§recv"

func unparen(e ast.Expr) ast.Expr {
	for {
		p, ok := e.(*ast.ParenExpr)
		if !ok {
			return e
		}
		e = p.X
	}
}

// canon resolves single-assignment local aliases, renames the request parameter to §msg and the
// receiver (and its embedded Keeper) to §recv. nil = not representable.
func (e *env) canon(x ast.Expr) ast.Expr {
	switch t := x.(type) {
	case *ast.Ident:
		if a, ok := e.alias[t.Name]; ok {
			return a
		}
		if e.f.recvName != "" && t.Name == e.f.recvName {
			return ast.NewIdent(cRecv)
		}
		return t
	case *ast.BasicLit:
		return t
	case *ast.ParenExpr:
		return e.canon(t.X)
	case *ast.StarExpr:
		return e.canon(t.X)
	case *ast.UnaryExpr:
		if t.Op == token.AND {
			return e.canon(t.X)
		}
		return nil
	case *ast.SelectorExpr:
		b := e.canon(t.X)
		if b == nil {
			return nil
		}
		if id, ok := b.(*ast.Ident); ok && id.Name == cRecv && t.Sel.Name == "Keeper" {
			return b
		}
		return &ast.SelectorExpr{X: b, Sel: t.Sel}
	case *ast.CallExpr:
		var fun ast.Expr
		if id, ok := t.Fun.(*ast.Ident); ok {
			fun = id
		} else {
			fun = e.canon(t.Fun)
		}
		if fun == nil {
			return nil
		}
		args := make([]ast.Expr, len(t.Args))
		for i, a := range t.Args {
			args[i] = e.canon(a)
			if args[i] == nil {
				return nil
			}
		}
		return &ast.CallExpr{Fun: fun, Args: args}
	}
	return nil
}

func rootIdent(x ast.Expr) *ast.Ident {
	for {
		switch t := x.(type) {
		case *ast.Ident:
			return t
		case *ast.SelectorExpr:
			x = t.X
		case *ast.CallExpr:
			x = t.Fun
		case *ast.IndexExpr:
			x = t.X
		case *ast.ParenExpr:
			x = t.X
		case *ast.StarExpr:
			x = t.X
		case *ast.TypeAssertExpr:
			x = t.X
		case *ast.UnaryExpr:
			x = t.X
		default:
			return nil
		}
	}
}

// §msg.F  or  §msg.GetF()
func msgField(c ast.Expr) (string, bool) {
	if c == nil {
		return "", false
	}
	if call, ok := c.(*ast.CallExpr); ok && len(call.Args) == 0 {
		if s, ok := call.Fun.(*ast.SelectorExpr); ok && strings.HasPrefix(s.Sel.Name, "Get") {
			if id, ok := s.X.(*ast.Ident); ok && id.Name == cMsg {
				return strings.TrimPrefix(s.Sel.Name, "Get"), true
			}
		}
		return "", false
	}
	s, ok := c.(*ast.SelectorExpr)
	if !ok {
		return "", false
	}
	id, ok := s.X.(*ast.Ident)
	if !ok || id.Name != cMsg {
		return "", false
	}
	return s.Sel.Name, true
}

// address of a request field: §msg.F, sdk.MustAccAddressFromBech32(§msg.F), sdk.AccAddressFromBech32(§msg.F)
func msgAddrField(c ast.Expr) (string, bool) {
	if f, ok := msgField(c); ok {
		return f, true
	}
	if call, ok := c.(*ast.CallExpr); ok && len(call.Args) == 1 {
		if s, ok := call.Fun.(*ast.SelectorExpr); ok && strings.HasSuffix(s.Sel.Name, "AccAddressFromBech32") {
			return msgField(call.Args[0])
		}
	}
	return "", false
}

// §recv.authority, §recv.x.authority, §recv.GetAuthority()
func isAuthority(c ast.Expr) bool {
	if c == nil {
		return false
	}
	if call, ok := c.(*ast.CallExpr); ok {
		if len(call.Args) != 0 {
			return false
		}
		s, ok := call.Fun.(*ast.SelectorExpr)
		if !ok || !strings.EqualFold(s.Sel.Name, "GetAuthority") {
			return false
		}
		r := rootIdent(s.X)
		return r != nil && r.Name == cRecv
	}
	s, ok := c.(*ast.SelectorExpr)
	if !ok || !strings.EqualFold(s.Sel.Name, "authority") {
		return false
	}
	if _, isCall := s.X.(*ast.CallExpr); isCall {
		return false
	}
	r := rootIdent(s.X)
	return r != nil && r.Name == cRecv
}

func neq(cond ast.Expr) (ast.Expr, ast.Expr, bool) {
	cond = unparen(cond)
	if u, ok := cond.(*ast.UnaryExpr); ok && u.Op == token.NOT {
		if b, ok := unparen(u.X).(*ast.BinaryExpr); ok && b.Op == token.EQL {
			return b.X, b.Y, true
		}
		return nil, nil, false
	}
	if b, ok := cond.(*ast.BinaryExpr); ok && b.Op == token.NEQ {
		return b.X, b.Y, true
	}
	return nil, nil, false
}

func (e *env) authorityCmp(cond ast.Expr) (string, bool) {
	x, y, ok := neq(cond)
	if !ok {
		return "", false
	}
	cx, cy := e.canon(x), e.canon(y)
	if isAuthority(cx) {
		return msgField(cy)
	}
	if isAuthority(cy) {
		return msgField(cx)
	}
	return "", false
}

func (e *env) stateField(x ast.Expr) (string, bool) {
	x = unparen(x)
	if call, ok := x.(*ast.CallExpr); ok && len(call.Args) == 0 {
		x = call.Fun
	}
	s, ok := x.(*ast.SelectorExpr)
	if !ok {
		return "", false
	}
	r := rootIdent(s.X)
	if r == nil || !e.state[r.Name] {
		return "", false
	}
	return r.Name + "." + s.Sel.Name, true
}

func (e *env) ownerCmp(cond ast.Expr) (string, string, bool) {
	x, y, ok := neq(cond)
	if !ok {
		return "", "", false
	}
	if f, ok := msgField(e.canon(x)); ok {
		if g, ok := e.stateField(y); ok {
			return f, g, true
		}
	}
	if f, ok := msgField(e.canon(y)); ok {
		if g, ok := e.stateField(x); ok {
			return f, g, true
		}
	}
	return "", "", false
}

// ------------------------------------------------------------------ call classification

const (
	cPure = iota
	cRead
	cWrite
)

func camelWords(s string) []string {
	var ws []string
	cur := ""
	rs := []rune(s)
	for i, r := range rs {
		if unicode.IsUpper(r) && i > 0 && (unicode.IsLower(rs[i-1]) || (i+1 < len(rs) && unicode.IsLower(rs[i+1]))) {
			ws = append(ws, cur)
			cur = ""
		}
		cur += string(r)
	}
	if cur != "" {
		ws = append(ws, cur)
	}
	return ws
}

var readFirst = map[string]bool{"Get": true, "Has": true, "Is": true, "Calc": true, "Calculate": true, "Estimate": true,
	"Validate": true, "Check": true, "Query": true, "Find": true, "Exists": true, "Iterate": true, "All": true,
	"Count": true, "Compute": true, "Spendable": true, "Balance": true, "Verify": true, "Can": true}
var writeWord = map[string]bool{"Set": true, "Update": true, "Create": true, "Delete": true, "Remove": true, "Send": true,
	"Mint": true, "Burn": true, "Append": true, "Add": true, "Sub": true, "Increment": true, "Execute": true, "Process": true,
	"Settle": true, "Claim": true, "Init": true, "Save": true, "Store": true, "Write": true, "Put": true, "Or": true,
	"Transfer": true, "Delegate": true, "Undelegate": true, "Withdraw": true, "Deposit": true, "Distribute": true,
	"And": true, "Liquidate": true, "Close": true, "Open": true, "Repay": true, "Borrow": true, "Handle": true, "Force": true,
	"Swap": true, "Join": true, "Exit": true, "Bond": true, "Unbond": true, "Stake": true, "Unstake": true, "Commit": true,
	"Uncommit": true, "Vest": true, "Cancel": true, "Refund": true, "Pay": true, "Collect": true, "Reset": true, "Clear": true,
	"Move": true, "Migrate": true, "Track": true, "Record": true, "Apply": true, "Do": true, "Run": true, "Perform": true,
	"Rebalance": true, "Accrue": true, "Charge": true, "Deduct": true, "Insert": true, "Push": true, "Pop": true, "Register": true}

func byName(name string) int {
	ws := camelWords(name)
	if len(ws) == 0 || !readFirst[ws[0]] {
		return cWrite
	}
	for _, w := range ws[1:] {
		if writeWord[w] {
			return cWrite
		}
	}
	return cRead
}

var builtins = map[string]bool{"len": true, "cap": true, "append": true, "make": true, "new": true, "copy": true, "delete": true,
	"panic": true, "recover": true, "print": true, "println": true, "string": true, "int": true, "int32": true, "int64": true, "uint": true, "uint32": true, "uint64": true,
	"float64": true, "byte": true, "bool": true, "min": true, "max": true, "error": true}

var ctxStore = map[string]bool{"KVStore": true, "TransientStore": true, "MultiStore": true, "WithMultiStore": true,
	"CacheContext": true}

var purePkgFn = []string{"Emit", "New", "Unwrap", "Wrap", "Must", "Parse", "Format", "Sprint", "Errorf", "Is", "Zero", "One"}

func isCtxLike(x ast.Expr) bool {
	id, ok := unparen(x).(*ast.Ident)
	return ok && strings.Contains(strings.ToLower(id.Name), "ctx")
}

func hasCtxArg(c *ast.CallExpr) bool {
	for _, a := range c.Args {
		if isCtxLike(a) {
			return true
		}
	}
	return false
}

func callName(c *ast.CallExpr) string {
	switch t := unparen(c.Fun).(type) {
	case *ast.Ident:
		return t.Name
	case *ast.SelectorExpr:
		return t.Sel.Name
	}
	return "?"
}

func exprString(x ast.Expr) string {
	switch t := x.(type) {
	case *ast.Ident:
		return t.Name
	case *ast.SelectorExpr:
		return exprString(t.X) + "." + t.Sel.Name
	case *ast.CallExpr:
		return exprString(t.Fun) + "()"
	case *ast.ParenExpr:
		return exprString(t.X)
	case *ast.StarExpr:
		return exprString(t.X)
	case *ast.IndexExpr:
		return exprString(t.X) + "[]"
	}
	return "?"
}

func (e *env) classify(c *ast.CallExpr) (int, string) {
	fun := unparen(c.Fun)
	label := exprString(fun)
	switch t := fun.(type) {
	case *ast.FuncLit:
		return cPure, label // its body is scanned by the caller
	case *ast.Ident:
		if builtins[t.Name] {
			return cPure, label
		}
		if _, ok := e.p.funcs["."+t.Name]; ok {
			if hasCtxArg(c) || e.passesRecv(c) {
				return byName(t.Name), label
			}
			return cPure, label
		}
		if unicode.IsUpper([]rune(t.Name)[0]) {
			return cPure, label // conversion to a package type
		}
		return cWrite, label // closure variable: unknown
	case *ast.ArrayType, *ast.MapType, *ast.InterfaceType:
		return cPure, label
	}
	r := rootIdent(fun)
	name := callName(c)
	if r == nil {
		return cWrite, label
	}
	if sel, ok := fun.(*ast.SelectorExpr); ok {
		if inner, ok := unparen(sel.X).(*ast.CallExpr); ok && callName(inner) == "Logger" {
			return cPure, label // k.Logger(ctx).Info(...)
		}
	}
	cr := e.canon(r)
	if cr != nil {
		if rr := rootIdent(cr); rr != nil && rr.Name == cRecv {
			if name == "Logger" {
				return cPure, label
			}
			return byName(name), label
		}
	}
	if _, aliased := e.alias[r.Name]; !aliased && e.f.imports[r.Name] && !e.once[r.Name] {
		for _, p := range purePkgFn {
			if strings.HasPrefix(name, p) {
				return cPure, label
			}
		}
		if !hasCtxArg(c) && !e.passesRecv(c) {
			return cPure, label
		}
		return byName(name), label
	}
	if isCtxLike(r) {
		if ctxStore[name] {
			return cWrite, label
		}
		return cPure, label
	}
	// method of a local value
	if hasCtxArg(c) || e.passesRecv(c) {
		return byName(name), label
	}
	return cPure, label
}

func (e *env) passesRecv(c *ast.CallExpr) bool {
	for _, a := range c.Args {
		if r := rootIdent(a); r != nil && e.f.recvName != "" && r.Name == e.f.recvName {
			if _, isCall := unparen(a).(*ast.CallExpr); !isCall {
				return true
			}
		}
	}
	return false
}

type scanRes struct {
	write, read  bool
	wname, rname string
	ret          bool // contains a return of the enclosing function
	retOk        bool // ... one of which returns a nil error (early SUCCESSFUL return)
}

func isNilIdent(x ast.Expr) bool {
	id, ok := unparen(x).(*ast.Ident)
	return ok && id.Name == "nil"
}

func (e *env) scan(n ast.Node) scanRes {
	var r scanRes
	if n == nil {
		return r
	}
	ast.Inspect(n, func(x ast.Node) bool {
		switch t := x.(type) {
		case *ast.CallExpr:
			k, name := e.classify(t)
			if k == cWrite && !r.write {
				r.write, r.wname = true, name
			}
			if k == cRead && !r.read {
				r.read, r.rname = true, name
			}
		case *ast.GoStmt:
			if !r.write {
				r.write, r.wname = true, "go"
			}
		}
		return true
	})
	ast.Inspect(n, func(x ast.Node) bool {
		switch t := x.(type) {
		case *ast.FuncLit:
			return false // a return inside a closure does not leave the handler
		case *ast.ReturnStmt:
			r.ret = true
			if len(t.Results) == 0 || isNilIdent(t.Results[len(t.Results)-1]) {
				r.retOk = true
			}
		}
		return true
	})
	return r
}

func (e *env) unit(n ast.Node) Stmt {
	r := e.scan(n)
	switch {
	case r.write:
		return Stmt{Kind: "Write", A: r.wname}
	case r.retOk:
		return Stmt{Kind: "MayReturn"}
	case r.ret:
		return Stmt{Kind: "Check"}
	case r.read:
		return Stmt{Kind: "Read", A: r.rname}
	}
	return Stmt{Kind: "Pure"}
}

// ------------------------------------------------------------------ skeleton

func countAssignments(body *ast.BlockStmt, params *ast.FieldList) map[string]bool {
	cnt := map[string]int{}
	ast.Inspect(body, func(x ast.Node) bool {
		switch t := x.(type) {
		case *ast.AssignStmt:
			for _, l := range t.Lhs {
				if id, ok := l.(*ast.Ident); ok {
					cnt[id.Name]++
				} else if r := rootIdent(l); r != nil {
					cnt[r.Name] += 2 // partial update of a local
				}
			}
		case *ast.IncDecStmt:
			if r := rootIdent(t.X); r != nil {
				cnt[r.Name] += 2
			}
		case *ast.RangeStmt:
			for _, l := range []ast.Expr{t.Key, t.Value} {
				if id, ok := l.(*ast.Ident); ok {
					cnt[id.Name] += 2
				}
			}
		case *ast.ValueSpec:
			for _, n := range t.Names {
				cnt[n.Name]++
			}
		case *ast.UnaryExpr:
			if t.Op == token.AND {
				if id, ok := unparen(t.X).(*ast.Ident); ok {
					cnt[id.Name] += 2 // address taken: may be modified elsewhere
				}
			}
		}
		return true
	})
	once := map[string]bool{}
	for n, c := range cnt {
		if c == 1 {
			once[n] = true
		}
	}
	return once
}

func bodyReturnsErr(b *ast.BlockStmt) bool {
	if b == nil || len(b.List) == 0 {
		return false
	}
	r, ok := b.List[len(b.List)-1].(*ast.ReturnStmt)
	if !ok || len(r.Results) == 0 {
		return false
	}
	if id, ok := unparen(r.Results[len(r.Results)-1]).(*ast.Ident); ok && id.Name == "nil" {
		return false
	}
	return true
}

func lhsNames(s ast.Stmt) []string {
	var out []string
	switch t := s.(type) {
	case *ast.AssignStmt:
		for _, l := range t.Lhs {
			if id, ok := l.(*ast.Ident); ok && id.Name != "_" {
				out = append(out, id.Name)
			}
		}
	case *ast.DeclStmt:
		if gd, ok := t.Decl.(*ast.GenDecl); ok {
			for _, sp := range gd.Specs {
				if vs, ok := sp.(*ast.ValueSpec); ok {
					for _, n := range vs.Names {
						out = append(out, n.Name)
					}
				}
			}
		}
	}
	return out
}

func singleCall(s ast.Stmt) *ast.CallExpr {
	switch t := s.(type) {
	case *ast.AssignStmt:
		if len(t.Rhs) == 1 {
			if c, ok := unparen(t.Rhs[0]).(*ast.CallExpr); ok {
				return c
			}
		}
	case *ast.ExprStmt:
		if c, ok := unparen(t.X).(*ast.CallExpr); ok {
			return c
		}
	}
	return nil
}

func mentions(x ast.Node, names []string) bool {
	found := false
	ast.Inspect(x, func(n ast.Node) bool {
		if id, ok := n.(*ast.Ident); ok {
			for _, m := range names {
				if id.Name == m {
					found = true
				}
			}
		}
		return !found
	})
	return found
}

// `if <cond over names> { ...; return ..., <non-nil> }` without init/else
func (e *env) isFailCheck(s ast.Stmt, names []string) bool {
	i, ok := s.(*ast.IfStmt)
	if !ok || i.Init != nil || i.Else != nil || !bodyReturnsErr(i.Body) {
		return false
	}
	if !mentions(i.Cond, names) {
		return false
	}
	return !e.scan(i.Body).write && !e.scan(i.Cond).write
}

func (e *env) resolve(c *ast.CallExpr) (*fn, string) {
	switch t := unparen(c.Fun).(type) {
	case *ast.Ident:
		if f, ok := e.p.funcs["."+t.Name]; ok {
			return f, "." + t.Name
		}
	case *ast.SelectorExpr:
		cx := e.canon(t.X)
		if id, ok := cx.(*ast.Ident); ok && id.Name == cRecv {
			ty := e.f.recvType
			if sel, ok := unparen(t.X).(*ast.SelectorExpr); ok && sel.Sel.Name == "Keeper" {
				ty = "Keeper"
			}
			if f, k := e.p.method(ty, t.Sel.Name, map[string]bool{}); f != nil {
				return f, k
			}
		}
	}
	return nil, ""
}

func onlyCanonRoots(x ast.Expr, imports map[string]bool) bool {
	ok := true
	var walk func(x ast.Expr)
	walk = func(x ast.Expr) {
		switch t := x.(type) {
		case *ast.Ident:
			if !strings.HasPrefix(t.Name, "§") && !imports[t.Name] {
				ok = false
			}
		case *ast.SelectorExpr:
			walk(t.X)
		case *ast.CallExpr:
			walk(t.Fun)
			for _, a := range t.Args {
				walk(a)
			}
		case *ast.BasicLit:
		default:
			ok = false
		}
	}
	walk(x)
	return ok
}

func mentionsMsg(x ast.Expr) bool {
	f := false
	ast.Inspect(x, func(n ast.Node) bool {
		if id, ok := n.(*ast.Ident); ok && id.Name == cMsg {
			f = true
		}
		return !f
	})
	return f
}

// inline returns the skeleton of a same-package callee that receives the request (or a field of it).
func (e *env) inline(c *ast.CallExpr) ([]Stmt, bool) {
	if e.depth >= maxInline {
		return nil, false
	}
	callee, key := e.resolve(c)
	if callee == nil || e.inlining[key] {
		return nil, false
	}
	if k, _ := e.classify(c); k != cWrite {
		return nil, false
	}
	// parameters in order
	var params []string
	for _, fl := range callee.decl.Type.Params.List {
		if len(fl.Names) == 0 {
			params = append(params, "_")
		}
		for _, n := range fl.Names {
			params = append(params, n.Name)
		}
	}
	if len(params) != len(c.Args) {
		return nil, false
	}
	alias := map[string]ast.Expr{}
	passes := false
	for i, a := range c.Args {
		ca := e.canon(a)
		if ca == nil || !onlyCanonRoots(ca, e.f.imports) {
			continue
		}
		if mentionsMsg(ca) {
			passes = true
		}
		alias[params[i]] = ca
	}
	if !passes {
		return nil, false
	}
	once := countAssignments(callee.decl.Body, nil)
	for p, a := range alias {
		if id, ok := a.(*ast.Ident); ok && id.Name == cMsg {
			if rebound(callee.decl.Body, p) {
				delete(alias, p)
			}
		} else if assignedAnywhere(callee.decl.Body, p) {
			delete(alias, p)
		}
	}
	inl := map[string]bool{key: true}
	for k := range e.inlining {
		inl[k] = true
	}
	ce := &env{p: e.p, f: callee, alias: alias, state: map[string]bool{}, once: once, depth: e.depth + 1, inlining: inl,
		signer: e.signer, tainted: e.tainted}
	for p, a := range alias {
		if id, ok := a.(*ast.Ident); ok && id.Name == cMsg {
			fieldsAssigned(callee.decl.Body, p, e.tainted)
		}
	}
	sk := ce.skeleton(callee.decl.Body)
	// the callee's returns become the caller's error check / fallthrough
	var out []Stmt
	for _, s := range sk {
		if s.Kind != "Return" {
			out = append(out, s)
		}
	}
	return out, true
}

// rebound: the variable itself is assigned or its address is taken (field updates do not rebind it)
func rebound(body *ast.BlockStmt, name string) bool {
	f := false
	ast.Inspect(body, func(x ast.Node) bool {
		switch t := x.(type) {
		case *ast.AssignStmt:
			for _, l := range t.Lhs {
				if id, ok := unparen(l).(*ast.Ident); ok && id.Name == name {
					f = true
				}
			}
		case *ast.UnaryExpr:
			if t.Op == token.AND {
				if id, ok := unparen(t.X).(*ast.Ident); ok && id.Name == name {
					f = true
				}
			}
		}
		return !f
	})
	return f
}

// fieldsAssigned collects F for every assignment `name.F... = ` in body
func fieldsAssigned(body *ast.BlockStmt, name string, into map[string]bool) {
	ast.Inspect(body, func(x ast.Node) bool {
		if t, ok := x.(*ast.AssignStmt); ok {
			for _, l := range t.Lhs {
				cur := unparen(l)
				for {
					s, ok := cur.(*ast.SelectorExpr)
					if !ok {
						break
					}
					if id, ok := unparen(s.X).(*ast.Ident); ok && id.Name == name {
						into[s.Sel.Name] = true
						break
					}
					cur = unparen(s.X)
				}
			}
		}
		return true
	})
}

func assignedAnywhere(body *ast.BlockStmt, name string) bool {
	f := false
	ast.Inspect(body, func(x ast.Node) bool {
		switch t := x.(type) {
		case *ast.AssignStmt:
			for _, l := range t.Lhs {
				if r := rootIdent(l); r != nil && r.Name == name {
					f = true
				}
			}
		case *ast.UnaryExpr:
			if t.Op == token.AND {
				if id, ok := unparen(t.X).(*ast.Ident); ok && id.Name == name {
					f = true
				}
			}
		}
		return !f
	})
	return f
}

func (e *env) record(s ast.Stmt, stateful bool) {
	if stateful {
		for _, n := range lhsNames(s) {
			e.state[n] = true
		}
	}
	a, ok := s.(*ast.AssignStmt)
	if !ok {
		return
	}
	set := func(l ast.Expr, r ast.Expr) {
		id, ok := l.(*ast.Ident)
		if !ok || !e.once[id.Name] {
			return
		}
		if c := e.canon(r); c != nil {
			if mentionsMsg(c) || isAuthority(c) {
				e.alias[id.Name] = c
			} else if rr := rootIdent(c); rr != nil && rr.Name == cRecv {
				if _, isCall := c.(*ast.CallExpr); !isCall {
					e.alias[id.Name] = c
				}
			}
		}
	}
	if len(a.Lhs) == len(a.Rhs) {
		for i := range a.Lhs {
			set(a.Lhs[i], a.Rhs[i])
		}
	} else if len(a.Rhs) == 1 && len(a.Lhs) == 2 {
		if c, ok := unparen(a.Rhs[0]).(*ast.CallExpr); ok && strings.HasSuffix(callName(c), "AccAddressFromBech32") {
			set(a.Lhs[0], a.Rhs[0])
		}
	}
}

func (e *env) keyedLookup(c *ast.CallExpr) (string, bool) {
	k, _ := e.classify(c)
	if k != cRead {
		return "", false
	}
	r := rootIdent(c.Fun)
	if r == nil {
		return "", false
	}
	if cr := e.canon(r); cr == nil || rootIdent(cr) == nil || rootIdent(cr).Name != cRecv {
		return "", false
	}
	for _, a := range c.Args {
		if f, ok := msgAddrField(e.canon(a)); ok && f == e.signer && e.signer != "" && !e.tainted[f] {
			return f, true
		}
	}
	return "", false
}

// `!found`  or  `err != nil` over one of the assigned names: the check fails when the object is ABSENT
func isAbsentCheck(s ast.Stmt, names []string) bool {
	i, ok := s.(*ast.IfStmt)
	if !ok {
		return false
	}
	is := func(x ast.Expr) bool {
		id, ok := unparen(x).(*ast.Ident)
		if !ok {
			return false
		}
		for _, n := range names {
			if n == id.Name {
				return true
			}
		}
		return false
	}
	switch t := unparen(i.Cond).(type) {
	case *ast.UnaryExpr:
		return t.Op == token.NOT && is(t.X)
	case *ast.BinaryExpr:
		if t.Op != token.NEQ {
			return false
		}
		if id, ok := unparen(t.Y).(*ast.Ident); ok && id.Name == "nil" {
			return is(t.X)
		}
	}
	return false
}

func (e *env) ifStmt(s *ast.IfStmt) []Stmt {
	// if err := k.X(..msg..); err != nil { return ..., err }
	if s.Init != nil && s.Else == nil && bodyReturnsErr(s.Body) {
		if c := singleCall(s.Init); c != nil && mentions(s.Cond, lhsNames(s.Init)) && !e.scan(s.Body).write {
			if sk, ok := e.inline(c); ok {
				return append(sk, Stmt{Kind: "Check"})
			}
		}
	}
	if s.Init == nil && s.Else == nil && bodyReturnsErr(s.Body) && !e.scan(s.Body).write {
		if f, ok := e.authorityCmp(s.Cond); ok && !e.tainted[f] {
			return []Stmt{{Kind: "GuardAuthority", A: f}}
		}
		if f, g, ok := e.ownerCmp(s.Cond); ok && !e.tainted[f] {
			return []Stmt{{Kind: "GuardOwner", A: f, B: g}}
		}
	}
	return []Stmt{e.unit(s)}
}

func (e *env) skeleton(body *ast.BlockStmt) []Stmt {
	var out []Stmt
	list := body.List
	for i := 0; i < len(list); i++ {
		switch s := list[i].(type) {
		case *ast.IfStmt:
			out = append(out, e.ifStmt(s)...)
		case *ast.ReturnStmt:
			if len(s.Results) == 1 {
				if c, ok := unparen(s.Results[0]).(*ast.CallExpr); ok {
					if sk, ok := e.inline(c); ok {
						out = append(out, sk...)
						return append(out, Stmt{Kind: "Return"})
					}
				}
			}
			if u := e.unit(&ast.ExprStmt{X: &ast.CompositeLit{Elts: s.Results}}); u.Kind == "Write" || u.Kind == "Read" {
				out = append(out, u)
			}
			return append(out, Stmt{Kind: "Return"})
		case *ast.AssignStmt, *ast.ExprStmt, *ast.DeclStmt:
			if c := singleCall(s); c != nil && i+1 < len(list) {
				names := lhsNames(s)
				if len(names) > 0 && e.isFailCheck(list[i+1], names) {
					if sk, ok := e.inline(c); ok {
						out = append(out, sk...)
						e.record(s, true)
						continue
					}
					if f, ok := e.keyedLookup(c); ok && isAbsentCheck(list[i+1], names) {
						out = append(out, Stmt{Kind: "KeyedLookup", A: f, B: exprString(c.Fun)})
						e.record(s, true)
						continue
					}
				}
			}
			u := e.unit(s)
			out = append(out, u)
			e.record(s, u.Kind != "Pure")
		case *ast.EmptyStmt:
		default:
			out = append(out, e.unit(s))
		}
	}
	return out
}

// ------------------------------------------------------------------ driver

func genHandlers(repo, out string) error {
	mods, err := filepath.Glob(filepath.Join(repo, "x", "*", "types", "tx.pb.go"))
	if err != nil {
		return err
	}
	sort.Strings(mods)
	var hs []Handler
	for _, tx := range mods {
		moddir := filepath.Dir(filepath.Dir(tx))
		mod := filepath.Base(moddir)
		structs, methods, err := loadTx(tx)
		if err != nil {
			return err
		}
		signers := loadSigners(filepath.Join(repo, "proto", "elys", mod))
		p, err := loadKeeper(filepath.Join(moddir, "keeper"), mod)
		if err != nil {
			return err
		}
		for _, m := range methods {
			h := Handler{Module: mod, Method: m[0], Req: m[1], SignerProto: signers[m[1]]}
			for _, f := range structs[m[1]] {
				if f.goName == "Authority" {
					h.HasAuthority = true
				}
				if h.SignerProto != "" && f.protoName == h.SignerProto {
					h.Signer = f.goName
				}
			}
			f, _ := p.method("msgServer", m[0], map[string]bool{})
			if f == nil || f.decl.Type.Params == nil || len(f.decl.Type.Params.List) < 2 {
				h.Skel = []Stmt{{Kind: "Write", A: "unresolved handler"}}
			} else {
				h.Resolved = true
				var names []string
				for _, fl := range f.decl.Type.Params.List {
					if len(fl.Names) == 0 {
						names = append(names, "_")
					}
					for _, n := range fl.Names {
						names = append(names, n.Name)
					}
				}
				e := &env{p: p, f: f, alias: map[string]ast.Expr{}, state: map[string]bool{}, inlining: map[string]bool{"msgServer." + m[0]: true},
					signer: h.Signer, tainted: map[string]bool{}}
				e.once = countAssignments(f.decl.Body, nil)
				if len(names) >= 2 && names[1] != "_" && !rebound(f.decl.Body, names[1]) {
					e.alias[names[1]] = ast.NewIdent(cMsg)
					fieldsAssigned(f.decl.Body, names[1], e.tainted)
				}
				h.Skel = e.skeleton(f.decl.Body)
			}
			hs = append(hs, h)
		}
	}
	sort.Slice(hs, func(i, j int) bool {
		if hs[i].Module != hs[j].Module {
			return hs[i].Module < hs[j].Module
		}
		return hs[i].Method < hs[j].Method
	})
	// Coq
	var sb strings.Builder
	sb.WriteString("(* GENERATED by tools/gotrans (gotrans handlers <repo> <out.v>) from the Go sources - DO NOT EDIT.\n")
	sb.WriteString("   Regenerated by ./check on every run; the committed copy only makes a fresh `make` work. *)\n")
	sb.WriteString("From Coq Require Import String List.\nFrom Elys Require Import Models.Authority.\nImport ListNotations.\nOpen Scope string_scope.\n\n")
	sb.WriteString("Definition handlers : list handler := [\n")
	for i, h := range hs {
		if i > 0 {
			sb.WriteString(";\n")
		}
		fmt.Fprintf(&sb, "  mkH %s %s %s %v %s [", q(h.Module), q(h.Method), q(h.Req), h.HasAuthority, q(h.Signer))
		for j, s := range h.Skel {
			if j > 0 {
				sb.WriteString("; ")
			}
			switch s.Kind {
			case "Pure", "Check", "MayReturn", "Return":
				sb.WriteString("S" + s.Kind)
			case "Read", "Write", "GuardAuthority":
				fmt.Fprintf(&sb, "S%s %s", s.Kind, q(s.A))
			default:
				fmt.Fprintf(&sb, "S%s %s %s", s.Kind, q(s.A), q(s.B))
			}
		}
		sb.WriteString("]")
	}
	sb.WriteString("\n].\n")
	if err := os.MkdirAll(filepath.Dir(out), 0o755); err != nil {
		return err
	}
	if err := writeIfChanged(out, []byte(sb.String())); err != nil {
		return err
	}
	js, _ := json.MarshalIndent(map[string]interface{}{"handlers": hs}, "", " ")
	return writeIfChanged(filepath.Join(filepath.Dir(out), "handlers.json"), append(js, '\n'))
}

func q(s string) string { return `"` + strings.ReplaceAll(s, `"`, `""`) + `"` }

func writeIfChanged(path string, b []byte) error {
	if old, err := os.ReadFile(path); err == nil && string(old) == string(b) {
		return nil
	}
	return os.WriteFile(path, b, 0o644)
}
