package main

// Table "ownerflow" (property C17, owner-scoped part).
//
// For EVERY method of every module's MsgServer the translator follows, from the handler body through
// same-package callees (depth <= 4), loops, closures and INNER MESSAGES built by the handler
// (`&types.MsgX{F: e, ...}` or `types.NewMsgX(e, ...)`), where the values that SELECT a stored object come from:
//
//   provenance of an expression = { derived from the request's signer field | from other request fields
//                                   (ids, payload addresses, items of list fields) | from a selected object }
//
// and emits a nested "flow skeleton" per handler (coq/Generated/OwnerFlow.v, ownerflow.json):
//
//   Read what                 state read that selects nothing owned (pools, params, sub-records of a selected object)
//   Check                     may return an error / skip the item
//   Select Signer name what   a record of an OWNED type (a stored struct with an owner-like field, see ownedFieldNames)
//                             - or any record - read under a key that contains the signer
//   Select Id name what       a record of an owned type read under a key made of non-signer request fields only
//   Compare name field        `if <obj>.<owner> != <signer-derived> { return err }` (or `continue` inside a loop), not nested
//                             in another conditional, no write in its body
//   Write kind what           Signer: an argument derives from the signer; Obj: from a selected object; Other
//   Loop cached body          range/for loop or iterator closure; cached = the body works on ctx.CacheContext()
//   Inner handler field src   the body of another handler run on an inner message whose signer field <field> is fed from
//                             src (Field F of the outer request | State | Other); the inner body is emitted with the inner
//                             message's fields already substituted by their outer sources
//
// Class per handler: E authority-guarded | C delegates to an inner handler | B id lookup + owner comparison |
// A signer-keyed | D not object-scoped | U unknown (with file:line reasons). The Coq side re-decides safety of every
// body itself (Models/OwnerFlow.v flow_safe) and FAILS for a U handler that is not in its reviewed list.

import (
	"encoding/json"
	"fmt"
	"go/ast"
	"go/parser"
	"go/token"
	"os"
	"path/filepath"
	"sort"
	"strings"
)

type OStep struct {
	Kind   string  `json:"kind"`
	A      string  `json:"a,omitempty"`
	B      string  `json:"b,omitempty"`
	C      string  `json:"c,omitempty"`
	Cached bool    `json:"cached,omitempty"`
	Body   []OStep `json:"body,omitempty"`
	Pos    string  `json:"pos,omitempty"`
}

type OInnerFlow struct {
	Handler string `json:"handler"`
	Field   string `json:"field"`
	From    string `json:"from"`
	Pos     string `json:"pos"`
}

type OFlow struct {
	Module  string       `json:"module"`
	Method  string       `json:"method"`
	Req     string       `json:"req"`
	Signer  string       `json:"signer"`
	Class   string       `json:"class"`
	Reasons []string     `json:"reasons,omitempty"`
	Inner   []OInnerFlow `json:"inner,omitempty"`
	Body    []OStep      `json:"body"`
}

// owner-like fields of stored records (x/*/types/*.pb.go, not Msg*/Query*/..Request/..Response)
var ownedFieldNames = map[string]bool{"OwnerAddress": true, "Owner": true, "Creator": true, "Address": true, "Delegator": true,
	"DelegatorAddress": true, "User": true, "Authority": true, "Feeder": true}

// records whose Address field is the record's own account, not an owner
var notOwned = map[string]string{"Pool": "amm.Pool.Address is the pool's own module account", "LegacyPool": "same",
	"ValidatorDetail": "validator description", "StakingValidator": "validator description",
	"Entry": "assetprofile.Entry is a registry record keyed by denom; its Authority is the governance account (handlers that change it are class E)"}

type opv struct {
	signer bool
	fields map[string]bool
	objs   map[string]bool
	addr   bool
}

func (p opv) empty() bool { return !p.signer && len(p.fields) == 0 && len(p.objs) == 0 }
func (p opv) signerOnly() bool {
	return p.signer && len(p.fields) == 0 && len(p.objs) == 0
}
func (p opv) union(q opv) opv {
	r := opv{signer: p.signer || q.signer, addr: p.addr || q.addr}
	if len(p.fields)+len(q.fields) > 0 {
		r.fields = map[string]bool{}
		for k := range p.fields {
			r.fields[k] = true
		}
		for k := range q.fields {
			r.fields[k] = true
		}
	}
	if len(p.objs)+len(q.objs) > 0 {
		r.objs = map[string]bool{}
		for k := range p.objs {
			r.objs[k] = true
		}
		for k := range q.objs {
			r.objs[k] = true
		}
	}
	return r
}
func keysOf(m map[string]bool) string {
	var ks []string
	for k := range m {
		ks = append(ks, k)
	}
	sort.Strings(ks)
	return strings.Join(ks, ",")
}
func (p opv) src() string {
	switch {
	case p.signerOnly():
		return "Signer"
	case !p.signer && len(p.objs) == 0 && len(p.fields) == 1:
		return "Field:" + keysOf(p.fields)
	case len(p.objs) > 0 && !p.signer && len(p.fields) == 0:
		return "State"
	}
	return "Other"
}

type ofMsg struct {
	outer bool
	req   string
	flds  map[string]opv
}

type ofBind struct {
	pv  opv
	msg *ofMsg
	obj string
}

type ofCtor struct {
	req    string
	params []string
	fields map[string]string // field -> param name
}

type ofWalker struct {
	repo, mod  string
	p          *pkg
	fset       *token.FileSet
	signer     string                // signer field of the OUTER request
	reqMethod  map[string]string     // request type -> MsgServer method
	reqSigner  map[string]string     // request type -> Go signer field
	ctors      map[string]*ofCtor    // NewMsgX
	owned      map[string]bool       // bare names of owned record types (all modules)
	ifaceRet   map[string]string     // method name -> bare result type (expected keepers of this module; "" on conflict)
	n          int
	inlining   map[string]bool
	inner      []OInnerFlow
	unresolved map[string]bool
	reasons    []string
}

type ofFrame struct {
	w         *ofWalker
	e         *env
	vars      map[string]*ofBind
	depth     int
	condDepth int
	inLoop    bool
	out       *[]OStep
	rets      [][]ofBind
}

func (w *ofWalker) pos(n ast.Node) string {
	p := w.fset.Position(n.Pos())
	rel, err := filepath.Rel(w.repo, p.Filename)
	if err != nil {
		rel = p.Filename
	}
	return fmt.Sprintf("%s:%d", rel, p.Line)
}

func (fr *ofFrame) emit(s OStep) { *fr.out = append(*fr.out, s) }

func (fr *ofFrame) field(m *ofMsg, f string) ofBind {
	if m.outer {
		if f == fr.w.signer && f != "" {
			return ofBind{pv: opv{signer: true, addr: true}}
		}
		return ofBind{pv: opv{fields: map[string]bool{f: true}}}
	}
	return ofBind{pv: m.flds[f]}
}

func (fr *ofFrame) msgLit(t *ast.CompositeLit) *ofMsg {
	name := ""
	switch tt := t.Type.(type) {
	case *ast.Ident:
		name = tt.Name
	case *ast.SelectorExpr:
		name = tt.Sel.Name
	}
	if _, ok := fr.w.reqMethod[name]; !ok {
		return nil
	}
	m := &ofMsg{req: name, flds: map[string]opv{}}
	for _, el := range t.Elts {
		if kv, ok := el.(*ast.KeyValueExpr); ok {
			if id, ok := kv.Key.(*ast.Ident); ok {
				m.flds[id.Name] = fr.eval(kv.Value).pv
			}
		}
	}
	return m
}

func (fr *ofFrame) eval(x ast.Expr) ofBind {
	switch t := x.(type) {
	case nil:
		return ofBind{}
	case *ast.Ident:
		if b := fr.vars[t.Name]; b != nil {
			return *b
		}
		return ofBind{}
	case *ast.ParenExpr:
		return fr.eval(t.X)
	case *ast.StarExpr:
		return fr.eval(t.X)
	case *ast.UnaryExpr:
		return fr.eval(t.X)
	case *ast.SelectorExpr:
		b := fr.eval(t.X)
		if b.msg != nil {
			return fr.field(b.msg, t.Sel.Name)
		}
		return ofBind{pv: b.pv}
	case *ast.CallExpr:
		bs := fr.call(t)
		if len(bs) > 0 {
			return bs[0]
		}
		return ofBind{}
	case *ast.CompositeLit:
		if m := fr.msgLit(t); m != nil {
			var u opv
			for _, v := range m.flds {
				u = u.union(v)
			}
			return ofBind{pv: u, msg: m}
		}
		var u opv
		for _, el := range t.Elts {
			u = u.union(fr.eval(el).pv)
		}
		return ofBind{pv: u}
	case *ast.KeyValueExpr:
		return ofBind{pv: fr.eval(t.Value).pv}
	case *ast.BinaryExpr:
		return ofBind{pv: fr.eval(t.X).pv.union(fr.eval(t.Y).pv)}
	case *ast.IndexExpr:
		return ofBind{pv: fr.eval(t.X).pv.union(fr.eval(t.Index).pv)}
	case *ast.SliceExpr:
		return ofBind{pv: fr.eval(t.X).pv}
	case *ast.TypeAssertExpr:
		return ofBind{pv: fr.eval(t.X).pv}
	case *ast.FuncLit:
		fr.loop(t.Body, nil)
		return ofBind{}
	}
	return ofBind{}
}

func baseTypeName(x ast.Expr) string {
	for {
		switch t := x.(type) {
		case *ast.StarExpr:
			x = t.X
		case *ast.ArrayType:
			x = t.Elt
		case *ast.SelectorExpr:
			return t.Sel.Name
		case *ast.Ident:
			return t.Name
		default:
			return ""
		}
	}
}

func (fr *ofFrame) ownedResult(c *ast.CallExpr, callee *fn) (bool, bool) {
	name := ""
	if callee != nil && callee.decl.Type.Results != nil && len(callee.decl.Type.Results.List) > 0 {
		name = baseTypeName(callee.decl.Type.Results.List[0].Type)
	} else if r, ok := fr.w.ifaceRet[callName(c)]; ok {
		name = r
	} else {
		return false, false
	}
	if name == "" {
		return false, false
	}
	return fr.w.owned[name], true
}

func pick(bs []ofBind, i int) ofBind {
	if i < len(bs) {
		return bs[i]
	}
	var u opv
	for _, b := range bs {
		u = u.union(b.pv)
	}
	return ofBind{pv: u}
}

func (fr *ofFrame) call(c *ast.CallExpr) []ofBind {
	w := fr.w
	var recv ofBind
	if sel, ok := unparen(c.Fun).(*ast.SelectorExpr); ok {
		recv = fr.eval(sel.X)
	}
	args := make([]ofBind, len(c.Args))
	var key opv
	for i, a := range c.Args {
		args[i] = fr.eval(a)
		key = key.union(args[i].pv)
	}
	name := callName(c)
	if recv.msg != nil && strings.HasPrefix(name, "Get") && len(args) == 0 {
		return []ofBind{fr.field(recv.msg, strings.TrimPrefix(name, "Get"))}
	}
	if strings.HasSuffix(name, "AddressFromBech32") && len(args) == 1 {
		p := args[0].pv
		p.addr = true
		return []ofBind{{pv: p}}
	}
	if ct, ok := w.ctors[name]; ok {
		if sel, ok := unparen(c.Fun).(*ast.SelectorExpr); ok {
			if id, ok := sel.X.(*ast.Ident); ok && id.Name == "types" && len(ct.params) == len(args) {
				m := &ofMsg{req: ct.req, flds: map[string]opv{}}
				for f, pn := range ct.fields {
					for i, p := range ct.params {
						if p == pn {
							m.flds[f] = args[i].pv
						}
					}
				}
				return []ofBind{{pv: key, msg: m}}
			}
		}
	}
	all := recv.pv.union(key)
	kind, label := fr.e.classify(c)
	// the sub-account of an object derived from a bare id of the request (types.GetPositionAddress(id), GetOrderAddress ...):
	// an id-only selection of that object
	if strings.HasPrefix(name, "Get") && strings.HasSuffix(name, "Address") && len(c.Args) > 0 && len(key.fields) > 0 && !all.signer && len(all.objs) == 0 {
		w.n++
		nm := fmt.Sprintf("o%d", w.n)
		fr.emit(OStep{Kind: "Select", A: "Id", B: nm, C: exprString(c.Fun), Pos: w.pos(c)})
		return []ofBind{{pv: opv{objs: map[string]bool{nm: true}, addr: true}, obj: nm}}
	}
	stateful := hasCtxArg(c) || fr.e.passesRecv(c)
	for _, a := range c.Args { // sdk.UnwrapSDKContext(goCtx) handed over directly
		if ac, ok := unparen(a).(*ast.CallExpr); ok && callName(ac) == "UnwrapSDKContext" {
			stateful = true
		}
	}
	if _, isLit := unparen(c.Fun).(*ast.FuncLit); isLit {
		fr.eval(c.Fun)
		return []ofBind{{pv: all}}
	}
	callee, ckey := fr.e.resolve(c)
	hasMsg, hasInner := false, -1
	for i, a := range args {
		if a.msg != nil {
			hasMsg = true
			if !a.msg.outer {
				hasInner = i
			}
		}
	}
	if hasInner >= 0 && name != w.reqMethod[args[hasInner].msg.req] {
		hasInner = -1 // the inner message is handed to a helper, not to its handler: ordinary call
	}
	if name == "CacheContext" {
		return []ofBind{{}}
	}
	if hasInner >= 0 {
		m := args[hasInner].msg
		method := w.reqMethod[m.req]
		isigner := w.reqSigner[m.req]
		from := m.flds[isigner].src()
		if from == "Field:"+w.signer {
			from = "Signer"
		}
		fl := OInnerFlow{Handler: w.mod + "." + method, Field: isigner, From: from, Pos: w.pos(c)}
		w.inner = append(w.inner, fl)
		st := OStep{Kind: "Inner", A: fl.Handler, B: isigner, C: from, Pos: fl.Pos}
		if callee == nil || w.inlining[ckey] || fr.depth >= 5 {
			st.Body = []OStep{{Kind: "Write", A: "Other", B: label + " (inner handler not followed)", Pos: fl.Pos}}
			w.reasons = append(w.reasons, fl.Pos+": inner message "+m.req+" passed to a callee that cannot be followed")
			fr.emit(st)
			return []ofBind{{pv: all}}
		}
		rets := fr.inline(callee, ckey, c, args, &st.Body)
		fr.emit(st)
		return rets
	}
	if callee != nil && !w.inlining[ckey] && fr.depth < 5 && (hasMsg || (kind == cWrite && stateful && !all.empty())) {
		return fr.inline(callee, ckey, c, args, fr.out)
	}
	if !stateful && kind != cPure {
		if r := rootIdent(c.Fun); r == nil || !isCtxLike(r) {
			// no context and no keeper handed over: cannot touch the store (method of a local value, helper)
			if _, isIdent := unparen(c.Fun).(*ast.Ident); !isIdent {
				kind = cPure
			}
		}
	}
	switch kind {
	case cRead:
		owned, resolved := fr.ownedResult(c, callee)
		if !resolved && len(key.fields) > 0 && !key.signer {
			w.unresolved[label] = true
		}
		switch {
		case key.signer && (owned || !resolved):
			w.n++
			nm := fmt.Sprintf("o%d", w.n)
			fr.emit(OStep{Kind: "Select", A: "Signer", B: nm, C: label, Pos: w.pos(c)})
			return []ofBind{{pv: opv{objs: map[string]bool{nm: true}}, obj: nm}}
		case owned && (len(key.fields) > 0 || len(key.objs) == 0):
			// under request fields only, or under no key at all (a scan over ALL records of an owned type)
			w.n++
			nm := fmt.Sprintf("o%d", w.n)
			fr.emit(OStep{Kind: "Select", A: "Id", B: nm, C: label, Pos: w.pos(c)})
			return []ofBind{{pv: opv{objs: map[string]bool{nm: true}}, obj: nm}}
		default:
			fr.emit(OStep{Kind: "Read", A: label})
			return []ofBind{{pv: opv{signer: all.signer, objs: all.objs}}}
		}
	case cWrite:
		wk := "Other"
		switch {
		case all.signer:
			wk = "Signer"
		case len(all.objs) > 0:
			wk = "Obj"
		case len(key.fields) > 0 && stateful && len(c.Args) <= 3 && (strings.HasPrefix(name, "Remove") || strings.HasPrefix(name, "Delete")):
			wk = "Payload" // blind delete under a key made of request fields only
		}
		fr.emit(OStep{Kind: "Write", A: wk, B: label, Pos: w.pos(c)})
		return []ofBind{{pv: all}}
	}
	return []ofBind{{pv: all}}
}

func (fr *ofFrame) inline(callee *fn, ckey string, c *ast.CallExpr, args []ofBind, out *[]OStep) []ofBind {
	w := fr.w
	var params []string
	for _, fl := range callee.decl.Type.Params.List {
		if len(fl.Names) == 0 {
			params = append(params, "_")
		}
		for _, n := range fl.Names {
			params = append(params, n.Name)
		}
	}
	vars := map[string]*ofBind{}
	for i, p := range params {
		if i < len(args) && p != "_" {
			b := args[i]
			vars[p] = &b
		}
	}
	w.inlining[ckey] = true
	defer delete(w.inlining, ckey)
	ce := &env{p: w.p, f: callee, alias: map[string]ast.Expr{}, state: map[string]bool{}, once: countAssignments(callee.decl.Body, nil),
		inlining: map[string]bool{}, signer: w.signer, tainted: map[string]bool{}}
	cf := &ofFrame{w: w, e: ce, vars: vars, depth: fr.depth + 1, condDepth: fr.condDepth, inLoop: fr.inLoop, out: out}
	cf.block(callee.decl.Body.List)
	// result provenance: union over the return statements, per position
	var res []ofBind
	for _, r := range cf.rets {
		for i, b := range r {
			if i >= len(res) {
				res = append(res, b)
			} else {
				if res[i].obj != b.obj {
					res[i].obj = ""
				}
				if res[i].msg != b.msg {
					res[i].msg = nil
				}
				res[i].pv = res[i].pv.union(b.pv)
			}
		}
	}
	if len(res) == 0 {
		var u opv
		for _, a := range args {
			u = u.union(a.pv)
		}
		res = []ofBind{{pv: u}}
	}
	return res
}

func (fr *ofFrame) bind(l ast.Expr, b ofBind) {
	switch t := unparen(l).(type) {
	case *ast.Ident:
		if t.Name != "_" {
			nb := b
			fr.vars[t.Name] = &nb
		}
	default:
		if r := rootIdent(l); r != nil {
			if old := fr.vars[r.Name]; old != nil {
				if old.msg != nil && old.msg.outer {
					if s, ok := unparen(l).(*ast.SelectorExpr); ok && s.Sel.Name == fr.w.signer {
						fr.w.reasons = append(fr.w.reasons, fr.w.pos(l)+": the handler assigns the request's signer field")
					}
					return
				}
				old.pv = old.pv.union(b.pv)
			}
		}
	}
}

func containsCacheCtx(n ast.Node) bool {
	f := false
	ast.Inspect(n, func(x ast.Node) bool {
		if c, ok := x.(*ast.CallExpr); ok && callName(c) == "CacheContext" {
			f = true
		}
		return !f
	})
	return f
}

func (fr *ofFrame) loop(body *ast.BlockStmt, pre func(*ofFrame)) {
	st := OStep{Kind: "Loop", Cached: containsCacheCtx(body)}
	sub := *fr
	sub.out = &st.Body
	sub.inLoop = true
	if pre != nil {
		pre(&sub)
	}
	sub.block(body.List)
	fr.rets = sub.rets
	fr.emit(st)
}

func endsWith(b *ast.BlockStmt, tok token.Token) bool {
	if b == nil || len(b.List) == 0 {
		return false
	}
	br, ok := b.List[len(b.List)-1].(*ast.BranchStmt)
	return ok && br.Tok == tok
}

func hasExit(n ast.Node) bool {
	f := false
	ast.Inspect(n, func(x ast.Node) bool {
		switch t := x.(type) {
		case *ast.FuncLit:
			return false
		case *ast.ReturnStmt:
			f = true
		case *ast.BranchStmt:
			if t.Tok == token.CONTINUE || t.Tok == token.BREAK {
				f = true
			}
		}
		return !f
	})
	return f
}

func (fr *ofFrame) ifStmt(s *ast.IfStmt) {
	if s.Init != nil {
		fr.stmt(s.Init)
	}
	if s.Init == nil && s.Else == nil && fr.condDepth == 0 && (bodyReturnsErr(s.Body) || (fr.inLoop && endsWith(s.Body, token.CONTINUE))) &&
		!fr.e.scan(s.Body).write {
		if x, y, ok := neq(s.Cond); ok {
			bx, by := fr.eval(x), fr.eval(y)
			obj := func(b ofBind) string {
				if !b.pv.signer && len(b.pv.fields) == 0 && len(b.pv.objs) == 1 {
					return keysOf(b.pv.objs)
				}
				return ""
			}
			fld := func(e ast.Expr) string {
				if se, ok := unparen(e).(*ast.SelectorExpr); ok {
					return se.Sel.Name
				}
				return exprString(e)
			}
			if bx.pv.signerOnly() && obj(by) != "" {
				fr.emit(OStep{Kind: "Compare", A: obj(by), B: fr.w.signer, C: fld(y), Pos: fr.w.pos(s)})
				return
			}
			if by.pv.signerOnly() && obj(bx) != "" {
				fr.emit(OStep{Kind: "Compare", A: obj(bx), B: fr.w.signer, C: fld(x), Pos: fr.w.pos(s)})
				return
			}
		}
	}
	fr.eval(s.Cond)
	if hasExit(s.Body) || (s.Else != nil && hasExit(s.Else)) {
		fr.emit(OStep{Kind: "Check"})
	}
	fr.condDepth++
	fr.block(s.Body.List)
	if s.Else != nil {
		fr.stmt(s.Else)
	}
	fr.condDepth--
}

func (fr *ofFrame) block(list []ast.Stmt) {
	for _, s := range list {
		fr.stmt(s)
	}
}

func (fr *ofFrame) assign(lhs []ast.Expr, rhs []ast.Expr) {
	if len(rhs) == 1 && len(lhs) > 1 {
		var bs []ofBind
		if c, ok := unparen(rhs[0]).(*ast.CallExpr); ok {
			bs = fr.call(c)
		} else {
			bs = []ofBind{fr.eval(rhs[0])}
		}
		for i, l := range lhs {
			if i == 0 || i < len(bs) {
				fr.bind(l, pick(bs, i))
			} else {
				fr.bind(l, ofBind{})
			}
		}
		return
	}
	for i, l := range lhs {
		if i < len(rhs) {
			fr.bind(l, fr.eval(rhs[i]))
		}
	}
}

func (fr *ofFrame) stmt(s ast.Stmt) {
	switch t := s.(type) {
	case nil:
	case *ast.BlockStmt:
		fr.block(t.List)
	case *ast.IfStmt:
		fr.ifStmt(t)
	case *ast.AssignStmt:
		fr.assign(t.Lhs, t.Rhs)
	case *ast.DeclStmt:
		if gd, ok := t.Decl.(*ast.GenDecl); ok {
			for _, sp := range gd.Specs {
				if vs, ok := sp.(*ast.ValueSpec); ok {
					var lhs []ast.Expr
					for _, n := range vs.Names {
						lhs = append(lhs, n)
					}
					if len(vs.Values) > 0 {
						fr.assign(lhs, vs.Values)
					} else {
						for _, n := range vs.Names {
							fr.vars[n.Name] = &ofBind{}
						}
					}
				}
			}
		}
	case *ast.ExprStmt:
		fr.eval(t.X)
	case *ast.ReturnStmt:
		var r []ofBind
		if len(t.Results) == 1 {
			if c, ok := unparen(t.Results[0]).(*ast.CallExpr); ok {
				r = fr.call(c)
			}
		}
		if r == nil {
			for _, x := range t.Results {
				r = append(r, fr.eval(x))
			}
		}
		fr.rets = append(fr.rets, r)
	case *ast.RangeStmt:
		src := fr.eval(t.X)
		fr.loop(t.Body, func(sub *ofFrame) {
			for _, l := range []ast.Expr{t.Key, t.Value} {
				if l != nil {
					sub.bind(l, ofBind{pv: src.pv})
				}
			}
		})
	case *ast.ForStmt:
		fr.stmt(t.Init)
		fr.eval(t.Cond)
		fr.loop(t.Body, nil)
	case *ast.SwitchStmt:
		fr.stmt(t.Init)
		fr.eval(t.Tag)
		fr.condDepth++
		for _, cl := range t.Body.List {
			if cc, ok := cl.(*ast.CaseClause); ok {
				for _, x := range cc.List {
					fr.eval(x)
				}
				fr.block(cc.Body)
			}
		}
		fr.condDepth--
	case *ast.TypeSwitchStmt:
		fr.condDepth++
		for _, cl := range t.Body.List {
			if cc, ok := cl.(*ast.CaseClause); ok {
				fr.block(cc.Body)
			}
		}
		fr.condDepth--
	case *ast.IncDecStmt, *ast.BranchStmt, *ast.EmptyStmt:
	case *ast.DeferStmt:
		fr.eval(t.Call)
	case *ast.GoStmt:
		fr.eval(t.Call)
	case *ast.LabeledStmt:
		fr.stmt(t.Stmt)
	}
}

// ------------------------------------------------------------------ safety scan (mirrors Models/OwnerFlow.v flow_safe)

func ofRemove(u []string, n string) []string {
	var r []string
	for _, x := range u {
		if x != n {
			r = append(r, x)
		}
	}
	return r
}

func ofScan(body []OStep, signer string, u []string, reasons *[]string) []string {
	for _, s := range body {
		switch s.Kind {
		case "Select":
			if s.A == "Signer" {
				u = ofRemove(u, s.B)
			} else {
				u = append(ofRemove(u, s.B), s.B+"@"+s.Pos+" "+s.C)
			}
		case "Compare":
			if s.B == signer {
				var r []string
				for _, x := range u {
					if !strings.HasPrefix(x, s.A+"@") {
						r = append(r, x)
					}
				}
				u = r
			}
		case "Write":
			if len(u) > 0 {
				*reasons = append(*reasons, fmt.Sprintf("%s: write %s while the owner of %s (selected without the signer in its key) has not been compared with the signer", s.Pos, s.B, strings.Join(u, "; ")))
				u = nil
			}
			if s.A == "Payload" {
				*reasons = append(*reasons, fmt.Sprintf("%s: delete %s under a key made of non-signer request fields only, without reading the record first", s.Pos, s.B))
			}
		case "Loop":
			if len(u) > 0 {
				*reasons = append(*reasons, "loop entered with an unchecked selection: "+strings.Join(u, "; "))
				u = nil
			}
			if r := ofScan(s.Body, signer, nil, reasons); len(r) > 0 {
				*reasons = append(*reasons, "loop body ends with an unchecked selection: "+strings.Join(r, "; "))
			}
		case "Inner":
			if s.C != "Signer" {
				*reasons = append(*reasons, fmt.Sprintf("%s: inner %s gets its signer field %s from %s, not from the outer signer", s.Pos, s.A, s.B, s.C))
			}
			u = ofScan(s.Body, signer, u, reasons)
		}
	}
	return u
}

func ofHas(body []OStep, pred func(OStep) bool) bool {
	for _, s := range body {
		if pred(s) || ofHas(s.Body, pred) {
			return true
		}
	}
	return false
}

// ------------------------------------------------------------------ loading

func ofLoadKeeper(fset *token.FileSet, dir, mod string) (*pkg, error) {
	p := &pkg{mod: mod, funcs: map[string]*fn{}, embeds: map[string][]string{}}
	ents, err := os.ReadDir(dir)
	if err != nil {
		return p, nil
	}
	for _, e := range ents {
		n := e.Name()
		if e.IsDir() || !strings.HasSuffix(n, ".go") || strings.HasSuffix(n, "_test.go") {
			continue
		}
		f, err := parser.ParseFile(fset, filepath.Join(dir, n), nil, 0)
		if err != nil {
			return nil, err
		}
		imps := map[string]bool{}
		for _, im := range f.Imports {
			path := strings.Trim(im.Path.Value, `"`)
			name := path[strings.LastIndex(path, "/")+1:]
			if im.Name != nil {
				name = im.Name.Name
			}
			imps[name] = true
		}
		for _, d := range f.Decls {
			if gd, ok := d.(*ast.GenDecl); ok {
				for _, sp := range gd.Specs {
					ts, ok := sp.(*ast.TypeSpec)
					if !ok {
						continue
					}
					st, ok := ts.Type.(*ast.StructType)
					if !ok {
						continue
					}
					for _, fl := range st.Fields.List {
						if len(fl.Names) != 0 {
							continue
						}
						t := fl.Type
						if s, ok := t.(*ast.StarExpr); ok {
							t = s.X
						}
						if id, ok := t.(*ast.Ident); ok {
							p.embeds[ts.Name.Name] = append(p.embeds[ts.Name.Name], id.Name)
						}
					}
				}
			}
			fd, ok := d.(*ast.FuncDecl)
			if !ok || fd.Body == nil {
				continue
			}
			x := &fn{decl: fd, imports: imps}
			key := "." + fd.Name.Name
			if fd.Recv != nil && len(fd.Recv.List) == 1 {
				t := fd.Recv.List[0].Type
				if s, ok := t.(*ast.StarExpr); ok {
					t = s.X
				}
				if id, ok := t.(*ast.Ident); ok {
					x.recvType = id.Name
					key = id.Name + "." + fd.Name.Name
				}
				if len(fd.Recv.List[0].Names) == 1 {
					x.recvName = fd.Recv.List[0].Names[0].Name
				}
			}
			p.funcs[key] = x
		}
	}
	return p, nil
}

// owned record types of every module, by bare name
func ofOwnedTypes(repo string) map[string]bool {
	out := map[string]bool{}
	files, _ := filepath.Glob(filepath.Join(repo, "x", "*", "types", "*.pb.go"))
	sort.Strings(files)
	fset := token.NewFileSet()
	for _, f := range files {
		af, err := parser.ParseFile(fset, f, nil, 0)
		if err != nil {
			continue
		}
		for _, d := range af.Decls {
			gd, ok := d.(*ast.GenDecl)
			if !ok {
				continue
			}
			for _, sp := range gd.Specs {
				ts, ok := sp.(*ast.TypeSpec)
				if !ok {
					continue
				}
				st, ok := ts.Type.(*ast.StructType)
				n := ts.Name.Name
				if !ok || strings.HasPrefix(n, "Msg") || strings.HasPrefix(n, "Query") || strings.HasSuffix(n, "Request") || strings.HasSuffix(n, "Response") {
					continue
				}
				if _, ex := notOwned[n]; ex {
					continue
				}
				for _, fl := range st.Fields.List {
					if id, ok := fl.Type.(*ast.Ident); ok && id.Name == "string" {
						for _, fn := range fl.Names {
							if ownedFieldNames[fn.Name] {
								out[n] = true
							}
						}
					}
				}
			}
		}
	}
	return out
}

// constructors NewMsgX and the result types of the expected-keeper interfaces, from x/<mod>/types/*.go
func ofLoadTypes(dir string) (map[string]*ofCtor, map[string]string) {
	ctors := map[string]*ofCtor{}
	rets := map[string]string{}
	files, _ := filepath.Glob(filepath.Join(dir, "*.go"))
	sort.Strings(files)
	fset := token.NewFileSet()
	for _, f := range files {
		if strings.HasSuffix(f, "_test.go") || strings.HasSuffix(f, ".pb.go") || strings.HasSuffix(f, ".pb.gw.go") {
			continue
		}
		af, err := parser.ParseFile(fset, f, nil, 0)
		if err != nil {
			continue
		}
		for _, d := range af.Decls {
			switch t := d.(type) {
			case *ast.FuncDecl:
				if t.Recv != nil || t.Body == nil || !strings.HasPrefix(t.Name.Name, "NewMsg") {
					continue
				}
				ct := &ofCtor{fields: map[string]string{}}
				for _, fl := range t.Type.Params.List {
					for _, n := range fl.Names {
						ct.params = append(ct.params, n.Name)
					}
				}
				ast.Inspect(t.Body, func(x ast.Node) bool {
					cl, ok := x.(*ast.CompositeLit)
					if !ok || ct.req != "" {
						return true
					}
					if id, ok := cl.Type.(*ast.Ident); ok && strings.HasPrefix(id.Name, "Msg") {
						ct.req = id.Name
						for _, el := range cl.Elts {
							if kv, ok := el.(*ast.KeyValueExpr); ok {
								k, ok1 := kv.Key.(*ast.Ident)
								v, ok2 := unparen(kv.Value).(*ast.Ident)
								if ok1 && ok2 {
									ct.fields[k.Name] = v.Name
								}
							}
						}
					}
					return true
				})
				if ct.req != "" {
					ctors[t.Name.Name] = ct
				}
			case *ast.GenDecl:
				for _, sp := range t.Specs {
					ts, ok := sp.(*ast.TypeSpec)
					if !ok {
						continue
					}
					it, ok := ts.Type.(*ast.InterfaceType)
					if !ok {
						continue
					}
					for _, m := range it.Methods.List {
						ft, ok := m.Type.(*ast.FuncType)
						if !ok || len(m.Names) != 1 || ft.Results == nil || len(ft.Results.List) == 0 {
							continue
						}
						r := baseTypeName(ft.Results.List[0].Type)
						if old, dup := rets[m.Names[0].Name]; dup && old != r {
							r = ""
						}
						rets[m.Names[0].Name] = r
					}
				}
			}
		}
	}
	return ctors, rets
}

// ------------------------------------------------------------------ driver

func coqSteps(sb *strings.Builder, body []OStep) {
	if len(body) == 0 {
		sb.WriteString("ONil")
		return
	}
	sb.WriteString("<[")
	for i, s := range body {
		if i > 0 {
			sb.WriteString("; ")
		}
		switch s.Kind {
		case "Read":
			fmt.Fprintf(sb, "ORead %s", q(s.A))
		case "Check":
			sb.WriteString("OCheck")
		case "Select":
			if s.A == "Signer" {
				fmt.Fprintf(sb, "OSelect KSigner %s %s", q(s.B), q(s.C))
			} else {
				fmt.Fprintf(sb, "OSelect KId %s %s", q(s.B), q(s.C+" at "+s.Pos))
			}
		case "Compare":
			fmt.Fprintf(sb, "OCompare %s %s", q(s.A), q(s.B))
		case "Write":
			fmt.Fprintf(sb, "OWrite W%s %s", s.A, q(s.B))
		case "Loop":
			fmt.Fprintf(sb, "OLoop %v (", s.Cached)
			coqSteps(sb, s.Body)
			sb.WriteString(")")
		case "Inner":
			src := "SrcOther"
			switch {
			case s.C == "Signer":
				src = "SrcSigner"
			case strings.HasPrefix(s.C, "Field:"):
				src = "SrcField " + q(strings.TrimPrefix(s.C, "Field:"))
			case s.C == "State":
				src = "SrcState"
			}
			fmt.Fprintf(sb, "OInner %s %s (%s) (", q(s.A), q(s.B), src)
			coqSteps(sb, s.Body)
			sb.WriteString(")")
		}
	}
	sb.WriteString("]>")
}

func genOwnerFlow(repo, out string) error {
	mods, err := filepath.Glob(filepath.Join(repo, "x", "*", "types", "tx.pb.go"))
	if err != nil {
		return err
	}
	sort.Strings(mods)
	owned := ofOwnedTypes(repo)
	var flows []OFlow
	unresolvedReads := map[string]bool{}
	for _, tx := range mods {
		moddir := filepath.Dir(filepath.Dir(tx))
		mod := filepath.Base(moddir)
		structs, methods, err := loadTx(tx)
		if err != nil {
			return err
		}
		signers := loadSigners(filepath.Join(repo, "proto", "elys", mod))
		fset := token.NewFileSet()
		p, err := ofLoadKeeper(fset, filepath.Join(moddir, "keeper"), mod)
		if err != nil {
			return err
		}
		ctors, ifaceRet := ofLoadTypes(filepath.Join(moddir, "types"))
		reqMethod, reqSigner, hasAuth := map[string]string{}, map[string]string{}, map[string]bool{}
		for _, m := range methods {
			reqMethod[m[1]] = m[0]
			for _, f := range structs[m[1]] {
				if f.goName == "Authority" {
					hasAuth[m[1]] = true
				}
				if sp := signers[m[1]]; sp != "" && f.protoName == sp {
					reqSigner[m[1]] = f.goName
				}
			}
		}
		for _, m := range methods {
			fl := OFlow{Module: mod, Method: m[0], Req: m[1], Signer: reqSigner[m[1]], Body: []OStep{}}
			f, fkey := p.method("msgServer", m[0], map[string]bool{})
			if f == nil || f.decl.Type.Params == nil || len(f.decl.Type.Params.List) < 2 {
				fl.Class = "U"
				fl.Reasons = []string{"x/" + mod + "/keeper: handler " + m[0] + " not found on msgServer"}
				flows = append(flows, fl)
				continue
			}
			w := &ofWalker{repo: repo, mod: mod, p: p, fset: fset, signer: fl.Signer, reqMethod: reqMethod, reqSigner: reqSigner, ctors: ctors,
				owned: owned, ifaceRet: ifaceRet, inlining: map[string]bool{fkey: true}, unresolved: unresolvedReads}
			var names []string
			for _, pl := range f.decl.Type.Params.List {
				if len(pl.Names) == 0 {
					names = append(names, "_")
				}
				for _, n := range pl.Names {
					names = append(names, n.Name)
				}
			}
			e := &env{p: p, f: f, alias: map[string]ast.Expr{}, state: map[string]bool{}, once: countAssignments(f.decl.Body, nil),
				inlining: map[string]bool{}, signer: fl.Signer, tainted: map[string]bool{}}
			fr := &ofFrame{w: w, e: e, vars: map[string]*ofBind{}, out: &fl.Body}
			if len(names) >= 2 && names[1] != "_" {
				if rebound(f.decl.Body, names[1]) {
					w.reasons = append(w.reasons, w.pos(f.decl)+": the handler rebinds its request parameter")
				}
				fr.vars[names[1]] = &ofBind{pv: opv{signer: true, fields: map[string]bool{"*": true}}, msg: &ofMsg{outer: true, req: m[1]}}
			}
			fr.block(f.decl.Body.List)
			fl.Inner = w.inner
			reasons := append([]string{}, w.reasons...)
			if fl.Signer == "" {
				reasons = append(reasons, "request "+m[1]+" has no signer option")
			}
			if r := ofScan(fl.Body, fl.Signer, nil, &reasons); len(r) > 0 {
				_ = r // an unchecked selection that is never followed by a write: read-only
			}
			gov := hasAuth[m[1]]
			if !gov {
				// authority comparison as the first thing that can fail (same notion as Models/Authority.v guarded, from handlers.go)
				he := &env{p: p, f: f, alias: map[string]ast.Expr{}, state: map[string]bool{}, inlining: map[string]bool{"msgServer." + m[0]: true},
					signer: fl.Signer, tainted: map[string]bool{}}
				he.once = countAssignments(f.decl.Body, nil)
				if len(names) >= 2 && names[1] != "_" && !rebound(f.decl.Body, names[1]) {
					he.alias[names[1]] = ast.NewIdent(cMsg)
				}
				for _, s := range he.skeleton(f.decl.Body) {
					if s.Kind == "GuardAuthority" {
						gov = true
					}
				}
			}
			switch {
			case gov:
				fl.Class = "E"
			case len(reasons) > 0:
				fl.Class = "U"
				fl.Reasons = reasons
			case ofHas(fl.Body, func(s OStep) bool { return s.Kind == "Inner" }):
				fl.Class = "C"
			case ofHas(fl.Body, func(s OStep) bool { return s.Kind == "Compare" }):
				fl.Class = "B"
			case ofHas(fl.Body, func(s OStep) bool {
				return (s.Kind == "Select" && s.A == "Signer") || (s.Kind == "Write" && s.A == "Signer" && !strings.Contains(strings.ToLower(s.B), "bank"))
			}):
				fl.Class = "A"
			default:
				fl.Class = "D"
			}
			flows = append(flows, fl)
		}
	}
	sort.Slice(flows, func(i, j int) bool {
		if flows[i].Module != flows[j].Module {
			return flows[i].Module < flows[j].Module
		}
		return flows[i].Method < flows[j].Method
	})
	var sb strings.Builder
	sb.WriteString("(* GENERATED by tools/gotrans (gotrans ownerflow <repo> <out.v>) from the Go sources - DO NOT EDIT.\n")
	sb.WriteString("   Regenerated by ./check on every run; the committed copy only makes a fresh `make` work. *)\n")
	sb.WriteString("From Coq Require Import String List.\nFrom Elys Require Import Models.OwnerFlow.\nImport ListNotations.\nOpen Scope string_scope.\n\n")
	sb.WriteString("Definition oflows : list oflow := [\n")
	for i, fl := range flows {
		if i > 0 {
			sb.WriteString(";\n")
		}
		fmt.Fprintf(&sb, "  mkOF %s %s %s %s C%s %s (", q(fl.Module), q(fl.Method), q(fl.Req), q(fl.Signer), fl.Class, q(strings.Join(fl.Reasons, " | ")))
		coqSteps(&sb, fl.Body)
		sb.WriteString(")")
	}
	sb.WriteString("\n].\n")
	if err := os.MkdirAll(filepath.Dir(out), 0o755); err != nil {
		return err
	}
	if err := writeIfChanged(out, []byte(sb.String())); err != nil {
		return err
	}
	var ur []string
	for k := range unresolvedReads {
		ur = append(ur, k)
	}
	sort.Strings(ur)
	var ot []string
	for k := range owned {
		ot = append(ot, k)
	}
	sort.Strings(ot)
	js, _ := json.MarshalIndent(map[string]interface{}{"flows": flows, "owned_types": ot, "reads_keyed_by_payload_with_unresolved_result_type": ur}, "", " ")
	return writeIfChanged(filepath.Join(filepath.Dir(out), "ownerflow.json"), append(js, '\n'))
}
