// gotrans: Go-AST translator from the Elys source tree to Coq tables (coq/Generated/*.v).
// Standard library only (go/parser, go/ast, go/token). Output is deterministic (sorted) and
// contains nothing that depends on the location of the tree or on line numbers.
//
//	gotrans handlers <repo> <out.v>     every Msg service handler with its authorisation skeleton (C17);
//	                                    also writes handlers.json next to <out.v>
//	gotrans mintsites <repo> <out.v>    every MintCoins/BurnCoins site with denom class and reachability (C15)
//	gotrans blockers <repo> <out.v>     block pipeline order, error propagation and failure points (C18)
//	gotrans determinism <repo> <out.v>  keeper fields, package variables, map ranges, time/rand/goroutine uses (C19)
//	gotrans ownerflow <repo> <out.v>    per Msg handler: how the object it acts on is selected (signer-keyed / id + owner
//	                                    comparison / inner handler / not object-scoped / unknown) (C17); also ownerflow.json
//	gotrans arithC14|arithC07|arithC13|arithC03 <repo> <out.v>
//	                                    listed pure arithmetic functions as Gallina definitions over Base/Zdec.v (arith.go)
package main

import (
	"fmt"
	"os"
)

func main() {
	if len(os.Args) < 4 {
		fmt.Fprintln(os.Stderr, "usage: gotrans handlers|mintsites|blockers|determinism|ownerflow|arithCnn <repo> <out.v>")
		os.Exit(2)
	}
	var err error
	switch os.Args[1] {
	case "handlers":
		err = genHandlers(os.Args[2], os.Args[3])
	case "mintsites": // C15: every MintCoins/BurnCoins site, see mintsites.go
		err = genMintSites(os.Args[2], os.Args[3])
	case "blockers": // C18: begin/end blockers, epoch hooks and their failure points, see blockers.go
		err = genBlockers(os.Args[2], os.Args[3])
	case "determinism": // C19: keeper fields, package variables, map ranges, nondeterminism sources, see determinism.go
		err = genDeterminism(os.Args[2], os.Args[3])
	case "ownerflow": // C17 owner-scoped part: object selection and signer flow of every handler, see ownerflow.go
		err = genOwnerFlow(os.Args[2], os.Args[3])
	case "arithC14", "arithC07", "arithC13", "arithC03": // arithmetic ties: listed Go functions -> Gallina over Base/Zdec.v, see arith.go
		err = genArith(os.Args[1], os.Args[2], os.Args[3])
	case "arithC20", "arithC16", "arithC05", "arithC12", "arithC10": // second batch of arithmetic ties, specs in arith2.go
		err = genArith(os.Args[1], os.Args[2], os.Args[3])
	case "arithC03b": // weight-breaking fee of oracle pools, specs in arith3.go
		err = genArith(os.Args[1], os.Args[2], os.Args[3])
	default:
		err = fmt.Errorf("unknown table %q", os.Args[1])
	}
	if err != nil {
		fmt.Fprintln(os.Stderr, "gotrans:", err)
		os.Exit(1)
	}
}
