module gotrans

go 1.21
